//! C10 — expressions group by standard precedence; literals keep exact value and type.
//!
//! Real code: `rusty_parser::parse_main_str("PRINT <expr>")` (tree shape, positions erased) and
//! `rusty_basic::interpreter::verif::run_in_memory` (printed value).
//! Property oracle: a textbook precedence climber over the token list, written here in Rust
//! (independent of both the parser and the Lean model), and plain integer arithmetic for literals.
//! Model: `RbModel.Expr.parseChain` / `climb` / `decLit` / `hexLit` / `octLit` / `negLit` and
//! `RbModel.FloatLit.fracLit` / `negFracLit` through the driver.

use rb_harness::driver::ask;
use rb_harness::json::J;
use rb_harness::report::{Failure, Kind, Report};
use rb_harness::rng::Rng;
use rusty_basic::interpreter::verif::run_in_memory;
use rusty_parser::{Expression, GlobalStatement, Operator, PrintArg, Statement, UnaryOperator, parse_main_str};

// ---------------------------------------------------------------------------------------------
// vocabulary

const OP_TEXT: [&str; 13] = ["<", "<=", "=", ">=", ">", "<>", "+", "-", "*", "/", "MOD", "AND", "OR"];
/// the property's ranks: * / > MOD > + - > relational > (NOT) > AND > OR
const RANK_B: [u32; 13] = [4, 4, 4, 4, 4, 4, 5, 5, 7, 7, 6, 2, 1];
/// unary minus above everything, NOT between relational and AND
const RANK_U: [u32; 2] = [8, 3];

fn op_index(op: &Operator) -> usize {
    match op {
        Operator::Less => 0,
        Operator::LessOrEqual => 1,
        Operator::Equal => 2,
        Operator::GreaterOrEqual => 3,
        Operator::Greater => 4,
        Operator::NotEqual => 5,
        Operator::Plus => 6,
        Operator::Minus => 7,
        Operator::Multiply => 8,
        Operator::Divide => 9,
        Operator::Modulo => 10,
        Operator::And => 11,
        Operator::Or => 12,
    }
}

fn uop_index(op: &UnaryOperator) -> usize {
    match op {
        UnaryOperator::Minus => 0,
        UnaryOperator::Not => 1,
    }
}

#[derive(Clone, Copy, Debug, PartialEq)]
enum Tk {
    Opd(usize),
    Un(usize),
    Bin(usize),
    L,
    R,
}

#[derive(Clone, Debug, PartialEq)]
enum Tree {
    Leaf(usize),
    Paren(Box<Tree>),
    Un(usize, Box<Tree>),
    Bin(usize, Box<Tree>, Box<Tree>),
}

impl Tree {
    fn sx(&self) -> String {
        match self {
            Tree::Leaf(n) => format!("(l {})", n),
            Tree::Paren(t) => format!("(p {})", t.sx()),
            Tree::Un(u, t) => format!("(u {} {})", u, t.sx()),
            Tree::Bin(o, l, r) => format!("(b {} {} {})", o, l.sx(), r.sx()),
        }
    }
    fn root(&self) -> String {
        match self {
            Tree::Leaf(_) => "operand".into(),
            Tree::Paren(_) => "paren".into(),
            Tree::Un(u, _) => ["neg", "NOT"][*u].into(),
            Tree::Bin(o, _, _) => OP_TEXT[*o].into(),
        }
    }
}

/// First place (pre-order) where two trees differ: (root there in `a`, root there in `b`).
fn first_difference(a: &Tree, b: &Tree) -> Option<(String, String)> {
    match (a, b) {
        (Tree::Leaf(x), Tree::Leaf(y)) if x == y => None,
        (Tree::Paren(x), Tree::Paren(y)) => first_difference(x, y),
        (Tree::Un(u, x), Tree::Un(v, y)) if u == v => first_difference(x, y),
        (Tree::Bin(o, l1, r1), Tree::Bin(p, l2, r2)) if o == p => {
            first_difference(l1, l2).or_else(|| first_difference(r1, r2))
        }
        _ => Some((a.root(), b.root())),
    }
}

// ---------------------------------------------------------------------------------------------
// source text

/// Renders tokens as BASIC text. `tight`: no blanks around symbol operators.
fn render(tokens: &[Tk], tight: bool, suffix: &str) -> String {
    let mut s = String::new();
    let mut prev: Option<Tk> = None;
    for t in tokens {
        let piece = match t {
            Tk::Opd(n) => format!("X{}{}", n, suffix),
            Tk::Un(0) => "-".to_owned(),
            Tk::Un(_) => "NOT".to_owned(),
            Tk::Bin(o) => OP_TEXT[*o].to_owned(),
            Tk::L => "(".to_owned(),
            Tk::R => ")".to_owned(),
        };
        let is_kw = |t: &Tk| matches!(t, Tk::Bin(10..) | Tk::Un(1));
        let is_sym = |t: &Tk| matches!(t, Tk::Bin(0..=9));
        if let Some(p) = prev {
            let glue = matches!(p, Tk::Un(0) | Tk::L)
                || matches!(t, Tk::R)
                || (tight && !is_kw(&p) && !is_kw(t) && (is_sym(&p) || is_sym(t)));
            if !glue {
                s.push(' ');
            }
        }
        s.push_str(&piece);
        prev = Some(*t);
    }
    s
}

/// The source expression as the recursive descent sees it (`RbModel.Expr.Src`), as an S-expression.
fn src_sx(t: &[Tk], i: &mut usize) -> String {
    match t[*i] {
        Tk::Un(u) => {
            *i += 1;
            format!("(u {} {})", u, src_sx(t, i))
        }
        Tk::Opd(n) => {
            *i += 1;
            if let Some(Tk::Bin(o)) = t.get(*i) {
                *i += 1;
                format!("(ab {} {} {})", n, o, src_sx(t, i))
            } else {
                format!("(a {})", n)
            }
        }
        Tk::L => {
            *i += 1;
            let inner = src_sx(t, i);
            assert_eq!(t[*i], Tk::R);
            *i += 1;
            if let Some(Tk::Bin(o)) = t.get(*i) {
                *i += 1;
                format!("(pb {} {} {})", inner, o, src_sx(t, i))
            } else {
                format!("(p {})", inner)
            }
        }
        other => panic!("generator produced a malformed token list at {:?}", other),
    }
}

// ---------------------------------------------------------------------------------------------
// the property oracle: textbook precedence climbing

struct Climber<'a> {
    t: &'a [Tk],
    i: usize,
}

impl Climber<'_> {
    fn primary(&mut self) -> Option<Tree> {
        let tk = *self.t.get(self.i)?;
        self.i += 1;
        match tk {
            Tk::Opd(n) => Some(Tree::Leaf(n)),
            Tk::L => {
                let e = self.expr(0)?;
                if self.t.get(self.i) != Some(&Tk::R) {
                    return None;
                }
                self.i += 1;
                Some(Tree::Paren(Box::new(e)))
            }
            Tk::Un(u) => {
                let e = self.expr(RANK_U[u])?;
                Some(Tree::Un(u, Box::new(e)))
            }
            _ => None,
        }
    }
    fn expr(&mut self, min: u32) -> Option<Tree> {
        let mut lhs = self.primary()?;
        while let Some(Tk::Bin(o)) = self.t.get(self.i).copied() {
            if RANK_B[o] < min {
                break;
            }
            self.i += 1;
            let rhs = self.expr(RANK_B[o] + 1)?; // left associative
            lhs = Tree::Bin(o, Box::new(lhs), Box::new(rhs));
        }
        Some(lhs)
    }
}

fn reference_parse(tokens: &[Tk]) -> Tree {
    let mut c = Climber { t: tokens, i: 0 };
    let t = c.expr(0).expect("reference climber rejected a generated expression");
    assert_eq!(c.i, tokens.len(), "reference climber left tokens over");
    t
}

// ---------------------------------------------------------------------------------------------
// the real parser

fn erase(e: &Expression) -> Result<Tree, String> {
    match e {
        Expression::Variable(name, _) => {
            let s = name.to_string();
            let digits: String = s.chars().skip(1).take_while(|c| c.is_ascii_digit()).collect();
            digits.parse::<usize>().map(Tree::Leaf).map_err(|_| format!("unexpected variable {}", s))
        }
        Expression::Parenthesis(c) => Ok(Tree::Paren(Box::new(erase(&c.element)?))),
        Expression::UnaryExpression(op, c) => Ok(Tree::Un(uop_index(op), Box::new(erase(&c.element)?))),
        Expression::BinaryExpression(op, l, r, _) => {
            Ok(Tree::Bin(op_index(op), Box::new(erase(&l.element)?), Box::new(erase(&r.element)?)))
        }
        other => Err(format!("unexpected node {:?}", other)),
    }
}

fn real_expression(expr_text: &str) -> Result<Expression, String> {
    let text = format!("PRINT {}", expr_text);
    let program = match std::panic::catch_unwind(|| parse_main_str(text)) {
        Ok(Ok(p)) => p,
        Ok(Err(e)) => return Err(format!("parse-error {:?}", e.element)),
        Err(_) => return Err("panic".to_owned()),
    };
    if program.len() != 1 {
        return Err(format!("{} statements", program.len()));
    }
    match &program[0].element {
        GlobalStatement::Statement(Statement::Print(p)) if p.args.len() == 1 => match &p.args[0] {
            PrintArg::Expression(e) => Ok(e.element.clone()),
            other => Err(format!("unexpected print arg {:?}", other)),
        },
        other => Err(format!("unexpected statement {:?}", other)),
    }
}

/// Parses many expressions with few parser start-ups (one start-up costs ~4 ms, a line ~40 us): one
/// `PRINT` line per expression; a chunk that does not parse as a whole is split in halves.
fn batch_expressions(texts: &[String]) -> Vec<Result<Expression, String>> {
    fn go(texts: &[String], out: &mut Vec<Result<Expression, String>>) {
        if texts.len() == 1 {
            out.push(real_expression(&texts[0]));
            return;
        }
        let program: String = texts.iter().map(|t| format!("PRINT {}\n", t)).collect();
        let parsed = std::panic::catch_unwind(|| parse_main_str(program));
        if let Ok(Ok(p)) = parsed {
            if p.len() == texts.len() {
                let mut tmp = vec![];
                for st in &p {
                    match &st.element {
                        GlobalStatement::Statement(Statement::Print(pr)) if pr.args.len() == 1 => match &pr.args[0] {
                            PrintArg::Expression(e) => tmp.push(Ok(e.element.clone())),
                            _ => break,
                        },
                        _ => break,
                    }
                }
                if tmp.len() == texts.len() {
                    out.extend(tmp);
                    return;
                }
            }
        }
        let (a, b) = texts.split_at(texts.len() / 2);
        go(a, out);
        go(b, out);
    }
    let mut out = Vec::with_capacity(texts.len());
    for chunk in texts.chunks(512) {
        go(chunk, &mut out);
    }
    out
}

fn real_parse(expr_text: &str) -> Result<Tree, String> {
    real_expression(expr_text).and_then(|e| erase(&e))
}

// ---------------------------------------------------------------------------------------------
// value level

/// Evaluates the reference tree over INTEGER variables; `None` when a value leaves the INTEGER range,
/// divides by zero or uses `/` (floating point; not replayed).
fn eval(t: &Tree, env: &[i64]) -> Option<i64> {
    let ok = |v: i64| if (-32768..=32767).contains(&v) { Some(v) } else { None };
    match t {
        Tree::Leaf(n) => Some(env[*n]),
        Tree::Paren(t) => eval(t, env),
        Tree::Un(0, t) => ok(-eval(t, env)?),
        Tree::Un(_, t) => ok(-eval(t, env)? - 1),
        Tree::Bin(o, l, r) => {
            let a = eval(l, env)?;
            let b = eval(r, env)?;
            let tf = |c: bool| Some(if c { -1 } else { 0 });
            match o {
                0 => tf(a < b),
                1 => tf(a <= b),
                2 => tf(a == b),
                3 => tf(a >= b),
                4 => tf(a > b),
                5 => tf(a != b),
                6 => ok(a + b),
                7 => ok(a - b),
                8 => ok(a * b),
                9 => None,
                10 => {
                    if b == 0 {
                        None
                    } else {
                        ok(a % b)
                    }
                }
                11 => ok(((a as i32) & (b as i32)) as i64),
                _ => ok(((a as i32) | (b as i32)) as i64),
            }
        }
    }
}

fn run_program(text: &str) -> String {
    match std::panic::catch_unwind(|| run_in_memory(text, b"", 200_000, None, false)) {
        Ok(Ok(r)) => match r.result {
            Ok(()) => String::from_utf8_lossy(&r.stdout).trim().to_owned(),
            Err(e) => format!("runtime-error {:?}", e),
        },
        Ok(Err(e)) => format!("front-end-error {:?}", e),
        Err(_) => "panic".to_owned(),
    }
}

// ---------------------------------------------------------------------------------------------
// generators

/// The word `w` over 0..15 (0..13 binary operators, 13 = unary minus, 14 = NOT) as a token list:
/// a binary operator closes the current operand, a prefix operator opens the next one.
fn word_tokens(w: &[usize]) -> Vec<Tk> {
    let mut t = vec![];
    let mut k = 0;
    for &s in w {
        if s >= 13 {
            t.push(Tk::Un(s - 13));
        } else {
            t.push(Tk::Opd(k));
            k += 1;
            t.push(Tk::Bin(s));
        }
    }
    t.push(Tk::Opd(k));
    t
}

/// All ways to put one pair of parentheses around operands i..=j, opening either before the prefix
/// operators of operand i or directly before the operand.
fn paren_variants(t: &[Tk]) -> Vec<Vec<Tk>> {
    let opd_pos: Vec<usize> = (0..t.len()).filter(|&i| matches!(t[i], Tk::Opd(_))).collect();
    let mut res = vec![];
    for (a, &pi) in opd_pos.iter().enumerate() {
        // start of the prefix run of this operand
        let mut start = pi;
        while start > 0 && matches!(t[start - 1], Tk::Un(_)) {
            start -= 1;
        }
        for &pj in &opd_pos[a..] {
            for open in [start, pi] {
                let mut v = t[..open].to_vec();
                v.push(Tk::L);
                v.extend_from_slice(&t[open..=pj]);
                v.push(Tk::R);
                v.extend_from_slice(&t[pj + 1..]);
                if !res.contains(&v) {
                    res.push(v);
                }
            }
        }
    }
    res
}

fn random_expr(rng: &mut Rng, n_ops: usize, depth: usize, next: &mut usize, out: &mut Vec<Tk>) {
    for k in 0..=n_ops {
        while rng.chance(1, 5) {
            out.push(Tk::Un(rng.below(2) as usize));
        }
        if depth < 3 && rng.chance(1, 5) {
            out.push(Tk::L);
            let inner = rng.below(4) as usize;
            random_expr(rng, inner, depth + 1, next, out);
            out.push(Tk::R);
        } else {
            out.push(Tk::Opd(*next));
            *next += 1;
        }
        if k < n_ops {
            out.push(Tk::Bin(rng.below(13) as usize));
        }
    }
}

// ---------------------------------------------------------------------------------------------
// literals

fn lit_string(e: &Result<Expression, String>) -> String {
    match e {
        Ok(Expression::IntegerLiteral(i)) => format!("(int {})", i),
        Ok(Expression::LongLiteral(l)) => format!("(long {})", l),
        Ok(Expression::DoubleLiteral(f)) if f.fract() == 0.0 && f.abs() < 1e18 => format!("(double {})", *f as i128),
        Ok(Expression::DoubleLiteral(f)) => format!("(double-frac {:?})", f),
        Ok(Expression::SingleLiteral(f)) => format!("(single {:?})", f),
        Ok(other) => format!("not-a-literal {:?}", other),
        Err(e) if e.contains("Overflow") => "overflow".to_owned(),
        Err(e) => format!("error {}", e),
    }
}

/// The property: narrowest of INTEGER, LONG, DOUBLE that holds the value.
fn narrowest(v: i128) -> String {
    if (-32768..=32767).contains(&v) {
        format!("(int {})", v)
    } else if (-2147483648..=2147483647).contains(&v) {
        format!("(long {})", v)
    } else {
        format!("(double {})", v)
    }
}

/// The property for `&H` / `&O`: the bits, read as 16-bit or 32-bit two's complement.
fn twos_complement(n: u128) -> Option<i128> {
    if n < (1 << 16) {
        Some((n as u16 as i16) as i128)
    } else if n < (1 << 32) {
        Some((n as u32 as i32) as i128)
    } else {
        None
    }
}

struct LitCase {
    text: String,
    request: String,
    expected: String,
    class: &'static str,
}

fn digits_of(mut n: u128, base: u128, zeros: usize) -> (String, String) {
    let mut ds: Vec<u32> = vec![];
    if n == 0 {
        ds.push(0);
    }
    while n > 0 {
        ds.push((n % base) as u32);
        n /= base;
    }
    for _ in 0..zeros {
        ds.push(0);
    }
    ds.reverse();
    let text: String = ds.iter().map(|d| std::char::from_digit(*d, 16).unwrap().to_ascii_uppercase()).collect();
    let list = format!("({})", ds.iter().map(|d| d.to_string()).collect::<Vec<_>>().join(" "));
    (text, list)
}

fn lit_cases(n: u128, zeros: usize, neg: bool, lower: bool, out: &mut Vec<LitCase>) {
    // decimal
    let (dec_digits, dec_list) = digits_of(n, 10, zeros);
    let text = format!("{}{}", if neg { "-" } else { "" }, dec_digits);
    let v = if neg { -(n as i128) } else { n as i128 };
    out.push(LitCase {
        text,
        // the model is asked with the digit string as written (leading zeros included)
        request: format!("({} {})", if neg { "expr.negdecs" } else { "expr.decs" }, dec_list),
        expected: narrowest(v),
        class: if neg { "dec.neg" } else { "dec" },
    });
    for (base, letter, cmd, class) in [(16u128, "H", "hex", "hex"), (8u128, "O", "oct", "oct")] {
        let (digits, list) = digits_of(n, base, zeros);
        let digits = if lower { digits.to_lowercase() } else { digits };
        let text = format!("{}&{}{}", if neg { "-" } else { "" }, letter, digits);
        // by width: <= 16 significant bits INTEGER, 17..32 LONG, more is Overflow; a unary minus keeps the
        // width unless the value is the type's minimum (then the next wider type)
        let expected = match twos_complement(n) {
            None => "overflow".to_owned(),
            Some(v) => {
                let is_int = n < (1 << 16);
                match (neg, is_int) {
                    (false, true) => format!("(int {})", v),
                    (false, false) => format!("(long {})", v),
                    (true, true) if v == -32768 => "(long 32768)".to_owned(),
                    (true, true) => format!("(int {})", -v),
                    (true, false) if v == -2147483648 => "(double 2147483648)".to_owned(),
                    (true, false) => format!("(long {})", -v),
                }
            }
        };
        out.push(LitCase {
            text,
            request: format!("(expr.{}{} {})", if neg { "neg" } else { "" }, cmd, list),
            expected,
            class: if neg {
                if base == 16 { "hex.neg" } else { "oct.neg" }
            } else {
                class
            },
        });
    }
}


// ---------------------------------------------------------------------------------------------
// literals with a fraction

struct FracCase {
    neg: bool,
    int_digits: String,
    frac_digits: String,
    pound: bool,
    class: &'static str,
}

impl FracCase {
    fn text(&self) -> String {
        format!("{}{}.{}{}", if self.neg { "-" } else { "" }, self.int_digits, self.frac_digits, if self.pound { "#" } else { "" })
    }
    fn request(&self) -> String {
        let list = |d: &str| format!("({})", d.chars().map(|c| c.to_string()).collect::<Vec<_>>().join(" "));
        format!(
            "(expr.frac {} {} {} {})",
            if self.neg { "t" } else { "f" },
            list(&self.int_digits),
            list(&self.frac_digits),
            if self.pound { "t" } else { "f" }
        )
    }
}

/// `sign m e` with the magnitude `m * 2^e`, `m` odd (`0 0` for zero), or `sign inf` / `sign nan`:
/// the exact value of the IEEE bit pattern (`frac_bits` = 23 or 52).
fn float_bits_string(bits: u64, frac_bits: u32, exp_bits: u32) -> String {
    let sign = (bits >> (frac_bits + exp_bits)) & 1;
    let exp = ((bits >> frac_bits) & ((1u64 << exp_bits) - 1)) as i64;
    let frac = bits & ((1u64 << frac_bits) - 1);
    let bias = (1i64 << (exp_bits - 1)) - 1;
    if exp == (1i64 << exp_bits) - 1 {
        return format!("{} {}", sign, if frac == 0 { "inf" } else { "nan" });
    }
    let (mut m, mut e) = if exp == 0 { (frac, 1 - bias - frac_bits as i64) } else { (frac | (1u64 << frac_bits), exp - bias - frac_bits as i64) };
    if m == 0 {
        return format!("{} 0 0", sign);
    }
    while m % 2 == 0 {
        m /= 2;
        e += 1;
    }
    format!("{} {} {}", sign, m, e)
}

fn f32_string(f: f32) -> String {
    format!("(single {})", float_bits_string(f.to_bits() as u64, 23, 8))
}

fn f64_string(f: f64) -> String {
    format!("(double {})", float_bits_string(f.to_bits(), 52, 11))
}

fn frac_lit_string(e: &Result<Expression, String>) -> String {
    match e {
        Ok(Expression::SingleLiteral(f)) => f32_string(*f),
        Ok(Expression::DoubleLiteral(f)) => f64_string(*f),
        Ok(other) => format!("not-a-float-literal {:?}", other),
        // the parser's own rejection of a decimal beyond the range of the type
        Err(e) if e == "parse-error Overflow" => "overflow".to_owned(),
        Err(e) => format!("error {}", e),
    }
}

/// `2^1024 - 2^970`: the first whole number that is not a DOUBLE any more (halfway between the largest DOUBLE
/// and `2^1024`; the tie goes to the even significand, up). One less still rounds to the largest DOUBLE.
const DBL_EDGE: &str = "179769313486231580793728971405303415079934132710037826936173778980444968292764750946649017977587207096330286416692887910946555547851940402630657488671505820681908902000708383676273854845817711531764475730270069855571366959622842914819860834936475292719074168444365510704342711559699508093042880177904174497792";
const DBL_BELOW_EDGE: &str = "179769313486231580793728971405303415079934132710037826936173778980444968292764750946649017977587207096330286416692887910946555547851940402630657488671505820681908902000708383676273854845817711531764475730270069855571366959622842914819860834936475292719074168444365510704342711559699508093042880177904174497791";

/// The decimal expansion of `n * 2^q` as (integer digits, fraction digits), exact; `n * 5^-q` must fit u128
/// for negative `q`, `n << q` for positive `q`.
fn dyadic_decimal(n: u128, q: i32) -> Option<(String, String)> {
    if q >= 0 {
        if n.leading_zeros() <= q as u32 {
            return None;
        }
        Some(((n << q).to_string(), "0".to_owned()))
    } else {
        let k = (-q) as u32;
        let scaled = n.checked_mul(5u128.checked_pow(k)?)?;
        let s = format!("{:0>width$}", scaled.to_string(), width = k as usize + 1);
        let (a, b) = s.split_at(s.len() - k as usize);
        Some((a.to_owned(), b.to_owned()))
    }
}

fn frac_cases(rng: &mut Rng, thorough: bool) -> Vec<FracCase> {
    let mut out: Vec<FracCase> = vec![];
    // suffix and sign rotate; `both_types` asks the same digits as SINGLE and as DOUBLE
    fn push(out: &mut Vec<FracCase>, rng: &mut Rng, int_digits: String, frac_digits: String, class: &'static str, both_types: bool) {
        let neg = rng.chance(1, 3);
        let pound = rng.chance(1, 2);
        out.push(FracCase { neg, int_digits: int_digits.clone(), frac_digits: frac_digits.clone(), pound, class });
        if both_types {
            out.push(FracCase { neg: !neg, int_digits, frac_digits, pound: !pound, class });
        }
    }
    // (1) random digit strings of 1..25 digits, the point at every position (also in front of the first digit)
    let n_strings = if thorough { 12_000 } else { 1_200 };
    for i in 0..n_strings {
        let len = rng.range(1, 25) as usize;
        let mut ds: Vec<u8> = (0..len).map(|_| b'0' + rng.below(10) as u8).collect();
        // leading / trailing zeros on a part of the strings
        if i % 4 == 1 {
            let z = rng.range(1, 3) as usize;
            for d in ds.iter_mut().take(z.min(len)) {
                *d = b'0';
            }
        }
        if i % 4 == 2 {
            let z = rng.range(1, 3) as usize;
            for d in ds.iter_mut().rev().take(z.min(len)) {
                *d = b'0';
            }
        }
        let s = String::from_utf8(ds).unwrap();
        for p in 0..len {
            push(&mut out, rng, s[..p].to_owned(), s[p..].to_owned(), "fraction.random", p % 5 == 0);
        }
    }
    // (2) halfway cases: the decimal exactly between two adjacent floats, and the decimals one unit of a
    // further digit (and of a much further digit: inside half an ulp of the wider format) above and below it
    let n_half = if thorough { 20_000 } else { 2_500 };
    for i in 0..n_half {
        let double = i % 3 == 2;
        let (m, q): (u128, i32) = if double {
            ((1u128 << 52) | (rng.next_u64() as u128 & ((1 << 52) - 1)), rng.range(-27, 60) as i32)
        } else {
            ((1u128 << 23) | (rng.next_u64() as u128 & ((1 << 23) - 1)), rng.range(-39, 90) as i32)
        };
        // the midpoint between m * 2^q and (m + 1) * 2^q
        let Some((a, b)) = dyadic_decimal(2 * m + 1, q - 1) else { continue };
        let zeros = "0".repeat(rng.range(0, 14) as usize);
        let class: &'static str = if double { "fraction.half.double" } else { "fraction.half.single" };
        // the type the midpoint belongs to, and the other one (a SINGLE midpoint is exact as a DOUBLE;
        // a DOUBLE midpoint read as a SINGLE is an ordinary long decimal)
        for pound in [double, !double] {
            let neg = rng.chance(1, 3);
            out.push(FracCase { neg, int_digits: a.clone(), frac_digits: b.clone(), pound, class });
            out.push(FracCase { neg, int_digits: a.clone(), frac_digits: format!("{}{}1", b, zeros), pound, class });
            // just below: the last non-zero position lowered by one unit of a further digit
            let joined = format!("{}{}", a, b);
            let Some(below) = joined.parse::<u128>().ok().and_then(|v| v.checked_mul(10)).map(|v| v - 1) else { continue };
            let s = format!("{:0>width$}", below.to_string(), width = b.len() + 2);
            let (ba, bb) = s.split_at(s.len() - (b.len() + 1));
            out.push(FracCase { neg, int_digits: ba.to_owned(), frac_digits: format!("{}{}", bb, "9".repeat(zeros.len())), pound, class });
        }
    }
    // (3) dyadic rationals that fit: exact
    let n_exact = if thorough { 20_000 } else { 2_000 };
    for i in 0..n_exact {
        let bits = if i % 2 == 0 { rng.range(1, 24) } else { rng.range(25, 53) } as u32;
        let m = (rng.next_u64() as u128) & ((1u128 << bits) - 1);
        let q = rng.range(-30, 40) as i32;
        let Some((a, b)) = dyadic_decimal(m, q) else { continue };
        let lead = "0".repeat(rng.range(0, 2) as usize);
        let trail = "0".repeat(rng.range(0, 3) as usize);
        push(&mut out, rng, format!("{}{}", lead, a), format!("{}{}", b, trail), "fraction.dyadic", true);
    }
    // (4) no integer digits, zeros only, very small and very large magnitudes (subnormal range of SINGLE,
    // the overflow thresholds: `340282356779733661637539395458142568448` is the first decimal that is rejected as a
    // SINGLE, `2^1024 - 2^970` as a DOUBLE; the literal just below each is the largest finite value of the type)
    for (a, b) in [
        ("", "0"),
        ("0", "0"),
        ("000", "000"),
        ("", "5"),
        ("", "25"),
        ("1", "5"),
        ("3", "14159"),
        ("3", "141592653589793"),
        ("16777217", "0"),
        ("16777219", "0"),
        ("9007199254740993", "0"),
        ("0", "500000029802322387695312"),
        ("0", "5000000298023223876953125"),
        ("0", "50000002980232238769531250000000000001"),
        ("240611193", "875"),
        ("340282346638528859811704183484516925440", "0"),
        ("340282356779733661637539395458142568447", "9"),
        ("340282356779733661637539395458142568448", "0"),
        ("340282366920938463463374607431768211456", "0"),
        // the edges of DOUBLE: the largest accepted literals, the first rejected ones, far beyond
        (DBL_BELOW_EDGE, "9"),
        (DBL_BELOW_EDGE, "99999999999999999999"),
        (DBL_EDGE, "0"),
        (DBL_EDGE, "00000000000000000001"),
        ("1000000000000000000000000000000000000000000000000000000000000000000000000000000000000000000000000000000000000000000000000000000000000000000000000000000000000000000000000000000000000000000000000000000000000000000000000000000000000000000000000000000000000000000000000000000000000000000000000000000000000000000000", "0"),
        ("9999999999999999999999999999999999999999999999999999999999999999999999999999999999999999999999999999999999999999999999999999999999999999999999999999999999999999999999999999999999999999999999999999999999999999999999999999999999999999999999999999999999999999999999999999999999999999999999999999999999999999999999999999999999999999999999999999999999999999999999999999999999999999999999999999999999999999", "5"),
        ("", "00000000000000000000000000000000000001"),
        ("", "0000000000000000000000000000000000000117549435"),
        ("", "000000000000000000000000000000000000000000001"),
        ("", "0000000000000000000000000000000000000000000007"),
        ("", "0000000000000000000000000000000000000000000000001"),
    ] {
        for pound in [false, true] {
            for neg in [false, true] {
                out.push(FracCase { neg, int_digits: a.to_owned(), frac_digits: b.to_owned(), pound, class: "fraction.fixed" });
            }
        }
    }
    out
}

// ---------------------------------------------------------------------------------------------

struct ShapeCase {
    tokens: Vec<Tk>,
    tight: bool,
}

fn main() {
    std::panic::set_hook(Box::new(|_| {}));
    let mut rng = Rng::from_env();
    let mut rep = Report::new(
        "C10",
        "grouping: every word over the 13 binary + 2 prefix operators up to the tier's length, alone and with one \
         pair of parentheses around every operand range (class = source text), random chains up to 12 binary \
         operators with nested parentheses and stacked prefix operators; a case is trivial if it has no operator. \
         value level: the same expressions over INTEGER variables, printed value vs evaluation of the reference tree \
         (class = program text; trivial if the reference value is undefined: overflow, MOD 0, `/`). \
         literals: every 16-bit value in decimal, &H, &O, plain / leading zeros / negated, boundary and random \
         32-bit and wider values (class = literal text; 0 is trivial); literals with a fraction: random digit strings of \
         1..25 digits with the point at every position, decimals exactly halfway between adjacent SINGLEs / DOUBLEs and \
         their neighbours, dyadic rationals, leading / trailing zeros, with and without `#`, after a minus sign \
         (class = literal text; zero is trivial).",
    );
    let thorough = rep.is_thorough();
    let t0 = std::time::Instant::now();

    // ---- 1. tree shapes ------------------------------------------------------------------------
    let (max_plain, max_paren) = if thorough { (5, 3) } else { (3, 3) };
    let mut cases: Vec<ShapeCase> = vec![];
    for len in 0..=max_plain {
        let mut w = vec![0usize; len];
        loop {
            let t = word_tokens(&w);
            if len <= max_paren {
                for v in paren_variants(&t) {
                    cases.push(ShapeCase { tokens: v, tight: false });
                }
            }
            cases.push(ShapeCase { tokens: t, tight: false });
            // next word
            let mut i = 0;
            while i < len {
                w[i] += 1;
                if w[i] < 15 {
                    break;
                }
                w[i] = 0;
                i += 1;
            }
            if i == len {
                break;
            }
        }
    }
    let n_exhaustive = cases.len();
    rep.exhaustive_parts.push(format!(
        "tree shape of all {} expressions: every operator word of length <= {} (13 binary + 2 prefix operators), and \
         for length <= {} every placement of one parenthesis pair",
        n_exhaustive, max_plain, max_paren
    ));
    let n_random = if thorough { 200_000 } else { 20_000 };
    for _ in 0..n_random {
        let n_ops = rng.range(1, 12) as usize;
        let mut t = vec![];
        let mut next = 0;
        random_expr(&mut rng, n_ops, 0, &mut next, &mut t);
        cases.push(ShapeCase { tokens: t, tight: rng.chance(1, 3) });
    }

    let mut reqs: Vec<String> = Vec::with_capacity(cases.len() * 2);
    for c in &cases {
        let mut i = 0;
        let sx = src_sx(&c.tokens, &mut i);
        assert_eq!(i, c.tokens.len());
        reqs.push(format!("(expr.parse {})", sx));
        reqs.push(format!("(expr.climb {})", sx));
    }
    let answers = ask(&reqs);
    let texts: Vec<String> = cases.iter().map(|c| render(&c.tokens, c.tight, "")).collect();
    let real: Vec<Result<Tree, String>> =
        batch_expressions(&texts).into_iter().map(|r| r.and_then(|e| erase(&e))).collect();
    for (k, c) in cases.iter().enumerate() {
        let text = texts[k].clone();
        let n_operators = c.tokens.iter().filter(|t| matches!(t, Tk::Bin(_) | Tk::Un(_))).count();
        rep.case(if n_operators == 0 { None } else { Some(text.clone()) });
        let has_paren = c.tokens.contains(&Tk::L);
        let has_un = c.tokens.iter().any(|t| matches!(t, Tk::Un(_)));
        rep.bump(&format!(
            "shape.{}.{}{}",
            if k < n_exhaustive { "exhaustive" } else { "random" },
            if has_paren { "paren" } else { "plain" },
            if has_un { ".prefix" } else { "" }
        ));
        let reference = reference_parse(&c.tokens);
        let reference_sx = reference.sx();
        let model_parse = &answers[2 * k];
        let model_climb = &answers[2 * k + 1];
        match real[k].clone() {
            Ok(tree) => {
                if tree != reference {
                    let (a, b) = first_difference(&tree, &reference).unwrap();
                    rep.fail(Failure {
                        kind: Kind::ImplVsProperty,
                        signature: format!("group:{}:{}", a, b),
                        input: format!("PRINT {}", text),
                        implementation: tree.sx(),
                        expected: reference_sx.clone(),
                        note: "parse tree differs from the precedence-climbing reference".into(),
                    });
                }
                if tree.sx() != *model_parse {
                    rep.fail(Failure {
                        kind: Kind::ModelVsImpl,
                        signature: "model:parseChain".into(),
                        input: format!("PRINT {}", text),
                        implementation: tree.sx(),
                        expected: model_parse.clone(),
                        note: "RbModel.Expr.parseChain".into(),
                    });
                }
            }
            Err(e) => rep.fail(Failure {
                kind: Kind::ImplVsProperty,
                signature: "group:parse-error".into(),
                input: format!("PRINT {}", text),
                implementation: e,
                expected: reference_sx.clone(),
                note: "the parser rejected a well-formed expression".into(),
            }),
        }
        if *model_climb != reference_sx {
            rep.fail(Failure {
                kind: Kind::ModelVsImpl,
                signature: "model:climb".into(),
                input: reqs[2 * k + 1].clone(),
                implementation: reference_sx.clone(),
                expected: model_climb.clone(),
                note: "RbModel.Expr.climb vs the harness's precedence climber (two transcriptions of the reference)".into(),
            });
        }
        if k == 777 || k == n_exhaustive + 5 {
            rep.sample(J::s(format!("PRINT {}  =>  {}", text, reference_sx)));
        }
    }

    eprintln!("shapes done {:?}", t0.elapsed());
    // ---- 2. printed values -----------------------------------------------------------------------
    let mut vcases: Vec<Vec<Tk>> = vec![];
    let max_value_word = if thorough { 3 } else { 2 };
    for c in cases.iter().take(n_exhaustive) {
        let n_operators = c.tokens.iter().filter(|t| matches!(t, Tk::Bin(_) | Tk::Un(_))).count();
        if n_operators >= 1 && n_operators <= max_value_word && !c.tokens.contains(&Tk::Bin(9)) {
            vcases.push(c.tokens.clone());
        }
    }
    let n_exh_values = vcases.len();
    rep.exhaustive_parts.push(format!(
        "printed value of all {} expressions with 1..={} operators (no `/`), with and without one parenthesis pair, on \
         one random INTEGER assignment each",
        n_exh_values, max_value_word
    ));
    let n_random_values = if thorough { 30_000 } else { 3_000 };
    for _ in 0..n_random_values {
        let n_ops = rng.range(1, 6) as usize;
        let mut t = vec![];
        let mut next = 0;
        random_expr(&mut rng, n_ops, 1, &mut next, &mut t);
        for x in t.iter_mut() {
            if *x == Tk::Bin(9) {
                *x = Tk::Bin(*rng.pick(&[6usize, 7, 8, 10, 0, 11, 12]));
            }
        }
        vcases.push(t);
    }
    // the three confirmed value-level witnesses of F1/F2 first
    let witnesses: [(&str, &str); 5] = [
        ("PRINT 2 * 7 MOD 4", "2"),
        ("PRINT 10 MOD 7 MOD 2", "1"),
        ("PRINT 1 < 2 < 3", "-1"),
        ("A = 1: B = 2: C = 3: PRINT -A + B - C", "-2"),
        ("A% = -1: B% = 0: C% = 0: PRINT NOT A% AND B% OR C%", "0"),
    ];
    for (prog, want) in witnesses {
        rep.case(Some(prog.to_owned()));
        rep.bump("value.witness");
        let got = run_program(prog);
        if got != want {
            rep.fail(Failure {
                kind: Kind::ImplVsProperty,
                signature: format!("value:witness:{}", prog),
                input: prog.to_owned(),
                implementation: got,
                expected: want.to_owned(),
                note: "value-level witness of F1/F2".into(),
            });
        }
    }
    // one program per batch (a program start-up costs ~5 ms): shared INTEGER assignment, one PRINT per expression
    // whose reference value is defined; a batch whose output differs is replayed line by line
    let mut done = 0usize;
    for chunk in vcases.chunks(100) {
        let n_opd = chunk
            .iter()
            .flat_map(|t| t.iter())
            .filter_map(|x| if let Tk::Opd(n) = x { Some(*n + 1) } else { None })
            .max()
            .unwrap_or(1);
        let env: Vec<i64> = (0..n_opd)
            .map(|_| if rng.chance(1, 8) { rng.range(-3, 0) } else { rng.range(1, 9) })
            .collect();
        let mut header = String::from("DEFINT A-Z\n");
        for (i, v) in env.iter().enumerate() {
            header.push_str(&format!("X{} = {}\n", i, v));
        }
        let mut lines: Vec<(String, i64, Tree)> = vec![];
        for t in chunk {
            let reference = reference_parse(t);
            let text = render(t, false, "");
            let expected = eval(&reference, &env);
            rep.case(expected.map(|_| format!("{}|{:?}", text, &env[..env.len().min(6)])));
            rep.bump(if done < n_exh_values { "value.exhaustive" } else { "value.random" });
            done += 1;
            match expected {
                Some(v) => lines.push((text, v, reference)),
                None => rep.bump("value.skipped-undefined"),
            }
        }
        let prog: String = header.clone() + &lines.iter().map(|(t, _, _)| format!("PRINT {}\n", t)).collect::<String>();
        let got = run_program(&prog);
        let got_lines: Vec<String> = got.split('\n').map(|l| l.trim().to_owned()).collect();
        let want_lines: Vec<String> = lines.iter().map(|(_, v, _)| v.to_string()).collect();
        if done <= 100 {
            rep.sample(J::s(format!("{} => {}", prog.replace('\n', " : ").chars().take(300).collect::<String>(), want_lines[..3.min(want_lines.len())].join(","))));
        }
        if got_lines != want_lines {
            for (text, v, reference) in &lines {
                let single = format!("{}PRINT {}\n", header, text);
                let got = run_program(&single);
                if got != v.to_string() {
                    let sig = match real_parse(text) {
                        Ok(tree) => match first_difference(&tree, reference) {
                            Some((a, b)) => format!("value:group:{}:{}", a, b),
                            None => "value:evaluation".to_owned(),
                        },
                        Err(_) => "value:parse-error".to_owned(),
                    };
                    rep.fail(Failure {
                        kind: Kind::ImplVsProperty,
                        signature: sig,
                        input: single,
                        implementation: got,
                        expected: v.to_string(),
                        note: "printed value differs from the evaluation of the reference grouping".into(),
                    });
                }
            }
        }
    }

    eprintln!("values done {:?}", t0.elapsed());
    // ---- 3. literals -----------------------------------------------------------------------------
    let mut lits: Vec<LitCase> = vec![];
    for n in 0..65536u128 {
        // every value: plain; with leading zeros; negated (all three in the thorough tier, rotating in quick)
        lit_cases(n, 0, false, false, &mut lits);
        if thorough || n % 2 == 0 || n >= 32760 && n <= 32775 {
            lit_cases(n, 1 + (n % 3) as usize, false, n % 5 == 0, &mut lits);
        }
        if thorough || n % 2 == 1 || n >= 32760 && n <= 32775 {
            lit_cases(n, (n % 2) as usize, true, false, &mut lits);
        }
    }
    rep.exhaustive_parts.push(
        "literal type and value of all 65536 16-bit values written in decimal, &H and &O (plain; leading zeros and \
         negated: all in the thorough tier, alternating halves in quick)"
            .into(),
    );
    let mut wide: Vec<u128> = vec![];
    for b in [15u32, 16, 31, 32, 33, 36, 40, 48, 52] {
        for d in [-2i128, -1, 0, 1, 2] {
            wide.push(((1i128 << b) + d) as u128);
        }
    }
    wide.extend_from_slice(&[99999, 100000, 1000000000, 4000000000, 9999999999, 99999999999, 123456789012345]);
    let n_wide = if thorough { 200_000 } else { 20_000 };
    for _ in 0..n_wide {
        let bits = rng.range(1, 40) as u32;
        wide.push((rng.next_u64() as u128) & ((1u128 << bits) - 1));
    }
    for n in wide {
        lit_cases(n, (n % 3) as usize, false, n % 7 == 0, &mut lits);
        lit_cases(n, 0, true, false, &mut lits);
    }
    // expected parse errors cost one parser start-up each: keep a bounded number of them
    let max_overflow = if thorough { 4000 } else { 400 };
    let mut n_overflow = 0;
    lits.retain(|c| {
        if c.expected == "overflow" {
            n_overflow += 1;
            n_overflow <= max_overflow
        } else {
            true
        }
    });
    eprintln!("lits generated {:?}", t0.elapsed());
    let reqs: Vec<String> = lits.iter().map(|c| c.request.clone()).collect();
    let answers = ask(&reqs);
    eprintln!("lits asked {:?}", t0.elapsed());
    let ok_texts: Vec<String> = lits.iter().filter(|c| c.expected != "overflow").map(|c| c.text.clone()).collect();
    let mut ok_parsed = batch_expressions(&ok_texts).into_iter();
    for (c, model) in lits.iter().zip(answers.iter()) {
        let parsed = if c.expected == "overflow" { real_expression(&c.text) } else { ok_parsed.next().unwrap() };
        rep.case(if c.text.trim_start_matches(['-', '&', 'H', 'O', '0']).is_empty() { None } else { Some(c.text.clone()) });
        rep.bump(&format!("literal.{}", c.class));
        let got = lit_string(&parsed);
        if got != c.expected {
            let sig = format!("literal:{}", c.class);
            rep.fail(Failure {
                kind: Kind::ImplVsProperty,
                signature: sig,
                input: format!("PRINT {}", c.text),
                implementation: got.clone(),
                expected: c.expected.clone(),
                note: "literal value / narrowest type".into(),
            });
        }
        if got != *model {
            rep.fail(Failure {
                kind: Kind::ModelVsImpl,
                signature: format!("model:literal:{}", c.class),
                input: format!("PRINT {}  {}", c.text, c.request),
                implementation: got,
                expected: model.clone(),
                note: "RbModel.Expr.decLit / hexLit / octLit / negLit".into(),
            });
        }
    }
    rep.sample(J::s(format!("{} -> {}", lits[3 * 40000 + 1].text, lits[3 * 40000 + 1].expected)));
    // the LONG minimum directly after a minus sign (F3c before its repair), stated explicitly
    {
        rep.case(Some("-2147483648".into()));
        let got = lit_string(&real_expression("-2147483648"));
        if got != "(long -2147483648)" {
            rep.fail(Failure {
                kind: Kind::ImplVsProperty,
                signature: "literal:dec.neg".into(),
                input: "PRINT -2147483648".into(),
                implementation: got,
                expected: "(long -2147483648)".into(),
                note: "literal directly after unary minus: narrowest type".into(),
            });
        }
    }
    // runs of decimal digits around the end of the DOUBLE range (no fraction): below `2^1024 - 2^970` a DOUBLE
    // literal (the nearest one: Rust's own parse of the digits), from there on the parse error Overflow; the
    // property is decided here on the digit strings (length, then lexicographic), the model by `processDec`
    {
        let longer = |k: usize| format!("1{}", "0".repeat(k));
        let mut texts: Vec<String> = vec![
            DBL_BELOW_EDGE.to_owned(),
            DBL_EDGE.to_owned(),
            format!("00{}", DBL_BELOW_EDGE),
            format!("0{}", DBL_EDGE),
            // the largest DOUBLE itself and 2^1024
            "179769313486231570814527423731704356798070567525844996598917476803157260780028538760589558632766878171540458953514382464234321326889464182768467546703537516986049910576551282076245490090389328944075868508455133942304583236903222948165808559332123348274797826204144723168738177180919299881250404026184124858368".to_owned(),
            "179769313486231590772930519078902473361797697894230657273430081157732675805500963132708477322407536021120113879871393357658789768814416622492847430639474124377767893424865485276302219601246094119453082952085005768838150682342462881473913110540827237163350510684586298239947245938479716304835356329624224137216".to_owned(),
            longer(307),
            longer(308),
            longer(309),
            longer(400),
            "9".repeat(308),
            "9".repeat(309),
        ];
        for _ in 0..(if thorough { 400 } else { 60 }) {
            // random digit strings of 300..320 digits, and the edge with its last digits redrawn
            let len = rng.range(300, 320) as usize;
            let mut t: String = (0..len).map(|i| (b'0' + (if i == 0 { rng.range(1, 9) as u64 } else { rng.below(10) }) as u8) as char).collect();
            if rng.chance(1, 2) {
                let keep = rng.range(1, 308) as usize;
                t = format!("{}{}", &DBL_EDGE[..keep], (0..309 - keep).map(|_| (b'0' + rng.below(10) as u8) as char).collect::<String>());
            }
            texts.push(t);
        }
        let mut cases: Vec<(bool, String)> = vec![];
        for t in texts {
            cases.push((false, t.clone()));
            cases.push((true, t));
        }
        let list = |d: &str| format!("({})", d.chars().map(|c| c.to_string()).collect::<Vec<_>>().join(" "));
        let reqs: Vec<String> = cases.iter().map(|(neg, t)| format!("({} {})", if *neg { "expr.negdecs" } else { "expr.decs" }, list(t))).collect();
        let answers = ask(&reqs);
        let mut rejected = 0u64;
        for ((neg, t), model) in cases.iter().zip(answers.iter()) {
            let text = format!("{}{}", if *neg { "-" } else { "" }, t);
            rep.case(Some(text.clone()));
            rep.bump(if *neg { "literal.dec.huge.neg" } else { "literal.dec.huge" });
            let stripped = t.trim_start_matches('0');
            let fits = stripped.len() < DBL_EDGE.len() || (stripped.len() == DBL_EDGE.len() && stripped < DBL_EDGE);
            // the property: the written value as a DOUBLE (exact digits), or Overflow when no DOUBLE holds it
            let expected = if fits { format!("(double {}{})", if *neg { "-" } else { "" }, stripped) } else { "overflow".to_owned() };
            if !fits {
                rejected += 1;
            }
            let real = real_expression(&text);
            // the real literal: its f64 must be the nearest DOUBLE to the digits (Rust's parse), finite
            let nearest: f64 = t.parse::<f64>().map(|f| if *neg { -f } else { f }).unwrap_or(f64::NAN);
            let got = match &real {
                Ok(Expression::DoubleLiteral(f)) if f.is_finite() && f.to_bits() == nearest.to_bits() => {
                    format!("(double {}{})", if *neg { "-" } else { "" }, stripped)
                }
                Ok(Expression::DoubleLiteral(f)) => format!("(double-bits {:?} nearest {:?})", f, nearest),
                Ok(other) => format!("not-a-double-literal {:?}", other),
                Err(e) if e == "parse-error Overflow" => "overflow".to_owned(),
                Err(e) => format!("error {}", e),
            };
            if got != expected {
                rep.fail(Failure {
                    kind: Kind::ImplVsProperty,
                    signature: if got.contains("inf") { "literal:dec.huge:not-finite".into() } else { "literal:dec.huge".into() },
                    input: format!("PRINT {}", text),
                    implementation: got.clone(),
                    expected: expected.clone(),
                    note: "digits beyond the LONG range: the DOUBLE nearest to the written value, or Overflow when that is not finite".into(),
                });
            }
            if *model != expected {
                rep.fail(Failure {
                    kind: Kind::ModelVsImpl,
                    signature: "model:literal:dec.huge".into(),
                    input: format!("PRINT {}", text),
                    implementation: got,
                    expected: model.clone(),
                    note: "RbModel.Expr.processDec (dblOverflow) vs the property decided on the digit string".into(),
                });
            }
        }
        rep.bump_by("literal.dec.huge.rejected-overflow", rejected);
    }
    // fractions: SINGLE without suffix, DOUBLE with '#'; the value is the exact decimal rounded to nearest-even
    // (RbModel.FloatLit.fracLit / negFracLit, proved in Thm.C10Float), compared bit for bit; Rust's own
    // `str::parse` of the same text decides which side a disagreement belongs to
    {
        let fcs = frac_cases(&mut rng, thorough);
        let reqs: Vec<String> = fcs.iter().map(|c| c.request()).collect();
        let answers = ask(&reqs);
        let texts: Vec<String> = fcs.iter().map(|c| c.text()).collect();
        let parsed = batch_expressions(&texts);
        let mut rejected = 0u64;
        let mut rejected_by_type = [0u64; 2];
        for ((c, model), real) in fcs.iter().zip(answers.iter()).zip(parsed.iter()) {
            let text = c.text();
            let trivial = c.int_digits.trim_start_matches('0').is_empty() && c.frac_digits.trim_start_matches('0').is_empty();
            rep.case(if trivial { None } else { Some(text.clone()) });
            rep.bump(&format!("literal.{}", c.class));
            rep.bump(if c.pound { "literal.fraction.type.double" } else { "literal.fraction.type.single" });
            if c.neg {
                rep.bump("literal.fraction.negated");
            }
            let got = frac_lit_string(real);
            let unsigned = format!("{}.{}", if c.int_digits.is_empty() { "0" } else { &c.int_digits }, c.frac_digits);
            let std = if c.pound {
                unsigned
                    .parse::<f64>()
                    .map(|f| if f.is_finite() { f64_string(if c.neg { -f } else { f }) } else { "overflow".to_owned() })
                    .unwrap_or_else(|e| format!("error {:?}", e))
            } else {
                unsigned
                    .parse::<f32>()
                    .map(|f| if f.is_finite() { f32_string(if c.neg { -f } else { f }) } else { "overflow".to_owned() })
                    .unwrap_or_else(|e| format!("error {:?}", e))
            };
            if model == "overflow" {
                rejected += 1;
                rejected_by_type[c.pound as usize] += 1;
            }
            // the property by itself, whatever the model says: a literal is never an infinity or a NaN
            if got.ends_with("inf)") || got.ends_with("nan)") {
                rep.fail(Failure {
                    kind: Kind::ImplVsProperty,
                    signature: "literal:fraction:not-finite".into(),
                    input: format!("PRINT {}", text),
                    implementation: got.clone(),
                    expected: "a finite literal or the parse error Overflow".into(),
                    note: "a numeric literal denotes exactly its written value: no written value is an infinity".into(),
                });
            }
            if std != *model {
                rep.fail(Failure {
                    kind: Kind::ModelVsImpl,
                    signature: "model:literal:fraction".into(),
                    input: format!("{}  {}", text, c.request()),
                    implementation: std.clone(),
                    expected: model.clone(),
                    note: "RbModel.FloatLit.fracLit / negFracLit vs Rust's str::parse::<f32/f64> of the same text (not finite = overflow)".into(),
                });
            }
            if got != *model {
                rep.fail(Failure {
                    kind: if std == *model { Kind::ImplVsProperty } else { Kind::ModelVsImpl },
                    signature: format!("literal:{}", c.class),
                    input: format!("PRINT {}", text),
                    implementation: got,
                    expected: model.clone(),
                    note: "digits with a fraction: SINGLE, or DOUBLE with #; value = the decimal rounded to nearest-even \
                           (sign m e: magnitude m * 2^e)"
                        .into(),
                });
            }
        }
        rep.bump_by("literal.fraction.rejected-overflow", rejected);
        rep.bump_by("literal.fraction.rejected-overflow.single", rejected_by_type[0]);
        rep.bump_by("literal.fraction.rejected-overflow.double", rejected_by_type[1]);
        rep.sample(J::s(format!("{} -> {}", fcs[fcs.len() / 2].text(), answers[fcs.len() / 2])));
    }
    // fixed texts: the printed form of the literal, and the paths around `--` / `-&H`
    for (text, want) in [
        ("1.5", "(single 1.5)"),
        (".25", "(single 0.25)"),
        ("0.1", "(single 0.1)"),
        ("-1.5", "(single -1.5)"),
        ("3.14159", "(single 3.14159)"),
        ("1.5#", "(double-frac 1.5)"),
        ("-0.1#", "(double-frac -0.1)"),
        (".5#", "(double-frac 0.5)"),
        ("3.141592653589793#", "(double-frac 3.141592653589793)"),
        ("2.0#", "(double 2)"),
        ("2.0", "(single 2.0)"),
        // a minus sign directly followed by a number with a fraction: the negative literal of the same type
        ("-.5", "(single -0.5)"),
        ("-2147483648.0#", "(double -2147483648)"),
        ("-2147483648.5#", "(double-frac -2147483648.5)"),
        // a minus sign in front of something that is not a run of digits still negates the typed literal
        ("--5", "(int 5)"),
        ("--32768", "(long 32768)"),
        ("--2147483648", "(double 2147483648)"),
        ("-&H8000", "(long 32768)"),
    ] {
        rep.case(Some(text.to_owned()));
        rep.bump("literal.fraction");
        let got = lit_string(&real_expression(text));
        if got != want {
            rep.fail(Failure {
                kind: Kind::ImplVsProperty,
                signature: "literal:fraction".into(),
                input: format!("PRINT {}", text),
                implementation: got,
                expected: want.to_owned(),
                note: "digits with a fraction: SINGLE, or DOUBLE with #".into(),
            });
        }
    }
    eprintln!("all done {:?}", t0.elapsed());
    rep.finish();
}
