//! C05 (phase A of the ERROR simulation layer) — programs with ON ERROR GOTO / RESUME NEXT / GOTO 0 and RESUME / RESUME NEXT /
//! RESUME label (on top of the jump layer) on the real pipeline vs the three Lean models of `lean/RbModel/ErrL/`:
//!   * `errl.compare`: `RbModel.ErrL.Compile.compile p` = the real instruction list, instruction for instruction, AND
//!     `marks p` = the real statement-address table, AND `labelDepths p` = the real label-depth table;
//!   * `errl.run`: `RbModel.ErrL.Vm.run` on the model-compiled code = real outcome and stdout;
//!   * `errl.ref`: the big-step reference semantics `RbModel.ErrL.Ref.run` (resume units with `again` / `next`, the handler
//!     as a nested run) = real outcome and stdout;
//!   * `errl.wf`: the premise checkers `RbModel.ErrL.progWfB` and `wfXB` (together: `progWfXB`, the premise of
//!     `Thm.ErrLSim.compile_correct_checked`), counted per program.
//! Usage for debugging: `c05e <file.bas>` prints the answers for one program; `c05e --gen [n]` prints generated programs.

use rb_harness::corpus;
use rb_harness::driver::ask;
use rb_harness::errl_sx;
use rb_harness::gen_prog;
use rb_harness::json::J;
use rb_harness::refrun::{parse_ref_answer, run_real, Observed};
use rb_harness::report::{Failure, Kind, Report};
use rb_harness::rng::Rng;

const FUEL: u64 = 6000;
const BUDGET: u64 = 400_000;

// ------------------------------------------------------------------------------------------------
// the dedicated generator: failing-statement kind x position x handler mode. Every program is bounded: loops count, the
// handler counts its calls and ends the program after a few, conditions that fail for ever repair themselves.

/// what the failing statement is
const KINDS: [&str; 31] = [
    "asg-div", "asg-ovf", "asg-cast", "print", "if-cond", "elseif-cond", "while-cond", "dotop-while-cond", "dotop-until-cond",
    "loop-while-cond", "loop-until-cond", "for-lo", "for-hi", "for-step", "for-zero", "next-ovf", "next-ovf-step", "next-ovf-neg",
    "select-expr", "case-item", "case-item-pending", "case-multi", "case-range", "case-second", "case-is", "read-ood", "read-mismatch", "read-multi",
    "return-no-gosub", "resume-no-err", "resume-label-no-err",
];

/// where it sits
const POSITIONS: [&str; 27] = [
    "main-mid", "main-last", "if-first", "if-mid", "if-last", "if-last-noelse", "elseif-last", "else-last", "for-first", "for-last",
    "forstep-last", "forneg-last", "while-first", "while-last", "dotop-last", "dobottom-last", "case-first", "case-last",
    "caseelse-last", "gosub-first", "gosub-last", "gosub-in-for", "for-in-for-last", "select-in-for-last", "for-in-select", "while-in-for",
    "if-in-while",
];

/// how errors are handled
const MODES: [&str; 16] = [
    "none", "resume", "resume-next", "resume-next-repair", "resume-label", "resume-label-in", "fall-off", "handler-end",
    "on-error-resume-next", "goto-0", "replaced", "replaced-by-next", "next-replaced-by-goto", "err-in-handler", "handler-goto0",
    "two-errors",
];

struct FailStmt {
    /// DATA lines (top of the program)
    data: Vec<String>,
    /// set-up at depth 0 before everything
    pre: Vec<String>,
    /// the failing statement (one statement, possibly compound)
    stmt: Vec<String>,
    /// what the handler does to repair the cause
    repair: Vec<String>,
    /// RESUME (run it again) can succeed after the repair on the code under test
    again_ok: bool,
}

fn v(lines: &[&str]) -> Vec<String> {
    lines.iter().map(|l| (*l).to_owned()).collect()
}

fn failing(kind: &str) -> FailStmt {
    let d = |stmt: &[&str]| FailStmt { data: vec![], pre: vec![], stmt: v(stmt), repair: v(&["d% = 1"]), again_ok: true };
    match kind {
        "asg-div" => d(&["v% = 10 / d%"]),
        "asg-ovf" => FailStmt { data: vec![], pre: v(&["b% = 32767"]), stmt: v(&["v% = b% + 1"]), repair: v(&["b% = 1"]), again_ok: true },
        "asg-cast" => FailStmt { data: vec![], pre: v(&["g& = 40000"]), stmt: v(&["v% = g&"]), repair: v(&["g& = 4"]), again_ok: true },
        "print" => d(&["PRINT \"p\"; 10 / d%; \"q\";"]),
        "if-cond" => d(&["IF 10 / d% > 1 THEN", "  PRINT \"t\";", "ELSE", "  PRINT \"e\";", "END IF"]),
        "elseif-cond" => d(&["IF d% = 5 THEN", "  PRINT \"t\";", "ELSEIF 10 / d% > 1 THEN", "  PRINT \"u\";", "ELSE", "  PRINT \"e\";", "END IF"]),
        "while-cond" => d(&["WHILE w% < 2 / d%", "  w% = w% + 1", "  PRINT \"w\";", "  IF w% >= 4 THEN d% = 1", "WEND"]),
        "dotop-while-cond" => d(&["DO WHILE w% < 2 / d%", "  w% = w% + 1", "  PRINT \"w\";", "  IF w% >= 4 THEN d% = 1", "LOOP"]),
        "dotop-until-cond" => d(&["DO UNTIL w% >= 2 / d%", "  w% = w% + 1", "  PRINT \"w\";", "  IF w% >= 4 THEN d% = 1", "LOOP"]),
        "loop-while-cond" => d(&["DO", "  w% = w% + 1", "  PRINT \"w\";", "LOOP WHILE w% < 2 / d%"]),
        "loop-until-cond" => d(&["DO", "  w% = w% + 1", "  PRINT \"w\";", "LOOP UNTIL w% >= 2 / d%"]),
        "for-lo" => d(&["FOR k% = 2 / d% TO 3", "  PRINT \"k\"; k%;", "NEXT"]),
        "for-hi" => d(&["FOR k% = 1 TO 2 / d%", "  PRINT \"k\"; k%;", "NEXT"]),
        "for-step" => d(&["FOR k% = 1 TO 3 STEP 2 / d%", "  PRINT \"k\"; k%;", "NEXT"]),
        "for-zero" => {
            // RESUME after the repair runs the FOR statement again (finding C05-g: the code under test continues behind NEXT)
            FailStmt { data: vec![], pre: vec![], stmt: v(&["FOR k% = 1 TO 3 STEP s%", "  PRINT \"k\"; k%;", "NEXT"]), repair: v(&["s% = 2"]), again_ok: true }
        }
        // RESUME runs the increment of NEXT again: the handler moves the counter back, the loop goes round again and NEXT fails
        // again (the handler ends the program after five calls)
        "next-ovf" => FailStmt { data: vec![], pre: vec![], stmt: v(&["FOR k% = 32766 TO 32767", "  PRINT \"n\"; k%;", "NEXT"]), repair: v(&["k% = 32765"]), again_ok: true },
        "next-ovf-step" => {
            FailStmt { data: vec![], pre: vec![], stmt: v(&["FOR k% = 32765 TO 32767 STEP 2", "  PRINT \"n\"; k%;", "NEXT"]), repair: v(&["k% = 32763"]), again_ok: true }
        }
        "next-ovf-neg" => {
            FailStmt { data: vec![], pre: vec![], stmt: v(&["FOR k% = -32767 TO -32768 STEP -1", "  PRINT \"n\"; k%;", "NEXT"]), repair: v(&["k% = -32766"]), again_ok: true }
        }
        "select-expr" => d(&["SELECT CASE 10 / d%", "CASE 10", "  PRINT \"c\";", "CASE ELSE", "  PRINT \"x\";", "END SELECT"]),
        "case-item" => d(&["SELECT CASE 10", "CASE 10 / d%", "  PRINT \"c\";", "CASE ELSE", "  PRINT \"x\";", "END SELECT"]),
        // the failing item has an operand pending on the value stack when it fails (finding C05-h: RESUME tests the abandoned 4)
        "case-item-pending" => d(&["SELECT CASE 14", "CASE 4 + (10 / d%)", "  PRINT \"c\";", "CASE ELSE", "  PRINT \"x\";", "END SELECT"]),
        "case-multi" => d(&["SELECT CASE 10", "CASE 3, 10 / d%, 4", "  PRINT \"c\";", "CASE ELSE", "  PRINT \"x\";", "END SELECT"]),
        "case-range" => d(&["SELECT CASE 10", "CASE 1 TO 20 / d%", "  PRINT \"c\";", "CASE ELSE", "  PRINT \"x\";", "END SELECT"]),
        "case-second" => d(&["SELECT CASE 10", "CASE 3", "  PRINT \"3\";", "CASE 10 / d%", "  PRINT \"c\";", "CASE 10", "  PRINT \"y\";", "END SELECT"]),
        "case-is" => d(&["SELECT CASE 10", "CASE IS > 5 / d%", "  PRINT \"c\";", "END SELECT"]),
        "read-ood" => FailStmt { data: vec![], pre: vec![], stmt: v(&["READ r%"]), repair: vec![], again_ok: false },
        "read-mismatch" => FailStmt { data: v(&["DATA \"x\", 5, 6, 7"]), pre: vec![], stmt: v(&["READ r%"]), repair: vec![], again_ok: true },
        "read-multi" => FailStmt { data: v(&["DATA 1, \"x\", 3, 4, 5, 6"]), pre: vec![], stmt: v(&["READ r%, q%"]), repair: vec![], again_ok: true },
        "return-no-gosub" => FailStmt { data: vec![], pre: vec![], stmt: v(&["RETURN"]), repair: vec![], again_ok: false },
        "resume-no-err" => FailStmt { data: vec![], pre: vec![], stmt: v(&["RESUME NEXT"]), repair: vec![], again_ok: false },
        "resume-label-no-err" => FailStmt { data: vec![], pre: vec![], stmt: v(&["RESUME LZ"]), repair: vec![], again_ok: false },
        _ => unreachable!(),
    }
}

fn ind(lines: &[String]) -> Vec<String> {
    lines.iter().map(|l| format!("  {}", l)).collect()
}

/// the failing statement inside its context; `lbl` = lines to put right behind the failing statement, inside the innermost
/// block (the target of RESUME label when it lies inside the enclosing loops; for FOR in FOR: in the OUTER body, behind the
/// inner loop). Returns (main lines, routine lines); None = the position cannot hold a label (body of a FOR … STEP).
fn place(pos: &str, stmt: &[String], lbl: &[String]) -> Option<(Vec<String>, Vec<String>)> {
    let t = |s: &str| format!("PRINT \"{}\";", s);
    let mut st: Vec<String> = stmt.to_vec();
    st.extend(lbl.iter().cloned());
    let blk = |head: &[&str], pre: &[String], post: &[String], foot: &[&str]| -> Vec<String> {
        let mut out = v(head);
        let mut body = pre.to_vec();
        body.extend(st.iter().cloned());
        body.extend(post.iter().cloned());
        out.extend(ind(&body));
        out.extend(v(foot));
        out
    };
    let no_label_here = !lbl.is_empty() && matches!(pos, "forstep-last" | "forneg-last");
    if no_label_here {
        return None;
    }
    let mut routine = vec![];
    let main = match pos {
        "main-mid" => blk(&[], &[], &[], &[]),
        "if-first" => blk(&["IF 1 THEN"], &[], &[t("b")], &["ELSE", "  PRINT \"x\";", "END IF"]),
        "if-mid" => blk(&["IF 1 THEN"], &[t("b")], &[t("c")], &["ELSE", "  PRINT \"x\";", "END IF"]),
        "if-last" => blk(&["IF 1 THEN"], &[t("b")], &[], &["ELSE", "  PRINT \"x\";", "END IF"]),
        "if-last-noelse" => blk(&["IF 1 THEN"], &[t("b")], &[], &["END IF"]),
        "elseif-last" => blk(&["IF 0 THEN", "  PRINT \"x0\";", "ELSEIF 1 THEN"], &[t("b")], &[], &["ELSEIF 1 THEN", "  PRINT \"x1\";", "ELSE", "  PRINT \"x2\";", "END IF"]),
        "else-last" => blk(&["IF 0 THEN", "  PRINT \"x0\";", "ELSE"], &[t("b")], &[], &["END IF"]),
        "for-first" => blk(&["FOR i% = 1 TO 2"], &[], &["PRINT \"b\"; i%;".to_owned()], &["NEXT"]),
        "for-last" => blk(&["FOR i% = 1 TO 2"], &["PRINT \"b\"; i%;".to_owned()], &[], &["NEXT"]),
        "forstep-last" => blk(&["FOR i% = 1 TO 3 STEP 2"], &["PRINT \"b\"; i%;".to_owned()], &[], &["NEXT"]),
        "forneg-last" => blk(&["FOR i% = 2 TO 1 STEP -1"], &["PRINT \"b\"; i%;".to_owned()], &[], &["NEXT"]),
        "while-first" => blk(&["c% = 0", "WHILE c% < 2"], &["c% = c% + 1".to_owned()], &[t("b")], &["WEND"]),
        "while-last" => blk(&["c% = 0", "WHILE c% < 2"], &["c% = c% + 1".to_owned(), t("b")], &[], &["WEND"]),
        "dotop-last" => blk(&["c% = 0", "DO UNTIL c% >= 2"], &["c% = c% + 1".to_owned(), t("b")], &[], &["LOOP"]),
        "dobottom-last" => blk(&["c% = 0", "DO"], &["c% = c% + 1".to_owned(), t("b")], &[], &["LOOP WHILE c% < 2"]),
        "case-first" => blk(&["SELECT CASE 1", "CASE 1"], &[], &[t("b")], &["CASE ELSE", "  PRINT \"x\";", "END SELECT"]),
        "case-last" => blk(&["SELECT CASE 1", "CASE 1"], &[t("b")], &[], &["CASE 2", "  PRINT \"x\";", "END SELECT"]),
        "caseelse-last" => blk(&["SELECT CASE 2", "CASE 1", "  PRINT \"x\";", "CASE ELSE"], &[t("b")], &[], &["END SELECT"]),
        "gosub-first" | "gosub-last" | "gosub-in-for" => {
            routine = if pos == "gosub-first" { blk(&["R:"], &[], &[t("r")], &["RETURN"]) } else { blk(&["R:"], &[t("r")], &[], &["RETURN"]) };
            if pos == "gosub-in-for" {
                v(&["FOR i% = 1 TO 2", "  GOSUB R", "  PRINT \"b\"; i%;", "NEXT"])
            } else {
                v(&["GOSUB R", "PRINT \"b\";"])
            }
        }
        "for-in-for-last" => {
            // (different limits: a register frame left behind or lost shows in the outer loop)
            // the target of RESUME label sits in the OUTER body, behind the inner loop: the jump leaves the inner loop only
            let mut inner = v(&["FOR j% = 1 TO 2", "  PRINT \"b\"; j%;"]);
            inner.extend(ind(stmt));
            inner.push("NEXT".to_owned());
            inner.extend(lbl.iter().cloned());
            let mut out = v(&["FOR i% = 1 TO 3"]);
            out.extend(ind(&inner));
            out.extend(v(&["  PRINT \"o\"; i%;", "NEXT"]));
            out
        }
        "select-in-for-last" => {
            let inner = blk(&["SELECT CASE i%", "CASE 1, 2"], &[t("b")], &[], &["END SELECT"]);
            let mut out = v(&["FOR i% = 1 TO 2"]);
            out.extend(ind(&inner));
            out.push("NEXT".to_owned());
            out
        }
        "for-in-select" => {
            let inner = blk(&["FOR i% = 1 TO 2"], &[t("b")], &[], &["NEXT"]);
            let mut out = v(&["SELECT CASE 1", "CASE 1"]);
            out.extend(ind(&inner));
            out.extend(v(&["  PRINT \"o\";", "END SELECT"]));
            out
        }
        "while-in-for" => {
            let inner = blk(&["c% = 0", "WHILE c% < 2"], &["c% = c% + 1".to_owned()], &[], &["WEND"]);
            let mut out = v(&["FOR i% = 1 TO 2"]);
            out.extend(ind(&inner));
            out.push("NEXT".to_owned());
            out
        }
        "if-in-while" => {
            let inner = blk(&["IF c% >= 1 THEN"], &[t("b")], &[], &["END IF"]);
            let mut out = v(&["c% = 0", "WHILE c% < 2"]);
            out.push("  c% = c% + 1".to_owned());
            out.extend(ind(&inner));
            out.push("WEND".to_owned());
            out
        }
        _ => return None,
    };
    Some((main, routine))
}

/// the program of one (kind, position, mode) cell; None = the cell does not exist (see the comments) or lies outside what the
/// code under test supports (reported separately as candidate defects, see `excluded`)
fn cell(kind: &str, pos: &str, mode: &str) -> Option<String> {
    if excluded(kind, pos, mode).is_some() {
        return None;
    }
    let f = failing(kind);
    // running it again can never succeed: the handler would be called for ever (bounded, but nothing to learn)
    let again = matches!(mode, "resume" | "replaced" | "next-replaced-by-goto" | "two-errors");
    if again && !f.again_ok {
        return None;
    }
    // a pending GOSUB would make the bare RETURN succeed
    if kind == "return-no-gosub" && pos.starts_with("gosub") {
        return None;
    }
    let label_in = mode == "resume-label-in";
    let lbl = if label_in { v(&["LR:", "PRINT \"l\";"]) } else { vec![] };
    if label_in && pos == "main-mid" {
        return None;
    }
    let has_handler = !matches!(mode, "none" | "on-error-resume-next");
    let setup: Vec<String> = match mode {
        "none" => vec![],
        "on-error-resume-next" => v(&["ON ERROR RESUME NEXT"]),
        "goto-0" => v(&["ON ERROR GOTO H", "ON ERROR GOTO 0"]),
        "replaced" => v(&["ON ERROR GOTO H0", "ON ERROR GOTO H"]),
        "replaced-by-next" => v(&["ON ERROR GOTO H", "ON ERROR RESUME NEXT"]),
        "next-replaced-by-goto" => v(&["ON ERROR RESUME NEXT", "ON ERROR GOTO H"]),
        _ => v(&["ON ERROR GOTO H"]),
    };
    let mut handler: Vec<String> = vec![];
    if has_handler {
        handler.extend(v(&["H:", "n% = n% + 1", "IF n% > 5 THEN END", "PRINT \"h\"; n%;"]));
        match mode {
            "resume" | "replaced" | "next-replaced-by-goto" => {
                handler.extend(f.repair.clone());
                handler.push("RESUME".to_owned());
            }
            "resume-next" | "goto-0" | "replaced-by-next" => handler.push("RESUME NEXT".to_owned()),
            "resume-next-repair" => {
                handler.extend(f.repair.clone());
                handler.push("v% = v% + 100".to_owned());
                handler.push("RESUME NEXT".to_owned());
            }
            "resume-label" | "resume-label-in" => {
                handler.extend(f.repair.clone());
                handler.push("RESUME LR".to_owned());
            }
            "fall-off" => {}
            "handler-end" => handler.push("END".to_owned()),
            "err-in-handler" => {
                handler.push("y% = 1 / zz%".to_owned());
                handler.push("RESUME NEXT".to_owned());
            }
            "handler-goto0" => {
                handler.push("ON ERROR GOTO 0".to_owned());
                handler.extend(f.repair.clone());
                handler.push("RESUME NEXT".to_owned());
            }
            "two-errors" => {
                handler.push("IF n% = 1 THEN".to_owned());
                handler.extend(ind(&f.repair));
                handler.push("  RESUME".to_owned());
                handler.push("END IF".to_owned());
                handler.push("e% = 1".to_owned());
                handler.push("RESUME NEXT".to_owned());
            }
            _ => return None,
        }
        if mode == "replaced" {
            handler.extend(v(&["H0:", "PRINT \"wrong handler\";", "END"]));
        }
    }
    let (main, routine) = place(if pos == "main-last" { "main-mid" } else { pos }, &f.stmt, &lbl)?;
    let mut out: Vec<String> = f.data.clone();
    let tail_dump = "PRINT \"|\"; v%; d%; w%; k%; r%; q%; n%";
    if pos == "main-last" {
        // the failing statement is the last statement of the program text: the handler and the routines come first
        if matches!(mode, "fall-off" | "resume-label" | "resume-label-in" | "two-errors" | "handler-goto0") || !routine.is_empty() {
            return None;
        }
        out.push("GOTO M0".to_owned());
        out.extend(handler);
        out.push("M0:".to_owned());
        out.extend(setup);
        out.extend(f.pre.clone());
        out.push("PRINT \"a\";".to_owned());
        out.extend(main);
        if kind == "resume-label-no-err" {
            return None;
        }
        return Some(out.join("\n") + "\n");
    }
    out.extend(setup);
    out.extend(f.pre.clone());
    out.push("PRINT \"a\";".to_owned());
    out.extend(main);
    if mode == "resume-label" {
        out.push("LR:".to_owned());
        out.push("PRINT \"l\";".to_owned());
    }
    if kind == "resume-label-no-err" {
        out.push("LZ:".to_owned());
    }
    if matches!(mode, "two-errors" | "handler-goto0") {
        // a second failing statement, later
        out.push("PRINT \"2\";".to_owned());
        out.push("u% = 10 / e%".to_owned());
        out.push("PRINT u%;".to_owned());
    }
    out.push("PRINT \"z\";".to_owned());
    out.push(tail_dump.to_owned());
    out.push("END".to_owned());
    out.extend(routine);
    out.extend(handler);
    Some(out.join("\n") + "\n")
}

/// cells that the generator leaves out because the code under test is known (from reading it) not to implement the
/// property there. Empty since 26672d3 / 3abb028 / 7249205: the three groups that used to be listed here (`next-ovf-neg` x the
/// handled modes, `gosub-in-for` x `resume-label-in`, and RESUME after a failed NEXT / a zero step) are part of the matrix
/// again; what the code under test still gets wrong there (RESUME after a zero step, finding C05-g) is REPORTED by the
/// comparison with the reference semantics, not left out
fn excluded(_kind: &str, _pos: &str, _mode: &str) -> Option<&'static str> {
    None
}

/// special programs outside the matrix
fn specials() -> Vec<(&'static str, String)> {
    let mut out: Vec<(&'static str, String)> = vec![];
    let p = |lines: &[&str]| lines.join("\n") + "\n";
    out.push((
        "several-errors-one-run",
        p(&[
            "ON ERROR GOTO H", "FOR i% = 1 TO 3", "  v% = 10 / d%", "  PRINT \"a\"; i%;", "  w% = 32767 + i%", "  PRINT \"b\";", "NEXT", "PRINT \"z\"; n%", "END", "H:",
            "n% = n% + 1", "PRINT \"h\";", "RESUME NEXT",
        ]),
    ));
    out.push((
        "resume-label-leaves-two-loops",
        p(&[
            "ON ERROR GOTO H", "FOR i% = 1 TO 3", "  FOR j% = 1 TO 2", "    c% = 0", "    WHILE c% < 2", "      c% = c% + 1", "      IF i% = 1 AND j% = 2 AND c% = 1 THEN v% = 1 / d%",
            "      PRINT \"w\";", "    WEND", "  NEXT", "L1:", "  PRINT \"o\"; i%; j%;", "NEXT", "PRINT \"z\"", "END", "H:", "PRINT \"h\";", "RESUME L1",
        ]),
    ));
    out.push((
        "resume-label-depth0-from-nest",
        p(&[
            "ON ERROR GOTO H", "FOR i% = 1 TO 2", "  SELECT CASE i%", "  CASE 1", "    FOR j% = 1 TO 2", "      v% = 1 / d%", "    NEXT", "  END SELECT", "NEXT", "L0:", "PRINT \"l\"; i%; j%;",
            "m% = m% + 1", "IF m% < 2 THEN", "  FOR k% = 1 TO 2", "    PRINT \"k\";", "  NEXT", "END IF", "PRINT \"z\"", "END", "H:", "PRINT \"h\";", "RESUME L0",
        ]),
    ));
    out.push((
        "handler-changes-mode",
        p(&[
            "ON ERROR GOTO H", "v% = 1 / d%", "PRINT \"a\";", "v% = 1 / d%", "PRINT \"b\";", "ON ERROR GOTO 0", "v% = 1 / d%", "PRINT \"c\";", "END", "H:", "PRINT \"h\";",
            "ON ERROR RESUME NEXT", "RESUME NEXT",
        ]),
    ));
    out.push((
        "gosub-in-handler",
        p(&[
            "ON ERROR GOTO H", "v% = 1 / d%", "PRINT \"a\"; v%;", "END", "H:", "PRINT \"h\";", "GOSUB FIX", "RESUME", "FIX:", "d% = 2", "PRINT \"f\";", "RETURN",
        ]),
    ));
    out.push((
        "loop-in-handler",
        p(&[
            "ON ERROR GOTO H", "FOR i% = 1 TO 2", "  v% = i% / d%", "  PRINT \"a\"; v%;", "NEXT", "PRINT \"z\"", "END", "H:", "FOR j% = 1 TO 2", "  PRINT \"h\"; j%;", "NEXT", "d% = 1",
            "RESUME",
        ]),
    ));
    out.push((
        "handler-in-routine-error-in-main",
        p(&[
            "ON ERROR GOTO H", "GOSUB R", "v% = 1 / d%", "PRINT \"a\";", "GOSUB R", "PRINT \"z\"", "END", "R:", "PRINT \"r\";", "w% = 1 / d%", "PRINT \"s\";", "RETURN", "H:", "n% = n% + 1",
            "PRINT \"h\"; n%;", "IF n% = 2 THEN d% = 1", "RESUME NEXT",
        ]),
    ));
    out.push((
        "resume-without-error-unhandled",
        p(&["PRINT \"a\";", "RESUME"]),
    ));
    out.push((
        "resume-next-without-error-after-handled",
        p(&["ON ERROR GOTO H", "v% = 1 / d%", "PRINT \"a\";", "ON ERROR GOTO 0", "GOTO H", "H:", "PRINT \"h\";", "RESUME NEXT"]),
    ));
    out.push((
        "on-error-resume-next-many",
        p(&[
            "ON ERROR RESUME NEXT", "DATA 1", "READ a%, b%", "PRINT a%; b%;", "FOR i% = 1 TO 2 / d%", "  PRINT \"x\";", "NEXT", "SELECT CASE 1 / d%", "CASE 1", "  PRINT \"y\";",
            "END SELECT", "IF 1 / d% THEN", "  PRINT \"t\";", "ELSE", "  PRINT \"e\";", "END IF", "RETURN", "RESUME", "PRINT \"z\"",
        ]),
    ));
    out.push((
        "error-in-handler-unhandled-after-goto0",
        p(&["ON ERROR GOTO H", "v% = 1 / d%", "PRINT \"a\";", "END", "H:", "PRINT \"h\";", "ON ERROR GOTO 0", "w% = 1 / d%", "RESUME NEXT"]),
    ));
    out
}

// ------------------------------------------------------------------------------------------------

struct Case {
    text: String,
    prog: String,
    table: String,
    code: errl_sx::RealCode,
    feats: String,
    has_err: bool,
}

fn disagree(real: &Observed, m: &(String, Vec<u8>, String)) -> Option<&'static str> {
    if real.outcome != m.0 {
        return Some("outcome");
    }
    if real.out != m.1 {
        return Some("output");
    }
    None
}

fn compare_req(prog: &str, table: &str, code: &errl_sx::RealCode) -> String {
    format!("(errl.compare {} {} {} {} {})", prog, table, code.code, code.addrs, code.depths)
}

/// the answers of the real pipeline and of the three models for one program text
fn verdicts(text: &str) -> Option<(Observed, String, String, String, String)> {
    let (pp, code) = errl_sx::src_and_code(text)?;
    let real = run_real(text, b"", BUDGET);
    let small = real.outcome == "budget";
    let ans = ask(&[
        compare_req(&pp.program, &pp.table, &code),
        format!("(errl.run {} {})", if small { BUDGET / 10 } else { BUDGET }, pp.program),
        format!("(errl.ref {} {})", if small { FUEL / 6 } else { FUEL }, pp.program),
        format!("(errl.wf {})", pp.program),
    ]);
    Some((real, ans[0].clone(), ans[1].clone(), ans[2].clone(), ans[3].clone()))
}

fn ref_comparable(o: &str) -> bool {
    !matches!(o, "outOfFuel" | "inexact" | "illFormed" | "unspec")
}

fn fails(text: &str, which: &str, what: &str) -> bool {
    let Some((real, cmp, vm, rf, _)) = verdicts(text) else { return false };
    if real.outcome == "budget" {
        return false;
    }
    match which {
        "compile" => !cmp.starts_with("(same") && !cmp.starts_with("(not-core"),
        "vm" => parse_ref_answer(&vm)
            .map(|m| m.0 != "outOfFuel" && m.0 != "stuck" && disagree(&real, &m) == Some(if what == "outcome" { "outcome" } else { "output" }))
            .unwrap_or(false),
        _ => parse_ref_answer(&rf)
            .map(|m| ref_comparable(&m.0) && disagree(&real, &m) == Some(if what == "outcome" { "outcome" } else { "output" }))
            .unwrap_or(false),
    }
}

fn shrink(text: &str, which: &str, what: &str) -> String {
    let deadline = std::time::Instant::now() + std::time::Duration::from_secs(15);
    let mut lines: Vec<String> = text.lines().map(|l| l.to_owned()).collect();
    let mut changed = true;
    let mut rounds = 0;
    while changed && rounds < 6 && std::time::Instant::now() < deadline {
        changed = false;
        rounds += 1;
        let mut i = 0;
        while i < lines.len() && std::time::Instant::now() < deadline {
            let mut cand = lines.clone();
            cand.remove(i);
            let t = cand.join("\n") + "\n";
            if fails(&t, which, what) {
                lines = cand;
                changed = true;
                continue;
            }
            i += 1;
        }
    }
    lines.join("\n") + "\n"
}

fn main() {
    if let Some(path) = std::env::args().nth(1) {
        if path == "--gen" {
            let mut rng = Rng::from_env();
            let n: usize = std::env::args().nth(2).and_then(|x| x.parse().ok()).unwrap_or(3);
            let mut k = 0;
            while k < n {
                let kind = *rng.pick(&KINDS);
                let pos = *rng.pick(&POSITIONS);
                let mode = *rng.pick(&MODES);
                if let Some(t) = cell(kind, pos, mode) {
                    println!("' ---- {} / {} / {}\n{}", kind, pos, mode, t);
                    k += 1;
                }
            }
            return;
        }
        if path == "--cell" {
            let a: Vec<String> = std::env::args().collect();
            match cell(&a[2], &a[3], &a[4]) {
                Some(t) => print!("{}", t),
                None => println!("' no such cell"),
            }
            return;
        }
        let text = std::fs::read_to_string(path).unwrap();
        match verdicts(&text) {
            None => {
                let t = text.clone();
                let why = std::panic::catch_unwind(move || match rusty_parser::parse_main_str(t) {
                    Err(e) => format!("parser: {:?}", e),
                    Ok(p) => match rusty_linter::core::lint(p) {
                        Err(e) => format!("linter: {:?}", e),
                        Ok(_) => "accepted by the front end, outside the modelled language".to_owned(),
                    },
                })
                .unwrap_or_else(|_| "front end panicked".to_owned());
                println!("not compared: {}", why);
            }
            Some((real, cmp, vm, rf, wf)) => {
                println!("real    {} / {:?}", real.outcome, String::from_utf8_lossy(&real.out));
                println!("compare {}", cmp);
                println!("vm      {:?}", parse_ref_answer(&vm).map(|m| (m.0, String::from_utf8_lossy(&m.1).to_string())));
                println!("ref     {:?}", parse_ref_answer(&rf).map(|m| (m.0, String::from_utf8_lossy(&m.1).to_string())));
                println!("wf      {}", wf);
            }
        }
        return;
    }
    std::panic::set_hook(Box::new(|_| {}));
    let mut rng = Rng::from_env();
    let mut rep = Report::new(
        "C05",
        "error layer (ON ERROR GOTO label / RESUME NEXT / GOTO 0, RESUME / RESUME NEXT / RESUME label on top of the jump layer, main \
         module): (a) the programs of the repository's own tests that fall into the layer; (b) a dedicated generator: failing-statement \
         kind (division by zero / overflow / conversion overflow on assignment; a PRINT item; IF, ELSEIF, WHILE, DO WHILE / UNTIL top and \
         bottom conditions; FOR lower bound, upper bound, step, zero step; overflow of NEXT with and without STEP; SELECT CASE selector; \
         CASE item single / one of several / range / IS / in the second CASE; READ past the data, READ of an item of the wrong kind, \
         multi-variable READ; RETURN without GOSUB; RESUME NEXT / RESUME label without error) x position (main module middle / last \
         statement of the program; first / middle / last statement of an IF, ELSEIF, ELSE block, of a FOR, FOR STEP +/-, WHILE, DO \
         top / bottom body, of a CASE and CASE ELSE block; first / last statement of a GOSUB routine called from the main flow or \
         from a FOR body; FOR in FOR, SELECT in FOR, FOR in SELECT, WHILE in FOR, IF in WHILE) x handler mode (none; ON ERROR GOTO \
         with a handler ending in RESUME / RESUME NEXT with and without repairing the cause / RESUME label at depth 0 / RESUME label \
         inside the enclosing loops / the end of the program text / END; ON ERROR RESUME NEXT; ON ERROR GOTO 0 after setting; the \
         handler replaced by another, by RESUME NEXT mode, RESUME NEXT mode replaced by a handler; an error inside the handler; ON \
         ERROR GOTO 0 inside the handler followed by a second error; two errors handled differently); the handler counts its calls \
         and ends the program after five; (c) hand-written programs (several errors in one run, RESUME label out of two loops into \
         an enclosing FOR, from a FOR in SELECT in FOR to depth 0, mode changes inside the handler, GOSUB and FOR inside the \
         handler, errors in routine and main flow, RESUME without error, ON ERROR RESUME NEXT over every header kind); (d) random \
         programs of the shared generator with ON ERROR and faults switched on. Each program: model-compiled instruction list = \
         real list, statement-address table = real table, label-depth table = real table, VM model = real outcome and stdout, \
         reference semantics = real outcome and stdout, premise checker evaluated. class = (kind, position, mode, outcome kind).",
    );
    let thorough = rep.is_thorough();
    let mut cases: Vec<Case> = vec![];
    // (a) corpus programs inside the layer
    let mut n_corpus = 0u64;
    let mut n_corpus_err = 0u64;
    for t in corpus::accepted_programs() {
        if corpus::needs_real_devices(&t) {
            continue;
        }
        match errl_sx::src_and_code(&t) {
            Some((pp, code)) => {
                n_corpus += 1;
                if pp.has_err {
                    n_corpus_err += 1;
                }
                let feats = if pp.has_err { "corpus-with-on-error" } else { "corpus-no-on-error" };
                cases.push(Case { text: t, prog: pp.program, table: pp.table, code, feats: feats.into(), has_err: pp.has_err });
            }
            None => rep.bump("corpus.outside-layer"),
        }
    }
    rep.bump_by("corpus.inside-layer", n_corpus);
    rep.bump_by("corpus.inside-layer.with-on-error", n_corpus_err);
    // (b) the matrix
    let mut cells: Vec<(usize, usize, usize)> = vec![];
    let mut n_excluded = 0u64;
    for (ki, k) in KINDS.iter().enumerate() {
        for (mi, m) in MODES.iter().enumerate() {
            for (pi, p) in POSITIONS.iter().enumerate() {
                if excluded(k, p, m).is_some() {
                    n_excluded += 1;
                    continue;
                }
                cells.push((ki, pi, mi));
            }
        }
    }
    rep.bump_by("matrix.cells-excluded-candidate-defect", n_excluded);
    // a deterministic shuffle; the quick tier takes a prefix, but every (kind, mode) and every (position, mode) pair at least once
    for i in (1..cells.len()).rev() {
        let j = rng.below(i as u64 + 1) as usize;
        cells.swap(i, j);
    }
    let want = if thorough { cells.len() } else { 520 };
    let mut seen_km = std::collections::BTreeSet::new();
    let mut seen_pm = std::collections::BTreeSet::new();
    let mut n_matrix = 0u64;
    let mut n_nocell = 0u64;
    let mut outside = 0u64;
    for (ki, pi, mi) in cells.iter().copied() {
        let fresh = !seen_km.contains(&(ki, mi)) || !seen_pm.contains(&(pi, mi));
        if n_matrix >= want as u64 && !fresh {
            continue;
        }
        let (k, p, m) = (KINDS[ki], POSITIONS[pi], MODES[mi]);
        let Some(text) = cell(k, p, m) else {
            n_nocell += 1;
            continue;
        };
        match errl_sx::src_and_code(&text) {
            Some((pp, code)) => {
                seen_km.insert((ki, mi));
                seen_pm.insert((pi, mi));
                n_matrix += 1;
                rep.bump(&format!("matrix.kind.{}", k));
                rep.bump(&format!("matrix.position.{}", p));
                rep.bump(&format!("matrix.mode.{}", m));
                cases.push(Case { text, prog: pp.program, table: pp.table, code, feats: format!("{}|{}|{}", k, p, m), has_err: true });
            }
            None => {
                outside += 1;
                if outside <= 2 {
                    rep.sample(J::s(format!("rejected by the front end or outside the modelled language:\n{}", text)));
                }
            }
        }
    }
    rep.bump_by("matrix.programs", n_matrix);
    rep.bump_by("matrix.cells-that-do-not-exist", n_nocell);
    rep.bump_by("matrix.rejected-or-outside", outside);
    // (c) hand-written programs
    for (name, text) in specials() {
        match errl_sx::src_and_code(&text) {
            Some((pp, code)) => {
                rep.bump("special.programs");
                cases.push(Case { text, prog: pp.program, table: pp.table, code, feats: format!("special|{}", name), has_err: true });
            }
            None => {
                rep.bump("special.rejected-or-outside");
                rep.sample(J::s(format!("special program rejected or outside the layer ({}):\n{}", name, text)));
            }
        }
    }
    // (d) random programs with ON ERROR
    let n_random = if thorough { 4000 } else { 150 };
    let mut n_random_in = 0u64;
    for k in 0..n_random {
        let opts = gen_prog::Opts {
            subs: false,
            on_error: true,
            faults: k % 2 == 0,
            strings: k % 3 == 0,
            floats: false,
            max_depth: 2 + (k % 2) as u32,
            top_stmts: 6,
            ..Default::default()
        };
        let (text, _feats) = gen_prog::generate(&mut rng, &opts);
        if let Some((pp, code)) = errl_sx::src_and_code(&text) {
            n_random_in += 1;
            let feats = if pp.has_err { "random-with-on-error" } else { "random-no-on-error" };
            cases.push(Case { text, prog: pp.program, table: pp.table, code, feats: feats.into(), has_err: pp.has_err });
        }
    }
    rep.bump_by("random.generated", n_random as u64);
    rep.bump_by("random.inside-layer", n_random_in);
    // real runs, in parallel
    let reals: Vec<Observed> = {
        let texts: Vec<String> = cases.iter().map(|c| c.text.clone()).collect();
        let n_threads = 8;
        let chunk = (texts.len() + n_threads - 1) / n_threads.max(1);
        let mut handles = vec![];
        for part in texts.chunks(chunk.max(1)) {
            let part: Vec<String> = part.to_vec();
            handles.push(std::thread::spawn(move || part.iter().map(|t| run_real(t, b"", BUDGET)).collect::<Vec<_>>()));
        }
        handles.into_iter().flat_map(|h| h.join().unwrap()).collect()
    };
    let t0 = std::time::Instant::now();
    eprintln!("[c05e] {} programs; real runs done", cases.len());
    let canswers = ask(&cases.iter().map(|c| compare_req(&c.prog, &c.table, &c.code)).collect::<Vec<_>>());
    eprintln!("[c05e] {:.1}s compare done", t0.elapsed().as_secs_f32());
    let vanswers = ask(
        &cases
            .iter()
            .enumerate()
            .map(|(k, c)| format!("(errl.run {} {})", if reals[k].outcome == "budget" { BUDGET / 10 } else { BUDGET }, c.prog))
            .collect::<Vec<_>>(),
    );
    eprintln!("[c05e] {:.1}s vm done", t0.elapsed().as_secs_f32());
    let ranswers = ask(
        &cases
            .iter()
            .enumerate()
            .map(|(k, c)| format!("(errl.ref {} {})", if reals[k].outcome == "budget" { FUEL / 6 } else { FUEL }, c.prog))
            .collect::<Vec<_>>(),
    );
    eprintln!("[c05e] {:.1}s ref done", t0.elapsed().as_secs_f32());
    let wanswers = ask(&cases.iter().map(|c| format!("(errl.wf {})", c.prog)).collect::<Vec<_>>());
    let mut wf: Vec<Option<bool>> = vec![];
    let mut outside_shown = 0;
    for (k, a) in wanswers.iter().enumerate() {
        // the clauses the simulation proof forced beyond progWfB (RbModel.ErrL.wfXB: CASE items without a pending operand,
        // STEP a non-zero literal); counted only: the classification below stays with progWfB
        if a.contains("(x true)") {
            rep.bump("theorem-premise.wfXB-true");
        } else if a.contains("(x false)") {
            rep.bump("theorem-premise.wfXB-false");
        }
        if a.starts_with("(wf true (x true)") {
            rep.bump("theorem-premise.progWfXB-true");
        }
        if a.starts_with("(wf true") {
            rep.bump("theorem-premise.progWfB-true");
            wf.push(Some(true));
        } else if a.starts_with("(wf false") {
            rep.bump("theorem-premise.progWfB-false");
            wf.push(Some(false));
            if outside_shown < 2 {
                outside_shown += 1;
                rep.sample(J::s(format!("outside the static premise of the error layer:\n{}", cases[k].text)));
            }
        } else {
            rep.bump("theorem-premise.unreadable");
            wf.push(None);
        }
    }
    let mut shrunk = 0;
    for (k, c) in cases.iter().enumerate() {
        let real = &reals[k];
        let okind = real.outcome.split(' ').take(2).collect::<Vec<_>>().join(" ");
        rep.case(if c.has_err { Some(format!("{}|{}", c.feats, okind)) } else { None });
        rep.bump(&format!("outcome.{}", okind));
        if k < 1 || k == cases.len() - 1 || k == cases.len() / 2 {
            rep.sample(J::s(c.text.clone()));
        }
        // the kind of the cell (stable part of a signature)
        let cell_kind: String = c.feats.split('|').next().unwrap_or("").to_owned();
        let cell_mode: String = c.feats.split('|').nth(2).unwrap_or("").to_owned();
        // 1. the generator model: instructions, statement addresses, label depths
        let a = &canswers[k];
        if a.starts_with("(same") {
            rep.bump("compile-model.same");
            let nums: Vec<u64> = a.trim_matches(|ch| ch == '(' || ch == ')').split(' ').skip(1).filter_map(|x| x.parse().ok()).collect();
            rep.bump_by("compile-model.instructions-compared", nums.first().copied().unwrap_or(0));
            rep.bump_by("compile-model.statement-addresses-compared", nums.get(1).copied().unwrap_or(0));
            rep.bump_by("compile-model.label-depths-compared", nums.get(2).copied().unwrap_or(0));
        } else if a.starts_with("(not-core") {
            rep.bump("compile-model.instruction-outside-model");
        } else {
            let parts: Vec<&str> = a.trim_matches(|ch| ch == '(' || ch == ')').split(' ').collect();
            let kind: String = parts
                .get(2)
                .map(|x| x.split('@').next().unwrap_or("").chars().take_while(|ch| !ch.is_ascii_digit() && *ch != ':').collect())
                .unwrap_or_default();
            let text = if shrunk < 4 {
                shrunk += 1;
                shrink(&c.text, "compile", "")
            } else {
                c.text.clone()
            };
            rep.fail(Failure {
                kind: Kind::ModelVsImpl,
                signature: format!("errl-compile:{}:{}", parts.first().unwrap_or(&"?"), kind),
                input: text,
                implementation: a.clone(),
                expected: "RbModel.ErrL.Compile.{compile, marks, labelDepths} = the real instruction list / statement_addresses / label_depths".into(),
                note: "(differ <index> <model instr> <real instr> <model len> <real len>) | (marks-differ <index> <model> <real> …) | (depths-differ …) | (bad-op)".into(),
            });
        }
        if real.outcome == "budget" {
            let vm_ends = parse_ref_answer(&vanswers[k]).map(|m| m.0 != "outOfFuel" && m.0 != "stuck").unwrap_or(false);
            let rf_ends = parse_ref_answer(&ranswers[k]).map(|m| m.0 == "normal" || m.0.starts_with("error")).unwrap_or(false);
            if vm_ends || rf_ends {
                rep.fail(Failure {
                    kind: if rf_ends { Kind::ImplVsProperty } else { Kind::ModelVsImpl },
                    signature: format!("errl-{}:real-run-does-not-end", if rf_ends { "ref" } else { "vm" }),
                    input: c.text.clone(),
                    implementation: format!("no end within {} instructions / {:?}", BUDGET, String::from_utf8_lossy(&real.out).chars().take(200).collect::<String>()),
                    expected: format!("vm model: {} / reference semantics: {}", vanswers[k].chars().take(120).collect::<String>(), ranswers[k].chars().take(120).collect::<String>()),
                    note: "the real run exhausted its budget, a model ends".into(),
                });
            } else {
                rep.bump("discarded.real-budget-and-models-out-of-fuel");
            }
            continue;
        }
        // 2. the VM model
        match parse_ref_answer(&vanswers[k]) {
            None => rep.bump("vm-model.unreadable"),
            Some(vm) => {
                if vm.0 == "outOfFuel" {
                    rep.bump("vm-model.discarded-fuel");
                } else if vm.0 == "stuck" && real.outcome != "panic" {
                    rep.bump("vm-model.stuck-or-inexact");
                } else if vm.0 == "stuck" {
                    rep.bump("vm-model.stuck-real-panic");
                } else if let Some(what) = disagree(real, &vm) {
                    let text = if shrunk < 4 {
                        shrunk += 1;
                        shrink(&c.text, "vm", what)
                    } else {
                        c.text.clone()
                    };
                    rep.fail(Failure {
                        kind: Kind::ModelVsImpl,
                        signature: format!("errl-vm:{}", what),
                        input: text,
                        implementation: format!("{} / {:?}", real.outcome, String::from_utf8_lossy(&real.out)),
                        expected: format!("{} / {:?}", vm.0, String::from_utf8_lossy(&vm.1)),
                        note: "real pipeline vs RbModel.ErrL.Vm.run (RbModel.ErrL.Compile.compile p) (before shrinking)".into(),
                    });
                } else {
                    rep.bump("vm-model.same");
                }
            }
        }
        // 3. the reference semantics
        match parse_ref_answer(&ranswers[k]) {
            None => {
                rep.fail(Failure {
                    kind: Kind::ModelVsImpl,
                    signature: "errl-ref:unreadable".into(),
                    input: c.text.clone(),
                    implementation: c.prog.chars().take(300).collect(),
                    expected: ranswers[k].clone(),
                    note: "the Lean reader rejected the serialised program".into(),
                });
            }
            Some(rf) => {
                if rf.0 == "inexact" {
                    rep.bump("ref.discarded-inexact-float");
                } else if rf.0 == "unspec" {
                    // the property does not say what an error inside an active handler does (nor a RETURN / RESUME that
                    // crosses a handler run): not compared; what the code under test did is recorded
                    rep.bump("ref.unspecified-by-the-property");
                    rep.bump(&format!("ref.unspecified.real-outcome.{}", okind));
                } else if rf.0 == "illFormed" {
                    if wf[k] == Some(true) {
                        rep.fail(Failure {
                            kind: Kind::ModelVsImpl,
                            signature: "errl-ref:illFormed-inside-premise".into(),
                            input: c.text.clone(),
                            implementation: format!("{} / {:?}", real.outcome, String::from_utf8_lossy(&real.out)),
                            expected: "a program accepted by progWfB never runs into illFormed".into(),
                            note: "RbModel.ErrL.Ref.run answered illFormed although RbModel.ErrL.progWfB accepts the program".into(),
                        });
                    } else {
                        rep.bump("ref.outside-language.illFormed");
                    }
                } else if rf.0 == "outOfFuel" {
                    rep.bump("ref.discarded-fuel");
                } else if let Some(what) = disagree(real, &rf) {
                    let text = if shrunk < 4 {
                        shrunk += 1;
                        shrink(&c.text, "ref", what)
                    } else {
                        c.text.clone()
                    };
                    rep.fail(Failure {
                        kind: Kind::ImplVsProperty,
                        signature: format!(
                            "errl-ref:{}:{}:{}{}",
                            cell_kind,
                            if cell_mode.is_empty() { "-" } else { &cell_mode },
                            what,
                            if wf[k] == Some(true) { "" } else { ":outside-premise" }
                        ),
                        input: text,
                        implementation: format!("{} / {:?}", real.outcome, String::from_utf8_lossy(&real.out)),
                        expected: format!("{} / {:?}", rf.0, String::from_utf8_lossy(&rf.1)),
                        note: "implementation vs reference semantics RbModel.ErrL.Ref (before shrinking)".into(),
                    });
                } else {
                    rep.bump("ref.same");
                }
            }
        }
    }
    rep.finish();
}
