//! C04 (phase A of the RECORDS AND FIXED-LENGTH STRINGS layer) — programs with records and `STRING * n` on the real
//! pipeline vs the three Lean models of `lean/RbModel/RecL/`:
//!   * `recl.compare`: `RbModel.RecL.Compile.compile p` = the real instruction list, instruction for instruction
//!     (positions, label names, resolved addresses, field names, type numbers);
//!   * `recl.run`: `RbModel.RecL.Vm.run` on the model-compiled code = real outcome and stdout;
//!   * `recl.ref`: the big-step reference semantics `RbModel.RecL.Ref.run` = real outcome and stdout;
//!   * `recl.wf`: the premise checker `RbModel.RecL.progWfB` of the simulation theorem `RecL.compile_correct`
//!     (`lean/Thm/RecLSim.lean`), counted per program as `theorem-premise.progWfB-true` / `-false`.
//! Usage for debugging: `c04r <file.bas>` prints the three answers for one program.

use rb_harness::driver::ask;
use rb_harness::json::J;
use rb_harness::recl_sx;
use rb_harness::refrun::{parse_ref_answer, run_real, Observed};
use rb_harness::report::{Failure, Kind, Report};
use rb_harness::rng::Rng;

const FUEL: u64 = 4000;
const BUDGET: u64 = 400_000;

// ------------------------------------------------------------------------------------------------
// dedicated generator

#[derive(Clone, PartialEq, Debug)]
enum FT {
    Int,
    Long,
    Sgl,
    Dbl,
    Fix(u32),
    Rec(usize),
}

#[derive(Clone)]
struct TypeDef {
    name: String,
    fields: Vec<(String, FT)>,
    depth: u32,
}

#[derive(Clone)]
struct Var {
    name: String,
    ty: usize,
}

struct G<'a> {
    rng: &'a mut Rng,
    types: Vec<TypeDef>,
    vars: Vec<Var>,
    /// STRING * n variables
    fixed: Vec<(String, u32)>,
    faults: bool,
    feats: Vec<&'static str>,
    n_data: usize,
    loops: u32,
}

// fixed scalars, initialised at the top of every program and never assigned again:
//   I% = 2, K% = -1, L& = 3, M& = 40000, S! = 1.5, D# = 2.5, Z% = 0, U$ = "uvwxyz"
// free scalars (assigned by the program): X%, P&, Q!, W#, T$, and the FOR counters F0%..F2%

const FIELD_NAMES: [&str; 12] = ["a", "b", "n", "cnt", "s", "nm", "x", "y", "tag", "val", "inner", "Last"];

impl<'a> G<'a> {
    fn feat(&mut self, f: &'static str) {
        if !self.feats.contains(&f) {
            self.feats.push(f);
        }
    }

    fn num_ft(&mut self) -> FT {
        self.rng.pick(&[FT::Int, FT::Int, FT::Long, FT::Sgl, FT::Dbl]).clone()
    }

    /// the same name in some letter case
    fn recase(&mut self, n: &str) -> String {
        match self.rng.below(6) {
            0 => {
                self.feat("field-name:other-case");
                n.to_ascii_uppercase()
            }
            1 => {
                self.feat("field-name:other-case");
                n.to_ascii_lowercase()
            }
            _ => n.to_owned(),
        }
    }

    /// every path below a value of type `t` whose type satisfies `want`, as (".f.g", type)
    fn paths(&self, t: &FT, prefix: &str, out: &mut Vec<(String, FT)>) {
        out.push((prefix.to_owned(), t.clone()));
        if let FT::Rec(k) = t {
            for (f, ft) in &self.types[*k].fields {
                self.paths(ft, &format!("{}.{}", prefix, f), out);
            }
        }
    }

    fn all_paths(&self) -> Vec<(String, FT)> {
        let mut out = vec![];
        for v in &self.vars {
            self.paths(&FT::Rec(v.ty), &v.name, &mut out);
        }
        out
    }

    fn recase_path(&mut self, p: &str) -> String {
        let parts: Vec<&str> = p.split('.').collect();
        let mut out = vec![parts[0].to_owned()];
        for f in &parts[1..] {
            let r = self.recase(f);
            out.push(r);
        }
        out.join(".")
    }

    /// a location (field path or STRING * n variable) of a kind
    fn pick_loc(&mut self, want: &dyn Fn(&FT) -> bool) -> Option<(String, FT)> {
        let mut c: Vec<(String, FT)> = self.all_paths().into_iter().filter(|(_, t)| want(t)).collect();
        for (n, l) in &self.fixed {
            if want(&FT::Fix(*l)) {
                c.push((n.clone(), FT::Fix(*l)));
            }
        }
        if c.is_empty() {
            return None;
        }
        let (p, t) = self.rng.pick(&c).clone();
        let p = self.recase_path(&p);
        Some((p, t))
    }

    fn is_num(t: &FT) -> bool {
        matches!(t, FT::Int | FT::Long | FT::Sgl | FT::Dbl)
    }

    fn lit(&mut self, t: &FT) -> String {
        match t {
            FT::Int => format!("{}", self.rng.range(-3, 12)),
            FT::Long => format!("{}", *self.rng.pick(&[0i64, 1, 7, 40000, 70000, -50000, 100000])),
            FT::Sgl => (*self.rng.pick(&["0.5", "1.5", "2.25", "4.5", "-0.75"])).to_owned(),
            FT::Dbl => (*self.rng.pick(&["0.5#", "1.25#", "2.5#", "-3.5#", "100000.5#"])).to_owned(),
            _ => self.str_lit(),
        }
    }

    fn str_lit(&mut self) -> String {
        let k = self.rng.below(10);
        let s: String = match k {
            0 => {
                self.feat("string:empty");
                String::new()
            }
            1 | 2 => "x".to_owned(),
            3 | 4 => (*self.rng.pick(&["ab", "Q r", "hello", "  lead"])).to_owned(),
            5 | 6 => {
                self.feat("string:long");
                let n = self.rng.range(5, 60) as usize;
                "abcdefghi jklmnopqr-stuvwxyz,0123456789 ABCDEFGHI;JKLMNOPQR.STUVWXYZ".chars().cycle().take(n).collect()
            }
            7 => {
                self.feat("string:non-ascii");
                (*self.rng.pick(&["\u{e9}", "a\u{e9}\u{f1}\u{fc}z", "\u{20ac}uro", "\u{e9}\u{e9}\u{e9}\u{e9}\u{e9}\u{e9}\u{e9}\u{e9}\u{e9}\u{e9}\u{e9}\u{e9}"])).to_owned()
            }
            8 => "trail  ".to_owned(),
            _ => "0123456789 0123456789 0123456789 012345678".to_owned(),
        };
        format!("\"{}\"", s)
    }

    fn scalar(&mut self, t: &FT) -> String {
        match t {
            FT::Int => (*self.rng.pick(&["I%", "K%", "X%", "Z%"])).to_owned(),
            FT::Long => (*self.rng.pick(&["L&", "P&"])).to_owned(),
            FT::Sgl => (*self.rng.pick(&["S!", "Q!"])).to_owned(),
            FT::Dbl => (*self.rng.pick(&["D#", "W#"])).to_owned(),
            _ => (*self.rng.pick(&["T$", "U$"])).to_owned(),
        }
    }

    /// a string-valued expression (static type STRING or STRING * m)
    fn str_expr(&mut self) -> String {
        match self.rng.below(10) {
            0..=3 => self.str_lit(),
            4 => self.scalar(&FT::Fix(0)),
            5 => {
                let l = self.str_lit();
                self.feat("string:concatenation");
                match self.pick_loc(&|t| matches!(t, FT::Fix(_))) {
                    Some((p, _)) => format!("{} + {}", p, l),
                    None => format!("T$ + {}", l),
                }
            }
            _ => match self.pick_loc(&|t| matches!(t, FT::Fix(_))) {
                Some((p, _)) => {
                    self.feat("read:fixed-string");
                    p
                }
                None => self.str_lit(),
            },
        }
    }

    /// a numeric expression of static type (roughly) t
    fn expr(&mut self, t: &FT, depth: u32) -> String {
        let k = self.rng.below(100);
        if depth == 0 || k < 30 {
            return match self.rng.below(10) {
                0..=2 => self.lit(t),
                3..=4 => self.scalar(t),
                _ => {
                    let tt = t.clone();
                    match self.pick_loc(&|x| *x == tt) {
                        Some((p, _)) => {
                            self.feat("read:field");
                            p
                        }
                        None => self.lit(t),
                    }
                }
            };
        }
        match k {
            30..=54 => match self.pick_loc(&|x| Self::is_num(x)) {
                // a field of any numeric type (conversion at the use)
                Some((p, _)) => {
                    self.feat("read:field");
                    p
                }
                None => self.lit(t),
            },
            55..=84 => {
                let o = *self.rng.pick(&["+", "-", "*", "+", "-"]);
                let l = self.expr(t, depth - 1);
                let t2 = if self.rng.chance(1, 3) { self.num_ft() } else { t.clone() };
                let r = self.expr(&t2, depth - 1);
                format!("{} {} {}", l, o, r)
            }
            85..=89 => {
                let e = self.expr(t, depth - 1);
                format!("({})", e)
            }
            90..=93 => {
                let e = self.expr(t, depth - 1);
                format!("-{}", e)
            }
            _ => {
                if self.faults && self.rng.chance(1, 3) {
                    self.feat("fault:division");
                    let e = self.expr(t, depth - 1);
                    format!("{} / Z%", e)
                } else {
                    let t2 = self.num_ft();
                    self.scalar(&t2)
                }
            }
        }
    }

    fn cond(&mut self) -> String {
        if self.rng.chance(1, 4) {
            if let Some((p, _)) = self.pick_loc(&|t| matches!(t, FT::Fix(_))) {
                self.feat("condition:fixed-string");
                let r = self.str_expr();
                let o = *self.rng.pick(&["=", "<>", "<", ">="]);
                return format!("{} {} {}", p, o, r);
            }
        }
        let t = self.num_ft();
        let l = self.expr(&t, 1);
        let r = self.expr(&t, 1);
        let o = *self.rng.pick(&["<", "<=", "=", ">=", ">", "<>"]);
        format!("{} {} {}", l, o, r)
    }

    fn print_items(&mut self) -> String {
        let n = self.rng.range(1, 3);
        let mut s = String::new();
        for i in 0..n {
            if i > 0 {
                s.push_str(*self.rng.pick(&["; ", ", ", "; "]));
            }
            if self.rng.chance(1, 3) {
                let e = self.str_expr();
                s.push_str(&format!("\"[\"; {}; \"]\"", e));
            } else {
                let t = self.num_ft();
                let e = self.expr(&t, 1);
                s.push_str(&e);
            }
        }
        if self.rng.chance(1, 8) {
            s.push(';');
        }
        s
    }

    /// prints every leaf of a record variable: observes that a store changed nothing else, and every string's length
    fn dump_var(&mut self, v: &Var, out: &mut Vec<String>, ind: &str) {
        self.feat("dump-all-fields");
        let mut ps = vec![];
        self.paths(&FT::Rec(v.ty), &v.name, &mut ps);
        let mut items = vec![];
        for (p, t) in ps {
            match t {
                FT::Rec(_) => {}
                FT::Fix(_) => items.push(format!("\"[\"; {}; \"]\"", p)),
                _ => items.push(p),
            }
        }
        for chunk in items.chunks(6) {
            out.push(format!("{}PRINT {}", ind, chunk.join("; ")));
        }
    }

    fn dump_fixed(&mut self, out: &mut Vec<String>, ind: &str) {
        let items: Vec<String> = self.fixed.iter().map(|(n, _)| format!("\"[\"; {}; \"]\"", n)).collect();
        if !items.is_empty() {
            out.push(format!("{}PRINT {}", ind, items.join("; ")));
        }
    }

    fn stmt(&mut self, depth: u32, out: &mut Vec<String>, ind: &str) {
        let k = self.rng.below(100);
        let inner = format!("{}  ", ind);
        match k {
            0..=17 => {
                // numeric field store, the value of any numeric type (conversion to the field's type)
                if let Some((p, ft)) = self.pick_loc(&|t| Self::is_num(t)) {
                    let t = if self.rng.chance(1, 2) { ft.clone() } else { self.num_ft() };
                    if t != ft {
                        self.feat("store:converted");
                    }
                    let e = if self.faults && ft == FT::Int && self.rng.chance(1, 10) {
                        self.feat("store:overflow");
                        (*self.rng.pick(&["M& + 1", "40000", "32767.5", "-32768.6#"])).to_owned()
                    } else if self.faults && ft == FT::Long && self.rng.chance(1, 10) {
                        self.feat("store:overflow");
                        (*self.rng.pick(&["3000000000.5#", "M& * 100000.5#"])).to_owned()
                    } else {
                        self.expr(&t, 2)
                    };
                    self.feat("store:numeric-field");
                    out.push(format!("{}{} = {}", ind, p, e));
                }
            }
            18..=35 => {
                // store into a STRING * n location: literal (empty / short / exact / over-long / non-ASCII), STRING
                // variable, concatenation, another STRING * m location
                if let Some((p, ft)) = self.pick_loc(&|t| matches!(t, FT::Fix(_))) {
                    let FT::Fix(n) = ft else { unreachable!() };
                    let e = match self.rng.below(8) {
                        0 => {
                            self.feat("string:exact-length");
                            let s: String = "ZYXWVUTSRQ PONMLKJIH-GFEDCBAzyx,wvutsrqpon mlkjihgfedcba".chars().take(n as usize).collect();
                            format!("\"{}\"", s)
                        }
                        1 => {
                            self.feat("string:one-too-long");
                            let s: String = "ZYXWVUTSRQ PONMLKJIH-GFEDCBAzyx,wvutsrqpon mlkjihgfedcba".chars().take(n as usize + 1).collect();
                            format!("\"{}\"", s)
                        }
                        _ => self.str_expr(),
                    };
                    self.feat(if p.contains('.') { "store:fixed-field" } else { "store:fixed-variable" });
                    out.push(format!("{}{} = {}", ind, p, e));
                }
            }
            36..=40 => {
                // a STRING variable from a STRING * n location
                if let Some((p, _)) = self.pick_loc(&|t| matches!(t, FT::Fix(_))) {
                    self.feat("store:string-from-fixed");
                    out.push(format!("{}T$ = {}", ind, p));
                    out.push(format!("{}PRINT \"[\"; T$; \"]\"", ind));
                }
            }
            41..=47 => {
                // field-to-field copy (numeric with conversion, strings of other lengths)
                let strs = self.rng.chance(1, 2);
                let a = self.pick_loc(&|t| if strs { matches!(t, FT::Fix(_)) } else { Self::is_num(t) });
                let b = self.pick_loc(&|t| if strs { matches!(t, FT::Fix(_)) } else { Self::is_num(t) });
                if let (Some((l, lt)), Some((r, rt))) = (a, b) {
                    self.feat("store:field-to-field");
                    if strs && lt != rt {
                        self.feat("store:fixed-from-other-length");
                    }
                    out.push(format!("{}{} = {}", ind, l, r));
                }
            }
            48..=56 => {
                // whole-record / sub-record copy between locations of one record type
                let recs: Vec<(String, FT)> = self.all_paths().into_iter().filter(|(_, t)| matches!(t, FT::Rec(_))).collect();
                if !recs.is_empty() {
                    let (l, lt) = self.rng.pick(&recs).clone();
                    let same: Vec<(String, FT)> = recs.iter().filter(|(p, t)| *t == lt && *p != l).cloned().collect();
                    if !same.is_empty() {
                        let (r, _) = self.rng.pick(&same).clone();
                        self.feat(if l.contains('.') || r.contains('.') { "store:sub-record-copy" } else { "store:whole-record-copy" });
                        let l = self.recase_path(&l);
                        let r = self.recase_path(&r);
                        out.push(format!("{}{} = {}", ind, l, r));
                    } else if self.rng.chance(1, 4) {
                        self.feat("store:record-to-itself");
                        out.push(format!("{}{} = {}", ind, l, l));
                    }
                }
            }
            57..=66 => {
                let items = self.print_items();
                out.push(format!("{}PRINT {}", ind, items));
            }
            67..=70 => {
                let t = self.num_ft();
                let v = match t {
                    FT::Int => "X%",
                    FT::Long => "P&",
                    FT::Sgl => "Q!",
                    _ => "W#",
                };
                let e = self.expr(&t, 2);
                out.push(format!("{}{} = {}", ind, v, e));
            }
            71..=74 => {
                if !self.vars.is_empty() {
                    let v = self.rng.pick(&self.vars.clone()).clone();
                    self.dump_var(&v, out, ind);
                }
            }
            75..=79 if depth > 0 && self.loops < 2 => {
                // FOR whose bounds come from fields
                let c = format!("F{}%", self.loops);
                let hi = match self.pick_loc(&|t| matches!(t, FT::Int)) {
                    Some((p, _)) => {
                        self.feat("loop:for-bound-from-field");
                        out.push(format!("{}{} = {}", ind, p, self.rng.range(1, 3)));
                        p
                    }
                    None => "2".to_owned(),
                };
                out.push(format!("{}FOR {} = 1 TO {}", ind, c, hi));
                self.loops += 1;
                let n = self.rng.range(1, 3);
                for _ in 0..n {
                    self.stmt(depth - 1, out, &inner);
                }
                self.loops -= 1;
                out.push(format!("{}NEXT", ind));
            }
            80..=85 if depth > 0 => {
                let c = self.cond();
                out.push(format!("{}IF {} THEN", ind, c));
                self.stmt(depth - 1, out, &inner);
                if self.rng.chance(1, 3) {
                    let c2 = self.cond();
                    out.push(format!("{}ELSEIF {} THEN", ind, c2));
                    self.stmt(depth - 1, out, &inner);
                }
                if self.rng.chance(1, 2) {
                    out.push(format!("{}ELSE", ind));
                    self.stmt(depth - 1, out, &inner);
                }
                out.push(format!("{}END IF", ind));
                self.feat("if-on-field");
            }
            86..=89 if depth > 0 => {
                let strs = self.rng.chance(1, 3);
                let e = match self.pick_loc(&|t| if strs { matches!(t, FT::Fix(_)) } else { Self::is_num(t) }) {
                    Some((p, _)) => p,
                    None => "X%".to_owned(),
                };
                let is_str = strs && e != "X%";
                out.push(format!("{}SELECT CASE {}", ind, e));
                let v = if is_str { self.str_lit() } else { self.lit(&FT::Int) };
                out.push(format!("{}CASE {}", ind, v));
                self.stmt(depth - 1, out, &inner);
                if self.rng.chance(1, 2) {
                    let e2 = if is_str { self.str_expr() } else { self.expr(&FT::Int, 1) };
                    out.push(format!("{}CASE IS > {}", ind, e2));
                    self.stmt(depth - 1, out, &inner);
                }
                out.push(format!("{}CASE ELSE", ind));
                self.stmt(depth - 1, out, &inner);
                out.push(format!("{}END SELECT", ind));
                self.feat(if is_str { "select-on-fixed-string" } else { "select-on-field" });
            }
            90..=93 if depth > 0 => {
                // WHILE / DO with a counter kept in a numeric field
                if let Some((p, _)) = self.pick_loc(&|t| Self::is_num(t)) {
                    let lim = self.rng.range(1, 3);
                    out.push(format!("{}{} = 0", ind, p));
                    let form = self.rng.below(3);
                    match form {
                        0 => out.push(format!("{}WHILE {} < {}", ind, p, lim)),
                        1 => out.push(format!("{}DO UNTIL {} >= {}", ind, p, lim)),
                        _ => out.push(format!("{}DO", ind)),
                    }
                    self.stmt(0, out, &inner);
                    out.push(format!("{}  {} = {} + 1", ind, p, p));
                    match form {
                        0 => out.push(format!("{}WEND", ind)),
                        1 => out.push(format!("{}LOOP", ind)),
                        _ => out.push(format!("{}LOOP WHILE {} < {}", ind, p, lim)),
                    }
                    self.feat("loop:counter-in-field");
                }
            }
            94..=95 => {
                if self.n_data > 0 {
                    self.feat("read-statement:scalars");
                    out.push(format!("{}READ X%, W#", ind));
                    if let Some((p, _)) = self.pick_loc(&|t| Self::is_num(t)) {
                        out.push(format!("{}{} = W# + X%", ind, p));
                    }
                }
            }
            96..=97 => {
                // the DIM statement runs again: the record is fresh again
                if ind.is_empty() && !self.types.is_empty() {
                    let ty = self.rng.below(self.types.len() as u64) as usize;
                    let fresh = Var { name: format!("N{}", self.vars.len()), ty };
                    let tn = self.types[ty].name.clone();
                    let mut ps = vec![];
                    self.paths(&FT::Rec(ty), &fresh.name, &mut ps);
                    let leaf = ps.iter().find(|(_, t)| !matches!(t, FT::Rec(_))).cloned();
                    if let Some((p, t)) = leaf {
                        let isf = matches!(t, FT::Fix(_));
                        out.push("FOR G% = 1 TO 2".to_owned());
                        out.push(format!("  DIM {} AS {}", fresh.name, tn));
                        out.push(format!("  PRINT \"[\"; {}; \"]\"", p));
                        out.push(format!("  {} = {}", p, if isf { "\"again\"" } else { "G% + 4" }));
                        out.push(format!("  PRINT \"[\"; {}; \"]\"", p));
                        out.push("NEXT".to_owned());
                        self.vars.push(fresh);
                        self.feat("dim-runs-again");
                    }
                }
            }
            _ => {
                if self.faults && ind.is_empty() && self.rng.chance(1, 8) && !self.types.is_empty() && !self.feats.contains(&"fault:dim-not-executed") {
                    // a DIM inside a branch that is not taken, the variable used afterwards
                    self.feat("fault:dim-not-executed");
                    if self.rng.chance(1, 2) {
                        out.push("IF Z% THEN".to_owned());
                        out.push("  DIM NX AS STRING * 4".to_owned());
                        out.push("END IF".to_owned());
                        out.push("PRINT \"[\"; NX; \"]\"".to_owned());
                    } else {
                        let tn = self.types[0].name.clone();
                        let f = self.types[0].fields[0].0.clone();
                        out.push("IF Z% THEN".to_owned());
                        out.push(format!("  DIM NY AS {}", tn));
                        out.push("END IF".to_owned());
                        if matches!(self.types[0].fields[0].1, FT::Rec(_)) {
                            out.push(format!("NY.{} = NY.{}", f, f));
                        } else {
                            out.push(format!("PRINT NY.{}", f));
                        }
                    }
                } else {
                    let items = self.print_items();
                    out.push(format!("{}PRINT {}", ind, items));
                }
            }
        }
    }

    fn gen_types(&mut self, lines: &mut Vec<String>) {
        let n_types = self.rng.range(1, 4) as usize;
        for k in 0..n_types {
            let n_fields = self.rng.range(1, 5) as usize;
            let mut names: Vec<&str> = FIELD_NAMES.to_vec();
            let mut fields = vec![];
            let mut depth = 1;
            for _ in 0..n_fields {
                let i = self.rng.below(names.len() as u64) as usize;
                let fname = names.remove(i).to_owned();
                let ft = match self.rng.below(10) {
                    0 | 1 => FT::Int,
                    2 => FT::Long,
                    3 => FT::Sgl,
                    4 => FT::Dbl,
                    5 | 6 | 7 => FT::Fix(if self.rng.chance(1, 3) { self.rng.range(1, 3) as u32 } else { self.rng.range(1, 40) as u32 }),
                    _ => {
                        let c: Vec<usize> = (0..k).filter(|j| self.types[*j].depth < 3).collect();
                        if c.is_empty() {
                            FT::Int
                        } else {
                            let j = *self.rng.pick(&c);
                            depth = depth.max(self.types[j].depth + 1);
                            FT::Rec(j)
                        }
                    }
                };
                fields.push((fname, ft));
            }
            let td = TypeDef { name: format!("Ty{}", k), fields, depth };
            lines.push(format!("TYPE {}", td.name));
            for (f, ft) in &td.fields {
                let t = match ft {
                    FT::Int => "INTEGER".to_owned(),
                    FT::Long => "LONG".to_owned(),
                    FT::Sgl => "SINGLE".to_owned(),
                    FT::Dbl => "DOUBLE".to_owned(),
                    FT::Fix(n) => format!("STRING * {}", n),
                    FT::Rec(j) => self.types[*j].name.clone(),
                };
                lines.push(format!("  {} AS {}", f, t));
            }
            lines.push("END TYPE".to_owned());
            self.feat(match td.depth {
                1 => "nesting-depth-1",
                2 => "nesting-depth-2",
                _ => "nesting-depth-3",
            });
            self.types.push(td);
        }
    }

    fn program(&mut self) -> String {
        let mut lines: Vec<String> = vec![];
        self.gen_types(&mut lines);
        lines.push("I% = 2: K% = -1: L& = 3: M& = 40000".to_owned());
        lines.push("S! = 1.5: D# = 2.5: Z% = 0: U$ = \"uvwxyz\"".to_owned());
        if self.rng.chance(1, 2) {
            let n = self.rng.range(2, 5) as usize;
            let items: Vec<String> = (0..n).map(|_| (*self.rng.pick(&["1", "2", "-3", "2.5", "40000", "7", "0.25"])).to_owned()).collect();
            self.n_data = n;
            lines.push(format!("DATA {}", items.join(", ")));
        }
        // record variables: the last type twice (whole-record copies), others at random
        let n_vars = self.rng.range(2, 4) as usize;
        let last = self.types.len() - 1;
        for k in 0..n_vars {
            let ty = if k < 2 { last } else { self.rng.below(self.types.len() as u64) as usize };
            let v = Var { name: format!("R{}", k), ty };
            lines.push(format!("DIM {} AS {}", v.name, self.types[ty].name));
            self.vars.push(v);
        }
        let n_fix = self.rng.range(0, 2) as usize;
        for k in 0..n_fix {
            let n = if self.rng.chance(1, 3) { self.rng.range(1, 3) } else { self.rng.range(1, 40) } as u32;
            lines.push(format!("DIM FS{} AS STRING * {}", k, n));
            self.fixed.push((format!("FS{}", k), n));
            self.feat("fixed-string-variable");
        }
        let n = self.rng.range(5, 12);
        for _ in 0..n {
            self.stmt(2, &mut lines, "");
        }
        // observe everything at the end
        let all = self.vars.clone();
        for v in all.iter() {
            self.dump_var(v, &mut lines, "");
        }
        self.dump_fixed(&mut lines, "");
        lines.join("\n") + "\n"
    }
}

fn gen_dedicated(rng: &mut Rng, faults: bool) -> (String, Vec<&'static str>) {
    let mut g = G { rng, types: vec![], vars: vec![], fixed: vec![], faults, feats: vec![], n_data: 0, loops: 0 };
    let text = g.program();
    (text, g.feats)
}

// ------------------------------------------------------------------------------------------------

struct Case {
    text: String,
    prog: String,
    tables: String,
    code: String,
    feats: String,
}

fn disagree(real: &Observed, m: &(String, Vec<u8>, String)) -> Option<&'static str> {
    if real.outcome != m.0 {
        return Some("outcome");
    }
    if real.out != m.1 {
        return Some("output");
    }
    None
}

/// which of the three comparisons fail for a program text (used by the shrinker and the debug mode)
fn verdicts(text: &str) -> Option<(Observed, String, String, String)> {
    let (pp, code) = recl_sx::src_and_code(text)?;
    let real = run_real(text, b"", BUDGET);
    let ans = ask(&[
        format!("(recl.compare {} {} {})", pp.program, pp.tables, code),
        format!("(recl.run {} {})", BUDGET, pp.program),
        format!("(recl.ref {} {})", FUEL, pp.program),
    ]);
    Some((real, ans[0].clone(), ans[1].clone(), ans[2].clone()))
}

fn fails(text: &str, which: &str, what: &str) -> bool {
    let Some((real, cmp, vm, rf)) = verdicts(text) else { return false };
    if real.outcome == "budget" {
        return false;
    }
    match which {
        "compile" => !cmp.starts_with("(same") && !cmp.starts_with("(not-core"),
        "vm" => parse_ref_answer(&vm).map(|m| m.0 != "outOfFuel" && m.0 != "stuck" && disagree(&real, &m) == Some(if what == "outcome" { "outcome" } else { "output" })).unwrap_or(false),
        _ => parse_ref_answer(&rf)
            .map(|m| m.0 != "outOfFuel" && m.0 != "inexact" && m.0 != "illFormed" && disagree(&real, &m) == Some(if what == "outcome" { "outcome" } else { "output" }))
            .unwrap_or(false),
    }
}

fn shrink(text: &str, which: &str, what: &str) -> String {
    let deadline = std::time::Instant::now() + std::time::Duration::from_secs(20);
    let mut lines: Vec<String> = text.lines().map(|l| l.to_owned()).collect();
    let mut changed = true;
    let mut rounds = 0;
    while changed && rounds < 6 && std::time::Instant::now() < deadline {
        changed = false;
        rounds += 1;
        let mut i = 0;
        while i < lines.len() && std::time::Instant::now() < deadline {
            let mut cand = lines.clone();
            cand.remove(i);
            let t = cand.join("\n") + "\n";
            if fails(&t, which, what) {
                lines = cand;
                changed = true;
                continue;
            }
            i += 1;
        }
    }
    lines.join("\n") + "\n"
}

fn main() {
    if let Some(path) = std::env::args().nth(1) {
        let text = std::fs::read_to_string(path).unwrap();
        match verdicts(&text) {
            None => {
                let t = text.clone();
                let why = std::panic::catch_unwind(move || match rusty_parser::parse_main_str(t) {
                    Err(e) => format!("parser: {:?}", e),
                    Ok(p) => match rusty_linter::core::lint(p) {
                        Err(e) => format!("linter: {:?}", e),
                        Ok(_) => "accepted by the front end, outside the modelled language".to_owned(),
                    },
                })
                .unwrap_or_else(|_| "front end panicked".to_owned());
                println!("not compared: {}", why);
            }
            Some((real, cmp, vm, rf)) => {
                println!("real    {} / {:?}", real.outcome, String::from_utf8_lossy(&real.out));
                println!("compare {}", cmp);
                println!("vm      {:?}", parse_ref_answer(&vm).map(|m| (m.0, String::from_utf8_lossy(&m.1).to_string())));
                println!("ref     {:?}", parse_ref_answer(&rf).map(|m| (m.0, String::from_utf8_lossy(&m.1).to_string())));
            }
        }
        return;
    }
    std::panic::set_hook(Box::new(|_| {}));
    let mut rng = Rng::from_env();
    let mut rep = Report::new(
        "C04",
        "programs with records and fixed-length strings (core language, no procedures, no arrays): a dedicated generator — 1-4 TYPEs \
         with 1-5 fields of every kind (INTEGER / LONG / SINGLE / DOUBLE / STRING * n with n in 1..40 / an earlier record type, nesting \
         depth up to 3), record variables (at least two of one type), STRING * n variables; field stores from every value type \
         (conversion, Overflow), string stores that are empty / shorter / exact / over-long / non-ASCII / from STRING * m fields and \
         variables of another length / from string expressions, field-to-field copies, sub-record copies, whole-record copies, reads of \
         never-assigned fields, field names written in another letter case, fields in PRINT / IF / SELECT CASE / FOR bounds / WHILE \
         counters / DO conditions, a DIM that runs again inside a loop, (rarely, fault programs) a DIM inside a branch not taken; a dump \
         of every leaf field of every record and of every STRING * n variable between brackets at the end of every program (a store \
         changes nothing else; every fixed string shows its length); each program: model-compiled instruction list = real list, VM \
         model on it = real outcome and stdout, reference semantics = real outcome and stdout. class = (feature set, outcome kind).",
    );
    let thorough = rep.is_thorough();
    let n_ded = if thorough { 8_000 } else { 500 };
    let mut cases: Vec<Case> = vec![];
    let mut outside = 0u64;
    let mut shown_outside = 0;
    for k in 0..n_ded {
        let (text, feats) = gen_dedicated(&mut rng, k % 3 == 0);
        match recl_sx::src_and_code(&text) {
            Some((pp, code)) => cases.push(Case { text, prog: pp.program, tables: pp.tables, code, feats: feats.join("+") }),
            None => {
                outside += 1;
                if let Ok(dir) = std::env::var("VERIF_C04R_DUMP") {
                    let _ = std::fs::write(format!("{}/rej{}.bas", dir, k), &text);
                }
                if shown_outside < 2 {
                    shown_outside += 1;
                    rep.sample(J::s(format!("rejected by the front end or outside the modelled language:\n{}", text)));
                }
            }
        }
    }
    rep.bump_by("generated.dedicated", n_ded as u64);
    rep.bump_by("generated.dedicated.rejected-or-outside", outside);
    // real runs, in parallel
    let reals: Vec<Observed> = {
        let texts: Vec<String> = cases.iter().map(|c| c.text.clone()).collect();
        let n_threads = 8;
        let chunk = (texts.len() + n_threads - 1) / n_threads.max(1);
        let mut handles = vec![];
        for part in texts.chunks(chunk.max(1)) {
            let part: Vec<String> = part.to_vec();
            handles.push(std::thread::spawn(move || part.iter().map(|t| run_real(t, b"", BUDGET)).collect::<Vec<_>>()));
        }
        handles.into_iter().flat_map(|h| h.join().unwrap()).collect()
    };
    let canswers = ask(&cases.iter().map(|c| format!("(recl.compare {} {} {})", c.prog, c.tables, c.code)).collect::<Vec<_>>());
    let vanswers = ask(&cases.iter().map(|c| format!("(recl.run {} {})", BUDGET, c.prog)).collect::<Vec<_>>());
    let ranswers = ask(&cases.iter().map(|c| format!("(recl.ref {} {})", FUEL, c.prog)).collect::<Vec<_>>());
    // how many explored programs satisfy the premise of RecL.compile_correct (decided by the checker
    // RbModel.RecL.progWfB, proved sound in Thm/RecLWf.lean)
    let wanswers = ask(&cases.iter().map(|c| format!("(recl.wf {})", c.prog)).collect::<Vec<_>>());
    let mut outside_shown = 0;
    for (k, a) in wanswers.iter().enumerate() {
        if a.starts_with("(wf true") {
            rep.bump("theorem-premise.progWfB-true");
        } else if a.starts_with("(wf false") {
            rep.bump("theorem-premise.progWfB-false");
            if outside_shown < 2 {
                outside_shown += 1;
                rep.sample(J::s(format!("outside the premise of RecL.compile_correct:\n{}", cases[k].text)));
            }
        } else {
            rep.bump("theorem-premise.unreadable");
        }
    }
    let mut shrunk = 0;
    for (k, c) in cases.iter().enumerate() {
        let real = &reals[k];
        let okind = real.outcome.split(' ').take(2).collect::<Vec<_>>().join(" ");
        rep.case(Some(format!("{}|{}", c.feats, okind)));
        rep.bump(&format!("outcome.{}", okind));
        for f in c.feats.split('+') {
            if !f.is_empty() {
                rep.bump(&format!("feature.{}", f));
            }
        }
        if k < 2 || k == cases.len() - 1 {
            rep.sample(J::s(c.text.clone()));
        }
        // 1. the generator model
        let a = &canswers[k];
        if a.starts_with("(same") {
            rep.bump("compile-model.same");
            let n: u64 = a.trim_matches(|ch| ch == '(' || ch == ')').split(' ').nth(1).and_then(|x| x.parse().ok()).unwrap_or(0);
            rep.bump_by("compile-model.instructions-compared", n);
        } else if a.starts_with("(not-core") {
            rep.bump("compile-model.instruction-outside-model");
        } else {
            let parts: Vec<&str> = a.trim_matches(|ch| ch == '(' || ch == ')').split(' ').collect();
            let kind: String = parts
                .get(2)
                .map(|x| x.split('@').next().unwrap_or("").chars().take_while(|ch| !ch.is_ascii_digit() && *ch != ':').collect())
                .unwrap_or_default();
            let text = if shrunk < 4 {
                shrunk += 1;
                shrink(&c.text, "compile", "")
            } else {
                c.text.clone()
            };
            rep.fail(Failure {
                kind: Kind::ModelVsImpl,
                signature: format!("recl-compile:{}:{}", parts.first().unwrap_or(&"?"), kind),
                input: text,
                implementation: a.clone(),
                expected: "RbModel.RecL.Compile.compile = normalise(real instruction list)".into(),
                note: "(differ <index> <model instr> <real instr> <model len> <real len>) | (ill-formed) | (bad-op)".into(),
            });
        }
        if real.outcome == "budget" {
            rep.bump("discarded.real-budget");
            continue;
        }
        // 2. the VM model
        match parse_ref_answer(&vanswers[k]) {
            None => rep.bump("vm-model.unreadable"),
            Some(vm) => {
                if vm.0 == "outOfFuel" {
                    rep.bump("vm-model.discarded-fuel");
                } else if vm.0 == "stuck" {
                    rep.bump("vm-model.stuck-or-inexact");
                } else if let Some(what) = disagree(real, &vm) {
                    let text = if shrunk < 4 {
                        shrunk += 1;
                        shrink(&c.text, "vm", what)
                    } else {
                        c.text.clone()
                    };
                    rep.fail(Failure {
                        kind: Kind::ModelVsImpl,
                        signature: format!("recl-vm:{}", what),
                        input: text,
                        implementation: format!("{} / {:?}", real.outcome, String::from_utf8_lossy(&real.out)),
                        expected: format!("{} / {:?}", vm.0, String::from_utf8_lossy(&vm.1)),
                        note: "real pipeline vs RbModel.RecL.Vm.run (RbModel.RecL.Compile.compile p) (before shrinking)".into(),
                    });
                } else {
                    rep.bump("vm-model.same");
                }
            }
        }
        // 3. the reference semantics
        match parse_ref_answer(&ranswers[k]) {
            None => {
                rep.fail(Failure {
                    kind: Kind::ModelVsImpl,
                    signature: "recl-ref:unreadable".into(),
                    input: c.text.clone(),
                    implementation: c.prog.chars().take(300).collect(),
                    expected: ranswers[k].clone(),
                    note: "the Lean reader rejected the serialised program".into(),
                });
            }
            Some(rf) => {
                if rf.0 == "inexact" {
                    rep.bump("ref.discarded-inexact-float");
                } else if rf.0 == "illFormed" {
                    rep.bump(&format!("ref.outside-language.{}", rf.0));
                } else if rf.0 == "outOfFuel" {
                    rep.bump("ref.discarded-fuel");
                } else if let Some(what) = disagree(real, &rf) {
                    let text = if shrunk < 4 {
                        shrunk += 1;
                        shrink(&c.text, "ref", what)
                    } else {
                        c.text.clone()
                    };
                    rep.fail(Failure {
                        kind: Kind::ImplVsProperty,
                        signature: format!("recl-ref:{}", what),
                        input: text,
                        implementation: format!("{} / {:?}", real.outcome, String::from_utf8_lossy(&real.out)),
                        expected: format!("{} / {:?}", rf.0, String::from_utf8_lossy(&rf.1)),
                        note: "implementation vs reference semantics RbModel.RecL.Ref (before shrinking)".into(),
                    });
                } else {
                    rep.bump("ref.same");
                }
            }
        }
    }
    rep.finish();
}
