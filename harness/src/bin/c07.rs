//! C07 — parsing and checking any text ends with a program or a located error.
//!
//! Every input is parsed and checked (`rusty_parser::parse_main_str`, `rusty_linter::core::lint`) in a
//! worker *process* (this binary re-executed with `--worker`), on a thread with a 256 MB stack, under
//! `catch_unwind`; the parent watches each worker with a per-input time limit.  A panic is a result line,
//! a hang is a kill (`timeout`), a stack overflow / abort is a missing result line (`abort`).
//! The position of every reported error is judged by the Lean driver with the decidable predicate of
//! `RbThm.C07.position_in_bounds` (`RbModel.RowCol.inBounds`).
//! The real `create_row_col_view` / `StringView::position` are compared with the model exhaustively on
//! all texts of length <= 6 over {a, CR, LF} and on random long texts.

use std::cell::RefCell;
use std::collections::BTreeMap;
use std::io::{BufRead, BufReader, Write};
use std::process::{Command, Stdio};
use std::sync::mpsc;
use std::sync::{Arc, Mutex};
use std::time::{Duration, Instant};

use rb_harness::driver::ask;
use rb_harness::json::J;
use rb_harness::report::{Failure, Kind, Report};
use rb_harness::rng::Rng;
use rb_harness::rowcol;
use rb_harness::sx;

const STACK: usize = 256 << 20;

// ------------------------------------------------------------------------------------------------
// running one input on the real code
// ------------------------------------------------------------------------------------------------

#[derive(Clone, Debug, PartialEq)]
enum Outcome {
    Ok,
    Parse(u32, u32, String),
    Lint(u32, u32, String),
    /// panic site (file:line), message
    Panic(String, String),
    Timeout,
    Abort(String),
}

thread_local! {
    static LAST_PANIC: RefCell<Option<(String, String)>> = const { RefCell::new(None) };
}

fn install_hook() {
    std::panic::set_hook(Box::new(|info| {
        let site = info
            .location()
            .map(|l| {
                // path relative to the repository (crate directories are all named rusty_*)
                let f = l.file();
                let f = f.find("/rusty_").map(|k| &f[k + 1..]).unwrap_or(f);
                format!("{}:{}", f, l.line())
            })
            .unwrap_or_else(|| "unknown".to_owned());
        let payload = info.payload();
        let msg = if let Some(s) = payload.downcast_ref::<&str>() {
            (*s).to_owned()
        } else if let Some(s) = payload.downcast_ref::<String>() {
            s.clone()
        } else {
            "non-string payload".to_owned()
        };
        LAST_PANIC.with(|p| *p.borrow_mut() = Some((site, msg)));
    }));
}

/// Parse + check on the real code; a panic is a result.
fn classify(text: &str) -> Outcome {
    LAST_PANIC.with(|p| *p.borrow_mut() = None);
    let owned = text.to_owned();
    let r = std::panic::catch_unwind(move || match rusty_parser::parse_main_str(owned) {
        Err(e) => Outcome::Parse(e.pos.row(), e.pos.col(), format!("{:?}", e.element)),
        Ok(program) => match rusty_linter::core::lint(program) {
            Err(e) => Outcome::Lint(e.pos.row(), e.pos.col(), format!("{:?}", e.element)),
            Ok(_) => Outcome::Ok,
        },
    });
    match r {
        Ok(o) => o,
        Err(_) => {
            let (site, msg) = LAST_PANIC
                .with(|p| p.borrow_mut().take())
                .unwrap_or(("unknown".into(), "panic without hook record".into()));
            Outcome::Panic(site, msg)
        }
    }
}

fn hex(s: &str) -> String {
    s.bytes().map(|b| format!("{:02x}", b)).collect()
}

fn unhex(s: &str) -> String {
    let b: Vec<u8> = (0..s.len() / 2).map(|i| u8::from_str_radix(&s[2 * i..2 * i + 2], 16).unwrap_or(b'?')).collect();
    String::from_utf8_lossy(&b).into_owned()
}

fn encode(o: &Outcome) -> String {
    match o {
        Outcome::Ok => "ok".into(),
        Outcome::Parse(r, c, m) => format!("parse {} {} {}", r, c, hex(m)),
        Outcome::Lint(r, c, m) => format!("lint {} {} {}", r, c, hex(m)),
        Outcome::Panic(s, m) => format!("panic {} {}", hex(s), hex(m)),
        Outcome::Timeout => "timeout".into(),
        Outcome::Abort(s) => format!("abort {}", hex(s)),
    }
}

fn decode(line: &str) -> Option<Outcome> {
    let p: Vec<&str> = line.split(' ').collect();
    match p.as_slice() {
        ["ok"] => Some(Outcome::Ok),
        ["parse", r, c, m] => Some(Outcome::Parse(r.parse().ok()?, c.parse().ok()?, unhex(m))),
        ["lint", r, c, m] => Some(Outcome::Lint(r.parse().ok()?, c.parse().ok()?, unhex(m))),
        ["panic", s, m] => Some(Outcome::Panic(unhex(s), unhex(m))),
        _ => None,
    }
}

/// `--worker <file>`: one hex-encoded input per line in, one result line per input out.
fn worker_main(path: String) {
    install_hook();
    let handle = std::thread::Builder::new()
        .stack_size(STACK)
        .spawn(move || {
            let f = std::fs::File::open(&path).expect("worker input file");
            let out = std::io::stdout();
            for line in BufReader::new(f).lines() {
                let line = line.expect("read");
                let text = unhex(line.trim());
                let o = classify(&text);
                let mut lock = out.lock();
                writeln!(lock, "{}", encode(&o)).expect("write");
                lock.flush().expect("flush");
            }
        })
        .expect("spawn worker thread");
    let _ = handle.join();
}

/// Runs the inputs in worker processes, restarting after a hang or an abort.
fn run_in_workers(inputs: &[String], limit: Duration, tag: &str) -> Vec<Outcome> {
    let exe = std::env::current_exe().expect("current exe");
    let dir = std::env::var("VERIF_WORK").unwrap_or_else(|_| std::env::temp_dir().to_string_lossy().into_owned());
    let mut outcomes: Vec<Outcome> = Vec::with_capacity(inputs.len());
    let mut round = 0;
    while outcomes.len() < inputs.len() {
        round += 1;
        let path = format!("{}/c07-worker-{}-{}-{}.in", dir, std::process::id(), tag, round);
        {
            let mut f = std::fs::File::create(&path).expect("create worker input");
            for t in &inputs[outcomes.len()..] {
                writeln!(f, "{}", hex(t)).unwrap();
            }
        }
        let mut child = Command::new(&exe)
            .arg("--worker")
            .arg(&path)
            .stdin(Stdio::null())
            .stdout(Stdio::piped())
            .stderr(Stdio::null())
            .spawn()
            .expect("spawn worker");
        let stdout = child.stdout.take().unwrap();
        let (tx, rx) = mpsc::channel::<String>();
        let reader = std::thread::spawn(move || {
            for line in BufReader::new(stdout).lines() {
                match line {
                    Ok(l) => {
                        if tx.send(l).is_err() {
                            break;
                        }
                    }
                    Err(_) => break,
                }
            }
        });
        loop {
            if outcomes.len() == inputs.len() {
                break;
            }
            match rx.recv_timeout(limit) {
                Ok(line) => match decode(&line) {
                    Some(o) => outcomes.push(o),
                    None => outcomes.push(Outcome::Abort(format!("unreadable worker line {:?}", line))),
                },
                Err(mpsc::RecvTimeoutError::Timeout) => {
                    let _ = child.kill();
                    outcomes.push(Outcome::Timeout);
                    break;
                }
                Err(mpsc::RecvTimeoutError::Disconnected) => {
                    let status = child.wait().map(|s| format!("{}", s)).unwrap_or_else(|e| format!("{}", e));
                    outcomes.push(Outcome::Abort(status));
                    break;
                }
            }
        }
        let _ = child.kill();
        let _ = child.wait();
        let _ = reader.join();
        let _ = std::fs::remove_file(&path);
    }
    outcomes
}

// ------------------------------------------------------------------------------------------------
// inputs
// ------------------------------------------------------------------------------------------------

const KEYWORDS: &[&str] = &[
    "ACCESS", "AND", "APPEND", "AS", "CASE", "CLOSE", "COLOR", "CONST", "DATA", "DECLARE", "DEF", "DEFDBL", "DEFINT",
    "DEFLNG", "DEFSNG", "DEFSTR", "DIM", "DO", "DOUBLE", "ELSE", "ELSEIF", "END", "ERROR", "EXIT", "FIELD", "FOR",
    "FUNCTION", "GET", "GOSUB", "GOTO", "IF", "INPUT", "INTEGER", "IS", "LEN", "LINE", "LOCATE", "LONG", "LOOP",
    "LPRINT", "LSET", "MOD", "NAME", "NEXT", "NOT", "ON", "OPEN", "OR", "OUTPUT", "PRINT", "PUT", "RANDOM", "READ",
    "REDIM", "RESUME", "RETURN", "SEG", "SELECT", "SHARED", "SINGLE", "STATIC", "STEP", "STRING", "SUB", "SYSTEM",
    "THEN", "TO", "TYPE", "UNTIL", "USING", "VIEW", "WEND", "WHILE", "WIDTH", "REM", "CALL", "LET", "EQV", "IMP", "XOR",
];

const BUILT_INS: &[&str] = &[
    "BEEP", "CHR$", "CLS", "CVD", "ENVIRON", "ENVIRON$", "EOF", "ERR", "INKEY$", "INSTR", "KILL", "LBOUND", "LCASE$",
    "LTRIM$", "LEFT$", "MID$", "MKD$", "PEEK", "POKE", "RTRIM$", "RIGHT$", "SCREEN", "SPACE$", "STR$", "STRING$",
    "UBOUND", "UCASE$", "VAL", "VARPTR", "VARSEG", "ABS", "INT", "SGN", "ASC",
];

const IDENTS: &[&str] = &[
    "A", "B", "I", "J", "X", "Y", "N", "S$", "A$", "B%", "C&", "D!", "E#", "Foo", "Bar", "Hello", "Add%", "Fib!", "Card",
    "C.Value", "A.B.C", "x1", "Total.Sum#", "Done", "Handler", "a", "foo$",
];

const NUMBERS: &[&str] = &[
    "0", "1", "2", "10", "32767", "32768", "-1", "65536", "2147483647", "2147483648", "4294967296", "99999999999999999999",
    "1.5", ".5", "5.", "1E10", "1D5", "1.5E+300", "1E-5", "3.14#", "2!", "7%", "9&", "&HFF", "&H", "&O17", "&O9", "&HFFFFFFFFF",
    "1e", "1.2.3", "#1", "#2",
];

const OPERATORS: &[&str] = &[
    "+", "-", "*", "/", "\\", "^", "=", "<", ">", "<=", ">=", "<>", "=<", "=>", "><", ",", ";", ".", "$", "%", "&", "!", "#",
    "?", "@", "_", "~", "[", "]", "{", "}", "|",
];

fn soup_token(rng: &mut Rng) -> String {
    let k = rng.below(100);
    if k < 28 {
        let w = *rng.pick(KEYWORDS);
        if rng.chance(1, 6) { w.to_lowercase() } else { w.to_owned() }
    } else if k < 36 {
        (*rng.pick(BUILT_INS)).to_owned()
    } else if k < 50 {
        (*rng.pick(IDENTS)).to_owned()
    } else if k < 60 {
        (*rng.pick(NUMBERS)).to_owned()
    } else if k < 72 {
        (*rng.pick(OPERATORS)).to_owned()
    } else if k < 77 {
        "(".to_owned()
    } else if k < 82 {
        ")".to_owned()
    } else if k < 85 {
        "\"".to_owned()
    } else if k < 88 {
        (*rng.pick(&["\"abc\"", "\"\"", "\"a b:c'd\"", "\"é\""])).to_owned()
    } else if k < 91 {
        ":".to_owned()
    } else if k < 93 {
        "'".to_owned()
    } else if k < 99 {
        (*rng.pick(&["\n", "\r\n", "\r", "\n\n"])).to_owned()
    } else {
        (*rng.pick(&["\t", "  ", "\u{a0}", "é", "\u{0}", "\u{1F600}"])).to_owned()
    }
}

fn token_soup(rng: &mut Rng) -> String {
    let n = 1 + rng.below(40);
    let mut s = String::new();
    let glue = rng.below(10); // 0: no spaces at all, 1: random, else single spaces
    for i in 0..n {
        if i > 0 {
            match glue {
                0 => {}
                1 => {
                    if rng.chance(1, 2) {
                        s.push(' ');
                    }
                }
                _ => s.push(' '),
            }
        }
        s.push_str(&soup_token(rng));
    }
    s
}

fn random_bytes(rng: &mut Rng) -> String {
    let n = rng.below(65) as usize;
    let style = rng.below(3);
    let bytes: Vec<u8> = (0..n)
        .map(|_| match style {
            0 => rng.below(256) as u8,
            1 => rng.below(128) as u8,
            _ => {
                // printable ASCII with line breaks
                if rng.chance(1, 12) { *rng.pick(&[b'\n', b'\r']) } else { 32 + rng.below(95) as u8 }
            }
        })
        .collect();
    String::from_utf8_lossy(&bytes).into_owned()
}


// ---- grammar-shaped programs with a small shared name pool: mostly well-formed statements, so that the
// ---- checker (name resolution, types, argument lists, labels, FOR/NEXT matching) sees most of them
const POOL: &[&str] = &["A", "B", "F", "S", "T", "N", "X"];
const SUFFIX: &[&str] = &["", "", "", "%", "&", "!", "#", "$"];
const TYPES: &[&str] = &["INTEGER", "LONG", "SINGLE", "DOUBLE", "STRING", "STRING * 5", "T", "S", "Card"];

fn g_name(rng: &mut Rng) -> String {
    let mut s = (*rng.pick(POOL)).to_owned();
    if rng.chance(1, 20) {
        s.push('.');
        s.push_str(*rng.pick(POOL));
    }
    s.push_str(*rng.pick(SUFFIX));
    s
}

fn g_expr(rng: &mut Rng, depth: u32) -> String {
    let k = if depth == 0 { rng.below(5) } else { rng.below(12) };
    match k {
        0 => {
            if rng.chance(1, 25) {
                (*rng.pick(&["1E40", "1#", "2147483648", "4294967296", "&HFFFFF", "1D400", ".", "1.5.5"])).to_owned()
            } else {
                (*rng.pick(&["0", "1", "2", "-1", "32767", "32768", "1.5", "&HFF", "70000", "3.25", "100000"])).to_owned()
            }
        }
        1 => (*rng.pick(&["\"\"", "\"abc\"", "\"1\""])).to_owned(),
        2 | 3 => g_name(rng),
        4 => format!("{}({})", g_name(rng), g_args(rng, 0)),
        5 => format!("({})", g_expr(rng, depth - 1)),
        6 => format!("{}{}", rng.pick(&["-", "NOT ", "+"]), g_expr(rng, depth - 1)),
        7 | 8 | 9 => format!(
            "{} {} {}",
            g_expr(rng, depth - 1),
            rng.pick(&["+", "-", "*", "/", "\\", "^", "MOD", "AND", "OR", "=", "<>", "<", ">", "<=", ">="]),
            g_expr(rng, depth - 1)
        ),
        10 => format!(
            "{}({})",
            rng.pick(&["LEN", "MID$", "LEFT$", "RIGHT$", "CHR$", "STR$", "VAL", "UCASE$", "LCASE$", "INSTR", "LBOUND",
                "UBOUND", "EOF", "PEEK", "VARPTR", "VARSEG", "CVD", "MKD$", "SPACE$", "STRING$", "ENVIRON$", "LTRIM$", "RTRIM$", "ERR", "INKEY$"]),
            g_args(rng, depth - 1)
        ),
        _ => format!("{}({})", g_name(rng), g_args(rng, depth - 1)),
    }
}

fn g_args(rng: &mut Rng, depth: u32) -> String {
    let n = rng.below(4);
    (0..n).map(|_| g_expr(rng, depth)).collect::<Vec<_>>().join(", ")
}

fn g_lvalue(rng: &mut Rng) -> String {
    match rng.below(6) {
        0 => format!("{}({})", g_name(rng), g_args(rng, 1)),
        1 => format!("{}.{}", rng.pick(POOL), rng.pick(POOL)),
        2 => format!("{}({}).{}", rng.pick(POOL), g_expr(rng, 0), rng.pick(POOL)),
        _ => g_name(rng),
    }
}

/// A statement that starts like a call or an assignment target: name(args), name.prop, name$(…), chained
/// properties and parentheses, qualified names in every place — with and without arguments after it, with and
/// without `= expr` (the parser has to decide between sub call and assignment on these shapes).
fn g_name_shape(rng: &mut Rng) -> String {
    let mut s = (*rng.pick(POOL)).to_owned();
    if rng.chance(1, 3) {
        s.push_str(*rng.pick(SUFFIX));
    }
    let links = 1 + rng.below(3);
    for _ in 0..links {
        match rng.below(5) {
            0 | 1 => {
                s.push('(');
                s.push_str(&g_args(rng, 1));
                s.push(')');
            }
            2 | 3 => {
                s.push('.');
                s.push_str(*rng.pick(&["Suit", "Value", "A", "B", "X"]));
                if rng.chance(1, 4) {
                    s.push_str(*rng.pick(SUFFIX));
                }
            }
            _ => {
                s.push_str(*rng.pick(&["$", "%", "()", ".", "..", "(", ")", "(1)(2)", ".1", "!.B"]));
            }
        }
    }
    s
}

fn g_call_shape(rng: &mut Rng) -> String {
    let head = g_name_shape(rng);
    match rng.below(6) {
        0 | 1 => head,
        2 => format!("{} {}", head, g_args(rng, 1)),
        3 => format!("{} = {}", head, g_expr(rng, 1)),
        4 => format!("{}{}", head, rng.pick(&[" 1", " 1, 2", "(1)", " (1), 2", " \"a\"", " -1", " .5", " = ", " ="])),
        _ => format!("{} {}", rng.pick(&["PRINT", "INPUT", "X =", "IF", "FOR", "NEXT", "DIM", "CONST", "GOTO", "CALL"]), head),
    }
}

fn g_params(rng: &mut Rng) -> String {
    let n = rng.below(3);
    (0..n)
        .map(|_| match rng.below(4) {
            0 => format!("{} AS {}", rng.pick(POOL), rng.pick(TYPES)),
            1 => format!("{}()", g_name(rng)),
            _ => g_name(rng),
        })
        .collect::<Vec<_>>()
        .join(", ")
}

fn g_block(rng: &mut Rng, out: &mut Vec<String>, depth: u32, n: u64) {
    for _ in 0..n {
        g_stmt(rng, out, depth);
    }
}

fn g_stmt(rng: &mut Rng, out: &mut Vec<String>, depth: u32) {
    let mut k = rng.below(if depth == 0 { 22 } else { 30 });
    // procedures, types, DECLARE and DEFtype only at the top level (mostly)
    if depth < 3 && (k == 12 || k == 18 || k >= 27) && !rng.chance(1, 20) {
        k = 2;
    }
    match k {
        0 => out.push(format!("CONST {} = {}", g_name(rng), g_expr(rng, 1))),
        1 => { let as_type = rng.chance(1, 2); out.push(format!(
            "{} {}{}{}",
            rng.pick(&["DIM", "DIM", "DIM SHARED", "REDIM", "STATIC"]),
            if as_type { (*rng.pick(POOL)).to_owned() } else { g_name(rng) },
            if rng.chance(1, 2) { format!("({})", rng.pick(&["3", "1 TO 3", "2, 2", "N", "-1", "1 TO 0", "\"a\"", "0 TO 2, 1 TO 2"])) } else { String::new() },
            if as_type { format!(" AS {}", rng.pick(TYPES)) } else { String::new() }
        )) }
        2 | 3 | 4 => out.push(format!("{} = {}", g_lvalue(rng), g_expr(rng, 2))),
        5 => out.push(format!("PRINT {}", g_args(rng, 2).replace(", ", *rng.pick(&["; ", ", "])))),
        6 => out.push(format!("{} {}", if rng.chance(1, 10) { g_name(rng) } else { (*rng.pick(POOL)).to_owned() }, g_args(rng, 1))),
        7 => out.push(g_call_shape(rng)),
        8 => out.push(format!("{} {}", rng.pick(&["GOTO", "GOSUB", "ON ERROR GOTO", "RESUME"]), rng.pick(&["L1", "L2", "A", "10", "L1", "0"]))),
        9 => out.push(format!("{}:", rng.pick(&["L1", "L2", "A", "10"]))),
        10 => out.push(format!("{} {}", rng.pick(&["INPUT", "LINE INPUT", "READ", "INPUT #1,", "LINE INPUT #1,"]), g_lvalue(rng))),
        11 => out.push(format!("DATA {}", rng.pick(&["1, 2", "\"a\", b", "", "1.5", "-1, abc"]))),
        12 => {
            // letter ranges in either case and either order, single letters and lists of both
            let letters = ["A", "B", "C", "F", "M", "S", "T", "X", "Y", "Z", "a", "b", "c", "f", "m", "s", "t", "x", "y", "z"];
            let kw = *rng.pick(&["DEFINT", "DEFSTR", "DEFDBL", "DEFLNG", "DEFSNG"]);
            let n = 1 + rng.below(3);
            let mut parts = vec![];
            for _ in 0..n {
                if rng.chance(1, 3) {
                    parts.push((*rng.pick(&letters)).to_owned());
                } else {
                    parts.push(format!("{}-{}", rng.pick(&letters), rng.pick(&letters)));
                }
            }
            out.push(format!("{} {}", kw, parts.join(", ")));
        }
        13 => out.push(if rng.chance(1, 8) {
            (*rng.pick(&["WEND", "NEXT", "LOOP", "END IF", "END SUB", "ELSE", "CASE 1", "EXIT FOR", "END FUNCTION", "END SELECT", "END TYPE"])).to_owned()
        } else {
            (*rng.pick(&["EXIT SUB", "EXIT FUNCTION", "RETURN", "END", "SYSTEM", "RESUME NEXT", "ON ERROR RESUME NEXT", "CLS", "BEEP", "CLOSE", "RESUME", "PRINT"])).to_owned()
        }),
        14 => out.push(format!(
            "{} {}",
            rng.pick(&["CLOSE", "KILL", "ENVIRON", "LOCATE", "COLOR", "POKE", "WIDTH", "DEF SEG =", "GET", "PUT", "CLOSE #1,", "KILL"]),
            { let a = g_args(rng, 1); if a.is_empty() { g_expr(rng, 1) } else { a } }
        )),
        15 => out.push(format!("OPEN {} FOR {} AS #{}", g_expr(rng, 0), rng.pick(&["INPUT", "OUTPUT", "APPEND", "RANDOM"]), rng.pick(&["1", "2", "1", "255"]))),
        16 => out.push(format!("IF {} THEN {}", g_expr(rng, 1), {
            let mut v = vec![];
            g_stmt(rng, &mut v, 0);
            v.join(": ")
        })),
        17 => out.push(format!("PRINT USING {}; {}", g_expr(rng, 0), g_args(rng, 1))),
        18 => out.push(if rng.chance(1, 2) {
            format!("DECLARE SUB {} ({})", rng.pick(POOL), g_params(rng))
        } else {
            format!("DECLARE FUNCTION {}{} ({})", rng.pick(POOL), rng.pick(SUFFIX), g_params(rng))
        }),
        19 => out.push(format!("{} = {}: {} = {}", g_lvalue(rng), g_expr(rng, 1), g_lvalue(rng), g_expr(rng, 1))),
        20 => out.push(format!("' {}", g_expr(rng, 1))),
        21 => out.push(String::new()),
        22 => {
            out.push(format!("IF {} THEN", g_expr(rng, 1)));
            { let n = rng.below(3); g_block(rng, out, depth - 1, n); }
            if rng.chance(1, 3) {
                out.push(format!("ELSEIF {} THEN", g_expr(rng, 1)));
                { let n = rng.below(2); g_block(rng, out, depth - 1, n); }
            }
            if rng.chance(1, 3) {
                out.push("ELSE".into());
                { let n = rng.below(2); g_block(rng, out, depth - 1, n); }
            }
            out.push("END IF".into());
        }
        23 => {
            let v = g_lvalue(rng);
            out.push(format!("FOR {} = {} TO {}{}", v, g_expr(rng, 1), g_expr(rng, 1), if rng.chance(1, 3) { format!(" STEP {}", g_expr(rng, 1)) } else { String::new() }));
            { let n = rng.below(3); g_block(rng, out, depth - 1, n); }
            out.push(match rng.below(4) {
                0 => "NEXT".into(),
                1 => format!("NEXT {}", g_lvalue(rng)),
                _ => format!("NEXT {}", v),
            });
        }
        24 => {
            out.push(format!("WHILE {}", g_expr(rng, 1)));
            { let n = rng.below(3); g_block(rng, out, depth - 1, n); }
            out.push("WEND".into());
        }
        25 => {
            let pre = rng.chance(1, 2);
            let post = !pre || rng.chance(1, 15);
            out.push(format!("DO{}", if pre { format!(" {} {}", rng.pick(&["WHILE", "UNTIL"]), g_expr(rng, 1)) } else { String::new() }));
            { let n = rng.below(3); g_block(rng, out, depth - 1, n); }
            out.push(format!("LOOP{}", if post { format!(" {} {}", rng.pick(&["WHILE", "UNTIL"]), g_expr(rng, 1)) } else { String::new() }));
        }
        26 => {
            out.push(format!("SELECT CASE {}", g_expr(rng, 1)));
            for _ in 0..rng.below(3) {
                out.push(match rng.below(4) {
                    0 => format!("CASE {} TO {}", g_expr(rng, 0), g_expr(rng, 0)),
                    1 => format!("CASE IS {} {}", rng.pick(&["<", ">", "=", "<>"]), g_expr(rng, 0)),
                    2 => "CASE ELSE".into(),
                    _ => format!("CASE {}", g_args(rng, 0)),
                });
                { let n = rng.below(2); g_block(rng, out, depth - 1, n); }
            }
            out.push("END SELECT".into());
        }
        27 | 28 => {
            let kind = *rng.pick(&["SUB", "FUNCTION"]);
            let name = if kind == "SUB" && !rng.chance(1, 12) {
                (*rng.pick(POOL)).to_owned()
            } else {
                format!("{}{}", rng.pick(POOL), rng.pick(SUFFIX))
            };
            out.push(format!("{} {} ({}){}", kind, name, g_params(rng), if rng.chance(1, 5) { " STATIC" } else { "" }));
            { let n = rng.below(4); g_block(rng, out, depth - 1, n); }
            if kind == "FUNCTION" && rng.chance(2, 3) {
                out.push(format!("{} = {}", name, g_expr(rng, 1)));
            }
            out.push(format!("END {}", kind));
        }
        _ => {
            out.push(format!("TYPE {}", rng.pick(&["T", "S", "Card", "A"])));
            for _ in 0..rng.below(3) {
                out.push(format!("{} AS {}", rng.pick(POOL), rng.pick(TYPES)));
            }
            out.push("END TYPE".into());
        }
    }
}

fn grammar_program(rng: &mut Rng) -> String {
    let mut lines = vec![];
    let n = 1 + rng.below(8);
    g_block(rng, &mut lines, 3, n);
    let eol = *rng.pick(&["\n", "\n", "\r\n", "\r"]);
    let mut s = lines.join(eol);
    if rng.chance(3, 4) {
        s.push_str(eol);
    }
    s
}

/// Small valid programs covering the statement repertoire (each must be accepted; checked at start-up).
const PROGRAMS: &[&str] = &[
    "PRINT \"Hello, world!\"\n",
    "A = 1\nB% = 2\nC& = 3\nD! = 4.5\nE# = 6.25\nF$ = \"x\"\nPRINT A; B%; C&; D!; E#; F$\n",
    "FOR I = 1 TO 10 STEP 2\n  PRINT I\nNEXT I\n",
    "I = 0\nWHILE I < 3\n  I = I + 1\nWEND\n",
    "DO\n  X = X + 1\nLOOP UNTIL X > 3\nDO WHILE X < 9\n  X = X + 2\nLOOP\n",
    "IF A > 1 THEN\n  PRINT \"a\"\nELSEIF A = 1 THEN\n  PRINT \"b\"\nELSE\n  PRINT \"c\"\nEND IF\n",
    "IF A = 0 THEN PRINT \"zero\" ELSE PRINT \"nz\"\n",
    "SELECT CASE X\n  CASE 1\n    PRINT \"one\"\n  CASE 2 TO 5\n    PRINT \"few\"\n  CASE IS > 5\n    PRINT \"many\"\n  CASE ELSE\n    PRINT \"?\"\nEND SELECT\n",
    "DECLARE SUB Hello (N)\nHello 1\nSUB Hello (N)\n  PRINT N\nEND SUB\n",
    "DECLARE FUNCTION Add% (A%, B%)\nPRINT Add%(1, 2)\nFUNCTION Add% (A%, B%)\n  Add% = A% + B%\nEND FUNCTION\n",
    "DIM A(1 TO 10) AS INTEGER\nA(1) = 5\nPRINT A(1); LBOUND(A); UBOUND(A)\n",
    "TYPE Card\n  Value AS INTEGER\n  Suit AS STRING * 9\nEND TYPE\nDIM C AS Card\nC.Value = 1\nC.Suit = \"Hearts\"\nPRINT C.Value; C.Suit\n",
    "CONST PI = 3.14\nCONST NAME$ = \"x\"\nPRINT PI * 2; NAME$\n",
    "GOSUB Sub1\nEND\nSub1:\nPRINT \"in\"\nRETURN\n",
    "GOTO Done\nPRINT \"skipped\"\nDone:\nPRINT \"done\"\n",
    "ON ERROR GOTO Handler\nX = 1 / 0\nEND\nHandler:\nPRINT ERR\nRESUME NEXT\n",
    "DATA 1, 2, \"three\"\nREAD A, B, C$\nPRINT A; B; C$\n",
    "DEFINT A-Z\nDEFSTR S\nS = \"x\"\nA = 1\nPRINT S; A\n",
    "INPUT N$\nPRINT N$\nLINE INPUT A$\nINPUT X, Y\n",
    "OPEN \"f.txt\" FOR OUTPUT AS #1\nPRINT #1, \"x\"\nCLOSE #1\n",
    "OPEN \"f.txt\" FOR INPUT AS #1\nWHILE NOT EOF(1)\n  LINE INPUT #1, A$\n  PRINT A$\nWEND\nCLOSE\n",
    "PRINT LEFT$(\"hello\", 2); MID$(\"hello\", 2, 3); RIGHT$(\"hello\", 1); LEN(\"abc\"); UCASE$(\"a\")\nPRINT STR$(1); VAL(\"2\"); CHR$(65); INSTR(\"abc\", \"b\"); LTRIM$(\" a\"); SPACE$(2)\n",
    "PRINT USING \"###.##\"; 3.14159\nPRINT 1, 2; 3\nPRINT\n",
    "A = (1 + 2) * 3 - 4 / 2 MOD 3\nB = A AND 1 OR NOT 2\nC = -A\nIF A <> B AND A >= C OR A <= 1 THEN PRINT \"x\"\n",
    "DECLARE SUB Inc ()\nDIM SHARED G AS INTEGER\nInc\nPRINT G\nSUB Inc\n  G = G + 1\nEND SUB\n",
    "' comment\nPRINT 1 ' trailing\n'last\n",
    "A = 1: B = 2: PRINT A + B\n",
    "CLS\nLOCATE 1, 1\nCOLOR 7, 0\nPRINT &HFF; &O17\n",
    "FOR I = 1 TO 2\n  FOR J = 1 TO 2\n    IF I = J THEN PRINT I\n  NEXT J\nNEXT I\n",
    "ENVIRON \"A=B\"\nPRINT ENVIRON$(\"A\")\nKILL \"x.txt\"\nNAME \"a\" AS \"b\"\n",
    "DECLARE FUNCTION Fib! (N!)\nPRINT Fib(5)\nFUNCTION Fib (N)\n  IF N <= 1 THEN\n    Fib = N\n  ELSE\n    Fib = Fib(N - 1) + Fib(N - 2)\n  END IF\nEND FUNCTION\n",
    "DEF SEG = 0\nPOKE 1, 2\nPRINT PEEK(1)\nDEF SEG\n",
    "VIEW PRINT 1 TO 10\nWIDTH 80, 25\nVIEW PRINT\n",
    "DECLARE SUB S ()\nS\nSUB S STATIC\n  C = C + 1\n  IF C > 1 THEN EXIT SUB\n  PRINT C\nEND SUB\n",
    "DIM A$(3), M(2, 3) AS LONG\nA$(0) = \"z\"\nM(1, 2) = 7\nREDIM B(5) AS SINGLE\nPRINT A$(0); M(1, 2); B(1)\n",
    "TYPE R\n  N AS STRING * 4\nEND TYPE\nDIM X AS R\nOPEN \"r.dat\" FOR RANDOM AS #1 LEN = 4\nFIELD #1, 4 AS N$\nLSET N$ = \"ab\"\nPUT #1, 1\nGET #1, 1\nCLOSE #1\n",
];

/// Words, numbers, strings, white space, line breaks, single other characters.
fn tokens_of(text: &str) -> Vec<String> {
    let cs: Vec<char> = text.chars().collect();
    let mut out = vec![];
    let mut i = 0;
    let is_word = |c: char| c.is_ascii_alphanumeric() || c == '.' || c == '_';
    while i < cs.len() {
        let c = cs[i];
        let start = i;
        if is_word(c) {
            while i < cs.len() && is_word(cs[i]) {
                i += 1;
            }
            if i < cs.len() && "$%&!#".contains(cs[i]) {
                i += 1;
            }
        } else if c == '"' {
            i += 1;
            while i < cs.len() && cs[i] != '"' && cs[i] != '\n' && cs[i] != '\r' {
                i += 1;
            }
            if i < cs.len() && cs[i] == '"' {
                i += 1;
            }
        } else if c == ' ' || c == '\t' {
            while i < cs.len() && (cs[i] == ' ' || cs[i] == '\t') {
                i += 1;
            }
        } else if c == '\r' && i + 1 < cs.len() && cs[i + 1] == '\n' {
            i += 2;
        } else {
            i += 1;
        }
        out.push(cs[start..i].iter().collect());
    }
    out
}

fn mutate_items<T: Clone>(rng: &mut Rng, items: &[T], other: &[T]) -> Vec<T> {
    let mut v: Vec<T> = items.to_vec();
    let n_ops = 1 + rng.below(3);
    for _ in 0..n_ops {
        if v.is_empty() {
            break;
        }
        let i = rng.below(v.len() as u64) as usize;
        match rng.below(6) {
            0 => {
                v.remove(i);
            }
            1 => {
                let x = v[i].clone();
                v.insert(i, x);
            }
            2 => {
                let j = rng.below(v.len() as u64) as usize;
                v.swap(i, j);
            }
            3 => {
                v.truncate(i);
            }
            4 => {
                // splice a piece of another program
                if !other.is_empty() {
                    let j = rng.below(other.len() as u64) as usize;
                    v.insert(i, other[j].clone());
                }
            }
            _ => {
                // delete a range
                let j = (i + 1 + rng.below(4) as usize).min(v.len());
                v.drain(i..j);
            }
        }
    }
    v
}

fn nesting_inputs(depths: &[usize]) -> Vec<(String, String)> {
    let mut v = vec![];
    for &d in depths {
        let rep = |s: &str| s.repeat(d);
        let nl = |open: &dyn Fn(usize) -> String, close: &dyn Fn(usize) -> String, body: &str| {
            let mut s = String::new();
            for k in 0..d {
                s.push_str(&open(k));
            }
            s.push_str(body);
            for k in (0..d).rev() {
                s.push_str(&close(k));
            }
            s
        };
        v.push((format!("paren{}", d), format!("X = {}1{}\n", rep("("), rep(")"))));
        v.push((format!("paren-open{}", d), format!("X = {}1\n", rep("("))));
        v.push((format!("paren-close{}", d), format!("X = 1{}\n", rep(")"))));
        v.push((format!("paren-sum{}", d), format!("X = {}1{}\n", rep("(1+"), rep(")"))));
        v.push((format!("neg{}", d), format!("X = {}1\n", rep("-"))));
        v.push((format!("not{}", d), format!("X = {}1\n", rep("NOT "))));
        v.push((format!("call{}", d), format!("X = {}1{}\n", rep("ABS("), rep(")"))));
        v.push((format!("index{}", d), format!("DIM A(10)\nX = {}1{}\n", rep("A("), rep(")"))));
        // calls of BUILT-IN functions nested in each other's arguments (ABS is not a built-in here: `call` above nests
        // undefined-function calls); added after a wave-9 seed whose checker visited built-in arguments twice per level
        v.push((format!("builtin-str{}", d), format!("X$ = {}\"a\"{}\n", rep("UCASE$(LTRIM$("), rep("))"))));
        v.push((format!("builtin-num{}", d), format!("X = {}1{}\n", rep("LEN(STR$("), rep("))"))));
        v.push((format!("builtin-val{}", d), format!("X = {}\"1\"{}\n", rep("VAL(STR$("), rep("))"))));
        v.push((format!("builtin-mid{}", d), format!("X$ = {}\"abc\"{}\n", rep("MID$("), rep(", 1, 2)"))));
        v.push((format!("builtin-sub-arg{}", d), format!("PRINT {}\"a\"{}\n", rep("LCASE$(RTRIM$("), rep("))"))));
        v.push((
            format!("userfn{}", d),
            format!("DECLARE FUNCTION F (x)\nX = {}1{}\nFUNCTION F (x)\nF = x\nEND FUNCTION\n", rep("F("), rep(")")),
        ));
        v.push((
            format!("userfn-builtin{}", d),
            format!("DECLARE FUNCTION F (x)\nX = {}1{}\nFUNCTION F (x)\nF = x\nEND FUNCTION\n", rep("F(LEN(STR$("), rep(")))")),
        ));
        v.push((format!("index-builtin{}", d), format!("DIM A(10)\nX = {}1{}\n", rep("A(LEN(STR$("), rep(")))"))));
        v.push((format!("paren-builtin{}", d), format!("X = {}1{}\n", rep("(LEN((STR$("), rep("))))"))));
        v.push((format!("neg-builtin{}", d), format!("X = {}1{}\n", rep("-LEN(STR$("), rep("))"))));
        v.push((format!("plus-chain{}", d), format!("X = 1{}\n", rep(" + 1"))));
        v.push((format!("and-chain{}", d), format!("X = 1{}\n", rep(" AND 1 < 2"))));
        v.push((format!("dots{}", d), format!("X{} = 1\n", rep(".A"))));
        v.push((format!("colons{}", d), format!("{}\n", rep("A = 1: "))));
        v.push((format!("commas{}", d), format!("PRINT 1{}\n", rep(", 1"))));
        v.push((
            format!("if{}", d),
            nl(&|_| "IF A THEN\n".to_owned(), &|_| "END IF\n".to_owned(), "PRINT 1\n"),
        ));
        v.push((format!("if-open{}", d), format!("{}PRINT 1\n", rep("IF A THEN\n"))));
        v.push((format!("if-close{}", d), format!("PRINT 1\n{}", rep("END IF\n"))));
        v.push((format!("if-inline{}", d), format!("{}PRINT 1\n", rep("IF A THEN "))));
        v.push((
            format!("elseif{}", d),
            format!("IF A THEN\nPRINT 0\n{}END IF\n", rep("ELSEIF B THEN\nPRINT 1\n")),
        ));
        v.push((
            format!("for{}", d),
            nl(&|k| format!("FOR I{} = 1 TO 2\n", k), &|k| format!("NEXT I{}\n", k), "PRINT 1\n"),
        ));
        v.push((format!("for-open{}", d), format!("{}PRINT 1\n", rep("FOR I = 1 TO 2\n"))));
        v.push((format!("for-next-list{}", d), {
            let mut s = String::new();
            for k in 0..d {
                s.push_str(&format!("FOR I{} = 1 TO 2\n", k));
            }
            s.push_str("NEXT ");
            s.push_str(&(0..d).rev().map(|k| format!("I{}", k)).collect::<Vec<_>>().join(", "));
            s.push('\n');
            s
        }));
        v.push((format!("while{}", d), nl(&|_| "WHILE A\n".to_owned(), &|_| "WEND\n".to_owned(), "A = 0\n")));
        v.push((format!("do{}", d), nl(&|_| "DO\n".to_owned(), &|_| "LOOP UNTIL A\n".to_owned(), "A = 1\n")));
        v.push((
            format!("select{}", d),
            nl(&|_| "SELECT CASE A\nCASE 1\n".to_owned(), &|_| "END SELECT\n".to_owned(), "PRINT 1\n"),
        ));
        v.push((format!("cases{}", d), format!("SELECT CASE A\n{}END SELECT\n", rep("CASE 1, 2 TO 3, IS > 4\nPRINT 1\n"))));
        v.push((format!("subs{}", d), {
            let mut s = String::new();
            for k in 0..d {
                s.push_str(&format!("SUB S{}\nPRINT {}\nEND SUB\n", k, k));
            }
            s
        }));
        v.push((format!("sub-in-sub{}", d), format!("{}PRINT 1\n", rep("SUB S\n"))));
        v.push((format!("types{}", d), format!("TYPE T\n{}END TYPE\n", (0..d).map(|k| format!("F{} AS INTEGER\n", k)).collect::<String>())));
        v.push((format!("dims{}", d), format!("DIM A({})\n", vec!["1"; d].join(", "))));
        v.push((format!("strings{}", d), format!("PRINT {}\n", vec!["\"a\""; d].join(" + "))));
        v.push((format!("blank-lines{}", d), format!("{}PRINT 1{}", rep("\r\n"), rep("\n"))));
        v.push((format!("long-ident{}", d), format!("{} = 1\n", rep("Ab"))));
        v.push((format!("long-number{}", d), format!("X = {}\n", rep("9"))));
        v.push((format!("long-comment{}", d), format!("' {}\n", rep("x "))));
    }
    v
}

fn fnv(s: &str) -> u64 {
    let mut h: u64 = 0xcbf29ce484222325;
    for b in s.bytes() {
        h ^= b as u64;
        h = h.wrapping_mul(0x100000001b3);
    }
    h
}

// ------------------------------------------------------------------------------------------------
// shrinking a panicking input (same panic site), in-process on a big stack, abandoned on a deadline
// ------------------------------------------------------------------------------------------------

fn shrink(text: &str, site: &str, deadline: Duration) -> String {
    let best = Arc::new(Mutex::new(text.to_owned()));
    let best2 = best.clone();
    let site = site.to_owned();
    let done = Arc::new(Mutex::new(false));
    let done2 = done.clone();
    let _ = std::thread::Builder::new().stack_size(STACK).spawn(move || {
        let same = |t: &str| matches!(classify(t), Outcome::Panic(s, _) if s == site);
        let mut budget = 3000;
        // token level, then character level
        for level in 0..2 {
            let mut items: Vec<String> = {
                let cur = best2.lock().unwrap().clone();
                if level == 0 { tokens_of(&cur) } else { cur.chars().map(|c| c.to_string()).collect() }
            };
            let mut chunk = (items.len() / 2).max(1);
            while chunk >= 1 && budget > 0 {
                let mut i = 0;
                let mut progress = false;
                while i < items.len() && budget > 0 {
                    let end = (i + chunk).min(items.len());
                    let cand: Vec<String> = items[..i].iter().chain(items[end..].iter()).cloned().collect();
                    let t: String = cand.concat();
                    budget -= 1;
                    if same(&t) {
                        items = cand;
                        *best2.lock().unwrap() = t;
                        progress = true;
                    } else {
                        i += chunk;
                    }
                }
                if chunk == 1 && !progress {
                    break;
                }
                if !progress || chunk > 1 {
                    chunk = if chunk == 1 { 1 } else { chunk / 2 };
                }
            }
        }
        *done2.lock().unwrap() = true;
    });
    let t0 = Instant::now();
    while t0.elapsed() < deadline && !*done.lock().unwrap() {
        std::thread::sleep(Duration::from_millis(20));
    }
    let r = best.lock().unwrap().clone();
    r
}

// ------------------------------------------------------------------------------------------------

fn main() {
    let args: Vec<String> = std::env::args().collect();
    if args.len() >= 3 && args[1] == "--worker" {
        worker_main(args[2].clone());
        return;
    }
    install_hook();
    let mut rng = Rng::from_env();
    let mut rep = Report::new(
        "C07",
        "inputs to parse_main_str + lint, each run in a watched worker process: random bytes decoded as UTF-8 (lossy), token \
         soups over the lexer's alphabet, grammar-shaped programs over a small shared name pool (so that the checker is reached), every string literal of the repository's Rust sources (repo-literal: programs and fragments, accepted and rejected), call/assignment-target shapes (name(args), name.prop, name$(..), chained properties and parentheses, with and without arguments), byte- and token-level mutations (delete, duplicate, swap, truncate, splice) of a \
         corpus (fixtures/*.BAS + built-in programs covering the statement repertoire), every prefix of every corpus program, \
         nesting/length ladders up to 300 (parentheses, IF, FOR, WHILE, DO, SELECT, operators chains …). class = the input \
         text (hash); the empty text is trivial. Row/col table: all texts of length <= 6 over {a, CR, LF} and random long \
         texts (class = text).",
    );
    let thorough = rep.is_thorough();
    let t_start = Instant::now();

    // ---- 1. row/col table: model vs implementation vs human reference --------------------------------
    let small = rowcol::texts_up_to(&['a', '\r', '\n'], 6);
    rowcol::compare_tables(&mut rep, &small, "exhaustive<=6");
    rep.exhaustive_parts.push(format!(
        "create_row_col_view and StringView::position at every index: all {} texts of length <= 6 over {{a, CR, LF}}",
        small.len()
    ));
    let n_long = if thorough { 3000 } else { 300 };
    let long: Vec<String> = (0..n_long).map(|_| rowcol::random_text(&mut rng, if thorough { 3000 } else { 1200 })).collect();
    rowcol::compare_tables(&mut rep, &long, "random-long");

    // ---- 2. corpus ---------------------------------------------------------------------------------------
    let mut corpus: Vec<String> = PROGRAMS.iter().map(|s| (*s).to_owned()).collect();
    let mut fixtures: Vec<String> = vec![];
    if let Ok(rd) = std::fs::read_dir("/repo/fixtures") {
        let mut paths: Vec<_> = rd.filter_map(|e| e.ok()).map(|e| e.path()).collect();
        paths.sort();
        for p in paths {
            if p.extension().map(|e| e == "BAS").unwrap_or(false) {
                if let Ok(bytes) = std::fs::read(&p) {
                    fixtures.push(String::from_utf8_lossy(&bytes).into_owned());
                }
            }
        }
    }
    rep.notes.push(format!("corpus: {} built-in programs + {} fixtures", PROGRAMS.len(), fixtures.len()));
    corpus.extend(fixtures.iter().cloned());

    // ---- 3. generate inputs ------------------------------------------------------------------------------
    let mut inputs: Vec<(String, String)> = vec![]; // (generator class, text)
    for (k, p) in corpus.iter().enumerate() {
        inputs.push((if k < PROGRAMS.len() { "corpus.builtin".into() } else { "corpus.fixture".into() }, p.clone()));
        // line-ending variants of the whole program
        inputs.push(("corpus.crlf".into(), p.replace("\r\n", "\n").replace('\n', "\r\n")));
        inputs.push(("corpus.cr".into(), p.replace("\r\n", "\n").replace('\n', "\r")));
    }
    // every string literal of the repository's Rust sources (whole programs and fragments, accepted and rejected)
    let literals = rb_harness::corpus::candidate_texts();
    rep.notes.push(format!("repo-literal: {} string literals of the repository's sources", literals.len()));
    for t in &literals {
        inputs.push(("repo-literal".into(), t.clone()));
    }
    for _ in 0..(if thorough { 20_000 } else { 1_500 }) {
        inputs.push(("call-shape".into(), {
            let mut t = g_call_shape(&mut rng);
            if rng.chance(1, 2) {
                t.push('\n');
            }
            t
        }));
    }
    let (n_bytes, n_soup, n_mut_b, n_mut_t, n_grammar) =
        if thorough { (40_000, 100_000, 80_000, 80_000, 150_000) } else { (2_000, 3_500, 3_500, 3_500, 5_500) };
    for _ in 0..n_bytes {
        inputs.push(("random-bytes".into(), random_bytes(&mut rng)));
    }
    for _ in 0..n_soup {
        inputs.push(("token-soup".into(), token_soup(&mut rng)));
    }
    for _ in 0..n_grammar {
        inputs.push(("grammar-program".into(), grammar_program(&mut rng)));
    }
    let corpus_tokens: Vec<Vec<String>> = corpus.iter().map(|p| tokens_of(p)).collect();
    let corpus_chars: Vec<Vec<char>> = corpus.iter().map(|p| p.chars().collect()).collect();
    // seeds of the mutations: the corpus + the repository's literals (a sample of 400 in the quick tier)
    let mut seeds: Vec<String> = corpus.clone();
    if thorough || literals.len() <= 400 {
        seeds.extend(literals.iter().cloned());
    } else {
        for _ in 0..400 {
            seeds.push(rng.pick(&literals).clone());
        }
    }
    let seed_tokens: Vec<Vec<String>> = seeds.iter().map(|p| tokens_of(p)).collect();
    let seed_chars: Vec<Vec<char>> = seeds.iter().map(|p| p.chars().collect()).collect();
    for _ in 0..n_mut_b {
        let k = rng.below(seeds.len() as u64) as usize;
        let o = rng.below(seeds.len() as u64) as usize;
        let v = mutate_items(&mut rng, &seed_chars[k], &seed_chars[o]);
        inputs.push(("mutation.char".into(), v.into_iter().collect()));
    }
    for _ in 0..n_mut_t {
        let k = rng.below(seeds.len() as u64) as usize;
        let o = rng.below(seeds.len() as u64) as usize;
        let v = mutate_items(&mut rng, &seed_tokens[k], &seed_tokens[o]);
        inputs.push(("mutation.token".into(), v.concat()));
    }
    // every prefix: character level for the built-in programs (all in thorough; every program, stride by tier),
    // token level for everything
    let mut n_prefix = 0;
    for (k, cs) in corpus_chars.iter().enumerate() {
        let stride = if thorough || k % 4 == (rng.seed() % 4) as usize { 1 } else { 5 };
        let mut i = 0;
        while i < cs.len() {
            inputs.push(("prefix.char".into(), cs[..i].iter().collect()));
            n_prefix += 1;
            i += stride;
        }
    }
    for ts in &corpus_tokens {
        for i in 0..ts.len() {
            inputs.push(("prefix.token".into(), ts[..i].concat()));
            n_prefix += 1;
        }
    }
    rep.notes.push(format!("{} prefixes of corpus programs", n_prefix));
    let depths: Vec<usize> =
        if thorough { vec![1, 2, 3, 5, 8, 13, 21, 27, 34, 42, 55, 89, 144, 200, 250, 300] } else { vec![1, 2, 5, 20, 30, 45, 100, 300] };
    let nesting = nesting_inputs(&depths);

    // ---- 4. run ---------------------------------------------------------------------------------------------
    let limit = Duration::from_secs(20);
    let workers = std::thread::available_parallelism().map(|n| n.get()).unwrap_or(4).clamp(2, 8);
    let texts: Vec<String> = inputs.iter().map(|(_, t)| t.clone()).collect();
    let chunk = texts.len().div_ceil(workers);
    let mut handles = vec![];
    for (w, part) in texts.chunks(chunk).enumerate() {
        let part: Vec<String> = part.to_vec();
        handles.push(std::thread::spawn(move || run_in_workers(&part, limit, &format!("w{}", w))));
    }
    // nesting ladders: their own worker processes, one per family of depths, so that an abort is isolated
    let nest_texts: Vec<String> = nesting.iter().map(|(_, t)| t.clone()).collect();
    let nest_chunk = nest_texts.len().div_ceil(4);
    let mut nest_handles = vec![];
    for (w, part) in nest_texts.chunks(nest_chunk).enumerate() {
        let part: Vec<String> = part.to_vec();
        nest_handles.push(std::thread::spawn(move || run_in_workers(&part, limit, &format!("n{}", w))));
    }
    let mut outcomes: Vec<Outcome> = vec![];
    for h in handles {
        outcomes.extend(h.join().expect("worker supervisor"));
    }
    for h in nest_handles {
        outcomes.extend(h.join().expect("worker supervisor"));
    }
    for (name, t) in nesting {
        inputs.push((format!("nesting.{}", name.trim_end_matches(|c: char| c.is_ascii_digit())), t));
    }
    assert_eq!(outcomes.len(), inputs.len());

    // the corpus must be accepted (otherwise mutations of it explore little)
    for (k, p) in corpus.iter().enumerate() {
        if outcomes[3 * k] != Outcome::Ok {
            rep.notes.push(format!("corpus program not accepted: {:?} -> {:?}", p, outcomes[3 * k]));
        }
    }

    // ---- 5. judge -------------------------------------------------------------------------------------------
    let mut reqs = vec![];
    let mut req_of = vec![usize::MAX; inputs.len()];
    for (k, o) in outcomes.iter().enumerate() {
        if let Outcome::Parse(r, c, _) | Outcome::Lint(r, c, _) = o {
            req_of[k] = reqs.len();
            reqs.push(format!("(rowcol.inBounds {} {} {})", sx::chars(&inputs[k].1), r, c));
        }
    }
    let answers = ask(&reqs);
    // panic sites -> shortest input
    let mut panic_sites: BTreeMap<String, (String, String)> = BTreeMap::new();
    for (k, o) in outcomes.iter().enumerate() {
        let (class, text) = &inputs[k];
        rep.case(if text.is_empty() { None } else { Some(format!("{:016x}{:x}", fnv(text), text.len())) });
        rep.bump(&format!("input.{}", class));
        let short = class.split('.').next().unwrap_or("");
        rep.bump(&format!(
            "by-generator.{}.{}",
            short,
            match o {
                Outcome::Ok => "ok",
                Outcome::Parse(..) => "parse-error",
                Outcome::Lint(..) => "lint-error",
                Outcome::Panic(..) => "panic",
                Outcome::Timeout => "timeout",
                Outcome::Abort(_) => "abort",
            }
        ));
        if std::env::var("C07_DUMP").is_ok() && class == "grammar-program" {
            eprintln!("{:?} => {:?}", text, o);
        }
        let chars: Vec<char> = text.chars().collect();
        match o {
            Outcome::Ok => rep.bump("outcome.ok"),
            Outcome::Parse(r, c, m) | Outcome::Lint(r, c, m) => {
                let which = if matches!(o, Outcome::Parse(..)) { "parse" } else { "lint" };
                rep.bump(&format!("outcome.{}-error", which));
                let at_end = (*r, *c) == rowcol::human_positions(&chars).1;
                if at_end {
                    rep.bump(&format!("position.{}.at-end-of-text", which));
                    if matches!(chars.last(), Some('\n') | Some('\r')) {
                        rep.bump("position.at-end-after-terminator(col = line length + 2)");
                    }
                }
                let model = &answers[req_of[k]];
                let mirror = rowcol::in_bounds(&chars, *r, *c);
                if model != "t" {
                    rep.fail(Failure {
                        kind: Kind::ImplVsProperty,
                        signature: format!("position-out-of-bounds:{}", which),
                        input: text.clone(),
                        implementation: format!("{} error {:?} at ({}, {})", which, m, r, c),
                        expected: format!("a position inside the text or at its end (text has {} lines)", rowcol::line_spans(&chars).len()),
                        note: "RbModel.RowCol.inBounds (decidable predicate of RbThm.C07.position_in_bounds) says no".into(),
                    });
                }
                if (model == "t") != mirror {
                    rep.fail(Failure {
                        kind: Kind::ModelVsImpl,
                        signature: "model:inBounds-mirror".into(),
                        input: reqs[req_of[k]].clone(),
                        implementation: format!("rust mirror {}", mirror),
                        expected: model.clone(),
                        note: "Rust mirror of inBounds disagrees with the Lean model".into(),
                    });
                }
            }
            Outcome::Panic(site, msg) => {
                rep.bump("outcome.panic");
                let e = panic_sites.entry(site.clone()).or_insert((text.clone(), msg.clone()));
                if text.chars().count() < e.0.chars().count() {
                    *e = (text.clone(), msg.clone());
                }
            }
            Outcome::Timeout => {
                rep.bump("outcome.timeout");
                rep.fail(Failure {
                    kind: Kind::ImplVsProperty,
                    signature: format!("timeout:{}", class),
                    input: text.clone(),
                    implementation: format!("no result within {} s (worker killed)", limit.as_secs()),
                    expected: "a program or a located error in bounded time".into(),
                    note: "parse + check did not return".into(),
                });
            }
            Outcome::Abort(status) => {
                rep.bump("outcome.abort");
                rep.fail(Failure {
                    kind: Kind::ImplVsProperty,
                    signature: format!("abort:{}", class),
                    input: if text.len() > 400 { format!("{}… ({} chars)", text.chars().take(400).collect::<String>(), text.chars().count()) } else { text.clone() },
                    implementation: format!("worker process died ({}) on a 256 MB stack", status),
                    expected: "a program or a located error".into(),
                    note: "stack overflow or abort in parse + check".into(),
                });
            }
        }
    }
    for (site, (text, msg)) in &panic_sites {
        let small = shrink(text, site, Duration::from_secs(if thorough { 60 } else { 15 }));
        // key: file of the panic site + head of the panic message (line numbers shift whenever the file is
        // edited; the exact file:line is in the `implementation` field)
        let file = site.rsplit_once(':').map(|(f, _)| f).unwrap_or(site);
        let head: String = msg.chars().take_while(|c| *c != '\n').take(60).collect();
        rep.fail(Failure {
            kind: Kind::ImplVsProperty,
            signature: format!("panic:{}:{}", file, head.trim()),
            input: small,
            implementation: format!("panic at {}: {}", site, msg),
            expected: "a program or a located error".into(),
            note: format!("parse + check panicked; first seen on {:?}", text.chars().take(120).collect::<String>()),
        });
    }
    rep.sample(J::s(format!("{:?} -> {:?}", inputs[0].1, outcomes[0])));
    for want in ["token-soup", "repo-literal", "call-shape", "grammar-program", "mutation.token", "random-bytes", "prefix.char"] {
        if let Some(k) = inputs.iter().position(|(c, _)| c == want) {
            rep.sample(J::s(format!("[{}] {:?} -> {:?}", want, inputs[k].1, outcomes[k])));
        }
    }
    rep.notes.push(format!(
        "{} inputs in {} worker processes + 4 nesting workers, per-input limit {} s, wall {:.1} s",
        inputs.len(),
        workers,
        limit.as_secs(),
        t_start.elapsed().as_secs_f64()
    ));
    rep.finish();
}
