//! C03 / C05 (phase A of the simulation layer "procedures ∪ jumps") — programs with SUBs / FUNCTIONs AND labels, GOTO, GOSUB,
//! RETURN (in the main module and inside procedure bodies) on the real pipeline vs the three Lean models of
//! `lean/RbModel/ProcJ/`:
//!   * `procj.compare`: `RbModel.ProcJ.Compile.compile p` = the real instruction list, instruction for instruction
//!     (positions, label names, resolved addresses of user labels in every scope, the PopRegisters / PopValueStackIntoA runs
//!     in front of a Jump, parameter names);
//!   * `procj.run`: `RbModel.ProcJ.Vm.run` on the model-compiled code = real outcome and stdout;
//!   * `procj.ref`: the big-step reference semantics `RbModel.ProcJ.Ref.run` (GOSUB = nested run of the body of the current
//!     activation; leaving the procedure ends them; a RETURN only answers a GOSUB of its own activation) = real outcome
//!     (error code + position) and stdout;
//!   * `procj.wf`: the premise checker `RbModel.ProcJ.progWfB`, counted per program.
//! Usage for debugging: `c03j <file.bas>` prints the answers for one program; `c03j --gen [n]` prints generated programs.

use std::collections::BTreeSet;

use rb_harness::corpus;
use rb_harness::driver::ask;
use rb_harness::json::J;
use rb_harness::procj_sx;
use rb_harness::refrun::{parse_ref_answer, run_real, Observed};
use rb_harness::report::{Failure, Kind, Report};
use rb_harness::rng::Rng;

const FUEL: u64 = 6000;
const BUDGET: u64 = 400_000;

// ------------------------------------------------------------------------------------------------
// dedicated generator: every program is bounded (FOR loops with constant bounds, counted WHILE loops, no backward GOTO)

/// the body being generated: the main module or one procedure
struct Host {
    is_main: bool,
    /// "SUB" / "FUNCTION"
    kw: &'static str,
    /// the procedure's name (with sigil for a FUNCTION)
    name: String,
    lines: Vec<String>,
    /// GOSUB routines of this body, placed after its END / EXIT
    routines: Vec<Vec<String>>,
    /// the last routine has no RETURN: END SUB / END FUNCTION (or the end of the main module) is reached inside it
    falls_off: bool,
}

impl Host {
    fn main() -> Host {
        Host { is_main: true, kw: "", name: String::new(), lines: vec![], routines: vec![], falls_off: false }
    }
    fn proc_(kw: &'static str, name: &str) -> Host {
        Host { is_main: false, kw, name: name.to_owned(), lines: vec![], routines: vec![], falls_off: false }
    }
}

struct G<'a> {
    rng: &'a mut Rng,
    n: usize,
    /// finished procedures (full text) and their DECLARE lines
    procs: Vec<String>,
    decls: Vec<String>,
    feats: BTreeSet<&'static str>,
    shared: bool,
    /// the program ends with a run-time error on purpose: nothing may follow
    dead: bool,
}

fn ind(lines: Vec<String>) -> Vec<String> {
    lines.into_iter().map(|l| format!("  {}", l)).collect()
}

impl<'a> G<'a> {
    fn feat(&mut self, f: &'static str) {
        self.feats.insert(f);
    }

    fn fresh(&mut self, p: &str) -> String {
        self.n += 1;
        format!("{}{}", p, self.n)
    }

    fn recase(&mut self, l: &str) -> String {
        match self.rng.below(4) {
            0 => l.to_ascii_lowercase(),
            1 => l.to_ascii_uppercase(),
            _ => l.to_owned(),
        }
    }

    /// `d` nested FOR loops around `inner`; the counters are printed after `inner` in every round and after the nest
    fn fors(&mut self, d: u32, inner: Vec<String>, tag: &str, allow_step: bool) -> Vec<String> {
        if d == 0 {
            return inner;
        }
        let mut counters = vec![];
        for _ in 0..d {
            counters.push(self.fresh("I") + "%");
        }
        let mut body = inner;
        body.push(format!("PRINT \"{}\"; {}", tag, counters.join("; ")));
        for (k, c) in counters.iter().enumerate().rev() {
            let hi = self.rng.range(2, 3);
            let head = if allow_step && self.rng.chance(1, 5) {
                self.feat("for-step");
                if self.rng.chance(1, 2) { format!("FOR {} = {} TO 1 STEP -1", c, hi) } else { format!("FOR {} = 1 TO {} STEP 1", c, hi) }
            } else {
                format!("FOR {} = 1 TO {}", c, hi)
            };
            let mut l = vec![head];
            l.extend(ind(body));
            l.push(if self.rng.chance(1, 3) { format!("NEXT {}", c) } else { "NEXT".to_owned() });
            if k == 0 {
                l.push(format!("PRINT \"{}.\"; {}", tag, counters.join("; ")));
            }
            body = l;
        }
        body
    }

    /// the end of a routine: a RETURN, possibly from inside the routine's own FOR / SELECT / WHILE
    fn ret_style(&mut self, tag: &str) -> Vec<String> {
        match self.rng.below(7) {
            0 | 1 => vec!["RETURN".to_owned()],
            2 => {
                self.feat("return-from-for");
                let q = self.fresh("Q") + "%";
                vec![
                    format!("FOR {} = 1 TO 4", q),
                    format!("  IF {} = 2 THEN RETURN", q),
                    "NEXT".to_owned(),
                    format!("PRINT \"{}-not-here\"", tag),
                    "RETURN".to_owned(),
                ]
            }
            3 => {
                self.feat("return-from-select");
                vec![
                    "SELECT CASE 2".to_owned(),
                    "CASE 1".to_owned(),
                    format!("  PRINT \"{}-no\"", tag),
                    "CASE 2".to_owned(),
                    "  RETURN".to_owned(),
                    "END SELECT".to_owned(),
                    "RETURN".to_owned(),
                ]
            }
            4 => {
                self.feat("return-from-for-select");
                let q = self.fresh("Q") + "%";
                let r = self.fresh("Q") + "%";
                vec![
                    format!("FOR {} = 1 TO 3", q),
                    format!("  FOR {} = 5 TO 6", r),
                    format!("    SELECT CASE {} + {}", q, r),
                    "    CASE 8".to_owned(),
                    format!("      PRINT \"{}r\"; {}; {}", tag, q, r),
                    "      RETURN".to_owned(),
                    "    CASE ELSE".to_owned(),
                    "    END SELECT".to_owned(),
                    "  NEXT".to_owned(),
                    "NEXT".to_owned(),
                    "RETURN".to_owned(),
                ]
            }
            5 => {
                self.feat("return-from-while");
                let w = self.fresh("W") + "%";
                vec![
                    format!("{} = 0", w),
                    format!("WHILE {} < 3", w),
                    format!("  {} = {} + 1", w, w),
                    format!("  IF {} = 2 THEN RETURN", w),
                    "WEND".to_owned(),
                    "RETURN".to_owned(),
                ]
            }
            _ => {
                self.feat("return-in-if");
                vec!["IF 1 THEN".to_owned(), "  RETURN".to_owned(), "END IF".to_owned(), format!("PRINT \"{}-no\"", tag), "RETURN".to_owned()]
            }
        }
    }

    /// `k` routines, routine i GOSUBs routine i+1 (at its own FOR depth 0-1); returns the label of the first one
    fn routine_chain(&mut self, host: &mut Host, k: u32, tag: &str, leaf: Vec<String>) -> String {
        let labels: Vec<String> = (0..k).map(|_| self.fresh("R")).collect();
        for i in 0..k as usize {
            let t = format!("{}{}", tag, i);
            let mut body = vec![format!("PRINT \"{}>\";", t)];
            if i + 1 < k as usize {
                let call = vec![format!("GOSUB {}", self.recase(&labels[i + 1]))];
                let d = self.rng.below(2) as u32;
                body.extend(self.fors(d, call, &t, true));
            } else {
                body.extend(leaf.clone());
            }
            body.extend(self.ret_style(&t));
            let mut r = vec![format!("{}:", labels[i])];
            r.extend(ind(body));
            host.routines.push(r);
        }
        labels[0].clone()
    }

    /// GOSUB routines nested 1-3 called at FOR depth 0-2 of the host
    fn sc_gosub_nest(&mut self, host: &mut Host) {
        let k = self.rng.range(1, 3) as u32;
        let tag = self.fresh("g");
        let v = self.fresh("V") + "%";
        let leaf = vec![format!("{} = {} + 1", v, v), format!("PRINT \"{}v\"; {}", tag, v)];
        let l = self.routine_chain(host, k, &tag, leaf);
        let d = self.rng.below(3) as u32;
        self.feat(match k {
            1 => "gosub-nest-1",
            2 => "gosub-nest-2",
            _ => "gosub-nest-3",
        });
        if !host.is_main {
            self.feat("gosub-in-proc");
        }
        let call = vec![format!("GOSUB {}", self.recase(&l))];
        let code = self.fors(d, call, &tag, true);
        host.lines.extend(code);
        host.lines.push(format!("PRINT \"{}=\"; {}", tag, v));
    }

    /// GOTO out of 1-3 nested loops / SELECTs to a label after the nest (optionally inside the body of an enclosing FOR)
    fn sc_goto_out(&mut self, host: &mut Host) {
        let depth = self.rng.range(1, 3);
        let tag = self.fresh("o");
        let out = self.fresh("L");
        let mut counters: Vec<String> = vec![];
        // innermost statement
        let mut body: Vec<String> = vec![];
        let mut heads: Vec<(Vec<String>, Vec<String>)> = vec![];
        for _ in 0..depth {
            match self.rng.below(5) {
                0 | 1 => {
                    let c = self.fresh("I") + "%";
                    counters.push(c.clone());
                    heads.push((vec![format!("FOR {} = 1 TO 3", c)], vec!["NEXT".to_owned()]));
                    self.feat("goto-out-of-for");
                }
                2 => {
                    let c = self.fresh("W") + "%";
                    counters.push(c.clone());
                    heads.push((vec![format!("{} = 0", c), format!("WHILE {} < 3", c), format!("  {} = {} + 1", c, c)], vec!["WEND".to_owned()]));
                    self.feat("goto-out-of-while");
                }
                3 => {
                    let c = self.fresh("W") + "%";
                    counters.push(c.clone());
                    heads.push((vec![format!("{} = 0", c), "DO".to_owned(), format!("  {} = {} + 1", c, c)], vec![format!("LOOP UNTIL {} >= 3", c)]));
                    self.feat("goto-out-of-do");
                }
                _ => {
                    heads.push((vec!["SELECT CASE 1".to_owned(), "CASE 1".to_owned()], vec!["CASE ELSE".to_owned(), "END SELECT".to_owned()]));
                    self.feat("goto-out-of-select");
                }
            }
        }
        let cond = match counters.last() {
            Some(c) => format!("IF {} = 2 THEN GOTO {}", c, self.recase(&out)),
            None => format!("GOTO {}", self.recase(&out)),
        };
        body.push(format!("PRINT \"{}\"; {}", tag, if counters.is_empty() { "0".to_owned() } else { counters.join("; ") }));
        body.push(cond);
        for (h, t) in heads.into_iter().rev() {
            let mut l = h;
            l.extend(ind(body));
            l.extend(t);
            body = l;
        }
        body.push(format!("PRINT \"{}-not-here\"", tag));
        body.push(format!("{}:", out));
        if !counters.is_empty() {
            body.push(format!("PRINT \"{}.\"; {}", tag, counters.join("; ")));
        }
        if !host.is_main {
            self.feat("goto-in-proc");
        }
        // the label may live inside the body of an enclosing FOR: the jump leaves the inner frames only
        let d = self.rng.below(2) as u32;
        if d > 0 {
            self.feat("goto-to-label-in-enclosing-for");
        }
        let code = self.fors(d, body, &tag, false);
        host.lines.extend(code);
    }

    /// a procedure whose body GOSUBs at FOR depth 0-2; returns the call text
    fn make_gosub_proc(&mut self, is_fn: bool, is_static: bool) -> String {
        let name = if is_fn { self.fresh("Fg") + "%" } else { self.fresh("Sg") };
        let mut h = Host::proc_(if is_fn { "FUNCTION" } else { "SUB" }, &name);
        if is_static {
            self.feat("static-with-gosub");
            h.lines.push("CNT% = CNT% + 1".to_owned());
        }
        h.lines.push(format!("PRINT \"{}(\"; P0%;", name));
        self.sc_gosub_nest(&mut h);
        if self.rng.chance(1, 3) {
            self.sc_goto_out(&mut h);
        }
        if is_static {
            h.lines.push(format!("PRINT \"{}#\"; CNT%", name));
        }
        if is_fn {
            h.lines.push(format!("{} = P0% + 1", name));
        } else if self.rng.chance(1, 2) {
            h.lines.push("P0% = P0% + 10".to_owned());
        }
        self.finish_proc(h, is_static);
        name
    }

    fn finish_proc(&mut self, h: Host, is_static: bool) {
        let mut text = vec![format!("{} {} (P0%){}", h.kw, h.name, if is_static { " STATIC" } else { "" })];
        text.extend(ind(h.lines));
        if !h.routines.is_empty() && !h.falls_off {
            text.push(format!("  EXIT {}", h.kw));
        }
        for r in h.routines {
            text.extend(ind(r));
        }
        text.push(format!("END {}", h.kw));
        self.decls.push(format!("DECLARE {} {} (P0%)", h.kw, h.name));
        self.procs.push(text.join("\n"));
    }

    /// the text of a call of `name` with argument `arg` as a statement of its own (a FUNCTION is printed)
    fn call_stmt(&mut self, name: &str, arg: &str) -> String {
        if name.ends_with('%') {
            format!("PRINT {}({})", name, arg)
        } else if self.rng.chance(1, 3) {
            format!("CALL {}({})", name, arg)
        } else {
            format!("{} {}", name, arg)
        }
    }

    /// the host's GOSUB routine (at FOR depth 0-2 on both sides) calls a procedure that itself GOSUBs; the routine RETURNs from
    /// inside its own FOR afterwards; loop counters printed each round
    fn sc_call_in_routine(&mut self, host: &mut Host) {
        let is_fn = self.rng.chance(1, 2);
        let is_static = self.rng.chance(1, 4);
        // the callee answers all its GOSUBs, or is left with GOSUBs of its own pending
        let callee = if self.rng.chance(1, 2) {
            self.make_gosub_proc(is_fn, is_static)
        } else {
            self.feat("caller-routine-calls-leaving-proc");
            self.make_leaving_proc()
        };
        let tag = self.fresh("c");
        let r = self.fresh("R");
        let d_routine = self.rng.below(3) as u32;
        let a = self.fresh("A") + "%";
        let arg = if self.rng.chance(1, 2) { a.clone() } else { "3".to_owned() };
        // routine: FOR nest around the call, then a RETURN from inside the innermost FOR
        let call = self.call_stmt(&callee, &arg);
        let mut counters = vec![];
        for _ in 0..d_routine {
            counters.push(self.fresh("K") + "%");
        }
        let mut body = vec![call, format!("PRINT \"{}k\"; {}", tag, if counters.is_empty() { "0".to_owned() } else { counters.join("; ") })];
        if let Some(c) = counters.last() {
            self.feat("caller-returns-from-own-for-after-call");
            body.push(format!("IF {} = 2 THEN RETURN", c));
        }
        for c in counters.iter().rev() {
            let mut l = vec![format!("FOR {} = 1 TO 3", c)];
            l.extend(ind(body));
            l.push("NEXT".to_owned());
            body = l;
        }
        body.push("RETURN".to_owned());
        let mut rt = vec![format!("{}:", r)];
        rt.extend(ind(body));
        host.routines.push(rt);
        let d_host = self.rng.below(3) as u32;
        let g = vec![format!("GOSUB {}", self.recase(&r))];
        let code = self.fors(d_host, g, &tag, true);
        host.lines.extend(code);
        host.lines.push(format!("PRINT \"{}a\"; {}", tag, a));
        self.feat("caller-routine-calls-gosubbing-proc");
        self.feat(match (d_host, d_routine) {
            (0, 0) => "call-in-routine.depth-0-0",
            (0, _) => "call-in-routine.depth-0-n",
            (_, 0) => "call-in-routine.depth-n-0",
            _ => "call-in-routine.depth-n-n",
        });
    }

    /// a FUNCTION whose body GOSUBs / GOTOs out of a SELECT / leaves from a routine reached from inside a SELECT block, called
    /// with a pending operand
    fn sc_fn_pending(&mut self, host: &mut Host) {
        let name = self.fresh("Fp") + "%";
        let mut h = Host::proc_("FUNCTION", &name);
        let tag = self.fresh("p");
        let r = self.fresh("R");
        let done = self.fresh("L");
        let kind = self.rng.below(5);
        let mut blk: Vec<String> = vec![];
        match kind {
            0 => {
                self.feat("fn-gosub-inside-select");
                blk.push(format!("GOSUB {}", r));
                blk.push(format!("PRINT \"{}b\";", tag));
            }
            1 => {
                self.feat("fn-goto-out-of-select");
                blk.push(format!("GOSUB {}", r));
                blk.push(format!("GOTO {}", done));
            }
            2 => {
                self.feat("fn-exit-in-routine-from-select");
                blk.push(format!("GOSUB {}", r));
                blk.push(format!("PRINT \"{}-not-here\"", tag));
            }
            3 => {
                self.feat("fn-goto-out-of-for-select");
                blk.push(format!("GOTO {}", done));
            }
            _ => {
                self.feat("fn-exit-inside-select");
                blk.push(format!("{} = 5", name));
                blk.push("EXIT FUNCTION".to_owned());
            }
        }
        let mut sel = vec!["SELECT CASE P0%".to_owned(), "CASE 1, 2".to_owned()];
        sel.extend(ind(blk));
        sel.push("CASE ELSE".to_owned());
        sel.push(format!("  {} = 9", name));
        sel.push("END SELECT".to_owned());
        if kind == 3 {
            let q = self.fresh("Q") + "%";
            let mut l = vec![format!("FOR {} = 1 TO 2", q)];
            l.extend(ind(sel));
            l.push("NEXT".to_owned());
            sel = l;
        }
        h.lines.extend(sel);
        h.lines.push(format!("{} = {} + 20", name, name));
        h.lines.push("EXIT FUNCTION".to_owned());
        h.lines.push(format!("{}:", done));
        h.lines.push(format!("{} = {} + 3", name, name));
        // the routine
        let mut rt = vec![format!("{}:", r), format!("  {} = P0%", name)];
        if kind == 2 {
            let d = self.rng.below(3) as u32;
            let ex = self.fors(d, vec!["EXIT FUNCTION".to_owned()], &tag, true);
            rt.extend(ind(ex));
        } else {
            let e = self.ret_style(&tag);
            rt.extend(ind(e));
        }
        h.routines.push(rt);
        self.finish_proc(h, false);
        // call sites with pending operands
        let v = self.fresh("V") + "%";
        let a = self.rng.range(1, 3);
        match self.rng.below(4) {
            0 => host.lines.push(format!("{} = 100 + {}({}) - 100", v, name, a)),
            1 => {
                self.feat("fn-in-print-list");
                host.lines.push(format!("PRINT 7; {}({}); 8", name, a));
                host.lines.push(format!("{} = 1000 - {}({})", v, name, a));
            }
            2 => {
                self.feat("fn-in-select-selector-and-case");
                host.lines.push(format!("SELECT CASE 50 + {}({})", name, a));
                host.lines.push(format!("CASE 40 + {}(1)", name));
                host.lines.push(format!("  {} = 1", v));
                host.lines.push(format!("CASE 50 TO 50 + {}(2) * 2", name));
                host.lines.push(format!("  {} = 2", v));
                host.lines.push("CASE ELSE".to_owned());
                host.lines.push(format!("  {} = 3", v));
                host.lines.push("END SELECT".to_owned());
            }
            _ => {
                self.feat("fn-nested-in-args");
                host.lines.push(format!("{} = 10 * ({}({}({}) - 1) + 2) + 1", v, name, name, a));
            }
        }
        host.lines.push(format!("PRINT \"{}\"; {}", tag, v));
        self.feat("fn-with-pending-operand");
    }

    /// a procedure left from inside one of its own GOSUB routines (own GOSUB pending): EXIT SUB / FUNCTION at FOR depth 0-2 of the
    /// routine, or END SUB reached inside the routine; the body calls the routine at FOR depth 0-2
    fn make_leaving_proc(&mut self) -> String {
        let is_fn = self.rng.chance(1, 2);
        let name = if is_fn { self.fresh("Fx") + "%" } else { self.fresh("Sx") };
        let kw = if is_fn { "FUNCTION" } else { "SUB" };
        let mut h = Host::proc_(kw, &name);
        let tag = self.fresh("x");
        let end_reached = self.rng.chance(1, 3);
        let k = self.rng.range(1, 3) as u32;
        let leaf = if end_reached {
            self.feat("end-sub-reached-inside-routine");
            vec![format!("PRINT \"{}e\"", tag)]
        } else {
            self.feat("exit-inside-routine");
            let d = self.rng.below(3) as u32;
            let ex = if self.rng.chance(1, 3) {
                self.feat("exit-inside-routine-select");
                vec!["SELECT CASE 1".to_owned(), "CASE 1".to_owned(), format!("  EXIT {}", kw), "END SELECT".to_owned()]
            } else {
                vec![format!("IF P0% < 100 THEN EXIT {}", kw)]
            };
            self.fors(d, ex, &tag, true)
        };
        if is_fn {
            h.lines.push(format!("{} = P0% * 2", name));
        }
        // routines: the chain; the last one leaves
        let labels: Vec<String> = (0..k).map(|_| self.fresh("R")).collect();
        for i in 0..k as usize {
            let t = format!("{}{}", tag, i);
            let mut body = vec![format!("PRINT \"{}>\";", t)];
            if i + 1 < k as usize {
                let call = vec![format!("GOSUB {}", labels[i + 1])];
                let d = self.rng.below(2) as u32;
                body.extend(self.fors(d, call, &t, true));
                body.push(format!("PRINT \"{}-not-here\"", t));
                body.push("RETURN".to_owned());
            } else {
                body.extend(leaf.clone());
                if !end_reached {
                    body.push(format!("PRINT \"{}-not-here\"", t));
                    body.push("RETURN".to_owned());
                }
            }
            let mut r = vec![format!("{}:", labels[i])];
            r.extend(ind(body));
            h.routines.push(r);
        }
        if end_reached {
            // the leaving routine must be the last one in the text
            h.falls_off = false;
        }
        let d = self.rng.below(3) as u32;
        let call = vec![format!("GOSUB {}", labels[0])];
        let code = self.fors(d, call, &tag, true);
        h.lines.extend(code);
        h.lines.push(format!("PRINT \"{}-not-here\"", tag));
        self.finish_proc(h, false);
        name
    }

    /// the host calls a procedure that is left from inside its own routine, at FOR depth 0-2 of the host; the host's counters
    /// are printed each round (a frame left behind shows)
    fn sc_leaving(&mut self, host: &mut Host) {
        let callee = self.make_leaving_proc();
        let tag = self.fresh("l");
        let d = self.rng.below(3) as u32;
        let call = vec![self.call_stmt(&callee, "1")];
        // from the main module, from a GOSUB routine of the host, or directly
        if self.rng.chance(1, 2) {
            self.feat("leaving-proc-called-from-routine");
            let r = self.fresh("R");
            let mut rt = vec![format!("{}:", r)];
            rt.extend(ind(call));
            rt.extend(ind(self.ret_style(&tag)));
            host.routines.push(rt);
            let g = vec![format!("GOSUB {}", r)];
            let code = self.fors(d, g, &tag, true);
            host.lines.extend(code);
        } else {
            let code = self.fors(d, call, &tag, true);
            host.lines.extend(code);
        }
    }

    /// recursion with GOSUB: the recursive call is made from inside a routine
    fn sc_recursion(&mut self, host: &mut Host) {
        let is_fn = self.rng.chance(1, 2);
        let is_static = self.rng.chance(1, 4);
        let name = if is_fn { self.fresh("Fr") + "%" } else { self.fresh("Sr") };
        let kw = if is_fn { "FUNCTION" } else { "SUB" };
        let mut h = Host::proc_(kw, &name);
        let r = self.fresh("R");
        let tag = self.fresh("r");
        h.lines.push(format!("PRINT \"{}(\"; P0%;", tag));
        let g = vec![format!("IF P0% > 0 THEN GOSUB {}", r)];
        let d = self.rng.below(2) as u32;
        let code = self.fors(d, g, &tag, true);
        h.lines.extend(code);
        h.lines.push(format!("PRINT \"{})\"; P0%; LV%", tag));
        if is_fn {
            h.lines.push(format!("{} = ACC% + P0%", name));
        }
        let mut rt = vec![format!("{}:", r), "  LV% = LV% + 1".to_owned()];
        if is_fn {
            rt.push(format!("  ACC% = {}(P0% - 1) + 1", name));
        } else {
            rt.push(format!("  {} P0% - 1", name));
        }
        if self.rng.chance(1, 3) {
            self.feat("recursion-exit-from-routine");
            rt.push(format!("  IF P0% = 1 THEN EXIT {}", kw));
        }
        rt.extend(ind(self.ret_style(&tag)));
        h.routines.push(rt);
        self.finish_proc(h, is_static);
        self.feat(if is_static { "static-recursion-with-gosub" } else { "recursion-with-gosub" });
        let n = if d > 0 { 1 } else { 2 };
        host.lines.push(self.call_stmt(&name, &format!("{}", n)));
    }

    /// RETURN in a procedure while only a caller has a GOSUB pending: error 3 at the RETURN
    fn sc_error3(&mut self, host: &mut Host) {
        let is_fn = self.rng.chance(1, 3);
        let name = if is_fn { self.fresh("Fe") + "%" } else { self.fresh("Se") };
        let kw = if is_fn { "FUNCTION" } else { "SUB" };
        let mut h = Host::proc_(kw, &name);
        let tag = self.fresh("e");
        h.lines.push(format!("PRINT \"{}\";", tag));
        if self.rng.chance(1, 2) {
            // a GOSUB of its own that has been answered: nothing of this activation is pending any more
            self.feat("error3-after-own-gosub-answered");
            self.sc_gosub_nest(&mut h);
        }
        let d = self.rng.below(3) as u32;
        let code = self.fors(d, vec!["RETURN".to_owned()], &tag, true);
        h.lines.extend(code);
        h.lines.push(format!("PRINT \"{}-not-here\"", tag));
        self.finish_proc(h, false);
        // the caller has a GOSUB pending
        let r = self.fresh("R");
        let mut rt = vec![format!("{}:", r)];
        rt.push(format!("  {}", self.call_stmt(&name, "1")));
        rt.push(format!("  PRINT \"{}-back-in-routine\"", tag));
        rt.push("  RETURN".to_owned());
        host.routines.push(rt);
        let dh = self.rng.below(2) as u32;
        let g = vec![format!("GOSUB {}", r)];
        let code = self.fors(dh, g, &tag, true);
        host.lines.extend(code);
        self.feat("return-in-proc-only-caller-pending");
        self.dead = true;
    }

    /// a procedure that hosts scenarios itself (the caller side inside a procedure)
    fn sc_proc_host(&mut self, host: &mut Host, depth: u32) {
        let is_fn = self.rng.chance(1, 2);
        let is_static = self.rng.chance(1, 4);
        let name = if is_fn { self.fresh("Fh") + "%" } else { self.fresh("Sh") };
        let mut h = Host::proc_(if is_fn { "FUNCTION" } else { "SUB" }, &name);
        h.lines.push(format!("PRINT \"{}(\"; P0%;", name));
        let n = self.rng.range(1, 2);
        for _ in 0..n {
            self.scenario(&mut h, depth);
            if self.dead {
                break;
            }
        }
        if is_fn {
            h.lines.push(format!("{} = P0% + 7", name));
        }
        self.finish_proc(h, is_static);
        self.feat("scenario-inside-proc");
        let d = self.rng.below(2) as u32;
        let call = vec![self.call_stmt(&name, "2")];
        let code = self.fors(d, call, "h", true);
        host.lines.extend(code);
    }

    fn scenario(&mut self, host: &mut Host, depth: u32) {
        match self.rng.below(if depth > 0 { 12 } else { 10 }) {
            0 | 1 => self.sc_gosub_nest(host),
            2 => self.sc_goto_out(host),
            3 | 4 => self.sc_call_in_routine(host),
            5 | 6 => self.sc_fn_pending(host),
            7 | 8 => self.sc_leaving(host),
            9 => self.sc_recursion(host),
            _ => self.sc_proc_host(host, depth - 1),
        }
    }

    fn program(&mut self, want_error3: bool) -> String {
        let mut main = Host::main();
        let n = self.rng.range(2, 4);
        for _ in 0..n {
            self.scenario(&mut main, 2);
        }
        if want_error3 {
            if self.rng.chance(1, 2) {
                self.sc_error3(&mut main);
            } else {
                // inside a procedure: the caller with the pending GOSUB is a procedure too
                let name = self.fresh("Sc");
                let mut h = Host::proc_("SUB", &name);
                self.sc_error3(&mut h);
                self.finish_proc(h, false);
                main.lines.push(format!("{} 1", name));
                self.feat("error3-caller-is-a-proc");
            }
        }
        let mut lines = vec![];
        if self.rng.chance(1, 2) {
            lines.extend(self.decls.clone());
        }
        if self.shared {
            lines.push("DIM SHARED LV%".to_owned());
            self.feat("shared-counter");
        }
        lines.extend(main.lines);
        lines.push("PRINT \"done\"".to_owned());
        if !main.routines.is_empty() {
            lines.push("END".to_owned());
        }
        for r in main.routines {
            lines.extend(r);
        }
        let mut text = lines.join("\n") + "\n";
        for p in &self.procs {
            text.push('\n');
            text.push_str(p);
            text.push('\n');
        }
        text
    }
}

fn gen_dedicated(rng: &mut Rng, want_error3: bool) -> (String, Vec<&'static str>) {
    let shared = rng.chance(1, 2);
    let mut g = G { rng, n: 0, procs: vec![], decls: vec![], feats: BTreeSet::new(), shared, dead: false };
    let text = g.program(want_error3);
    (text, g.feats.into_iter().collect())
}

// ------------------------------------------------------------------------------------------------

struct Case {
    text: String,
    prog: String,
    tables: String,
    code: String,
    feats: String,
}

fn disagree(real: &Observed, m: &(String, Vec<u8>, String)) -> Option<&'static str> {
    if real.outcome != m.0 {
        return Some("outcome");
    }
    if real.out != m.1 {
        return Some("output");
    }
    None
}

fn verdicts(text: &str) -> Option<(Observed, String, String, String, String)> {
    let (pp, code) = procj_sx::src_and_code(text)?;
    let real = run_real(text, b"", BUDGET);
    let ans = ask(&[
        format!("(procj.compare {} {} {})", pp.program, pp.tables, code),
        format!("(procj.run {} {})", BUDGET, pp.program),
        format!("(procj.ref {} {})", FUEL, pp.program),
        format!("(procj.wf {})", pp.program),
    ]);
    Some((real, ans[0].clone(), ans[1].clone(), ans[2].clone(), ans[3].clone()))
}

fn fails(text: &str, which: &str, what: &str) -> bool {
    if procj_sx::src_and_code(text).is_none() || run_real(text, b"", BUDGET).outcome == "budget" {
        return false;
    }
    let Some((real, cmp, vm, rf, _)) = verdicts(text) else { return false };
    if real.outcome == "budget" {
        return false;
    }
    match which {
        "compile" => !cmp.starts_with("(same") && !cmp.starts_with("(not-core"),
        "vm" => parse_ref_answer(&vm).map(|m| m.0 != "outOfFuel" && m.0 != "stuck" && disagree(&real, &m) == Some(if what == "outcome" { "outcome" } else { "output" })).unwrap_or(false),
        _ => parse_ref_answer(&rf)
            .map(|m| m.0 != "outOfFuel" && m.0 != "inexact" && disagree(&real, &m) == Some(if what == "outcome" { "outcome" } else { "output" }))
            .unwrap_or(false),
    }
}

fn shrink(text: &str, which: &str, what: &str) -> String {
    let deadline = std::time::Instant::now() + std::time::Duration::from_secs(15);
    let mut lines: Vec<String> = text.lines().map(|l| l.to_owned()).collect();
    let mut changed = true;
    let mut rounds = 0;
    while changed && rounds < 6 && std::time::Instant::now() < deadline {
        changed = false;
        rounds += 1;
        let mut i = 0;
        while i < lines.len() && std::time::Instant::now() < deadline {
            let mut cand = lines.clone();
            cand.remove(i);
            let t = cand.join("\n") + "\n";
            if fails(&t, which, what) {
                lines = cand;
                changed = true;
                continue;
            }
            i += 1;
        }
    }
    lines.join("\n") + "\n"
}

/// `ask` on 8 driver processes, order kept
fn par_ask(reqs: Vec<String>) -> Vec<String> {
    let n_threads = 8;
    let chunk = ((reqs.len() + n_threads - 1) / n_threads).max(1);
    let mut handles = vec![];
    for part in reqs.chunks(chunk) {
        let part: Vec<String> = part.to_vec();
        handles.push(std::thread::spawn(move || ask(&part)));
    }
    handles.into_iter().flat_map(|h| h.join().unwrap()).collect()
}

/// front end + serialiser + real generator on every text, 8 threads, order kept
fn par_serialise(texts: Vec<String>) -> Vec<(String, Option<(procj_sx::ProcProgram, String)>)> {
    let n_threads = 8;
    let chunk = ((texts.len() + n_threads - 1) / n_threads).max(1);
    let mut handles = vec![];
    for part in texts.chunks(chunk) {
        let part: Vec<String> = part.to_vec();
        handles.push(std::thread::spawn(move || {
            part.into_iter()
                .map(|t| {
                    let r = procj_sx::src_and_code(&t);
                    (t, r)
                })
                .collect::<Vec<_>>()
        }));
    }
    handles.into_iter().flat_map(|h| h.join().unwrap()).collect()
}

fn main() {
    if let Some(path) = std::env::args().nth(1) {
        if path == "--gen" {
            let mut rng = Rng::from_env();
            let n: usize = std::env::args().nth(2).and_then(|x| x.parse().ok()).unwrap_or(3);
            for k in 0..n {
                let (text, feats) = gen_dedicated(&mut rng, k % 5 == 0);
                println!("' ---- {} : {}\n{}", k, feats.join("+"), text);
            }
            return;
        }
        let text = std::fs::read_to_string(path).unwrap();
        if std::env::var("VERIF_C03J_SHOW").is_ok() {
            if let Some((pp, code)) = procj_sx::src_and_code(&text) {
                println!("program {}\ntables  {}\ncode    {}", pp.program, pp.tables, code);
            }
        }
        match verdicts(&text) {
            None => {
                let t = text.clone();
                let why = std::panic::catch_unwind(move || match rusty_parser::parse_main_str(t) {
                    Err(e) => format!("parser: {:?}", e),
                    Ok(p) => match rusty_linter::core::lint(p) {
                        Err(e) => format!("linter: {:?}", e),
                        Ok(_) => "accepted by the front end, outside the modelled language".to_owned(),
                    },
                })
                .unwrap_or_else(|_| "front end panicked".to_owned());
                println!("not compared: {}", why);
            }
            Some((real, cmp, vm, rf, wf)) => {
                println!("real    {} / {:?}", real.outcome, String::from_utf8_lossy(&real.out));
                println!("compare {}", cmp);
                println!("vm      {:?}", parse_ref_answer(&vm).map(|m| (m.0, String::from_utf8_lossy(&m.1).to_string())));
                println!("ref     {:?}", parse_ref_answer(&rf).map(|m| (m.0, String::from_utf8_lossy(&m.1).to_string())));
                println!("wf      {}", wf);
            }
        }
        return;
    }
    std::panic::set_hook(Box::new(|_| {}));
    let mut rng = Rng::from_env();
    let mut rep = Report::new(
        "C03",
        "layer 'procedures ∪ jumps' (SUB / FUNCTION with scalar parameters + labels, GOTO, GOSUB, RETURN in the main module and inside \
         procedure bodies): (a) the programs of the repository's own tests that fall into the layer and use a label or a procedure; \
         (b) a dedicated generator — GOSUB routines nested 1-3 inside SUBs and FUNCTIONs called at FOR depth 0-2, RETURN from inside the \
         routine's own FOR / SELECT / WHILE / IF, EXIT SUB / EXIT FUNCTION inside a routine at FOR depth 0-2 or inside a SELECT (own GOSUB \
         pending, chains of 1-3 routines), END SUB reached inside a routine, GOTO out of 1-3 nested FOR / WHILE / DO / SELECT inside \
         procedures (label possibly inside an enclosing FOR body), RETURN in a procedure while only the caller (main module or another \
         procedure) has a GOSUB pending (error 3, also after a GOSUB of its own was answered), the caller's GOSUB routine calling a \
         procedure that itself GOSUBs at FOR depth 0-2 on both sides with the caller RETURNing from inside its own FOR afterwards \
         (loop counters printed every round), function calls with a pending operand (V% = 100 + F%(1) - 100, PRINT lists, SELECT \
         selector and CASE items, nested in argument lists) whose body GOSUBs inside a SELECT block / GOTOs out of a SELECT or FOR+SELECT / \
         leaves from a routine reached from a SELECT block, recursion with the recursive call made from a GOSUB routine, STATIC \
         procedures with GOSUB, scenarios nested inside procedures (depth 2); label references re-cased; every program bounded. Each \
         program: model-compiled instruction list = real list, VM model on it = real outcome and stdout, reference semantics = real \
         outcome (error code + position) and stdout, premise checker evaluated. class = (feature set, outcome kind).",
    );
    let thorough = rep.is_thorough();
    let n_ded = if thorough { 8_000 } else { 420 };
    let mut cases: Vec<Case> = vec![];
    // (a) corpus programs inside the layer that use a label or a procedure (cheap textual pre-filter, then the front end)
    let mut n_corpus = 0u64;
    let texts: Vec<String> = corpus::candidate_texts()
        .into_iter()
        .filter(|t| {
            let u = t.to_ascii_uppercase();
            !corpus::needs_real_devices(t) && (u.contains("GOSUB") || u.contains("GOTO") || u.contains("SUB ") || u.contains("FUNCTION "))
        })
        .collect();
    rep.bump_by("corpus.candidates-with-jump-or-procedure-keywords", texts.len() as u64);
    for (t, r) in par_serialise(texts) {
        match r {
            Some((pp, code)) => {
                if pp.n_labels == 0 && pp.n_procs == 0 {
                    rep.bump("corpus.inside-layer.core-only-skipped");
                    continue;
                }
                n_corpus += 1;
                let feats = match (pp.n_labels > 0, pp.n_procs > 0) {
                    (true, true) => "corpus-labels+procs",
                    (true, false) => "corpus-labels",
                    _ => "corpus-procs",
                };
                rep.bump(&format!("corpus.{}", feats));
                cases.push(Case { text: t, prog: pp.program, tables: pp.tables, code, feats: feats.into() });
            }
            None => rep.bump("corpus.rejected-or-outside-layer"),
        }
    }
    rep.bump_by("corpus.inside-layer", n_corpus);
    // (b) the dedicated generator
    let mut outside = 0u64;
    let mut shown_outside = 0;
    let gens: Vec<(String, Vec<&'static str>)> = (0..n_ded).map(|k| gen_dedicated(&mut rng, k % 5 == 0)).collect();
    let sers = par_serialise(gens.iter().map(|g| g.0.clone()).collect());
    for (k, ((text, r), (_, feats))) in sers.into_iter().zip(gens.into_iter()).enumerate() {
        match r {
            Some((pp, code)) => {
                for f in &feats {
                    rep.bump(&format!("feature.{}", f));
                }
                cases.push(Case { text, prog: pp.program, tables: pp.tables, code, feats: feats.join("+") })
            }
            None => {
                outside += 1;
                if let Ok(dir) = std::env::var("VERIF_C03J_DUMP") {
                    let _ = std::fs::write(format!("{}/rej{}.bas", dir, k), &text);
                }
                if shown_outside < 2 {
                    shown_outside += 1;
                    rep.sample(J::s(format!("rejected by the front end or outside the modelled language:\n{}", text)));
                }
            }
        }
    }
    rep.bump_by("generated.dedicated", n_ded as u64);
    rep.bump_by("generated.dedicated.rejected-or-outside", outside);
    if outside * 10 > n_ded as u64 {
        rep.fail(Failure {
            kind: Kind::ModelVsImpl,
            signature: "procj-generator:mostly-outside".into(),
            input: format!("{} of {}", outside, n_ded),
            implementation: String::new(),
            expected: "at most 10% of the generated programs outside the layer".into(),
            note: "the dedicated generator no longer produces programs of the layer".into(),
        });
    }
    // real runs, in parallel
    let reals: Vec<Observed> = {
        let texts: Vec<String> = cases.iter().map(|c| c.text.clone()).collect();
        let n_threads = 8;
        let chunk = (texts.len() + n_threads - 1) / n_threads.max(1);
        let mut handles = vec![];
        for part in texts.chunks(chunk.max(1)) {
            let part: Vec<String> = part.to_vec();
            handles.push(std::thread::spawn(move || part.iter().map(|t| run_real(t, b"", BUDGET)).collect::<Vec<_>>()));
        }
        handles.into_iter().flat_map(|h| h.join().unwrap()).collect()
    };
    let canswers = par_ask(cases.iter().map(|c| format!("(procj.compare {} {} {})", c.prog, c.tables, c.code)).collect::<Vec<_>>());
    let vanswers = par_ask(cases.iter().map(|c| format!("(procj.run {} {})", BUDGET, c.prog)).collect::<Vec<_>>());
    let ranswers = par_ask(cases.iter().map(|c| format!("(procj.ref {} {})", FUEL, c.prog)).collect::<Vec<_>>());
    let wanswers = par_ask(cases.iter().map(|c| format!("(procj.wf {})", c.prog)).collect::<Vec<_>>());
    let mut outside_shown = 0;
    for (k, a) in wanswers.iter().enumerate() {
        if a.starts_with("(wf true") {
            rep.bump("theorem-premise.progWfB-true");
        } else if a.starts_with("(wf false") {
            rep.bump("theorem-premise.progWfB-false");
            if outside_shown < 2 {
                outside_shown += 1;
                rep.sample(J::s(format!("outside the premise of ProcJ.compile_correct:\n{}", cases[k].text)));
            }
        } else {
            rep.bump("theorem-premise.unreadable");
        }
    }
    let mut shrunk = 0;
    for (k, c) in cases.iter().enumerate() {
        let real = &reals[k];
        let okind = real.outcome.split(' ').take(2).collect::<Vec<_>>().join(" ");
        rep.case(Some(format!("{}|{}", c.feats, okind)));
        rep.bump(&format!("outcome.{}", okind));
        if k < 1 || k == cases.len() - 1 || k == cases.len() / 2 {
            rep.sample(J::s(c.text.clone()));
        }
        // 1. the generator model
        let a = &canswers[k];
        if a.starts_with("(same") {
            rep.bump("compile-model.same");
            let n: u64 = a.trim_matches(|ch| ch == '(' || ch == ')').split(' ').nth(1).and_then(|x| x.parse().ok()).unwrap_or(0);
            rep.bump_by("compile-model.instructions-compared", n);
        } else if a.starts_with("(not-core") {
            rep.bump("compile-model.instruction-outside-model");
        } else {
            let parts: Vec<&str> = a.trim_matches(|ch| ch == '(' || ch == ')').split(' ').collect();
            let kind: String = parts
                .get(2)
                .map(|x| x.split('@').next().unwrap_or("").chars().take_while(|ch| !ch.is_ascii_digit() && *ch != ':').collect())
                .unwrap_or_default();
            let text = if shrunk < 3 {
                shrunk += 1;
                shrink(&c.text, "compile", "")
            } else {
                c.text.clone()
            };
            rep.fail(Failure {
                kind: Kind::ModelVsImpl,
                signature: format!("procj-compile:{}:{}", parts.first().unwrap_or(&"?"), kind),
                input: text,
                implementation: a.clone(),
                expected: "RbModel.ProcJ.Compile.compile = normalise(real instruction list)".into(),
                note: "(differ <index> <model instr> <real instr> <model len> <real len>) | (ill-formed)".into(),
            });
        }
        if real.outcome == "budget" {
            rep.bump("discarded.real-budget");
            continue;
        }
        // 2. the VM model
        match parse_ref_answer(&vanswers[k]) {
            None => rep.bump("vm-model.unreadable"),
            Some(vm) => {
                if vm.0 == "outOfFuel" {
                    rep.bump("vm-model.discarded-fuel");
                } else if vm.0 == "stuck" && parse_ref_answer(&ranswers[k]).map(|r| r.0 == "inexact").unwrap_or(false) {
                    rep.bump("vm-model.inexact-float");
                } else if vm.0 == "stuck" && !real.outcome.starts_with("panic") {
                    // the model VM is stuck exactly where the real VM would panic; a real run that ends otherwise disagrees
                    rep.fail(Failure {
                        kind: Kind::ModelVsImpl,
                        signature: "procj-vm:stuck".into(),
                        input: c.text.clone(),
                        implementation: format!("{} / {:?}", real.outcome, String::from_utf8_lossy(&real.out)),
                        expected: "stuck".into(),
                        note: "RbModel.ProcJ.Vm.run is stuck (or met an inexact float) where the real VM is not".into(),
                    });
                } else if vm.0 == "stuck" {
                    rep.bump("vm-model.stuck-and-real-panic");
                } else if let Some(what) = disagree(real, &vm) {
                    let text = if shrunk < 3 {
                        shrunk += 1;
                        shrink(&c.text, "vm", what)
                    } else {
                        c.text.clone()
                    };
                    rep.fail(Failure {
                        kind: Kind::ModelVsImpl,
                        signature: format!("procj-vm:{}", what),
                        input: text,
                        implementation: format!("{} / {:?}", real.outcome, String::from_utf8_lossy(&real.out)),
                        expected: format!("{} / {:?}", vm.0, String::from_utf8_lossy(&vm.1)),
                        note: "real pipeline vs RbModel.ProcJ.Vm.run (RbModel.ProcJ.Compile.compile p) (before shrinking)".into(),
                    });
                } else {
                    rep.bump("vm-model.same");
                }
            }
        }
        // 3. the reference semantics
        match parse_ref_answer(&ranswers[k]) {
            None => {
                rep.fail(Failure {
                    kind: Kind::ModelVsImpl,
                    signature: "procj-ref:unreadable".into(),
                    input: c.text.clone(),
                    implementation: c.prog.chars().take(300).collect(),
                    expected: ranswers[k].clone(),
                    note: "the Lean reader rejected the serialised program".into(),
                });
            }
            Some(rf) => {
                if rf.0 == "inexact" {
                    rep.bump("ref.discarded-inexact-float");
                } else if rf.0 == "outOfFuel" {
                    rep.bump("ref.discarded-fuel");
                } else if let Some(what) = disagree(real, &rf) {
                    let text = if shrunk < 3 {
                        shrunk += 1;
                        shrink(&c.text, "ref", what)
                    } else {
                        c.text.clone()
                    };
                    rep.fail(Failure {
                        kind: Kind::ImplVsProperty,
                        signature: format!("procj-ref:{}", what),
                        input: text,
                        implementation: format!("{} / {:?}", real.outcome, String::from_utf8_lossy(&real.out)),
                        expected: format!("{} / {:?}", rf.0, String::from_utf8_lossy(&rf.1)),
                        note: "implementation vs reference semantics RbModel.ProcJ.Ref (before shrinking)".into(),
                    });
                } else {
                    rep.bump("ref.same");
                }
            }
        }
    }
    rep.finish();
}
