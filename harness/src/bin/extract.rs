//! Extractor: evaluates finite-domain functions of the real code on their whole domain and
//! writes them as Lean tables under lean/Gen (the Lean definition *is* the function's graph).
//!
//! usage: extract <lean/Gen dir> <table name>... | all
//! Each table is a function `fn(&mut String)` registered in `TABLES`; files are rewritten only
//! when their content changes (keeps `lake build` incremental).

use std::path::Path;

type TableFn = fn() -> String;

/// (name, Lean module file name, generator)
const TABLES: &[(&str, &str, TableFn)] = &[];

fn write_if_changed(path: &Path, text: &str) {
    if let Ok(old) = std::fs::read_to_string(path) {
        if old == text {
            return;
        }
    }
    std::fs::write(path, text).expect("cannot write table");
}

fn main() {
    let args: Vec<String> = std::env::args().collect();
    if args.len() < 3 {
        eprintln!("usage: extract <dir> <table>...|all");
        std::process::exit(2);
    }
    let dir = Path::new(&args[1]);
    let want: Vec<&str> = args[2..].iter().map(|s| s.as_str()).collect();
    let mut done = 0;
    for (name, file, f) in TABLES {
        if want.contains(&"all") || want.contains(name) {
            let text = match std::panic::catch_unwind(f) {
                Ok(t) => t,
                Err(_) => {
                    eprintln!("extractor {} panicked", name);
                    std::process::exit(1);
                }
            };
            write_if_changed(&dir.join(file), &text);
            done += 1;
        }
    }
    for w in &want {
        if *w != "all" && !TABLES.iter().any(|(n, _, _)| n == w) {
            eprintln!("unknown table {}", w);
            std::process::exit(1);
        }
    }
    println!("extracted {} table(s)", done);
}
