//! C04 (phase A of the layer AoR: ARRAYS OF RECORDS / OF FIXED-LENGTH STRINGS) — programs on the real pipeline vs the
//! three Lean models of `lean/RbModel/AoR/`:
//!   * `aor.compare`: `RbModel.AoR.Compile.compile p` = the real instruction list, instruction for instruction
//!     (positions, label names, resolved addresses, field names, type numbers, element types);
//!   * `aor.run`: `RbModel.AoR.Vm.run` on the model-compiled code = real outcome and stdout;
//!   * `aor.ref`: the big-step reference semantics `RbModel.AoR.Ref.run` (arrays = finite maps from index tuples to
//!     record values, records = finite maps from field names to values, `STRING * n` = exactly n characters) = real
//!     outcome (error code + position) and stdout;
//!   * `aor.wf`: the premise checker `RbModel.AoR.progWfB`, counted per program.
//! Inputs: the corpus programs of /repo inside the fragment and a dedicated generator.
//! Usage for debugging: `c04a <file.bas>` prints the answers for one program.

use rb_harness::aor_sx;
use rb_harness::driver::ask;
use rb_harness::json::J;
use rb_harness::refrun::{parse_ref_answer, run_real, Observed};
use rb_harness::report::{Failure, Kind, Report};
use rb_harness::rng::Rng;

const FUEL: u64 = 4000;
const BUDGET: u64 = 400_000;

// ------------------------------------------------------------------------------------------------
// dedicated generator

#[derive(Clone, PartialEq, Debug)]
enum FT {
    Int,
    Long,
    Sgl,
    Dbl,
    Fix(u32),
    Rec(usize),
}

#[derive(Clone)]
struct TypeDef {
    name: String,
    fields: Vec<(String, FT)>,
    depth: u32,
}

#[derive(Clone)]
struct ArrDef {
    name: String,
    elem: FT,
    /// the bounds as the generator knows them (they may be written as run-time expressions)
    bounds: Vec<(i64, i64)>,
    /// declared by REDIM (may be re-dimensioned)
    redim: bool,
}

/// a location: a record variable / an array element, then a field path
#[derive(Clone)]
struct Loc {
    /// `Some((array, subscripts))` or a variable name
    elem: Option<(usize, Vec<i64>)>,
    var: String,
    path: Vec<String>,
    ty: FT,
}

struct G<'a> {
    rng: &'a mut Rng,
    types: Vec<TypeDef>,
    vars: Vec<(String, usize)>,
    arrs: Vec<ArrDef>,
    fixed: Vec<(String, u32)>,
    faults: bool,
    feats: Vec<&'static str>,
    loops: u32,
}

// fixed scalars, initialised at the top of every program and never assigned again:
//   I% = 2, K% = -1, L& = 3, M& = 40000, S! = 1.5, D# = 2.5, Z% = 0, U$ = "uvwxyz"
// free scalars (assigned by the program): X%, P&, Q!, W#, T$, and the FOR counters F0%..F2%, G%

const FIELD_NAMES: [&str; 10] = ["a", "b", "n", "cnt", "s", "nm", "x", "tag", "val", "Last"];

impl<'a> G<'a> {
    fn feat(&mut self, f: &'static str) {
        if !self.feats.contains(&f) {
            self.feats.push(f);
        }
    }

    fn num_ft(&mut self) -> FT {
        self.rng.pick(&[FT::Int, FT::Int, FT::Long, FT::Sgl, FT::Dbl]).clone()
    }

    fn recase(&mut self, n: &str) -> String {
        match self.rng.below(8) {
            0 => n.to_ascii_uppercase(),
            1 => n.to_ascii_lowercase(),
            _ => n.to_owned(),
        }
    }

    fn is_num(t: &FT) -> bool {
        matches!(t, FT::Int | FT::Long | FT::Sgl | FT::Dbl)
    }

    /// every path below a value of type `t`
    fn paths(&self, t: &FT, prefix: &[String], out: &mut Vec<(Vec<String>, FT)>) {
        out.push((prefix.to_vec(), t.clone()));
        if let FT::Rec(k) = t {
            for (f, ft) in &self.types[*k].fields {
                let mut p = prefix.to_vec();
                p.push(f.clone());
                self.paths(ft, &p, out);
            }
        }
    }

    /// every index tuple of the box
    fn tuples(bounds: &[(i64, i64)]) -> Vec<Vec<i64>> {
        let mut out: Vec<Vec<i64>> = vec![vec![]];
        for (lo, hi) in bounds {
            let mut next = vec![];
            for t in &out {
                for i in *lo..=*hi {
                    let mut u = t.clone();
                    u.push(i);
                    next.push(u);
                }
            }
            out = next;
        }
        out
    }

    fn all_locs(&self) -> Vec<Loc> {
        let mut out = vec![];
        for (v, ty) in &self.vars {
            let mut ps = vec![];
            self.paths(&FT::Rec(*ty), &[], &mut ps);
            for (p, t) in ps {
                out.push(Loc { elem: None, var: v.clone(), path: p, ty: t });
            }
        }
        for (k, a) in self.arrs.iter().enumerate() {
            for tup in Self::tuples(&a.bounds) {
                let mut ps = vec![];
                self.paths(&a.elem, &[], &mut ps);
                for (p, t) in ps {
                    out.push(Loc { elem: Some((k, tup.clone())), var: a.name.clone(), path: p, ty: t });
                }
            }
        }
        for (n, l) in &self.fixed {
            out.push(Loc { elem: None, var: n.clone(), path: vec![], ty: FT::Fix(*l) });
        }
        out
    }

    /// one subscript with the value `v`, spelled in one of several ways (the same element through two spellings)
    fn subscript(&mut self, v: i64) -> String {
        match self.rng.below(12) {
            0..=4 => format!("{}", v),
            5 => {
                self.feat("subscript:expression");
                format!("I% + {}", v - 2).replace("+ -", "- ")
            }
            6 => {
                self.feat("subscript:expression");
                format!("{} - K%", v - 1)
            }
            7 => {
                self.feat("subscript:long");
                format!("L& + {}", v - 3).replace("+ -", "- ")
            }
            8 => {
                self.feat("subscript:float-rounds");
                // rounds to v (half away from zero is avoided: .25)
                format!("{}", v as f64 + 0.25)
            }
            9 => {
                self.feat("subscript:double");
                format!("D# + {}", v as f64 - 2.5).replace("+ -", "- ")
            }
            10 => format!("({})", v),
            _ => {
                self.feat("subscript:from-scalar");
                if v == 2 {
                    "I%".to_owned()
                } else if v == -1 {
                    "K%".to_owned()
                } else if v == 0 {
                    "Z%".to_owned()
                } else {
                    format!("{}", v)
                }
            }
        }
    }

    fn spell(&mut self, l: &Loc) -> String {
        let mut s = l.var.clone();
        if let Some((_, tup)) = &l.elem {
            let subs: Vec<String> = tup.iter().map(|v| self.subscript(*v)).collect();
            s = format!("{}({})", s, subs.join(", "));
        }
        for f in &l.path {
            let r = self.recase(f);
            s.push('.');
            s.push_str(&r);
        }
        s
    }

    fn pick_loc(&mut self, want: &dyn Fn(&FT) -> bool) -> Option<(String, FT, bool)> {
        let all = self.all_locs();
        // prefer array elements (this layer is about them)
        let elems: Vec<&Loc> = all.iter().filter(|l| want(&l.ty) && l.elem.is_some()).collect();
        let others: Vec<&Loc> = all.iter().filter(|l| want(&l.ty) && l.elem.is_none()).collect();
        let pick: Loc = if !elems.is_empty() && (others.is_empty() || !self.rng.chance(1, 4)) {
            (*self.rng.pick(&elems)).clone()
        } else if !others.is_empty() {
            (*self.rng.pick(&others)).clone()
        } else {
            return None;
        };
        let s = self.spell(&pick);
        Some((s, pick.ty.clone(), pick.elem.is_some()))
    }

    fn lit(&mut self, t: &FT) -> String {
        match t {
            FT::Int => format!("{}", self.rng.range(-3, 12)),
            FT::Long => format!("{}", *self.rng.pick(&[0i64, 1, 7, 40000, 70000, -50000, 100000])),
            FT::Sgl => (*self.rng.pick(&["0.5", "1.5", "2.25", "4.5", "-0.75"])).to_owned(),
            FT::Dbl => (*self.rng.pick(&["0.5#", "1.25#", "2.5#", "-3.5#", "100000.5#"])).to_owned(),
            _ => self.str_lit(),
        }
    }

    fn str_lit(&mut self) -> String {
        let k = self.rng.below(10);
        let s: String = match k {
            0 => {
                self.feat("string:empty");
                String::new()
            }
            1 | 2 => "x".to_owned(),
            3 | 4 => (*self.rng.pick(&["ab", "Q r", "hello", "  lead"])).to_owned(),
            5 | 6 => {
                self.feat("string:long");
                let n = self.rng.range(5, 60) as usize;
                "abcdefghi jklmnopqr-stuvwxyz,0123456789 ABCDEFGHI;JKLMNOPQR.STUVWXYZ".chars().cycle().take(n).collect()
            }
            7 => {
                self.feat("string:non-ascii");
                (*self.rng.pick(&["\u{e9}", "a\u{e9}\u{f1}\u{fc}z", "\u{20ac}uro", "\u{e9}\u{e9}\u{e9}\u{e9}\u{e9}\u{e9}\u{e9}\u{e9}\u{e9}\u{e9}\u{e9}\u{e9}"])).to_owned()
            }
            8 => "trail  ".to_owned(),
            _ => "0123456789 0123456789 0123456789 012345678".to_owned(),
        };
        format!("\"{}\"", s)
    }

    fn scalar(&mut self, t: &FT) -> String {
        match t {
            FT::Int => (*self.rng.pick(&["I%", "K%", "X%", "Z%"])).to_owned(),
            FT::Long => (*self.rng.pick(&["L&", "P&"])).to_owned(),
            FT::Sgl => (*self.rng.pick(&["S!", "Q!"])).to_owned(),
            FT::Dbl => (*self.rng.pick(&["D#", "W#"])).to_owned(),
            _ => (*self.rng.pick(&["T$", "U$"])).to_owned(),
        }
    }

    fn str_expr(&mut self) -> String {
        match self.rng.below(10) {
            0..=3 => self.str_lit(),
            4 => self.scalar(&FT::Fix(0)),
            5 => {
                let l = self.str_lit();
                match self.pick_loc(&|t| matches!(t, FT::Fix(_))) {
                    Some((p, _, _)) => format!("{} + {}", p, l),
                    None => format!("T$ + {}", l),
                }
            }
            _ => match self.pick_loc(&|t| matches!(t, FT::Fix(_))) {
                Some((p, _, e)) => {
                    if e {
                        self.feat("read:fixed-string-of-element");
                    }
                    p
                }
                None => self.str_lit(),
            },
        }
    }

    fn expr(&mut self, t: &FT, depth: u32) -> String {
        let k = self.rng.below(100);
        if depth == 0 || k < 30 {
            return match self.rng.below(10) {
                0..=2 => self.lit(t),
                3..=4 => self.scalar(t),
                _ => {
                    let tt = t.clone();
                    match self.pick_loc(&|x| *x == tt) {
                        Some((p, _, e)) => {
                            if e {
                                self.feat("read:element-field");
                            }
                            p
                        }
                        None => self.lit(t),
                    }
                }
            };
        }
        match k {
            30..=54 => match self.pick_loc(&|x| Self::is_num(x)) {
                Some((p, _, e)) => {
                    if e {
                        self.feat("read:element-field");
                    }
                    p
                }
                None => self.lit(t),
            },
            55..=84 => {
                let o = *self.rng.pick(&["+", "-", "*", "+", "-"]);
                let l = self.expr(t, depth - 1);
                let t2 = if self.rng.chance(1, 3) { self.num_ft() } else { t.clone() };
                let r = self.expr(&t2, depth - 1);
                format!("{} {} {}", l, o, r)
            }
            85..=89 => {
                let e = self.expr(t, depth - 1);
                format!("({})", e)
            }
            90..=93 => {
                let e = self.expr(t, depth - 1);
                format!("-{}", e)
            }
            _ => {
                if self.faults && self.rng.chance(1, 3) {
                    self.feat("fault:division");
                    let e = self.expr(t, depth - 1);
                    format!("{} / Z%", e)
                } else if !self.arrs.is_empty() && self.rng.chance(1, 2) {
                    // LBOUND / UBOUND inside an expression
                    self.bound_expr()
                } else {
                    let t2 = self.num_ft();
                    self.scalar(&t2)
                }
            }
        }
    }

    fn bound_expr(&mut self) -> String {
        let k = self.rng.below(self.arrs.len() as u64) as usize;
        let a = self.arrs[k].clone();
        let f = *self.rng.pick(&["LBOUND", "UBOUND"]);
        if self.rng.chance(1, 2) {
            self.feat("bound:default-dimension");
            format!("{}({})", f, a.name)
        } else {
            let d = self.rng.range(1, a.bounds.len() as i64);
            self.feat("bound:with-dimension");
            match self.rng.below(4) {
                0 => format!("{}({}, {}.25)", f, a.name, d),
                1 => format!("{}({}, ({}))", f, a.name, d),
                _ => format!("{}({}, {})", f, a.name, d),
            }
        }
    }

    fn cond(&mut self) -> String {
        if self.rng.chance(1, 4) {
            if let Some((p, _, _)) = self.pick_loc(&|t| matches!(t, FT::Fix(_))) {
                let r = self.str_expr();
                let o = *self.rng.pick(&["=", "<>", "<", ">="]);
                return format!("{} {} {}", p, o, r);
            }
        }
        let t = self.num_ft();
        let l = self.expr(&t, 1);
        let r = self.expr(&t, 1);
        let o = *self.rng.pick(&["<", "<=", "=", ">=", ">", "<>"]);
        format!("{} {} {}", l, o, r)
    }

    fn print_items(&mut self) -> String {
        let n = self.rng.range(1, 3);
        let mut s = String::new();
        for i in 0..n {
            if i > 0 {
                s.push_str(*self.rng.pick(&["; ", ", ", "; "]));
            }
            if self.rng.chance(1, 3) {
                let e = self.str_expr();
                s.push_str(&format!("\"[\"; {}; \"]\"", e));
            } else {
                let t = self.num_ft();
                let e = self.expr(&t, 1);
                s.push_str(&e);
            }
        }
        if self.rng.chance(1, 8) {
            s.push(';');
        }
        s
    }

    /// prints every leaf below `root` of type `t` (canonical spelling)
    fn dump_value(&self, root: &str, t: &FT, items: &mut Vec<String>) {
        let mut ps = vec![];
        self.paths(t, &[], &mut ps);
        for (p, ft) in ps {
            let mut s = root.to_owned();
            for f in &p {
                s.push('.');
                s.push_str(f);
            }
            match ft {
                FT::Rec(_) => {}
                FT::Fix(_) => items.push(format!("\"[\"; {}; \"]\"", s)),
                _ => items.push(s),
            }
        }
    }

    /// prints ALL elements' fields of every array, every record variable, every STRING * n variable: a store that
    /// touches any other location shows
    fn dump_all(&mut self, out: &mut Vec<String>, ind: &str) {
        self.feat("dump-everything");
        let mut items = vec![];
        for a in self.arrs.clone() {
            for tup in Self::tuples(&a.bounds) {
                let subs: Vec<String> = tup.iter().map(|v| format!("{}", v)).collect();
                self.dump_value(&format!("{}({})", a.name, subs.join(", ")), &a.elem, &mut items);
            }
        }
        for (v, ty) in self.vars.clone() {
            self.dump_value(&v, &FT::Rec(ty), &mut items);
        }
        for (n, _) in self.fixed.clone() {
            items.push(format!("\"[\"; {}; \"]\"", n));
        }
        for chunk in items.chunks(6) {
            out.push(format!("{}PRINT {}", ind, chunk.join("; ")));
        }
    }

    fn type_name(&self, t: &FT) -> String {
        match t {
            FT::Int => "INTEGER".to_owned(),
            FT::Long => "LONG".to_owned(),
            FT::Sgl => "SINGLE".to_owned(),
            FT::Dbl => "DOUBLE".to_owned(),
            FT::Fix(n) => format!("STRING * {}", n),
            FT::Rec(j) => self.types[*j].name.clone(),
        }
    }

    /// a bound with the value `v`, static or computed at run time
    fn bound(&mut self, v: i64) -> String {
        match self.rng.below(6) {
            0 => {
                self.feat("bounds:run-time");
                format!("I% + {}", v - 2).replace("+ -", "- ")
            }
            1 => {
                self.feat("bounds:run-time");
                format!("K% + {}", v + 1).replace("+ -", "- ")
            }
            2 => {
                self.feat("bounds:fractional");
                format!("{}", v as f64 + 0.25)
            }
            _ => format!("{}", v),
        }
    }

    fn dim_text(&mut self, a: &ArrDef) -> String {
        let mut ds = vec![];
        for (lo, hi) in a.bounds.clone() {
            if lo == 0 && self.rng.chance(1, 2) {
                let h = self.bound(hi);
                ds.push(h);
            } else {
                let l = self.bound(lo);
                let h = self.bound(hi);
                ds.push(format!("{} TO {}", l, h));
            }
        }
        format!("{} {}({}) AS {}", if a.redim { "REDIM" } else { "DIM" }, a.name, ds.join(", "), self.type_name(&a.elem))
    }

    fn gen_bounds(&mut self) -> Vec<(i64, i64)> {
        let nd = if self.rng.chance(1, 3) { 2 } else { 1 };
        let mut b = vec![];
        for _ in 0..nd {
            let lo = *self.rng.pick(&[0i64, 1, 1, -1, -2, 2]);
            let ext = if nd == 2 { self.rng.range(1, 2) } else { self.rng.range(1, 3) };
            b.push((lo, lo + ext - 1 + if nd == 1 { 1 } else { 0 }));
            if lo < 0 {
                self.feat("bounds:negative");
            }
        }
        self.feat(if nd == 2 { "dimensions:2" } else { "dimensions:1" });
        b
    }

    fn stmt(&mut self, depth: u32, out: &mut Vec<String>, ind: &str) {
        let k = self.rng.below(100);
        let inner = format!("{}  ", ind);
        match k {
            0..=15 => {
                // numeric store, the value of any numeric type (conversion to the location's type)
                if let Some((p, ft, e)) = self.pick_loc(&|t| Self::is_num(t)) {
                    let t = if self.rng.chance(1, 2) { ft.clone() } else { self.num_ft() };
                    if t != ft {
                        self.feat("store:converted");
                    }
                    let ex = if self.faults && ft == FT::Int && self.rng.chance(1, 10) {
                        self.feat("store:overflow");
                        (*self.rng.pick(&["M& + 1", "40000", "32767.5", "-32768.6#"])).to_owned()
                    } else if self.faults && ft == FT::Long && self.rng.chance(1, 10) {
                        self.feat("store:overflow");
                        (*self.rng.pick(&["3000000000.5#", "M& * 100000.5#"])).to_owned()
                    } else {
                        self.expr(&t, 2)
                    };
                    self.feat(if e { "store:numeric-element-field" } else { "store:numeric-field" });
                    out.push(format!("{}{} = {}", ind, p, ex));
                }
            }
            16..=31 => {
                // store into a STRING * n location
                if let Some((p, ft, e)) = self.pick_loc(&|t| matches!(t, FT::Fix(_))) {
                    let FT::Fix(n) = ft else { unreachable!() };
                    let ex = match self.rng.below(8) {
                        0 => {
                            self.feat("string:exact-length");
                            let s: String = "ZYXWVUTSRQ PONMLKJIH-GFEDCBAzyx,wvutsrqpon mlkjihgfedcba".chars().take(n as usize).collect();
                            format!("\"{}\"", s)
                        }
                        1 => {
                            self.feat("string:one-too-long");
                            let s: String = "ZYXWVUTSRQ PONMLKJIH-GFEDCBAzyx,wvutsrqpon mlkjihgfedcba".chars().take(n as usize + 1).collect();
                            format!("\"{}\"", s)
                        }
                        _ => self.str_expr(),
                    };
                    self.feat(if e { "store:fixed-element-or-field-of-element" } else { "store:fixed-field" });
                    out.push(format!("{}{} = {}", ind, p, ex));
                }
            }
            32..=35 => {
                if let Some((p, _, _)) = self.pick_loc(&|t| matches!(t, FT::Fix(_))) {
                    self.feat("store:string-from-fixed");
                    out.push(format!("{}T$ = {}", ind, p));
                    out.push(format!("{}PRINT \"[\"; T$; \"]\"", ind));
                }
            }
            36..=41 => {
                // location-to-location copy (numeric with conversion, strings of other lengths)
                let strs = self.rng.chance(1, 2);
                let a = self.pick_loc(&|t| if strs { matches!(t, FT::Fix(_)) } else { Self::is_num(t) });
                let b = self.pick_loc(&|t| if strs { matches!(t, FT::Fix(_)) } else { Self::is_num(t) });
                if let (Some((l, _, _)), Some((r, _, _))) = (a, b) {
                    self.feat("store:location-to-location");
                    out.push(format!("{}{} = {}", ind, l, r));
                }
            }
            42..=55 => {
                // whole-record / sub-record copy between locations of one record type:
                // A(i) = R, R = A(i), A(i) = A(j), A(i).f = R.f, A(i) = B(j)
                let recs: Vec<Loc> = self.all_locs().into_iter().filter(|l| matches!(l.ty, FT::Rec(_))).collect();
                if !recs.is_empty() {
                    let l = self.rng.pick(&recs).clone();
                    let same: Vec<Loc> = recs.iter().filter(|r| r.ty == l.ty).cloned().collect();
                    let r = self.rng.pick(&same).clone();
                    let f = match (&l.elem, &r.elem, l.path.is_empty() && r.path.is_empty()) {
                        (Some((a, _)), Some((b, _)), true) if a == b => "copy:element-to-element-same-array",
                        (Some(_), Some(_), true) => "copy:element-to-element-other-array",
                        (Some(_), None, true) => "copy:variable-to-element",
                        (None, Some(_), true) => "copy:element-to-variable",
                        (None, None, true) => "copy:variable-to-variable",
                        _ => "copy:sub-record",
                    };
                    self.feat(f);
                    let ls = self.spell(&l);
                    let rs = self.spell(&r);
                    out.push(format!("{}{} = {}", ind, ls, rs));
                }
            }
            56..=63 => {
                let items = self.print_items();
                out.push(format!("{}PRINT {}", ind, items));
            }
            64..=66 => {
                let t = self.num_ft();
                let v = match t {
                    FT::Int => "X%",
                    FT::Long => "P&",
                    FT::Sgl => "Q!",
                    _ => "W#",
                };
                let e = self.expr(&t, 2);
                out.push(format!("{}{} = {}", ind, v, e));
            }
            67..=69 => {
                self.dump_all(out, ind);
            }
            70..=73 => {
                let e = self.bound_expr();
                let e2 = self.bound_expr();
                out.push(format!("{}PRINT {}; {}", ind, e, e2));
            }
            74..=78 if depth > 0 && self.loops < 2 => {
                // FOR whose bounds come from element fields / array bounds
                let c = format!("F{}%", self.loops);
                let (lo, hi) = if self.rng.chance(1, 2) && !self.arrs.is_empty() {
                    let k = self.rng.below(self.arrs.len() as u64) as usize;
                    self.feat("loop:for-over-array-bounds");
                    (format!("LBOUND({})", self.arrs[k].name), format!("UBOUND({})", self.arrs[k].name))
                } else {
                    match self.pick_loc(&|t| matches!(t, FT::Int)) {
                        Some((p, _, e)) => {
                            if e {
                                self.feat("loop:for-bound-from-element-field");
                            }
                            out.push(format!("{}{} = {}", ind, p, self.rng.range(1, 3)));
                            ("1".to_owned(), p)
                        }
                        None => ("1".to_owned(), "2".to_owned()),
                    }
                };
                out.push(format!("{}FOR {} = {} TO {}", ind, c, lo, hi));
                self.loops += 1;
                let n = self.rng.range(1, 3);
                for _ in 0..n {
                    self.stmt(depth - 1, out, &inner);
                }
                self.loops -= 1;
                out.push(format!("{}NEXT", ind));
            }
            79..=84 if depth > 0 => {
                let c = self.cond();
                out.push(format!("{}IF {} THEN", ind, c));
                self.stmt(depth - 1, out, &inner);
                if self.rng.chance(1, 3) {
                    let c2 = self.cond();
                    out.push(format!("{}ELSEIF {} THEN", ind, c2));
                    self.stmt(depth - 1, out, &inner);
                }
                if self.rng.chance(1, 2) {
                    out.push(format!("{}ELSE", ind));
                    self.stmt(depth - 1, out, &inner);
                }
                out.push(format!("{}END IF", ind));
                self.feat("if-on-element-field");
            }
            85..=87 if depth > 0 => {
                let strs = self.rng.chance(1, 3);
                let e = match self.pick_loc(&|t| if strs { matches!(t, FT::Fix(_)) } else { Self::is_num(t) }) {
                    Some((p, _, _)) => p,
                    None => "X%".to_owned(),
                };
                let is_str = strs && e != "X%";
                out.push(format!("{}SELECT CASE {}", ind, e));
                let v = if is_str { self.str_lit() } else { self.lit(&FT::Int) };
                out.push(format!("{}CASE {}", ind, v));
                self.stmt(depth - 1, out, &inner);
                if self.rng.chance(1, 2) {
                    let e2 = if is_str { self.str_expr() } else { self.expr(&FT::Int, 1) };
                    out.push(format!("{}CASE IS > {}", ind, e2));
                    self.stmt(depth - 1, out, &inner);
                }
                out.push(format!("{}CASE ELSE", ind));
                self.stmt(depth - 1, out, &inner);
                out.push(format!("{}END SELECT", ind));
                self.feat("select-on-element-field");
            }
            88..=90 if depth > 0 => {
                // WHILE / DO with a counter kept in a numeric location
                if let Some((p, _, _)) = self.pick_loc(&|t| Self::is_num(t)) {
                    let lim = self.rng.range(1, 3);
                    out.push(format!("{}{} = 0", ind, p));
                    let form = self.rng.below(3);
                    match form {
                        0 => out.push(format!("{}WHILE {} < {}", ind, p, lim)),
                        1 => out.push(format!("{}DO UNTIL {} >= {}", ind, p, lim)),
                        _ => out.push(format!("{}DO", ind)),
                    }
                    self.stmt(0, out, &inner);
                    out.push(format!("{}  {} = {} + 1", ind, p, p));
                    match form {
                        0 => out.push(format!("{}WEND", ind)),
                        1 => out.push(format!("{}LOOP", ind)),
                        _ => out.push(format!("{}LOOP WHILE {} < {}", ind, p, lim)),
                    }
                    self.feat("loop:counter-in-element-field");
                }
            }
            91..=93 => {
                // REDIM of an array first declared by REDIM: new bounds, every element fresh again
                let c: Vec<usize> = (0..self.arrs.len()).filter(|k| self.arrs[*k].redim).collect();
                if ind.is_empty() && !c.is_empty() {
                    let k = *self.rng.pick(&c);
                    let nb = self.gen_bounds();
                    if nb.len() == self.arrs[k].bounds.len() {
                        self.arrs[k].bounds = nb;
                        let a = self.arrs[k].clone();
                        let t = self.dim_text(&a);
                        out.push(t);
                        self.feat("redim:again");
                        self.dump_all(out, ind);
                    }
                }
            }
            94..=95 => {
                // the DIM statement runs again: every element is fresh again
                if ind.is_empty() && !self.types.is_empty() {
                    let elem = if self.rng.chance(1, 4) { FT::Fix(self.rng.range(1, 6) as u32) } else { FT::Rec(self.rng.below(self.types.len() as u64) as usize) };
                    let a = ArrDef { name: format!("N{}", self.arrs.len()), elem: elem.clone(), bounds: vec![(1, 2)], redim: false };
                    let mut ps = vec![];
                    self.paths(&elem, &[], &mut ps);
                    let leaf = ps.iter().find(|(_, t)| !matches!(t, FT::Rec(_))).cloned();
                    if let Some((p, t)) = leaf {
                        let isf = matches!(t, FT::Fix(_));
                        let mut loc = format!("{}(G%)", a.name);
                        for f in &p {
                            loc.push('.');
                            loc.push_str(f);
                        }
                        out.push("FOR G% = 1 TO 2".to_owned());
                        out.push(format!("  DIM {}(1 TO 2) AS {}", a.name, self.type_name(&elem)));
                        out.push(format!("  PRINT \"[\"; {}; \"]\"", loc));
                        out.push(format!("  {} = {}", loc, if isf { "\"again\"" } else { "G% + 4" }));
                        out.push(format!("  PRINT \"[\"; {}; \"]\"", loc));
                        out.push("NEXT".to_owned());
                        self.arrs.push(a);
                        self.feat("dim-runs-again");
                    }
                }
            }
            _ => {
                if self.faults && self.rng.chance(1, 2) && !self.arrs.is_empty() {
                    // a subscript outside the box / a wrong number of subscripts: Subscript out of range (9)
                    let k = self.rng.below(self.arrs.len() as u64) as usize;
                    let a = self.arrs[k].clone();
                    let mut tup: Vec<i64> = a.bounds.iter().map(|(lo, _)| *lo).collect();
                    let what = self.rng.below(5);
                    let d = self.rng.below(tup.len() as u64) as usize;
                    match what {
                        0 => {
                            tup[d] = a.bounds[d].0 - 1;
                            self.feat("fault:subscript-below");
                        }
                        1 | 2 => {
                            tup[d] = a.bounds[d].1 + 1;
                            self.feat("fault:subscript-above");
                        }
                        3 => {
                            tup.push(a.bounds[0].0);
                            self.feat("fault:too-many-subscripts");
                        }
                        _ => {
                            if tup.len() > 1 {
                                tup.pop();
                                self.feat("fault:too-few-subscripts");
                            } else {
                                tup[0] = 40000;
                                self.feat("fault:subscript-overflow");
                            }
                        }
                    }
                    let mut ps = vec![];
                    self.paths(&a.elem, &[], &mut ps);
                    let leaves: Vec<(Vec<String>, FT)> = ps.into_iter().filter(|(_, t)| !matches!(t, FT::Rec(_))).collect();
                    let (p, t) = self.rng.pick(&leaves).clone();
                    let l = Loc { elem: Some((k, tup)), var: a.name.clone(), path: p, ty: t.clone() };
                    let ls = self.spell(&l);
                    if self.rng.chance(1, 2) {
                        out.push(format!("{}PRINT {}", ind, ls));
                    } else {
                        let v = if matches!(t, FT::Fix(_)) { self.str_lit() } else { self.lit(&FT::Int) };
                        out.push(format!("{}{} = {}", ind, ls, v));
                    }
                } else if self.faults && ind.is_empty() && self.rng.chance(1, 6) && !self.feats.contains(&"fault:dim-not-executed") && !self.types.is_empty() {
                    self.feat("fault:dim-not-executed");
                    let tn = self.types[0].name.clone();
                    out.push("IF Z% THEN".to_owned());
                    out.push(format!("  DIM NX(1 TO 2) AS {}", tn));
                    out.push("END IF".to_owned());
                    out.push(format!("PRINT UBOUND(NX)"));
                } else {
                    let items = self.print_items();
                    out.push(format!("{}PRINT {}", ind, items));
                }
            }
        }
    }

    fn gen_types(&mut self, lines: &mut Vec<String>) {
        let n_types = self.rng.range(1, 3) as usize;
        for k in 0..n_types {
            let n_fields = self.rng.range(1, 4) as usize;
            let mut names: Vec<&str> = FIELD_NAMES.to_vec();
            let mut fields = vec![];
            let mut depth = 1;
            for _ in 0..n_fields {
                let i = self.rng.below(names.len() as u64) as usize;
                let fname = names.remove(i).to_owned();
                let ft = match self.rng.below(10) {
                    0 | 1 => FT::Int,
                    2 => FT::Long,
                    3 => FT::Sgl,
                    4 => FT::Dbl,
                    5 | 6 | 7 => FT::Fix(if self.rng.chance(1, 3) { self.rng.range(1, 3) as u32 } else { self.rng.range(1, 24) as u32 }),
                    _ => {
                        let c: Vec<usize> = (0..k).filter(|j| self.types[*j].depth < 2).collect();
                        if c.is_empty() {
                            FT::Int
                        } else {
                            let j = *self.rng.pick(&c);
                            depth = depth.max(self.types[j].depth + 1);
                            FT::Rec(j)
                        }
                    }
                };
                fields.push((fname, ft));
            }
            let td = TypeDef { name: format!("Ty{}", k), fields, depth };
            lines.push(format!("TYPE {}", td.name));
            for (f, ft) in &td.fields {
                lines.push(format!("  {} AS {}", f, self.type_name(ft)));
            }
            lines.push("END TYPE".to_owned());
            self.feat(match td.depth {
                1 => "nesting-depth-1",
                _ => "nesting-depth-2",
            });
            self.types.push(td);
        }
    }

    fn program(&mut self) -> String {
        let mut lines: Vec<String> = vec![];
        self.gen_types(&mut lines);
        lines.push("I% = 2: K% = -1: L& = 3: M& = 40000".to_owned());
        lines.push("S! = 1.5: D# = 2.5: Z% = 0: U$ = \"uvwxyz\"".to_owned());
        let last = self.types.len() - 1;
        // arrays: the first two of the last type (two arrays of the same TYPE), then others
        let n_arr = self.rng.range(1, 3) as usize;
        for k in 0..n_arr {
            let elem = if k < 2 {
                FT::Rec(last)
            } else {
                match self.rng.below(6) {
                    0 | 1 => {
                        self.feat("array-of:fixed-string");
                        FT::Fix(self.rng.range(1, 8) as u32)
                    }
                    2 => {
                        self.feat("array-of:scalar");
                        self.num_ft()
                    }
                    _ => FT::Rec(self.rng.below(self.types.len() as u64) as usize),
                }
            };
            if k == 1 {
                self.feat("two-arrays-of-one-type");
            }
            let bounds = self.gen_bounds();
            let a = ArrDef { name: format!("A{}", k), elem, bounds, redim: self.rng.chance(1, 4) };
            if a.redim {
                self.feat("declared-by-redim");
            }
            let t = self.dim_text(&a);
            lines.push(t);
            self.arrs.push(a);
        }
        if self.rng.chance(1, 3) {
            let a = ArrDef { name: "FA".to_owned(), elem: FT::Fix(self.rng.range(1, 8) as u32), bounds: self.gen_bounds(), redim: false };
            self.feat("array-of:fixed-string");
            let t = self.dim_text(&a);
            lines.push(t);
            self.arrs.push(a);
        }
        // record variables of the arrays' type (whole-record copies between an element and a variable)
        let n_vars = self.rng.range(1, 2) as usize;
        for k in 0..n_vars {
            let ty = if k < 1 { last } else { self.rng.below(self.types.len() as u64) as usize };
            lines.push(format!("DIM R{} AS {}", k, self.types[ty].name));
            self.vars.push((format!("R{}", k), ty));
        }
        if self.rng.chance(1, 3) {
            let n = self.rng.range(1, 12) as u32;
            lines.push(format!("DIM FS0 AS STRING * {}", n));
            self.fixed.push(("FS0".to_owned(), n));
        }
        let n = self.rng.range(5, 11);
        for _ in 0..n {
            self.stmt(2, &mut lines, "");
        }
        // observe everything at the end
        self.dump_all(&mut lines, "");
        lines.join("\n") + "\n"
    }
}

fn gen_dedicated(rng: &mut Rng, faults: bool) -> (String, Vec<&'static str>) {
    let mut g = G { rng, types: vec![], vars: vec![], arrs: vec![], fixed: vec![], faults, feats: vec![], loops: 0 };
    let text = g.program();
    (text, g.feats)
}

// ------------------------------------------------------------------------------------------------

struct Case {
    text: String,
    prog: String,
    tables: String,
    code: String,
    feats: String,
    corpus: bool,
}

fn disagree(real: &Observed, m: &(String, Vec<u8>, String)) -> Option<&'static str> {
    if real.outcome != m.0 {
        return Some("outcome");
    }
    if real.out != m.1 {
        return Some("output");
    }
    None
}

fn verdicts(text: &str) -> Option<(Observed, String, String, String, String)> {
    let (pp, code) = aor_sx::src_and_code(text)?;
    let real = run_real(text, b"", BUDGET);
    let ans = ask(&[
        format!("(aor.compare {} {} {})", pp.program, pp.tables, code),
        format!("(aor.run {} {})", BUDGET, pp.program),
        format!("(aor.ref {} {})", FUEL, pp.program),
        format!("(aor.wf {})", pp.program),
    ]);
    Some((real, ans[0].clone(), ans[1].clone(), ans[2].clone(), ans[3].clone()))
}

fn fails(text: &str, which: &str, what: &str) -> bool {
    let Some((real, cmp, vm, rf, _)) = verdicts(text) else { return false };
    if real.outcome == "budget" {
        return false;
    }
    match which {
        "compile" => !cmp.starts_with("(same") && !cmp.starts_with("(not-core"),
        "vm" => parse_ref_answer(&vm).map(|m| m.0 != "outOfFuel" && m.0 != "stuck" && disagree(&real, &m) == Some(if what == "outcome" { "outcome" } else { "output" })).unwrap_or(false),
        _ => parse_ref_answer(&rf)
            .map(|m| m.0 != "outOfFuel" && m.0 != "inexact" && m.0 != "illFormed" && m.0 != "tooBig" && disagree(&real, &m) == Some(if what == "outcome" { "outcome" } else { "output" }))
            .unwrap_or(false),
    }
}

fn shrink(text: &str, which: &str, what: &str) -> String {
    let deadline = std::time::Instant::now() + std::time::Duration::from_secs(15);
    let mut lines: Vec<String> = text.lines().map(|l| l.to_owned()).collect();
    let mut changed = true;
    let mut rounds = 0;
    while changed && rounds < 6 && std::time::Instant::now() < deadline {
        changed = false;
        rounds += 1;
        let mut i = 0;
        while i < lines.len() && std::time::Instant::now() < deadline {
            let mut cand = lines.clone();
            cand.remove(i);
            let t = cand.join("\n") + "\n";
            if fails(&t, which, what) {
                lines = cand;
                changed = true;
                continue;
            }
            i += 1;
        }
    }
    lines.join("\n") + "\n"
}

fn main() {
    if let Some(path) = std::env::args().nth(1) {
        if path == "--gen" {
            let mut rng = Rng::from_env();
            let n: usize = std::env::args().nth(2).and_then(|x| x.parse().ok()).unwrap_or(1);
            for k in 0..n {
                let (text, _) = gen_dedicated(&mut rng, k % 3 == 0);
                println!("' ---- {} {}\n{}", k, if aor_sx::src_and_code(&text).is_some() { "inside" } else { "OUTSIDE" }, text);
            }
            return;
        }
        let text = std::fs::read_to_string(path).unwrap();
        match verdicts(&text) {
            None => {
                let t = text.clone();
                let why = std::panic::catch_unwind(move || match rusty_parser::parse_main_str(t) {
                    Err(e) => format!("parser: {:?}", e),
                    Ok(p) => match rusty_linter::core::lint(p) {
                        Err(e) => format!("linter: {:?}", e),
                        Ok(_) => "accepted by the front end, outside the modelled language".to_owned(),
                    },
                })
                .unwrap_or_else(|_| "front end panicked".to_owned());
                println!("not compared: {}", why);
            }
            Some((real, cmp, vm, rf, wf)) => {
                println!("real    {} / {:?}", real.outcome, String::from_utf8_lossy(&real.out));
                println!("compare {}", cmp);
                println!("vm      {:?}", parse_ref_answer(&vm).map(|m| (m.0, String::from_utf8_lossy(&m.1).to_string())));
                println!("ref     {:?}", parse_ref_answer(&rf).map(|m| (m.0, String::from_utf8_lossy(&m.1).to_string())));
                println!("wf      {}", wf);
            }
        }
        return;
    }
    std::panic::set_hook(Box::new(|_| {}));
    let mut rng = Rng::from_env();
    let mut rep = Report::new(
        "C04",
        "programs with arrays of records / of STRING * n (core language, no procedures): (a) the programs embedded in /repo's own \
         tests that lie inside the fragment; (b) a dedicated generator — 1-3 TYPEs with 1-4 fields of every kind (INTEGER / LONG / \
         SINGLE / DOUBLE / STRING * n / an earlier record type, nesting depth up to 2), 1-4 arrays with 1-2 dimensions (two arrays of \
         one TYPE, arrays of STRING * n, arrays of scalars; negative, run-time and fractional bounds; declared by DIM or REDIM), record \
         variables of the arrays' type, a STRING * n variable; element-field stores from every value type (conversion, Overflow), \
         string stores that are empty / shorter / exact / over-long / non-ASCII / from STRING * m locations of another length, \
         location-to-location copies, whole-record copies element<-variable, variable<-element, element<-element (same and other \
         array), sub-record copies; subscripts spelled as literals, expressions of every numeric type, fractional values that round, \
         (fault programs) outside the box on either side, too many / too few subscripts, beyond INTEGER; element fields in PRINT / \
         IF / SELECT CASE / FOR bounds / WHILE counters; LBOUND / UBOUND with and without a dimension; REDIM with other bounds; a \
         DIM that runs again inside a loop; a DIM inside a branch not taken; a dump of EVERY leaf field of EVERY element of every \
         array, of every record variable and STRING * n variable at the end of every program and at random points (a store that \
         touches any other location shows; every fixed string shows its length between brackets); each program: model-compiled \
         instruction list = real list, VM model on it = real outcome and stdout, reference semantics = real outcome and stdout. \
         class = (feature set, outcome kind).",
    );
    let thorough = rep.is_thorough();
    let n_ded = if thorough { 6_000 } else { 400 };
    let mut cases: Vec<Case> = vec![];
    // (a) corpus
    let corpus = rb_harness::corpus::accepted_programs();
    let mut c_in = 0u64;
    let mut c_arr = 0u64;
    for text in corpus.iter() {
        if rb_harness::corpus::needs_real_devices(text) {
            continue;
        }
        if let Some((pp, code)) = aor_sx::src_and_code(text) {
            c_in += 1;
            if pp.n_arrays > 0 {
                c_arr += 1;
            }
            cases.push(Case { text: text.clone(), prog: pp.program, tables: pp.tables, code, feats: if pp.n_arrays > 0 { "corpus-with-array".into() } else { "corpus".into() }, corpus: true });
        }
    }
    rep.bump_by("corpus.accepted-programs", corpus.len() as u64);
    rep.bump_by("corpus.inside-fragment", c_in);
    rep.bump_by("corpus.inside-fragment.with-arrays", c_arr);
    // (b) dedicated generator
    let mut outside = 0u64;
    let mut shown_outside = 0;
    for k in 0..n_ded {
        let (text, feats) = gen_dedicated(&mut rng, k % 3 == 0);
        match aor_sx::src_and_code(&text) {
            Some((pp, code)) => cases.push(Case { text, prog: pp.program, tables: pp.tables, code, feats: feats.join("+"), corpus: false }),
            None => {
                outside += 1;
                if let Ok(dir) = std::env::var("VERIF_C04A_DUMP") {
                    let _ = std::fs::write(format!("{}/rej{}.bas", dir, k), &text);
                }
                if shown_outside < 2 {
                    shown_outside += 1;
                    rep.sample(J::s(format!("rejected by the front end or outside the modelled language:\n{}", text)));
                }
            }
        }
    }
    rep.bump_by("generated.dedicated", n_ded as u64);
    rep.bump_by("generated.dedicated.rejected-or-outside", outside);
    let reals: Vec<Observed> = {
        let texts: Vec<String> = cases.iter().map(|c| c.text.clone()).collect();
        let n_threads = 8;
        let chunk = (texts.len() + n_threads - 1) / n_threads.max(1);
        let mut handles = vec![];
        for part in texts.chunks(chunk.max(1)) {
            let part: Vec<String> = part.to_vec();
            handles.push(std::thread::spawn(move || part.iter().map(|t| run_real(t, b"", BUDGET)).collect::<Vec<_>>()));
        }
        handles.into_iter().flat_map(|h| h.join().unwrap()).collect()
    };
    let canswers = ask(&cases.iter().map(|c| format!("(aor.compare {} {} {})", c.prog, c.tables, c.code)).collect::<Vec<_>>());
    let vanswers = ask(&cases.iter().map(|c| format!("(aor.run {} {})", BUDGET, c.prog)).collect::<Vec<_>>());
    let ranswers = ask(&cases.iter().map(|c| format!("(aor.ref {} {})", FUEL, c.prog)).collect::<Vec<_>>());
    let wanswers = ask(&cases.iter().map(|c| format!("(aor.wf {})", c.prog)).collect::<Vec<_>>());
    let mut outside_shown = 0;
    for (k, a) in wanswers.iter().enumerate() {
        if a.starts_with("(wf true") {
            rep.bump("theorem-premise.progWfB-true");
        } else if a.starts_with("(wf false") {
            rep.bump("theorem-premise.progWfB-false");
            if outside_shown < 2 {
                outside_shown += 1;
                rep.sample(J::s(format!("outside the premise AoR.progWfB:\n{}", cases[k].text)));
            }
        } else {
            rep.bump("theorem-premise.unreadable");
        }
    }
    let mut shrunk = 0;
    for (k, c) in cases.iter().enumerate() {
        let real = &reals[k];
        let okind = real.outcome.split(' ').take(2).collect::<Vec<_>>().join(" ");
        rep.case(Some(format!("{}|{}", c.feats, okind)));
        rep.bump(&format!("outcome.{}", okind));
        if !c.corpus {
            for f in c.feats.split('+') {
                if !f.is_empty() {
                    rep.bump(&format!("feature.{}", f));
                }
            }
        }
        if k == cases.len() - 1 || k == cases.len() - 2 {
            rep.sample(J::s(c.text.clone()));
        }
        // 1. the generator model
        let a = &canswers[k];
        if a.starts_with("(same") {
            rep.bump("compile-model.same");
            let n: u64 = a.trim_matches(|ch| ch == '(' || ch == ')').split(' ').nth(1).and_then(|x| x.parse().ok()).unwrap_or(0);
            rep.bump_by("compile-model.instructions-compared", n);
        } else if a.starts_with("(not-core") {
            rep.bump("compile-model.instruction-outside-model");
        } else {
            let parts: Vec<&str> = a.trim_matches(|ch| ch == '(' || ch == ')').split(' ').collect();
            let kind: String = parts
                .get(2)
                .map(|x| x.split('@').next().unwrap_or("").chars().take_while(|ch| !ch.is_ascii_digit() && *ch != ':').collect())
                .unwrap_or_default();
            let text = if shrunk < 4 {
                shrunk += 1;
                shrink(&c.text, "compile", "")
            } else {
                c.text.clone()
            };
            rep.fail(Failure {
                kind: Kind::ModelVsImpl,
                signature: format!("aor-compile:{}:{}", parts.first().unwrap_or(&"?"), kind),
                input: text,
                implementation: a.clone(),
                expected: "RbModel.AoR.Compile.compile = normalise(real instruction list)".into(),
                note: "(differ <index> <model instr> <real instr> <model len> <real len>) | (ill-formed) | (bad-op)".into(),
            });
        }
        if real.outcome == "budget" {
            rep.bump("discarded.real-budget");
            continue;
        }
        // 2. the VM model
        match parse_ref_answer(&vanswers[k]) {
            None => rep.bump("vm-model.unreadable"),
            Some(vm) => {
                if vm.0 == "outOfFuel" {
                    rep.bump("vm-model.discarded-fuel");
                } else if vm.0 == "stuck" {
                    rep.bump("vm-model.stuck-or-inexact");
                } else if let Some(what) = disagree(real, &vm) {
                    let text = if shrunk < 4 {
                        shrunk += 1;
                        shrink(&c.text, "vm", what)
                    } else {
                        c.text.clone()
                    };
                    rep.fail(Failure {
                        kind: Kind::ModelVsImpl,
                        signature: format!("aor-vm:{}", what),
                        input: text,
                        implementation: format!("{} / {:?}", real.outcome, String::from_utf8_lossy(&real.out)),
                        expected: format!("{} / {:?}", vm.0, String::from_utf8_lossy(&vm.1)),
                        note: "real pipeline vs RbModel.AoR.Vm.run (RbModel.AoR.Compile.compile p) (before shrinking)".into(),
                    });
                } else {
                    rep.bump("vm-model.same");
                }
            }
        }
        // 3. the reference semantics
        match parse_ref_answer(&ranswers[k]) {
            None => {
                rep.fail(Failure {
                    kind: Kind::ModelVsImpl,
                    signature: "aor-ref:unreadable".into(),
                    input: c.text.clone(),
                    implementation: c.prog.chars().take(300).collect(),
                    expected: ranswers[k].clone(),
                    note: "the Lean reader rejected the serialised program".into(),
                });
            }
            Some(rf) => {
                if rf.0 == "inexact" {
                    rep.bump("ref.discarded-inexact-float");
                } else if rf.0 == "illFormed" || rf.0 == "tooBig" {
                    rep.bump(&format!("ref.outside-language.{}", rf.0));
                } else if rf.0 == "outOfFuel" {
                    rep.bump("ref.discarded-fuel");
                } else if let Some(what) = disagree(real, &rf) {
                    let text = if shrunk < 4 {
                        shrunk += 1;
                        shrink(&c.text, "ref", what)
                    } else {
                        c.text.clone()
                    };
                    rep.fail(Failure {
                        kind: Kind::ImplVsProperty,
                        signature: format!("aor-ref:{}", what),
                        input: text,
                        implementation: format!("{} / {:?}", real.outcome, String::from_utf8_lossy(&real.out)),
                        expected: format!("{} / {:?}", rf.0, String::from_utf8_lossy(&rf.1)),
                        note: "implementation vs reference semantics RbModel.AoR.Ref (before shrinking)".into(),
                    });
                } else {
                    rep.bump("ref.same");
                }
            }
        }
    }
    rep.finish();
}
