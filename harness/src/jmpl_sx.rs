//! Serialisation of the LINTED main module (the exact input of `generate_instructions`) into the syntax of the jump layer
//! `lean/RbModel/JmpL/Syntax.lean` (`(jprogram …)`): the faithful core-language form of `ast_sx.rs` (ELSEIF chains, optional
//! ELSE, DATA, DIM, multi-variable READ) plus `Statement::Label`, `GoTo`, `GoSub` and `Return(None)`.
//!
//! Labels are numbered in order of definition (depth-first, program order), case-insensitively; a label statement keeps its
//! name as written (the `Label` instruction carries it). Returns `None` outside the layer (counted by the caller):
//! procedures, arrays, records, CONST, ON ERROR / RESUME, `RETURN label`, EXIT, built-ins other than DATA / READ, a label
//! defined twice, a GOTO / GOSUB to a label that is not defined in the main module, and a label inside the body of a
//! `FOR … STEP` (that body is generated twice: known finding C05-a).

use std::collections::HashMap;

use rusty_common::Positioned;
use rusty_parser::{
    AsBareName, BuiltInSub, CaseExpression, DimType, DoLoopConditionKind, DoLoopConditionPosition, Expression,
    ExpressionPos, ExpressionType, GlobalStatement, Operator, PrintArg, Program, Statement, Statements, TypeQualifier,
    UnaryOperator,
};

use crate::ast_sx::{float_val, qual};
use crate::instr_sx::s as hexs;
use crate::sx;

struct Slots {
    map: HashMap<(String, &'static str), usize>,
    types: Vec<&'static str>,
}

impl Slots {
    fn new() -> Self {
        Slots { map: HashMap::new(), types: vec![] }
    }

    fn get(&mut self, bare: &str, q: TypeQualifier) -> usize {
        let t = qual(q);
        let key = (bare.to_ascii_uppercase(), t);
        if let Some(i) = self.map.get(&key) {
            return *i;
        }
        let i = self.types.len();
        self.types.push(t);
        self.map.insert(key, i);
        i
    }
}

fn op(o: Operator) -> &'static str {
    match o {
        Operator::Less => "less",
        Operator::LessOrEqual => "lessOrEqual",
        Operator::Equal => "equal",
        Operator::GreaterOrEqual => "greaterOrEqual",
        Operator::Greater => "greater",
        Operator::NotEqual => "notEqual",
        Operator::Plus => "plus",
        Operator::Minus => "minus",
        Operator::Multiply => "multiply",
        Operator::Divide => "divide",
        Operator::Modulo => "modulo",
        Operator::And => "and",
        Operator::Or => "or",
    }
}

fn expr(e: &ExpressionPos, slots: &mut Slots) -> Option<String> {
    let Positioned { element, pos } = e;
    let (r, c) = (pos.row(), pos.col());
    Some(match element {
        Expression::IntegerLiteral(i) => format!("(lit (int {}) {} {})", i, r, c),
        Expression::LongLiteral(l) => format!("(lit (long {}) {} {})", l, r, c),
        Expression::SingleLiteral(f) => format!("(lit {} {} {})", float_val("sgl", *f as f64)?, r, c),
        Expression::DoubleLiteral(f) => format!("(lit {} {} {})", float_val("dbl", *f)?, r, c),
        Expression::StringLiteral(s) => format!("(lit (str {}) {} {})", sx::chars(s), r, c),
        Expression::Variable(name, ExpressionType::BuiltIn(q)) => {
            let x = slots.get(&name.as_bare_name().to_string(), *q);
            format!("(var {} {} {} {})", x, qual(*q), r, c)
        }
        Expression::UnaryExpression(UnaryOperator::Minus, child) => format!("(neg {} {} {})", expr(child, slots)?, r, c),
        Expression::UnaryExpression(UnaryOperator::Not, child) => format!("(not {} {} {})", expr(child, slots)?, r, c),
        Expression::BinaryExpression(o, l, rr, ExpressionType::BuiltIn(q)) => {
            format!("(bin {} {} {} {} {} {})", op(*o), expr(l, slots)?, expr(rr, slots)?, qual(*q), r, c)
        }
        Expression::Parenthesis(child) => format!("(paren {} {} {})", expr(child, slots)?, r, c),
        _ => return None,
    })
}

fn case_expr(ce: &CaseExpression, slots: &mut Slots) -> Option<String> {
    Some(match ce {
        CaseExpression::Simple(e) => format!("(simple {})", expr(e, slots)?),
        CaseExpression::Is(o, e) => format!("(is {} {})", op(*o), expr(e, slots)?),
        CaseExpression::Range(a, b) => format!("(range {} {})", expr(a, slots)?, expr(b, slots)?),
    })
}


/// label name (upper-cased) -> index, in order of definition
struct Labels {
    map: HashMap<String, usize>,
    /// `program_unshadowed`: a label `ZZ<name>` stands for the label `<name>` (see there)
    unshadow: bool,
}

impl Labels {
    /// the index of the label a jump names
    fn target(&self, name: &str) -> Option<&usize> {
        let key = name.to_ascii_uppercase();
        match key.strip_prefix("ZZ") {
            Some(rest) if self.unshadow => self.map.get(rest),
            _ => self.map.get(&key),
        }
    }
}

/// collects the label definitions of a block; `in_step` = inside the body of a FOR with an explicit STEP
fn collect_labels(stmts: &Statements, in_step: bool, labels: &mut Labels) -> Option<()> {
    for st in stmts {
        match &st.element {
            Statement::Label(name) => {
                if in_step {
                    return None;
                }
                let key = name.to_string().to_ascii_uppercase();
                if labels.unshadow && key.starts_with("ZZ") {
                    continue;
                }
                if labels.map.contains_key(&key) {
                    return None;
                }
                let i = labels.map.len();
                labels.map.insert(key, i);
            }
            Statement::IfBlock(i) => {
                collect_labels(&i.if_block.statements, in_step, labels)?;
                for eb in &i.else_if_blocks {
                    collect_labels(&eb.statements, in_step, labels)?;
                }
                if let Some(e) = &i.else_block {
                    collect_labels(e, in_step, labels)?;
                }
            }
            Statement::SelectCase(sc) => {
                for cb in &sc.case_blocks {
                    collect_labels(cb.statements(), in_step, labels)?;
                }
                if let Some(e) = &sc.else_block {
                    collect_labels(e, in_step, labels)?;
                }
            }
            Statement::ForLoop(f) => collect_labels(&f.statements, in_step || f.step.is_some(), labels)?,
            Statement::While(w) => collect_labels(&w.statements, in_step, labels)?,
            Statement::DoLoop(d) => collect_labels(&d.statements, in_step, labels)?,
            _ => {}
        }
    }
    Some(())
}

fn sblock(stmts: &Statements, slots: &mut Slots, labels: &Labels) -> Option<String> {
    let mut out = vec![];
    for s in stmts {
        sstmt(s, slots, labels, &mut out)?;
    }
    Some(sx::list(out))
}

fn sstmt(s: &Positioned<Statement>, slots: &mut Slots, labels: &Labels, out: &mut Vec<String>) -> Option<()> {
    let Positioned { element, pos } = s;
    let (r, c) = (pos.row(), pos.col());
    match element {
        Statement::Comment(_) => out.push("comment".to_owned()),
        Statement::Dim(dim_list) => {
            if dim_list.shared {
                return None;
            }
            for v in &dim_list.variables {
                match v.element.var_type() {
                    DimType::BuiltIn(q, _) => {
                        let x = slots.get(&v.element.as_bare_name().to_string(), *q);
                        out.push(format!("(dim {} {} {} {})", x, qual(*q), v.pos.row(), v.pos.col()));
                    }
                    _ => return None,
                }
            }
        }
        Statement::BuiltInSubCall(b) => match b.built_in_sub() {
            BuiltInSub::Data => {
                let mut items = vec![];
                for a in b.args() {
                    let v = match &a.element {
                        Expression::IntegerLiteral(i) => format!("(int {})", i),
                        Expression::LongLiteral(l) => format!("(long {})", l),
                        Expression::SingleLiteral(f) => float_val("sgl", *f as f64)?,
                        Expression::DoubleLiteral(f) => float_val("dbl", *f)?,
                        Expression::StringLiteral(t) => format!("(str {})", sx::chars(t)),
                        _ => return None,
                    };
                    items.push(format!("({} {} {})", v, a.pos.row(), a.pos.col()));
                }
                out.push(format!("(data {} {} {})", sx::list(items), r, c));
            }
            BuiltInSub::Read => {
                let mut vars = vec![];
                for a in b.args() {
                    match &a.element {
                        Expression::Variable(name, ExpressionType::BuiltIn(q)) => {
                            let x = slots.get(&name.as_bare_name().to_string(), *q);
                            vars.push(format!("({} {} {} {})", x, qual(*q), a.pos.row(), a.pos.col()));
                        }
                        _ => return None,
                    }
                }
                out.push(format!("(read {} {} {})", sx::list(vars), r, c));
            }
            _ => return None,
        },
        Statement::IfBlock(i) => {
            let thn = sblock(&i.if_block.statements, slots, labels)?;
            let cond = expr(&i.if_block.condition, slots)?;
            let mut elifs = vec![];
            for eb in &i.else_if_blocks {
                elifs.push(format!("({} {})", expr(&eb.condition, slots)?, sblock(&eb.statements, slots, labels)?));
            }
            let els = match &i.else_block {
                Some(e) => sblock(e, slots, labels)?,
                None => "none".to_owned(),
            };
            out.push(format!("(if {} {} {} {} {} {})", cond, thn, sx::list(elifs), els, r, c));
        }
        Statement::SelectCase(sc) => {
            let subject = expr(&sc.expr, slots)?;
            let mut cases = vec![];
            for cb in &sc.case_blocks {
                let mut conds = vec![];
                for ce in cb.conditions() {
                    conds.push(case_expr(ce, slots)?);
                }
                cases.push(format!("({} {})", sx::list(conds), sblock(cb.statements(), slots, labels)?));
            }
            let els = match &sc.else_block {
                Some(e) => sblock(e, slots, labels)?,
                None => "none".to_owned(),
            };
            out.push(format!("(select {} {} {} {} {})", subject, sx::list(cases), els, r, c));
        }
        Statement::ForLoop(f) => {
            let (x, q) = match &f.variable_name.element {
                Expression::Variable(name, ExpressionType::BuiltIn(q)) => (slots.get(&name.as_bare_name().to_string(), *q), *q),
                _ => return None,
            };
            let lo = expr(&f.lower_bound, slots)?;
            let hi = expr(&f.upper_bound, slots)?;
            let step = match &f.step {
                Some(s) => expr(s, slots)?,
                None => "none".to_owned(),
            };
            out.push(format!("(for {} {} {} {} {} {} {} {})", x, qual(q), lo, hi, step, sblock(&f.statements, slots, labels)?, r, c));
        }
        Statement::While(w) => {
            out.push(format!("(while {} {} {} {})", expr(&w.condition, slots)?, sblock(&w.statements, slots, labels)?, r, c));
        }
        Statement::DoLoop(d) => {
            out.push(format!(
                "(do {} {} {} {} {} {})",
                expr(&d.condition, slots)?,
                if d.position == DoLoopConditionPosition::Top { "t" } else { "f" },
                if d.kind == DoLoopConditionKind::Until { "t" } else { "f" },
                sblock(&d.statements, slots, labels)?,
                r,
                c
            ));
        }
        Statement::Assignment(a) => {
            let (l, rhs) = (a.lvalue(), a.rvalue());
            match l {
                Expression::Variable(name, ExpressionType::BuiltIn(q)) => {
                    let x = slots.get(&name.as_bare_name().to_string(), *q);
                    out.push(format!("(assign {} {} {} {} {})", x, qual(*q), expr(rhs, slots)?, r, c));
                }
                _ => return None,
            }
        }
        Statement::Print(p) => {
            if p.file_number.is_some() || p.lpt1 || p.format_string.is_some() {
                return None;
            }
            let mut items = vec![];
            for a in &p.args {
                items.push(match a {
                    PrintArg::Comma => "comma".to_owned(),
                    PrintArg::Semicolon => "semi".to_owned(),
                    PrintArg::Expression(e) => format!("(e {})", expr(e, slots)?),
                });
            }
            out.push(format!("(print {} {} {})", sx::list(items), r, c));
        }
        Statement::End | Statement::System => out.push(format!("(end {} {})", r, c)),
        Statement::Label(name) if labels.unshadow && name.to_string().to_ascii_uppercase().starts_with("ZZ") => {}
        Statement::Label(name) => {
            let l = labels.map.get(&name.to_string().to_ascii_uppercase())?;
            out.push(format!("(label {} {} {} {})", l, hexs(&name.to_string()), r, c));
        }
        Statement::GoTo(name) => {
            let l = labels.target(&name.to_string())?;
            out.push(format!("(goto {} {} {})", l, r, c));
        }
        Statement::GoSub(name) => {
            let l = labels.target(&name.to_string())?;
            out.push(format!("(gosub {} {} {})", l, r, c));
        }
        Statement::Return(None) => out.push(format!("(return {} {})", r, c)),
        _ => return None,
    }
    Some(())
}

pub struct JmpProgram {
    /// `(jprogram (<slot ty>…) (<stmt>…))`
    pub program: String,
    /// `((<name> <ty>)…)` in slot order
    pub table: String,
    pub n_labels: usize,
}

/// The linted program in the syntax of `RbModel.JmpL.Syntax`, or None if outside it.
pub fn program(p: &Program) -> Option<JmpProgram> {
    program_with(p, false)
}

/// The serialisation of a program that the checker itself may reject for a jump into a FOR body / SELECT CASE block
/// (nothing linted exists for such a program): `p` is the linted *shadow* of the program, in which every jump under test
/// names `ZZ<label>` instead of `<label>` and the labels `ZZ<label>:` are defined at the top level behind the last
/// statement; here the shadow labels are dropped and the jumps are given the index of `<label>`, which yields the
/// serialisation of the original program (same statements, same positions: the shadow names replace names only).
pub fn program_unshadowed(p: &Program) -> Option<JmpProgram> {
    program_with(p, true)
}

fn program_with(p: &Program, unshadow: bool) -> Option<JmpProgram> {
    let mut slots = Slots::new();
    let mut labels = Labels { map: HashMap::new(), unshadow };
    let mut main: Statements = vec![];
    for gs in p {
        match &gs.element {
            GlobalStatement::Statement(st) => main.push(Positioned { element: st.clone(), pos: gs.pos }),
            GlobalStatement::DefType(_) => {}
            _ => return None,
        }
    }
    collect_labels(&main, false, &mut labels)?;
    let mut out = vec![];
    for sp in &main {
        sstmt(sp, &mut slots, &labels, &mut out)?;
    }
    let mut names: Vec<(usize, String)> = slots.map.iter().map(|((n, t), i)| (*i, format!("({} {})", hexs(n), t))).collect();
    names.sort();
    Some(JmpProgram {
        program: format!("(jprogram {} {})", sx::list(slots.types.iter()), sx::list(out)),
        table: sx::list(names.into_iter().map(|(_, x)| x)),
        n_labels: labels.map.len(),
    })
}

/// parse + lint + serialise + the real instruction list: `(program, code)`; None = rejected or outside the layer
pub fn src_and_code(text: &str) -> Option<(JmpProgram, String)> {
    let t = text.to_owned();
    std::panic::catch_unwind(move || {
        let p = rusty_parser::parse_main_str(t).ok()?;
        let (linted, ctx) = rusty_linter::core::lint(p).ok()?;
        let pp = program(&linted)?;
        let (names, _udt) = rusty_basic::instruction_generator::unwrap_linter_context(ctx);
        let res = rusty_basic::instruction_generator::generate_instructions(linted, names);
        let (code, _addrs) = crate::instr_sx::program(&res);
        Some((pp, code))
    })
    .ok()
    .flatten()
}
