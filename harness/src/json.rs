//! Minimal JSON value + writer (no external crates are available offline).

#[derive(Clone, Debug)]
pub enum J {
    Null,
    Bool(bool),
    Int(i64),
    Num(f64),
    Str(String),
    Arr(Vec<J>),
    Obj(Vec<(String, J)>),
}

impl J {
    pub fn s<T: Into<String>>(t: T) -> J {
        J::Str(t.into())
    }

    pub fn obj<I: IntoIterator<Item = (&'static str, J)>>(items: I) -> J {
        J::Obj(items.into_iter().map(|(k, v)| (k.to_owned(), v)).collect())
    }

    pub fn write(&self, out: &mut String) {
        match self {
            J::Null => out.push_str("null"),
            J::Bool(b) => out.push_str(if *b { "true" } else { "false" }),
            J::Int(i) => out.push_str(&i.to_string()),
            J::Num(f) => out.push_str(&format!("{}", f)),
            J::Str(s) => {
                out.push('"');
                for c in s.chars() {
                    match c {
                        '"' => out.push_str("\\\""),
                        '\\' => out.push_str("\\\\"),
                        '\n' => out.push_str("\\n"),
                        '\r' => out.push_str("\\r"),
                        '\t' => out.push_str("\\t"),
                        c if (c as u32) < 0x20 => out.push_str(&format!("\\u{:04x}", c as u32)),
                        c => out.push(c),
                    }
                }
                out.push('"');
            }
            J::Arr(a) => {
                out.push('[');
                for (i, v) in a.iter().enumerate() {
                    if i > 0 {
                        out.push(',');
                    }
                    v.write(out);
                }
                out.push(']');
            }
            J::Obj(o) => {
                out.push('{');
                for (i, (k, v)) in o.iter().enumerate() {
                    if i > 0 {
                        out.push(',');
                    }
                    J::Str(k.clone()).write(out);
                    out.push(':');
                    v.write(out);
                }
                out.push('}');
            }
        }
    }

    pub fn to_string(&self) -> String {
        let mut s = String::new();
        self.write(&mut s);
        s
    }
}
