//! Bridge to the Lean driver (`lean/.lake/build/bin/driver`): one request per line,
//! one answer per line.

use std::io::Write;
use std::process::{Command, Stdio};

pub fn driver_path() -> String {
    std::env::var("VERIF_DRIVER").unwrap_or_else(|_| "/verif/lean/.lake/build/bin/driver".to_owned())
}

/// Sends all requests, returns all answers (same length, same order).
pub fn ask(requests: &[String]) -> Vec<String> {
    if requests.is_empty() {
        return vec![];
    }
    let mut child = Command::new(driver_path())
        .stdin(Stdio::piped())
        .stdout(Stdio::piped())
        .spawn()
        .expect("cannot start the Lean driver");
    let mut stdin = child.stdin.take().unwrap();
    let payload: String = requests.iter().map(|r| format!("{}\n", r)).collect();
    let writer = std::thread::spawn(move || {
        stdin.write_all(payload.as_bytes()).expect("write to driver");
    });
    let output = child.wait_with_output().expect("driver output");
    writer.join().unwrap();
    let text = String::from_utf8_lossy(&output.stdout);
    let answers: Vec<String> = text.lines().map(|l| l.to_owned()).collect();
    assert_eq!(
        answers.len(),
        requests.len(),
        "driver answered {} lines for {} requests (status {:?})",
        answers.len(),
        requests.len(),
        output.status
    );
    answers
}
