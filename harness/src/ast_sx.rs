//! Serialisation of the LINTED program (the exact input of `generate_instructions`) into the
//! core-language syntax of `lean/RbModel/Ast.lean`. Returns `None` when the program uses anything
//! outside the core language of property C01 (the caller counts and skips those).

use std::collections::HashMap;

use rusty_common::Positioned;
use rusty_parser::{
    AsBareName, BuiltInSub, CaseExpression, DimType, DoLoopConditionKind, DoLoopConditionPosition, Expression,
    ExpressionPos, ExpressionType, GlobalStatement, Operator, PrintArg, Program, Statement, Statements,
    TypeQualifier, UnaryOperator,
};

use crate::sx;

pub struct Slots {
    map: HashMap<(String, &'static str), usize>,
    pub types: Vec<&'static str>,
}

impl Slots {
    fn new() -> Self {
        Slots { map: HashMap::new(), types: vec![] }
    }

    fn get(&mut self, bare: &str, q: TypeQualifier) -> usize {
        let t = qual(q);
        let key = (bare.to_ascii_uppercase(), t);
        if let Some(i) = self.map.get(&key) {
            return *i;
        }
        let i = self.types.len();
        self.types.push(t);
        self.map.insert(key, i);
        i
    }
}

pub fn qual(q: TypeQualifier) -> &'static str {
    match q {
        TypeQualifier::BangSingle => "sgl",
        TypeQualifier::HashDouble => "dbl",
        TypeQualifier::DollarString => "str",
        TypeQualifier::PercentInteger => "int",
        TypeQualifier::AmpersandLong => "long",
    }
}

fn op(o: Operator) -> &'static str {
    match o {
        Operator::Less => "less",
        Operator::LessOrEqual => "lessOrEqual",
        Operator::Equal => "equal",
        Operator::GreaterOrEqual => "greaterOrEqual",
        Operator::Greater => "greater",
        Operator::NotEqual => "notEqual",
        Operator::Plus => "plus",
        Operator::Minus => "minus",
        Operator::Multiply => "multiply",
        Operator::Divide => "divide",
        Operator::Modulo => "modulo",
        Operator::And => "and",
        Operator::Or => "or",
    }
}

/// exact rational `num den` of a finite float (den a power of two), or None
fn rat_of_f64(f: f64) -> Option<(i128, u128)> {
    if !f.is_finite() {
        return None;
    }
    if f == 0.0 {
        return Some((0, 1));
    }
    let bits = f.to_bits();
    let sign: i128 = if bits >> 63 == 1 { -1 } else { 1 };
    let exp = ((bits >> 52) & 0x7ff) as i64;
    let frac = (bits & ((1u64 << 52) - 1)) as u128;
    let (mant, e) = if exp == 0 { (frac, -1074i64) } else { (frac | (1u128 << 52), exp - 1075) };
    // value = mant * 2^e
    let tz = mant.trailing_zeros() as i64;
    let mant = mant >> tz;
    let e = e + tz;
    if e >= 0 {
        if e > 60 {
            return None;
        }
        Some((sign * ((mant << e) as i128), 1))
    } else {
        if -e > 100 {
            return None;
        }
        Some((sign * (mant as i128), 1u128 << (-e)))
    }
}

pub fn float_val(tag: &str, f: f64) -> Option<String> {
    let (n, d) = rat_of_f64(f)?;
    Some(format!("({} {} {})", tag, n, d))
}

fn expr(e: &ExpressionPos, slots: &mut Slots) -> Option<String> {
    let Positioned { element, pos } = e;
    let (r, c) = (pos.row(), pos.col());
    Some(match element {
        Expression::IntegerLiteral(i) => format!("(lit (int {}) {} {})", i, r, c),
        Expression::LongLiteral(l) => format!("(lit (long {}) {} {})", l, r, c),
        Expression::SingleLiteral(f) => format!("(lit {} {} {})", float_val("sgl", *f as f64)?, r, c),
        Expression::DoubleLiteral(f) => format!("(lit {} {} {})", float_val("dbl", *f)?, r, c),
        Expression::StringLiteral(s) => format!("(lit (str {}) {} {})", sx::chars(s), r, c),
        Expression::Variable(name, ExpressionType::BuiltIn(q)) => {
            let x = slots.get(&name.as_bare_name().to_string(), *q);
            format!("(var {} {} {} {})", x, qual(*q), r, c)
        }
        Expression::UnaryExpression(UnaryOperator::Minus, child) => format!("(neg {} {} {})", expr(child, slots)?, r, c),
        Expression::UnaryExpression(UnaryOperator::Not, child) => format!("(not {} {} {})", expr(child, slots)?, r, c),
        Expression::BinaryExpression(o, l, rr, ExpressionType::BuiltIn(q)) => {
            format!("(bin {} {} {} {} {} {})", op(*o), expr(l, slots)?, expr(rr, slots)?, qual(*q), r, c)
        }
        Expression::Parenthesis(child) => format!("(paren {} {} {})", expr(child, slots)?, r, c),
        _ => return None,
    })
}

fn case_expr(ce: &CaseExpression, slots: &mut Slots) -> Option<String> {
    Some(match ce {
        CaseExpression::Simple(e) => format!("(simple {})", expr(e, slots)?),
        CaseExpression::Is(o, e) => format!("(is {} {})", op(*o), expr(e, slots)?),
        CaseExpression::Range(a, b) => format!("(range {} {})", expr(a, slots)?, expr(b, slots)?),
    })
}

fn block(stmts: &Statements, slots: &mut Slots, data: &mut Vec<String>, top: bool) -> Option<String> {
    let mut out = vec![];
    for s in stmts {
        stmt(s, slots, data, top, &mut out)?;
    }
    Some(sx::list(out))
}

fn stmt(
    s: &Positioned<Statement>,
    slots: &mut Slots,
    data: &mut Vec<String>,
    top: bool,
    out: &mut Vec<String>,
) -> Option<()> {
    let Positioned { element, pos } = s;
    let (r, c) = (pos.row(), pos.col());
    match element {
        Statement::Comment(_) => {}
        Statement::Assignment(a) => {
            let (l, rhs) = (a.lvalue(), a.rvalue());
            match l {
                Expression::Variable(name, ExpressionType::BuiltIn(q)) => {
                    let x = slots.get(&name.as_bare_name().to_string(), *q);
                    out.push(format!("(assign {} {} {} {} {})", x, qual(*q), expr(rhs, slots)?, r, c));
                }
                _ => return None,
            }
        }
        Statement::Dim(dim_list) => {
            if dim_list.shared {
                return None;
            }
            for v in &dim_list.variables {
                match v.element.var_type() {
                    DimType::BuiltIn(q, _) => {
                        slots.get(&v.element.as_bare_name().to_string(), *q);
                    }
                    _ => return None,
                }
            }
        }
        Statement::Print(p) => {
            if p.file_number.is_some() || p.lpt1 || p.format_string.is_some() {
                return None;
            }
            let mut items = vec![];
            for a in &p.args {
                items.push(match a {
                    PrintArg::Comma => "comma".to_owned(),
                    PrintArg::Semicolon => "semi".to_owned(),
                    PrintArg::Expression(e) => format!("(e {})", expr(e, slots)?),
                });
            }
            out.push(format!("(print {} {} {})", sx::list(items), r, c));
        }
        Statement::BuiltInSubCall(b) => match b.built_in_sub() {
            BuiltInSub::Data => {
                if !top {
                    return None;
                }
                for a in b.args() {
                    data.push(match &a.element {
                        Expression::IntegerLiteral(i) => format!("(int {})", i),
                        Expression::LongLiteral(l) => format!("(long {})", l),
                        Expression::SingleLiteral(f) => float_val("sgl", *f as f64)?,
                        Expression::DoubleLiteral(f) => float_val("dbl", *f)?,
                        Expression::StringLiteral(t) => format!("(str {})", sx::chars(t)),
                        _ => return None,
                    });
                }
            }
            BuiltInSub::Read => {
                for a in b.args() {
                    match &a.element {
                        Expression::Variable(name, ExpressionType::BuiltIn(q)) => {
                            let x = slots.get(&name.as_bare_name().to_string(), *q);
                            out.push(format!("(read {} {} {} {})", x, qual(*q), r, c));
                        }
                        _ => return None,
                    }
                }
            }
            _ => return None,
        },
        Statement::IfBlock(i) => {
            // ELSEIF chain = nested IF in the ELSE branch
            let mut else_part = match &i.else_block {
                Some(e) => block(e, slots, data, false)?,
                None => "()".to_owned(),
            };
            for eb in i.else_if_blocks.iter().rev() {
                let b = block(&eb.statements, slots, data, false)?;
                else_part = format!("((if {} {} {} {} {}))", expr(&eb.condition, slots)?, b, else_part, r, c);
            }
            // note: slots are assigned in evaluation-independent order; only identity matters
            let thn = block(&i.if_block.statements, slots, data, false)?;
            out.push(format!("(if {} {} {} {} {})", expr(&i.if_block.condition, slots)?, thn, else_part, r, c));
        }
        Statement::SelectCase(sc) => {
            let mut cases = vec![];
            for cb in &sc.case_blocks {
                let mut conds = vec![];
                for ce in cb.conditions() {
                    conds.push(case_expr(ce, slots)?);
                }
                cases.push(format!("({} {})", sx::list(conds), block(cb.statements(), slots, data, false)?));
            }
            let els = match &sc.else_block {
                Some(e) => block(e, slots, data, false)?,
                None => "none".to_owned(),
            };
            out.push(format!("(select {} {} {} {} {})", expr(&sc.expr, slots)?, sx::list(cases), els, r, c));
        }
        Statement::ForLoop(f) => {
            let (x, q) = match &f.variable_name.element {
                Expression::Variable(name, ExpressionType::BuiltIn(q)) => (slots.get(&name.as_bare_name().to_string(), *q), *q),
                _ => return None,
            };
            let step = match &f.step {
                Some(s) => expr(s, slots)?,
                None => "none".to_owned(),
            };
            out.push(format!(
                "(for {} {} {} {} {} {} {} {})",
                x,
                qual(q),
                expr(&f.lower_bound, slots)?,
                expr(&f.upper_bound, slots)?,
                step,
                block(&f.statements, slots, data, false)?,
                r,
                c
            ));
        }
        Statement::While(w) => {
            out.push(format!("(while {} {} {} {})", expr(&w.condition, slots)?, block(&w.statements, slots, data, false)?, r, c));
        }
        Statement::DoLoop(d) => {
            out.push(format!(
                "(do {} {} {} {} {} {})",
                expr(&d.condition, slots)?,
                if d.position == DoLoopConditionPosition::Top { "t" } else { "f" },
                if d.kind == DoLoopConditionKind::Until { "t" } else { "f" },
                block(&d.statements, slots, data, false)?,
                r,
                c
            ));
        }
        Statement::End | Statement::System => out.push(format!("(end {} {})", r, c)),
        _ => return None,
    }
    Some(())
}

/// `(program (<ty>…) (<data>…) (<stmt>…))` or None if outside the core language.
pub fn program(p: &Program) -> Option<String> {
    let mut slots = Slots::new();
    let mut data = vec![];
    let mut out = vec![];
    for gs in p {
        match &gs.element {
            GlobalStatement::Statement(s) => {
                let sp = Positioned { element: s.clone(), pos: gs.pos };
                stmt(&sp, &mut slots, &mut data, true, &mut out)?;
            }
            GlobalStatement::DefType(_) => {}
            _ => return None,
        }
    }
    Some(format!("(program {} {} {})", sx::list(slots.types.iter()), sx::list(data), sx::list(out)))
}

// ---------------------------------------------------------------------------------------------
// faithful form (`lean/RbModel/Src.lean`): ELSEIF chains, optional ELSE, DATA, DIM, multi-variable READ

fn sblock(stmts: &Statements, slots: &mut Slots) -> Option<String> {
    let mut out = vec![];
    for s in stmts {
        sstmt(s, slots, &mut out)?;
    }
    Some(sx::list(out))
}

fn sstmt(s: &Positioned<Statement>, slots: &mut Slots, out: &mut Vec<String>) -> Option<()> {
    let Positioned { element, pos } = s;
    let (r, c) = (pos.row(), pos.col());
    match element {
        Statement::Comment(_) => out.push("comment".to_owned()),
        Statement::Dim(dim_list) => {
            if dim_list.shared {
                return None;
            }
            for v in &dim_list.variables {
                match v.element.var_type() {
                    DimType::BuiltIn(q, _) => {
                        let x = slots.get(&v.element.as_bare_name().to_string(), *q);
                        out.push(format!("(dim {} {} {} {})", x, qual(*q), v.pos.row(), v.pos.col()));
                    }
                    _ => return None,
                }
            }
        }
        Statement::BuiltInSubCall(b) => match b.built_in_sub() {
            BuiltInSub::Data => {
                let mut items = vec![];
                for a in b.args() {
                    let v = match &a.element {
                        Expression::IntegerLiteral(i) => format!("(int {})", i),
                        Expression::LongLiteral(l) => format!("(long {})", l),
                        Expression::SingleLiteral(f) => float_val("sgl", *f as f64)?,
                        Expression::DoubleLiteral(f) => float_val("dbl", *f)?,
                        Expression::StringLiteral(t) => format!("(str {})", sx::chars(t)),
                        _ => return None,
                    };
                    items.push(format!("({} {} {})", v, a.pos.row(), a.pos.col()));
                }
                out.push(format!("(data {} {} {})", sx::list(items), r, c));
            }
            BuiltInSub::Read => {
                let mut vars = vec![];
                for a in b.args() {
                    match &a.element {
                        Expression::Variable(name, ExpressionType::BuiltIn(q)) => {
                            let x = slots.get(&name.as_bare_name().to_string(), *q);
                            vars.push(format!("({} {} {} {})", x, qual(*q), a.pos.row(), a.pos.col()));
                        }
                        _ => return None,
                    }
                }
                out.push(format!("(read {} {} {})", sx::list(vars), r, c));
            }
            _ => return None,
        },
        Statement::IfBlock(i) => {
            let thn = sblock(&i.if_block.statements, slots)?;
            let cond = expr(&i.if_block.condition, slots)?;
            let mut elifs = vec![];
            for eb in &i.else_if_blocks {
                elifs.push(format!("({} {})", expr(&eb.condition, slots)?, sblock(&eb.statements, slots)?));
            }
            let els = match &i.else_block {
                Some(e) => sblock(e, slots)?,
                None => "none".to_owned(),
            };
            out.push(format!("(if {} {} {} {} {} {})", cond, thn, sx::list(elifs), els, r, c));
        }
        Statement::SelectCase(sc) => {
            let subject = expr(&sc.expr, slots)?;
            let mut cases = vec![];
            for cb in &sc.case_blocks {
                let mut conds = vec![];
                for ce in cb.conditions() {
                    conds.push(case_expr(ce, slots)?);
                }
                cases.push(format!("({} {})", sx::list(conds), sblock(cb.statements(), slots)?));
            }
            let els = match &sc.else_block {
                Some(e) => sblock(e, slots)?,
                None => "none".to_owned(),
            };
            out.push(format!("(select {} {} {} {} {})", subject, sx::list(cases), els, r, c));
        }
        Statement::ForLoop(f) => {
            let (x, q) = match &f.variable_name.element {
                Expression::Variable(name, ExpressionType::BuiltIn(q)) => (slots.get(&name.as_bare_name().to_string(), *q), *q),
                _ => return None,
            };
            let lo = expr(&f.lower_bound, slots)?;
            let hi = expr(&f.upper_bound, slots)?;
            let step = match &f.step {
                Some(s) => expr(s, slots)?,
                None => "none".to_owned(),
            };
            out.push(format!("(for {} {} {} {} {} {} {} {})", x, qual(q), lo, hi, step, sblock(&f.statements, slots)?, r, c));
        }
        Statement::While(w) => {
            out.push(format!("(while {} {} {} {})", expr(&w.condition, slots)?, sblock(&w.statements, slots)?, r, c));
        }
        Statement::DoLoop(d) => {
            out.push(format!(
                "(do {} {} {} {} {} {})",
                expr(&d.condition, slots)?,
                if d.position == DoLoopConditionPosition::Top { "t" } else { "f" },
                if d.kind == DoLoopConditionKind::Until { "t" } else { "f" },
                sblock(&d.statements, slots)?,
                r,
                c
            ));
        }
        // the remaining forms are the same in both syntaxes
        Statement::Assignment(_) | Statement::Print(_) | Statement::End | Statement::System => {
            let mut data = vec![];
            stmt(s, slots, &mut data, true, out)?;
        }
        _ => return None,
    }
    Some(())
}

/// `((sprogram (<ty>…) (<stmt>…)) ((<name> <ty>)…))`: the faithful program and its slot table, or None
pub fn program_src(p: &Program) -> Option<(String, String)> {
    let mut slots = Slots::new();
    let mut out = vec![];
    for gs in p {
        match &gs.element {
            GlobalStatement::Statement(s) => {
                let sp = Positioned { element: s.clone(), pos: gs.pos };
                sstmt(&sp, &mut slots, &mut out)?;
            }
            GlobalStatement::DefType(_) => {}
            _ => return None,
        }
    }
    let mut names: Vec<(usize, String)> = slots.map.iter().map(|((n, t), i)| (*i, format!("({} {})", crate::instr_sx::s(n), t))).collect();
    names.sort();
    Some((
        format!("(sprogram {} {})", sx::list(slots.types.iter()), sx::list(out)),
        sx::list(names.into_iter().map(|(_, s)| s)),
    ))
}
