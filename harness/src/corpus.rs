//! Program corpus: every string literal in the Rust sources of /repo that parses and lints
//! as a BASIC program (these are the programs embedded in the repository's own tests), plus
//! the fixtures. Harvested at the start of every run from /repo's working tree.

use std::collections::BTreeSet;
use std::path::{Path, PathBuf};

fn rs_files(dir: &Path, out: &mut Vec<PathBuf>) {
    if let Ok(rd) = std::fs::read_dir(dir) {
        let mut entries: Vec<_> = rd.flatten().map(|e| e.path()).collect();
        entries.sort();
        for p in entries {
            if p.is_dir() {
                if p.file_name().map(|n| n == "target").unwrap_or(false) {
                    continue;
                }
                rs_files(&p, out);
            } else if p.extension().map(|e| e == "rs").unwrap_or(false) {
                out.push(p);
            }
        }
    }
}

/// Extracts the string literals of a Rust source text (raw and ordinary), unescaped.
pub fn string_literals(src: &str) -> Vec<String> {
    let b: Vec<char> = src.chars().collect();
    let n = b.len();
    let mut i = 0;
    let mut out = vec![];
    while i < n {
        let c = b[i];
        if c == '/' && i + 1 < n && b[i + 1] == '/' {
            while i < n && b[i] != '\n' {
                i += 1;
            }
        } else if c == '\'' {
            // char literal or lifetime: skip 'x' / '\n' forms
            if i + 2 < n && b[i + 1] == '\\' {
                let mut j = i + 2;
                while j < n && b[j] != '\'' && j < i + 12 {
                    j += 1;
                }
                i = j + 1;
            } else if i + 2 < n && b[i + 2] == '\'' {
                i += 3;
            } else {
                i += 1;
            }
        } else if c == 'r' && i + 1 < n && (b[i + 1] == '"' || b[i + 1] == '#') && (i == 0 || !(b[i - 1].is_alphanumeric() || b[i - 1] == '_')) {
            let mut j = i + 1;
            let mut hashes = 0;
            while j < n && b[j] == '#' {
                hashes += 1;
                j += 1;
            }
            if j < n && b[j] == '"' {
                j += 1;
                let start = j;
                let mut end = None;
                while j < n {
                    if b[j] == '"' {
                        let mut k = 0;
                        while k < hashes && j + 1 + k < n && b[j + 1 + k] == '#' {
                            k += 1;
                        }
                        if k == hashes {
                            end = Some(j);
                            break;
                        }
                    }
                    j += 1;
                }
                if let Some(e) = end {
                    out.push(b[start..e].iter().collect());
                    i = e + 1 + hashes;
                } else {
                    i = n;
                }
            } else {
                i += 1;
            }
        } else if c == '"' {
            let mut j = i + 1;
            let mut s = String::new();
            while j < n && b[j] != '"' {
                if b[j] == '\\' && j + 1 < n {
                    j += 1;
                    match b[j] {
                        'n' => s.push('\n'),
                        'r' => s.push('\r'),
                        't' => s.push('\t'),
                        '0' => s.push('\0'),
                        '\\' => s.push('\\'),
                        '"' => s.push('"'),
                        '\'' => s.push('\''),
                        'u' => {
                            // \u{XXXX}
                            let mut k = j + 2;
                            let mut v = 0u32;
                            while k < n && b[k] != '}' {
                                v = v * 16 + b[k].to_digit(16).unwrap_or(0);
                                k += 1;
                            }
                            if let Some(ch) = char::from_u32(v) {
                                s.push(ch);
                            }
                            j = k;
                        }
                        '\n' => {
                            // line continuation: skip leading whitespace of the next line
                            while j + 1 < n && b[j + 1].is_whitespace() {
                                j += 1;
                            }
                        }
                        other => {
                            s.push('\\');
                            s.push(other);
                        }
                    }
                } else {
                    s.push(b[j]);
                }
                j += 1;
            }
            out.push(s);
            i = j + 1;
        } else {
            i += 1;
        }
    }
    out
}

/// All candidate program texts: literals of the repo's Rust sources + fixtures. Deduplicated, sorted.
pub fn candidate_texts() -> Vec<String> {
    let mut files = vec![];
    for krate in ["rusty_basic", "rusty_linter", "rusty_parser"] {
        rs_files(&Path::new("/repo").join(krate).join("src"), &mut files);
    }
    let mut set: BTreeSet<String> = BTreeSet::new();
    for f in files {
        if let Ok(src) = std::fs::read_to_string(&f) {
            for lit in string_literals(&src) {
                if lit.trim().len() >= 3 && lit.len() < 20_000 {
                    set.insert(lit);
                }
            }
        }
    }
    if let Ok(rd) = std::fs::read_dir("/repo/fixtures") {
        let mut entries: Vec<_> = rd.flatten().map(|e| e.path()).collect();
        entries.sort();
        for p in entries {
            if p.extension().map(|e| e == "BAS" || e == "bas").unwrap_or(false) {
                if let Ok(src) = std::fs::read_to_string(&p) {
                    set.insert(src);
                }
            }
        }
    }
    set.into_iter().collect()
}

/// Programs that need devices the in-memory hook does not provide (real keyboard).
pub fn needs_real_devices(text: &str) -> bool {
    let u = text.to_ascii_uppercase();
    u.contains("INKEY")
}

#[derive(Clone, Copy, Debug, PartialEq, Eq)]
pub enum Class {
    Accepted,
    ParseError,
    LintError,
    Panic,
}

pub fn classify(text: &str) -> Class {
    let t = text.to_owned();
    let r = std::panic::catch_unwind(move || match rusty_parser::parse_main_str(t) {
        Err(_) => Class::ParseError,
        Ok(p) => match rusty_linter::core::lint(p) {
            Err(_) => Class::LintError,
            Ok(_) => Class::Accepted,
        },
    });
    r.unwrap_or(Class::Panic)
}

/// The accepted programs of the corpus.
pub fn accepted_programs() -> Vec<String> {
    candidate_texts()
        .into_iter()
        .filter(|t| classify(t) == Class::Accepted)
        .collect()
}
