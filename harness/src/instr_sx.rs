//! Serialisation of the real instruction list (the output of `generate_instructions`)
//! into single-line S-expressions for the Lean driver.

use rusty_basic::instruction_generator::{AddressOrLabel, Instruction, InstructionGeneratorResult, Path, PrinterType, RootPath};
use rusty_linter::core::ScopeName;
use rusty_parser::{AsBareName, ExpressionType, Name, ParamType, Parameter, TypeQualifier};
use rusty_variant::Variant;

use crate::sx;

/// A string as one atom: `s:` followed by the hex of its UTF-8 bytes.
pub fn s(text: &str) -> String {
    let mut out = String::from("s:");
    for b in text.as_bytes() {
        out.push_str(&format!("{:02x}", b));
    }
    out
}

pub fn qual(q: TypeQualifier) -> &'static str {
    match q {
        TypeQualifier::BangSingle => "sgl",
        TypeQualifier::HashDouble => "dbl",
        TypeQualifier::DollarString => "str",
        TypeQualifier::PercentInteger => "int",
        TypeQualifier::AmpersandLong => "long",
    }
}

pub fn name(n: &Name) -> String {
    let bare = n.as_bare_name().to_string();
    match n.qualifier() {
        Some(q) => sx::list(["name".to_owned(), s(&bare), qual(q).to_owned()]),
        None => sx::list(["name".to_owned(), s(&bare), "none".to_owned()]),
    }
}

pub fn variant(v: &Variant) -> String {
    match v {
        Variant::VInteger(i) => format!("(int {})", i),
        Variant::VLong(l) => format!("(long {})", l),
        Variant::VSingle(f) => format!("(sgl {})", f.to_bits()),
        Variant::VDouble(d) => format!("(dbl {})", d.to_bits()),
        Variant::VString(t) => format!("(str {})", sx::chars(t)),
        other => format!("(other {})", s(&format!("{:?}", other))),
    }
}

pub fn expr_type(t: &ExpressionType) -> String {
    match t {
        ExpressionType::Unresolved => "(unresolved)".to_owned(),
        ExpressionType::BuiltIn(q) => format!("(builtin {})", qual(*q)),
        ExpressionType::FixedLengthString(n) => format!("(fixed {})", n),
        ExpressionType::UserDefined(n) => format!("(udt {})", s(&n.to_string())),
        ExpressionType::Array(inner) => format!("(array {})", expr_type(inner)),
    }
}

fn param_type(t: &ParamType) -> String {
    match t {
        ParamType::Bare => "(bare)".to_owned(),
        ParamType::BuiltIn(q, _) => format!("(builtin {})", qual(*q)),
        ParamType::UserDefined(n) => format!("(udt {})", s(&n.element.to_string())),
        ParamType::Array(inner) => format!("(array {})", param_type(inner)),
    }
}

fn parameter(p: &Parameter) -> String {
    let p2: Parameter = p.clone();
    let (bare, t) = p2.into();
    format!("(param {} {})", s(&bare.to_string()), param_type(&t))
}

fn target(t: &AddressOrLabel) -> String {
    match t {
        AddressOrLabel::Resolved(a) => format!("(addr {})", a),
        AddressOrLabel::Unresolved(l) => format!("(unresolved {})", s(&l.to_string())),
    }
}

pub fn scope(sc: &ScopeName) -> String {
    match sc {
        ScopeName::Global => "(global)".to_owned(),
        ScopeName::Function(n) => format!("(fun {})", name(n)),
        ScopeName::Sub(n) => format!("(sub {})", s(&n.to_string())),
    }
}

pub fn root_path(r: &RootPath) -> String {
    format!("{} {}", name(&r.name), if r.shared { "t" } else { "f" })
}

pub fn path(p: &Path) -> String {
    match p {
        Path::Root(r) => format!("(root {})", root_path(r)),
        Path::ArrayElement(parent, idx) => format!(
            "(elem {} {})",
            path(parent),
            sx::list(idx.iter().map(variant))
        ),
        Path::Property(parent, n) => format!("(prop {} {})", path(parent), s(&n.to_string())),
    }
}

pub fn instruction(i: &Instruction) -> String {
    use Instruction::*;
    match i {
        VarPathName(r) => format!("(VarPathName {})", root_path(r)),
        VarPathIndex => "(VarPathIndex)".into(),
        VarPathProperty(n) => format!("(VarPathProperty {})", s(&n.to_string())),
        CopyAToVarPath => "(CopyAToVarPath)".into(),
        CopyVarPathToA => "(CopyVarPathToA)".into(),
        PopVarPath => "(PopVarPath)".into(),
        LoadIntoA(v) => format!("(LoadIntoA {})", variant(v)),
        CopyAToB => "(CopyAToB)".into(),
        CopyAToC => "(CopyAToC)".into(),
        CopyAToD => "(CopyAToD)".into(),
        CopyCToB => "(CopyCToB)".into(),
        CopyDToA => "(CopyDToA)".into(),
        CopyDToB => "(CopyDToB)".into(),
        Plus => "(Plus)".into(),
        Minus => "(Minus)".into(),
        Multiply => "(Multiply)".into(),
        Divide => "(Divide)".into(),
        Modulo => "(Modulo)".into(),
        Less => "(Less)".into(),
        LessOrEqual => "(LessOrEqual)".into(),
        Equal => "(Equal)".into(),
        GreaterOrEqual => "(GreaterOrEqual)".into(),
        Greater => "(Greater)".into(),
        NotEqual => "(NotEqual)".into(),
        NegateA => "(NegateA)".into(),
        NotA => "(NotA)".into(),
        And => "(And)".into(),
        Or => "(Or)".into(),
        Label(l) => format!("(Label {})", s(&l.to_string())),
        Jump(t) => format!("(Jump {})", target(t)),
        JumpIfFalse(t) => format!("(JumpIfFalse {})", target(t)),
        GoSub(t) => format!("(GoSub {})", target(t)),
        Return(None) => "(Return)".into(),
        Return(Some(t)) => format!("(Return {})", target(t)),
        Resume => "(Resume)".into(),
        ResumeNext => "(ResumeNext)".into(),
        ResumeLabel(t) => format!("(ResumeLabel {})", target(t)),
        BuiltInSub(b) => format!("(BuiltInSub {:?})", b),
        BuiltInFunction(b) => format!("(BuiltInFunction {:?})", b),
        Halt => "(Halt)".into(),
        PushRegisters => "(PushRegisters)".into(),
        PopRegisters => "(PopRegisters)".into(),
        PushAToValueStack => "(PushAToValueStack)".into(),
        PopValueStackIntoA => "(PopValueStackIntoA)".into(),
        PushRet(a) => format!("(PushRet {})", a),
        PopRet => "(PopRet)".into(),
        BeginCollectArguments => "(BeginCollectArguments)".into(),
        PushNamed(p) => format!("(PushNamed {})", parameter(p)),
        PushNamedByRef(p) => format!("(PushNamedByRef {})", parameter(p)),
        PushUnnamedByVal => "(PushUnnamedByVal)".into(),
        PushUnnamedByRef => "(PushUnnamedByRef)".into(),
        PushStack => "(PushStack)".into(),
        PushStaticStack(sc) => format!("(PushStaticStack {})", scope(sc)),
        PopStack => "(PopStack)".into(),
        EnqueueToReturnStack(k) => format!("(EnqueueToReturnStack {})", k),
        DequeueFromReturnStack => "(DequeueFromReturnStack)".into(),
        DequeueFromReturnStackWithPath => "(DequeueFromReturnStackWithPath)".into(),
        StashFunctionReturnValue(n) => format!("(StashFunctionReturnValue {})", name(n)),
        UnStashFunctionReturnValue => "(UnStashFunctionReturnValue)".into(),
        Throw(e) => format!("(Throw {})", s(&format!("{:?}", e))),
        OnErrorGoTo(t) => format!("(OnErrorGoTo {})", target(t)),
        OnErrorResumeNext => "(OnErrorResumeNext)".into(),
        OnErrorGoToZero => "(OnErrorGoToZero)".into(),
        Cast(q) => format!("(Cast {})", qual(*q)),
        FixLength(n) => format!("(FixLength {})", n),
        AllocateBuiltIn(q) => format!("(AllocateBuiltIn {})", qual(*q)),
        AllocateFixedLengthString(n) => format!("(AllocateFixedLengthString {})", n),
        AllocateArrayIntoA(t) => format!("(AllocateArrayIntoA {})", expr_type(t)),
        AllocateUserDefined(n) => format!("(AllocateUserDefined {})", s(&n.to_string())),
        PrintSetPrinterType(p) => format!(
            "(PrintSetPrinterType {})",
            match p {
                PrinterType::Print => "print",
                PrinterType::LPrint => "lprint",
                PrinterType::File => "file",
            }
        ),
        PrintSetFileHandle(h) => format!("(PrintSetFileHandle {})", i32::from(*h)),
        PrintSetFormatStringFromA => "(PrintSetFormatStringFromA)".into(),
        PrintComma => "(PrintComma)".into(),
        PrintSemicolon => "(PrintSemicolon)".into(),
        PrintValueFromA => "(PrintValueFromA)".into(),
        PrintEnd => "(PrintEnd)".into(),
        IsVariableDefined(d) => format!("(IsVariableDefined {})", s(&format!("{:?}", d))),
    }
}

/// `(code (<instr> <row> <col>)...)`-style pieces: each instruction with its position.
pub fn program(r: &InstructionGeneratorResult) -> (String, String) {
    let code = sx::list(r.instructions.iter().map(|ip| {
        format!(
            "({} {} {})",
            instruction(&ip.element),
            ip.pos.row(),
            ip.pos.col()
        )
    }));
    let addrs = sx::ints(r.statement_addresses.iter());
    (code, addrs)
}
