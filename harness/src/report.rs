//! The report every correspondence binary writes (to the path in VERIF_REPORT, or stdout).
//! `./check` turns it into the verdict and the evidence file.

use std::collections::{BTreeMap, BTreeSet};

use crate::json::J;

/// What kind of failure a case is.
#[derive(Clone, Copy, Debug, PartialEq, Eq)]
pub enum Kind {
    /// The real code violates the property itself on this input (oracle = the property).
    ImplVsProperty,
    /// Model and implementation disagree (the tie is broken); the property may still hold.
    ModelVsImpl,
}

#[derive(Clone, Debug)]
pub struct Failure {
    pub kind: Kind,
    /// Short signature used for matching known findings (stable under shrinking).
    pub signature: String,
    /// The concrete input / history, replayable.
    pub input: String,
    pub implementation: String,
    pub expected: String,
    pub note: String,
}

pub struct Report {
    pub property: String,
    pub tier: String,
    pub seed: u64,
    pub evaluations: u64,
    distinct: BTreeSet<String>,
    pub rule: String,
    pub samples: Vec<J>,
    pub distribution: BTreeMap<String, u64>,
    pub failures: Vec<Failure>,
    pub exhaustive_parts: Vec<String>,
    pub notes: Vec<String>,
    max_failures: usize,
    pub failures_total: u64,
}

impl Report {
    pub fn new(property: &str, rule: &str) -> Self {
        Report {
            property: property.to_owned(),
            tier: std::env::var("VERIF_TIER").unwrap_or_else(|_| "quick".to_owned()),
            seed: crate::rng::Rng::from_env().seed(),
            evaluations: 0,
            distinct: BTreeSet::new(),
            rule: rule.to_owned(),
            samples: vec![],
            distribution: BTreeMap::new(),
            failures: vec![],
            exhaustive_parts: vec![],
            notes: vec![],
            max_failures: 40,
            failures_total: 0,
        }
    }

    pub fn is_thorough(&self) -> bool {
        self.tier == "thorough"
    }

    /// Counts one evaluated case. `class` identifies the case up to the rule's notion of
    /// distinctness, or `None` if the case is trivial by the rule.
    pub fn case(&mut self, class: Option<String>) {
        self.evaluations += 1;
        if let Some(c) = class {
            if self.distinct.len() < 2_000_000 {
                self.distinct.insert(c);
            }
        }
    }

    pub fn bump(&mut self, key: &str) {
        *self.distribution.entry(key.to_owned()).or_insert(0) += 1;
    }

    pub fn bump_by(&mut self, key: &str, n: u64) {
        *self.distribution.entry(key.to_owned()).or_insert(0) += n;
    }

    pub fn sample(&mut self, j: J) {
        if self.samples.len() < 12 {
            self.samples.push(j);
        }
    }

    pub fn fail(&mut self, f: Failure) {
        self.failures_total += 1;
        // keep the first few of each signature
        let same = self.failures.iter().filter(|g| g.signature == f.signature).count();
        if same < 3 && self.failures.len() < self.max_failures {
            self.failures.push(f);
        }
    }

    pub fn to_json(&self) -> J {
        J::obj([
            ("property", J::s(self.property.clone())),
            ("tier", J::s(self.tier.clone())),
            ("seed", J::Int(self.seed as i64)),
            ("evaluations", J::Int(self.evaluations as i64)),
            ("distinct_nontrivial", J::Int(self.distinct.len() as i64)),
            ("rule", J::s(self.rule.clone())),
            ("samples", J::Arr(self.samples.clone())),
            (
                "distribution",
                J::Obj(
                    self.distribution
                        .iter()
                        .map(|(k, v)| (k.clone(), J::Int(*v as i64)))
                        .collect(),
                ),
            ),
            (
                "exhaustive_parts",
                J::Arr(self.exhaustive_parts.iter().map(|s| J::s(s.clone())).collect()),
            ),
            ("notes", J::Arr(self.notes.iter().map(|s| J::s(s.clone())).collect())),
            ("failures_total", J::Int(self.failures_total as i64)),
            (
                "failures",
                J::Arr(
                    self.failures
                        .iter()
                        .map(|f| {
                            J::obj([
                                (
                                    "kind",
                                    J::s(match f.kind {
                                        Kind::ImplVsProperty => "impl-vs-property",
                                        Kind::ModelVsImpl => "model-vs-impl",
                                    }),
                                ),
                                ("signature", J::s(f.signature.clone())),
                                ("input", J::s(f.input.clone())),
                                ("implementation", J::s(f.implementation.clone())),
                                ("expected", J::s(f.expected.clone())),
                                ("note", J::s(f.note.clone())),
                            ])
                        })
                        .collect(),
                ),
            ),
        ])
    }

    /// Writes the report to VERIF_REPORT (or stdout).
    pub fn finish(&self) {
        let text = self.to_json().to_string();
        match std::env::var("VERIF_REPORT") {
            Ok(path) => std::fs::write(&path, text).expect("cannot write report"),
            Err(_) => println!("{}", text),
        }
    }
}
