//! Serialisation of the LINTED program with arrays of scalars (the exact input of `generate_instructions`) into the
//! syntax of `lean/RbModel/ArrL/Syntax.lean` (`(aprogram …)`), with the two name tables the normaliser of
//! `RbModel.ArrL.Compile` needs (scalar slots, arrays). `ast_sx.rs` extended by `DIM` / `REDIM` of arrays, element
//! reads and assignments, `LBOUND` / `UBOUND`, elements as READ targets.
//!
//! Conventions: scalar slots and arrays are numbered separately, each in order of first occurrence of the resolved
//! `(bare name, qualifier)`. Returns `None` for anything outside the modelled language: procedures, records,
//! fixed-length strings, SHARED, CONST, GOSUB / GOTO / labels, ON ERROR, built-ins other than DATA / READ / LBOUND /
//! UBOUND, whole arrays anywhere but as the first argument of LBOUND / UBOUND.

use std::collections::HashMap;

use rusty_common::Positioned;
use rusty_parser::{
    AsBareName, BuiltInFunction, BuiltInSub, CaseExpression, DimList, DimType, DoLoopConditionKind,
    DoLoopConditionPosition, Expression, ExpressionPos, ExpressionType, Expressions, GlobalStatement, Operator, PrintArg,
    Program, Statement, Statements, TypeQualifier, UnaryOperator,
};

use crate::ast_sx::{float_val, qual};
use crate::instr_sx::s;
use crate::sx;

struct Slots {
    map: HashMap<(String, &'static str), usize>,
    types: Vec<&'static str>,
}

impl Slots {
    fn new() -> Self {
        Slots { map: HashMap::new(), types: vec![] }
    }

    fn get(&mut self, bare: &str, q: TypeQualifier) -> usize {
        let t = qual(q);
        let key = (bare.to_ascii_uppercase(), t);
        if let Some(i) = self.map.get(&key) {
            return *i;
        }
        let i = self.types.len();
        self.types.push(t);
        self.map.insert(key, i);
        i
    }

    fn table(&self) -> String {
        let mut names: Vec<(usize, String)> = self.map.iter().map(|((n, t), i)| (*i, format!("({} {})", s(n), t))).collect();
        names.sort();
        sx::list(names.into_iter().map(|(_, x)| x))
    }
}

/// the scalar slots and the arrays of the program
struct Names {
    vars: Slots,
    arrs: Slots,
}

fn op(o: Operator) -> &'static str {
    match o {
        Operator::Less => "less",
        Operator::LessOrEqual => "lessOrEqual",
        Operator::Equal => "equal",
        Operator::GreaterOrEqual => "greaterOrEqual",
        Operator::Greater => "greater",
        Operator::NotEqual => "notEqual",
        Operator::Plus => "plus",
        Operator::Minus => "minus",
        Operator::Multiply => "multiply",
        Operator::Divide => "divide",
        Operator::Modulo => "modulo",
        Operator::And => "and",
        Operator::Or => "or",
    }
}

fn exprs(a: &Expressions, slots: &mut Names) -> Option<String> {
    let mut out = vec![];
    for e in a {
        out.push(expr(e, slots)?);
    }
    Some(sx::list(out))
}

fn expr(e: &ExpressionPos, slots: &mut Names) -> Option<String> {
    let Positioned { element, pos } = e;
    let (r, c) = (pos.row(), pos.col());
    Some(match element {
        Expression::IntegerLiteral(i) => format!("(lit (int {}) {} {})", i, r, c),
        Expression::LongLiteral(l) => format!("(lit (long {}) {} {})", l, r, c),
        Expression::SingleLiteral(f) => format!("(lit {} {} {})", float_val("sgl", *f as f64)?, r, c),
        Expression::DoubleLiteral(f) => format!("(lit {} {} {})", float_val("dbl", *f)?, r, c),
        Expression::StringLiteral(t) => format!("(lit (str {}) {} {})", sx::chars(t), r, c),
        Expression::Variable(name, ExpressionType::BuiltIn(q)) => {
            let x = slots.vars.get(&name.as_bare_name().to_string(), *q);
            format!("(var {} {} {} {})", x, qual(*q), r, c)
        }
        Expression::UnaryExpression(UnaryOperator::Minus, child) => format!("(neg {} {} {})", expr(child, slots)?, r, c),
        Expression::UnaryExpression(UnaryOperator::Not, child) => format!("(not {} {} {})", expr(child, slots)?, r, c),
        Expression::BinaryExpression(o, l, rr, ExpressionType::BuiltIn(q)) => {
            format!("(bin {} {} {} {} {} {})", op(*o), expr(l, slots)?, expr(rr, slots)?, qual(*q), r, c)
        }
        Expression::Parenthesis(child) => format!("(paren {} {} {})", expr(child, slots)?, r, c),
        Expression::ArrayElement(name, idx, ExpressionType::BuiltIn(q)) => {
            let a = slots.arrs.get(&name.as_bare_name().to_string(), *q);
            format!("(elem {} {} {} {} {})", a, exprs(idx, slots)?, qual(*q), r, c)
        }
        Expression::BuiltInFunctionCall(f, a) if matches!(f, BuiltInFunction::LBound | BuiltInFunction::UBound) => {
            if a.is_empty() || a.len() > 2 {
                return None;
            }
            let (an, aq) = match &a[0].element {
                Expression::Variable(name, ExpressionType::Array(inner)) => match inner.as_ref() {
                    ExpressionType::BuiltIn(q) => (slots.arrs.get(&name.as_bare_name().to_string(), *q), *q),
                    _ => return None,
                },
                _ => return None,
            };
            let d = match a.get(1) {
                Some(d) => expr(d, slots)?,
                None => "none".to_owned(),
            };
            format!(
                "(bound {} {} {} {} {} {} {} {})",
                if matches!(f, BuiltInFunction::UBound) { "t" } else { "f" },
                an,
                qual(aq),
                a[0].pos.row(),
                a[0].pos.col(),
                d,
                r,
                c
            )
        }
        _ => return None,
    })
}

fn case_expr(ce: &CaseExpression, slots: &mut Names) -> Option<String> {
    Some(match ce {
        CaseExpression::Simple(e) => format!("(simple {})", expr(e, slots)?),
        CaseExpression::Is(o, e) => format!("(is {} {})", op(*o), expr(e, slots)?),
        CaseExpression::Range(a, b) => format!("(range {} {})", expr(a, slots)?, expr(b, slots)?),
    })
}

fn sblock(stmts: &Statements, slots: &mut Names) -> Option<String> {
    let mut out = vec![];
    for st in stmts {
        sstmt(st, slots, &mut out)?;
    }
    Some(sx::list(out))
}

fn lit_val(e: &Expression) -> Option<String> {
    Some(match e {
        Expression::IntegerLiteral(i) => format!("(int {})", i),
        Expression::LongLiteral(l) => format!("(long {})", l),
        Expression::SingleLiteral(f) => float_val("sgl", *f as f64)?,
        Expression::DoubleLiteral(f) => float_val("dbl", *f)?,
        Expression::StringLiteral(t) => format!("(str {})", sx::chars(t)),
        _ => return None,
    })
}

fn sstmt(st: &Positioned<Statement>, slots: &mut Names, out: &mut Vec<String>) -> Option<()> {
    let Positioned { element, pos } = st;
    let (r, c) = (pos.row(), pos.col());
    match element {
        Statement::Comment(_) => out.push("comment".to_owned()),
        Statement::Dim(dim_list) | Statement::Redim(dim_list) => dim_list_sx(dim_list, slots, out)?,
        Statement::Assignment(a) => match a.lvalue() {
            Expression::Variable(name, ExpressionType::BuiltIn(q)) => {
                let x = slots.vars.get(&name.as_bare_name().to_string(), *q);
                out.push(format!("(assign {} {} {} {} {})", x, qual(*q), expr(a.rvalue(), slots)?, r, c));
            }
            Expression::ArrayElement(name, idx, ExpressionType::BuiltIn(q)) => {
                let an = slots.arrs.get(&name.as_bare_name().to_string(), *q);
                out.push(format!("(assignel {} {} {} {} {} {})", an, qual(*q), exprs(idx, slots)?, expr(a.rvalue(), slots)?, r, c));
            }
            _ => return None,
        },
        Statement::Print(p) => {
            if p.file_number.is_some() || p.lpt1 || p.format_string.is_some() {
                return None;
            }
            let mut items = vec![];
            for a in &p.args {
                items.push(match a {
                    PrintArg::Comma => "comma".to_owned(),
                    PrintArg::Semicolon => "semi".to_owned(),
                    PrintArg::Expression(e) => format!("(e {})", expr(e, slots)?),
                });
            }
            out.push(format!("(print {} {} {})", sx::list(items), r, c));
        }
        Statement::BuiltInSubCall(b) => match b.built_in_sub() {
            BuiltInSub::Data => {
                let mut items = vec![];
                for a in b.args() {
                    items.push(format!("({} {} {})", lit_val(&a.element)?, a.pos.row(), a.pos.col()));
                }
                out.push(format!("(data {} {} {})", sx::list(items), r, c));
            }
            BuiltInSub::Read => {
                let mut vars = vec![];
                for a in b.args() {
                    match &a.element {
                        Expression::Variable(name, ExpressionType::BuiltIn(q)) => {
                            let x = slots.vars.get(&name.as_bare_name().to_string(), *q);
                            vars.push(format!("(v {} {} {} {})", x, qual(*q), a.pos.row(), a.pos.col()));
                        }
                        Expression::ArrayElement(name, idx, ExpressionType::BuiltIn(q)) => {
                            let an = slots.arrs.get(&name.as_bare_name().to_string(), *q);
                            vars.push(format!("(el {} {} {} {} {})", an, qual(*q), exprs(idx, slots)?, a.pos.row(), a.pos.col()));
                        }
                        _ => return None,
                    }
                }
                out.push(format!("(read {} {} {})", sx::list(vars), r, c));
            }
            _ => return None,
        },
        Statement::IfBlock(i) => {
            let thn = sblock(&i.if_block.statements, slots)?;
            let cond = expr(&i.if_block.condition, slots)?;
            let mut elifs = vec![];
            for eb in &i.else_if_blocks {
                elifs.push(format!("({} {})", expr(&eb.condition, slots)?, sblock(&eb.statements, slots)?));
            }
            let els = match &i.else_block {
                Some(e) => sblock(e, slots)?,
                None => "none".to_owned(),
            };
            out.push(format!("(if {} {} {} {} {} {})", cond, thn, sx::list(elifs), els, r, c));
        }
        Statement::SelectCase(sc) => {
            let subject = expr(&sc.expr, slots)?;
            let mut cases = vec![];
            for cb in &sc.case_blocks {
                let mut conds = vec![];
                for ce in cb.conditions() {
                    conds.push(case_expr(ce, slots)?);
                }
                cases.push(format!("({} {})", sx::list(conds), sblock(cb.statements(), slots)?));
            }
            let els = match &sc.else_block {
                Some(e) => sblock(e, slots)?,
                None => "none".to_owned(),
            };
            out.push(format!("(select {} {} {} {} {})", subject, sx::list(cases), els, r, c));
        }
        Statement::ForLoop(f) => {
            let (x, q) = match &f.variable_name.element {
                Expression::Variable(name, ExpressionType::BuiltIn(q)) => (slots.vars.get(&name.as_bare_name().to_string(), *q), *q),
                _ => return None,
            };
            let lo = expr(&f.lower_bound, slots)?;
            let hi = expr(&f.upper_bound, slots)?;
            let step = match &f.step {
                Some(st) => expr(st, slots)?,
                None => "none".to_owned(),
            };
            out.push(format!("(for {} {} {} {} {} {} {} {})", x, qual(q), lo, hi, step, sblock(&f.statements, slots)?, r, c));
        }
        Statement::While(w) => {
            out.push(format!("(while {} {} {} {})", expr(&w.condition, slots)?, sblock(&w.statements, slots)?, r, c));
        }
        Statement::DoLoop(d) => {
            out.push(format!(
                "(do {} {} {} {} {} {})",
                expr(&d.condition, slots)?,
                if d.position == DoLoopConditionPosition::Top { "t" } else { "f" },
                if d.kind == DoLoopConditionKind::Until { "t" } else { "f" },
                sblock(&d.statements, slots)?,
                r,
                c
            ));
        }
        Statement::End | Statement::System => out.push(format!("(end {} {})", r, c)),
        _ => return None,
    }
    Some(())
}

fn dim_list_sx(dim_list: &DimList, slots: &mut Names, out: &mut Vec<String>) -> Option<()> {
    if dim_list.shared {
        return None;
    }
    for v in &dim_list.variables {
        match v.element.var_type() {
            DimType::BuiltIn(q, _) => {
                let x = slots.vars.get(&v.element.as_bare_name().to_string(), *q);
                out.push(format!("(dim {} {} {} {})", x, qual(*q), v.pos.row(), v.pos.col()));
            }
            DimType::Array(dims, elem) => {
                let q = match elem.as_ref() {
                    DimType::BuiltIn(q, _) => *q,
                    _ => return None,
                };
                let mut ds = vec![];
                for d in dims {
                    let lo = match &d.lbound {
                        Some(e) => expr(e, slots)?,
                        None => "none".to_owned(),
                    };
                    ds.push(format!("({} {})", lo, expr(&d.ubound, slots)?));
                }
                let a = slots.arrs.get(&v.element.as_bare_name().to_string(), q);
                out.push(format!("(dimarr {} {} {} {} {})", a, qual(q), sx::list(ds), v.pos.row(), v.pos.col()));
            }
            _ => return None,
        }
    }
    Some(())
}

pub struct ArrProgram {
    /// `(aprogram (<slot ty>…) (<array element ty>…) (<stmt>…))`
    pub program: String,
    /// `(<scalar table> <array table>)`, a table = `((<name> <ty>)…)` in slot order
    pub tables: String,
    pub n_arrays: usize,
}

/// The linted program in the syntax of `RbModel.ArrL.Syntax`, or None if outside it.
pub fn program(p: &Program) -> Option<ArrProgram> {
    let mut names = Names { vars: Slots::new(), arrs: Slots::new() };
    let mut main = vec![];
    for gs in p {
        match &gs.element {
            GlobalStatement::Statement(st) => {
                let sp = Positioned { element: st.clone(), pos: gs.pos };
                sstmt(&sp, &mut names, &mut main)?;
            }
            GlobalStatement::DefType(_) => {}
            _ => return None,
        }
    }
    Some(ArrProgram {
        program: format!("(aprogram {} {} {})", sx::list(names.vars.types.iter()), sx::list(names.arrs.types.iter()), sx::list(main)),
        tables: format!("({} {})", names.vars.table(), names.arrs.table()),
        n_arrays: names.arrs.types.len(),
    })
}

/// parse + lint + serialise + the real instruction list: `(program, code)`; None = rejected or outside
pub fn src_and_code(text: &str) -> Option<(ArrProgram, String)> {
    let t = text.to_owned();
    std::panic::catch_unwind(move || {
        let p = rusty_parser::parse_main_str(t).ok()?;
        let (linted, ctx) = rusty_linter::core::lint(p).ok()?;
        let pp = program(&linted)?;
        let (names, _udt) = rusty_basic::instruction_generator::unwrap_linter_context(ctx);
        let res = rusty_basic::instruction_generator::generate_instructions(linted, names);
        let (code, _addrs) = crate::instr_sx::program(&res);
        Some((pp, code))
    })
    .ok()
    .flatten()
}
