//! Row/column helpers shared by the C07 and C11 binaries: an independent Rust reference for the
//! human row/column of every character of a text, line spans, text generators over {a, CR, LF},
//! and the comparison of the real `create_row_col_view` / `StringView::position` with that
//! reference (property) and with the Lean model `RbModel.RowCol` (driver).

use crate::driver::ask;
use crate::report::{Failure, Kind, Report};
use crate::rng::Rng;
use crate::sx;

/// Human row/column of every character plus the end position "as the code defines it"
/// (one column past the last character; (1,1) for the empty text).
///
/// Written by counting, not by scanning with state: a *line break ends at* index `i` when `chars[i]`
/// is LF, or is a CR that is not followed by LF.  The row of character `i` is one more than the number
/// of line breaks ending before `i`; its column is its distance from the end of the last such break,
/// except that the LF of a CR LF pair sits on the CR's column.
pub fn human_positions(chars: &[char]) -> (Vec<(u32, u32)>, (u32, u32)) {
    let n = chars.len();
    let break_ends_at = |i: usize| chars[i] == '\n' || (chars[i] == '\r' && !(i + 1 < n && chars[i + 1] == '\n'));
    let mut out = Vec::with_capacity(n);
    let mut breaks_before = 0u32; // number of j < i with break_ends_at(j)
    let mut line_start = 0usize; // index after the last break ending before i
    for i in 0..n {
        let mut col = (i - line_start) as u32 + 1;
        if chars[i] == '\n' && i > 0 && chars[i - 1] == '\r' {
            col -= 1;
        }
        out.push((breaks_before + 1, col));
        if break_ends_at(i) {
            breaks_before += 1;
            line_start = i + 1;
        }
    }
    let eof = match out.last() {
        None => (1, 1),
        Some(&(r, c)) => (r, c + 1),
    };
    (out, eof)
}

/// Lines of a text as `[start, end)` character offsets, terminators excluded; a text always has a last
/// (possibly empty) unterminated line.
pub fn line_spans(chars: &[char]) -> Vec<(usize, usize)> {
    let n = chars.len();
    let mut spans = vec![];
    let mut start = 0;
    let mut i = 0;
    while i < n {
        if chars[i] == '\n' {
            spans.push((start, i));
            start = i + 1;
        } else if chars[i] == '\r' {
            spans.push((start, i));
            if i + 1 < n && chars[i + 1] == '\n' {
                i += 1;
            }
            start = i + 1;
        }
        i += 1;
    }
    spans.push((start, n));
    spans
}

/// Rust mirror of `RbModel.RowCol.inBounds` (cross-checked against the driver by the callers).
pub fn in_bounds(chars: &[char], row: u32, col: u32) -> bool {
    let spans = line_spans(chars);
    let len_of = |r: u32| (spans[r as usize - 1].1 - spans[r as usize - 1].0) as u32;
    let strict = row >= 1 && (row as usize) <= spans.len() && col >= 1 && col <= len_of(row) + 1;
    let last = spans[spans.len() - 1];
    let after_terminator =
        last.0 == last.1 && spans.len() >= 2 && row as usize == spans.len() - 1 && col == len_of(row) + 2;
    strict || after_terminator
}

pub fn texts_up_to(alphabet: &[char], max_len: usize) -> Vec<String> {
    let mut all = vec![String::new()];
    let mut frontier = vec![String::new()];
    for _ in 0..max_len {
        let mut next = vec![];
        for t in &frontier {
            for &c in alphabet {
                let mut u = t.clone();
                u.push(c);
                next.push(u);
            }
        }
        all.extend(next.iter().cloned());
        frontier = next;
    }
    all
}

pub fn random_text(rng: &mut Rng, max_len: usize) -> String {
    let len = rng.below(max_len as u64 + 1) as usize;
    let style = rng.below(4);
    let mut s = String::new();
    for _ in 0..len {
        let k = rng.below(100);
        let c = match style {
            // dense line breaks
            0 => *rng.pick(&['a', '\r', '\n']),
            // mostly text
            1 => {
                if k < 4 {
                    '\r'
                } else if k < 8 {
                    '\n'
                } else if k < 12 {
                    ' '
                } else if k < 14 {
                    'é'
                } else if k < 15 {
                    '\u{1F600}'
                } else {
                    (b'a' + rng.below(26) as u8) as char
                }
            }
            // CRLF files with stray CR / LF
            2 => {
                if k < 6 {
                    s.push('\r');
                    '\n'
                } else if k < 7 {
                    '\r'
                } else if k < 8 {
                    '\n'
                } else {
                    (b'A' + rng.below(26) as u8) as char
                }
            }
            // any scalar value
            _ => char::from_u32(rng.below(0x11_0000) as u32).unwrap_or('\n'),
        };
        s.push(c);
    }
    s
}

fn pairs(v: &[(u32, u32)]) -> String {
    sx::list(v.iter().map(|(r, c)| format!("({} {})", r, c)))
}

/// Compares, for each text: the real table and the real `StringView::position()` at every index
/// (including the end) with the Rust reference (ImplVsProperty) and with the Lean model (ModelVsImpl);
/// the model's `human` reference and `inBounds` are cross-checked on the way.
pub fn compare_tables(rep: &mut Report, texts: &[String], tag: &str) {
    use rusty_parser::verif::{StringView, create_row_col_view};
    use rusty_pc::InputTrait;
    let mut reqs = vec![];
    for t in texts {
        let cps = sx::chars(t);
        reqs.push(format!("(rowcol.tableAsCoded {})", cps));
        reqs.push(format!("(rowcol.table {})", cps));
        reqs.push(format!("(rowcol.eof {})", cps));
    }
    let answers = ask(&reqs);
    let mut reqs2 = vec![];
    let mut reqs2_meta = vec![];
    for (k, t) in texts.iter().enumerate() {
        let chars: Vec<char> = t.chars().collect();
        rep.case(if chars.is_empty() { None } else { Some(format!("{}:{}", tag, t)) });
        rep.bump(&format!("rowcol.{}", tag));
        let (want, want_eof) = human_positions(&chars);
        let real = std::panic::catch_unwind(|| {
            let table: Vec<(u32, u32)> = create_row_col_view(&chars).iter().map(|p| (p.row(), p.col())).collect();
            let mut view = StringView::from(t.as_str());
            let mut via_view = vec![];
            for i in 0..=chars.len() {
                view.set_position(i);
                let p = view.position();
                via_view.push((p.row(), p.col()));
            }
            (table, via_view)
        });
        let (table, via_view) = match real {
            Ok(x) => x,
            Err(_) => {
                rep.fail(Failure {
                    kind: Kind::ImplVsProperty,
                    signature: "rowcol:panic".into(),
                    input: format!("{:?}", t),
                    implementation: "panic".into(),
                    expected: pairs(&want),
                    note: "create_row_col_view / StringView::position panicked".into(),
                });
                continue;
            }
        };
        let mut want_view = want.clone();
        want_view.push(want_eof);
        if table != want || via_view != want_view {
            rep.fail(Failure {
                kind: Kind::ImplVsProperty,
                signature: "rowcol:not-human".into(),
                input: format!("{:?}", t),
                implementation: format!("table {} positions {}", pairs(&table), pairs(&via_view)),
                expected: format!("table {} eof ({} {})", pairs(&want), want_eof.0, want_eof.1),
                note: "row/col of every character (and of the end) must be the human row/col under LF, CRLF, CR".into(),
            });
        }
        let impl_table = pairs(&table);
        for (j, what) in [(0, "createRowColView"), (1, "tableFrom")] {
            if answers[3 * k + j] != impl_table {
                rep.fail(Failure {
                    kind: Kind::ModelVsImpl,
                    signature: format!("model:{}", what),
                    input: reqs[3 * k + j].clone(),
                    implementation: impl_table.clone(),
                    expected: answers[3 * k + j].clone(),
                    note: "RbModel.RowCol table vs create_row_col_view".into(),
                });
            }
        }
        let impl_eof = format!("({} {})", via_view[chars.len()].0, via_view[chars.len()].1);
        if answers[3 * k + 2] != impl_eof {
            rep.fail(Failure {
                kind: Kind::ModelVsImpl,
                signature: "model:eofRowCol".into(),
                input: reqs[3 * k + 2].clone(),
                implementation: impl_eof,
                expected: answers[3 * k + 2].clone(),
                note: "RbModel.RowCol.eofRowCol vs StringView::position at the end".into(),
            });
        }
        // model-internal cross-checks at a few indices: human reference, inBounds, Rust mirror of inBounds
        let cps = sx::chars(t);
        let mut idxs = vec![0usize, chars.len() / 2, chars.len().saturating_sub(1), chars.len()];
        idxs.dedup();
        for i in idxs {
            let (r, c) = via_view[i];
            reqs2.push(format!("(rowcol.inBounds {} {} {})", cps, r, c));
            reqs2_meta.push((k, i, 0, in_bounds(&chars, r, c)));
            reqs2.push(format!("(rowcol.inBounds {} {} {})", cps, r, c + 2));
            reqs2_meta.push((k, i, 1, in_bounds(&chars, r, c + 2)));
            if i < chars.len() {
                reqs2.push(format!("(rowcol.human {} {})", cps, i));
                reqs2_meta.push((k, i, 2, true));
            }
        }
    }
    let answers2 = ask(&reqs2);
    for (q, (k, i, what, mirror)) in reqs2_meta.iter().enumerate() {
        let t = &texts[*k];
        let chars: Vec<char> = t.chars().collect();
        let (want, _) = human_positions(&chars);
        let ok = match what {
            0 => answers2[q] == "t" && *mirror,
            1 => answers2[q] == if *mirror { "t" } else { "f" },
            _ => answers2[q] == format!("({} {})", want[*i].0, want[*i].1),
        };
        if !ok {
            rep.fail(Failure {
                kind: Kind::ModelVsImpl,
                signature: format!("model:{}", ["inBounds(position)", "inBounds-mirror", "humanRowCol"][*what as usize]),
                input: reqs2[q].clone(),
                implementation: format!("rust mirror {}", mirror),
                expected: answers2[q].clone(),
                note: "position must be in bounds; Rust mirrors of inBounds / humanRowCol must agree with the Lean model".into(),
            });
        }
    }
}
