import RbModel.Sexp
import RbModel.Bits
open RbModel

/-- One request line in, one answer line out. Unknown or malformed requests answer `(bad-op)`:
nothing is defaulted. -/
def handle (line : String) : String :=
  match Sexp.parse line with
  | some (Sexp.list (Sexp.atom cmd :: args)) =>
    match cmd, args with
    | "bits.ofInt", [a] => match a.int? with
        | some a => toString (Sexp.list ((Bits.ofInt a).map Sexp.ofBool))
        | none => "(bad-op)"
    | "bits.and", [a, b] => match a.int?, b.int? with
        | some a, some b => toString (Bits.qbAnd a b)
        | _, _ => "(bad-op)"
    | "bits.or", [a, b] => match a.int?, b.int? with
        | some a, some b => toString (Bits.qbOr a b)
        | _, _ => "(bad-op)"
    | "bits.not", [a] => match a.int? with
        | some a => toString (Bits.unaryNot a)
        | none => "(bad-op)"
    | "bits.toBytes", [a] => match a.int? with
        | some a => toString (Sexp.ofNats (Bits.i32ToBytes a))
        | none => "(bad-op)"
    | "bits.fromBytes", [a] => match a.nats? with
        | some [lo, hi] => toString (Bits.bytesToI32 [lo, hi])
        | _ => "(bad-op)"
    | _, _ => "(bad-op)"
  | _ => "(bad-op)"

partial def loop (h : IO.FS.Stream) (out : IO.FS.Stream) : IO Unit := do
  let line ← h.getLine
  if line.isEmpty then return ()
  out.putStrLn (handle line)
  loop h out

def main : IO Unit := do
  let stdin ← IO.getStdin
  let stdout ← IO.getStdout
  loop stdin stdout
