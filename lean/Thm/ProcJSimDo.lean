import Thm.ProcJSimBase
import Thm.ProcJShape
import Thm.ProcJDepths
/-!
Layer "procedures ∪ jumps", simulation part — the four forms of DO (`DO WHILE c … LOOP`, `DO UNTIL c … LOOP`,
`DO … LOOP WHILE c`, `DO … LOOP UNTIL c`).

Port of `Thm/JmpLSimDo.lean` (entry forms `run` / `seek L`: a top-test loop entered at a label of its body makes no test, a
bottom-test loop tests after the body as usual; a jump out of the body leaves the loop — nothing to pop —, a jump to a label
of the body re-enters the loop in seek mode one unit of fuel down) with the expression steps of `Thm/ProcSimDo.lean` (the
condition threads the state; `cond_correct'`).  `exited`, `ret`, END and errors of the body are the loop's (same depths, so
`StmtPost.of_steps` passes them on).  As in `ProcSimDo`, the moves are stated once as lemmas about `PjDo.Reach`.

The case "the body jumped to one of its own labels" is not excluded here (that needs `ProcJRef`): it is *handled* (the
label is at the body's depths — `LabAt.depth_ge` —, so the jump arrives with the stacks of the entry state and the loop is
re-entered in seek mode, as the reference semantics says).
-/
namespace RbThm.ProcJSim
set_option linter.unusedVariables false
set_option linter.unusedSimpArgs false
open RbModel RbModel.ProcJ RbModel.ProcJ.Compile RbModel.ProcJ.Vm
open RbModel.Num hiding Expr
open RbModel.Ast (Pos)
open RbModel.Proc (Var SlotTabs Expr Args PrintItem CaseExpr ProcDecl zeroOf Sigs sigsOf)
open RbModel.Proc.Compile (Layout Layout.addr sizeExpr sizePush refCount sizeExprTo sizeSubCall sizeItems sizeCaseExpr sizeConds
  sizeExit labelName stepSuffix maxPos)
open RbModel.Proc.Vm (Regs Regs.new Frame CtxState getVar setVar curVars modCur curStatic applyArgs readVars binInstr)
open RbModel.ProcJ.Ref (Outcome Mode Act)
open RbThm.ProcJLen
open RbThm.ProcSim (Scope EWf)

namespace PjDo

/-! ### the moves -/

/-- a fragment followed by one more instruction -/
theorem codeAt_snoc {code : Code} {off : Nat} {frag : Code} {x : CInstr × Pos}
    (h1 : CodeAt code off frag) (h2 : code[off + frag.length]? = some x) : CodeAt code off (frag ++ [x]) := by
  intro i hi
  simp only [List.length_append, List.length_singleton] at hi
  by_cases h3 : i < frag.length
  · rw [List.getElem?_append_left h3]; exact h1 i h3
  · have hi' : i = frag.length := by omega
    subst hi'
    rw [List.getElem?_append_right (Nat.le_refl _), h2]
    simp

/-- the run from `σ` reaches a state that satisfies `Q` and represents `s`, with the stacks as they were -/
def ReachP (W : World) (sc : Scope) (below : List CtxState) (σ : Vm) (s : St) (Q : Vm → Prop) : Prop :=
  ∃ τ, Steps W.code σ τ ∧ Q τ ∧ Rel W sc [] below s τ ∧ SameStacks σ τ

/-- the run from `σ` reaches address `pc` in a state that represents `s`, with the stacks as they were -/
def Reach (W : World) (sc : Scope) (below : List CtxState) (σ : Vm) (s : St) (pc : Nat) : Prop :=
  ReachP W sc below σ s (fun τ => τ.pc = pc)

theorem ReachP.start {W : World} {sc : Scope} {below : List CtxState} {σ : Vm} {s : St} {Q : Vm → Prop}
    (hq : Q σ) (hr : Rel W sc [] below s σ) : ReachP W sc below σ s Q :=
  ⟨σ, Steps.refl σ, hq, hr, SameStacks.refl σ⟩

theorem Reach.start {W : World} {sc : Scope} {below : List CtxState} {σ : Vm} {s : St} (hr : Rel W sc [] below s σ) :
    Reach W sc below σ s σ.pc :=
  ReachP.start rfl hr

/-- reaching the first instruction of a statement is entering it in run mode -/
theorem Reach.entry {W : World} {sc : Scope} {below : List CtxState} {σ : Vm} {s : St} {a : Nat} (stmt : SStmt)
    (h : Reach W sc below σ s a) : ReachP W sc below σ s (Entry W.env a stmt .run) := h

theorem Reach.label {W : World} {sc : Scope} {below : List CtxState} {σ : Vm} {s : St} {a : Nat} {l : String} {p : Pos}
    (h : Reach W sc below σ s a) (hl : W.code[a]? = some (CInstr.label l, p)) : Reach W sc below σ s (a + 1) := by
  obtain ⟨τ, st, hp, hr, hss⟩ := h
  have hp : τ.pc = a := hp
  subst hp
  have s1 : Vm.step W.code τ = .next (Vm.advance τ) := by simp only [Vm.step, hl]
  exact ⟨Vm.advance τ, st.trans (Steps.one s1), rfl, hr.advance, hss.trans ⟨rfl, rfl, rfl, rfl, rfl, rfl, rfl, id⟩⟩

theorem Reach.jump {W : World} {sc : Scope} {below : List CtxState} {σ : Vm} {s : St} {a t : Nat} {p : Pos}
    (h : Reach W sc below σ s a) (hl : W.code[a]? = some (CInstr.jump t, p)) : Reach W sc below σ s t := by
  obtain ⟨τ, st, hp, hr, hss⟩ := h
  have hp : τ.pc = a := hp
  subst hp
  have s1 : Vm.step W.code τ = .next { τ with pc := t } := by simp only [Vm.step, hl]
  exact ⟨{ τ with pc := t }, st.trans (Steps.one s1), rfl, hr.setPc t, hss.trans ⟨rfl, rfl, rfl, rfl, rfl, rfl, rfl, id⟩⟩

/-- an outcome other than `normal` does not mention the statement's end address -/
theorem abnormal {W : World} {sc : Scope} {below : List CtxState} {fd sd fin fin' : Nat} {σ : Vm}
    {s' : St} {o : Outcome} (ho : o ≠ .normal) (h : StmtPost W sc below fd sd fin σ (s', o)) :
    StmtPost W sc below fd sd fin' σ (s', o) := by
  cases o with
  | normal => exact absurd rfl ho
  | exited => exact h
  | halted => exact h
  | jump L => exact h
  | ret q => exact h
  | error c p => exact h
  | inexact => trivial
  | outOfFuel => trivial
  | illFormed => trivial
  | notHere => trivial

/-- `<cond>; JumpIfFalse t` from a reached address: an evaluation that ends the run ends the statement (whatever the
statement), truth falls through, falsity lands on `t` -/
theorem Reach.cond {W : World} {sc : Scope} {below : List CtxState} {σ : Vm} {s : St} {a f : Nat}
    (h : Reach W sc below σ s a) (ih : IHle W f) (c : Expr) (t : Nat) (p : Pos)
    (hc : CodeAt W.code a (compileExpr W.lay a c ++ [(CInstr.jumpIfFalse t, p)]))
    (hw : EWf W.sg sc.slots c) (hn : c.ty ≠ .str) (s1 : St) (rv : Except Outcome Bool)
    (he : ProcJ.Ref.evalCond W.P f c s = (s1, rv)) :
    (∀ o, rv = .error o → ∀ (fd sd fin : Nat), StmtPost W sc below fd sd fin σ (s1, o)) ∧
    (rv = .ok true → Reach W sc below σ s1 (a + sizeExpr c + 1)) ∧
    (rv = .ok false → Reach W sc below σ s1 t) := by
  obtain ⟨τ, st, hp, hr, hss⟩ := h
  have hp : τ.pc = a := hp
  have hcond := cond_correct' W f ih sc c t p a [] below s τ hc hp hr hw hn
  rw [he] at hcond
  refine ⟨?_, ?_, ?_⟩
  · intro o ho fd sd fin
    subst ho
    exact StmtPost.of_err (ErrPost.of_steps st hcond)
  · intro ho
    subst ho
    obtain ⟨υ, st2, hp2, hrel2, hss2⟩ := hcond
    exact ⟨υ, st.trans st2, hp2, hrel2, hss.trans hss2⟩
  · intro ho
    subst ho
    obtain ⟨υ, st2, hp2, hrel2, hss2⟩ := hcond
    exact ⟨υ, st.trans st2, hp2, hrel2, hss.trans hss2⟩

/-- a sub-statement *at the depths of the statement* entered (either way) from a reached state: ending normally it reaches the
address after it; jumping to one of its own labels it reaches that label with the stacks as they were; any outcome other than
`normal` is the outcome of the whole statement -/
theorem ReachP.stmt {W : World} {B : BodyCtx} (hB : B.Ok W) {below : List CtxState} {σ : Vm} {s : St} {a f fd sd : Nat}
    {m : Mode} {body : SStmt} (h : ReachP W B.sc below σ s (Entry W.env a body m)) (ih : StmtIH W f) (sfx : String)
    (hc : CodeAt W.code a (compileStmt W.lay W.env sfx fd sd a body)) (hl : LabAt W.env fd sd a body)
    (hw : Wf W.sg B.sc W.env.dp B.body.labels fd sd body) (ha : ActInv B.sc fd sd σ)
    (s' : St) (o : Outcome) (he : ProcJ.Ref.exec W.P f B.act (desugar body) m s = (s', o)) :
    (o = .normal → Reach W B.sc below σ s' (a + sizeStmt W.env.dp fd sd body)) ∧
    (∀ L, o = .jump L → L ∈ body.labels → Reach W B.sc below σ s' (W.env.addr L)) ∧
    (o ≠ .normal → ∀ fin : Nat, StmtPost W B.sc below fd sd fin σ (s', o)) := by
  obtain ⟨τ, st, hen, hr, hss⟩ := h
  have hb := ih B body sfx fd sd a m below s τ hB hc hl hw hen hr (ha.of_same hss)
  rw [he] at hb
  refine ⟨?_, ?_, ?_⟩
  · intro ho
    subst ho
    obtain ⟨υ, st2, hp2, hrel2, hss2⟩ := hb
    exact ⟨υ, st.trans st2, hp2, hrel2, hss.trans hss2⟩
  · intro L ho hL
    subst ho
    obtain ⟨υ, st2, hp2, hrel2, h1, h2, h3, h4, h5, h6, h7, h8⟩ := hb
    obtain ⟨g1, g2⟩ := hl.depth_ge hL
    have hd : fd - W.env.dp.fd L = 0 := by omega
    have hs : sd - W.env.dp.sd L = 0 := by omega
    rw [hd, List.drop_zero] at h1
    rw [hs, List.drop_zero] at h2
    exact ⟨υ, st.trans st2, hp2, hrel2, hss.trans ⟨h2, h3, h1, h5, h6, h4, h7, h8⟩⟩
  · intro ho fin
    exact abnormal ho (StmtPost.of_steps st hss hb)

/-- reaching the end address is ending normally -/
theorem Reach.finish {W : World} {sc : Scope} {below : List CtxState} {σ : Vm} {s' : St} {fd sd fin : Nat}
    (h : Reach W sc below σ s' fin) : StmtPost W sc below fd sd fin σ (s', .normal) := h

/-- reaching a state from which the rest is known -/
theorem ReachP.again {W : World} {sc : Scope} {below : List CtxState} {σ : Vm} {s' : St} {fd sd fin : Nat} {Q : Vm → Prop}
    {r : St × Outcome} (h : ReachP W sc below σ s' Q)
    (hl : ∀ τ : Vm, Q τ → Rel W sc [] below s' τ → SameStacks σ τ → StmtPost W sc below fd sd fin τ r) :
    StmtPost W sc below fd sd fin σ r := by
  obtain ⟨τ, st, hp, hr, hss⟩ := h
  exact StmtPost.of_steps st hss (hl τ hp hr hss)

/-- reaching the `Label` instruction of a label of a statement is entering the statement in seek mode -/
theorem Reach.seek {W : World} {sc : Scope} {below : List CtxState} {σ : Vm} {s' : St} {L a : Nat} {stmt : SStmt}
    (h : Reach W sc below σ s' (W.env.addr L)) (hL : L ∈ stmt.labels) :
    ReachP W sc below σ s' (Entry W.env a stmt (.seek L)) := by
  obtain ⟨τ, st, hp, hr, hss⟩ := h
  exact ⟨τ, st, ⟨hL, hp⟩, hr, hss⟩

theorem hasLabel_doLoop (c : Expr) (top u : Bool) (b : Stmt) (p : Pos) (L : Nat) :
    (Stmt.doLoop c top u b p).hasLabel L = b.hasLabel L := by
  simp only [Stmt.hasLabel, Stmt.labels]

/-- the body of a DO loop (at `bodyOff`, entered either way from a reached state), then `K` after a normal end; a jump to a
label of the body re-enters the loop in seek mode, every other outcome is the loop's -/
theorem body_phase {W : World} {B : BodyCtx} (hB : B.Ok W) {fuel : Nat} (ih : StmtIH W fuel) {c : Expr} {top u : Bool}
    {body : SStmt} {p : Pos} {sfx : String} {fd sd off bodyOff : Nat} {below : List CtxState} {σ : Vm}
    (hcb : CodeAt W.code bodyOff (compileStmt W.lay W.env sfx fd sd bodyOff body)) (hlb : LabAt W.env fd sd bodyOff body)
    (hwb : Wf W.sg B.sc W.env.dp B.body.labels fd sd body) (hinv : ActInv B.sc fd sd σ)
    (hloop : ∀ (m' : Mode) (s' : St) (τ : Vm), Entry W.env off (.doLoop c top u body p) m' τ → Rel W B.sc [] below s' τ →
      SameStacks σ τ → StmtPost W B.sc below fd sd (off + sizeStmt W.env.dp fd sd (.doLoop c top u body p)) τ
        (ProcJ.Ref.exec W.P fuel B.act (Stmt.doLoop c top u (desugar body) p) m' s'))
    (m : Mode) (s1 : St) (h : ReachP W B.sc below σ s1 (Entry W.env bodyOff body m))
    (K : St → St × Outcome)
    (hK : ∀ s2, Reach W B.sc below σ s2 (bodyOff + sizeStmt W.env.dp fd sd body) →
      StmtPost W B.sc below fd sd (off + sizeStmt W.env.dp fd sd (.doLoop c top u body p)) σ (K s2)) :
    StmtPost W B.sc below fd sd (off + sizeStmt W.env.dp fd sd (.doLoop c top u body p)) σ
      (match (generalizing := false) ProcJ.Ref.exec W.P fuel B.act (desugar body) m s1 with
       | (s', .normal) => K s'
       | (s', .jump L) =>
         if (desugar body).hasLabel L = true then
           ProcJ.Ref.exec W.P fuel B.act (Stmt.doLoop c top u (desugar body) p) (.seek L) s'
         else (s', .jump L)
       | r => r) := by
  generalize hrb : ProcJ.Ref.exec W.P fuel B.act (desugar body) m s1 = rb
  obtain ⟨s2, o1⟩ := rb
  obtain ⟨hn, hj, hab⟩ := h.stmt hB ih sfx hcb hlb hwb hinv s2 o1 hrb
  cases o1 with
  | normal => exact hK s2 (hn rfl)
  | jump L =>
    simp only
    by_cases hL : (desugar body).hasLabel L = true
    · simp only [hL, if_true]
      have hLb : L ∈ body.labels := (hasLabel_iff hwb L).mp hL
      have hLl : L ∈ (SStmt.doLoop c top u body p).labels := by simpa only [SStmt.labels] using hLb
      exact ((hj L rfl hLb).seek (a := off) hLl).again (fun τ hq hr' hss => hloop (.seek L) s2 τ hq hr' hss)
    · simp only [hL]
      exact hab (by simp) _
  | exited => exact hab (by simp) _
  | halted => exact hab (by simp) _
  | ret q => exact hab (by simp) _
  | error cd q => exact hab (by simp) _
  | inexact => exact hab (by simp) _
  | outOfFuel => exact hab (by simp) _
  | illFormed => exact hab (by simp) _
  | notHere => exact hab (by simp) _

end PjDo

open PjDo

/-! ### test at the top -/

theorem case_do_top (W : World) (B : BodyCtx) (hB : B.Ok W) (fuel : Nat) (ih : IHle W fuel) (c : Expr) (u : Bool)
    (body : SStmt) (p : Pos) (sfx : String) (fd sd off : Nat) (m : Mode) (below : List CtxState) (s : St) (σ : Vm)
    (hc : CodeAt W.code off (compileStmt W.lay W.env sfx fd sd off (.doLoop c true u body p)))
    (hl : LabAt W.env fd sd off (.doLoop c true u body p))
    (hw : Wf W.sg B.sc W.env.dp B.body.labels fd sd (.doLoop c true u body p))
    (hen : Entry W.env off (.doLoop c true u body p) m σ) (hr : Rel W B.sc [] below s σ) (hinv : ActInv B.sc fd sd σ) :
    StmtPost W B.sc below fd sd (off + sizeStmt W.env.dp fd sd (.doLoop c true u body p)) σ
      (ProcJ.Ref.exec W.P (fuel + 1) B.act (desugar (.doLoop c true u body p)) m s) := by
  have hw0 := hw
  simp only [Wf] at hw
  obtain ⟨hwc, hnc, hwb⟩ := hw
  have hlb := hl.doTop
  have hent : m.enters (Stmt.doLoop c true u (desugar body) p) = true := by
    cases m with
    | run => rfl
    | seek L =>
      have := (hasLabel_iff hw0 L).mpr hen.1
      simpa only [desugar, Mode.enters] using this
  -- going round the loop again, or re-entering it at a label
  have hloop : ∀ (m' : Mode) (s' : St) (τ : Vm), Entry W.env off (.doLoop c true u body p) m' τ → Rel W B.sc [] below s' τ →
      SameStacks σ τ → StmtPost W B.sc below fd sd (off + sizeStmt W.env.dp fd sd (.doLoop c true u body p)) τ
        (ProcJ.Ref.exec W.P fuel B.act (Stmt.doLoop c true u (desugar body) p) m' s') := by
    intro m' s' τ hen' hr' hss
    have := ih.self.stmt B (.doLoop c true u body p) sfx fd sd off m' below s' τ hB hc hl hw0 hen' hr' (hinv.of_same hss)
    simpa only [desugar] using this
  simp only [desugar, ProcJ.Ref.exec, hent, if_true]
  cases u with
  | false =>
    -- DO WHILE c: label; cond; jif loop; body; jump off; label loop
    simp only [compileStmt, if_true, Bool.false_eq_true, if_false] at hc hlb
    have hlab : W.code[off]? = some (CInstr.label (labelName "do" p sfx), p) :=
      hc.append_left.append_left.append_left.append_left.head
    have hcc : CodeAt W.code (off + 1) (compileExpr W.lay (off + 1) c ++
        [(CInstr.jumpIfFalse (off + 1 + sizeExpr c + 1 + sizeStmt W.env.dp fd sd body + 1), p)]) := by
      have := hc.append_left.append_left
      rw [List.append_assoc] at this
      exact this.append_right
    have hcb : CodeAt W.code (off + 1 + sizeExpr c + 1)
        (compileStmt W.lay W.env sfx fd sd (off + 1 + sizeExpr c + 1) body) := by
      have := hc.append_left.append_right
      simp only [List.length_append, List.length_singleton, len_expr] at this
      exact this.at (by omega)
    have hjmp : W.code[off + 1 + sizeExpr c + 1 + sizeStmt W.env.dp fd sd body]? = some (CInstr.jump off, p) := by
      have := hc.append_right.head
      simp only [List.length_append, List.length_singleton, len_expr, len_stmt] at this
      rw [← this]; congr 1; omega
    have hend : W.code[off + 1 + sizeExpr c + 1 + sizeStmt W.env.dp fd sd body + 1]? =
        some (CInstr.label (labelName "loop" p sfx), p) := by
      have := hc.append_right.tail.head
      simp only [List.length_append, List.length_singleton, len_expr, len_stmt] at this
      rw [← this]; congr 1; omega
    have hphase := fun s1 h => body_phase hB ih.self.stmt (c := c) (top := true) (u := false) (p := p) (off := off)
      hcb hlb hwb hinv hloop m s1 h
      (fun s' => ProcJ.Ref.exec W.P fuel B.act (Stmt.doLoop c true false (desugar body) p) .run s')
      (fun s2 hre => ((hre.jump hjmp).entry _).again (fun τ hq hr' hss => hloop .run s2 τ hq hr' hss))
    cases m with
    | seek L =>
      have hLb : L ∈ body.labels := by simpa only [SStmt.labels] using hen.1
      simp only [Bool.not_false, Bool.bne_false, if_true]
      exact hphase s (ReachP.start ⟨hLb, hen.2⟩ hr)
    | run =>
      have hpc : σ.pc = off := hen
      have h0 : Reach W B.sc below σ s off := by rw [← hpc]; exact Reach.start hr
      simp only
      generalize hec : ProcJ.Ref.evalCond W.P fuel c s = rc
      obtain ⟨s1, rv⟩ := rc
      obtain ⟨cerr, ctrue, cfalse⟩ := (h0.label hlab).cond ih c _ p hcc hwc hnc s1 rv hec
      cases rv with
      | error o => exact cerr o rfl _ _ _
      | ok bv =>
        cases bv with
        | false =>
          simp only [Bool.bne_false, Bool.false_eq_true, if_false]
          have := (cfalse rfl).label hend
          refine Reach.finish ?_
          have e : off + sizeStmt W.env.dp fd sd (.doLoop c true false body p) =
              off + 1 + sizeExpr c + 1 + sizeStmt W.env.dp fd sd body + 1 + 1 := by
            simp only [sizeStmt, if_true, Bool.false_eq_true, if_false]; omega
          rw [e]; exact this
        | true =>
          simp only [Bool.bne_false, if_true]
          exact hphase s1 ((ctrue rfl).entry _)
  | true =>
    -- DO UNTIL c: label; cond; jif do-body; jump loop; label do-body; body; jump off; label loop
    simp only [compileStmt, if_true] at hc hlb
    have hlab : W.code[off]? = some (CInstr.label (labelName "do" p sfx), p) :=
      hc.append_left.append_left.append_left.append_left.head
    have hj0 : W.code[off + 1 + sizeExpr c]? = some (CInstr.jumpIfFalse (off + 1 + sizeExpr c + 3 - 1), p) := by
      have := hc.append_left.append_left.append_right.head
      simp only [List.length_append, List.length_singleton, len_expr] at this
      rw [← this]; congr 1; omega
    have hcc : CodeAt W.code (off + 1) (compileExpr W.lay (off + 1) c ++
        [(CInstr.jumpIfFalse (off + 1 + sizeExpr c + 3 - 1), p)]) := by
      have := hc.append_left.append_left.append_left.append_right
      simp only [List.length_singleton] at this
      exact codeAt_snoc this (by rw [len_expr]; exact hj0)
    have hj1 : W.code[off + 1 + sizeExpr c + 1]? =
        some (CInstr.jump (off + 1 + sizeExpr c + 3 + sizeStmt W.env.dp fd sd body + 1), p) := by
      have := hc.append_left.append_left.append_right.tail.head
      simp only [List.length_append, List.length_singleton, len_expr] at this
      rw [← this]; congr 1; omega
    have hl2 : W.code[off + 1 + sizeExpr c + 3 - 1]? = some (CInstr.label (labelName "do-body" p sfx), p) := by
      have := hc.append_left.append_left.append_right.tail.tail.head
      simp only [List.length_append, List.length_singleton, len_expr] at this
      rw [← this]; congr 1; omega
    have hcb : CodeAt W.code (off + 1 + sizeExpr c + 3)
        (compileStmt W.lay W.env sfx fd sd (off + 1 + sizeExpr c + 3) body) := by
      have := hc.append_left.append_right
      simp only [List.length_append, List.length_singleton, List.length_cons, List.length_nil, len_expr] at this
      exact this.at (by omega)
    have hjmp : W.code[off + 1 + sizeExpr c + 3 + sizeStmt W.env.dp fd sd body]? = some (CInstr.jump off, p) := by
      have := hc.append_right.head
      simp only [List.length_append, List.length_singleton, List.length_cons, List.length_nil, len_expr,
        len_stmt] at this
      rw [← this]; congr 1; omega
    have hend : W.code[off + 1 + sizeExpr c + 3 + sizeStmt W.env.dp fd sd body + 1]? =
        some (CInstr.label (labelName "loop" p sfx), p) := by
      have := hc.append_right.tail.head
      simp only [List.length_append, List.length_singleton, List.length_cons, List.length_nil, len_expr,
        len_stmt] at this
      rw [← this]; congr 1; omega
    have hphase := fun s1 h => body_phase hB ih.self.stmt (c := c) (top := true) (u := true) (p := p) (off := off)
      hcb hlb hwb hinv hloop m s1 h
      (fun s' => ProcJ.Ref.exec W.P fuel B.act (Stmt.doLoop c true true (desugar body) p) .run s')
      (fun s2 hre => ((hre.jump hjmp).entry _).again (fun τ hq hr' hss => hloop .run s2 τ hq hr' hss))
    cases m with
    | seek L =>
      have hLb : L ∈ body.labels := by simpa only [SStmt.labels] using hen.1
      simp only [Bool.not_true, Bool.bne_true, Bool.not_false, if_true]
      exact hphase s (ReachP.start ⟨hLb, hen.2⟩ hr)
    | run =>
      have hpc : σ.pc = off := hen
      have h0 : Reach W B.sc below σ s off := by rw [← hpc]; exact Reach.start hr
      simp only
      generalize hec : ProcJ.Ref.evalCond W.P fuel c s = rc
      obtain ⟨s1, rv⟩ := rc
      obtain ⟨cerr, ctrue, cfalse⟩ := (h0.label hlab).cond ih c _ p hcc hwc hnc s1 rv hec
      cases rv with
      | error o => exact cerr o rfl _ _ _
      | ok bv =>
        cases bv with
        | true =>
          simp only [bne_self_eq_false, Bool.false_eq_true, if_false]
          have := ((ctrue rfl).jump hj1).label hend
          refine Reach.finish ?_
          have e : off + sizeStmt W.env.dp fd sd (.doLoop c true true body p) =
              off + 1 + sizeExpr c + 3 + sizeStmt W.env.dp fd sd body + 1 + 1 := by
            simp only [sizeStmt, if_true]; omega
          rw [e]; exact this
        | false =>
          simp only [Bool.bne_true, Bool.not_false, if_true]
          have hre0 := (cfalse rfl).label hl2
          have e0 : off + 1 + sizeExpr c + 3 - 1 + 1 = off + 1 + sizeExpr c + 3 := by omega
          rw [e0] at hre0
          exact hphase s1 (hre0.entry _)

/-! ### test at the bottom -/

theorem case_do_bottom (W : World) (B : BodyCtx) (hB : B.Ok W) (fuel : Nat) (ih : IHle W fuel) (c : Expr) (u : Bool)
    (body : SStmt) (p : Pos) (sfx : String) (fd sd off : Nat) (m : Mode) (below : List CtxState) (s : St) (σ : Vm)
    (hc : CodeAt W.code off (compileStmt W.lay W.env sfx fd sd off (.doLoop c false u body p)))
    (hl : LabAt W.env fd sd off (.doLoop c false u body p))
    (hw : Wf W.sg B.sc W.env.dp B.body.labels fd sd (.doLoop c false u body p))
    (hen : Entry W.env off (.doLoop c false u body p) m σ) (hr : Rel W B.sc [] below s σ) (hinv : ActInv B.sc fd sd σ) :
    StmtPost W B.sc below fd sd (off + sizeStmt W.env.dp fd sd (.doLoop c false u body p)) σ
      (ProcJ.Ref.exec W.P (fuel + 1) B.act (desugar (.doLoop c false u body p)) m s) := by
  have hw0 := hw
  simp only [Wf] at hw
  obtain ⟨hwc, hnc, hwb⟩ := hw
  have hlb := hl.doBottom
  have hent : m.enters (Stmt.doLoop c false u (desugar body) p) = true := by
    cases m with
    | run => rfl
    | seek L =>
      have := (hasLabel_iff hw0 L).mpr hen.1
      simpa only [desugar, Mode.enters] using this
  have hloop : ∀ (m' : Mode) (s' : St) (τ : Vm), Entry W.env off (.doLoop c false u body p) m' τ → Rel W B.sc [] below s' τ →
      SameStacks σ τ → StmtPost W B.sc below fd sd (off + sizeStmt W.env.dp fd sd (.doLoop c false u body p)) τ
        (ProcJ.Ref.exec W.P fuel B.act (Stmt.doLoop c false u (desugar body) p) m' s') := by
    intro m' s' τ hen' hr' hss
    have := ih.self.stmt B (.doLoop c false u body p) sfx fd sd off m' below s' τ hB hc hl hw0 hen' hr' (hinv.of_same hss)
    simpa only [desugar] using this
  have hcb : CodeAt W.code (off + 1) (compileStmt W.lay W.env sfx fd sd (off + 1) body) := by
    cases u <;> simp only [compileStmt, if_true, Bool.false_eq_true, if_false] at hc
    · exact hc.append_left.append_left.append_left.append_right
    · exact hc.append_left.append_left.append_left.append_right
  have hlab : W.code[off]? = some (CInstr.label (labelName "do" p sfx), p) := by
    cases u <;> simp only [compileStmt, if_true, Bool.false_eq_true, if_false] at hc
    · exact hc.append_left.append_left.append_left.append_left.head
    · exact hc.append_left.append_left.append_left.append_left.head
  have hce : CodeAt W.code (off + 1 + sizeStmt W.env.dp fd sd body)
      (compileExpr W.lay (off + 1 + sizeStmt W.env.dp fd sd body) c) := by
    cases u <;> simp only [compileStmt, if_true, Bool.false_eq_true, if_false] at hc
    · have := hc.append_left.append_left.append_right
      simp only [List.length_append, List.length_singleton, len_stmt] at this
      exact this.at (by omega)
    · have := hc.append_left.append_left.append_right
      simp only [List.length_append, List.length_singleton, len_stmt] at this
      exact this.at (by omega)
  -- what follows a normal end of the body: the test, then round the loop or out
  have hafter : ∀ s1, Reach W B.sc below σ s1 (off + 1 + sizeStmt W.env.dp fd sd body) →
      StmtPost W B.sc below fd sd (off + sizeStmt W.env.dp fd sd (.doLoop c false u body p)) σ
        (match (generalizing := false) ProcJ.Ref.evalCond W.P fuel c s1 with
         | (s2, .error o) => (s2, o)
         | (s2, .ok b) =>
           if (b != u) = true then ProcJ.Ref.exec W.P fuel B.act (Stmt.doLoop c false u (desugar body) p) .run s2
           else (s2, .normal)) := by
    intro s1 hre
    generalize hec : ProcJ.Ref.evalCond W.P fuel c s1 = rc
    obtain ⟨s2, rv⟩ := rc
    cases u with
    | false =>
      -- … jif loop; jump off; label loop
      simp only [compileStmt, if_true, Bool.false_eq_true, if_false] at hc
      have hj0 : W.code[off + 1 + sizeStmt W.env.dp fd sd body + sizeExpr c]? =
          some (CInstr.jumpIfFalse (off + 1 + sizeStmt W.env.dp fd sd body + sizeExpr c + 2), p) := by
        have := hc.append_left.append_right.head
        simp only [List.length_append, List.length_singleton, len_expr, len_stmt] at this
        rw [← this]; congr 1; omega
      have hjmp : W.code[off + 1 + sizeStmt W.env.dp fd sd body + sizeExpr c + 1]? = some (CInstr.jump off, p) := by
        have := hc.append_left.append_right.tail.head
        simp only [List.length_append, List.length_singleton, len_expr, len_stmt] at this
        rw [← this]; congr 1; omega
      have hend : W.code[off + 1 + sizeStmt W.env.dp fd sd body + sizeExpr c + 2]? =
          some (CInstr.label (labelName "loop" p sfx), p) := by
        have := hc.append_right.head
        simp only [List.length_append, List.length_singleton, List.length_cons, List.length_nil, len_expr,
          len_stmt] at this
        rw [← this]; congr 1; omega
      obtain ⟨cerr, ctrue, cfalse⟩ :=
        hre.cond ih c _ p (codeAt_snoc hce (by rw [len_expr]; exact hj0)) hwc hnc s2 rv hec
      cases rv with
      | error o => exact cerr o rfl _ _ _
      | ok bv =>
        cases bv with
        | false =>
          simp only [Bool.bne_false, Bool.false_eq_true, if_false]
          have := (cfalse rfl).label hend
          refine Reach.finish ?_
          have e : off + sizeStmt W.env.dp fd sd (.doLoop c false false body p) =
              off + 1 + sizeStmt W.env.dp fd sd body + sizeExpr c + 2 + 1 := by
            simp only [sizeStmt, if_true, Bool.false_eq_true, if_false]; omega
          rw [e]; exact this
        | true =>
          simp only [Bool.bne_false, if_true]
          exact (((ctrue rfl).jump hjmp).entry _).again (fun τ hq hr' hss => hloop .run s2 τ hq hr' hss)
    | true =>
      -- … jif off; label loop
      simp only [compileStmt, if_true, Bool.false_eq_true, if_false] at hc
      have hj0 : W.code[off + 1 + sizeStmt W.env.dp fd sd body + sizeExpr c]? = some (CInstr.jumpIfFalse off, p) := by
        have := hc.append_left.append_right.head
        simp only [List.length_append, List.length_singleton, len_expr, len_stmt] at this
        rw [← this]; congr 1; omega
      have hend : W.code[off + 1 + sizeStmt W.env.dp fd sd body + sizeExpr c + 1]? =
          some (CInstr.label (labelName "loop" p sfx), p) := by
        have := hc.append_right.head
        simp only [List.length_append, List.length_singleton, List.length_cons, List.length_nil, len_expr,
          len_stmt] at this
        rw [← this]; congr 1; omega
      obtain ⟨cerr, ctrue, cfalse⟩ :=
        hre.cond ih c _ p (codeAt_snoc hce (by rw [len_expr]; exact hj0)) hwc hnc s2 rv hec
      cases rv with
      | error o => exact cerr o rfl _ _ _
      | ok bv =>
        cases bv with
        | true =>
          simp only [bne_self_eq_false, Bool.false_eq_true, if_false]
          have := (ctrue rfl).label hend
          refine Reach.finish ?_
          have e : off + sizeStmt W.env.dp fd sd (.doLoop c false true body p) =
              off + 1 + sizeStmt W.env.dp fd sd body + sizeExpr c + 1 + 1 := by
            simp only [sizeStmt, if_true, Bool.false_eq_true, if_false]; omega
          rw [e]; exact this
        | false =>
          simp only [Bool.bne_true, Bool.not_false, if_true]
          exact ((cfalse rfl).entry _).again (fun τ hq hr' hss => hloop .run s2 τ hq hr' hss)
  have hphase := fun h => body_phase hB ih.self.stmt (c := c) (top := false) (u := u) (p := p) (off := off)
    hcb hlb hwb hinv hloop m s h
    (fun s' => match (generalizing := false) ProcJ.Ref.evalCond W.P fuel c s' with
      | (s2, .error o) => (s2, o)
      | (s2, .ok b) =>
        if (b != u) = true then ProcJ.Ref.exec W.P fuel B.act (Stmt.doLoop c false u (desugar body) p) .run s2
        else (s2, .normal))
    hafter
  simp only [desugar, ProcJ.Ref.exec, hent, if_true, Bool.false_eq_true, if_false]
  cases m with
  | seek L =>
    have hLb : L ∈ body.labels := by simpa only [SStmt.labels] using hen.1
    exact hphase (ReachP.start ⟨hLb, hen.2⟩ hr)
  | run =>
    have hpc : σ.pc = off := hen
    have h0 : Reach W B.sc below σ s off := by rw [← hpc]; exact Reach.start hr
    exact hphase ((h0.label hlab).entry _)

/-- **DO … LOOP** in its four forms -/
theorem case_do (W : World) (B : BodyCtx) (hB : B.Ok W) (fuel : Nat) (ih : IHle W fuel) (c : Expr) (top u : Bool)
    (body : SStmt) (p : Pos) (sfx : String) (fd sd off : Nat) (m : Mode) (below : List CtxState) (s : St) (σ : Vm)
    (hc : CodeAt W.code off (compileStmt W.lay W.env sfx fd sd off (.doLoop c top u body p)))
    (hl : LabAt W.env fd sd off (.doLoop c top u body p))
    (hw : Wf W.sg B.sc W.env.dp B.body.labels fd sd (.doLoop c top u body p))
    (hen : Entry W.env off (.doLoop c top u body p) m σ) (hr : Rel W B.sc [] below s σ) (hinv : ActInv B.sc fd sd σ) :
    StmtPost W B.sc below fd sd (off + sizeStmt W.env.dp fd sd (.doLoop c top u body p)) σ
      (ProcJ.Ref.exec W.P (fuel + 1) B.act (desugar (.doLoop c top u body p)) m s) := by
  cases top with
  | true => exact case_do_top W B hB fuel ih c u body p sfx fd sd off m below s σ hc hl hw hen hr hinv
  | false => exact case_do_bottom W B hB fuel ih c u body p sfx fd sd off m below s σ hc hl hw hen hr hinv

end RbThm.ProcJSim
