import Thm.C01Cond
/-!
C01 — whole-program families for a condition that is not a comparison: WHILE, DO WHILE, the bottom-tested DO forms
and ELSEIF.

`Thm.C01Cond` proves what a bare condition means (`truthy_iff_nonzero`, `jumpIfFalse_step`, one unfolding of
IF / WHILE / DO over `Ref`) and two whole-program families for all values (`vm_if_bare_condition`,
`vm_do_until_nonzero`).  This file adds the families it lists as not proved, for every numeric type `t`, every
right-hand side `rhs` the checker types, and every value `v` the assignment `V = rhs` stores:

* `vm_while_zero`, `vm_while_once` — `WHILE V … WEND`: the body never runs for the zero of `t`; it runs exactly once
  when `v` is not zero and the body sets `V = 0` (the INTEGER literal `0` is converted to `t` by the assignment, and
  the second test sees the zero of `t`);
* `vm_elseif_bare_condition` — `IF 0 THEN … ELSEIF V THEN … ELSE …`;
* `vm_loop_until_nonzero`, `vm_loop_while_zero` — `DO … LOOP UNTIL V` / `DO … LOOP WHILE V`: the body runs once;
* `vm_do_while_zero`, `vm_do_while_once` — `DO WHILE V … LOOP`.

In every family the reference side (`Ref.run`) is proved symbolically in `v` (`xProg_ref`), the program is shown to
be accepted by the checker (`xProg_wf`), and the statement about the VM model running the generated code follows by
`vmPrints_of_ref` (that is, by the simulation theorem `C01_core_correct_checked`); nothing is evaluated on the VM.
Each family has evaluated instances beside it (`V! = 0.25`, `V& = 100000`, `V# = 0`, `V! = 0!`) showing that the
hypotheses are satisfiable; the same programs print the same lines on the real interpreter.

Not proved here: loops that run more than one round (a condition that becomes zero after `n` rounds, `n` symbolic), and
`DO UNTIL` / `LOOP UNTIL` / `LOOP WHILE` families whose body runs a second time.
-/
namespace RbThm.C01Cond2
open RbModel RbModel.Num RbModel.Ast RbModel.Src RbModel.Core RbModel.CoreVm RbModel.Ref RbModel.CoreWf
open RbThm.C01Sim RbThm.C01Cond

/- one simp set evaluates the reference run of every family below; each family uses only part of it -/
set_option linter.unusedSimpArgs false
set_option linter.unusedVariables false

/-! ### helpers -/

theorem refPrintsB_complete (r : St × Outcome) (o : List Char) (h : RefPrints r o) : refPrintsB r o = true := by
  obtain ⟨s', oc⟩ := r
  obtain ⟨h1, h2⟩ := h
  simp only [refPrintsB, Bool.and_eq_true, decide_eq_true_eq]
  refine ⟨?_, h2⟩
  cases oc <;> simp_all

/-- the zero of a numeric type is numeric, and is a zero -/
theorem numeric_zeroOf (t : Ty) (ht : t ≠ .str) : Numeric (Ref.zeroOf t) := by
  cases t <;> simp [Ref.zeroOf, Numeric] at ht ⊢

theorem isZero_zeroOf (t : Ty) : IsZero (Ref.zeroOf t) := by
  cases t <;> simp [IsZero, Ref.zeroOf, Val.tag]

/-- `V = 0` (the literal is an INTEGER): the assignment converts it to the zero of the variable's type -/
theorem evalTo_lit_zero (env : List Val) (t : Ty) (ht : t ≠ .str) (p : Pos) :
    Ref.evalTo env (.lit (.int 0) p) t = .ok (Ref.zeroOf t) := by
  cases t
  · rfl
  · rfl
  · have h : storeCast .int .sgl (.int 0) = .ok (.sgl 0) := by decide +kernel
    simp only [Ref.evalTo, Ref.eval, ERes.bind, Ast.Expr.ty, Val.tag, h]; rfl
  · have h : storeCast .int .dbl (.int 0) = .ok (.dbl 0) := by decide +kernel
    simp only [Ref.evalTo, Ref.eval, ERes.bind, Ast.Expr.ty, Val.tag, h]; rfl
  · exact (ht rfl).elim

/-- the bare variable of slot 0 as a condition -/
theorem evalCond_cons (v : Val) (rest : List Val) (t : Ty) (p : Pos) (hn : Numeric v) :
    Ref.evalCond (v :: rest) (Ast.Expr.var 0 t p) = .ok (decide (¬ IsZero v)) :=
  evalCond_bare _ _ v (by simp [Ref.eval]) hn

/-- a literal of the variable's own type is stored unchanged -/
theorem evalTo_lit_self (env : List Val) (v : Val) (p : Pos) : Ref.evalTo env (.lit v p) v.tag = .ok v := by
  simp [Ref.evalTo, Ref.eval, ERes.bind, storeCast, Ast.Expr.ty, Ref.lift]

/-- the INTEGER literal `0` as a condition is false -/
theorem evalCond_lit_zero (env : List Val) (p : Pos) : Ref.evalCond env (.lit (.int 0) p) = .ok false := rfl

theorem bne_tt : (true != true) = false := rfl
theorem bne_ff : (false != false) = false := rfl
theorem bne_tf : (true != false) = true := rfl
theorem bne_ft : (false != true) = true := rfl

/-- `PRINT "<s>"` -/
def printS (s : List Char) (p q : Pos) : SStmt := .print [.expr (litS s q)] p

/-! ### 1. WHILE, zero: the body never runs -/

/-- `V = rhs : WHILE V : PRINT "w" : WEND : PRINT "end"` -/
def whileZeroProg (t : Ty) (rhs : Ast.Expr) : SProgram :=
  { slots := [t],
    body :=
      .seq (.assign 0 t rhs ⟨1, 1⟩)
      (.seq (.while (.var 0 t ⟨2, 7⟩)
              (.seq (printS ['w'] ⟨3, 3⟩ ⟨3, 9⟩) .skip) ⟨2, 1⟩)
      (.seq (printS ['e', 'n', 'd'] ⟨6, 1⟩ ⟨6, 7⟩) .skip)) }

theorem whileZeroProg_wf (t : Ty) (rhs : Ast.Expr) (ht : t ≠ .str) (hs : slotsB 1 rhs = true)
    (hw : exprWtB [t] rhs = true) :
    wfTopB (whileZeroProg t rhs).slots (whileZeroProg t rhs).body = true := by
  simp [whileZeroProg, printS, wfTopB, wfB, wfElifsB, condB, slotsB, exprWtB, itemsB, isSkipB, Ast.Expr.ty, hs, hw,
    ht, litS]

theorem whileZeroProg_ref (t : Ty) (rhs : Ast.Expr) (v : Val) (ht : t ≠ .str)
    (hev : Ref.evalTo [Ref.zeroOf t] rhs t = .ok v) (hn : Numeric v) (hz : IsZero v) :
    refPrintsB (Ref.run 10 (whileZeroProg t rhs).toAst) ['e', 'n', 'd', '\r', '\n'] = true := by
  apply refPrintsB_complete
  simp only [Ref.run, whileZeroProg, printS, SProgram.toAst, desugar, desugarElifs, dataOf, List.map]
  rw [show (10 : Nat) = 7 + 1 + 1 + 1 from rfl]
  simp only [Ref.exec, hev, St.set, List.set, printItems, Ref.eval, litS, printValue, endsInSeparator,
    evalCond_cons v [] t _ hn, evalCond_cons (Ref.zeroOf t) [] t _ (numeric_zeroOf t ht), evalCond_lit_zero, hz,
    isZero_zeroOf, not_true_eq_false, not_false_eq_true, decide_true, decide_false, evalTo_lit_zero _ t ht,
    Bool.false_eq_true, if_false, if_true, bne_tt, bne_ff, bne_tf, bne_ft]
  exact ⟨trivial, rfl⟩

/-- **`vm_while_zero`** — `V = rhs : WHILE V : PRINT "w" : WEND : PRINT "end"`: when the value the assignment stores in
`V` is the zero of its type, the generated code never runs the body -/
theorem vm_while_zero (t : Ty) (rhs : Ast.Expr) (v : Val) (ht : t ≠ .str)
    (hs : slotsB 1 rhs = true) (hw : exprWtB [t] rhs = true)
    (hev : Ref.evalTo [Ref.zeroOf t] rhs t = .ok v) (hn : Numeric v) (hz : IsZero v) :
    VmPrints (whileZeroProg t rhs) ['e', 'n', 'd', '\r', '\n'] :=
  vmPrints_of_ref _ 10 _ (whileZeroProg_wf t rhs ht hs hw) (whileZeroProg_ref t rhs v ht hev hn hz)

/-- `V# = 0` (the INTEGER literal is converted to the DOUBLE zero by the assignment) -/
example : VmPrints (whileZeroProg .dbl (.lit (.int 0) ⟨1, 6⟩)) ['e', 'n', 'd', '\r', '\n'] :=
  vm_while_zero .dbl _ (.dbl 0) (by decide) rfl rfl (evalTo_lit_zero _ .dbl (by decide) _) trivial (by decide)
/-- `V! = 0!` -/
example : VmPrints (whileZeroProg .sgl (.lit (.sgl 0) ⟨1, 6⟩)) ['e', 'n', 'd', '\r', '\n'] :=
  vm_while_zero .sgl _ (.sgl 0) (by decide) rfl rfl (evalTo_lit_self _ (.sgl 0) _) trivial (by decide)

/-! ### 2. WHILE, non-zero, the body sets `V = 0`: exactly one round -/

/-- `V = rhs : WHILE V : PRINT "w" : V = 0 : WEND : PRINT "end"` -/
def whileOnceProg (t : Ty) (rhs : Ast.Expr) : SProgram :=
  { slots := [t],
    body :=
      .seq (.assign 0 t rhs ⟨1, 1⟩)
      (.seq (.while (.var 0 t ⟨2, 7⟩)
              (.seq (printS ['w'] ⟨3, 3⟩ ⟨3, 9⟩)
                (.seq (.assign 0 t (.lit (.int 0) ⟨4, 7⟩) ⟨4, 3⟩) .skip)) ⟨2, 1⟩)
      (.seq (printS ['e', 'n', 'd'] ⟨6, 1⟩ ⟨6, 7⟩) .skip)) }

theorem whileOnceProg_wf (t : Ty) (rhs : Ast.Expr) (ht : t ≠ .str) (hs : slotsB 1 rhs = true)
    (hw : exprWtB [t] rhs = true) :
    wfTopB (whileOnceProg t rhs).slots (whileOnceProg t rhs).body = true := by
  simp [whileOnceProg, printS, wfTopB, wfB, wfElifsB, condB, slotsB, exprWtB, itemsB, isSkipB, Ast.Expr.ty, hs, hw,
    ht, litS]

theorem whileOnceProg_ref (t : Ty) (rhs : Ast.Expr) (v : Val) (ht : t ≠ .str)
    (hev : Ref.evalTo [Ref.zeroOf t] rhs t = .ok v) (hn : Numeric v) (hz : ¬ IsZero v) :
    refPrintsB (Ref.run 10 (whileOnceProg t rhs).toAst) ['w', '\r', '\n', 'e', 'n', 'd', '\r', '\n'] = true := by
  apply refPrintsB_complete
  simp only [Ref.run, whileOnceProg, printS, SProgram.toAst, desugar, desugarElifs, dataOf, List.map]
  rw [show (10 : Nat) = 4 + 1 + 1 + 1 + 1 + 1 + 1 from rfl]
  simp only [Ref.exec, hev, St.set, List.set, printItems, Ref.eval, litS, printValue, endsInSeparator,
    evalCond_cons v [] t _ hn, evalCond_cons (Ref.zeroOf t) [] t _ (numeric_zeroOf t ht), evalCond_lit_zero, hz,
    isZero_zeroOf, not_true_eq_false, not_false_eq_true, decide_true, decide_false, evalTo_lit_zero _ t ht,
    Bool.false_eq_true, if_false, if_true, bne_tt, bne_ff, bne_tf, bne_ft]
  exact ⟨trivial, rfl⟩

/-- **`vm_while_once`** — `V = rhs : WHILE V : PRINT "w" : V = 0 : WEND : PRINT "end"`: when the value stored in `V` is
not the zero of its type the body runs exactly once: `V = 0` stores the zero of `t` (the INTEGER literal is converted
by the assignment) and the second test is false -/
theorem vm_while_once (t : Ty) (rhs : Ast.Expr) (v : Val) (ht : t ≠ .str)
    (hs : slotsB 1 rhs = true) (hw : exprWtB [t] rhs = true)
    (hev : Ref.evalTo [Ref.zeroOf t] rhs t = .ok v) (hn : Numeric v) (hz : ¬ IsZero v) :
    VmPrints (whileOnceProg t rhs) ['w', '\r', '\n', 'e', 'n', 'd', '\r', '\n'] :=
  vmPrints_of_ref _ 10 _ (whileOnceProg_wf t rhs ht hs hw) (whileOnceProg_ref t rhs v ht hev hn hz)

/-- `V! = 0.25`: true, not rounded to the INTEGER 0 -/
example : VmPrints (whileOnceProg .sgl (.lit (.sgl (1 / 4)) ⟨1, 6⟩)) ['w', '\r', '\n', 'e', 'n', 'd', '\r', '\n'] :=
  vm_while_once .sgl _ (.sgl (1 / 4)) (by decide) rfl rfl (evalTo_lit_self _ (.sgl (1 / 4)) _)
    trivial (by decide +kernel)
/-- `V& = 100000`: true, no Overflow from a conversion to INTEGER -/
example : VmPrints (whileOnceProg .long (.lit (.long 100000) ⟨1, 6⟩)) ['w', '\r', '\n', 'e', 'n', 'd', '\r', '\n'] :=
  vm_while_once .long _ (.long 100000) (by decide) rfl rfl (evalTo_lit_self _ (.long 100000) _) trivial (by decide)

/-! ### 5. ELSEIF -/

/-- `V = rhs : IF 0 THEN PRINT "a" ELSEIF V THEN PRINT "t" ELSE PRINT "f" END IF` -/
def elseifProg (t : Ty) (rhs : Ast.Expr) : SProgram :=
  { slots := [t],
    body :=
      .seq (.assign 0 t rhs ⟨1, 1⟩)
      (.seq (.ifBlock (.lit (.int 0) ⟨2, 4⟩)
              (.seq (printS ['a'] ⟨3, 3⟩ ⟨3, 9⟩) .skip)
              (.cons (.var 0 t ⟨4, 8⟩) (.seq (printS ['t'] ⟨5, 3⟩ ⟨5, 9⟩) .skip) .nil) true
              (.seq (printS ['f'] ⟨7, 3⟩ ⟨7, 9⟩) .skip) ⟨2, 1⟩)
        .skip) }

theorem elseifProg_wf (t : Ty) (rhs : Ast.Expr) (ht : t ≠ .str) (hs : slotsB 1 rhs = true)
    (hw : exprWtB [t] rhs = true) :
    wfTopB (elseifProg t rhs).slots (elseifProg t rhs).body = true := by
  simp [elseifProg, printS, wfTopB, wfB, wfElifsB, condB, slotsB, exprWtB, itemsB, isSkipB, Ast.Expr.ty,
    Val.tag, hs, hw,
    ht, litS]

theorem elseifProg_ref (t : Ty) (rhs : Ast.Expr) (v : Val) (ht : t ≠ .str)
    (hev : Ref.evalTo [Ref.zeroOf t] rhs t = .ok v) (hn : Numeric v) :
    refPrintsB (Ref.run 10 (elseifProg t rhs).toAst) (if IsZero v then ['f', '\r', '\n'] else ['t', '\r', '\n']) =
      true := by
  apply refPrintsB_complete
  simp only [Ref.run, elseifProg, printS, SProgram.toAst, desugar, desugarElifs, dataOf, List.map]
  rw [show (10 : Nat) = 5 + 1 + 1 + 1 + 1 + 1 from rfl]
  by_cases hz : IsZero v
  · simp only [Ref.exec, hev, St.set, List.set, printItems, Ref.eval, litS, printValue, endsInSeparator,
      evalCond_cons v [] t _ hn, evalCond_cons (Ref.zeroOf t) [] t _ (numeric_zeroOf t ht), evalCond_lit_zero, hz,
      isZero_zeroOf, not_true_eq_false, not_false_eq_true, decide_true, decide_false, evalTo_lit_zero _ t ht,
      Bool.false_eq_true, if_false, if_true, bne_tt, bne_ff, bne_tf, bne_ft]
    exact ⟨trivial, rfl⟩
  · simp only [Ref.exec, hev, St.set, List.set, printItems, Ref.eval, litS, printValue, endsInSeparator,
      evalCond_cons v [] t _ hn, evalCond_cons (Ref.zeroOf t) [] t _ (numeric_zeroOf t ht), evalCond_lit_zero, hz,
      isZero_zeroOf, not_true_eq_false, not_false_eq_true, decide_true, decide_false, evalTo_lit_zero _ t ht,
      Bool.false_eq_true, if_false, if_true, bne_tt, bne_ff, bne_tf, bne_ft]
    exact ⟨trivial, rfl⟩

/-- **`vm_elseif_bare_condition`** — `V = rhs : IF 0 THEN PRINT "a" ELSEIF V THEN PRINT "t" ELSE PRINT "f" END IF`:
the ELSEIF condition is a bare variable; the generated code prints `t` if the value stored in `V` is not the zero of
its type and `f` if it is (and never `a`: the INTEGER literal 0 is false) -/
theorem vm_elseif_bare_condition (t : Ty) (rhs : Ast.Expr) (v : Val) (ht : t ≠ .str)
    (hs : slotsB 1 rhs = true) (hw : exprWtB [t] rhs = true)
    (hev : Ref.evalTo [Ref.zeroOf t] rhs t = .ok v) (hn : Numeric v) :
    VmPrints (elseifProg t rhs) (if IsZero v then ['f', '\r', '\n'] else ['t', '\r', '\n']) :=
  vmPrints_of_ref _ 10 _ (elseifProg_wf t rhs ht hs hw) (elseifProg_ref t rhs v ht hev hn)

/-- `V! = 0.25`: the ELSEIF branch -/
example : VmPrints (elseifProg .sgl (.lit (.sgl (1 / 4)) ⟨1, 6⟩)) ['t', '\r', '\n'] := by
  have h := vm_elseif_bare_condition .sgl (.lit (.sgl (1 / 4)) ⟨1, 6⟩) (.sgl (1 / 4)) (by decide) rfl rfl
    (evalTo_lit_self _ (.sgl (1 / 4)) _) trivial
  rwa [if_neg (by decide +kernel)] at h

/-- `V& = 100000`: the ELSEIF branch, no Overflow -/
example : VmPrints (elseifProg .long (.lit (.long 100000) ⟨1, 6⟩)) ['t', '\r', '\n'] := by
  have h := vm_elseif_bare_condition .long (.lit (.long 100000) ⟨1, 6⟩) (.long 100000) (by decide) rfl rfl
    (evalTo_lit_self _ (.long 100000) _) trivial
  rwa [if_neg (by decide)] at h

/-- `V# = 0`: the ELSE branch -/
example : VmPrints (elseifProg .dbl (.lit (.int 0) ⟨1, 6⟩)) ['f', '\r', '\n'] := by
  have h := vm_elseif_bare_condition .dbl (.lit (.int 0) ⟨1, 6⟩) (.dbl 0) (by decide) rfl rfl
    (evalTo_lit_zero _ .dbl (by decide) _) trivial
  rwa [if_pos (by decide)] at h

/-! ### 4a. DO … LOOP UNTIL V, non-zero: the body runs once -/

/-- `V = rhs : DO : PRINT "d" : LOOP UNTIL V : PRINT "end"` -/
def loopUntilProg (t : Ty) (rhs : Ast.Expr) : SProgram :=
  { slots := [t],
    body :=
      .seq (.assign 0 t rhs ⟨1, 1⟩)
      (.seq (.doLoop (.var 0 t ⟨4, 12⟩) false true
              (.seq (printS ['d'] ⟨3, 3⟩ ⟨3, 9⟩) .skip) ⟨2, 1⟩)
      (.seq (printS ['e', 'n', 'd'] ⟨6, 1⟩ ⟨6, 7⟩) .skip)) }

theorem loopUntilProg_wf (t : Ty) (rhs : Ast.Expr) (ht : t ≠ .str) (hs : slotsB 1 rhs = true)
    (hw : exprWtB [t] rhs = true) :
    wfTopB (loopUntilProg t rhs).slots (loopUntilProg t rhs).body = true := by
  simp [loopUntilProg, printS, wfTopB, wfB, wfElifsB, condB, slotsB, exprWtB, itemsB, isSkipB, Ast.Expr.ty, hs, hw,
    ht, litS]

theorem loopUntilProg_ref (t : Ty) (rhs : Ast.Expr) (v : Val) (ht : t ≠ .str)
    (hev : Ref.evalTo [Ref.zeroOf t] rhs t = .ok v) (hn : Numeric v) (hz : ¬ IsZero v) :
    refPrintsB (Ref.run 10 (loopUntilProg t rhs).toAst) ['d', '\r', '\n', 'e', 'n', 'd', '\r', '\n'] = true := by
  apply refPrintsB_complete
  simp only [Ref.run, loopUntilProg, printS, SProgram.toAst, desugar, desugarElifs, dataOf, List.map]
  rw [show (10 : Nat) = 6 + 1 + 1 + 1 + 1 from rfl]
  simp only [Ref.exec, hev, St.set, List.set, printItems, Ref.eval, litS, printValue, endsInSeparator,
    evalCond_cons v [] t _ hn, evalCond_cons (Ref.zeroOf t) [] t _ (numeric_zeroOf t ht), evalCond_lit_zero, hz,
    isZero_zeroOf, not_true_eq_false, not_false_eq_true, decide_true, decide_false, evalTo_lit_zero _ t ht,
    Bool.false_eq_true, if_false, if_true, bne_tt, bne_ff, bne_tf, bne_ft]
  exact ⟨trivial, rfl⟩

/-- **`vm_loop_until_nonzero`** — `V = rhs : DO : PRINT "d" : LOOP UNTIL V : PRINT "end"`: bottom-tested; the body runs
once and a value that is not the zero of its type ends the loop -/
theorem vm_loop_until_nonzero (t : Ty) (rhs : Ast.Expr) (v : Val) (ht : t ≠ .str)
    (hs : slotsB 1 rhs = true) (hw : exprWtB [t] rhs = true)
    (hev : Ref.evalTo [Ref.zeroOf t] rhs t = .ok v) (hn : Numeric v) (hz : ¬ IsZero v) :
    VmPrints (loopUntilProg t rhs) ['d', '\r', '\n', 'e', 'n', 'd', '\r', '\n'] :=
  vmPrints_of_ref _ 10 _ (loopUntilProg_wf t rhs ht hs hw) (loopUntilProg_ref t rhs v ht hev hn hz)

/-- `V! = 0.25`: true, not rounded to the INTEGER 0 -/
example : VmPrints (loopUntilProg .sgl (.lit (.sgl (1 / 4)) ⟨1, 6⟩)) ['d', '\r', '\n', 'e', 'n', 'd', '\r', '\n'] :=
  vm_loop_until_nonzero .sgl _ (.sgl (1 / 4)) (by decide) rfl rfl (evalTo_lit_self _ (.sgl (1 / 4)) _)
    trivial (by decide +kernel)
/-- `V& = 100000`: true, no Overflow from a conversion to INTEGER -/
example : VmPrints (loopUntilProg .long (.lit (.long 100000) ⟨1, 6⟩)) ['d', '\r', '\n', 'e', 'n', 'd', '\r', '\n'] :=
  vm_loop_until_nonzero .long _ (.long 100000) (by decide) rfl rfl (evalTo_lit_self _ (.long 100000) _)
    trivial (by decide)

/-! ### 4b. DO … LOOP WHILE V, zero: the body runs once -/

/-- `V = rhs : DO : PRINT "d" : LOOP WHILE V : PRINT "end"` -/
def loopWhileProg (t : Ty) (rhs : Ast.Expr) : SProgram :=
  { slots := [t],
    body :=
      .seq (.assign 0 t rhs ⟨1, 1⟩)
      (.seq (.doLoop (.var 0 t ⟨4, 12⟩) false false
              (.seq (printS ['d'] ⟨3, 3⟩ ⟨3, 9⟩) .skip) ⟨2, 1⟩)
      (.seq (printS ['e', 'n', 'd'] ⟨6, 1⟩ ⟨6, 7⟩) .skip)) }

theorem loopWhileProg_wf (t : Ty) (rhs : Ast.Expr) (ht : t ≠ .str) (hs : slotsB 1 rhs = true)
    (hw : exprWtB [t] rhs = true) :
    wfTopB (loopWhileProg t rhs).slots (loopWhileProg t rhs).body = true := by
  simp [loopWhileProg, printS, wfTopB, wfB, wfElifsB, condB, slotsB, exprWtB, itemsB, isSkipB, Ast.Expr.ty, hs, hw,
    ht, litS]

theorem loopWhileProg_ref (t : Ty) (rhs : Ast.Expr) (v : Val) (ht : t ≠ .str)
    (hev : Ref.evalTo [Ref.zeroOf t] rhs t = .ok v) (hn : Numeric v) (hz : IsZero v) :
    refPrintsB (Ref.run 10 (loopWhileProg t rhs).toAst) ['d', '\r', '\n', 'e', 'n', 'd', '\r', '\n'] = true := by
  apply refPrintsB_complete
  simp only [Ref.run, loopWhileProg, printS, SProgram.toAst, desugar, desugarElifs, dataOf, List.map]
  rw [show (10 : Nat) = 6 + 1 + 1 + 1 + 1 from rfl]
  simp only [Ref.exec, hev, St.set, List.set, printItems, Ref.eval, litS, printValue, endsInSeparator,
    evalCond_cons v [] t _ hn, evalCond_cons (Ref.zeroOf t) [] t _ (numeric_zeroOf t ht), evalCond_lit_zero, hz,
    isZero_zeroOf, not_true_eq_false, not_false_eq_true, decide_true, decide_false, evalTo_lit_zero _ t ht,
    Bool.false_eq_true, if_false, if_true, bne_tt, bne_ff, bne_tf, bne_ft]
  exact ⟨trivial, rfl⟩

/-- **`vm_loop_while_zero`** — `V = rhs : DO : PRINT "d" : LOOP WHILE V : PRINT "end"`: bottom-tested; the body runs once
and the zero of the type ends the loop -/
theorem vm_loop_while_zero (t : Ty) (rhs : Ast.Expr) (v : Val) (ht : t ≠ .str)
    (hs : slotsB 1 rhs = true) (hw : exprWtB [t] rhs = true)
    (hev : Ref.evalTo [Ref.zeroOf t] rhs t = .ok v) (hn : Numeric v) (hz : IsZero v) :
    VmPrints (loopWhileProg t rhs) ['d', '\r', '\n', 'e', 'n', 'd', '\r', '\n'] :=
  vmPrints_of_ref _ 10 _ (loopWhileProg_wf t rhs ht hs hw) (loopWhileProg_ref t rhs v ht hev hn hz)

/-- `V# = 0` (the INTEGER literal is converted to the DOUBLE zero by the assignment) -/
example : VmPrints (loopWhileProg .dbl (.lit (.int 0) ⟨1, 6⟩)) ['d', '\r', '\n', 'e', 'n', 'd', '\r', '\n'] :=
  vm_loop_while_zero .dbl _ (.dbl 0) (by decide) rfl rfl (evalTo_lit_zero _ .dbl (by decide) _) trivial (by decide)
/-- `V! = 0!` -/
example : VmPrints (loopWhileProg .sgl (.lit (.sgl 0) ⟨1, 6⟩)) ['d', '\r', '\n', 'e', 'n', 'd', '\r', '\n'] :=
  vm_loop_while_zero .sgl _ (.sgl 0) (by decide) rfl rfl (evalTo_lit_self _ (.sgl 0) _) trivial (by decide)

/-! ### 3a. DO WHILE V, zero: the body never runs -/

/-- `V = rhs : DO WHILE V : PRINT "w" : LOOP : PRINT "end"` -/
def doWhileZeroProg (t : Ty) (rhs : Ast.Expr) : SProgram :=
  { slots := [t],
    body :=
      .seq (.assign 0 t rhs ⟨1, 1⟩)
      (.seq (.doLoop (.var 0 t ⟨2, 10⟩) true false
              (.seq (printS ['w'] ⟨3, 3⟩ ⟨3, 9⟩) .skip) ⟨2, 1⟩)
      (.seq (printS ['e', 'n', 'd'] ⟨6, 1⟩ ⟨6, 7⟩) .skip)) }

theorem doWhileZeroProg_wf (t : Ty) (rhs : Ast.Expr) (ht : t ≠ .str) (hs : slotsB 1 rhs = true)
    (hw : exprWtB [t] rhs = true) :
    wfTopB (doWhileZeroProg t rhs).slots (doWhileZeroProg t rhs).body = true := by
  simp [doWhileZeroProg, printS, wfTopB, wfB, wfElifsB, condB, slotsB, exprWtB, itemsB, isSkipB, Ast.Expr.ty, hs, hw,
    ht, litS]

theorem doWhileZeroProg_ref (t : Ty) (rhs : Ast.Expr) (v : Val) (ht : t ≠ .str)
    (hev : Ref.evalTo [Ref.zeroOf t] rhs t = .ok v) (hn : Numeric v) (hz : IsZero v) :
    refPrintsB (Ref.run 10 (doWhileZeroProg t rhs).toAst) ['e', 'n', 'd', '\r', '\n'] = true := by
  apply refPrintsB_complete
  simp only [Ref.run, doWhileZeroProg, printS, SProgram.toAst, desugar, desugarElifs, dataOf, List.map]
  rw [show (10 : Nat) = 7 + 1 + 1 + 1 from rfl]
  simp only [Ref.exec, hev, St.set, List.set, printItems, Ref.eval, litS, printValue, endsInSeparator,
    evalCond_cons v [] t _ hn, evalCond_cons (Ref.zeroOf t) [] t _ (numeric_zeroOf t ht), evalCond_lit_zero, hz,
    isZero_zeroOf, not_true_eq_false, not_false_eq_true, decide_true, decide_false, evalTo_lit_zero _ t ht,
    Bool.false_eq_true, if_false, if_true, bne_tt, bne_ff, bne_tf, bne_ft]
  exact ⟨trivial, rfl⟩

/-- **`vm_do_while_zero`** — `V = rhs : DO WHILE V : PRINT "w" : LOOP : PRINT "end"`: the zero of the type, the body never
runs -/
theorem vm_do_while_zero (t : Ty) (rhs : Ast.Expr) (v : Val) (ht : t ≠ .str)
    (hs : slotsB 1 rhs = true) (hw : exprWtB [t] rhs = true)
    (hev : Ref.evalTo [Ref.zeroOf t] rhs t = .ok v) (hn : Numeric v) (hz : IsZero v) :
    VmPrints (doWhileZeroProg t rhs) ['e', 'n', 'd', '\r', '\n'] :=
  vmPrints_of_ref _ 10 _ (doWhileZeroProg_wf t rhs ht hs hw) (doWhileZeroProg_ref t rhs v ht hev hn hz)

/-- `V# = 0` (the INTEGER literal is converted to the DOUBLE zero by the assignment) -/
example : VmPrints (doWhileZeroProg .dbl (.lit (.int 0) ⟨1, 6⟩)) ['e', 'n', 'd', '\r', '\n'] :=
  vm_do_while_zero .dbl _ (.dbl 0) (by decide) rfl rfl (evalTo_lit_zero _ .dbl (by decide) _) trivial (by decide)
/-- `V! = 0!` -/
example : VmPrints (doWhileZeroProg .sgl (.lit (.sgl 0) ⟨1, 6⟩)) ['e', 'n', 'd', '\r', '\n'] :=
  vm_do_while_zero .sgl _ (.sgl 0) (by decide) rfl rfl (evalTo_lit_self _ (.sgl 0) _) trivial (by decide)

/-! ### 3b. DO WHILE V, non-zero, the body sets `V = 0`: exactly one round -/

/-- `V = rhs : DO WHILE V : PRINT "w" : V = 0 : LOOP : PRINT "end"` -/
def doWhileOnceProg (t : Ty) (rhs : Ast.Expr) : SProgram :=
  { slots := [t],
    body :=
      .seq (.assign 0 t rhs ⟨1, 1⟩)
      (.seq (.doLoop (.var 0 t ⟨2, 10⟩) true false
              (.seq (printS ['w'] ⟨3, 3⟩ ⟨3, 9⟩)
                (.seq (.assign 0 t (.lit (.int 0) ⟨4, 7⟩) ⟨4, 3⟩) .skip)) ⟨2, 1⟩)
      (.seq (printS ['e', 'n', 'd'] ⟨6, 1⟩ ⟨6, 7⟩) .skip)) }

theorem doWhileOnceProg_wf (t : Ty) (rhs : Ast.Expr) (ht : t ≠ .str) (hs : slotsB 1 rhs = true)
    (hw : exprWtB [t] rhs = true) :
    wfTopB (doWhileOnceProg t rhs).slots (doWhileOnceProg t rhs).body = true := by
  simp [doWhileOnceProg, printS, wfTopB, wfB, wfElifsB, condB, slotsB, exprWtB, itemsB, isSkipB, Ast.Expr.ty, hs, hw,
    ht, litS]

theorem doWhileOnceProg_ref (t : Ty) (rhs : Ast.Expr) (v : Val) (ht : t ≠ .str)
    (hev : Ref.evalTo [Ref.zeroOf t] rhs t = .ok v) (hn : Numeric v) (hz : ¬ IsZero v) :
    refPrintsB (Ref.run 10 (doWhileOnceProg t rhs).toAst) ['w', '\r', '\n', 'e', 'n', 'd', '\r', '\n'] = true := by
  apply refPrintsB_complete
  simp only [Ref.run, doWhileOnceProg, printS, SProgram.toAst, desugar, desugarElifs, dataOf, List.map]
  rw [show (10 : Nat) = 4 + 1 + 1 + 1 + 1 + 1 + 1 from rfl]
  simp only [Ref.exec, hev, St.set, List.set, printItems, Ref.eval, litS, printValue, endsInSeparator,
    evalCond_cons v [] t _ hn, evalCond_cons (Ref.zeroOf t) [] t _ (numeric_zeroOf t ht), evalCond_lit_zero, hz,
    isZero_zeroOf, not_true_eq_false, not_false_eq_true, decide_true, decide_false, evalTo_lit_zero _ t ht,
    Bool.false_eq_true, if_false, if_true, bne_tt, bne_ff, bne_tf, bne_ft]
  exact ⟨trivial, rfl⟩

/-- **`vm_do_while_once`** — `V = rhs : DO WHILE V : PRINT "w" : V = 0 : LOOP : PRINT "end"`: a value that is not the
zero of its type, exactly one round (`V = 0` stores the zero of `t`, the second test is false) -/
theorem vm_do_while_once (t : Ty) (rhs : Ast.Expr) (v : Val) (ht : t ≠ .str)
    (hs : slotsB 1 rhs = true) (hw : exprWtB [t] rhs = true)
    (hev : Ref.evalTo [Ref.zeroOf t] rhs t = .ok v) (hn : Numeric v) (hz : ¬ IsZero v) :
    VmPrints (doWhileOnceProg t rhs) ['w', '\r', '\n', 'e', 'n', 'd', '\r', '\n'] :=
  vmPrints_of_ref _ 10 _ (doWhileOnceProg_wf t rhs ht hs hw) (doWhileOnceProg_ref t rhs v ht hev hn hz)

/-- `V! = 0.25`: true, not rounded to the INTEGER 0 -/
example : VmPrints (doWhileOnceProg .sgl (.lit (.sgl (1 / 4)) ⟨1, 6⟩)) ['w', '\r', '\n', 'e', 'n', 'd', '\r', '\n'] :=
  vm_do_while_once .sgl _ (.sgl (1 / 4)) (by decide) rfl rfl (evalTo_lit_self _ (.sgl (1 / 4)) _)
    trivial (by decide +kernel)
/-- `V& = 100000`: true, no Overflow from a conversion to INTEGER -/
example : VmPrints (doWhileOnceProg .long (.lit (.long 100000) ⟨1, 6⟩)) ['w', '\r', '\n', 'e', 'n', 'd', '\r', '\n'] :=
  vm_do_while_once .long _ (.long 100000) (by decide) rfl rfl (evalTo_lit_self _ (.long 100000) _) trivial (by decide)

end RbThm.C01Cond2
