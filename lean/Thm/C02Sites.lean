import Thm.C02Vm
import RbModel.Drv.Rewrite
/-!
# C02 — the driver glue: rewrite sites and `applyAt`

`RbModel/Rewrite.lean` enumerates the rewrite sites of a statement (`sites`, `sitesC`: every sub-statement with the
one-hole context around it, in source order), picks the `idx`-th site of a kind (`siteAt`) and applies a rewrite
there (`applyAt`).  `Thm/C02Vm.lean` proves C02 for programs whose trees are `C.fill a` and `C.fill a'`.  This file
connects the two, so that nothing about the enumeration stays assumed:

* `sites_fill` / `sitesC_fill`   every enumerated pair `(c, sub)` satisfies `c.fill sub = st` (soundness)
* `sites_hole`, `fill_mem_sites` / `fill_mem_sitesC`, `mem_sites_iff`   the whole statement is a site; every
  decomposition `c.fill sub` is enumerated (completeness)
* `siteAt_fill`, `siteAt_none_iff`, `siteAt_complete`   what `siteAt` returns; every site of the kind has an index
* `applyAt_spec`, `applyAt_some_none`, `applyAt_none_iff`, `applyAt_some_some_iff`   what `applyAt` returns
* `usesS_fill`                   a filled context mentions `zs` iff the context or the filling does
* **`C02_siteAt_preserves_output`**, **`C02_applyAt_preserves_output`** (`_fresh`, `_nil`)
  `C02_rewrites_preserve_output` with the site taken from `siteAt` / `applyAt` instead of being assumed;
  `C02_rewriteAt_nil_preserves_output` the same for the driver's `rewriteAt` on the four rules without temporaries;
  `C02_siteAt_select_if_preserves_output` / `C02_siteAt_for_while_preserves_output` SELECT ≡ IF chain and
  FOR ≡ WHILE at an enumerated site (the two rules the driver builds from `siteAt` directly)

Not covered here: the driver appends the temporaries to the slot table of the rewritten program, the theorems of
`Thm/C02Vm.lean` want them declared in both programs (`P'.slots = P.slots`).
-/
namespace RbThm.C02Sites
open RbModel RbModel.Num RbModel.Ast RbModel.Src RbModel.Core RbModel.CoreVm RbModel.Ref RbModel.Rewrite
open RbModel.CoreWf
open RbThm.C01 RbThm.C01Sim RbThm.C01Sim.SimRead RbThm.C02 RbThm.C02Vm
open RbThm.C08Core (Finished finished)

/-! ### soundness of the enumeration -/

mutual
/-- every enumerated site decomposes the statement: filling the context with the sub-statement gives it back -/
theorem sites_fill : ∀ (st : Stmt) (c : Ctx) (sub : Stmt), (c, sub) ∈ sites st → c.fill sub = st
  | .skip, c, sub, h | .assign .., c, sub, h | .print .., c, sub, h | .read .., c, sub, h | .end_ _, c, sub, h => by
    simp only [sites, List.mem_singleton, Prod.mk.injEq] at h
    obtain ⟨rfl, rfl⟩ := h; rfl
  | .seq a b, c, sub, h => by
    simp only [sites, List.mem_cons, List.mem_append, List.mem_map, Prod.mk.injEq, Prod.exists] at h
    rcases h with (⟨rfl, rfl⟩ | ⟨c', s', hm, rfl, rfl⟩) | ⟨c', s', hm, rfl, rfl⟩
    · rfl
    · simp only [Ctx.fill, sites_fill a _ _ hm]
    · simp only [Ctx.fill, sites_fill b _ _ hm]
  | .ifs cond thn els p, c, sub, h => by
    simp only [sites, List.mem_cons, List.mem_append, List.mem_map, Prod.mk.injEq, Prod.exists] at h
    rcases h with (⟨rfl, rfl⟩ | ⟨c', s', hm, rfl, rfl⟩) | ⟨c', s', hm, rfl, rfl⟩
    · rfl
    · simp only [Ctx.fill, sites_fill thn _ _ hm]
    · simp only [Ctx.fill, sites_fill els _ _ hm]
  | .select e cs p, c, sub, h => by
    simp only [sites, List.mem_cons, List.mem_map, Prod.mk.injEq, Prod.exists] at h
    rcases h with ⟨rfl, rfl⟩ | ⟨c', s', hm, rfl, rfl⟩
    · rfl
    · simp only [Ctx.fill, sitesC_fill cs _ _ hm]
  | .forLoop x t lo hi step body p, c, sub, h => by
    simp only [sites, List.mem_cons, List.mem_map, Prod.mk.injEq, Prod.exists] at h
    rcases h with ⟨rfl, rfl⟩ | ⟨c', s', hm, rfl, rfl⟩
    · rfl
    · simp only [Ctx.fill, sites_fill body _ _ hm]
  | .while cond body p, c, sub, h => by
    simp only [sites, List.mem_cons, List.mem_map, Prod.mk.injEq, Prod.exists] at h
    rcases h with ⟨rfl, rfl⟩ | ⟨c', s', hm, rfl, rfl⟩
    · rfl
    · simp only [Ctx.fill, sites_fill body _ _ hm]
  | .doLoop cond top u body p, c, sub, h => by
    simp only [sites, List.mem_cons, List.mem_map, Prod.mk.injEq, Prod.exists] at h
    rcases h with ⟨rfl, rfl⟩ | ⟨c', s', hm, rfl, rfl⟩
    · rfl
    · simp only [Ctx.fill, sites_fill body _ _ hm]
theorem sitesC_fill : ∀ (cs : Cases) (cc : CasesCtx) (sub : Stmt), (cc, sub) ∈ sitesC cs → cc.fill sub = cs
  | .nil, cc, sub, h => by simp only [sitesC, List.not_mem_nil] at h
  | .else_ body, cc, sub, h => by
    simp only [sitesC, List.mem_map, Prod.mk.injEq, Prod.exists] at h
    obtain ⟨c', s', hm, rfl, rfl⟩ := h
    simp only [CasesCtx.fill, sites_fill body _ _ hm]
  | .case conds body rest, cc, sub, h => by
    simp only [sitesC, List.mem_append, List.mem_map, Prod.mk.injEq, Prod.exists] at h
    rcases h with ⟨c', s', hm, rfl, rfl⟩ | ⟨c', s', hm, rfl, rfl⟩
    · simp only [CasesCtx.fill, sites_fill body _ _ hm]
    · simp only [CasesCtx.fill, sitesC_fill rest _ _ hm]
end

/-! ### completeness of the enumeration -/

/-- the whole statement is a site (the first one) -/
theorem sites_hole (st : Stmt) : (Ctx.hole, st) ∈ sites st := by
  cases st <;> simp [sites]

mutual
/-- every way of writing a statement as a filled context is enumerated -/
theorem fill_mem_sites : ∀ (c : Ctx) (sub : Stmt), (c, sub) ∈ sites (c.fill sub)
  | .hole, sub => sites_hole sub
  | .seqL c b, sub => by
    simp only [Ctx.fill, sites]
    exact List.mem_cons_of_mem _ (List.mem_append_left _ (List.mem_map.2 ⟨(c, sub), fill_mem_sites c sub, rfl⟩))
  | .seqR a c, sub => by
    simp only [Ctx.fill, sites]
    exact List.mem_cons_of_mem _ (List.mem_append_right _ (List.mem_map.2 ⟨(c, sub), fill_mem_sites c sub, rfl⟩))
  | .ifThen cond c els p, sub => by
    simp only [Ctx.fill, sites]
    exact List.mem_cons_of_mem _ (List.mem_append_left _ (List.mem_map.2 ⟨(c, sub), fill_mem_sites c sub, rfl⟩))
  | .ifElse cond thn c p, sub => by
    simp only [Ctx.fill, sites]
    exact List.mem_cons_of_mem _ (List.mem_append_right _ (List.mem_map.2 ⟨(c, sub), fill_mem_sites c sub, rfl⟩))
  | .whileBody cond c p, sub => by
    simp only [Ctx.fill, sites]
    exact List.mem_cons_of_mem _ (List.mem_map.2 ⟨(c, sub), fill_mem_sites c sub, rfl⟩)
  | .doBody cond top u c p, sub => by
    simp only [Ctx.fill, sites]
    exact List.mem_cons_of_mem _ (List.mem_map.2 ⟨(c, sub), fill_mem_sites c sub, rfl⟩)
  | .forBody x t lo hi step c p, sub => by
    simp only [Ctx.fill, sites]
    exact List.mem_cons_of_mem _ (List.mem_map.2 ⟨(c, sub), fill_mem_sites c sub, rfl⟩)
  | .selectIn e cc p, sub => by
    simp only [Ctx.fill, sites]
    exact List.mem_cons_of_mem _ (List.mem_map.2 ⟨(cc, sub), fill_mem_sitesC cc sub, rfl⟩)
theorem fill_mem_sitesC : ∀ (cc : CasesCtx) (sub : Stmt), (cc, sub) ∈ sitesC (cc.fill sub)
  | .elseBody c, sub => by
    simp only [CasesCtx.fill, sitesC]
    exact List.mem_map.2 ⟨(c, sub), fill_mem_sites c sub, rfl⟩
  | .caseBody conds c rest, sub => by
    simp only [CasesCtx.fill, sitesC]
    exact List.mem_append_left _ (List.mem_map.2 ⟨(c, sub), fill_mem_sites c sub, rfl⟩)
  | .caseRest conds body cc, sub => by
    simp only [CasesCtx.fill, sitesC]
    exact List.mem_append_right _ (List.mem_map.2 ⟨(cc, sub), fill_mem_sitesC cc sub, rfl⟩)
end

/-- the enumeration is exactly the set of decompositions of the statement -/
theorem mem_sites_iff (st : Stmt) (c : Ctx) (sub : Stmt) : (c, sub) ∈ sites st ↔ c.fill sub = st :=
  ⟨sites_fill st c sub, fun h => h ▸ fill_mem_sites c sub⟩

theorem mem_sitesC_iff (cs : Cases) (cc : CasesCtx) (sub : Stmt) : (cc, sub) ∈ sitesC cs ↔ cc.fill sub = cs :=
  ⟨sitesC_fill cs cc sub, fun h => h ▸ fill_mem_sitesC cc sub⟩

/-! ### `siteAt` -/

/-- the sites of kind `k`, in source order (the list `siteAt` indexes) -/
def sitesOf (k : Kind) (st : Stmt) : List (Ctx × Stmt) := (sites st).filter fun (_, sub) => k.test sub

theorem siteAt_eq (k : Kind) (idx : Nat) (st : Stmt) : siteAt k idx st = (sitesOf k st)[idx]? := rfl

theorem mem_sitesOf_iff (k : Kind) (st : Stmt) (c : Ctx) (sub : Stmt) :
    (c, sub) ∈ sitesOf k st ↔ c.fill sub = st ∧ k.test sub = true := by
  simp only [sitesOf, List.mem_filter, mem_sites_iff]

/-- what `siteAt` returns is a decomposition of the statement at a sub-statement of the requested kind -/
theorem siteAt_fill {k : Kind} {idx : Nat} {st : Stmt} {c : Ctx} {sub : Stmt}
    (h : siteAt k idx st = some (c, sub)) : c.fill sub = st ∧ k.test sub = true :=
  (mem_sitesOf_iff k st c sub).1 (List.mem_of_getElem? (siteAt_eq k idx st ▸ h))

/-- `siteAt` fails exactly beyond the number of sites of the kind (the number `rw.count` reports) -/
theorem siteAt_none_iff (k : Kind) (idx : Nat) (st : Stmt) :
    siteAt k idx st = none ↔ (sitesOf k st).length ≤ idx := by
  rw [siteAt_eq, List.getElem?_eq_none_iff]

/-- every decomposition at a sub-statement of kind `k` is reached by some index -/
theorem siteAt_complete {k : Kind} {st : Stmt} {c : Ctx} {sub : Stmt}
    (hfill : c.fill sub = st) (hk : k.test sub = true) : ∃ idx, siteAt k idx st = some (c, sub) := by
  have hm := (mem_sitesOf_iff k st c sub).2 ⟨hfill, hk⟩
  obtain ⟨i, hi⟩ := List.mem_iff_getElem?.1 hm
  exact ⟨i, hi⟩

/-! ### `applyAt` -/

theorem applyAt_of_site {k : Kind} (f : Stmt → Option Stmt) {idx : Nat} {st : Stmt} {c : Ctx} {sub : Stmt}
    (hs : siteAt k idx st = some (c, sub)) : applyAt k f idx st = some ((f sub).map c.fill) := by
  simp only [applyAt, hs]

theorem applyAt_of_no_site {k : Kind} (f : Stmt → Option Stmt) {idx : Nat} {st : Stmt}
    (hs : siteAt k idx st = none) : applyAt k f idx st = none := by
  simp only [applyAt, hs]

theorem applyAt_some_some_iff (k : Kind) (f : Stmt → Option Stmt) (idx : Nat) (st st' : Stmt) :
    applyAt k f idx st = some (some st') ↔
      ∃ c sub sub', siteAt k idx st = some (c, sub) ∧ f sub = some sub' ∧ st' = c.fill sub' := by
  constructor
  · intro h
    cases hs : siteAt k idx st with
    | none => rw [applyAt_of_no_site f hs] at h; cases h
    | some cs =>
      obtain ⟨c, sub⟩ := cs
      rw [applyAt_of_site f hs] at h
      cases hf : f sub with
      | none => rw [hf] at h; cases h
      | some sub' =>
        rw [hf] at h
        simp only [Option.map_some, Option.some.injEq] at h
        exact ⟨c, sub, sub', rfl, hf, h.symm⟩
  · rintro ⟨c, sub, sub', hs, hf, rfl⟩
    rw [applyAt_of_site f hs, hf]; rfl

/-- a successful `applyAt` rewrote one sub-statement of the requested kind inside its context -/
theorem applyAt_spec {k : Kind} {f : Stmt → Option Stmt} {idx : Nat} {st st' : Stmt}
    (h : applyAt k f idx st = some (some st')) :
    ∃ (c : Ctx) (sub sub' : Stmt), c.fill sub = st ∧ k.test sub = true ∧ f sub = some sub' ∧ st' = c.fill sub' := by
  obtain ⟨c, sub, sub', hs, hf, rfl⟩ := (applyAt_some_some_iff k f idx st st').1 h
  exact ⟨c, sub, sub', (siteAt_fill hs).1, (siteAt_fill hs).2, hf, rfl⟩

/-- `some none`: the site exists and the rewrite does not apply there -/
theorem applyAt_some_none {k : Kind} {f : Stmt → Option Stmt} {idx : Nat} {st : Stmt} :
    applyAt k f idx st = some none ↔ ∃ c sub, siteAt k idx st = some (c, sub) ∧ f sub = none := by
  constructor
  · intro h
    cases hs : siteAt k idx st with
    | none => rw [applyAt_of_no_site f hs] at h; cases h
    | some cs =>
      obtain ⟨c, sub⟩ := cs
      rw [applyAt_of_site f hs] at h
      cases hf : f sub with
      | none => exact ⟨c, sub, rfl, hf⟩
      | some sub' => rw [hf] at h; simp at h
  · rintro ⟨c, sub, hs, hf⟩
    rw [applyAt_of_site f hs, hf]; rfl

/-- `none`: there is no `idx`-th site of the kind -/
theorem applyAt_none_iff (k : Kind) (f : Stmt → Option Stmt) (idx : Nat) (st : Stmt) :
    applyAt k f idx st = none ↔ (sitesOf k st).length ≤ idx := by
  rw [← siteAt_none_iff]
  constructor
  · intro h
    cases hs : siteAt k idx st with
    | none => rfl
    | some cs => obtain ⟨c, sub⟩ := cs; rw [applyAt_of_site f hs] at h; cases h
  · exact applyAt_of_no_site f

/-- conversely every applicable rewrite of a sub-statement of kind `k` is produced by `applyAt` at some index -/
theorem applyAt_complete {k : Kind} {f : Stmt → Option Stmt} {c : Ctx} {sub sub' : Stmt}
    (hk : k.test sub = true) (hf : f sub = some sub') :
    ∃ idx, applyAt k f idx (c.fill sub) = some (some (c.fill sub')) := by
  obtain ⟨idx, hs⟩ := siteAt_complete (k := k) (c := c) (sub := sub) rfl hk
  exact ⟨idx, (applyAt_some_some_iff ..).2 ⟨c, sub, sub', hs, hf, rfl⟩⟩

/-! ### temporaries: a filled context mentions `zs` iff the context or the filling does -/

mutual
theorem usesS_fill (zs : List Nat) : ∀ (c : Ctx) (a : Stmt), usesS zs (c.fill a) = (c.uses zs || usesS zs a)
  | .hole, a => by simp [Ctx.fill, Ctx.uses]
  | .seqL c b, a => by
    simp only [Ctx.fill, Ctx.uses, usesS, usesS_fill zs c a]
    cases c.uses zs <;> cases usesS zs a <;> simp
  | .seqR b c, a => by
    simp only [Ctx.fill, Ctx.uses, usesS, usesS_fill zs c a, Bool.or_assoc]
  | .ifThen cond c els p, a => by
    simp only [Ctx.fill, Ctx.uses, usesS, usesS_fill zs c a]
    cases c.uses zs <;> cases usesS zs a <;> simp
  | .ifElse cond thn c p, a => by
    simp only [Ctx.fill, Ctx.uses, usesS, usesS_fill zs c a, Bool.or_assoc]
  | .whileBody cond c p, a => by
    simp only [Ctx.fill, Ctx.uses, usesS, usesS_fill zs c a, Bool.or_assoc]
  | .doBody cond top u c p, a => by
    simp only [Ctx.fill, Ctx.uses, usesS, usesS_fill zs c a, Bool.or_assoc]
  | .forBody x t lo hi step c p, a => by
    simp only [Ctx.fill, Ctx.uses, usesS, usesS_fill zs c a, Bool.or_assoc]
  | .selectIn e cc p, a => by
    simp only [Ctx.fill, Ctx.uses, usesS, usesC_fill zs cc a, Bool.or_assoc]
theorem usesC_fill (zs : List Nat) : ∀ (cc : CasesCtx) (a : Stmt), usesC zs (cc.fill a) = (cc.uses zs || usesS zs a)
  | .elseBody c, a => by
    simp only [CasesCtx.fill, CasesCtx.uses, usesC, usesS_fill zs c a]
  | .caseBody conds c rest, a => by
    simp only [CasesCtx.fill, CasesCtx.uses, usesC, usesS_fill zs c a]
    cases c.uses zs <;> cases usesS zs a <;> simp
  | .caseRest conds body cc, a => by
    simp only [CasesCtx.fill, CasesCtx.uses, usesC, usesC_fill zs cc a, Bool.or_assoc]
end

/-- a statement that does not mention `zs` has no site whose context mentions them -/
theorem ctx_uses_of_fresh {zs : List Nat} {st : Stmt} {c : Ctx} {sub : Stmt}
    (hfill : c.fill sub = st) (hfresh : usesS zs st = false) : c.uses zs = false ∧ usesS zs sub = false := by
  rw [← hfill, usesS_fill, Bool.or_eq_false_iff] at hfresh
  exact hfresh

/-! ### end to end -/

/-- **`C02_siteAt_preserves_output`** — `C02_rewrites_preserve_output` at an *enumerated* site: `P`'s tree has an
`idx`-th sub-statement `a` of kind `k` in context `c` (as `siteAt` finds it), `P'`'s tree is the same context around a
respelling `a'` of `a`.  Nothing about the enumeration is assumed. -/
theorem C02_siteAt_preserves_output (P P' : SProgram) (k : Kind) (idx : Nat) (c : Ctx) (zs : List Nat) (a a' : Stmt)
    (hsite : siteAt k idx (desugar P.body) = some (c, a)) (hP' : desugar P'.body = c.fill a')
    (hrule : Respelling zs a a') (hC : c.uses zs = false)
    (hsl : P'.slots = P.slots) (hd : dataOf P'.body = dataOf P.body)
    (hz : ∀ z, z ∈ zs → z < P.slots.length)
    (hw : wfTopB P.slots P.body = true) (hw' : wfTopB P'.slots P'.body = true)
    (fuel : Nat) (hfin : Finished (Ref.run fuel P.toAst).2 ∨ Finished (Ref.run fuel P'.toAst).2) :
    ∃ n, ∀ m m', n ≤ m → n ≤ m' →
      SameVmEnd zs (CoreVm.run (compile P) m (Vm.init P.slots)) (CoreVm.run (compile P') m' (Vm.init P'.slots)) :=
  C02_rewrites_preserve_output P P' c zs a a' (siteAt_fill hsite).1.symm hP' hrule hC hsl hd hz hw hw' fuel hfin

/-- **`C02_applyAt_preserves_output`** — property C02 for the rewrite as the driver applies it.  `P'`'s tree is what
`applyAt k f idx` makes of `P`'s tree; `f` produces only respellings (with temporaries `zs`) on sub-statements of
kind `k`; the context of the chosen site does not mention the temporaries.  The other hypotheses are those of
`C02_rewrites_preserve_output`: same slot table, same DATA, temporaries are declared slots, both programs accepted
(`wfTopB`), the reference run of either finishes.  Then both VM runs end alike for every sufficient step budget. -/
theorem C02_applyAt_preserves_output (P P' : SProgram) (k : Kind) (f : Stmt → Option Stmt) (idx : Nat)
    (zs : List Nat)
    (happ : applyAt k f idx (desugar P.body) = some (some (desugar P'.body)))
    (hf : ∀ sub sub', k.test sub = true → f sub = some sub' → Respelling zs sub sub')
    (hC : ∀ c sub, siteAt k idx (desugar P.body) = some (c, sub) → c.uses zs = false)
    (hsl : P'.slots = P.slots) (hd : dataOf P'.body = dataOf P.body)
    (hz : ∀ z, z ∈ zs → z < P.slots.length)
    (hw : wfTopB P.slots P.body = true) (hw' : wfTopB P'.slots P'.body = true)
    (fuel : Nat) (hfin : Finished (Ref.run fuel P.toAst).2 ∨ Finished (Ref.run fuel P'.toAst).2) :
    ∃ n, ∀ m m', n ≤ m → n ≤ m' →
      SameVmEnd zs (CoreVm.run (compile P) m (Vm.init P.slots)) (CoreVm.run (compile P') m' (Vm.init P'.slots)) := by
  obtain ⟨c, sub, sub', hs, hfs, hP'⟩ := (applyAt_some_some_iff ..).1 happ
  exact C02_siteAt_preserves_output P P' k idx c zs sub sub' hs hP' (hf sub sub' (siteAt_fill hs).2 hfs) (hC c sub hs)
    hsl hd hz hw hw' fuel hfin

/-- ... with the side condition on the context replaced by one on the program: `P` does not mention the
temporaries (they are fresh slots, as the driver allocates them) -/
theorem C02_applyAt_preserves_output_fresh (P P' : SProgram) (k : Kind) (f : Stmt → Option Stmt) (idx : Nat)
    (zs : List Nat)
    (happ : applyAt k f idx (desugar P.body) = some (some (desugar P'.body)))
    (hf : ∀ sub sub', k.test sub = true → f sub = some sub' → Respelling zs sub sub')
    (hfresh : usesS zs (desugar P.body) = false)
    (hsl : P'.slots = P.slots) (hd : dataOf P'.body = dataOf P.body)
    (hz : ∀ z, z ∈ zs → z < P.slots.length)
    (hw : wfTopB P.slots P.body = true) (hw' : wfTopB P'.slots P'.body = true)
    (fuel : Nat) (hfin : Finished (Ref.run fuel P.toAst).2 ∨ Finished (Ref.run fuel P'.toAst).2) :
    ∃ n, ∀ m m', n ≤ m → n ≤ m' →
      SameVmEnd zs (CoreVm.run (compile P) m (Vm.init P.slots)) (CoreVm.run (compile P') m' (Vm.init P'.slots)) :=
  C02_applyAt_preserves_output P P' k f idx zs happ hf
    (fun _ _ hs => (ctx_uses_of_fresh (siteAt_fill hs).1 hfresh).1) hsl hd hz hw hw' fuel hfin

/-- ... without temporaries no side condition on the context is left and all variables agree -/
theorem C02_applyAt_preserves_output_nil (P P' : SProgram) (k : Kind) (f : Stmt → Option Stmt) (idx : Nat)
    (happ : applyAt k f idx (desugar P.body) = some (some (desugar P'.body)))
    (hf : ∀ sub sub', k.test sub = true → f sub = some sub' → Respelling [] sub sub')
    (hsl : P'.slots = P.slots) (hd : dataOf P'.body = dataOf P.body)
    (hw : wfTopB P.slots P.body = true) (hw' : wfTopB P'.slots P'.body = true)
    (fuel : Nat) (hfin : Finished (Ref.run fuel P.toAst).2 ∨ Finished (Ref.run fuel P'.toAst).2) :
    ∃ n, ∀ m m', n ≤ m → n ≤ m' →
      SameVmEnd [] (CoreVm.run (compile P) m (Vm.init P.slots)) (CoreVm.run (compile P') m' (Vm.init P'.slots)) :=
  C02_applyAt_preserves_output P P' k f idx [] happ hf (fun c _ _ => Ctx.uses_nil c) hsl hd (by simp) hw hw' fuel hfin

/-- the driver's `rewriteAt` on the four rules without temporaries (`while-do`, `until-not`, `for-step1`,
`wrap-loop`), on the tree the driver sees (`P.toAst`): if it answers the tree of `P'`, both VM runs end alike -/
theorem C02_rewriteAt_nil_preserves_output (P P' : SProgram) (rule : String) (idx : Nat)
    (hrule : rule = "while-do" ∨ rule = "until-not" ∨ rule = "for-step1" ∨ rule = "wrap-loop")
    (happ : Drv.Rewrite.rewriteAt rule idx P.toAst = some (some (desugar P'.body, [])))
    (hsl : P'.slots = P.slots) (hd : dataOf P'.body = dataOf P.body)
    (hw : wfTopB P.slots P.body = true) (hw' : wfTopB P'.slots P'.body = true)
    (fuel : Nat) (hfin : Finished (Ref.run fuel P.toAst).2 ∨ Finished (Ref.run fuel P'.toAst).2) :
    ∃ n, ∀ m m', n ≤ m → n ≤ m' →
      SameVmEnd [] (CoreVm.run (compile P) m (Vm.init P.slots)) (CoreVm.run (compile P') m' (Vm.init P'.slots)) := by
  have key : ∀ (k : Kind) (f : Stmt → Option Stmt),
      (applyAt k f idx (desugar P.body)).map (·.map (·, ([] : List Num.Ty))) = some (some (desugar P'.body, [])) →
      applyAt k f idx (desugar P.body) = some (some (desugar P'.body)) := by
    intro k f h
    cases ha : applyAt k f idx (desugar P.body) with
    | none => simp [ha] at h
    | some o =>
      cases o with
      | none => simp [ha] at h
      | some s => simpa [ha] using h
  rcases hrule with rfl | rfl | rfl | rfl
  · exact C02_applyAt_preserves_output_nil P P' _ _ idx (key _ _ happ) (fun _ _ _ h => .whileDo h) hsl hd hw hw' fuel hfin
  · exact C02_applyAt_preserves_output_nil P P' _ _ idx (key _ _ happ) (fun _ _ _ h => .untilNot h) hsl hd hw hw' fuel hfin
  · exact C02_applyAt_preserves_output_nil P P' _ _ idx (key _ _ happ) (fun _ _ _ h => .forStep1 h) hsl hd hw hw' fuel hfin
  · exact C02_applyAt_preserves_output_nil P P' _ _ idx (key _ _ happ) (fun _ _ _ h => .wrapLoop h) hsl hd hw hw' fuel hfin

/-- SELECT CASE ≡ IF chain at an enumerated site, as the driver's `select-if` builds it (`siteAt .select`, the
`casesWF` check, `z` the temporary): `P` does not mention `z`, which is a declared slot -/
theorem C02_siteAt_select_if_preserves_output (P P' : SProgram) (idx : Nat) (c : Ctx) (z : Nat)
    {e : Ast.Expr} {cs : Cases} {p : Pos}
    (hsite : siteAt .select idx (desugar P.body) = some (c, .select e cs p))
    (hwf : casesWF cs = true)
    (hP' : desugar P'.body = c.fill (.seq (.assign z e.ty e p) (chain z e.ty p cs)))
    (hfresh : usesS [z] (desugar P.body) = false)
    (hsl : P'.slots = P.slots) (hd : dataOf P'.body = dataOf P.body)
    (hz : z < P.slots.length)
    (hw : wfTopB P.slots P.body = true) (hw' : wfTopB P'.slots P'.body = true)
    (fuel : Nat) (hfin : Finished (Ref.run fuel P.toAst).2 ∨ Finished (Ref.run fuel P'.toAst).2) :
    ∃ n, ∀ m m', n ≤ m → n ≤ m' →
      SameVmEnd [z] (CoreVm.run (compile P) m (Vm.init P.slots)) (CoreVm.run (compile P') m' (Vm.init P'.slots)) := by
  have hfr := ctx_uses_of_fresh (siteAt_fill hsite).1 hfresh
  refine C02_siteAt_preserves_output P P' .select idx c [z] _ _ hsite hP' (.selectIf rfl hfr.2 ?_) hfr.1 hsl hd ?_
    hw hw' fuel hfin
  · intro e' cs' p' h; cases h; exact hwf
  · intro z' hz'; simp only [List.mem_singleton] at hz'; exact hz' ▸ hz

/-- FOR ≡ WHILE at an enumerated site (`siteAt .for_`, as the driver's `for-while` finds it): the hypotheses of
`C02_for_while_preserves_output` with the decomposition taken from the enumeration and the two freshness conditions
(`hfresh`, `hC`) replaced by one on the program -/
theorem C02_siteAt_for_while_preserves_output (P P' : SProgram) (idx : Nat) (c : Ctx)
    {x : Nat} {t : Ty} {lo hi : Ast.Expr} {step : Option Ast.Expr} {body : Stmt} {p : Pos} {zl zs : Nat} {tres : Ty}
    {st' : Stmt}
    (hsite : siteAt .for_ idx (desugar P.body) = some (c, .forLoop x t lo hi step body p))
    (hP' : desugar P'.body = c.fill st')
    (hft : forToWhile zl zs tres (.forLoop x t lo hi step body p) = some st')
    (hne : zl ≠ zs)
    (hfresh : usesS [zl, zs] (desugar P.body) = false)
    (hwhi : ExprWt P.slots hi) (hwst : ∀ se, step = some se → ExprWt P.slots se)
    (hzl : P.slots[zl]? = some t) (hzs : P.slots[zs]? = some (stepTy step))
    (htres : Gen.NumTables.binType .plus t (stepTy step) = some tres)
    (hnz : ∀ s, Typed P.slots s.env → StepNonZero x t lo (stepE step p) p s)
    (hsl : P'.slots = P.slots) (hd : dataOf P'.body = dataOf P.body)
    (hw : wfTopB P.slots P.body = true) (hw' : wfTopB P'.slots P'.body = true)
    (fuel : Nat) (hfin : Finished (Ref.run fuel P.toAst).2 ∨ Finished (Ref.run fuel P'.toAst).2) :
    ∃ n, ∀ m m', n ≤ m → n ≤ m' →
      SameVmEnd [zl, zs] (CoreVm.run (compile P) m (Vm.init P.slots)) (CoreVm.run (compile P') m' (Vm.init P'.slots)) := by
  have hfr := ctx_uses_of_fresh (siteAt_fill hsite).1 hfresh
  exact C02_for_while_preserves_output P P' c (siteAt_fill hsite).1.symm hP' hft hne hfr.2 hfr.1 hwhi hwst hzl hzs
    htres hnz hsl hd hw hw' fuel hfin

/-! ### non-vacuity -/

private def cond1 : Ast.Expr := .bin .less (.var 0 .int ⟨3, 7⟩) (.lit (.int 2) ⟨3, 11⟩) .int ⟨3, 9⟩
private def lbody : SStmt :=
  .seq (.print [.expr (.var 0 .int ⟨4, 7⟩)] ⟨4, 1⟩)
    (.seq (.assign 0 .int (.bin .plus (.var 0 .int ⟨5, 5⟩) (.lit (.int 1) ⟨5, 9⟩) .int ⟨5, 7⟩) ⟨5, 1⟩) .skip)
/-- `X% = 0 : IF 1 THEN <loop> END IF` -/
private def around (loop : SStmt) : SStmt :=
  .seq (.assign 0 .int (.lit (.int 0) ⟨1, 5⟩) ⟨1, 1⟩)
    (.seq (.ifBlock (.lit (.int 1) ⟨2, 4⟩) (.seq loop .skip) .nil false .skip ⟨2, 1⟩) .skip)
/-- `WHILE X% < 2 : PRINT X% : X% = X% + 1 : WEND` and its `DO WHILE … LOOP` spelling, inside an IF behind an
assignment -/
private def wP : SProgram := ⟨[.int], around (.while cond1 lbody ⟨3, 1⟩)⟩
private def wP' : SProgram := ⟨[.int], around (.doLoop cond1 true false lbody ⟨3, 1⟩)⟩

/-- the hypotheses of `C02_applyAt_preserves_output_nil` hold for `wP`, `wP'`, `k = while_`, `f = whileToDo`,
`idx = 0` (the site is nested: `seqR _ (seqL (ifThen _ (seqL hole _) _ _) _)`); `rewriteAt "while-do"` answers the
same tree; there is no second WHILE -/
example : applyAt .while_ whileToDo 0 (desugar wP.body) = some (some (desugar wP'.body)) ∧
    Drv.Rewrite.rewriteAt "while-do" 0 wP.toAst = some (some (desugar wP'.body, [])) ∧
    applyAt .while_ whileToDo 1 (desugar wP.body) = none ∧
    applyAt .do_ untilToWhileNot 0 (desugar wP'.body) = some none ∧
    (∀ sub sub', Kind.while_.test sub = true → whileToDo sub = some sub' → Respelling [] sub sub') ∧
    wP'.slots = wP.slots ∧ dataOf wP'.body = dataOf wP.body ∧
    wfTopB wP.slots wP.body = true ∧ wfTopB wP'.slots wP'.body = true ∧
    Finished (Ref.run 100 wP.toAst).2 := by
  refine ⟨rfl, rfl, rfl, rfl, fun _ _ _ h => .whileDo h, rfl, rfl, by decide +kernel, by decide +kernel,
    by decide +kernel⟩

/-- two loops in sequence: index 1 of kind `loop` is the second one (source order), `wrapLoopBody` applies there;
index 0 of kind `do_` is the same statement; there is no third loop -/
example (c : Ast.Expr) (p q : Pos) :
    applyAt .loop wrapLoopBody 1 (.seq (.while c (.end_ p) p) (.seq (.doLoop c false true .skip q) .skip))
      = some (some (.seq (.while c (.end_ p) p) (.seq (.doLoop c false true (.seq (wrapTrue .skip q) .skip) q) .skip))) ∧
    siteAt .loop 1 (.seq (.while c (.end_ p) p) (.seq (.doLoop c false true .skip q) .skip))
      = some (.seqR (.while c (.end_ p) p) (.seqL .hole .skip), .doLoop c false true .skip q) ∧
    siteAt .do_ 0 (.seq (.while c (.end_ p) p) (.seq (.doLoop c false true .skip q) .skip))
      = some (.seqR (.while c (.end_ p) p) (.seqL .hole .skip), .doLoop c false true .skip q) ∧
    applyAt .loop wrapLoopBody 2 (.seq (.while c (.end_ p) p) (.seq (.doLoop c false true .skip q) .skip)) = none :=
  ⟨rfl, rfl, rfl, rfl⟩

/-- `SELECT CASE X% : CASE 1 TO 3 : PRINT "a" : CASE ELSE : PRINT "b" : END SELECT` behind `X% = 2` (slots X = 0,
Z = 1): `siteAt .select 0` finds it, and the hypotheses of `C02_siteAt_select_if_preserves_output` hold with `z = 1` -/
private def pa : SStmt := .print [.expr (.lit (.str ['a']) ⟨3, 7⟩)] ⟨3, 1⟩
private def pb : SStmt := .print [.expr (.lit (.str ['b']) ⟨5, 7⟩)] ⟨5, 1⟩
private def selS : SStmt :=
  .select (.var 0 .int ⟨2, 13⟩) (.cons [.range (.lit (.int 1) ⟨3, 6⟩) (.lit (.int 3) ⟨3, 11⟩)] pa .nil) true pb ⟨2, 1⟩
private def chainS : SStmt :=
  .seq (.assign 1 .int (.var 0 .int ⟨2, 13⟩) ⟨2, 1⟩)
    (.ifBlock (relE .greaterOrEqual 1 .int (.lit (.int 1) ⟨3, 6⟩) ⟨2, 1⟩)
      (.ifBlock (relE .lessOrEqual 1 .int (.lit (.int 3) ⟨3, 11⟩) ⟨2, 1⟩) pa .nil true pb ⟨2, 1⟩) .nil true pb ⟨2, 1⟩)
private def sAround (st : SStmt) : SStmt := .seq (.assign 0 .int (.lit (.int 2) ⟨1, 5⟩) ⟨1, 1⟩) (.seq st .skip)
private def sC : Ctx := .seqR (.assign 0 .int (.lit (.int 2) ⟨1, 5⟩) ⟨1, 1⟩) (.seqL .hole .skip)
private def sP : SProgram := ⟨[.int, .int], sAround selS⟩
private def sP' : SProgram := ⟨[.int, .int], sAround chainS⟩
private def selCases : Cases :=
  .case [.range (.lit (.int 1) ⟨3, 6⟩) (.lit (.int 3) ⟨3, 11⟩)] (desugar pa) (.else_ (desugar pb))

example : siteAt .select 0 (desugar sP.body) = some (sC, .select (.var 0 .int ⟨2, 13⟩) selCases ⟨2, 1⟩) ∧
    casesWF selCases = true ∧
    desugar sP'.body = sC.fill (.seq (.assign 1 (Ast.Expr.var 0 .int ⟨2, 13⟩).ty (.var 0 .int ⟨2, 13⟩) ⟨2, 1⟩)
      (chain 1 (Ast.Expr.var 0 .int ⟨2, 13⟩).ty ⟨2, 1⟩ selCases)) ∧
    usesS [1] (desugar sP.body) = false ∧ 1 < sP.slots.length ∧
    wfTopB sP.slots sP.body = true ∧ wfTopB sP'.slots sP'.body = true ∧
    Finished (Ref.run 100 sP.toAst).2 := by
  refine ⟨rfl, rfl, rfl, by decide +kernel, by decide, by decide +kernel, by decide +kernel, by decide +kernel⟩

end RbThm.C02Sites
