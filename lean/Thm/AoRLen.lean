import RbModel.AoR.Compile
/-!
Lengths of the code the generator model of layer AoR (arrays of records) emits: `(compileStmt sfx off s).length = sizeStmt s`, …
(`RbModel.AoR.Compile` places forward labels with the `size*` functions; these lemmas make those addresses the right
ones.)  Expressions have no size function of their own: the model uses `(compileExpr e).length`.
-/
set_option linter.unusedSimpArgs false
set_option linter.unusedVariables false
namespace RbThm.AoRLen
open RbModel RbModel.Num RbModel.AoR RbModel.AoR.Compile
open RbModel.Ast (Pos)

theorem len_caseExpr (p : Pos) (next : Nat) (c : CaseExpr) :
    (compileCaseExpr p next c).length = sizeCaseExpr c := by
  cases c <;> simp [compileCaseExpr, sizeCaseExpr] <;> try omega

theorem len_items (p : Pos) : ∀ (items : List PrintItem), (compileItems p items).length = sizeItems items
  | [] => rfl
  | it :: rest => by
    cases it <;> simp [compileItems, compileItem, sizeItems, len_items p rest] <;> try omega

theorem len_conds (p : Pos) (sfx : String) (bi nextCase stmts : Nat) :
    ∀ (conds : List CaseExpr) (off ei : Nat),
      (compileConds p sfx bi nextCase stmts off ei conds).length = sizeConds conds
  | [], _, _ => rfl
  | [c], _, _ => by simp [compileConds, sizeConds, len_caseExpr]
  | c :: d :: rest, off, ei => by
    have ih := len_conds p sfx bi nextCase stmts (d :: rest) (off + sizeCaseExpr c + 1 + 1) (ei + 1)
    simp only [compileConds, sizeConds, List.length_append, List.length_singleton, len_caseExpr, ih]
    (try omega)

theorem flatMap_const_len {α β : Type} (f : α → List β) (k : Nat) (h : ∀ a, (f a).length = k) (l : List α) :
    (l.flatMap f).length = k * l.length := by
  induction l with
  | nil => simp
  | cons a rest ih => simp [List.flatMap_cons, ih, h, Nat.mul_succ] <;> (try omega)

theorem len_forBody (sfx : String) (x : Nat) (t : Ty) (bodyCode : Code) (up : Bool) (p : Pos) (off outOff : Nat) :
    (forBody sfx x t bodyCode up p off outOff).length = bodyCode.length + 18 := by
  simp [forBody, loadVar, storeVar] <;> try omega

theorem len_readOne (p : Pos) (tg : ReadTarget) : (readOne p tg).length = sizeRead tg := by
  simp [readOne, sizeRead, pushTarget, writeTarget]

theorem len_reads (p : Pos) : ∀ (tgs : List ReadTarget), (compileReads p tgs).length = sizeReads tgs
  | [] => rfl
  | tg :: rest => by simp [compileReads, sizeReads, len_readOne, len_reads p rest]

/-- the length of the bound code of a DIM does not depend on the position -/
theorem len_dims (p q : Pos) : ∀ (dims : Dims), (compileDims p dims).length = (compileDims q dims).length
  | .nil => rfl
  | .cons lo hi rest => by
    cases lo <;> simp [compileDims, len_dims p q rest]

theorem len_dims_size (p : Pos) (dims : Dims) : (compileDims p dims).length = sizeDims dims := len_dims p ⟨0, 0⟩ dims

mutual
theorem len_stmt : ∀ (s : SStmt) (sfx : String) (off : Nat), (compileStmt sfx off s).length = sizeStmt s
  | .skip, _, _ => by simp [compileStmt, sizeStmt]
  | .seq a b, sfx, off => by simp [compileStmt, sizeStmt, len_stmt a, len_stmt b]
  | .comment, _, _ => by simp [compileStmt, sizeStmt]
  | .dim _ _ _, _, _ => by simp [compileStmt, sizeStmt]
  | .dimArr a t dims p, _, _ => by
    simp only [compileStmt, sizeStmt, sizeDims, List.length_append, List.length_singleton, List.length_cons,
      List.length_nil, len_dims p ⟨0, 0⟩ dims]
    (try omega)
  | .assign x path t e p, _, _ => by simp [compileStmt, sizeStmt, compilePath]; omega
  | .assignElem a idx path t e p, _, _ => by simp [compileStmt, sizeStmt, compileProps]; omega
  | .print items p, _, _ => by simp [compileStmt, sizeStmt, len_items] <;> try omega
  | .data items p, _, _ => by
    simp only [compileStmt, sizeStmt, List.length_append, List.length_cons, List.length_nil]
    rw [flatMap_const_len _ 2 (fun _ => rfl)] <;> (try omega)
  | .read tgs p, _, _ => by
    simp only [compileStmt, sizeStmt]
    by_cases h : tgs.isEmpty = true
    · simp [h]
    · simp [h, len_reads]
  | .ifBlock c thn elifs hasElse els p, sfx, off => by
    simp only [compileStmt, sizeStmt, List.length_append, List.length_singleton, len_stmt thn, len_elifs elifs]
    cases hasElse <;> simp [len_stmt els] <;> try omega
  | .select e cases hasElse els p, sfx, off => by
    simp only [compileStmt, sizeStmt, List.length_append, List.length_singleton, List.length_cons, List.length_nil,
      len_cases cases]
    cases hasElse <;> simp [len_stmt els] <;> try omega
  | .forLoop x t lo hi step body p, sfx, off => by
    cases step with
    | none =>
      simp only [compileStmt, sizeStmt, sizeForBody, List.length_append, List.length_singleton, List.length_cons,
        List.length_nil, len_forBody, len_stmt body, storeVar]
      (try omega)
    | some s =>
      simp only [compileStmt, sizeStmt, sizeForBody, List.length_append, List.length_singleton, List.length_cons,
        List.length_nil, len_forBody, len_stmt body, storeVar]
      (try omega)
  | .while c body p, sfx, off => by
    simp only [compileStmt, sizeStmt, List.length_append, List.length_singleton, List.length_cons, List.length_nil,
      len_stmt body]
    (try omega)
  | .doLoop c top u body p, sfx, off => by
    cases top <;> cases u <;>
      simp [compileStmt, sizeStmt, len_stmt body] <;> try omega
  | .end_ _, _, _ => by simp [compileStmt, sizeStmt]
theorem len_elifs : ∀ (e : ElseIfs) (sfx : String) (p : Pos) (endOff elseOff off i : Nat),
    (compileElifs sfx p endOff elseOff off i e).length = sizeElifs e
  | .nil, _, _, _, _, _, _ => by simp [compileElifs, sizeElifs]
  | .cons c body rest, sfx, p, endOff, elseOff, off, i => by
    simp only [compileElifs, sizeElifs, List.length_append, List.length_singleton, len_stmt body,
      len_elifs rest]
    (try omega)
theorem len_cases : ∀ (cs : SCases) (sfx : String) (p : Pos) (endOff elseOff off i : Nat),
    (compileCases sfx p endOff elseOff off i cs).length = sizeCases cs
  | .nil, _, _, _, _, _, _ => by simp [compileCases, sizeCases]
  | .cons conds body rest, sfx, p, endOff, elseOff, off, i => by
    simp only [compileCases, sizeCases, List.length_append, List.length_singleton, len_conds, len_stmt body,
      len_cases rest]
    by_cases h : conds.length > 1
    · simp [h] <;> (try omega)
    · simp [h] <;> (try omega)
end

end RbThm.AoRLen
