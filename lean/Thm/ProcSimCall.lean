import Thm.ProcSimBase
import Thm.ProcSimStmt
/-!
Procedures layer, simulation part — argument lists and calls.

`case_args`: the arguments are evaluated left to right into the collecting state (by value with `Cast`, a by-reference
actual with the variable's current value).  `call_correct`: the whole call protocol — `BeginCollectArguments`, the
arguments, `PushStack` (the callee's frame with the parameters bound), `PushRet`, `Jump` to the procedure's label, the
body (by the statement hypothesis at the fuel the reference semantics uses, ended by the final `PopRet` or by
`EXIT SUB / FUNCTION`), then the epilogue: `EnqueueToReturnStack` for every by-reference actual,
`StashFunctionReturnValue`, `PopStack`, the write-backs left to right, `UnStashFunctionReturnValue`.
-/
namespace RbThm.ProcSim
set_option linter.unusedVariables false
set_option linter.unusedSimpArgs false
open RbModel RbModel.Num RbModel.Proc RbModel.Proc.Compile RbModel.Proc.Vm
open RbModel.Ast (Pos)
open RbThm.ProcLen

/-! ### argument lists -/

/-- `PushNamed`: the value in A joins the collecting state on top -/
theorem pushNamed_step (code : Code) (sc : Scope) (pre below : List CtxState) (s : St) (τ : Vm) (vs : List Val)
    (pn : String) (pt : Ty) (p : Pos) (hi : code[τ.pc]? = some (CInstr.pushNamed pn pt, p))
    (hr : Rel sc (.args vs :: pre) below s τ) :
    ∃ υ, Vm.step code τ = .next υ ∧ υ.pc = τ.pc + 1 ∧ Rel sc (.args (vs ++ [τ.regs.a]) :: pre) below s υ ∧
      SameStacks τ υ := by
  obtain ⟨fr, h1, h2⟩ := hr.ctx
  have h1' : τ.ctx = .args vs :: (pre ++ .frame fr :: below) := by simpa using h1
  refine ⟨Vm.advance { τ with ctx := .args (vs ++ [τ.regs.a]) :: (pre ++ .frame fr :: below) }, ?_, rfl, ?_,
    ⟨rfl, rfl, rfl, rfl, rfl, rfl, id⟩⟩
  · simp only [Vm.step, hi, pushArg, h1']
  · exact ⟨hr.coll, ⟨fr, by simp [Vm.advance], h2⟩, hr.typed, hr.out, hr.data, hr.dataIdx, hr.queue, hr.funRes⟩

theorem case_args (W : World) (fuel : Nat) (ih : IHle W fuel) : ArgsIH W (fuel + 1) := by
  intro sc args off pre below vs0 s σ hc hpc hr hw
  cases args with
  | nil =>
    simp only [Proc.Ref.evalArgs, ArgsPost, sizePush, Args.params, List.map_nil, List.append_nil, Nat.add_zero]
    exact ⟨σ, Steps.refl σ, hpc, hr, SameStacks.refl σ, trivial⟩
  | cons e pn pt rest =>
    simp only [AWf] at hw
    obtain ⟨hwe, hwr, hwrest⟩ := hw
    simp only [pushArgs] at hc
    have hce : CodeAt W.code off (compileExprTo W.lay off e pt) := hc.append_left.append_left
    have he := exprTo_correct' W fuel ih sc e pt off (.args vs0 :: pre) below s σ hce hpc hr hwe
    simp only [Proc.Ref.evalArgs, sizePush]
    generalize Proc.Ref.evalTo W.P fuel e pt s = r at he ⊢
    obtain ⟨s1, rv⟩ := r
    cases rv with
    | error o => exact he
    | ok v =>
      obtain ⟨τ, st, hp, hav, hrel, hss, htag⟩ := he
      have hi : W.code[τ.pc]? = some (CInstr.pushNamed pn pt, e.pos) := by
        have := hc.append_left.append_right.head
        simp only [List.length_append, len_expr] at this
        rw [hp]; simp only [sizeExprTo]
        rw [← this]; congr 1
        by_cases h : e.ty = pt <;> simp [h]
      obtain ⟨υ, sυ, hpυ, hrelυ, hssυ⟩ := pushNamed_step W.code sc pre below s1 τ vs0 pn pt e.pos hi hrel
      rw [hav] at hrelυ
      have hcr : CodeAt W.code υ.pc (pushArgs W.lay υ.pc rest) := by
        have := hc.append_right
        simp only [List.length_append, List.length_singleton, len_expr] at this
        have e1 : υ.pc = off + sizeExpr e + (if e.ty = pt then 0 else 1) + 1 := by
          rw [hpυ, hp]; simp only [sizeExprTo]; omega
        have e2 : off + (sizeExpr e + (if e.ty = pt then [] else [(CInstr.cast pt, e.pos)]).length + 1) = υ.pc := by
          rw [e1]; by_cases h : e.ty = pt <;> simp [h] <;> omega
        rw [e1]; rw [e1] at e2
        exact this.at e2
      have hrest := (ih.self.args) sc rest υ.pc pre below (vs0 ++ [v]) s1 υ hcr rfl hrelυ hwrest
      simp only
      generalize Proc.Ref.evalArgs W.P fuel rest s1 = r2 at hrest ⊢
      obtain ⟨s2, rv2⟩ := r2
      have pre1 : Steps W.code σ υ := st.trans (Steps.one sυ)
      cases rv2 with
      | error o => exact ErrPost.of_steps pre1 hrest
      | ok vals =>
        obtain ⟨ω, st2, hp2, hrel2, hss2, htags⟩ := hrest
        refine ⟨ω, pre1.trans st2, ?_, ?_, (hss.trans hssυ).trans hss2, ?_⟩
        · rw [hp2, hpυ, hp]; simp only [sizeExprTo, sizePush]; omega
        · rw [List.append_assoc] at hrel2; exact hrel2
        · simp only [Args.params, List.map_cons, htag, htags]

/-! ### the epilogue -/

/-- everything but the program counter, the registers, the context stack, the by-reference queue and the function result
is as it was -/
structure Frozen (σ τ : Vm) : Prop where
  regStack : τ.regStack = σ.regStack
  vals : τ.vals = σ.vals
  paths : τ.paths = σ.paths
  out : τ.out = σ.out
  skipNewline : τ.skipNewline = σ.skipNewline
  data : τ.data = σ.data
  dataIdx : τ.dataIdx = σ.dataIdx
  rets : τ.rets = σ.rets
  marks : τ.marks = σ.marks
  trace : τ.trace = σ.trace

theorem Frozen.refl (σ : Vm) : Frozen σ σ := ⟨rfl, rfl, rfl, rfl, rfl, rfl, rfl, rfl, rfl, rfl⟩

theorem Frozen.trans {a b c : Vm} (h₁ : Frozen a b) (h₂ : Frozen b c) : Frozen a c :=
  ⟨h₂.regStack.trans h₁.regStack, h₂.vals.trans h₁.vals, h₂.paths.trans h₁.paths, h₂.out.trans h₁.out,
    h₂.skipNewline.trans h₁.skipNewline, h₂.data.trans h₁.data, h₂.dataIdx.trans h₁.dataIdx,
    h₂.rets.trans h₁.rets, h₂.marks.trans h₁.marks, h₂.trace.trans h₁.trace⟩

/-- the values the epilogue queues: for every by-reference actual the callee's final value of its parameter -/
def refVals : Nat → Args → List Val → List Val
  | _, .nil, _ => []
  | i, .cons (.var _ t _) _ _ rest, callee => callee.getD i (zeroOf t) :: refVals (i + 1) rest callee
  | i, .cons _ _ _ rest, callee => refVals (i + 1) rest callee

/-- the callee's frame holds, created, the final value of every by-reference parameter -/
def RefsOk (fr : Frame) (callee : List Val) : Nat → Args → Prop
  | _, .nil => True
  | i, .cons e _ _ rest =>
    (∀ x t q, e = .var x t q → fr[i]? = some (some (callee.getD i (zeroOf t)))) ∧ RefsOk fr callee (i + 1) rest

/-- every by-reference actual is a slot of the caller's scope at the variable's type, and the value that comes back has
that type -/
def WbOk (sc : Scope) (callee : List Val) : Nat → Args → Prop
  | _, .nil => True
  | i, .cons e _ _ rest =>
    (∀ x t q, e = .var x t q → sc.slots[x]? = some t ∧ (callee.getD i (zeroOf t)).tag = t) ∧ WbOk sc callee (i + 1) rest

theorem params_length : ∀ (args : Args), args.params.length = args.length
  | .nil => rfl
  | .cons _ _ _ rest => by simp [Args.params, Args.length, params_length rest]

theorem refsOk_of (scd : Scope) (fr : Frame) (callee : List Val) (hfr : FrameRel scd fr callee) (sg : Sigs) (sl : List Ty) :
    ∀ (args : Args) (i : Nat), AWf sg sl args →
      (∀ (k : Nat) (pn : String) (pt : Ty), args.params[k]? = some (pn, pt) → scd.slots[i + k]? = some pt) →
      i + args.length ≤ scd.np → RefsOk fr callee i args
  | .nil, _, _, _, _ => trivial
  | .cons e pn pt rest, i, hw, hsl, hnp => by
    simp only [AWf] at hw
    obtain ⟨hwe, hwr, hwrest⟩ := hw
    refine ⟨?_, refsOk_of scd fr callee hfr sg sl rest (i + 1) hwrest ?_ ?_⟩
    · intro x t q he
      subst he
      have ht : t = pt := hwr rfl
      subst ht
      have hs : scd.slots[i]? = some t := by
        have := hsl 0 pn t (by simp [Args.params])
        simpa using this
      obtain ⟨v, hv⟩ := hfr.created i (by simp only [Args.length] at hnp; omega)
      have hg := hfr.get i t hs
      simp only [getVar, hv] at hg
      rw [hv, hg]
    · intro k pn' pt' hk
      have := hsl (k + 1) pn' pt' (by simpa [Args.params] using hk)
      rw [show i + 1 + k = i + (k + 1) by omega]; exact this
    · simp only [Args.length] at hnp; omega

theorem wbOk_of (sc : Scope) (dslots : List Ty) (callee : List Val) (hty : Typed dslots callee) (sg : Sigs) :
    ∀ (args : Args) (i : Nat), AWf sg sc.slots args →
      (∀ (k : Nat) (pn : String) (pt : Ty), args.params[k]? = some (pn, pt) → dslots[i + k]? = some pt) →
      WbOk sc callee i args
  | .nil, _, _, _ => trivial
  | .cons e pn pt rest, i, hw, hsl => by
    simp only [AWf] at hw
    obtain ⟨hwe, hwr, hwrest⟩ := hw
    refine ⟨?_, wbOk_of sc dslots callee hty sg rest (i + 1) hwrest ?_⟩
    · intro x t q he
      subst he
      have ht : t = pt := hwr rfl
      subst ht
      simp only [EWf] at hwe
      have hs : dslots[i]? = some t := by
        have := hsl 0 pn t (by simp [Args.params])
        simpa using this
      exact ⟨hwe, RbThm.C01Sim.SimRead.typed_getD_tag hty hs _⟩
    · intro k pn' pt' hk
      have := hsl (k + 1) pn' pt' (by simpa [Args.params] using hk)
      rw [show i + 1 + k = i + (k + 1) by omega]; exact this

/-- `EnqueueToReturnStack i` for every by-reference actual, left to right -/
theorem enq_phase (code : Code) (fr : Frame) (callee : List Val) : ∀ (args : Args) (i : Nat) (τ : Vm),
    CodeAt code τ.pc (enqueues i args) → curVars τ.ctx = some fr → RefsOk fr callee i args →
    ∃ υ, Steps code τ υ ∧ υ.pc = τ.pc + refCount args ∧ υ.queue = τ.queue ++ refVals i args callee ∧
      υ.ctx = τ.ctx ∧ υ.funRes = τ.funRes ∧ υ.regs = τ.regs ∧ Frozen τ υ
  | .nil, i, τ, _, _, _ => ⟨τ, Steps.refl τ, by simp [refCount], by simp [refVals], rfl, rfl, rfl, Frozen.refl τ⟩
  | .cons e pn pt rest, i, τ, hc, hcv, hok => by
    obtain ⟨hok1, hok2⟩ := hok
    cases e with
    | var x t q =>
      simp only [enqueues, Proc.Expr.isRef, if_true, Proc.Expr.pos] at hc
      have h0 : code[τ.pc]? = some (CInstr.enqueue i, q) := hc.append_left.head
      have hv := hok1 x t q rfl
      let τ1 : Vm := Vm.advance { τ with queue := τ.queue ++ [callee.getD i (zeroOf t)] }
      have s1 : Vm.step code τ = .next τ1 := by simp only [Vm.step, h0, hcv, hv]; rfl
      obtain ⟨υ, st, hp, hq, hcx, hf, hrg, hfz⟩ := enq_phase code fr callee rest (i + 1) τ1 (by
        have := hc.append_right
        exact (by simpa using this : CodeAt code (τ.pc + 1) _)) hcv hok2
      refine ⟨υ, Steps.cons s1 st, ?_, ?_, hcx, hf, hrg,
        Frozen.trans (show Frozen τ τ1 from ⟨rfl, rfl, rfl, rfl, rfl, rfl, rfl, rfl, rfl, rfl⟩) hfz⟩
      · rw [hp]; simp only [τ1, Vm.advance, refCount, Proc.Expr.isRef, if_true]; omega
      · rw [hq]; simp only [τ1, Vm.advance, refVals, List.append_assoc, List.singleton_append]
    | lit v q =>
      simp only [enqueues, Proc.Expr.isRef, Bool.false_eq_true, if_false, List.nil_append] at hc
      simpa [refCount, refVals, Proc.Expr.isRef] using enq_phase code fr callee rest (i + 1) τ hc hcv hok2
    | un op e' q =>
      simp only [enqueues, Proc.Expr.isRef, Bool.false_eq_true, if_false, List.nil_append] at hc
      simpa [refCount, refVals, Proc.Expr.isRef] using enq_phase code fr callee rest (i + 1) τ hc hcv hok2
    | bin op l r t q =>
      simp only [enqueues, Proc.Expr.isRef, Bool.false_eq_true, if_false, List.nil_append] at hc
      simpa [refCount, refVals, Proc.Expr.isRef] using enq_phase code fr callee rest (i + 1) τ hc hcv hok2
    | paren e' q =>
      simp only [enqueues, Proc.Expr.isRef, Bool.false_eq_true, if_false, List.nil_append] at hc
      simpa [refCount, refVals, Proc.Expr.isRef] using enq_phase code fr callee rest (i + 1) τ hc hcv hok2
    | callFn f a t q =>
      simp only [enqueues, Proc.Expr.isRef, Bool.false_eq_true, if_false, List.nil_append] at hc
      simpa [refCount, refVals, Proc.Expr.isRef] using enq_phase code fr callee rest (i + 1) τ hc hcv hok2

/-- `DequeueFromReturnStack; VarPathName x; CopyAToVarPath` for every by-reference actual, left to right: the caller's
frame receives what `Ref.writeBack` prescribes -/
theorem wb_phase (code : Code) (sc : Scope) (pre below : List CtxState) (hcoll : Collecting pre) (callee : List Val) :
    ∀ (args : Args) (i : Nat) (τ : Vm) (fr : Frame) (env : List Val) (tail : List Val),
    CodeAt code τ.pc (writeBacks args) → τ.ctx = pre ++ .frame fr :: below → FrameRel sc fr env → Typed sc.slots env →
    τ.queue = refVals i args callee ++ tail → WbOk sc callee i args →
    ∃ υ fr', Steps code τ υ ∧ υ.pc = τ.pc + 3 * refCount args ∧ υ.ctx = pre ++ .frame fr' :: below ∧
      FrameRel sc fr' (Proc.Ref.writeBack args i callee env) ∧ Typed sc.slots (Proc.Ref.writeBack args i callee env) ∧
      υ.queue = tail ∧ υ.funRes = τ.funRes ∧ Frozen τ υ
  | .nil, i, τ, fr, env, tail, _, hcx, hfr, hty, hq, _ =>
    ⟨τ, fr, Steps.refl τ, by simp [refCount], hcx, by simpa [Proc.Ref.writeBack] using hfr,
      by simpa [Proc.Ref.writeBack] using hty, by simpa [refVals] using hq, rfl, Frozen.refl τ⟩
  | .cons e pn pt rest, i, τ, fr, env, tail, hc, hcx, hfr, hty, hq, hok => by
    obtain ⟨hok1, hok2⟩ := hok
    cases e with
    | var x t q =>
      obtain ⟨hx, hvt⟩ := hok1 x t q rfl
      simp only [writeBacks] at hc
      simp only [refVals, List.cons_append] at hq
      have h0 : code[τ.pc]? = some (CInstr.dequeue, q) := hc.append_left.head
      have h1 : code[τ.pc + 1]? = some (CInstr.varPath x t, q) := hc.append_left.tail.head
      have h2 : code[τ.pc + 1 + 1]? = some (CInstr.copyAToVarPath, q) := hc.append_left.tail.tail.head
      let v := callee.getD i (zeroOf t)
      let τ1 : Vm := Vm.advance { Vm.setA τ v with queue := refVals (i + 1) rest callee ++ tail }
      let τ2 : Vm := Vm.advance { τ1 with paths := (x, t) :: τ1.paths }
      let τ3 : Vm := Vm.advance { τ2 with ctx := pre ++ .frame (setVar fr x v) :: below, paths := τ.paths }
      have s1 : Vm.step code τ = .next τ1 := by simp only [Vm.step, h0, hq]; rfl
      have s2 : Vm.step code τ1 = .next τ2 := by simp only [Vm.step, τ1, Vm.advance, Vm.setA, h1]; rfl
      have s3 : Vm.step code τ2 = .next τ3 := by
        simp only [Vm.step, τ2, τ1, Vm.advance, Vm.setA, h2, hcx, modCur_pre _ hcoll]; rfl
      obtain ⟨υ, fr', st, hp, hcx', hfr', hty', hq', hf', hfz⟩ :=
        wb_phase code sc pre below hcoll callee rest (i + 1) τ3 (setVar fr x v) (env.set x v) tail
          (by have := hc.append_right; simpa [τ3, τ2, τ1, Vm.advance, Vm.setA, Nat.add_assoc] using this) rfl
          (hfr.set hx hty.1 v) (RbThm.C01Sim.SimRead.typed_set hty hx hvt) rfl hok2
      refine ⟨υ, fr', Steps.cons s1 (Steps.cons s2 (Steps.cons s3 st)), ?_, hcx', ?_, ?_, hq', ?_,
        Frozen.trans (show Frozen τ τ3 from ⟨rfl, rfl, rfl, rfl, rfl, rfl, rfl, rfl, rfl, rfl⟩) hfz⟩
      · rw [hp]; simp only [τ3, τ2, τ1, Vm.advance, Vm.setA, refCount, Proc.Expr.isRef, if_true]; omega
      · simp only [Proc.Ref.writeBack]; exact hfr'
      · simp only [Proc.Ref.writeBack]; exact hty'
      · exact hf'
    | lit v q =>
      simp only [writeBacks] at hc
      simpa [refCount, refVals, Proc.Expr.isRef, Proc.Ref.writeBack] using
        wb_phase code sc pre below hcoll callee rest (i + 1) τ fr env tail hc hcx hfr hty (by simpa [refVals] using hq) hok2
    | un op e' q =>
      simp only [writeBacks] at hc
      simpa [refCount, refVals, Proc.Expr.isRef, Proc.Ref.writeBack] using
        wb_phase code sc pre below hcoll callee rest (i + 1) τ fr env tail hc hcx hfr hty (by simpa [refVals] using hq) hok2
    | bin op l r t q =>
      simp only [writeBacks] at hc
      simpa [refCount, refVals, Proc.Expr.isRef, Proc.Ref.writeBack] using
        wb_phase code sc pre below hcoll callee rest (i + 1) τ fr env tail hc hcx hfr hty (by simpa [refVals] using hq) hok2
    | paren e' q =>
      simp only [writeBacks] at hc
      simpa [refCount, refVals, Proc.Expr.isRef, Proc.Ref.writeBack] using
        wb_phase code sc pre below hcoll callee rest (i + 1) τ fr env tail hc hcx hfr hty (by simpa [refVals] using hq) hok2
    | callFn f a t q =>
      simp only [writeBacks] at hc
      simpa [refCount, refVals, Proc.Expr.isRef, Proc.Ref.writeBack] using
        wb_phase code sc pre below hcoll callee rest (i + 1) τ fr env tail hc hcx hfr hty (by simpa [refVals] using hq) hok2

/-! ### the callee's activation environment -/

theorem freshEnv_get_lt (slots : List Ty) (vals : List Val) (x : Nat) (h : x < vals.length) :
    (Proc.Ref.freshEnv slots vals)[x]? = vals[x]? := by
  simp only [Proc.Ref.freshEnv]
  rw [List.getElem?_append_left h]

theorem freshEnv_get_ge (slots : List Ty) (vals : List Val) (x : Nat) (t : Ty) (h : vals.length ≤ x)
    (hs : slots[x]? = some t) : (Proc.Ref.freshEnv slots vals)[x]? = some (zeroOf t) := by
  simp only [Proc.Ref.freshEnv]
  rw [List.getElem?_append_right h, List.getElem?_map, List.getElem?_drop]
  have : vals.length + (x - vals.length) = x := by omega
  rw [this, hs]; rfl

theorem slots_ge_params (d : ProcDecl SStmt) (hs : SlotsOk d) : d.params.length ≤ d.slots.length := by
  by_cases h : d.params.length = 0
  · omega
  · have hlt : d.params.length - 1 < d.params.length := by omega
    obtain ⟨pn, pt⟩ := d.params[d.params.length - 1]
    have := hs.1 (d.params.length - 1) _ _ (List.getElem?_eq_getElem hlt)
    have := (List.getElem?_eq_some_iff.mp this).1
    omega

theorem frameRel_fresh (d : ProcDecl SStmt) (vals : List Val) (hlen : vals.length = d.params.length) :
    FrameRel (procScope d) (vals.map some) (Proc.Ref.freshEnv d.slots vals) := by
  refine ⟨?_, ?_⟩
  · intro x t hs
    simp only [procScope] at hs
    by_cases hx : x < vals.length
    · have h1 : (vals.map some)[x]? = some (some vals[x]) := by
        rw [List.getElem?_map, List.getElem?_eq_getElem hx]; rfl
      simp only [getVar, h1, List.getD, freshEnv_get_lt _ _ _ hx, List.getElem?_eq_getElem hx, Option.getD_some]
    · have h1 : (vals.map some)[x]? = none := List.getElem?_eq_none (by simp; omega)
      simp only [getVar, h1, List.getD, freshEnv_get_ge d.slots vals x t (by omega) hs, Option.getD_some]
  · intro i hi
    simp only [procScope] at hi
    have hx : i < vals.length := by omega
    exact ⟨vals[i], by rw [List.getElem?_map, List.getElem?_eq_getElem hx]; rfl⟩

theorem typed_fresh (d : ProcDecl SStmt) (vals : List Val) (hs : SlotsOk d)
    (htags : vals.map Val.tag = d.params.map (·.2)) : Typed d.slots (Proc.Ref.freshEnv d.slots vals) := by
  have hlen : vals.length = d.params.length := by
    have := congrArg List.length htags
    simpa using this
  have hle := slots_ge_params d hs
  refine ⟨by simp only [Proc.Ref.freshEnv, List.length_append, List.length_map, List.length_drop]; omega, ?_⟩
  intro x t hx
  by_cases hxv : x < vals.length
  · refine ⟨vals[x], by rw [freshEnv_get_lt _ _ _ hxv, List.getElem?_eq_getElem hxv], ?_⟩
    have hxp : x < d.params.length := by omega
    have h1 : (vals.map Val.tag)[x]? = some vals[x].tag := by
      rw [List.getElem?_map, List.getElem?_eq_getElem hxv]; rfl
    have h2 : (d.params.map (·.2))[x]? = some (d.params[x]).2 := by
      rw [List.getElem?_map, List.getElem?_eq_getElem hxp]; rfl
    rw [htags, h2] at h1
    have h3 := hs.1 x (d.params[x]).1 (d.params[x]).2 (by rw [List.getElem?_eq_getElem hxp])
    rw [hx] at h3
    injection h1 with h1
    injection h3 with h3
    rw [← h1, h3]
  · exact ⟨zeroOf t, freshEnv_get_ge _ _ _ t (by omega) hx, zeroOf_tag t⟩

/-- the label of a procedure (and, for a FUNCTION, the instruction that loads the default result): control arrives at
the body with everything but the registers as it was -/
theorem proc_entry (code : Code) (lay : List Nat) (tgt : Nat) (d : ProcDecl SStmt) (τ : Vm)
    (hc : CodeAt code tgt (compileProc lay tgt d)) (hpc : τ.pc = tgt) :
    ∃ k r, Steps code τ { τ with pc := tgt + k, regs := r } ∧
      CodeAt code (tgt + k) (compileStmt lay "" 0 0 (tgt + k) d.body) ∧
      code[tgt + k + sizeStmt 0 0 d.body]? = some (CInstr.popRet, d.pos) := by
  subst hpc
  unfold compileProc at hc
  cases hres : d.result with
  | none =>
    simp only [hres] at hc
    have h0 : code[τ.pc]? = some (CInstr.label (":sub:" ++ d.name), d.pos) := hc.append_left.append_left.head
    refine ⟨1, τ.regs, Steps.one ?_, ?_, ?_⟩
    · simp only [Vm.step, h0]; rfl
    · have := hc.append_left.append_right
      simpa using this
    · have := hc.append_right.head
      simp only [List.length_append, List.length_singleton, len_stmt] at this
      rw [← this]; congr 1; omega
  | some t =>
    simp only [hres] at hc
    have h0 : code[τ.pc]? = some (CInstr.label (":fun:" ++ d.name), d.pos) := hc.append_left.append_left.head
    have h1 : code[τ.pc + 1]? = some (CInstr.allocate t, d.pos) := hc.append_left.append_left.tail.head
    refine ⟨2, { τ.regs with a := zeroOf t }, Steps.cons (τ := Vm.advance τ) ?_ (Steps.one ?_), ?_, ?_⟩
    · simp only [Vm.step, h0]
    · simp only [Vm.step, Vm.advance, h1]; rfl
    · have := hc.append_left.append_right
      simpa using this
    · have := hc.append_right.head
      simp only [List.length_append, List.length_cons, List.length_nil, len_stmt] at this
      rw [← this]; congr 1; omega

/-- the epilogue of a call, from the state in which the callee has returned (its frame still on top) -/
theorem epilogue (code : Code) (sc scd : Scope) (pre below : List CtxState) (args : Args) (p p' : Pos) (res : Option Ty)
    (ra : Nat) (τ : Vm) (env1 : List Val) (s2 : St) (fr1 : Frame) (tr : List Pos) (sg : Sigs)
    (hc : CodeAt code ra (enqueues 0 args ++
      (match res with | some t => [(CInstr.stashResult args.length t, p)] | none => []) ++
      [(CInstr.popStack, p)] ++ writeBacks args ++ (match res with | some _ => [(CInstr.unStash, p)] | none => [])))
    (hpc : τ.pc = ra) (hrel : Rel scd [] (pre ++ .frame fr1 :: below) s2 τ) (hcoll : Collecting pre)
    (hfr1 : FrameRel sc fr1 env1) (hty1 : Typed sc.slots env1) (htr : τ.trace = p' :: tr)
    (haw : AWf sg sc.slots args)
    (hsl : ∀ (k : Nat) (pn : String) (pt : Ty), args.params[k]? = some (pn, pt) → scd.slots[0 + k]? = some pt)
    (hnp : 0 + args.length ≤ scd.np)
    (hrs : ∀ t, res = some t → scd.slots[args.length]? = some t) :
    ∃ υ, Steps code τ υ ∧
      υ.pc = ra + (refCount args + (if res.isSome then 1 else 0) + 1 + 3 * refCount args +
        (if res.isSome then 1 else 0)) ∧
      Rel sc pre below { s2 with env := Proc.Ref.writeBack args 0 s2.env env1 } υ ∧ υ.trace = tr ∧
      υ.regStack = τ.regStack ∧ υ.vals = τ.vals ∧ υ.paths = τ.paths ∧ υ.rets = τ.rets ∧ υ.marks = τ.marks ∧
      υ.skipNewline = τ.skipNewline ∧
      ∀ t, res = some t → υ.regs.a = s2.env.getD args.length (zeroOf t) ∧
        (s2.env.getD args.length (zeroOf t)).tag = t := by
  subst hpc
  obtain ⟨fr2, hctx, hfr2⟩ := hrel.ctx
  simp only [List.nil_append] at hctx
  have hcv : curVars τ.ctx = some fr2 := by rw [hctx]; rfl
  have hrefs := refsOk_of scd fr2 s2.env hfr2 sg sc.slots args 0 haw hsl hnp
  have hwb := wbOk_of sc scd.slots s2.env hrel.typed sg args 0 haw hsl
  obtain ⟨c, rest, hcr⟩ : ∃ c rest, pre ++ .frame fr1 :: below = c :: rest := by
    cases pre with
    | nil => exact ⟨_, _, rfl⟩
    | cons a l => exact ⟨_, _, rfl⟩
  cases res with
  | none =>
    simp only [List.append_nil] at hc
    obtain ⟨υ1, st1, hp1, hq1, hcx1, hf1, hrg1, hfz1⟩ :=
      enq_phase code fr2 s2.env args 0 τ hc.append_left.append_left hcv hrefs
    have hpop : code[υ1.pc]? = some (CInstr.popStack, p) := by
      have := hc.append_left.append_right.head
      rw [len_enqueues] at this
      rw [hp1]; exact this
    let υ2 : Vm := Vm.advance { υ1 with ctx := pre ++ .frame fr1 :: below, trace := tr }
    have s2' : Vm.step code υ1 = .next υ2 := by
      have e1 : υ1.ctx = .frame fr2 :: c :: rest := by rw [hcx1, hctx, hcr]
      have e2 : υ1.trace = p' :: tr := by rw [hfz1.trace, htr]
      simp only [Vm.step, hpop, e1, e2, υ2, hcr]
    have hq2 : υ2.queue = refVals 0 args s2.env ++ [] := by
      simp only [υ2, Vm.advance, hq1, hrel.queue, List.nil_append, List.append_nil]
    have hcw : CodeAt code υ2.pc (writeBacks args) := by
      have := hc.append_right
      simp only [List.length_append, List.length_singleton, len_enqueues] at this
      simp only [υ2, Vm.advance, hp1]
      exact this.at (by omega)
    obtain ⟨υ3, fr', st3, hp3, hcx3, hfr3, hty3, hq3, hf3, hfz3⟩ :=
      wb_phase code sc pre below hcoll s2.env args 0 υ2 fr1 env1 [] hcw rfl hfr1 hty1 hq2 hwb
    refine ⟨υ3, (st1.trans (Steps.one s2')).trans st3, ?_, ?_, ?_, ?_, ?_, ?_, ?_, ?_, ?_, ?_⟩
    · rw [hp3]; simp only [υ2, Vm.advance, hp1, Option.isSome_none, Bool.false_eq_true, if_false]; omega
    · exact ⟨hcoll, ⟨fr', hcx3, hfr3⟩, hty3, by rw [hfz3.out]; simp only [υ2, Vm.advance]; rw [hfz1.out, hrel.out],
        by rw [hfz3.data]; simp only [υ2, Vm.advance]; rw [hfz1.data, hrel.data],
        by rw [hfz3.dataIdx]; simp only [υ2, Vm.advance]; rw [hfz1.dataIdx, hrel.dataIdx], hq3,
        by rw [hf3]; simp only [υ2, Vm.advance]; rw [hf1, hrel.funRes]⟩
    · exact hfz3.trace
    · rw [hfz3.regStack]; simp only [υ2, Vm.advance]; exact hfz1.regStack
    · rw [hfz3.vals]; simp only [υ2, Vm.advance]; exact hfz1.vals
    · rw [hfz3.paths]; simp only [υ2, Vm.advance]; exact hfz1.paths
    · rw [hfz3.rets]; simp only [υ2, Vm.advance]; exact hfz1.rets
    · rw [hfz3.marks]; simp only [υ2, Vm.advance]; exact hfz1.marks
    · rw [hfz3.skipNewline]; simp only [υ2, Vm.advance]; exact hfz1.skipNewline
    · intro t ht; cases ht
  | some t =>
    simp only at hc
    obtain ⟨υ1, st1, hp1, hq1, hcx1, hf1, hrg1, hfz1⟩ :=
      enq_phase code fr2 s2.env args 0 τ hc.append_left.append_left.append_left.append_left hcv hrefs
    have hstash : code[υ1.pc]? = some (CInstr.stashResult args.length t, p) := by
      have := hc.append_left.append_left.append_left.append_right.head
      rw [len_enqueues] at this
      rw [hp1]; exact this
    have hrt := hrs t rfl
    let rv := s2.env.getD args.length (zeroOf t)
    let υ1' : Vm := Vm.advance { υ1 with funRes := some rv }
    have s1' : Vm.step code υ1 = .next υ1' := by
      have e1 : curVars υ1.ctx = some fr2 := by rw [hcx1]; exact hcv
      simp only [Vm.step, hstash, e1, hfr2.get _ t hrt]; rfl
    have hpop : code[υ1'.pc]? = some (CInstr.popStack, p) := by
      have := hc.append_left.append_left.append_right.head
      simp only [List.length_append, List.length_singleton, len_enqueues] at this
      simp only [υ1', Vm.advance, hp1]; exact this
    let υ2 : Vm := Vm.advance { υ1' with ctx := pre ++ .frame fr1 :: below, trace := tr }
    have s2' : Vm.step code υ1' = .next υ2 := by
      have e1 : υ1'.ctx = .frame fr2 :: c :: rest := by simp only [υ1', Vm.advance]; rw [hcx1, hctx, hcr]
      have e2 : υ1'.trace = p' :: tr := by simp only [υ1', Vm.advance]; rw [hfz1.trace, htr]
      simp only [Vm.step, hpop, e1, e2, υ2, hcr]
    have hq2 : υ2.queue = refVals 0 args s2.env ++ [] := by
      simp only [υ2, υ1', Vm.advance, hq1, hrel.queue, List.nil_append, List.append_nil]
    have hcw : CodeAt code υ2.pc (writeBacks args) := by
      have := hc.append_left.append_right
      simp only [List.length_append, List.length_singleton, len_enqueues] at this
      simp only [υ2, υ1', Vm.advance, hp1]
      exact this.at (by omega)
    obtain ⟨υ3, fr', st3, hp3, hcx3, hfr3, hty3, hq3, hf3, hfz3⟩ :=
      wb_phase code sc pre below hcoll s2.env args 0 υ2 fr1 env1 [] hcw rfl hfr1 hty1 hq2 hwb
    have hun : code[υ3.pc]? = some (CInstr.unStash, p) := by
      have := hc.append_right.head
      simp only [List.length_append, List.length_singleton, len_enqueues, len_writeBacks] at this
      rw [hp3]; simp only [υ2, υ1', Vm.advance, hp1]
      rw [← this]; congr 1; omega
    let υ4 : Vm := Vm.advance { Vm.setA υ3 rv with funRes := none }
    have s4 : Vm.step code υ3 = .next υ4 := by
      have e1 : υ3.funRes = some rv := hf3
      simp only [Vm.step, hun, e1]; rfl
    refine ⟨υ4, ((st1.trans (Steps.cons s1' (Steps.one s2'))).trans st3).trans (Steps.one s4),
      ?_, ?_, ?_, ?_, ?_, ?_, ?_, ?_, ?_, ?_⟩
    · simp only [υ4, Vm.advance, Vm.setA, hp3, υ2, υ1', hp1, Option.isSome_some, if_true]; omega
    · exact ⟨hcoll, ⟨fr', hcx3, hfr3⟩, hty3,
        by simp only [υ4, Vm.advance, Vm.setA]; rw [hfz3.out]; simp only [υ2, υ1', Vm.advance]; rw [hfz1.out, hrel.out],
        by simp only [υ4, Vm.advance, Vm.setA]; rw [hfz3.data]; simp only [υ2, υ1', Vm.advance]; rw [hfz1.data, hrel.data],
        by simp only [υ4, Vm.advance, Vm.setA]; rw [hfz3.dataIdx]; simp only [υ2, υ1', Vm.advance]
           rw [hfz1.dataIdx, hrel.dataIdx],
        hq3, rfl⟩
    · exact hfz3.trace
    · simp only [υ4, Vm.advance, Vm.setA]; rw [hfz3.regStack]; simp only [υ2, υ1', Vm.advance]; exact hfz1.regStack
    · simp only [υ4, Vm.advance, Vm.setA]; rw [hfz3.vals]; simp only [υ2, υ1', Vm.advance]; exact hfz1.vals
    · simp only [υ4, Vm.advance, Vm.setA]; rw [hfz3.paths]; simp only [υ2, υ1', Vm.advance]; exact hfz1.paths
    · simp only [υ4, Vm.advance, Vm.setA]; rw [hfz3.rets]; simp only [υ2, υ1', Vm.advance]; exact hfz1.rets
    · simp only [υ4, Vm.advance, Vm.setA]; rw [hfz3.marks]; simp only [υ2, υ1', Vm.advance]; exact hfz1.marks
    · simp only [υ4, Vm.advance, Vm.setA]; rw [hfz3.skipNewline]; simp only [υ2, υ1', Vm.advance]
      exact hfz1.skipNewline
    · intro t' ht'
      cases ht'
      exact ⟨rfl, RbThm.C01Sim.SimRead.typed_getD_tag hrel.typed hrt _⟩

/-- the code of a call: prologue (up to the `Jump`) and epilogue (from the return address) -/
theorem callCode_split (lay : List Nat) (off f : Nat) (args : Args) (p : Pos) (res : Option Ty) :
    callCode lay off f args p res =
      ([(CInstr.beginArgs, p)] ++ pushArgs lay (off + 1) args ++
        [(CInstr.pushStack, p), (CInstr.pushRet (off + 1 + sizePush args + 3), p),
         (CInstr.jump (lay.getD f 0), p)]) ++
      (enqueues 0 args ++ (match res with | some t => [(CInstr.stashResult args.length t, p)] | none => []) ++
        [(CInstr.popStack, p)] ++ writeBacks args ++
        (match res with | some _ => [(CInstr.unStash, p)] | none => [])) := by
  cases res <;> simp only [callCode, List.append_assoc]

/-- **`call_correct`** — a call of procedure `f` with actual arguments `args` does what `Ref.call` prescribes -/
theorem call_correct (W : World) (procs : List (ProcDecl SStmt)) (hp : ProcsOk W procs) (fuel : Nat)
    (ih : IHle W fuel) : CallIH W (fuel + 1) := by
  intro sc f args p res off pre below s σ hc hpc hr hsg haw
  -- the declaration of the callee
  have hsg' : (sigsOf procs)[f]? = some (res, args.params) := by rw [← hp.sg]; exact hsg
  simp only [sigsOf, List.getElem?_map] at hsg'
  cases hd : procs[f]? with
  | none => simp [hd] at hsg'
  | some d =>
    simp only [hd, Option.map_some, Option.some.injEq, Prod.mk.injEq] at hsg'
    obtain ⟨hres, hpar⟩ := hsg'
    have hPf : W.P.procs[f]? = some { d with body := desugar d.body } := by
      rw [hp.ref, List.getElem?_map, hd]; rfl
    obtain ⟨hslots, hwfb⟩ := hp.wf f d hd
    have hat := hp.at_ f d hd
    have hplen : d.params.length = args.length := by rw [hpar, params_length]
    subst hpc
    -- pieces of the code
    rw [callCode_split] at hc
    have hcPro := hc.append_left
    have hcEpi := hc.append_right
    simp only [List.length_append, List.length_singleton, List.length_cons, List.length_nil, len_pushArgs] at hcEpi
    -- BeginCollectArguments
    have h0 : W.code[σ.pc]? = some (CInstr.beginArgs, p) := hcPro.append_left.append_left.head
    let σ1 : Vm := Vm.advance { σ with ctx := .args [] :: σ.ctx }
    have s1 : Vm.step W.code σ = .next σ1 := by simp only [Vm.step, h0]; rfl
    have hrel1 : Rel sc (.args [] :: pre) below s σ1 := by
      obtain ⟨fr, h1, h2⟩ := hr.ctx
      exact ⟨hr.coll, ⟨fr, by simp [σ1, Vm.advance, h1], h2⟩, hr.typed, hr.out, hr.data, hr.dataIdx, hr.queue,
        hr.funRes⟩
    have hcArgs : CodeAt W.code (σ.pc + 1) (pushArgs W.lay (σ.pc + 1) args) := by
      have := hcPro.append_left.append_right
      simpa using this
    have hA := ih.self.args sc args (σ.pc + 1) pre below [] s σ1 hcArgs rfl hrel1 haw
    simp only [Proc.Ref.call, hPf]
    generalize Proc.Ref.evalArgs W.P fuel args s = rA at hA ⊢
    obtain ⟨s1', rv⟩ := rA
    cases rv with
    | error o => exact ErrPost.of_steps (Steps.one s1) hA
    | ok vals =>
      obtain ⟨τ2, st2, hp2, hrel2, hss2, htags⟩ := hA
      simp only [List.nil_append] at hrel2
      obtain ⟨fr1, hctx2, hfr1⟩ := hrel2.ctx
      have hctx2' : τ2.ctx = .args vals :: (pre ++ .frame fr1 :: below) := by simpa using hctx2
      have htags' : vals.map Val.tag = d.params.map (·.2) := by rw [hpar]; exact htags
      have hvlen : vals.length = d.params.length := by
        have := congrArg List.length htags'
        simpa using this
      -- PushStack, PushRet, Jump
      have hM := hcPro.append_right
      simp only [List.length_append, List.length_singleton, len_pushArgs] at hM
      have hm0 : W.code[τ2.pc]? = some (CInstr.pushStack, p) := by
        rw [hp2]; have := hM.head; rw [← this]; congr 1; omega
      have hm1 : W.code[τ2.pc + 1]? = some (CInstr.pushRet (σ.pc + 1 + sizePush args + 3), p) := by
        rw [hp2]; have := hM.tail.head; rw [← this]; congr 1; omega
      have hm2 : W.code[τ2.pc + 1 + 1]? = some (CInstr.jump (W.lay.getD f 0), p) := by
        rw [hp2]; have := hM.tail.tail.head; rw [← this]; congr 1; omega
      let below' : List CtxState := pre ++ .frame fr1 :: below
      let τ3 : Vm := Vm.advance { τ2 with ctx := .frame (vals.map some) :: below', trace := p :: τ2.trace }
      let τ4 : Vm := Vm.advance { τ3 with rets := (σ.pc + 1 + sizePush args + 3) :: τ3.rets,
                                          marks := (τ3.regStack.length + 1) :: τ3.marks }
      let τ5 : Vm := { τ4 with pc := W.lay.getD f 0 }
      have s3 : Vm.step W.code τ2 = .next τ3 := by simp only [Vm.step, hm0, hctx2']; rfl
      have s4 : Vm.step W.code τ3 = .next τ4 := by simp only [Vm.step, τ3, Vm.advance, hm1]; rfl
      have s5 : Vm.step W.code τ4 = .next τ5 := by simp only [Vm.step, τ4, τ3, Vm.advance, hm2]; rfl
      -- the label (and the default result)
      obtain ⟨k, r, stE, hcBody, hpopret⟩ := proc_entry W.code W.lay (W.lay.getD f 0) d τ5 hat rfl
      let σb : Vm := { τ5 with pc := W.lay.getD f 0 + k, regs := r }
      have preB : Steps W.code σ σb :=
        ((Steps.cons s1 st2).trans (Steps.cons s3 (Steps.cons s4 (Steps.one s5)))).trans stE
      -- the body
      have hrelb : Rel (procScope d) [] below' { s1' with env := Proc.Ref.freshEnv d.slots vals } σb :=
        ⟨trivial, ⟨vals.map some, rfl, frameRel_fresh d vals hvlen⟩, typed_fresh d vals hslots htags',
          hrel2.out, hrel2.data, hrel2.dataIdx, hrel2.queue, hrel2.funRes⟩
      have hactb : ActInv (procScope d) 0 0 σb :=
        ⟨fun h => by simp [procScope] at h, fun _ => ⟨_, τ2.rets, τ2.regStack.length + 1, τ2.marks, rfl, rfl, rfl,
          Nat.le_add_left _ _, Nat.zero_le _⟩⟩
      have hB := ih.self.stmt (procScope d) d.body "" 0 0 (W.lay.getD f 0 + k) below'
        { s1' with env := Proc.Ref.freshEnv d.slots vals } σb hcBody rfl hrelb hwfb hactb
      simp only
      generalize Proc.Ref.exec W.P fuel (desugar d.body) { s1' with env := Proc.Ref.freshEnv d.slots vals } = rb
        at hB ⊢
      obtain ⟨s2, o⟩ := rb
      -- the callee returns: by the final `PopRet` or by `EXIT SUB / FUNCTION`
      have hret : Proc.Ref.returns o = true →
          ∃ τr, Steps W.code σb τr ∧ ExitedTo 0 0 σb τr ∧ Rel (procScope d) [] below' s2 τr := by
        intro hro
        cases o with
        | normal =>
          obtain ⟨τb, stb, hpb, hrelbb, hssb⟩ := hB
          have hpr : W.code[τb.pc]? = some (CInstr.popRet, d.pos) := by rw [hpb]; exact hpopret
          have htrunc : truncRegs τb (τ2.regStack.length + 1) = some τb := truncRegs_full τb _ (by rw [hssb.regStack]; rfl)
          let τr : Vm := { τb with pc := σ.pc + 1 + sizePush args + 3, rets := τ2.rets, marks := τ2.marks }
          have sr : Vm.step W.code τb = .next τr := by
            have e1 : τb.rets = (σ.pc + 1 + sizePush args + 3) :: τ2.rets := hssb.rets
            have e2 : τb.marks = (τ2.regStack.length + 1) :: τ2.marks := hssb.marks
            simp only [Vm.step, hpr, e1, e2, htrunc]; rfl
          refine ⟨τr, stb.trans (Steps.one sr), ?_, hrelbb.same rfl rfl rfl rfl rfl rfl⟩
          exact ⟨⟨_, _, rfl, rfl, rfl⟩, hssb.regStack, hssb.vals, hssb.paths, hssb.trace, hssb.skip⟩
        | exited => exact hB
        | halted => cases hro
        | error c q => cases hro
        | inexact => cases hro
        | outOfFuel => cases hro
        | illFormed => cases hro
      cases hro : Proc.Ref.returns o with
      | false =>
        simp only [Bool.false_eq_true, if_false, CallPost]
        refine ErrPost.of_steps preB ?_
        cases o with
        | normal => cases hro
        | exited => cases hro
        | halted => exact hB
        | error c q => exact hB
        | inexact => trivial
        | outOfFuel => trivial
        | illFormed => exact hB
      | true =>
        obtain ⟨τr, str, hx, hrelr⟩ := hret hro
        obtain ⟨a', m', hxr, hxm, hxp⟩ := hx.ret
        have hra : a' = σ.pc + 1 + sizePush args + 3 ∧ τr.rets = τ2.rets := by
          have : (σ.pc + 1 + sizePush args + 3) :: τ2.rets = a' :: τr.rets := hxr
          injection this with h1 h2
          exact ⟨h1.symm, h2.symm⟩
        have hrm : τr.marks = τ2.marks := by
          have : (τ2.regStack.length + 1) :: τ2.marks = m' :: τr.marks := hxm
          injection this with h1 h2
          exact h2.symm
        have hepi := epilogue W.code sc (procScope d) pre below args p p res (σ.pc + 1 + sizePush args + 3) τr
          s1'.env s2 fr1 τ2.trace W.sg (hcEpi.at (by omega)) (by rw [hxp, hra.1]) hrelr hr.coll hfr1 hrel2.typed
          hx.trace haw
          (by
            intro k' pn pt hk
            rw [← hpar] at hk
            simpa [procScope] using hslots.1 k' pn pt hk)
          (by simp only [procScope]; omega)
          (by
            intro t ht
            rw [← hres] at ht
            simpa [procScope, hplen] using hslots.2 t ht)
        obtain ⟨υ, stυ, hpυ, hrelυ, htrυ, hrgυ, hvυ, hpaυ, hrtυ, hmkυ, hskυ, hresυ⟩ := hepi
        simp only [if_true, CallPost]
        refine ⟨υ, (preB.trans str).trans stυ, ?_, hrelυ, ?_, ?_⟩
        · rw [hpυ]; simp only [sizeCall]; omega
        · refine ⟨?_, ?_, ?_, ?_, ?_, ?_, ?_⟩
          · rw [hvυ, hx.vals, List.drop_zero]; exact hss2.vals
          · rw [hpaυ, hx.paths]; exact hss2.paths
          · rw [hrgυ, hx.regStack, List.drop_zero]; exact hss2.regStack
          · rw [hrtυ, hra.2]; exact hss2.rets
          · rw [hmkυ, hrm]; exact hss2.marks
          · rw [htrυ]; exact hss2.trace
          · intro hk; rw [hskυ]; exact hx.skip (hss2.skip hk)
        · intro t ht
          obtain ⟨h1, h2⟩ := hresυ t ht
          have hdr : d.result = some t := by rw [hres]; exact ht
          simp only [hdr, ProcDecl.resultSlot, hplen]
          exact ⟨h1, h2⟩

end RbThm.ProcSim
