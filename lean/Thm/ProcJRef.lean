import RbModel.ProcJ.Ref
/-!
ProcJRef — basic theory of the reference semantics of the layer "procedures ∪ jumps" (`RbModel.ProcJ.Ref`) alone; no generator,
no VM.  Port of `Thm/JmpLShape.lean` and `Thm/JmpLRef.lean` to the thirteen mutually recursive functions of `ProcJ.Ref`.

* `ends`: the outcomes with which an *evaluation* (expression, argument list, call, condition, CASE item, PRINT item) can fail:
  `halted` (END inside a FUNCTION), `error`, `inexact`, `outOfFuel`, `illFormed` — never `jump`, `ret`, `notHere`, `exited`
  (`ends_all`: `eval_ends`, `evalTo_ends`, `evalArgs_ends`, `call_ends`, `evalCond_ends`, `caseMatches_ends`, `anyMatches_ends`,
  `printItems_outcome`): a call answers a `jump` / `notHere` of the callee's body by `illFormed`, a `ret` by error 3;
* `gotosS` / `gotosC`: the GOTO targets inside a statement of the lean syntax; shape of the answers of `exec`, `execCases`,
  `seekCases`, `selectSeek`, `forIter` (`Shape`, `shape_all`): a `jump L` that comes out of a statement comes from a `GOTO L`
  inside it (`exec_jump_mem_gotos`) and names a label that is not inside it (`exec_jump_not_own_label`; together `jump_shape`);
  `notHere` is answered exactly by the statements that are not entered (`exec_enters_ne_notHere`, `exec_run_ne_notHere`,
  `exec_not_entered`, `exec_seek_noLabel`, `exec_notHere_iff`);
* fuel monotonicity of all thirteen functions (`Stable`, `stable_all`, `exec_fuel_mono`, `exec_fuel_le`, `exec_deterministic`,
  `run_fuel_mono`, `run_deterministic`).
-/
namespace RbThm.ProcJRef
set_option linter.unusedVariables false
set_option linter.unusedSimpArgs false
open RbModel RbModel.ProcJ RbModel.ProcJ.Ref
open RbModel.Num hiding Expr
open RbModel.Ast (Pos)
open RbModel.Proc (Var Expr Args PrintItem CaseExpr ProcDecl zeroOf)
open RbModel.Proc.Ref (St codeOf StepSign)

/-! ## labels, modes, GOTO targets -/

mutual
/-- the targets of the GOTO statements inside a statement of the lean syntax -/
def gotosS : Stmt → List Nat
  | .seq a b => gotosS a ++ gotosS b
  | .ifs _ thn els _ => gotosS thn ++ gotosS els
  | .select _ cases _ => gotosC cases
  | .forLoop _ _ _ _ _ body _ => gotosS body
  | .while _ body _ => gotosS body
  | .doLoop _ _ _ body _ => gotosS body
  | .goto L => [L]
  | _ => []
def gotosC : Cases → List Nat
  | .nil => []
  | .else_ body => gotosS body
  | .case _ body rest => gotosS body ++ gotosC rest
end

@[simp] theorem enters_run (s : Stmt) : Mode.run.enters s = true := rfl
@[simp] theorem enters_seek (L : Nat) (s : Stmt) : (Mode.seek L).enters s = s.hasLabel L := rfl

@[simp] theorem hasLabel_skip (L : Nat) : Stmt.skip.hasLabel L = false := rfl
@[simp] theorem hasLabel_seq (a b : Stmt) (L : Nat) : (Stmt.seq a b).hasLabel L = (a.hasLabel L || b.hasLabel L) := by
  simp [Stmt.hasLabel, Stmt.labels]
@[simp] theorem hasLabel_assign (x t e p) (L : Nat) : (Stmt.assign x t e p).hasLabel L = false := rfl
@[simp] theorem hasLabel_print (i p) (L : Nat) : (Stmt.print i p).hasLabel L = false := rfl
@[simp] theorem hasLabel_read (x t p) (L : Nat) : (Stmt.read x t p).hasLabel L = false := rfl
@[simp] theorem hasLabel_ifs (c thn els p) (L : Nat) :
    (Stmt.ifs c thn els p).hasLabel L = (thn.hasLabel L || els.hasLabel L) := by
  simp [Stmt.hasLabel, Stmt.labels]
@[simp] theorem hasLabel_select (e cs p) (L : Nat) : (Stmt.select e cs p).hasLabel L = cs.hasLabel L := by
  simp [Stmt.hasLabel, Cases.hasLabel, Stmt.labels]
@[simp] theorem hasLabel_forLoop (x t lo hi st body p) (L : Nat) :
    (Stmt.forLoop x t lo hi st body p).hasLabel L = body.hasLabel L := by
  simp [Stmt.hasLabel, Stmt.labels]
@[simp] theorem hasLabel_while (c body p) (L : Nat) : (Stmt.while c body p).hasLabel L = body.hasLabel L := by
  simp [Stmt.hasLabel, Stmt.labels]
@[simp] theorem hasLabel_doLoop (c top u body p) (L : Nat) :
    (Stmt.doLoop c top u body p).hasLabel L = body.hasLabel L := by
  simp [Stmt.hasLabel, Stmt.labels]
@[simp] theorem hasLabel_end (p) (L : Nat) : (Stmt.end_ p).hasLabel L = false := rfl
@[simp] theorem hasLabel_callSub (f a p) (L : Nat) : (Stmt.callSub f a p).hasLabel L = false := rfl
@[simp] theorem hasLabel_exitProc (p) (L : Nat) : (Stmt.exitProc p).hasLabel L = false := rfl
@[simp] theorem hasLabel_label (L' L : Nat) : (Stmt.label L').hasLabel L = decide (L = L') := by
  simp [Stmt.hasLabel, Stmt.labels]
@[simp] theorem hasLabel_goto (L' L : Nat) : (Stmt.goto L').hasLabel L = false := rfl
@[simp] theorem hasLabel_gosub (L' L : Nat) : (Stmt.gosub L').hasLabel L = false := rfl
@[simp] theorem hasLabel_ret (p) (L : Nat) : (Stmt.ret p).hasLabel L = false := rfl
@[simp] theorem casesHasLabel_nil (L : Nat) : Cases.nil.hasLabel L = false := rfl
@[simp] theorem casesHasLabel_else (body : Stmt) (L : Nat) : (Cases.else_ body).hasLabel L = body.hasLabel L := by
  simp [Stmt.hasLabel, Cases.hasLabel, Cases.labels]
@[simp] theorem casesHasLabel_case (c body rest) (L : Nat) :
    (Cases.case c body rest).hasLabel L = (body.hasLabel L || rest.hasLabel L) := by
  simp [Stmt.hasLabel, Cases.hasLabel, Cases.labels]

/-! ## what an evaluation can answer -/

/-- the outcomes that end the whole run (or are outside the claim): what a failed evaluation answers -/
def ends : Outcome → Bool
  | .halted => true
  | .error _ _ => true
  | .inexact => true
  | .outOfFuel => true
  | .illFormed => true
  | _ => false

theorem ends_ne_jump {o : Outcome} (h : ends o = true) (L : Nat) : o ≠ .jump L := by
  rintro rfl; cases h

theorem ends_ne_notHere {o : Outcome} (h : ends o = true) : o ≠ .notHere := by
  rintro rfl; cases h

theorem ends_ne_normal {o : Outcome} (h : ends o = true) : o ≠ .normal := by
  rintro rfl; cases h

theorem ends_ne_ret {o : Outcome} (h : ends o = true) (p : Pos) : o ≠ .ret p := by
  rintro rfl; cases h

theorem ends_ne_exited {o : Outcome} (h : ends o = true) : o ≠ .exited := by
  rintro rfl; cases h

theorem liftV_ends {s s' : St} {p : Pos} {r : Res Val} {o : Outcome} (h : liftV s p r = (s', .error o)) :
    ends o = true := by
  cases r <;> simp only [liftV, Prod.mk.injEq, Except.error.injEq, reduceCtorEq, and_false] at h
  all_goals (obtain ⟨_, rfl⟩ := h; rfl)

theorem relTest_ends {p : Pos} {op : Op} {a b : Val} {o : Outcome} (h : relTest p op a b = .error o) :
    ends o = true := by
  unfold relTest at h
  split at h
  · cases h
  · cases h; rfl
  · cases h; rfl

theorem stepSign_ends {p : Pos} {sv : Val} {o : Outcome} (h : stepSign p sv = .error o) : ends o = true := by
  unfold stepSign at h
  split at h
  · rename_i o1 h1; cases h; exact relTest_ends h1
  · cases h
  · split at h
    · rename_i o2 h2; cases h; exact relTest_ends h2
    · cases h
    · cases h

/-- a body outcome that does not let the call return is turned into one that ends the run -/
theorem callFail_ends {o : Outcome} (h : returns o = false) : ends (callFail o) = true := by
  cases o <;> first | rfl | cases h

theorem gosubEnd_ne_notHere (b : Bool) (o : Outcome) : gosubEnd b o ≠ .notHere := by
  cases o <;> cases b <;> simp [gosubEnd]

theorem gosubEnd_ne_jump (b : Bool) (o : Outcome) (L : Nat) : gosubEnd b o ≠ .jump L := by
  cases o <;> cases b <;> simp [gosubEnd]

/-- the eight evaluation functions of the mutual block, at one amount of fuel -/
structure EndsAt (P : Program) (n : Nat) : Prop where
  eval : ∀ (e : Expr) (s s' : St) (o : Outcome), eval P n e s = (s', .error o) → ends o = true
  evalTo : ∀ (e : Expr) (t : Ty) (s s' : St) (o : Outcome), evalTo P n e t s = (s', .error o) → ends o = true
  evalArgs : ∀ (args : Args) (s s' : St) (o : Outcome), evalArgs P n args s = (s', .error o) → ends o = true
  call : ∀ (f : Nat) (args : Args) (s s' : St) (o : Outcome), call P n f args s = (s', .error o) → ends o = true
  printItems : ∀ (items : List PrintItem) (s s' : St) (o : Outcome), printItems P n items s = (s', o) →
    o = .normal ∨ ends o = true
  evalCond : ∀ (c : Expr) (s s' : St) (o : Outcome), evalCond P n c s = (s', .error o) → ends o = true
  caseMatches : ∀ (p : Pos) (subj : Val) (c : CaseExpr) (s s' : St) (o : Outcome),
    caseMatches P n p subj c s = (s', .error o) → ends o = true
  anyMatches : ∀ (p : Pos) (subj : Val) (cs : List CaseExpr) (s s' : St) (o : Outcome),
    anyMatches P n p subj cs s = (s', .error o) → ends o = true

theorem ends_zero (P : Program) : EndsAt P 0 := by
  refine ⟨?_, ?_, ?_, ?_, ?_, ?_, ?_, ?_⟩ <;> intros <;> rename_i h <;>
    simp only [ProcJ.Ref.eval, ProcJ.Ref.evalTo, ProcJ.Ref.evalArgs, ProcJ.Ref.call, ProcJ.Ref.printItems,
      ProcJ.Ref.evalCond, ProcJ.Ref.caseMatches, ProcJ.Ref.anyMatches] at h <;> cases h <;> first | rfl | (right; rfl)

theorem ends_succ (P : Program) (n : Nat) (ih : EndsAt P n) : EndsAt P (n + 1) := by
  refine ⟨?_, ?_, ?_, ?_, ?_, ?_, ?_, ?_⟩
  · -- eval
    intro e s s' o h
    cases e with
    | lit v p => simp only [ProcJ.Ref.eval] at h; cases h
    | var x t p => simp only [ProcJ.Ref.eval] at h; cases h
    | un op e p =>
      simp only [ProcJ.Ref.eval] at h
      generalize hr : ProcJ.Ref.eval P n e s = r at h
      obtain ⟨s1, rv⟩ := r
      cases rv with
      | ok v => exact liftV_ends h
      | error o1 => cases h; exact ih.eval _ _ _ _ hr
    | bin op l r t p =>
      simp only [ProcJ.Ref.eval] at h
      generalize hr : ProcJ.Ref.eval P n l s = r1 at h
      obtain ⟨s1, rv⟩ := r1
      cases rv with
      | error o1 => cases h; exact ih.eval _ _ _ _ hr
      | ok a =>
        simp only at h
        generalize hr2 : ProcJ.Ref.eval P n r s1 = r2 at h
        obtain ⟨s2, rv2⟩ := r2
        cases rv2 with
        | error o2 => cases h; exact ih.eval _ _ _ _ hr2
        | ok b => exact liftV_ends h
    | paren e p => simp only [ProcJ.Ref.eval] at h; exact ih.eval _ _ _ _ h
    | callFn f args t p => simp only [ProcJ.Ref.eval] at h; exact ih.call _ _ _ _ _ h
  · -- evalTo
    intro e t s s' o h
    simp only [ProcJ.Ref.evalTo] at h
    generalize hr : ProcJ.Ref.eval P n e s = r at h
    obtain ⟨s1, rv⟩ := r
    cases rv with
    | ok v => exact liftV_ends h
    | error o1 => cases h; exact ih.eval _ _ _ _ hr
  · -- evalArgs
    intro args s s' o h
    cases args with
    | nil => simp only [ProcJ.Ref.evalArgs] at h; cases h
    | cons e pn pt rest =>
      simp only [ProcJ.Ref.evalArgs] at h
      generalize hr : ProcJ.Ref.evalTo P n e pt s = r at h
      obtain ⟨s1, rv⟩ := r
      cases rv with
      | error o1 => cases h; exact ih.evalTo _ _ _ _ _ hr
      | ok v =>
        simp only at h
        generalize hr2 : ProcJ.Ref.evalArgs P n rest s1 = r2 at h
        obtain ⟨s2, rv2⟩ := r2
        cases rv2 with
        | error o2 => cases h; exact ih.evalArgs _ _ _ _ hr2
        | ok vs => cases h
  · -- call
    intro f args s s' o h
    simp only [ProcJ.Ref.call] at h
    cases hd : P.procs[f]? with
    | none => simp only [hd] at h; cases h; rfl
    | some d =>
      simp only [hd] at h
      generalize hr : ProcJ.Ref.evalArgs P n args s = r at h
      obtain ⟨s1, rv⟩ := r
      cases rv with
      | error o1 => cases h; exact ih.evalArgs _ _ _ _ hr
      | ok vals =>
        simp only at h
        generalize hb : exec P n ⟨true, d.body⟩ d.body .run (enter d f vals s1) = rb at h
        obtain ⟨s2, ob⟩ := rb
        simp only at h
        cases hret : returns ob with
        | true => simp only [hret, if_true] at h; cases h
        | false =>
          simp only [hret, Bool.false_eq_true, if_false] at h
          cases h
          exact callFail_ends hret
  · -- printItems
    intro items s s' o h
    cases items with
    | nil => simp only [ProcJ.Ref.printItems] at h; cases h; exact .inl rfl
    | cons it rest =>
      cases it with
      | comma => simp only [ProcJ.Ref.printItems] at h; exact ih.printItems _ _ _ _ h
      | semicolon => simp only [ProcJ.Ref.printItems] at h; exact ih.printItems _ _ _ _ h
      | expr e =>
        simp only [ProcJ.Ref.printItems] at h
        generalize hr : ProcJ.Ref.eval P n e s = r at h
        obtain ⟨s1, rv⟩ := r
        cases rv with
        | error o1 => cases h; exact .inr (ih.eval _ _ _ _ hr)
        | ok v =>
          simp only at h
          cases hpv : RbModel.Proc.Ref.printValue v with
          | none => simp only [hpv] at h; cases h; exact .inr rfl
          | some pv => simp only [hpv] at h; exact ih.printItems _ _ _ _ h
  · -- evalCond
    intro c s s' o h
    simp only [ProcJ.Ref.evalCond] at h
    generalize hr : ProcJ.Ref.eval P n c s = r at h
    obtain ⟨s1, rv⟩ := r
    cases rv with
    | error o1 => cases h; exact ih.eval _ _ _ _ hr
    | ok v =>
      simp only at h
      cases ht : RbModel.Proc.Ref.truthy v with
      | some b => simp only [ht] at h; cases h
      | none => simp only [ht] at h; cases h; rfl
  · -- caseMatches
    intro p subj c s s' o h
    cases c with
    | simple e =>
      simp only [ProcJ.Ref.caseMatches] at h
      generalize hr : ProcJ.Ref.eval P n e s = r at h
      obtain ⟨s1, rv⟩ := r
      cases rv with
      | error o1 => cases h; exact ih.eval _ _ _ _ hr
      | ok v =>
        simp only [Prod.mk.injEq] at h
        exact relTest_ends h.2
    | is op e =>
      simp only [ProcJ.Ref.caseMatches] at h
      generalize hr : ProcJ.Ref.eval P n e s = r at h
      obtain ⟨s1, rv⟩ := r
      cases rv with
      | error o1 => cases h; exact ih.eval _ _ _ _ hr
      | ok v =>
        simp only [Prod.mk.injEq] at h
        exact relTest_ends h.2
    | range lo hi =>
      simp only [ProcJ.Ref.caseMatches] at h
      generalize hr : ProcJ.Ref.eval P n lo s = r at h
      obtain ⟨s1, rv⟩ := r
      cases rv with
      | error o1 => cases h; exact ih.eval _ _ _ _ hr
      | ok l =>
        simp only at h
        cases hrt : relTest p .greaterOrEqual subj l with
        | error o1 => simp only [hrt] at h; cases h; exact relTest_ends hrt
        | ok b =>
          cases b with
          | false => simp only [hrt] at h; cases h
          | true =>
            simp only [hrt] at h
            generalize hr2 : ProcJ.Ref.eval P n hi s1 = r2 at h
            obtain ⟨s2, rv2⟩ := r2
            cases rv2 with
            | error o2 => cases h; exact ih.eval _ _ _ _ hr2
            | ok hv =>
              simp only [Prod.mk.injEq] at h
              exact relTest_ends h.2
  · -- anyMatches
    intro p subj cs s s' o h
    cases cs with
    | nil => simp only [ProcJ.Ref.anyMatches] at h; cases h
    | cons c rest =>
      simp only [ProcJ.Ref.anyMatches] at h
      generalize hr : ProcJ.Ref.caseMatches P n p subj c s = r at h
      obtain ⟨s1, rv⟩ := r
      cases rv with
      | error o1 => cases h; exact ih.caseMatches _ _ _ _ _ _ hr
      | ok b =>
        cases b with
        | true => cases h
        | false => exact ih.anyMatches _ _ _ _ _ _ h

theorem ends_all (P : Program) : ∀ n, EndsAt P n
  | 0 => ends_zero P
  | n + 1 => ends_succ P n (ends_all P n)

theorem eval_ends {P n e s s' o} (h : eval P n e s = (s', .error o)) : ends o = true := (ends_all P n).eval _ _ _ _ h
theorem evalTo_ends {P n e t s s' o} (h : evalTo P n e t s = (s', .error o)) : ends o = true :=
  (ends_all P n).evalTo _ _ _ _ _ h
theorem evalArgs_ends {P n args s s' o} (h : evalArgs P n args s = (s', .error o)) : ends o = true :=
  (ends_all P n).evalArgs _ _ _ _ h
theorem call_ends {P n f args s s' o} (h : call P n f args s = (s', .error o)) : ends o = true :=
  (ends_all P n).call _ _ _ _ _ h
theorem evalCond_ends {P n c s s' o} (h : evalCond P n c s = (s', .error o)) : ends o = true :=
  (ends_all P n).evalCond _ _ _ _ h
theorem caseMatches_ends {P n p subj c s s' o} (h : caseMatches P n p subj c s = (s', .error o)) : ends o = true :=
  (ends_all P n).caseMatches _ _ _ _ _ _ h
theorem anyMatches_ends {P n p subj cs s s' o} (h : anyMatches P n p subj cs s = (s', .error o)) : ends o = true :=
  (ends_all P n).anyMatches _ _ _ _ _ _ h
theorem printItems_outcome {P n items s s' o} (h : printItems P n items s = (s', o)) : o = .normal ∨ ends o = true :=
  (ends_all P n).printItems _ _ _ _ h

/-! ## shape of the answers of statements: `notHere` and `jump` -/

/-- what the answer of a part says to the construct around it: it is not `notHere`, and a jump comes from a GOTO of `gotos` -/
def Sub (gotos : List Nat) (o : Outcome) : Prop :=
  o ≠ .notHere ∧ ∀ L, o = .jump L → L ∈ gotos

/-- what an answer says about the statement that gave it: `notHere` only if it was not entered; a jump comes from one of its
GOTOs and names a label that is not inside it -/
def Ok (enters : Bool) (has : Nat → Bool) (gotos : List Nat) (o : Outcome) : Prop :=
  (o = .notHere → enters = false) ∧ ∀ L, o = .jump L → L ∈ gotos ∧ has L = false

theorem Ok.of_ends {e : Bool} {has : Nat → Bool} {g : List Nat} {o : Outcome} (h : ends o = true) : Ok e has g o :=
  ⟨fun h1 => absurd h1 (ends_ne_notHere h), fun L h1 => absurd h1 (ends_ne_jump h L)⟩

theorem Ok.plain {e : Bool} {has : Nat → Bool} {g : List Nat} {o : Outcome} (h1 : o ≠ .notHere) (h2 : ∀ L, o ≠ .jump L) :
    Ok e has g o :=
  ⟨fun h => absurd h h1, fun L h => absurd h (h2 L)⟩

theorem Ok.notHere {has : Nat → Bool} {g : List Nat} : Ok false has g .notHere :=
  ⟨fun _ => rfl, fun L h => by cases h⟩

theorem Ok.sub {has : Nat → Bool} {g : List Nat} {o : Outcome} (h : Ok true has g o) : Sub g o :=
  ⟨fun hn => (by cases h.1 hn), fun L hL => (h.2 L hL).1⟩

theorem Sub.of_ends {g : List Nat} {o : Outcome} (h : ends o = true) : Sub g o :=
  ⟨ends_ne_notHere h, fun L h1 => absurd h1 (ends_ne_jump h L)⟩

theorem Sub.mono {g g' : List Nat} {o : Outcome} (h : Sub g o) (hg : ∀ L, L ∈ g → L ∈ g') : Sub g' o :=
  ⟨h.1, fun L hL => hg L (h.2 L hL)⟩

/-- an entered statement: the result of the check at a weaker "entered" flag -/
theorem Ok.weaken {e : Bool} {has : Nat → Bool} {g : List Nat} {o : Outcome} (h : Ok true has g o) : Ok e has g o :=
  ⟨fun hn => (by cases h.1 hn), h.2⟩

/-- the five statement functions of the mutual block, at one amount of fuel -/
structure Shape (P : Program) (n : Nat) : Prop where
  exec : ∀ (A : Act) (st : Stmt) (m : Mode) (s s' : St) (o : Outcome), exec P n A st m s = (s', o) →
    Ok (m.enters st) st.hasLabel (gotosS st) o
  execCases : ∀ (A : Act) (p : Pos) (subj : Val) (cs : Cases) (s s' : St) (o : Outcome),
    execCases P n A p subj cs s = (s', o) → Sub (gotosC cs) o
  seekCases : ∀ (A : Act) (cs : Cases) (L : Nat) (s s' : St) (o : Outcome), seekCases P n A cs L s = (s', o) →
    (o = .notHere → cs.hasLabel L = false) ∧ ∀ L', o = .jump L' → L' ∈ gotosC cs
  selectSeek : ∀ (A : Act) (cs : Cases) (L : Nat) (s s' : St) (o : Outcome), selectSeek P n A cs L s = (s', o) →
    Ok (cs.hasLabel L) cs.hasLabel (gotosC cs) o
  forIter : ∀ (A : Act) (x : Var) (t : Ty) (h sv : Val) (up : Bool) (body : Stmt) (p : Pos) (m : Mode) (s s' : St)
    (o : Outcome), forIter P n A x t h sv up body p m s = (s', o) → Ok (m.enters body) body.hasLabel (gotosS body) o

theorem shape_zero (P : Program) : Shape P 0 := by
  refine ⟨?_, ?_, ?_, ?_, ?_⟩
  · intro A st m s s' o h; simp only [ProcJ.Ref.exec] at h; cases h; exact Ok.of_ends rfl
  · intro A p subj cs s s' o h; simp only [ProcJ.Ref.execCases] at h; cases h; exact Sub.of_ends rfl
  · intro A cs L s s' o h; simp only [ProcJ.Ref.seekCases] at h; cases h
    exact ⟨fun h => (by cases h), fun L h => by cases h⟩
  · intro A cs L s s' o h; simp only [ProcJ.Ref.selectSeek] at h; cases h; exact Ok.of_ends rfl
  · intro A x t hv sv up body p m s s' o h; simp only [ProcJ.Ref.forIter] at h; cases h; exact Ok.of_ends rfl

/-- an entered statement, by the induction hypothesis -/
theorem Shape.entered {P : Program} {n : Nat} (ih : Shape P n) {A : Act} {st : Stmt} {m : Mode} {s s' : St} {o : Outcome}
    (h : ProcJ.Ref.exec P n A st m s = (s', o)) (hen : m.enters st = true) : Ok true st.hasLabel (gotosS st) o := by
  have := ih.exec A st m s s' o h
  rw [hen] at this
  exact this

/-- the rule `seq` and IF apply to the answer of their parts: a jump to a label of the construct restarts it in seek mode -/
theorem catch_ok {P : Program} {n : Nat} (ih : Shape P n) (A : Act) (whole : Stmt) (r : St × Outcome) (st' : St)
    (o : Outcome) (hsub : Sub (gotosS whole) r.2)
    (h : (match (generalizing := false) r with
          | (s', .jump L) => if whole.hasLabel L = true then ProcJ.Ref.exec P n A whole (.seek L) s' else (s', .jump L)
          | r => r) = (st', o)) : Ok true whole.hasLabel (gotosS whole) o := by
  obtain ⟨s1, o1⟩ := r
  cases o1 with
  | jump L1 =>
    simp only at h
    split at h
    · rename_i hl
      exact ih.entered h hl
    · rename_i hnl
      cases h
      exact ⟨fun hn => (by cases hn), fun L hL => by cases hL; exact ⟨hsub.2 _ rfl, by simpa using hnl⟩⟩
  | notHere => exact absurd rfl hsub.1
  | _ => cases h; exact Ok.plain (by simp) (by simp)

/-- the rule of WHILE and DO (condition on top) for the answer of the body -/
theorem loop_ok {P : Program} {n : Nat} (ih : Shape P n) (A : Act) (whole body : Stmt)
    (hh : ∀ L, whole.hasLabel L = body.hasLabel L) (hg : gotosS whole = gotosS body) (r : St × Outcome) (st' : St)
    (o : Outcome) (hsub : Sub (gotosS body) r.2)
    (h : (match (generalizing := false) r with
          | (s', .normal) => ProcJ.Ref.exec P n A whole .run s'
          | (s', .jump L) => if body.hasLabel L = true then ProcJ.Ref.exec P n A whole (.seek L) s' else (s', .jump L)
          | r => r) = (st', o)) : Ok true whole.hasLabel (gotosS whole) o := by
  obtain ⟨s1, o1⟩ := r
  cases o1 with
  | normal => exact ih.entered h rfl
  | jump L1 =>
    simp only at h
    split at h
    · rename_i hl
      exact ih.entered h (by rw [enters_seek, hh]; exact hl)
    · rename_i hnl
      cases h
      exact ⟨fun hn => (by cases hn), fun L hL => by cases hL; exact ⟨by rw [hg]; exact hsub.2 _ rfl, by rw [hh]; simpa using hnl⟩⟩
  | notHere => exact absurd rfl hsub.1
  | _ => cases h; exact Ok.plain (by simp) (by simp)

theorem shape_succ (P : Program) (n : Nat) (ih : Shape P n) : Shape P (n + 1) := by
  refine ⟨?_, ?_, ?_, ?_, ?_⟩
  · intro A st m s s' o h
    cases st with
    | skip =>
      cases m <;> simp only [ProcJ.Ref.exec] at h <;> cases h
      · exact Ok.plain (by simp) (by simp)
      · exact Ok.notHere
    | assign x t e p =>
      cases m with
      | seek L0 => simp only [ProcJ.Ref.exec] at h; cases h; exact Ok.notHere
      | run =>
        simp only [ProcJ.Ref.exec] at h
        generalize hr : ProcJ.Ref.evalTo P n e t s = r at h
        obtain ⟨s1, rv⟩ := r
        cases rv with
        | ok v => cases h; exact Ok.plain (by simp) (by simp)
        | error o1 => cases h; exact Ok.of_ends (evalTo_ends hr)
    | print items p =>
      cases m with
      | seek L0 => simp only [ProcJ.Ref.exec] at h; cases h; exact Ok.notHere
      | run =>
        simp only [ProcJ.Ref.exec] at h
        generalize hr : ProcJ.Ref.printItems P n items s = r at h
        obtain ⟨s1, o1⟩ := r
        rcases printItems_outcome hr with rfl | he
        · simp only at h
          split at h <;> (cases h; exact Ok.plain (by simp) (by simp))
        · have : o = o1 := by
            cases o1 <;> first | (cases he; done) | (cases h; rfl)
          subst this
          exact Ok.of_ends he
    | read x t p =>
      cases m with
      | seek L0 => simp only [ProcJ.Ref.exec] at h; cases h; exact Ok.notHere
      | run =>
        simp only [ProcJ.Ref.exec] at h
        split at h
        · cases h; exact Ok.of_ends rfl
        · split at h <;> cases h
          · exact Ok.plain (by simp) (by simp)
          · exact Ok.of_ends rfl
          · exact Ok.of_ends rfl
    | end_ p =>
      cases m <;> simp only [ProcJ.Ref.exec] at h <;> cases h
      · exact Ok.of_ends rfl
      · exact Ok.notHere
    | callSub f args p =>
      cases m with
      | seek L0 => simp only [ProcJ.Ref.exec] at h; cases h; exact Ok.notHere
      | run =>
        simp only [ProcJ.Ref.exec] at h
        generalize hr : ProcJ.Ref.call P n f args s = r at h
        obtain ⟨s1, rv⟩ := r
        cases rv with
        | ok v => cases h; exact Ok.plain (by simp) (by simp)
        | error o1 => cases h; exact Ok.of_ends (call_ends hr)
    | exitProc p =>
      cases m <;> simp only [ProcJ.Ref.exec] at h <;> cases h
      · exact Ok.plain (by simp) (by simp)
      · exact Ok.notHere
    | label L' =>
      cases m with
      | run => simp only [ProcJ.Ref.exec] at h; cases h; exact Ok.plain (by simp) (by simp)
      | seek L0 =>
        simp only [ProcJ.Ref.exec] at h
        split at h
        · cases h; exact Ok.plain (by simp) (by simp)
        · rename_i hne
          cases h
          simp only [enters_seek, hasLabel_label, hne, decide_false]
          exact Ok.notHere
    | goto L' =>
      cases m with
      | seek L0 => simp only [ProcJ.Ref.exec] at h; cases h; exact Ok.notHere
      | run =>
        simp only [ProcJ.Ref.exec] at h; cases h
        exact ⟨fun hn => (by cases hn), fun L hL => by cases hL; exact ⟨by simp [gotosS], rfl⟩⟩
    | ret p =>
      cases m <;> simp only [ProcJ.Ref.exec] at h <;> cases h
      · exact Ok.plain (by simp) (by simp)
      · exact Ok.notHere
    | gosub L' =>
      cases m with
      | seek L0 => simp only [ProcJ.Ref.exec] at h; cases h; exact Ok.notHere
      | run =>
        simp only [ProcJ.Ref.exec] at h
        generalize ProcJ.Ref.exec P n A A.body (.seek L') s = r at h
        obtain ⟨s1, o1⟩ := r
        cases h
        exact Ok.plain (gosubEnd_ne_notHere _ _) (gosubEnd_ne_jump _ _)
    | seq a b =>
      simp only [ProcJ.Ref.exec] at h
      split at h
      · rename_i hen
        rw [hen]
        refine catch_ok ih A _ _ s' o ?_ h
        split
        · rename_i hea
          generalize hra : ProcJ.Ref.exec P n A a m s = ra
          obtain ⟨s2, o2⟩ := ra
          have ha := (ih.entered hra hea).sub
          cases o2 with
          | normal =>
            simp only
            generalize hrb : ProcJ.Ref.exec P n A b .run s2 = rb
            obtain ⟨s3, o3⟩ := rb
            exact (ih.entered hrb rfl).sub.mono (fun L hL => by simp only [gotosS, List.mem_append]; exact .inr hL)
          | notHere => exact absurd rfl ha.1
          | _ => exact ha.mono (fun L hL => by simp only [gotosS, List.mem_append]; exact .inl hL)
        · rename_i hea
          generalize hrb : ProcJ.Ref.exec P n A b m s = rb
          obtain ⟨s3, o3⟩ := rb
          have heb : m.enters b = true := by
            cases m with
            | run => rfl
            | seek L0 =>
              simp only [enters_seek, hasLabel_seq, Bool.or_eq_true] at hen hea ⊢
              rcases hen with h1 | h1
              · exact absurd h1 hea
              · exact h1
          exact (ih.entered hrb heb).sub.mono (fun L hL => by simp only [gotosS, List.mem_append]; exact .inr hL)
      · rename_i hen
        cases h
        simp only [Bool.not_eq_true] at hen
        rw [hen]
        exact Ok.notHere
    | ifs c thn els p =>
      simp only [ProcJ.Ref.exec] at h
      split at h
      · rename_i hen
        rw [hen]
        refine catch_ok ih A _ _ s' o ?_ h
        cases m with
        | run =>
          simp only
          generalize hrc : ProcJ.Ref.evalCond P n c s = rc
          obtain ⟨s1, rv⟩ := rc
          cases rv with
          | error o1 => exact Sub.of_ends (evalCond_ends hrc)
          | ok bv =>
            cases bv with
            | true =>
              simp only
              generalize hrb : ProcJ.Ref.exec P n A thn .run s1 = rb
              obtain ⟨s3, o3⟩ := rb
              exact (ih.entered hrb rfl).sub.mono (fun L hL => by simp only [gotosS, List.mem_append]; exact .inl hL)
            | false =>
              simp only
              generalize hrb : ProcJ.Ref.exec P n A els .run s1 = rb
              obtain ⟨s3, o3⟩ := rb
              exact (ih.entered hrb rfl).sub.mono (fun L hL => by simp only [gotosS, List.mem_append]; exact .inr hL)
        | seek L0 =>
          simp only
          split
          · rename_i hl
            generalize hrb : ProcJ.Ref.exec P n A thn (.seek L0) s = rb
            obtain ⟨s3, o3⟩ := rb
            exact (ih.entered hrb hl).sub.mono (fun L hL => by simp only [gotosS, List.mem_append]; exact .inl hL)
          · rename_i hl
            generalize hrb : ProcJ.Ref.exec P n A els (.seek L0) s = rb
            obtain ⟨s3, o3⟩ := rb
            have hel : els.hasLabel L0 = true := by
              simp only [enters_seek, hasLabel_ifs, Bool.or_eq_true] at hen
              rcases hen with h1 | h1
              · exact absurd h1 hl
              · exact h1
            exact (ih.entered hrb hel).sub.mono (fun L hL => by simp only [gotosS, List.mem_append]; exact .inr hL)
      · rename_i hen
        cases h
        simp only [Bool.not_eq_true] at hen
        rw [hen]
        exact Ok.notHere
    | select e cases p =>
      cases m with
      | seek L0 =>
        simp only [ProcJ.Ref.exec] at h
        split at h
        · cases h; exact Ok.of_ends rfl
        · rename_i hl
          cases h
          simp only [enters_seek, hasLabel_select]
          simp only [Bool.not_eq_true] at hl
          rw [hl]
          exact Ok.notHere
      | run =>
        simp only [ProcJ.Ref.exec] at h
        generalize hre : ProcJ.Ref.eval P n e s = re at h
        obtain ⟨s1, rv⟩ := re
        cases rv with
        | error o1 => cases h; exact Ok.of_ends (eval_ends hre)
        | ok subject =>
          simp only at h
          generalize hr : ProcJ.Ref.execCases P n A p subject cases s1 = r at h
          obtain ⟨s2, o2⟩ := r
          have hs := ih.execCases _ _ _ _ _ _ _ hr
          cases o2 with
          | jump L1 =>
            simp only at h
            split at h
            · rename_i hl
              have := ih.selectSeek _ _ _ _ _ _ h
              rw [hl] at this
              refine ⟨fun hn => (by cases this.1 hn), fun L hL => ?_⟩
              have := this.2 L hL
              exact ⟨by simpa [gotosS] using this.1, by rw [hasLabel_select]; exact this.2⟩
            · rename_i hnl
              cases h
              refine ⟨fun hn => (by cases hn), fun L hL => ?_⟩
              cases hL
              exact ⟨by simpa [gotosS] using hs.2 _ rfl, by rw [hasLabel_select]; simpa using hnl⟩
          | notHere => exact absurd rfl hs.1
          | _ => cases h; exact Ok.plain (by simp) (by simp)
    | forLoop x t lo hi step body p =>
      cases m with
      | seek L0 =>
        simp only [ProcJ.Ref.exec] at h
        split at h
        · cases h; exact Ok.of_ends rfl
        · rename_i hl
          cases h
          simp only [enters_seek, hasLabel_forLoop]
          simp only [Bool.not_eq_true] at hl
          rw [hl]
          exact Ok.notHere
      | run =>
        simp only [ProcJ.Ref.exec] at h
        have key : ∀ (h' sv : Val) (up : Bool) (s0 : St), ProcJ.Ref.forIter P n A x t h' sv up body p .run s0 = (s', o) →
            Ok (Mode.run.enters (.forLoop x t lo hi step body p)) (Stmt.forLoop x t lo hi step body p).hasLabel
              (gotosS (.forLoop x t lo hi step body p)) o := by
          intro h' sv up s0 hf
          have := ih.forIter _ _ _ _ _ _ _ _ _ _ _ _ hf
          simp only [enters_run] at this ⊢
          refine ⟨this.1, fun L hL => ?_⟩
          have := this.2 L hL
          exact ⟨by simpa [gotosS] using this.1, by rw [hasLabel_forLoop]; exact this.2⟩
        generalize hr1 : ProcJ.Ref.evalTo P n lo t s = r1 at h
        obtain ⟨s1, rv1⟩ := r1
        cases rv1 with
        | error o1 => cases h; exact Ok.of_ends (evalTo_ends hr1)
        | ok l =>
          simp only at h
          generalize hr2 : ProcJ.Ref.evalTo P n hi t (s1.set x l) = r2 at h
          obtain ⟨s2, rv2⟩ := r2
          cases rv2 with
          | error o2 => cases h; exact Ok.of_ends (evalTo_ends hr2)
          | ok hv =>
            simp only at h
            cases step with
            | none => exact key _ _ _ _ h
            | some se =>
              simp only at h
              generalize hr3 : ProcJ.Ref.eval P n se s2 = r3 at h
              obtain ⟨s3, rv3⟩ := r3
              cases rv3 with
              | error o3 => cases h; exact Ok.of_ends (eval_ends hr3)
              | ok sv =>
                simp only at h
                cases hsg : stepSign p sv with
                | error o4 => simp only [hsg] at h; cases h; exact Ok.of_ends (stepSign_ends hsg)
                | ok sg =>
                  cases sg <;> simp only [hsg] at h
                  · exact key _ _ _ _ h
                  · exact key _ _ _ _ h
                  · cases h; exact Ok.of_ends rfl
    | «while» c body p =>
      simp only [ProcJ.Ref.exec] at h
      split at h
      · rename_i hen
        rw [hen]
        cases m with
        | run =>
          simp only at h
          generalize hrc : ProcJ.Ref.evalCond P n c s = rc at h
          obtain ⟨s1, rv⟩ := rc
          cases rv with
          | error o1 => cases h; exact Ok.of_ends (evalCond_ends hrc)
          | ok bv =>
            cases bv with
            | false => cases h; exact Ok.plain (by simp) (by simp)
            | true =>
              simp only at h
              generalize hrb : ProcJ.Ref.exec P n A body .run s1 = rb at h
              exact loop_ok ih A _ body (fun L => hasLabel_while _ _ _ L) (by simp [gotosS]) rb s' o
                (by obtain ⟨s3, o3⟩ := rb; exact (ih.entered hrb rfl).sub) h
        | seek L0 =>
          simp only at h
          have heb : body.hasLabel L0 = true := by simpa using hen
          generalize hrb : ProcJ.Ref.exec P n A body (.seek L0) s = rb at h
          exact loop_ok ih A _ body (fun L => hasLabel_while _ _ _ L) (by simp [gotosS]) rb s' o
            (by obtain ⟨s3, o3⟩ := rb; exact (ih.entered hrb heb).sub) h
      · rename_i hen
        cases h
        simp only [Bool.not_eq_true] at hen
        rw [hen]
        exact Ok.notHere
    | doLoop c top until_ body p =>
      simp only [ProcJ.Ref.exec] at h
      split at h
      · rename_i hen
        rw [hen]
        have heb : m.enters body = true := by
          cases m with
          | run => rfl
          | seek L0 => simpa using hen
        cases top with
        | true =>
          simp only [if_true] at h
          cases m with
          | run =>
            simp only at h
            generalize hrc : ProcJ.Ref.evalCond P n c s = rc at h
            obtain ⟨s1, rv⟩ := rc
            cases rv with
            | error o1 => cases h; exact Ok.of_ends (evalCond_ends hrc)
            | ok bv =>
              simp only at h
              split at h
              · generalize hrb : ProcJ.Ref.exec P n A body .run s1 = rb at h
                exact loop_ok ih A _ body (fun L => hasLabel_doLoop _ _ _ _ _ L) (by simp [gotosS]) rb s' o
                  (by obtain ⟨s3, o3⟩ := rb; exact (ih.entered hrb rfl).sub) h
              · cases h; exact Ok.plain (by simp) (by simp)
          | seek L0 =>
            simp only at h
            split at h
            · generalize hrb : ProcJ.Ref.exec P n A body (.seek L0) s = rb at h
              exact loop_ok ih A _ body (fun L => hasLabel_doLoop _ _ _ _ _ L) (by simp [gotosS]) rb s' o
                (by obtain ⟨s3, o3⟩ := rb; exact (ih.entered hrb heb).sub) h
            · cases h; exact Ok.plain (by simp) (by simp)
        | false =>
          simp only [Bool.false_eq_true, if_false] at h
          generalize hrb : ProcJ.Ref.exec P n A body m s = rb at h
          obtain ⟨s3, o3⟩ := rb
          have hb := (ih.entered hrb heb).sub
          cases o3 with
          | normal =>
            simp only at h
            generalize hrc : ProcJ.Ref.evalCond P n c s3 = rc at h
            obtain ⟨s1, rv⟩ := rc
            cases rv with
            | error o1 => cases h; exact Ok.of_ends (evalCond_ends hrc)
            | ok bv =>
              simp only at h
              split at h
              · exact ih.entered h rfl
              · cases h; exact Ok.plain (by simp) (by simp)
          | jump L1 =>
            simp only at h
            split at h
            · rename_i hl
              exact ih.entered h (by rw [enters_seek, hasLabel_doLoop]; exact hl)
            · rename_i hnl
              cases h
              exact ⟨fun hn => (by cases hn), fun L hL => by
                cases hL; exact ⟨by simpa [gotosS] using hb.2 _ rfl, by rw [hasLabel_doLoop]; simpa using hnl⟩⟩
          | notHere => exact absurd rfl hb.1
          | _ => cases h; exact Ok.plain (by simp) (by simp)
      · rename_i hen
        cases h
        simp only [Bool.not_eq_true] at hen
        rw [hen]
        exact Ok.notHere
  · -- execCases
    intro A p subj cs s s' o h
    cases cs with
    | nil => simp only [ProcJ.Ref.execCases] at h; cases h; exact ⟨by simp, by simp⟩
    | else_ body =>
      simp only [ProcJ.Ref.execCases] at h
      exact (ih.entered h rfl).sub.mono (fun L hL => by simpa [gotosC] using hL)
    | case conds body rest =>
      simp only [ProcJ.Ref.execCases] at h
      generalize hr : ProcJ.Ref.anyMatches P n p subj conds s = r at h
      obtain ⟨s1, rv⟩ := r
      cases rv with
      | error o1 => cases h; exact Sub.of_ends (anyMatches_ends hr)
      | ok bv =>
        cases bv with
        | true =>
          simp only at h
          exact (ih.entered h rfl).sub.mono (fun L hL => by simp only [gotosC, List.mem_append]; exact .inl hL)
        | false =>
          simp only at h
          exact (ih.execCases _ _ _ _ _ _ _ h).mono (fun L hL => by simp only [gotosC, List.mem_append]; exact .inr hL)
  · -- seekCases
    intro A cs L s s' o h
    cases cs with
    | nil => simp only [ProcJ.Ref.seekCases] at h; cases h; exact ⟨fun _ => rfl, fun L h => by cases h⟩
    | else_ body =>
      simp only [ProcJ.Ref.seekCases] at h
      have := ih.exec _ _ _ _ _ _ h
      exact ⟨fun hn => by simpa using this.1 hn, fun L' hL => by simpa [gotosC] using (this.2 L' hL).1⟩
    | case conds body rest =>
      simp only [ProcJ.Ref.seekCases] at h
      split at h
      · rename_i hl
        have := ih.entered h hl
        exact ⟨fun hn => (by cases this.1 hn), fun L' hL => by
          simp only [gotosC, List.mem_append]; exact .inl (this.2 L' hL).1⟩
      · rename_i hl
        have := ih.seekCases _ _ _ _ _ _ h
        exact ⟨fun hn => by simp only [casesHasLabel_case, this.1 hn, Bool.or_false]; simpa using hl, fun L' hL => by
          simp only [gotosC, List.mem_append]; exact .inr (this.2 L' hL)⟩
  · -- selectSeek
    intro A cs L s s' o h
    simp only [ProcJ.Ref.selectSeek] at h
    generalize hr : ProcJ.Ref.seekCases P n A cs L s = r at h
    obtain ⟨s1, o1⟩ := r
    have hs := ih.seekCases _ _ _ _ _ _ hr
    cases o1 with
    | jump L1 =>
      simp only at h
      split at h
      · rename_i hl
        have := ih.selectSeek _ _ _ _ _ _ h
        rw [hl] at this
        exact this.weaken
      · rename_i hnl
        cases h
        exact ⟨fun hn => (by cases hn), fun L' hL => by cases hL; exact ⟨hs.2 _ rfl, by simpa using hnl⟩⟩
    | notHere => cases h; exact ⟨fun _ => hs.1 rfl, fun L h => by cases h⟩
    | _ => cases h; exact Ok.plain (by simp) (by simp)
  · -- forIter
    intro A x t hv sv up body p m s s' o h
    simp only [ProcJ.Ref.forIter] at h
    have body_part : ∀ (r : St × Outcome), ProcJ.Ref.exec P n A body m s = r →
        (match r with
          | (s', .normal) =>
            match (plus (s'.get x t) sv).bind (fun v => cast v t) with
            | .ok v => ProcJ.Ref.forIter P n A x t hv sv up body p .run (s'.set x v)
            | .err e => (s', .error (codeOf e) p)
            | .inexact => (s', .inexact)
          | (s', .jump L) =>
            if body.hasLabel L = true then ProcJ.Ref.forIter P n A x t hv sv up body p (.seek L) s' else (s', .jump L)
          | r => r) = (s', o) → Ok (m.enters body) body.hasLabel (gotosS body) o := by
      intro rb hrb h
      obtain ⟨s3, o3⟩ := rb
      have hb := ih.exec _ _ _ _ _ _ hrb
      cases o3 with
      | normal =>
        simp only at h
        split at h
        · exact (ih.forIter _ _ _ _ _ _ _ _ _ _ _ _ h).weaken
        · cases h; exact Ok.of_ends rfl
        · cases h; exact Ok.of_ends rfl
      | jump L1 =>
        simp only at h
        split at h
        · rename_i hl
          have := ih.forIter _ _ _ _ _ _ _ _ _ _ _ _ h
          simp only [enters_seek, hl] at this
          exact this.weaken
        · rename_i hnl
          cases h
          exact ⟨fun hn => (by cases hn), fun L hL => by cases hL; exact ⟨(hb.2 _ rfl).1, by simpa using hnl⟩⟩
      | notHere => cases h; exact ⟨hb.1, fun L h => by cases h⟩
      | _ => cases h; exact Ok.plain (by simp) (by simp)
    cases m with
    | run =>
      simp only at h
      generalize hrc : relTest p (if up = true then Op.lessOrEqual else Op.greaterOrEqual) (s.get x t) hv = rc at h
      cases rc with
      | error o1 => cases h; exact Ok.of_ends (relTest_ends hrc)
      | ok bv =>
        cases bv with
        | false => cases h; exact Ok.plain (by simp) (by simp)
        | true => exact body_part _ rfl h
    | seek L0 => exact body_part _ rfl h

theorem shape_all (P : Program) : ∀ n, Shape P n
  | 0 => shape_zero P
  | n + 1 => shape_succ P n (shape_all P n)

/-- **a jump that leaves a statement** comes from a GOTO inside it and names a label outside it -/
theorem jump_shape (fuel : Nat) (P : Program) (A : Act) (s : Stmt) (m : Mode) (st st' : St) (L : Nat)
    (h : exec P fuel A s m st = (st', .jump L)) : L ∈ gotosS s ∧ s.hasLabel L = false :=
  ((shape_all P fuel).exec A s m st st' _ h).2 L rfl

/-- **A statement handles the jumps to its own labels**: a `jump L` that comes out of a statement names a label that is not
inside it -/
theorem exec_jump_not_own_label {P n A st m s s' L} (h : exec P n A st m s = (s', .jump L)) : st.hasLabel L = false :=
  (jump_shape n P A st m s s' L h).2

/-- a `jump L` that comes out of a statement comes from a `GOTO L` inside it (not from a called procedure, not from a GOSUB
routine) -/
theorem exec_jump_mem_gotos {P n A st m s s' L} (h : exec P n A st m s = (s', .jump L)) : L ∈ gotosS st :=
  (jump_shape n P A st m s s' L h).1

theorem forIter_jump_shape {P n A x t hv sv up body p m s s' L}
    (h : forIter P n A x t hv sv up body p m s = (s', .jump L)) : L ∈ gotosS body ∧ body.hasLabel L = false :=
  ((shape_all P n).forIter _ _ _ _ _ _ _ _ _ _ _ _ h).2 L rfl

theorem forIter_ne_notHere {P n A x t hv sv up body p m s s' o}
    (h : forIter P n A x t hv sv up body p m s = (s', o)) (hen : m.enters body = true) : o ≠ .notHere := by
  rintro rfl
  have := ((shape_all P n).forIter _ _ _ _ _ _ _ _ _ _ _ _ h).1 rfl
  rw [hen] at this
  cases this

theorem selectSeek_jump_shape {P n A cs L0 s s' L} (h : selectSeek P n A cs L0 s = (s', .jump L)) :
    L ∈ gotosC cs ∧ cs.hasLabel L = false :=
  ((shape_all P n).selectSeek _ _ _ _ _ _ h).2 L rfl

theorem selectSeek_ne_notHere {P n A cs L0 s s' o} (h : selectSeek P n A cs L0 s = (s', o))
    (hL : cs.hasLabel L0 = true) : o ≠ .notHere := by
  rintro rfl
  have := ((shape_all P n).selectSeek _ _ _ _ _ _ h).1 rfl
  rw [hL] at this
  cases this

theorem execCases_jump_mem_gotos {P n A p subj cs s s' L} (h : execCases P n A p subj cs s = (s', .jump L)) :
    L ∈ gotosC cs :=
  ((shape_all P n).execCases _ _ _ _ _ _ _ h).2 L rfl

theorem execCases_ne_notHere {P n A p subj cs s s' o} (h : execCases P n A p subj cs s = (s', o)) : o ≠ .notHere :=
  ((shape_all P n).execCases _ _ _ _ _ _ _ h).1

/-- **`notHere` is the answer of exactly the statements that are not entered**: a statement entered in its mode (`run`, or
`seek L` with `L` a label inside it) never answers `notHere` — a label inside a FOR body or a SELECT block sought from outside
answers `illFormed`, not `notHere` -/
theorem exec_enters_ne_notHere {P n A st m s s' o} (h : exec P n A st m s = (s', o)) (hen : m.enters st = true) :
    o ≠ .notHere := by
  rintro rfl
  have := ((shape_all P n).exec _ _ _ _ _ _ h).1 rfl
  rw [hen] at this
  cases this

theorem exec_run_ne_notHere {P n A st s s' o} (h : exec P n A st .run s = (s', o)) : o ≠ .notHere :=
  exec_enters_ne_notHere h rfl

theorem exec_seek_ne_notHere {P n A st L s s' o} (h : exec P n A st (.seek L) s = (s', o)) (hL : st.hasLabel L = true) :
    o ≠ .notHere :=
  exec_enters_ne_notHere h hL

/-- a statement that is not entered answers `notHere` and leaves the state unchanged (any fuel > 0) -/
theorem exec_not_entered (P : Program) (n : Nat) (A : Act) (st : Stmt) (m : Mode) (s : St) (hen : m.enters st = false) :
    exec P (n + 1) A st m s = (s, .notHere) := by
  cases m with
  | run => cases hen
  | seek L =>
    simp only [enters_seek] at hen
    cases st <;> simp only [ProcJ.Ref.exec] <;> simp_all

/-- in `seek L` mode a statement that does not contain the label `L` does nothing and answers `notHere` -/
theorem exec_seek_noLabel (P : Program) (n : Nat) (A : Act) (st : Stmt) (L : Nat) (s : St) (hL : st.hasLabel L = false) :
    exec P (n + 1) A st (.seek L) s = (s, .notHere) :=
  exec_not_entered P n A st (.seek L) s hL

/-- with fuel left, `notHere` is answered exactly by the statements that are not entered -/
theorem exec_notHere_iff (P : Program) (n : Nat) (A : Act) (st : Stmt) (m : Mode) (s : St) :
    (exec P (n + 1) A st m s).2 = .notHere ↔ m.enters st = false := by
  constructor
  · intro h
    cases hen : m.enters st with
    | false => rfl
    | true => exact absurd h (exec_enters_ne_notHere (o := (exec P (n + 1) A st m s).2) rfl hen)
  · intro hen
    rw [exec_not_entered P n A st m s hen]

theorem run_ne_notHere (n : Nat) (P : Program) : (run n P).2 ≠ .notHere := by
  unfold run
  generalize hr : exec P n ⟨false, P.body⟩ P.body .run (St.init P) = r
  obtain ⟨s1, o1⟩ := r
  cases o1 <;> simp [topOutcome]

theorem run_ne_jump (n : Nat) (P : Program) (L : Nat) : (run n P).2 ≠ .jump L := by
  unfold run
  generalize hr : exec P n ⟨false, P.body⟩ P.body .run (St.init P) = r
  obtain ⟨s1, o1⟩ := r
  cases o1 <;> simp [topOutcome]

/-! ## fuel monotonicity -/

/-- all thirteen mutually recursive functions are stable under one more unit of fuel -/
structure Stable (P : Program) (n : Nat) : Prop where
  eval : ∀ {e s s' r}, eval P n e s = (s', r) → r ≠ .error .outOfFuel → eval P (n + 1) e s = (s', r)
  evalTo : ∀ {e t s s' r}, evalTo P n e t s = (s', r) → r ≠ .error .outOfFuel → evalTo P (n + 1) e t s = (s', r)
  evalArgs : ∀ {args s s' r}, evalArgs P n args s = (s', r) → r ≠ .error .outOfFuel →
    evalArgs P (n + 1) args s = (s', r)
  call : ∀ {f args s s' r}, call P n f args s = (s', r) → r ≠ .error .outOfFuel → call P (n + 1) f args s = (s', r)
  printItems : ∀ {items s s' o}, printItems P n items s = (s', o) → o ≠ .outOfFuel →
    printItems P (n + 1) items s = (s', o)
  evalCond : ∀ {c s s' r}, evalCond P n c s = (s', r) → r ≠ .error .outOfFuel → evalCond P (n + 1) c s = (s', r)
  caseMatches : ∀ {p subj c s s' r}, caseMatches P n p subj c s = (s', r) → r ≠ .error .outOfFuel →
    caseMatches P (n + 1) p subj c s = (s', r)
  anyMatches : ∀ {p subj cs s s' r}, anyMatches P n p subj cs s = (s', r) → r ≠ .error .outOfFuel →
    anyMatches P (n + 1) p subj cs s = (s', r)
  exec : ∀ {A st m s s' o}, exec P n A st m s = (s', o) → o ≠ .outOfFuel → exec P (n + 1) A st m s = (s', o)
  execCases : ∀ {A p subj cs s s' o}, execCases P n A p subj cs s = (s', o) → o ≠ .outOfFuel →
    execCases P (n + 1) A p subj cs s = (s', o)
  seekCases : ∀ {A cs L s s' o}, seekCases P n A cs L s = (s', o) → o ≠ .outOfFuel →
    seekCases P (n + 1) A cs L s = (s', o)
  selectSeek : ∀ {A cs L s s' o}, selectSeek P n A cs L s = (s', o) → o ≠ .outOfFuel →
    selectSeek P (n + 1) A cs L s = (s', o)
  forIter : ∀ {A x t h sv up body p m s s' o}, forIter P n A x t h sv up body p m s = (s', o) → o ≠ .outOfFuel →
    forIter P (n + 1) A x t h sv up body p m s = (s', o)

theorem stable_zero (P : Program) : Stable P 0 := by
  refine ⟨?_, ?_, ?_, ?_, ?_, ?_, ?_, ?_, ?_, ?_, ?_, ?_, ?_⟩ <;> intros <;> rename_i h ho <;>
    simp only [ProcJ.Ref.eval, ProcJ.Ref.evalTo, ProcJ.Ref.evalArgs, ProcJ.Ref.call, ProcJ.Ref.printItems,
      ProcJ.Ref.evalCond, ProcJ.Ref.caseMatches, ProcJ.Ref.anyMatches, ProcJ.Ref.exec, ProcJ.Ref.execCases,
      ProcJ.Ref.seekCases, ProcJ.Ref.selectSeek, ProcJ.Ref.forIter] at h <;> cases h <;> exact absurd rfl ho

set_option hygiene false in
/-- lift one sub-call whose fuel went up, by the induction hypothesis (`hne`: its answer is not `outOfFuel`) -/
macro "flift " hne:term : tactic => `(tactic|
  first
    | rw [ih.eval hr $hne] | rw [ih.evalTo hr $hne] | rw [ih.evalArgs hr $hne] | rw [ih.call hr $hne]
    | rw [ih.printItems hr $hne] | rw [ih.evalCond hr $hne] | rw [ih.caseMatches hr $hne]
    | rw [ih.anyMatches hr $hne] | rw [ih.exec hr $hne] | rw [ih.execCases hr $hne] | rw [ih.seekCases hr $hne]
    | rw [ih.selectSeek hr $hne] | rw [ih.forIter hr $hne])

set_option hygiene false in
macro "fclose0" : tactic => `(tactic|
  first
    | exact h | exact ih.exec h ho | exact ih.execCases h ho | exact ih.seekCases h ho | exact ih.selectSeek h ho
    | exact ih.forIter h ho | exact ih.printItems h ho | exact ih.anyMatches h ho | exact ih.eval h ho
    | exact ih.call h ho)

set_option hygiene false in
macro "fclose" : tactic => `(tactic|
  first
    | fclose0
    | (split at h <;> rename_i hc <;> simp only [hc, if_true, if_false, ↓reduceIte] <;> fclose0))

set_option hygiene false in
/-- one sub-call that answers a value or fails: discharge `outOfFuel`, pass a failure on, go on with the value `v` in `s1` -/
macro "fstepE " t:term : tactic => `(tactic|
  (generalize hr : $t = r at h
   obtain ⟨s1, rv⟩ := r
   rcases rv with o1 | v
   · by_cases hoo : o1 = Outcome.outOfFuel
     · subst hoo; (try simp only [] at h); cases h; exact absurd rfl ho
     · flift (by intro hc; cases hc; exact hoo rfl)
       (try simp only [] at h); (try simp only [])
       first
         | exact h
         | (cases o1 <;> (try simp only [] at h) <;> (try simp only []) <;> fclose)
   flift (by intro hc; cases hc)
   (try simp only [] at h); (try simp only []); (try exact h)))

set_option hygiene false in
/-- one sub-call that answers an outcome: split on it, discharge `outOfFuel`, lift the others -/
macro "fstepO " t:term : tactic => `(tactic|
  (generalize hr : $t = r at h
   obtain ⟨s1, o1⟩ := r
   cases o1 <;> (try simp only [returns, callFail, Bool.false_eq_true, if_false, if_true] at h) <;>
   first
     | (cases h; exact absurd rfl ho)
     | (flift (by simp)
        (try simp only [returns, callFail, Bool.false_eq_true, if_false, if_true]); (try exact h))))

theorem stable_succ (P : Program) (n : Nat) (ih : Stable P n) : Stable P (n + 1) := by
  refine ⟨?_, ?_, ?_, ?_, ?_, ?_, ?_, ?_, ?_, ?_, ?_, ?_, ?_⟩
  · -- eval
    intro e s s' r h ho
    cases e with
    | lit v p => unfold ProcJ.Ref.eval at h ⊢; exact h
    | var x t p => unfold ProcJ.Ref.eval at h ⊢; exact h
    | un op e p =>
      unfold ProcJ.Ref.eval at h ⊢
      fstepE (ProcJ.Ref.eval P n e s)
    | bin op l r' t p =>
      unfold ProcJ.Ref.eval at h ⊢
      fstepE (ProcJ.Ref.eval P n l s)
      fstepE (ProcJ.Ref.eval P n r' s1)
    | paren e p => unfold ProcJ.Ref.eval at h ⊢; exact ih.eval h ho
    | callFn f args t p => unfold ProcJ.Ref.eval at h ⊢; exact ih.call h ho
  · -- evalTo
    intro e t s s' r h ho
    unfold ProcJ.Ref.evalTo at h ⊢
    fstepE (ProcJ.Ref.eval P n e s)
  · -- evalArgs
    intro args s s' r h ho
    cases args with
    | nil => unfold ProcJ.Ref.evalArgs at h ⊢; exact h
    | cons e pn pt rest =>
      unfold ProcJ.Ref.evalArgs at h ⊢
      fstepE (ProcJ.Ref.evalTo P n e pt s)
      fstepE (ProcJ.Ref.evalArgs P n rest s1)
  · -- call
    intro f args s s' r h ho
    unfold ProcJ.Ref.call at h ⊢
    cases hd : P.procs[f]? with
    | none => simp only [hd] at h ⊢; exact h
    | some d =>
      simp only [hd] at h ⊢
      fstepE (ProcJ.Ref.evalArgs P n args s)
      fstepO (ProcJ.Ref.exec P n ⟨true, d.body⟩ d.body .run (enter d f v s1))
  · -- printItems
    intro items s s' o h ho
    cases items with
    | nil => unfold ProcJ.Ref.printItems at h ⊢; exact h
    | cons it rest =>
      cases it with
      | comma => unfold ProcJ.Ref.printItems at h ⊢; exact ih.printItems h ho
      | semicolon => unfold ProcJ.Ref.printItems at h ⊢; exact ih.printItems h ho
      | expr e =>
        unfold ProcJ.Ref.printItems at h ⊢
        fstepE (ProcJ.Ref.eval P n e s)
        cases hpv : RbModel.Proc.Ref.printValue v with
        | none => simp only [hpv] at h ⊢; exact h
        | some pv => simp only [hpv] at h ⊢; exact ih.printItems h ho
  · -- evalCond
    intro c s s' r h ho
    unfold ProcJ.Ref.evalCond at h ⊢
    fstepE (ProcJ.Ref.eval P n c s)
  · -- caseMatches
    intro p subj c s s' r h ho
    cases c with
    | simple e =>
      unfold ProcJ.Ref.caseMatches at h ⊢
      fstepE (ProcJ.Ref.eval P n e s)
    | is op e =>
      unfold ProcJ.Ref.caseMatches at h ⊢
      fstepE (ProcJ.Ref.eval P n e s)
    | range lo hi =>
      unfold ProcJ.Ref.caseMatches at h ⊢
      fstepE (ProcJ.Ref.eval P n lo s)
      cases hrt : relTest p .greaterOrEqual subj v with
      | error o1 => simp only [hrt] at h ⊢; exact h
      | ok b =>
        cases b with
        | false => simp only [hrt] at h ⊢; exact h
        | true =>
          simp only [hrt] at h ⊢
          fstepE (ProcJ.Ref.eval P n hi s1)
  · -- anyMatches
    intro p subj cs s s' r h ho
    cases cs with
    | nil => unfold ProcJ.Ref.anyMatches at h ⊢; exact h
    | cons c rest =>
      unfold ProcJ.Ref.anyMatches at h ⊢
      fstepE (ProcJ.Ref.caseMatches P n p subj c s)
      cases v with
      | true => exact h
      | false => exact ih.anyMatches h ho
  · -- exec
    intro A st m s s' o h ho
    cases st with
    | skip => unfold ProcJ.Ref.exec at h ⊢; exact h
    | seq a b =>
      unfold ProcJ.Ref.exec at h ⊢
      by_cases hen : m.enters (.seq a b) = true
      · simp only [hen, if_true] at h ⊢
        by_cases hea : m.enters a = true
        · simp only [hea, if_true] at h ⊢
          fstepO (ProcJ.Ref.exec P n A a m s)
          case normal =>
            fstepO (ProcJ.Ref.exec P n A b .run s1)
            case jump L => fclose
          case jump L => fclose
        · simp only [hea, Bool.false_eq_true, if_false] at h ⊢
          fstepO (ProcJ.Ref.exec P n A b m s)
          case jump L => fclose
      · simp only [hen, Bool.false_eq_true, if_false] at h ⊢; exact h
    | assign x t e p =>
      cases m with
      | seek L0 => unfold ProcJ.Ref.exec at h ⊢; exact h
      | run =>
        unfold ProcJ.Ref.exec at h ⊢
        fstepE (ProcJ.Ref.evalTo P n e t s)
    | print items p =>
      cases m with
      | seek L0 => unfold ProcJ.Ref.exec at h ⊢; exact h
      | run =>
        unfold ProcJ.Ref.exec at h ⊢
        fstepO (ProcJ.Ref.printItems P n items s)
    | read x t p => unfold ProcJ.Ref.exec at h ⊢; exact h
    | ifs c thn els p =>
      unfold ProcJ.Ref.exec at h ⊢
      by_cases hen : m.enters (.ifs c thn els p) = true
      · simp only [hen, if_true] at h ⊢
        cases m with
        | run =>
          simp only [] at h ⊢
          fstepE (ProcJ.Ref.evalCond P n c s)
          cases v with
          | true =>
            simp only [] at h ⊢
            fstepO (ProcJ.Ref.exec P n A thn .run s1)
            case jump L => fclose
          | false =>
            simp only [] at h ⊢
            fstepO (ProcJ.Ref.exec P n A els .run s1)
            case jump L => fclose
        | seek L0 =>
          simp only [] at h ⊢
          by_cases hl : thn.hasLabel L0 = true
          · simp only [hl, if_true] at h ⊢
            fstepO (ProcJ.Ref.exec P n A thn (.seek L0) s)
            case jump L => fclose
          · simp only [hl, Bool.false_eq_true, if_false] at h ⊢
            fstepO (ProcJ.Ref.exec P n A els (.seek L0) s)
            case jump L => fclose
      · simp only [hen, Bool.false_eq_true, if_false] at h ⊢; exact h
    | select e cases p =>
      cases m with
      | seek L0 => unfold ProcJ.Ref.exec at h ⊢; exact h
      | run =>
        unfold ProcJ.Ref.exec at h ⊢
        fstepE (ProcJ.Ref.eval P n e s)
        fstepO (ProcJ.Ref.execCases P n A p v cases s1)
        case jump L => fclose
    | forLoop x t lo hi step body p =>
      cases m with
      | seek L0 => unfold ProcJ.Ref.exec at h ⊢; exact h
      | run =>
        unfold ProcJ.Ref.exec at h ⊢
        fstepE (ProcJ.Ref.evalTo P n lo t s)
        fstepE (ProcJ.Ref.evalTo P n hi t (s1.set x v))
        cases step with
        | none => simp only [] at h ⊢; exact ih.forIter h ho
        | some se =>
          simp only [] at h ⊢
          fstepE (ProcJ.Ref.eval P n se s1)
          cases hsg : stepSign p v with
          | error o' => simp only [hsg] at h ⊢; exact h
          | ok sg => cases sg <;> simp only [hsg] at h ⊢ <;> first | exact h | exact ih.forIter h ho
    | «while» c body p =>
      unfold ProcJ.Ref.exec at h ⊢
      by_cases hen : m.enters (.while c body p) = true
      · simp only [hen, if_true] at h ⊢
        cases m with
        | run =>
          simp only [] at h ⊢
          fstepE (ProcJ.Ref.evalCond P n c s)
          cases v with
          | false => exact h
          | true =>
            simp only [] at h ⊢
            fstepO (ProcJ.Ref.exec P n A body .run s1)
            case normal => fclose
            case jump L => fclose
        | seek L0 =>
          simp only [] at h ⊢
          fstepO (ProcJ.Ref.exec P n A body (.seek L0) s)
          case normal => fclose
          case jump L => fclose
      · simp only [hen, Bool.false_eq_true, if_false] at h ⊢; exact h
    | doLoop c top until_ body p =>
      unfold ProcJ.Ref.exec at h ⊢
      by_cases hen : m.enters (.doLoop c top until_ body p) = true
      · simp only [hen, if_true] at h ⊢
        cases top with
        | true =>
          simp only [if_true] at h ⊢
          cases m with
          | run =>
            simp only [] at h ⊢
            fstepE (ProcJ.Ref.evalCond P n c s)
            by_cases hb : (v != until_) = true
            · simp only [hb, if_true] at h ⊢
              fstepO (ProcJ.Ref.exec P n A body .run s1)
              case normal => fclose
              case jump L => fclose
            · simp only [hb, Bool.false_eq_true, if_false] at h ⊢; exact h
          | seek L0 =>
            simp only [] at h ⊢
            by_cases hb : ((!until_) != until_) = true
            · simp only [hb, if_true] at h ⊢
              fstepO (ProcJ.Ref.exec P n A body (.seek L0) s)
              case normal => fclose
              case jump L => fclose
            · simp only [hb, Bool.false_eq_true, if_false] at h ⊢; exact h
        | false =>
          simp only [Bool.false_eq_true, if_false] at h ⊢
          fstepO (ProcJ.Ref.exec P n A body m s)
          case normal =>
            fstepE (ProcJ.Ref.evalCond P n c s1)
            fclose
          case jump L => fclose
      · simp only [hen, Bool.false_eq_true, if_false] at h ⊢; exact h
    | end_ p => unfold ProcJ.Ref.exec at h ⊢; exact h
    | callSub f args p =>
      cases m with
      | seek L0 => unfold ProcJ.Ref.exec at h ⊢; exact h
      | run =>
        unfold ProcJ.Ref.exec at h ⊢
        fstepE (ProcJ.Ref.call P n f args s)
    | exitProc p => unfold ProcJ.Ref.exec at h ⊢; exact h
    | label L' => unfold ProcJ.Ref.exec at h ⊢; exact h
    | goto L => unfold ProcJ.Ref.exec at h ⊢; exact h
    | gosub L =>
      cases m with
      | seek L0 => unfold ProcJ.Ref.exec at h ⊢; exact h
      | run =>
        unfold ProcJ.Ref.exec at h ⊢
        fstepO (ProcJ.Ref.exec P n A A.body (.seek L) s)
    | ret p => unfold ProcJ.Ref.exec at h ⊢; exact h
  · -- execCases
    intro A p subj cs s s' o h ho
    cases cs with
    | nil => unfold ProcJ.Ref.execCases at h ⊢; exact h
    | else_ body => unfold ProcJ.Ref.execCases at h ⊢; exact ih.exec h ho
    | case conds body rest =>
      unfold ProcJ.Ref.execCases at h ⊢
      fstepE (ProcJ.Ref.anyMatches P n p subj conds s)
      cases v with
      | true => exact ih.exec h ho
      | false => exact ih.execCases h ho
  · -- seekCases
    intro A cs L s s' o h ho
    cases cs with
    | nil => unfold ProcJ.Ref.seekCases at h ⊢; exact h
    | else_ body => unfold ProcJ.Ref.seekCases at h ⊢; exact ih.exec h ho
    | case conds body rest =>
      unfold ProcJ.Ref.seekCases at h ⊢
      fclose
  · -- selectSeek
    intro A cs L s s' o h ho
    unfold ProcJ.Ref.selectSeek at h ⊢
    fstepO (ProcJ.Ref.seekCases P n A cs L s)
    case jump L' => fclose
  · -- forIter
    intro A x t hv sv up body p m s s' o h ho
    unfold ProcJ.Ref.forIter at h ⊢
    cases m with
    | run =>
      simp only [] at h ⊢
      generalize hr0 : relTest p (if up = true then Op.lessOrEqual else Op.greaterOrEqual) (s.get x t) hv = rt at h ⊢
      cases rt with
      | error o' => exact h
      | ok bb =>
        cases bb with
        | false => exact h
        | true =>
          simp only [] at h ⊢
          fstepO (ProcJ.Ref.exec P n A body .run s)
          case normal =>
            generalize hp : (plus (s1.get x t) sv).bind (fun v => Num.cast v t) = pr at h ⊢
            cases pr with
            | ok v => simp only [] at h ⊢; exact ih.forIter h ho
            | err e => exact h
            | inexact => exact h
          case jump L => fclose
    | seek L0 =>
      simp only [] at h ⊢
      fstepO (ProcJ.Ref.exec P n A body (.seek L0) s)
      case normal =>
        generalize hp : (plus (s1.get x t) sv).bind (fun v => Num.cast v t) = pr at h ⊢
        cases pr with
        | ok v => simp only [] at h ⊢; exact ih.forIter h ho
        | err e => exact h
        | inexact => exact h
      case jump L => fclose

theorem stable_all (P : Program) : ∀ n, Stable P n
  | 0 => stable_zero P
  | n + 1 => stable_succ P n (stable_all P n)

/-- **The answer of a statement does not depend on the fuel**, once the fuel suffices. -/
theorem exec_fuel_mono (P : Program) (fuel k : Nat) (A : Act) (st : Stmt) (m : Mode) (s s' : St) (o : Outcome)
    (h : exec P fuel A st m s = (s', o)) (ho : o ≠ .outOfFuel) : exec P (fuel + k) A st m s = (s', o) := by
  induction k with
  | zero => exact h
  | succ k ih => exact (stable_all P (fuel + k)).exec ih ho

theorem eval_fuel_mono (P : Program) (fuel k : Nat) (e : Expr) (s s' : St) (r : Except Outcome Val)
    (h : eval P fuel e s = (s', r)) (ho : r ≠ .error .outOfFuel) : eval P (fuel + k) e s = (s', r) := by
  induction k with
  | zero => exact h
  | succ k ih => exact (stable_all P (fuel + k)).eval ih ho

theorem evalTo_fuel_mono (P : Program) (fuel k : Nat) (e : Expr) (t : Ty) (s s' : St) (r : Except Outcome Val)
    (h : evalTo P fuel e t s = (s', r)) (ho : r ≠ .error .outOfFuel) : evalTo P (fuel + k) e t s = (s', r) := by
  induction k with
  | zero => exact h
  | succ k ih => exact (stable_all P (fuel + k)).evalTo ih ho

theorem evalArgs_fuel_mono (P : Program) (fuel k : Nat) (args : Args) (s s' : St) (r : Except Outcome (List Val))
    (h : evalArgs P fuel args s = (s', r)) (ho : r ≠ .error .outOfFuel) : evalArgs P (fuel + k) args s = (s', r) := by
  induction k with
  | zero => exact h
  | succ k ih => exact (stable_all P (fuel + k)).evalArgs ih ho

theorem call_fuel_mono (P : Program) (fuel k : Nat) (f : Nat) (args : Args) (s s' : St) (r : Except Outcome Val)
    (h : call P fuel f args s = (s', r)) (ho : r ≠ .error .outOfFuel) : call P (fuel + k) f args s = (s', r) := by
  induction k with
  | zero => exact h
  | succ k ih => exact (stable_all P (fuel + k)).call ih ho

theorem evalCond_fuel_mono (P : Program) (fuel k : Nat) (c : Expr) (s s' : St) (r : Except Outcome Bool)
    (h : evalCond P fuel c s = (s', r)) (ho : r ≠ .error .outOfFuel) : evalCond P (fuel + k) c s = (s', r) := by
  induction k with
  | zero => exact h
  | succ k ih => exact (stable_all P (fuel + k)).evalCond ih ho

theorem printItems_fuel_mono (P : Program) (fuel k : Nat) (items : List PrintItem) (s s' : St) (o : Outcome)
    (h : printItems P fuel items s = (s', o)) (ho : o ≠ .outOfFuel) : printItems P (fuel + k) items s = (s', o) := by
  induction k with
  | zero => exact h
  | succ k ih => exact (stable_all P (fuel + k)).printItems ih ho

theorem anyMatches_fuel_mono (P : Program) (fuel k : Nat) (p : Pos) (subj : Val) (cs : List CaseExpr) (s s' : St)
    (r : Except Outcome Bool) (h : anyMatches P fuel p subj cs s = (s', r)) (ho : r ≠ .error .outOfFuel) :
    anyMatches P (fuel + k) p subj cs s = (s', r) := by
  induction k with
  | zero => exact h
  | succ k ih => exact (stable_all P (fuel + k)).anyMatches ih ho

theorem execCases_fuel_mono (P : Program) (fuel k : Nat) (A : Act) (p : Pos) (subj : Val) (cs : Cases) (s s' : St)
    (o : Outcome) (h : execCases P fuel A p subj cs s = (s', o)) (ho : o ≠ .outOfFuel) :
    execCases P (fuel + k) A p subj cs s = (s', o) := by
  induction k with
  | zero => exact h
  | succ k ih => exact (stable_all P (fuel + k)).execCases ih ho

theorem seekCases_fuel_mono (P : Program) (fuel k : Nat) (A : Act) (cs : Cases) (L : Nat) (s s' : St) (o : Outcome)
    (h : seekCases P fuel A cs L s = (s', o)) (ho : o ≠ .outOfFuel) : seekCases P (fuel + k) A cs L s = (s', o) := by
  induction k with
  | zero => exact h
  | succ k ih => exact (stable_all P (fuel + k)).seekCases ih ho

theorem selectSeek_fuel_mono (P : Program) (fuel k : Nat) (A : Act) (cs : Cases) (L : Nat) (s s' : St) (o : Outcome)
    (h : selectSeek P fuel A cs L s = (s', o)) (ho : o ≠ .outOfFuel) : selectSeek P (fuel + k) A cs L s = (s', o) := by
  induction k with
  | zero => exact h
  | succ k ih => exact (stable_all P (fuel + k)).selectSeek ih ho

theorem forIter_fuel_mono (P : Program) (fuel k : Nat) (A : Act) (x : Var) (t : Ty) (hv sv : Val) (up : Bool)
    (body : Stmt) (p : Pos) (m : Mode) (s s' : St) (o : Outcome)
    (h : forIter P fuel A x t hv sv up body p m s = (s', o)) (ho : o ≠ .outOfFuel) :
    forIter P (fuel + k) A x t hv sv up body p m s = (s', o) := by
  induction k with
  | zero => exact h
  | succ k ih => exact (stable_all P (fuel + k)).forIter ih ho

/-- the same with `≤` -/
theorem exec_fuel_le {P : Program} {fuel fuel' : Nat} (hle : fuel ≤ fuel') {A : Act} {st : Stmt} {m : Mode} {s s' : St}
    {o : Outcome} (h : exec P fuel A st m s = (s', o)) (ho : o ≠ .outOfFuel) : exec P fuel' A st m s = (s', o) := by
  obtain ⟨k, rfl⟩ := Nat.exists_eq_add_of_le hle
  exact exec_fuel_mono P fuel k A st m s s' o h ho

theorem forIter_fuel_le {P : Program} {fuel fuel' : Nat} (hle : fuel ≤ fuel') {A : Act} {x : Var} {t : Ty} {hv sv : Val}
    {up : Bool} {body : Stmt} {p : Pos} {m : Mode} {s s' : St} {o : Outcome}
    (h : forIter P fuel A x t hv sv up body p m s = (s', o)) (ho : o ≠ .outOfFuel) :
    forIter P fuel' A x t hv sv up body p m s = (s', o) := by
  obtain ⟨k, rfl⟩ := Nat.exists_eq_add_of_le hle
  exact forIter_fuel_mono P fuel k A x t hv sv up body p m s s' o h ho

theorem eval_fuel_le {P : Program} {fuel fuel' : Nat} (hle : fuel ≤ fuel') {e : Expr} {s s' : St}
    {r : Except Outcome Val} (h : eval P fuel e s = (s', r)) (ho : r ≠ .error .outOfFuel) :
    eval P fuel' e s = (s', r) := by
  obtain ⟨k, rfl⟩ := Nat.exists_eq_add_of_le hle
  exact eval_fuel_mono P fuel k e s s' r h ho

theorem call_fuel_le {P : Program} {fuel fuel' : Nat} (hle : fuel ≤ fuel') {f : Nat} {args : Args} {s s' : St}
    {r : Except Outcome Val} (h : call P fuel f args s = (s', r)) (ho : r ≠ .error .outOfFuel) :
    call P fuel' f args s = (s', r) := by
  obtain ⟨k, rfl⟩ := Nat.exists_eq_add_of_le hle
  exact call_fuel_mono P fuel k f args s s' r h ho

/-- **Determinism**: two amounts of fuel at which the statement ends give the same state and the same answer. -/
theorem exec_deterministic {P : Program} {f₁ f₂ : Nat} {A : Act} {st : Stmt} {m : Mode} {s s₁ s₂ : St} {o₁ o₂ : Outcome}
    (h₁ : exec P f₁ A st m s = (s₁, o₁)) (h₂ : exec P f₂ A st m s = (s₂, o₂))
    (ho₁ : o₁ ≠ .outOfFuel) (ho₂ : o₂ ≠ .outOfFuel) : s₁ = s₂ ∧ o₁ = o₂ := by
  have e₁ := exec_fuel_le (Nat.le_max_left f₁ f₂) h₁ ho₁
  have e₂ := exec_fuel_le (Nat.le_max_right f₁ f₂) h₂ ho₂
  rw [e₁] at e₂
  injection e₂ with hs ho
  exact ⟨hs, ho⟩

theorem topOutcome_outOfFuel {o : Outcome} (h : topOutcome o = .outOfFuel) : o = .outOfFuel := by
  cases o <;> simp [topOutcome] at h ⊢

theorem run_fuel_mono (fuel k : Nat) (P : Program) (s' : St) (o : Outcome)
    (h : run fuel P = (s', o)) (ho : o ≠ .outOfFuel) : run (fuel + k) P = (s', o) := by
  unfold run at h ⊢
  generalize hr : exec P fuel ⟨false, P.body⟩ P.body .run (St.init P) = r at h
  obtain ⟨s1, o1⟩ := r
  have ho1 : o1 ≠ .outOfFuel := by
    rintro rfl
    simp only [] at h
    cases h
    exact ho rfl
  rw [exec_fuel_mono P fuel k _ _ _ _ _ _ hr ho1]
  exact h

/-- **The outcome of a program is a function of the program text alone.** -/
theorem run_deterministic {f₁ f₂ : Nat} {P : Program} {s₁ s₂ : St} {o₁ o₂ : Outcome}
    (h₁ : run f₁ P = (s₁, o₁)) (h₂ : run f₂ P = (s₂, o₂))
    (ho₁ : o₁ ≠ .outOfFuel) (ho₂ : o₂ ≠ .outOfFuel) : s₁ = s₂ ∧ o₁ = o₂ := by
  have e₁ := run_fuel_mono f₁ f₂ P _ _ h₁ ho₁
  have e₂ := run_fuel_mono f₂ f₁ P _ _ h₂ ho₂
  rw [Nat.add_comm] at e₂
  rw [e₁] at e₂
  injection e₂ with hs ho
  exact ⟨hs, ho⟩

end RbThm.ProcJRef
