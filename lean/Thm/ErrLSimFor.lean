import Thm.ErrLSimBase
import Thm.ErrLSimExpr
import Thm.ErrLSimCond
import Thm.JmpLSimFor
/-!
Error layer (property C05), simulation part: `FOR … NEXT`, with and without STEP (port of `Thm/JmpLSimFor.lean`).

Resume units of a FOR without STEP (`marks_forNone`; `hdr` = behind the bounds, `bodyEnd` = the `PopRegisters` of NEXT):

* **header** `[off, hdr + 4)`: the bounds.  RESUME runs the whole statement again (`again`: the induction hypothesis at the
  same fuel), RESUME NEXT / ON ERROR RESUME NEXT continue at `hdr + 4`, the `Jump out-of-for` (no frame pushed yet): two steps
  reach the end of the statement (`efor_header_unit`, `efor_bounds`);
* **the body**, one FOR deeper, on top of the frame `PushRegisters` saved, followed by the entry `bodyEnd` (`PopRegisters`);
* **increment** `[bodyEnd + 1, nx)`, a unit of its own (3abb028): the failing `Plus` / `Cast` is dispatched with the loop's
  frame already popped and the limit and the step in the registers C / D; RESUME comes back to `bodyEnd + 1` with that
  register frame restored (`Resumes.regs`: the handler ran in a frame of its own, df9ea58) — the second entry of `efor_loop`;
  RESUME NEXT / ON ERROR RESUME NEXT continue at `nx` (the alternative `normal` exit).

FOR … STEP (`marks_forSome`, `case_forSome`): the step is a literal other than zero (`StepLit`, premise clause P5 of `Wf`:
finding C05-g), so the header cannot fail behind the bounds and the zero-step `Throw` is never reached; the sign test selects
the copy of the body; the increment unit of either copy is followed by the `Jump out-of-for` behind that copy (7249205), one
step away from the end of the statement.
-/
namespace RbThm.ErrLSim
set_option linter.unusedVariables false
set_option linter.unusedSimpArgs false
open RbModel RbModel.Num RbModel.ErrL RbModel.ErrL.Compile RbModel.ErrL.Vm
open RbModel.JmpL.Compile (CInstr Code labelName compileExpr compileExprTo storeVar loadVar compileItems compileConds
  sizeCaseExpr sizeItems sizeConds Dp lookupNat lookupDepth stepSuffix maxPos)
open RbModel.JmpL.Vm (Vm truncTop)
open RbModel.Ast (Pos PrintItem CaseExpr)
open RbModel.Ref (St)
open RbModel.ErrL.Ref
open RbThm.ErrLLen
open RbThm.C01Sim (Typed SlotsBelow ExprWt NumericAt NumericCond ItemsSlots CaseSlots CondsSlots)

/-! ### small facts -/

/-- values of the same type are comparable: `try_cmp` raises `TypeMismatch` only across string / number -/
theorem efor_tryCmp_tag {a b : Val} (h : a.tag = b.tag) (er : Err) : tryCmp a b ≠ .err er := by
  cases a <;> cases b <;> simp only [Val.tag] at h <;> (try cases h) <;>
    simp only [tryCmp, approxCmp] <;> (repeat' split) <;> simp

/-- the current value of a typed variable -/
theorem efor_cur {sl : List Ty} {env : List Val} (h : Typed sl env) {x : Nat} {t : Ty} (hx : sl[x]? = some t) :
    ∃ v, env[x]? = some v ∧ env.getD x (RbModel.Ref.zeroOf t) = v ∧ v.tag = t := by
  obtain ⟨v, hv, ht⟩ := h.2 x t hx
  refine ⟨v, hv, ?_, ht⟩
  simp [List.getD, hv]

theorem efor_set_self : ∀ {env : List Val} {x : Nat} {v : Val}, env[x]? = some v → env.set x v = env
  | [], _, _, h => by simp at h
  | a :: as, 0, v, h => by simp at h; subst h; rfl
  | a :: as, x + 1, v, h => by
    simp only [List.getElem?_cons_succ] at h
    simp only [List.set_cons_succ, efor_set_self h]

theorem efor_lift_append (a b : Code) : lift (a ++ b) = lift a ++ lift b := by simp [lift]

theorem efor_exprTo_noread (e : Ast.Expr) (t : Ty) : ∀ ip ∈ compileExprTo e t, ip.1 ≠ CInstr.builtInRead := by
  intro ip h
  simp only [compileExprTo, List.mem_append] at h
  rcases h with h | h
  · exact cu_expr_noread e ip h
  · split at h
    · simp at h
    · simp at h; subst h; simp

theorem efor_head_noread (sfx : String) (x : Nat) (up : Bool) (p : Pos) (outOff : Nat) :
    ∀ ip ∈ forHead sfx x up p outOff, ip.1 ≠ CInstr.builtInRead := by
  intro ip h
  simp only [forHead, loadVar, List.mem_append, List.mem_cons, List.mem_singleton, List.not_mem_nil, or_false] at h
  rcases h with (h | h) | h
  · rcases h with h | h <;> (subst h; simp)
  · rcases h with h | h | h <;> (subst h; simp)
  · rcases h with h | h | h <;> (subst h; simp)

theorem efor_tail_noread (x : Nat) (t : Ty) (p : Pos) (bo : Nat) :
    ∀ ip ∈ forTail x t p bo, ip.1 ≠ CInstr.builtInRead := by
  intro ip h
  simp only [forTail, loadVar, storeVar, List.mem_append, List.mem_cons, List.mem_singleton, List.not_mem_nil,
    or_false] at h
  rcases h with (((h | h) | h) | h) | h
  · subst h; simp
  · rcases h with h | h | h <;> (subst h; simp)
  · rcases h with h | h | h <;> (subst h; simp)
  · rcases h with h | h <;> (subst h; simp)
  · subst h; simp

/-! ### the increment fails: the whole failing state -/

/-- the tail of one FOR round fails in `Plus` or in the `Cast` back to the counter's type: the frame of the loop has been
popped (`regStack = rest`), the limit and the step are in C and D, everything else is as it was at `PopRegisters` -/
theorem efor_tail_fails (code : Code) (x : Nat) (t : Ty) (p : Pos) (q bo : Nat) (υ : Vm) (r : JmpL.Vm.Regs)
    (rest : List JmpL.Vm.Regs) (cur : Val)
    (hc : RbThm.JmpLSim.CodeAt code q (RbThm.JmpLSim.forTailCode x t p bo)) (hpc : υ.pc = q)
    (hrs : υ.regStack = r :: rest) (hv : υ.env[x]? = some cur) {er : Err}
    (hinc : (plus cur r.d).bind (fun w => cast w t) = .err er) :
    ∃ y, RbThm.JmpLSim.Steps code υ y ∧ JmpL.Vm.step code y = .error (RbModel.Ref.codeOf er) p y ∧
      y.regStack = rest ∧ y.regs.c = r.c ∧ y.regs.d = r.d ∧ y.env = υ.env ∧ y.out = υ.out ∧ y.data = υ.data ∧
      y.dataIdx = υ.dataIdx ∧ y.queue = υ.queue ∧ y.vals = υ.vals ∧ y.paths = υ.paths ∧ y.gosubs = υ.gosubs := by
  subst hpc
  simp only [RbThm.JmpLSim.forTailCode] at hc
  have h0 : code[υ.pc]? = some (CInstr.popRegs, p) := hc.append_left.append_left.append_left.append_left.head
  have hl : RbThm.JmpLSim.CodeAt code (υ.pc + 1) (loadVar x p) := hc.append_left.append_left.append_left.append_right
  have h3 : RbThm.JmpLSim.CodeAt code (υ.pc + 4) [(CInstr.copyDToB, p), (CInstr.bin .plus, p), (CInstr.cast t, p)] :=
    hc.append_left.append_left.append_right
  let υ1 : Vm := JmpL.Vm.advance { υ with regs := r, regStack := rest }
  let υ2 : Vm := { υ1 with pc := υ.pc + 1 + 3, regs := { υ1.regs with a := cur } }
  let υ3 : Vm := JmpL.Vm.advance { υ2 with regs := { υ2.regs with b := υ2.regs.d } }
  have s1 : JmpL.Vm.step code υ = .next υ1 := by simp only [JmpL.Vm.step, h0, hrs]; rfl
  have s2 : RbThm.JmpLSim.Steps code υ1 υ2 := RbThm.JmpLSim.for_load_steps code x p (υ.pc + 1) υ1 cur hl rfl hv
  have s3 : JmpL.Vm.step code υ2 = .next υ3 := by
    have := h3.head
    simp only [JmpL.Vm.step, υ2, this]; rfl
  have s4 : JmpL.Vm.step code υ3 = JmpL.Vm.resA υ3 p (plus cur r.d) := by
    have := h3.tail.head
    simp only [JmpL.Vm.step, υ3, υ2, JmpL.Vm.advance, this]; rfl
  have pre : RbThm.JmpLSim.Steps code υ υ3 :=
    RbThm.JmpLSim.Steps.cons s1 (s2.trans (RbThm.JmpLSim.Steps.one s3))
  cases hpl : plus cur r.d with
  | ok w =>
    simp only [hpl, Res.bind] at hinc
    let υ4 : Vm := JmpL.Vm.advance (JmpL.Vm.setA υ3 w)
    have s4' : JmpL.Vm.step code υ3 = .next υ4 := by rw [s4, hpl]; rfl
    have s5 : JmpL.Vm.step code υ4 = JmpL.Vm.resA υ4 p (cast w t) := by
      have := h3.tail.tail.head
      simp only [JmpL.Vm.step, υ4, υ3, υ2, JmpL.Vm.advance, JmpL.Vm.setA, this]
    refine ⟨υ4, pre.trans (RbThm.JmpLSim.Steps.one s4'), ?_, rfl, rfl, rfl, rfl, rfl, rfl, rfl, rfl, rfl, rfl, rfl⟩
    rw [s5, hinc]; rfl
  | err e =>
    simp only [hpl, Res.bind, Res.err.injEq] at hinc
    subst hinc
    refine ⟨υ3, pre, ?_, rfl, rfl, rfl, rfl, rfl, rfl, rfl, rfl, rfl, rfl, rfl⟩
    rw [s4, hpl]; rfl
  | inexact => simp [hpl, Res.bind] at hinc

/-- **the increment of NEXT, behind its `PopRegisters`** (`q`: the address of the `PopRegisters`; the run starts at `q + 1`,
with the frame of the loop already in the registers): counter := counter + D converted to the counter's type, then the jump
back to the loop head — or the failing `Plus` / `Cast`, with the registers C and D, the register stack and everything else
as they were -/
theorem efor_inc (code : Code) (x : Nat) (t : Ty) (p : Pos) (q bo : Nat) (υ1 : Vm) (cur : Val)
    (hc : RbThm.JmpLSim.CodeAt code q (RbThm.JmpLSim.forTailCode x t p bo)) (hpc : υ1.pc = q + 1)
    (hv : υ1.env[x]? = some cur) :
    match (plus cur υ1.regs.d).bind (fun w => cast w t) with
    | .ok v => RbThm.JmpLSim.Steps code υ1
        { υ1 with pc := bo, regs := { υ1.regs with a := v, b := υ1.regs.d }, env := υ1.env.set x v }
    | .err er => ∃ y, RbThm.JmpLSim.Steps code υ1 y ∧ JmpL.Vm.step code y = .error (RbModel.Ref.codeOf er) p y ∧
        q + 1 ≤ y.pc ∧ y.pc < q + 10 ∧ y.regStack = υ1.regStack ∧ y.regs.c = υ1.regs.c ∧ y.regs.d = υ1.regs.d ∧
        y.env = υ1.env ∧ y.out = υ1.out ∧ y.data = υ1.data ∧ y.dataIdx = υ1.dataIdx ∧ y.queue = υ1.queue ∧
        y.vals = υ1.vals ∧ y.paths = υ1.paths ∧ y.gosubs = υ1.gosubs
    | .inexact => True := by
  simp only [RbThm.JmpLSim.forTailCode] at hc
  have hl : RbThm.JmpLSim.CodeAt code (q + 1) (loadVar x p) := hc.append_left.append_left.append_left.append_right
  have h3 : RbThm.JmpLSim.CodeAt code (q + 4) [(CInstr.copyDToB, p), (CInstr.bin .plus, p), (CInstr.cast t, p)] :=
    hc.append_left.append_left.append_right
  have hs : RbThm.JmpLSim.CodeAt code (q + 7) (storeVar x p) := hc.append_left.append_right
  have hj : code[q + 9]? = some (CInstr.jump bo, p) := hc.append_right.head
  let υ2 : Vm := { υ1 with pc := q + 1 + 3, regs := { υ1.regs with a := cur } }
  let υ3 : Vm := JmpL.Vm.advance { υ2 with regs := { υ2.regs with b := υ2.regs.d } }
  have s2 : RbThm.JmpLSim.Steps code υ1 υ2 := RbThm.JmpLSim.for_load_steps code x p (q + 1) υ1 cur hl hpc hv
  have s3 : JmpL.Vm.step code υ2 = .next υ3 := by
    have := h3.head
    simp only [JmpL.Vm.step, υ2, this]; rfl
  have s4 : JmpL.Vm.step code υ3 = JmpL.Vm.resA υ3 p (plus cur υ1.regs.d) := by
    have := h3.tail.head
    simp only [JmpL.Vm.step, υ3, υ2, JmpL.Vm.advance, this]; rfl
  have pre : RbThm.JmpLSim.Steps code υ1 υ3 := s2.trans (RbThm.JmpLSim.Steps.one s3)
  cases hpl : plus cur υ1.regs.d with
  | ok w =>
    simp only [Res.bind]
    let υ4 : Vm := JmpL.Vm.advance (JmpL.Vm.setA υ3 w)
    have s4' : JmpL.Vm.step code υ3 = .next υ4 := by rw [s4, hpl]; rfl
    have s5 : JmpL.Vm.step code υ4 = JmpL.Vm.resA υ4 p (cast w t) := by
      have := h3.tail.tail.head
      simp only [JmpL.Vm.step, υ4, υ3, υ2, JmpL.Vm.advance, JmpL.Vm.setA, this]
    cases hcs : cast w t with
    | ok v =>
      simp only
      let υ5 : Vm := JmpL.Vm.advance (JmpL.Vm.setA υ4 v)
      have s5' : JmpL.Vm.step code υ4 = .next υ5 := by rw [s5, hcs]; rfl
      have s6 := RbThm.JmpLSim.store_steps code x p (q + 7) υ5 hs rfl
      refine (pre.trans (RbThm.JmpLSim.Steps.cons s4' (RbThm.JmpLSim.Steps.cons s5' s6))).trans
        (RbThm.JmpLSim.Steps.one ?_)
      simp only [JmpL.Vm.step, hj]
      rfl
    | err e =>
      simp only
      refine ⟨υ4, pre.trans (RbThm.JmpLSim.Steps.one s4'), ?_, ?_, ?_, rfl, rfl, rfl, rfl, rfl, rfl, rfl, rfl, rfl, rfl, rfl⟩
      · rw [s5, hcs]; rfl
      · show q + 1 ≤ q + 1 + 3 + 1 + 1; omega
      · show q + 1 + 3 + 1 + 1 < q + 10; omega
    | inexact => trivial
  | err e =>
    simp only [Res.bind]
    refine ⟨υ3, pre, ?_, ?_, ?_, rfl, rfl, rfl, rfl, rfl, rfl, rfl, rfl, rfl, rfl, rfl⟩
    · rw [s4, hpl]; rfl
    · show q + 1 ≤ q + 1 + 3 + 1; omega
    · show q + 1 + 3 + 1 < q + 10; omega
  | inexact => trivial

/-! ### the label of a jump that comes out of a failed unit -/

/-- a failed unit answers `jump L` only when its handler ended with `RESUME L`: a label at depth 0 / 0 (`Wf`, through the
specification of the handler's run: the induction hypothesis) -/
theorem efor_raise_jump_depths {C : Ctx} (hC : C.Ok) {fuel : Nat} (ih : StmtIH C fuel) {gd : Nat} {y : EVm} {s s' : ESt}
    {c : Nat} {p : Pos} {L : Nat} (hr : ERel C.sl C.env s y) (hgs : y.b.gosubs.length = gd)
    (h : Ref.raise (fuel + 1) C.P gd c p s = (s', .out (.jump L))) : C.env.dp.fd L = 0 ∧ C.env.dp.sd L = 0 := by
  simp only [Ref.raise] at h
  split at h
  · simp at h
  · split at h <;> simp at h
  · rename_i L0 hm
    split at h
    · simp at h
    · rename_i hin
      obtain ⟨hfd, hsd⟩ := hr.hfd L0 hm
      have hL : L0 ∈ C.B.labels := hC.gosubOk L0 hfd
      have hrh : ERel C.sl C.env { s with inH := true, err := some c } (dispatchTo y c (C.env.addr L0)) :=
        { base := hr.base.same rfl rfl rfl rfl rfl, handler := by show y.handler = hOf C.env s.mode; exact hr.handler,
          hfd := hr.hfd, inH := rfl, err := fun _ => rfl }
      have hih : Inv C 0 0 0 gd (dispatchTo y c (C.env.addr L0)) :=
        ⟨Nat.zero_le _, Nat.zero_le _, hgs, fun _ hn => by simp [dispatchTo] at hn⟩
      have hspec := ih C.B "" 0 0 C.base (C.base + sizeStmt C.env.dp 0 0 C.B) 0 gd (.seek L0)
        (dispatchTo y c (C.env.addr L0)) { s with inH := true, err := some c } hC.hcode hC.lab hC.wf
        hC.hmarks (Nat.le_refl _) ⟨hL, rfl⟩ hrh hih
      have hP : desugar C.B = C.P := rfl
      rw [hP] at hspec
      generalize hrun : exec fuel C.P gd C.P (.seek L0) { s with inH := true, err := some c } = r at hspec h
      obtain ⟨s'', o⟩ := r
      simp only [Prod.mk.injEq] at h
      obtain ⟨_, ho⟩ := h
      cases o with
      | resumed k =>
        cases k with
        | label L' =>
          simp only [dispOfHandler, Disp.out.injEq, Outcome.jump.injEq] at ho
          subst ho
          obtain ⟨τ, q, st, hcode, hrτ, b1, b2, b3, b4, b5, b6, bX, bY, b7⟩ := hspec
          exact ⟨(b7 _ rfl).2.2.1, (b7 _ rfl).2.2.2⟩
        | again => simp [dispOfHandler] at ho
        | next => simp [dispOfHandler] at ho
      | normal => simp [dispOfHandler] at ho
      | halted => simp [dispOfHandler] at ho
      | jump L' => simp [dispOfHandler] at ho
      | ret q => simp [dispOfHandler] at ho
      | notHere => simp [dispOfHandler] at ho
      | inexact => simp [dispOfHandler] at ho
      | outOfFuel => simp [dispOfHandler] at ho
      | illFormed => simp [dispOfHandler] at ho
      | unspec => simp [dispOfHandler] at ho
      | error c' p' => simp [dispOfHandler] at ho

/-! ### single steps and address bookkeeping -/

theorem CodeAt.efor_at {code : ECode} {off off' : Nat} {frag : ECode} (h : CodeAt code off frag) (e : off = off') :
    CodeAt code off' frag := e ▸ h

theorem efor_step_jump {C : Ctx} (hC : C.Ok) {τ : EVm} {a : Nat} {p : Pos}
    (h : C.prog.code[τ.b.pc]? = some (.base (.jump a), p)) :
    step C.prog τ = .next { τ with b := { τ.b with pc := a } } := by
  rw [step_base hC.pok h (by simp)]
  simp only [JmpL.Vm.step, base_get hC.pok h]

theorem efor_step_label {C : Ctx} (hC : C.Ok) {τ : EVm} {lbl : String} {p : Pos}
    (h : C.prog.code[τ.b.pc]? = some (.base (.label lbl), p)) :
    step C.prog τ = .next { τ with b := JmpL.Vm.advance τ.b } := by
  rw [step_base hC.pok h (by simp)]
  simp only [JmpL.Vm.step, base_get hC.pok h]

theorem efor_step_pop {C : Ctx} (hC : C.Ok) {τ : EVm} {p : Pos} {r : JmpL.Vm.Regs} {rest : List JmpL.Vm.Regs}
    (h : C.prog.code[τ.b.pc]? = some (.base .popRegs, p)) (hrs : τ.b.regStack = r :: rest) :
    step C.prog τ = .next { τ with b := JmpL.Vm.advance { τ.b with regs := r, regStack := rest } } := by
  rw [step_base hC.pok h (by simp)]
  simp only [JmpL.Vm.step, base_get hC.pok h, hrs]

/-! ### the rounds -/

/-- **the FOR rounds**: the generated code does what `forIter` prescribes and leaves through the `out-of-for` address — or,
when RESUME NEXT / ON ERROR RESUME NEXT skipped a failing increment, at the entry `nxI` that follows the increment unit, which
is the entry `nx` that follows the statement (FOR without STEP) or the `Jump out-of-for` behind the copy of the body (FOR …
STEP); relative to the stacks of the entry state, at the depths of the FOR statement.  Two entries, as `forIter` has them:

* at the loop head `bo` (`atNext = false`: test, body, then the increment), with the limit in C and the step in D;
* behind the `PopRegisters` of NEXT (`atNext = true`: **the increment, a resume unit of its own** — 3abb028 —, then the next
  round): RESUME after a failed increment comes back here with the interrupted register frame restored (`Resumes.regs`:
  limit and step), so the `again` clause of the unit is the induction hypothesis.

The body runs at FOR depth `d + 1` on top of the saved frame, and is followed in the statement-address table by the
`PopRegisters` of NEXT.  `hshape`: the label of a jump out of the body is not deeper than the loop (`case_for` derives it from
`JumpShape`). -/
theorem efor_loop (C : Ctx) (hC : C.Ok) (fuel : Nat) (ih : StmtIHle C fuel) (x : Nat) (t : Ty)
    (body : SStmt) (p : Pos) (sfx : String) (up : Bool) (d e vb gd bo outOff nx nxI : Nat) (h sv : Val)
    (hx : C.sl[x]? = some t) (hh : h.tag = t)
    (hwb : Wf C.sl C.env.dp C.rl (d + 1) e body) (hlb : LabAt C.env (d + 1) e (bo + 8) body)
    (hch : CodeAt C.prog.code bo (lift (forHead sfx x up p outOff)))
    (hcb : CodeAt C.prog.code (bo + 8) (compileStmt C.env (stepSuffix sfx up) (d + 1) e (bo + 8) body))
    (hct : CodeAt C.prog.code (bo + 8 + sizeStmt C.env.dp (d + 1) e body) (lift (forTail x t p bo)))
    (hmb : MarksAt C.prog.marks (marksStmt C.env.dp (d + 1) e (bo + 8) body) (bo + 8 + sizeStmt C.env.dp (d + 1) e body))
    (hmi : MarksAt C.prog.marks [bo + 8 + sizeStmt C.env.dp (d + 1) e body + 1] nxI)
    (hun : bo + 8 + sizeStmt C.env.dp (d + 1) e body + 10 ≤ nxI)
    (hexit : nxI = nx ∨ ∃ q, C.prog.code[nxI]? = some (.base (.jump outOff), q))
    (hshape : ∀ (f : Nat) (s s' : ESt) (L : Nat), Typed C.sl s.st.env →
      JmpL.Ref.relTest p (if up then .lessOrEqual else .greaterOrEqual) (s.st.env.getD x (RbModel.Ref.zeroOf t)) h = .ok true →
      exec f C.P gd (desugar body) .run s = (s', .jump L) → C.env.dp.fd L ≤ d ∧ C.env.dp.sd L ≤ e) :
    ∀ n f, f ≤ n → f ≤ fuel → ∀ (σ : EVm) (s : ESt), σ.b.regs.c = h → σ.b.regs.d = sv →
      ERel C.sl C.env s σ → Inv C d e vb gd σ →
      (σ.b.pc = bo → StmtSpec C d e vb outOff nx σ (forIter f C.P gd x t h sv up (desugar body) p .run false s)) ∧
      (σ.b.pc = bo + 8 + sizeStmt C.env.dp (d + 1) e body + 1 →
        StmtSpec C d e vb outOff nx σ (forIter f C.P gd x t h sv up (desugar body) p .run true s)) := by
  have hop : RbThm.JmpLSim.ForIsRel (if up then Op.lessOrEqual else Op.greaterOrEqual) := by
    cases up <;> exact fun _ _ => rfl
  have hhe : forHead sfx x up p outOff = RbThm.JmpLSim.forHeadCode
      (labelName (if up then "positive-loop" else "negative-loop") p sfx) x
      (if up then Op.lessOrEqual else Op.greaterOrEqual) p outOff := rfl
  have hte : forTail x t p bo = RbThm.JmpLSim.forTailCode x t p bo := rfl
  have hpop : C.prog.code[bo + 8 + sizeStmt C.env.dp (d + 1) e body]? = some (.base .popRegs, p) := by
    exact hct.head
  intro n
  induction n with
  | zero =>
    intro f hf _ σ s _ _ _ _
    have : f = 0 := by omega
    subst this
    exact ⟨fun _ => by simp only [forIter, StmtSpec], fun _ => by simp only [forIter, StmtSpec]⟩
  | succ n ihn =>
    intro f hf hfu σ s hC' hD hr hi
    cases f with
    | zero => exact ⟨fun _ => by simp only [forIter, StmtSpec], fun _ => by simp only [forIter, StmtSpec]⟩
    | succ f' =>
    refine ⟨fun hpc => ?_, fun hpc => ?_⟩
    · -- entry at the loop head: the test, the body, the `PopRegisters` of NEXT, then the increment entry one unit of fuel down
      obtain ⟨cur, hcur, hgd, hct'⟩ := efor_cur hr.base.typed hx
      have hhead := RbThm.JmpLSim.for_head (pad bo (forHead sfx x up p outOff)) _ x _ hop p bo outOff h sv σ.b cur
        (by rw [← hhe]; exact codeAt_pad _ _) hpc hC' hD (by rw [hr.base.env]; exact hcur)
      have htest : ∀ b, JmpL.Ref.relTest p (if up then .lessOrEqual else .greaterOrEqual)
          (s.st.env.getD x (RbModel.Ref.zeroOf t)) h = .ok b →
          ∃ o, tryCmp cur h = .ok o ∧ relHolds (if up then .lessOrEqual else .greaterOrEqual) o = b := by
        intro b hb
        rw [hgd] at hb
        simp only [JmpL.Ref.relTest] at hb
        cases hcm : tryCmp cur h with
        | ok o => simp only [hcm, Except.ok.injEq] at hb; exact ⟨o, rfl, hb⟩
        | err er => simp [hcm] at hb
        | inexact => simp [hcm] at hb
      simp only [forIter, Bool.false_eq_true, if_false]
      generalize hrt : JmpL.Ref.relTest p (if up then Op.lessOrEqual else Op.greaterOrEqual)
        (s.st.env.getD x (RbModel.Ref.zeroOf t)) h = rt
      cases rt with
      | error o =>
        -- the test of two values of the counter's type cannot raise an error
        simp only
        rw [hgd] at hrt
        simp only [JmpL.Ref.relTest] at hrt
        cases hcm : tryCmp cur h with
        | ok o' => simp [hcm] at hrt
        | err er => exact absurd hcm (efor_tryCmp_tag (by rw [hct', hh]) er)
        | inexact =>
          simp only [hcm, Except.error.injEq] at hrt
          subst hrt
          simp only [failOf, StmtSpec]
      | ok bv =>
        obtain ⟨o, hcm, hrel⟩ := htest bv hrt
        simp only [hcm] at hhead
        cases bv with
        | false =>
          simp only [hrel, Bool.false_eq_true, if_false] at hhead ⊢
          obtain ⟨a, st⟩ := hhead
          have st' := lift_steps hC.pok hch (efor_head_noread sfx x up p outOff) st σ rfl
          exact ⟨_, st', .inl rfl, hr.same (hr.base.same rfl rfl rfl rfl rfl), rfl, ⟨hi.he, fun _ => by simp⟩, rfl, rfl, rfl⟩
        | true =>
          simp only [hrel, if_true] at hhead ⊢
          obtain ⟨a, st⟩ := hhead
          have st' := lift_steps hC.pok hch (efor_head_noread sfx x up p outOff) st σ rfl
          generalize hτ0 : ({ σ with b := { σ.b with pc := bo + 8, regs := JmpL.Vm.Regs.new, regStack := ⟨a, h, h, sv⟩ :: σ.b.regStack } } : EVm) = τ0 at st'
          have t1 : τ0.b.pc = bo + 8 := by subst hτ0; rfl
          have t2 : τ0.b.regStack = ⟨a, h, h, sv⟩ :: σ.b.regStack := by subst hτ0; rfl
          have t3 : τ0.b.vals = σ.b.vals := by subst hτ0; rfl
          have t4 : τ0.b.paths = σ.b.paths := by subst hτ0; rfl
          have t5 : τ0.b.gosubs = σ.b.gosubs := by subst hτ0; rfl
          have t6 : HKeep σ τ0 := by subst hτ0; rfl
          have hrel0 : ERel C.sl C.env s τ0 := by
            subst hτ0; exact hr.same (hr.base.same rfl rfl rfl rfl rfl)
          have hinv0 : Inv C (d + 1) e vb gd τ0 :=
            ⟨by rw [t2]; have := hi.hd; simp only [List.length_cons]; omega, by rw [t3]; exact hi.he,
              by rw [t5]; exact hi.gs, hi.cut.push t2 t5 t6.addr⟩
          have hb := ih f' (by omega) body (stepSuffix sfx up) (d + 1) e (bo + 8)
            (bo + 8 + sizeStmt C.env.dp (d + 1) e body) vb gd .run τ0 s hcb hlb hwb hmb (Nat.le_refl _) t1 hrel0 hinv0
          generalize hrb : exec f' C.P gd (desugar body) .run s = rb at hb ⊢
          obtain ⟨s1, o1⟩ := rb
          cases o1 with
          | normal =>
            obtain ⟨υ, st2, hp2, hrel2, a1, a2, a3, a4, a5⟩ := hb
            have hpc2 : υ.b.pc = bo + 8 + sizeStmt C.env.dp (d + 1) e body := by
              rcases hp2 with h' | h'
              · exact h'
              · exact h'.1
            simp only
            -- the `PopRegisters` of NEXT: the frame of the loop comes back
            have hrs2 : υ.b.regStack = ⟨a, h, h, sv⟩ :: σ.b.regStack := by rw [a1, t2]
            have spop := efor_step_pop hC (τ := υ) (by rw [hpc2]; exact hpop) hrs2
            generalize hυ' : ({ υ with b := JmpL.Vm.advance { υ.b with regs := ⟨a, h, h, sv⟩, regStack := σ.b.regStack } } : EVm) = υ' at spop
            have w0 : υ'.b.pc = bo + 8 + sizeStmt C.env.dp (d + 1) e body + 1 := by
              subst hυ'; show υ.b.pc + 1 = _; rw [hpc2]
            have w1 : υ'.b.regStack = σ.b.regStack := by subst hυ'; rfl
            have w2 : υ'.b.vals = υ.b.vals := by subst hυ'; rfl
            have w3 : υ'.b.paths = υ.b.paths := by subst hυ'; rfl
            have w4 : υ'.b.gosubs = υ.b.gosubs := by subst hυ'; rfl
            have w5 : HKeep υ υ' := by subst hυ'; rfl
            have hrel' : ERel C.sl C.env s1 υ' := by
              subst hυ'; exact hrel2.same (hrel2.base.same rfl rfl rfl rfl rfl)
            have e2 : ValsOk vb e 0 σ υ' :=
              ⟨by rw [w2]; exact a2.1, fun hne => by rw [w2, a2.2 (by rw [t6.addr]; exact hne), t3]⟩
            have e3 : υ'.b.paths = σ.b.paths := by rw [w3, a3, t4]
            have e4 : υ'.b.gosubs = σ.b.gosubs := by rw [w4, a4, t5]
            have e5 : HKeep σ υ' := w5.trans (a5.trans t6)
            have hi' : Inv C d e vb gd υ' := hi.congr w1 e2.1 e4 e5.addr
            have hloop := (ihn f' (by omega) (by omega) υ' s1 (by subst hυ'; rfl) (by subst hυ'; rfl) hrel' hi').2 w0
            exact StmtSpec.after ((st'.trans st2).trans (Steps.one spop)) w1 e2 e3 e4 e5 hloop
          | jump L =>
            obtain ⟨hnl, _, hsd⟩ := Ctx.Ok.jump_depths hC.shape hwb hlb hrb
            obtain ⟨hfd, _⟩ := hshape f' s s1 L hr.base.typed hrt hrb
            have hL : (desugar body).hasLabel L = false := (hasLabel_false_iff hwb L).mpr hnl
            simp only [hL, Bool.false_eq_true, if_false]
            obtain ⟨τ, st2, hp, hrel2, b1, b2, b3, b4, b5⟩ := hb
            refine ⟨τ, st'.trans st2, hp, hrel2, ?_, ⟨b2.1, fun hne => by rw [b2.2 (by rw [t6.addr]; exact hne), t3]⟩,
              by rw [b3, t4], by rw [b4, t5], b5.trans t6⟩
            have e1 : d + 1 - C.env.dp.fd L = (d - C.env.dp.fd L) + 1 := by omega
            rw [b1, t2, e1, List.drop_succ_cons]
          | ret q =>
            obtain ⟨τ, st2, hp, hrel2, ⟨X, hX⟩, hY, hY', b3, b4, b5⟩ := hb
            refine ⟨τ, st'.trans st2, hp, hrel2, ⟨X, ?_⟩, hY, fun hne => ?_, by rw [b3, t4], by rw [b4, t5], b5.trans t6⟩
            · rw [hX, t2, List.drop_succ_cons]
            · rw [← t3]; exact hY' (by rw [t6.addr]; exact hne)
          | resumed k =>
            -- a RESUME inside the body (the body is part of a handler's run): passed on like `ret`
            exact StmtSpec.resumed_out hb st' (by rw [t2, List.drop_succ_cons]) (by rw [t3]) t4 t5 t6
          | halted =>
            obtain ⟨υ, ω, st2, hh', hrel2⟩ := hb
            exact ⟨υ, ω, st'.trans st2, hh', hrel2⟩
          | error cd q =>
            obtain ⟨υ, ω, st2, hh', ho⟩ := hb
            exact ⟨υ, ω, st'.trans st2, hh', ho⟩
          | inexact => simp only [StmtSpec]
          | outOfFuel => simp only [StmtSpec]
          | illFormed => simp only [StmtSpec]
          | unspec => simp only [StmtSpec]
          | notHere => simp only [StmtSpec]
    · -- entry behind the `PopRegisters` of NEXT: the increment unit
      obtain ⟨cur', hcur', hgd', hct''⟩ := efor_cur hr.base.typed hx
      have hv2 : σ.b.env[x]? = some cur' := by rw [hr.base.env]; exact hcur'
      have hinc := efor_inc (pad (bo + 8 + sizeStmt C.env.dp (d + 1) e body) (forTail x t p bo)) x t p
        (bo + 8 + sizeStmt C.env.dp (d + 1) e body) bo σ.b cur' (by rw [← hte]; exact codeAt_pad _ _) hpc hv2
      rw [hD] at hinc
      simp only [forIter, if_true, hgd']
      cases hincr : (plus cur' sv).bind (fun v => cast v t) with
      | ok v =>
        simp only [hincr] at hinc ⊢
        have st3 := lift_steps hC.pok hct (efor_tail_noread x t p bo) hinc σ rfl
        generalize hυ1 : ({ σ with b := { σ.b with pc := bo, regs := { σ.b.regs with a := v, b := sv }, env := σ.b.env.set x v } } : EVm) = υ1 at st3
        have hv : v.tag = t := by
          cases hpl : plus cur' sv with
          | ok w => rw [hpl] at hincr; exact RbThm.C01Sim.SimRead.cast_tag w t v hincr
          | err er => rw [hpl] at hincr; cases hincr
          | inexact => rw [hpl] at hincr; cases hincr
        have hrel3 : ERel C.sl C.env (s.set x v) υ1 := by
          subst hυ1
          exact { base := hr.base.store hx hv rfl rfl rfl rfl rfl, handler := hr.handler, hfd := hr.hfd,
                  inH := hr.inH, err := hr.err }
        have u1 : υ1.b.regStack = σ.b.regStack := by subst hυ1; rfl
        have u2 : υ1.b.vals = σ.b.vals := by subst hυ1; rfl
        have u3 : υ1.b.paths = σ.b.paths := by subst hυ1; rfl
        have u4 : υ1.b.gosubs = σ.b.gosubs := by subst hυ1; rfl
        have u5 : HKeep σ υ1 := by subst hυ1; rfl
        have v2 : ValsOk vb e 0 σ υ1 := ⟨by rw [u2]; exact hi.he, fun _ => by rw [u2]; rfl⟩
        have hi3 : Inv C d e vb gd υ1 := hi.congr u1 v2.1 u4 u5.addr
        have hloop := (ihn f' (by omega) (by omega) υ1 (s.set x v) (by subst hυ1; exact hC') (by subst hυ1; exact hD)
          hrel3 hi3).1 (by subst hυ1; rfl)
        exact StmtSpec.after st3 u1 v2 u3 u4 u5 hloop
      | inexact => simp only [StmtSpec]
      | err er =>
        simp only [hincr] at hinc ⊢
        cases f' with
        | zero => simp only [Ref.raise, StmtSpec]
        | succ g =>
        obtain ⟨y0, sty, hsy, ylo, yhi, y1, yc, yd, y4, y5, y6, y7, y8, y9, y10, y11⟩ := hinc
        obtain ⟨hst, _, _, hstep⟩ := lift_fails' hC.pok hct (efor_tail_noread x t p bo) sty hsy σ rfl
        generalize hy : ({ σ with b := y0 } : EVm) = y at hst hstep
        have hyb : y.b = y0 := by subst hy; rfl
        have hye : y.errAddr = σ.errAddr := by subst hy; rfl
        have hry : ERel C.sl C.env s y := by
          subst hy; exact hr.same (hr.base.same y4 y5 y6 y7 y8)
        have g1 : y.b.regStack = σ.b.regStack := by rw [hyb]; exact y1
        have g2 : vb + e ≤ y.b.vals.length := by rw [hyb, y9]; exact hi.he
        have g3 : y.b.paths = σ.b.paths := by rw [hyb]; exact y10
        have g4 : y.b.gosubs = σ.b.gosubs := by rw [hyb]; exact y11
        have hiy : Inv C d e vb gd y := hi.congr g1 g2 g4 hye
        have hrs := raise_correct hC (ih g (by omega)) hmi (by rw [hyb]; exact ylo) (by rw [hyb]; omega) hstep
          (Quiet.refl y) hry hiy
        have hjd : ∀ s' L, Ref.raise (g + 1) C.P gd (RbModel.Ref.codeOf er) p s = (s', .out (.jump L)) →
            (desugar body).hasLabel L = false := by
          intro s' L hL
          obtain ⟨z1, _⟩ := efor_raise_jump_depths hC (ih g (by omega)) hry (by rw [g4]; exact hi.gs) hL
          rw [hasLabel_false_iff hwb L]
          intro hmem
          have := (hlb.depth_ge hmem).1
          omega
        generalize hres : Ref.raise (g + 1) C.P gd (RbModel.Ref.codeOf er) p s = r at hrs hjd ⊢
        obtain ⟨s', dsp⟩ := r
        cases dsp with
        | again =>
          -- RESUME: back at the first instruction of the increment, with the frame of the loop (limit, step) restored
          obtain ⟨τ, st4, hp, hrτ, qq⟩ := hrs
          have hσe : σ.errAddr = none := by rw [← hye]; exact qq.notH
          have hiτ : Inv C d e vb gd τ :=
            hi.congr (by rw [qq.regStack, g1]) (by rw [qq.vals]; exact g2) (by rw [qq.gosubs, g4]) (by rw [qq.errAddr, hσe])
          have hloop := (ihn (g + 1) (by omega) (by omega) τ s' (by rw [qq.regs, hyb, yc]; exact hC')
            (by rw [qq.regs, hyb, yd]) hrτ hiτ).2 hp
          exact StmtSpec.after (hst.trans st4) (by rw [qq.regStack, g1]) ⟨by rw [qq.vals]; exact g2, fun hne => absurd hσe hne⟩
            (by rw [qq.paths, g3]) (by rw [qq.gosubs, g4]) (HKeep.of_none hσe qq.errAddr) hloop
        | next =>
          obtain ⟨τ, st4, hp, hrτ, qq⟩ := hrs
          have hσe : σ.errAddr = none := by rw [← hye]; exact qq.notH
          rcases hexit with hex | ⟨q, hex⟩
          · exact ⟨τ, hst.trans st4, .inr ⟨hp.trans hex, hσe⟩, hrτ, by rw [qq.regStack, g1],
              ⟨by rw [qq.vals]; exact g2, fun hne => absurd hσe hne⟩, by rw [qq.paths, g3], by rw [qq.gosubs, g4],
              HKeep.of_none hσe qq.errAddr⟩
          · have sj := efor_step_jump hC (τ := τ) (by rw [hp]; exact hex)
            exact ⟨_, (hst.trans st4).trans (Steps.one sj), .inl rfl, hrτ.same (hrτ.base.same rfl rfl rfl rfl rfl),
              by show τ.b.regStack = _; rw [qq.regStack, g1],
              ⟨by show vb + e ≤ τ.b.vals.length; rw [qq.vals]; exact g2, fun hne => absurd hσe hne⟩,
              by show τ.b.paths = _; rw [qq.paths, g3], by show τ.b.gosubs = _; rw [qq.gosubs, g4],
              HKeep.of_none hσe qq.errAddr⟩
        | out o =>
          obtain ⟨n1, n2, n3, n4, n5, hsp⟩ := hrs
          have hout := out_of_unit hst g1 g3 g4 hye n1 n2 n3 n4 n5 hsp outOff nx
          cases o with
          | jump L =>
            simp only [hjd s' L rfl, Bool.false_eq_true, if_false]
            exact hout
          | normal => exact hout
          | halted => exact hout
          | ret q => exact hout
          | resumed k => exact hout
          | error c' p' => exact hout
          | inexact => exact hout
          | outOfFuel => exact hout
          | illFormed => exact hout
          | unspec => exact hout
          | notHere => exact hout

/-! ### the label of a jump out of the body (FOR without STEP) -/

/-- a jump out of the body of a FOR without STEP names a label that is not deeper than the FOR: `JumpShape` at the loop
`FOR x = <current value> TO <limit>` with the same body, which passes the jump on -/
theorem efor_shape_none {C : Ctx} (hC : C.Ok) {x : Nat} {t : Ty} {lo hi : Ast.Expr} {body : SStmt} {p : Pos}
    {d e off gd : Nat} (hw : Wf C.sl C.env.dp C.rl d e (.forLoop x t lo hi none body p))
    (hl : LabAt C.env d e off (.forLoop x t lo hi none body p)) {h : Val} (hh : h.tag = t)
    (f : Nat) (s s' : ESt) (L : Nat) (hty : Typed C.sl s.st.env)
    (htest : JmpL.Ref.relTest p (if true then Op.lessOrEqual else Op.greaterOrEqual)
      (s.st.env.getD x (RbModel.Ref.zeroOf t)) h = .ok true)
    (hex : exec f C.P gd (desugar body) .run s = (s', .jump L)) : C.env.dp.fd L ≤ d ∧ C.env.dp.sd L ≤ e := by
  obtain ⟨hx, _, _, _, _, hwb, hleave⟩ := hw
  obtain ⟨cur, hcur, hgd, hct⟩ := efor_cur hty hx
  have hlb := hl.forNone
  obtain ⟨hnl, _, _⟩ := hC.shape body (d + 1) e f gd .run s s' L hwb hlb.2 hex
  have hL : (desugar body).hasLabel L = false := (hasLabel_false_iff hwb L).mpr hnl
  have hwF : Wf C.sl C.env.dp C.rl d e (.forLoop x t (.lit cur p) (.lit h p) none body p) := by
    simp only [Wf, SlotsBelow, ExprWt, true_and]
    exact ⟨hx, (fun se h => by cases h), hwb, hleave.1, fun se h => by cases h⟩
  have hset : ({ s with st := s.st.set x cur } : ESt) = s := by
    obtain ⟨st, mode, inH, err⟩ := s
    obtain ⟨env, out, data, di⟩ := st
    simp only [RbModel.Ref.St.set]
    rw [efor_set_self hcur]
  have hexF : exec (f + 2) C.P gd (desugar (.forLoop x t (.lit cur p) (.lit h p) none body p)) .run s = (s', .jump L) := by
    simp only [if_true] at htest
    simp only [desugar, exec, forHeader, RbModel.Ref.evalTo, RbModel.Ref.eval, Ast.Expr.ty, Ast.Expr.pos,
      RbModel.Ref.ERes.bind, storeCast, hct, hh, if_true, RbModel.Ref.lift, hset, forIter, Bool.false_eq_true, if_false,
      htest, hex, hL]
  exact (hC.shape _ d e (f + 2) gd .run s s' L hwF (by simpa [depthTable] using hl.2) hexF).2

/-- a jump out of a copy of the body of a FOR … STEP names a label that is not deeper than the FOR: `JumpShape` at the loop
`FOR x = <current value> TO <limit> STEP <step>` with the same body, which passes the jump on -/
theorem efor_shape_some {C : Ctx} (hC : C.Ok) {x : Nat} {t : Ty} {lo hi se : Ast.Expr} {body : SStmt} {p : Pos}
    {d e off gd : Nat} (hw : Wf C.sl C.env.dp C.rl d e (.forLoop x t lo hi (some se) body p))
    (hl : LabAt C.env d e off (.forLoop x t lo hi (some se) body p)) {h sv : Val} (hh : h.tag = t) (q : Pos) (up : Bool)
    (hsv : tryCmp sv (.int 0) = .ok (if up then .gt else .lt))
    (f : Nat) (s s' : ESt) (L : Nat) (hty : Typed C.sl s.st.env)
    (htest : JmpL.Ref.relTest p (if up then Op.lessOrEqual else Op.greaterOrEqual)
      (s.st.env.getD x (RbModel.Ref.zeroOf t)) h = .ok true)
    (hex : exec f C.P gd (desugar body) .run s = (s', .jump L)) : C.env.dp.fd L ≤ d ∧ C.env.dp.sd L ≤ e := by
  obtain ⟨hx, _, _, _, hsstep, hwb, hleave, _, _⟩ := hw
  obtain ⟨cur, hcur, hgd, hct⟩ := efor_cur hty hx
  have hlb := hl.forSome.1
  obtain ⟨hnl, _, _⟩ := hC.shape body (d + 1) e f gd .run s s' L hwb hlb.2 hex
  have hL : (desugar body).hasLabel L = false := (hasLabel_false_iff hwb L).mpr hnl
  have hlit : StepLit (.lit sv q) := by
    cases up with
    | true => exact .inr hsv
    | false => exact .inl hsv
  have hwF : Wf C.sl C.env.dp C.rl d e (.forLoop x t (.lit cur p) (.lit h p) (some (.lit sv q)) body p) := by
    simp only [Wf, SlotsBelow, ExprWt, true_and]
    exact ⟨hx, (fun se' h' => by cases h'; exact ⟨trivial, (hsstep se rfl).2⟩), hwb, hleave,
      fun se' h' => by cases h'; exact hlit⟩
  have hset : ({ s with st := s.st.set x cur } : ESt) = s := by
    obtain ⟨st, mode, inH, err⟩ := s
    obtain ⟨env, out, data, di⟩ := st
    simp only [RbModel.Ref.St.set]
    rw [efor_set_self hcur]
  have hexF : exec (f + 2) C.P gd (desugar (.forLoop x t (.lit cur p) (.lit h p) (some (.lit sv q)) body p)) .run s =
      (s', .jump L) := by
    cases up with
    | true =>
      simp only [if_true] at htest hsv
      simp only [desugar, exec, forHeader, RbModel.Ref.evalTo, RbModel.Ref.eval, Ast.Expr.ty, Ast.Expr.pos,
        RbModel.Ref.ERes.bind, storeCast, hct, hh, if_true, RbModel.Ref.lift, hset, forIter, Bool.false_eq_true, if_false,
        ErrL.Ref.evalE, RbThm.JmpLSim.for_stepSign_eq, hsv, htest, hex, hL]
    | false =>
      simp only [Bool.false_eq_true, if_false] at htest hsv
      simp only [desugar, exec, forHeader, RbModel.Ref.evalTo, RbModel.Ref.eval, Ast.Expr.ty, Ast.Expr.pos,
        RbModel.Ref.ERes.bind, storeCast, hct, hh, if_true, RbModel.Ref.lift, hset, forIter, Bool.false_eq_true, if_false,
        ErrL.Ref.evalE, RbThm.JmpLSim.for_stepSign_eq, hsv, htest, hex, hL]
  exact (hC.shape _ d e (f + 2) gd .run s s' L hwF (by simpa [depthTable] using hl.2) hexF).2

/-! ### a failure in the header -/

/-- **the header unit** `[off, unext)` of a FOR failed at `y` (whose register, var-path and GOSUB stacks are those of the
entry state `σ`; evaluated operands may lie on the value stack): RESUME runs the statement again, RESUME NEXT continues at
`unext`, the `Jump out-of-for` — no frame has been pushed — and two steps reach the end of the statement -/
theorem efor_header_unit {C : Ctx} (hC : C.Ok) {fuel : Nat} (ih : StmtIHle C fuel) {stmt : SStmt} {sfx : String}
    {d e off nx vb gd unext outOff : Nat} {σ y : EVm} {s1 : ESt} {c : Nat} {q p : Pos} {lbl : String}
    (hc : CodeAt C.prog.code off (compileStmt C.env sfx d e off stmt)) (hl : LabAt C.env d e off stmt)
    (hw : Wf C.sl C.env.dp C.rl d e stmt) (hm : MarksAt C.prog.marks (marksStmt C.env.dp d e off stmt) nx)
    (hnx : off + sizeStmt C.env.dp d e stmt ≤ nx) (hu : MarksAt C.prog.marks [off] unext)
    (hj : C.prog.code[unext]? = some (.base (.jump outOff), p))
    (hlab : C.prog.code[outOff]? = some (.base (.label lbl), p))
    (hfin : off + sizeStmt C.env.dp d e stmt = outOff + 1)
    (hst : Steps C.prog σ y) (hlo : off ≤ y.b.pc) (hhi : y.b.pc < unext)
    (hstep : step C.prog y = Vm.raise C.prog y c q)
    (h1 : y.b.regStack = σ.b.regStack) (h2 : vb + e ≤ y.b.vals.length) (h3 : y.b.paths = σ.b.paths)
    (h4 : y.b.gosubs = σ.b.gosubs) (h5 : y.errAddr = σ.errAddr)
    (hr : ERel C.sl C.env s1 y) (hi : Inv C d e vb gd σ) :
    StmtSpec C d e vb (off + sizeStmt C.env.dp d e stmt) nx σ
      (match Ref.raise fuel C.P gd c q s1 with
       | (s', .again) => exec fuel C.P gd (desugar stmt) .run s'
       | (s', .next) => (s', .normal)
       | (s', .out o) => (s', o)) := by
  cases fuel with
  | zero => simp only [Ref.raise, StmtSpec]
  | succ f =>
    have hiy : Inv C d e vb gd y := hi.congr h1 h2 h4 h5
    have hrs := raise_correct hC (ih f (Nat.le_succ f)) hu hlo hhi hstep (Quiet.refl y) hr hiy
    generalize hres : Ref.raise (f + 1) C.P gd c q s1 = r at hrs ⊢
    obtain ⟨s', dsp⟩ := r
    cases dsp with
    | again =>
      obtain ⟨τ, st, hp, hrτ, qq⟩ := hrs
      have hσe : σ.errAddr = none := by rw [← h5]; exact qq.notH
      have hiτ : Inv C d e vb gd τ :=
        hi.congr (by rw [qq.regStack, h1]) (by rw [qq.vals]; exact h2) (by rw [qq.gosubs, h4]) (by rw [qq.errAddr, hσe])
      have := ih.self stmt sfx d e off nx vb gd .run τ s' hc hl hw hm hnx hp hrτ hiτ
      exact StmtSpec.after (hst.trans st) (by rw [qq.regStack, h1]) ⟨by rw [qq.vals]; exact h2, fun hne => absurd hσe hne⟩
        (by rw [qq.paths, h3]) (by rw [qq.gosubs, h4]) (HKeep.of_none hσe qq.errAddr) this
    | next =>
      obtain ⟨τ, st, hp, hrτ, qq⟩ := hrs
      have hσe : σ.errAddr = none := by rw [← h5]; exact qq.notH
      have s1' := efor_step_jump hC (τ := τ) (by rw [hp]; exact hj)
      have s2' := efor_step_label hC (τ := { τ with b := { τ.b with pc := outOff } }) hlab
      refine ⟨_, (hst.trans st).trans (Steps.cons s1' (Steps.one s2')), .inl ?_, hrτ.same (hrτ.base.same rfl rfl rfl rfl rfl),
        ?_, ⟨?_, fun hne => absurd hσe hne⟩, ?_, ?_, ?_⟩
      · show outOff + 1 = _
        rw [hfin]
      · show τ.b.regStack = σ.b.regStack
        rw [qq.regStack, h1]
      · show vb + e ≤ τ.b.vals.length
        rw [qq.vals]; exact h2
      · show τ.b.paths = σ.b.paths
        rw [qq.paths, h3]
      · show τ.b.gosubs = σ.b.gosubs
        rw [qq.gosubs, h4]
      · exact HKeep.of_none hσe qq.errAddr
    | out o =>
      obtain ⟨n1, n2, n3, n4, n5, hsp⟩ := hrs
      exact out_of_unit hst h1 h3 h4 h5 n1 n2 n3 n4 n5 hsp _ _

/-! ### leaving the loop -/

/-- the rounds end at the `out-of-for` label (one more step reaches the end of the statement) or at the entry that follows
the statement -/
theorem efor_finish {C : Ctx} (hC : C.Ok) {d e vb fin nx outOff : Nat} {σ σd : EVm} {lbl : String} {p : Pos}
    (pre : Steps C.prog σ σd) (hq : Quiet σ σd)
    (hlab : C.prog.code[outOff]? = some (.base (.label lbl), p)) (hn : fin = outOff + 1) (r : ESt × Outcome)
    (h : StmtSpec C d e vb outOff nx σd r) : StmtSpec C d e vb fin nx σ r := by
  refine StmtSpec.of_steps pre hq ?_
  obtain ⟨s', o⟩ := r
  cases o with
  | normal =>
    obtain ⟨τ, st, hp, hrel, a1, a2, a3, a4, a5⟩ := h
    rcases hp with hp | hp
    · have s2 := efor_step_label hC (τ := τ) (by rw [hp]; exact hlab)
      refine ⟨_, st.trans (Steps.one s2), .inl ?_, hrel.same (hrel.base.same rfl rfl rfl rfl rfl), a1, a2, a3, a4, a5⟩
      show τ.b.pc + 1 = fin
      rw [hp, hn]
    · exact ⟨τ, st, .inr hp, hrel, a1, a2, a3, a4, a5⟩
  | halted => exact h
  | jump L => exact h
  | ret q => exact h
  | resumed k => exact h
  | error c q => exact h
  | inexact => trivial
  | outOfFuel => trivial
  | illFormed => trivial
  | unspec => trivial
  | notHere => trivial

/-- `CopyAToC; LoadA 1; CopyAToD; Jump for-begin; [Jump out-of-for]; Label for-begin`: the limit goes to C, the step 1 to D -/
theorem efor_init_steps (code : Code) (p : Pos) (hdr outOff : Nat) (lbl : String) (τ : Vm)
    (hc : RbThm.JmpLSim.CodeAt code hdr [(CInstr.copyAToC, p), (CInstr.loadA (.int 1), p), (CInstr.copyAToD, p),
      (CInstr.jump (hdr + 5), p), (CInstr.jump outOff, p), (CInstr.label lbl, p)])
    (hpc : τ.pc = hdr) :
    RbThm.JmpLSim.Steps code τ { τ with pc := hdr + 6, regs := ⟨.int 1, τ.regs.b, τ.regs.a, .int 1⟩ } := by
  subst hpc
  have i0 := hc.head
  have i1 := hc.tail.head
  have i2 := hc.tail.tail.head
  have i3 := hc.tail.tail.tail.head
  have i5 := hc.tail.tail.tail.tail.tail.head
  let σ1 : Vm := JmpL.Vm.advance { τ with regs := { τ.regs with c := τ.regs.a } }
  let σ2 : Vm := JmpL.Vm.advance (JmpL.Vm.setA σ1 (.int 1))
  let σ3 : Vm := JmpL.Vm.advance { σ2 with regs := { σ2.regs with d := σ2.regs.a } }
  let σ4 : Vm := { σ3 with pc := τ.pc + 5 }
  have s1 : JmpL.Vm.step code τ = .next σ1 := by simp only [JmpL.Vm.step, i0]; rfl
  have s2 : JmpL.Vm.step code σ1 = .next σ2 := by simp only [JmpL.Vm.step, σ1, JmpL.Vm.advance, i1]; rfl
  have s3 : JmpL.Vm.step code σ2 = .next σ3 := by
    simp only [JmpL.Vm.step, σ2, σ1, JmpL.Vm.advance, JmpL.Vm.setA, i2]; rfl
  have s4 : JmpL.Vm.step code σ3 = .next σ4 := by
    simp only [JmpL.Vm.step, σ3, σ2, σ1, JmpL.Vm.advance, JmpL.Vm.setA, i3]; rfl
  have s5 : JmpL.Vm.step code σ4 = .next (JmpL.Vm.advance σ4) := by
    have : code[σ4.pc]? = some (CInstr.label lbl, p) := by rw [← i5]
    simp only [JmpL.Vm.step, this]
  exact RbThm.JmpLSim.Steps.cons s1 (RbThm.JmpLSim.Steps.cons s2 (RbThm.JmpLSim.Steps.cons s3
    (RbThm.JmpLSim.Steps.cons s4 (RbThm.JmpLSim.Steps.one s5))))

/-- the header of a FOR … STEP behind the bounds, the step being the literal `v`: the limit (in A) is pushed, the step goes
to D, the limit comes back into A and goes to C; the resume point (`Jump out-of-for`) is jumped over -/
theorem efor_step_init (code : Code) (p q : Pos) (hdr tgt outOff : Nat) (lbl : String) (v : Val) (τ : Vm)
    (hc : RbThm.JmpLSim.CodeAt code hdr [(CInstr.pushA, p), (CInstr.loadA v, q), (CInstr.copyAToD, p), (CInstr.popA, p),
      (CInstr.copyAToC, p), (CInstr.jump tgt, p), (CInstr.jump outOff, p), (CInstr.label lbl, p)])
    (htgt : tgt = hdr + 7) (hpc : τ.pc = hdr) :
    RbThm.JmpLSim.Steps code τ { τ with pc := hdr + 8, regs := ⟨τ.regs.a, τ.regs.b, τ.regs.a, v⟩ } := by
  subst hpc htgt
  have i0 := hc.head
  have i1 := hc.tail.head
  have i2 := hc.tail.tail.head
  have i3 := hc.tail.tail.tail.head
  have i4 := hc.tail.tail.tail.tail.head
  have i5 := hc.tail.tail.tail.tail.tail.head
  have i7 := hc.tail.tail.tail.tail.tail.tail.tail.head
  let σ1 : Vm := JmpL.Vm.advance { τ with vals := τ.regs.a :: τ.vals }
  let σ2 : Vm := JmpL.Vm.advance (JmpL.Vm.setA σ1 v)
  let σ3 : Vm := JmpL.Vm.advance { σ2 with regs := { σ2.regs with d := σ2.regs.a } }
  let σ4 : Vm := JmpL.Vm.advance { JmpL.Vm.setA σ3 τ.regs.a with vals := τ.vals }
  let σ5 : Vm := JmpL.Vm.advance { σ4 with regs := { σ4.regs with c := σ4.regs.a } }
  let σ6 : Vm := { σ5 with pc := τ.pc + 7 }
  have s1 : JmpL.Vm.step code τ = .next σ1 := by simp only [JmpL.Vm.step, i0]; rfl
  have s2 : JmpL.Vm.step code σ1 = .next σ2 := by simp only [JmpL.Vm.step, σ1, JmpL.Vm.advance, i1]; rfl
  have s3 : JmpL.Vm.step code σ2 = .next σ3 := by
    simp only [JmpL.Vm.step, σ2, σ1, JmpL.Vm.advance, JmpL.Vm.setA, i2]; rfl
  have s4 : JmpL.Vm.step code σ3 = .next σ4 := by
    simp only [JmpL.Vm.step, σ3, σ2, σ1, JmpL.Vm.advance, JmpL.Vm.setA, i3]; rfl
  have s5 : JmpL.Vm.step code σ4 = .next σ5 := by
    simp only [JmpL.Vm.step, σ4, σ3, σ2, σ1, JmpL.Vm.advance, JmpL.Vm.setA, i4]; rfl
  have s6 : JmpL.Vm.step code σ5 = .next σ6 := by
    simp only [JmpL.Vm.step, σ5, σ4, σ3, σ2, σ1, JmpL.Vm.advance, JmpL.Vm.setA, i5]; rfl
  have s7 : JmpL.Vm.step code σ6 = .next (JmpL.Vm.advance σ6) := by
    have : code[σ6.pc]? = some (CInstr.label lbl, p) := by rw [← i7]
    simp only [JmpL.Vm.step, this]
  exact RbThm.JmpLSim.Steps.cons s1 (RbThm.JmpLSim.Steps.cons s2 (RbThm.JmpLSim.Steps.cons s3
    (RbThm.JmpLSim.Steps.cons s4 (RbThm.JmpLSim.Steps.cons s5 (RbThm.JmpLSim.Steps.cons s6 (RbThm.JmpLSim.Steps.one s7))))))

/-- the sign test of a FOR … STEP, first half: `step < 0` → the negative loop (falls through), else to the second test -/
theorem efor_sign1 (code : Code) (p : Pos) (a0 testPos : Nat) (τ : Vm)
    (hc : RbThm.JmpLSim.CodeAt code a0 [(CInstr.loadA (.int 0), p), (CInstr.copyAToB, p), (CInstr.copyDToA, p),
      (CInstr.bin .less, p), (CInstr.jumpIfFalse testPos, p)])
    (hpc : τ.pc = a0) (o : Ordering) (hcm : tryCmp τ.regs.d (.int 0) = .ok o) :
    ∃ a, RbThm.JmpLSim.Steps code τ
      { τ with pc := if o = .lt then a0 + 5 else testPos, regs := ⟨a, .int 0, τ.regs.c, τ.regs.d⟩ } := by
  subst hpc
  have h0 : code[τ.pc]? = some (CInstr.loadA (.int 0), p) := hc.head
  have h1 : code[τ.pc + 1]? = some (CInstr.copyAToB, p) := hc.tail.head
  have h2 : code[τ.pc + 1 + 1]? = some (CInstr.copyDToA, p) := hc.tail.tail.head
  have hcj : RbThm.JmpLSim.CodeAt code (τ.pc + 3) [(CInstr.bin .less, p), (CInstr.jumpIfFalse testPos, p)] :=
    hc.tail.tail.tail
  let τ1 : Vm := JmpL.Vm.advance (JmpL.Vm.setA τ (.int 0))
  let τ2 : Vm := JmpL.Vm.advance { τ1 with regs := { τ1.regs with b := τ1.regs.a } }
  let τ3 : Vm := JmpL.Vm.advance { τ2 with regs := { τ2.regs with a := τ2.regs.d } }
  have s1 : JmpL.Vm.step code τ = .next τ1 := by simp only [JmpL.Vm.step, h0]; rfl
  have s2 : JmpL.Vm.step code τ1 = .next τ2 := by simp only [JmpL.Vm.step, τ1, JmpL.Vm.advance, JmpL.Vm.setA, h1]; rfl
  have s3 : JmpL.Vm.step code τ2 = .next τ3 := by
    simp only [JmpL.Vm.step, τ2, τ1, JmpL.Vm.advance, JmpL.Vm.setA, h2]; rfl
  have pre : RbThm.JmpLSim.Steps code τ τ3 :=
    RbThm.JmpLSim.Steps.cons s1 (RbThm.JmpLSim.Steps.cons s2 (RbThm.JmpLSim.Steps.one s3))
  have hcmp := RbThm.JmpLSim.for_cmp_jump code .less (fun _ _ => rfl) p testPos (τ.pc + 3) τ3 hcj rfl
  have ha : τ3.regs.a = τ.regs.d := rfl
  have hb : τ3.regs.b = .int 0 := rfl
  rw [ha, hb, hcm] at hcmp
  simp only at hcmp
  cases o with
  | lt =>
    have : relHolds .less .lt = true := rfl
    simp only [this, if_true] at hcmp ⊢
    exact ⟨_, pre.trans hcmp⟩
  | eq =>
    have : relHolds .less .eq = false := rfl
    simp only [this, Bool.false_eq_true, if_false] at hcmp ⊢
    exact ⟨_, pre.trans hcmp⟩
  | gt =>
    have : relHolds .less .gt = false := rfl
    simp only [this, Bool.false_eq_true, if_false] at hcmp ⊢
    exact ⟨_, pre.trans hcmp⟩

/-- the sign test of a FOR … STEP, second half: `step > 0` → the positive loop (falls through) -/
theorem efor_sign2 (code : Code) (p : Pos) (lblT : String) (testPos zeroOff : Nat) (τ : Vm)
    (hcT : RbThm.JmpLSim.CodeAt code testPos [(CInstr.label lblT, p), (CInstr.copyDToA, p), (CInstr.bin .greater, p),
      (CInstr.jumpIfFalse zeroOff, p)])
    (hpc : τ.pc = testPos) (hb : τ.regs.b = .int 0) (hcm : tryCmp τ.regs.d (.int 0) = .ok .gt) :
    ∃ a, RbThm.JmpLSim.Steps code τ { τ with pc := testPos + 4, regs := ⟨a, .int 0, τ.regs.c, τ.regs.d⟩ } := by
  subst hpc
  have hT0 : code[τ.pc]? = some (CInstr.label lblT, p) := hcT.head
  have hT1 : code[τ.pc + 1]? = some (CInstr.copyDToA, p) := hcT.tail.head
  have hcj' : RbThm.JmpLSim.CodeAt code (τ.pc + 2) [(CInstr.bin .greater, p), (CInstr.jumpIfFalse zeroOff, p)] :=
    hcT.tail.tail
  let τ5 : Vm := JmpL.Vm.advance τ
  let τ6 : Vm := JmpL.Vm.advance { τ5 with regs := { τ5.regs with a := τ5.regs.d } }
  have s5 : JmpL.Vm.step code τ = .next τ5 := by simp only [JmpL.Vm.step, hT0]; rfl
  have s6 : JmpL.Vm.step code τ5 = .next τ6 := by simp only [JmpL.Vm.step, τ5, JmpL.Vm.advance, hT1]; rfl
  have hcmp2 := RbThm.JmpLSim.for_cmp_jump code .greater (fun _ _ => rfl) p zeroOff (τ.pc + 2) τ6 hcj' rfl
  have ha2 : τ6.regs.a = τ.regs.d := rfl
  have hb2 : τ6.regs.b = .int 0 := hb
  rw [ha2, hb2, hcm] at hcmp2
  have : relHolds .greater .gt = true := rfl
  simp only [this, if_true] at hcmp2
  have e : ({ τ6 with pc := τ.pc + 2 + 2, regs := { τ6.regs with a := ofBool true } } : Vm) =
      { τ with pc := τ.pc + 4, regs := ⟨ofBool true, .int 0, τ.regs.c, τ.regs.d⟩ } := by
    simp only [τ6, τ5, JmpL.Vm.advance, hb]
  rw [e] at hcmp2
  exact ⟨ofBool true, RbThm.JmpLSim.Steps.cons s5 (RbThm.JmpLSim.Steps.cons s6 hcmp2)⟩

/-! ### the statement -/

/-- **the bounds of a FOR** (both forms; `unext`: the `Jump out-of-for` behind the header, `outOff`: the `out-of-for` label):
the start value is stored, the limit is evaluated — a failure of either is a failure of the header unit `[off, unext)`
(`efor_header_unit`) —, and then the statement goes on as `hk` says, from the state `σc` behind the limit's code, with the
limit in A -/
theorem efor_bounds {C : Ctx} (hC : C.Ok) {fuel : Nat} (ih : StmtIHle C fuel) {x : Nat} {t : Ty} {lo hiE : Ast.Expr}
    {stp : Option Ast.Expr} {body : SStmt} {p : Pos} {sfx : String} {d e off nx vb gd unext outOff : Nat} {lbl : String}
    {σ : EVm} {s : ESt}
    (hcs : CodeAt C.prog.code off (compileStmt C.env sfx d e off (.forLoop x t lo hiE stp body p)))
    (hl : LabAt C.env d e off (.forLoop x t lo hiE stp body p))
    (hw0 : Wf C.sl C.env.dp C.rl d e (.forLoop x t lo hiE stp body p))
    (hm : MarksAt C.prog.marks (marksStmt C.env.dp d e off (.forLoop x t lo hiE stp body p)) nx)
    (hnx : off + sizeStmt C.env.dp d e (.forLoop x t lo hiE stp body p) ≤ nx)
    (hclo : CodeAt C.prog.code off (lift (compileExprTo lo t)))
    (hcst : CodeAt C.prog.code (off + (compileExprTo lo t).length) (lift (storeVar x p)))
    (hchi : CodeAt C.prog.code (off + (compileExprTo lo t).length + 2) (lift (compileExprTo hiE t)))
    (hmh : MarksAt C.prog.marks [off] unext)
    (hune : off + (compileExprTo lo t).length + 2 + (compileExprTo hiE t).length ≤ unext)
    (hjout : C.prog.code[unext]? = some (.base (.jump outOff), p))
    (hlab : C.prog.code[outOff]? = some (.base (.label lbl), p))
    (hfin : off + sizeStmt C.env.dp d e (.forLoop x t lo hiE stp body p) = outOff + 1)
    (hpc : σ.b.pc = off) (hr : ERel C.sl C.env s σ) (hi : Inv C d e vb gd σ)
    (hk : ∀ (l h : Val) (σc : EVm), RbModel.Ref.evalTo s.st.env lo t = .ok l →
      RbModel.Ref.evalTo (s.st.set x l).env hiE t = .ok h → h.tag = t → Steps C.prog σ σc →
      σc.b.pc = off + (compileExprTo lo t).length + 2 + (compileExprTo hiE t).length → σc.b.regs.a = h → Quiet σ σc →
      ERel C.sl C.env { s with st := s.st.set x l } σc →
      StmtSpec C d e vb (off + sizeStmt C.env.dp d e (.forLoop x t lo hiE stp body p)) nx σ
        (exec (fuel + 1) C.P gd (desugar (.forLoop x t lo hiE stp body p)) .run s)) :
    StmtSpec C d e vb (off + sizeStmt C.env.dp d e (.forLoop x t lo hiE stp body p)) nx σ
      (exec (fuel + 1) C.P gd (desugar (.forLoop x t lo hiE stp body p)) .run s) := by
  obtain ⟨hx, hslo, hwlo, hshi, hsstep, hwb, hleave, hwhi, _⟩ := hw0
  have hw0 : Wf C.sl C.env.dp C.rl d e (.forLoop x t lo hiE stp body p) := ⟨hx, hslo, hwlo, hshi, hsstep, hwb, hleave, hwhi, ‹_›⟩
  -- a failure in the header, at the state `y0` reached from `σ`
  have hfail : ∀ (y0 : Vm) (st1 : St) (c : Nat) (q : Pos), Steps C.prog σ { σ with b := y0 } → off ≤ y0.pc →
      y0.pc < off + (compileExprTo lo t).length + 2 + (compileExprTo hiE t).length →
      step C.prog { σ with b := y0 } = Vm.raise C.prog { σ with b := y0 } c q →
      y0.regStack = σ.b.regStack → (∃ X, y0.vals = X ++ σ.b.vals) → y0.paths = σ.b.paths → y0.gosubs = σ.b.gosubs →
      Rel C.sl st1 y0 →
      StmtSpec C d e vb (off + sizeStmt C.env.dp d e (.forLoop x t lo hiE stp body p)) nx σ
        (match Ref.raise fuel C.P gd c q { s with st := st1 } with
         | (s', .again) => exec fuel C.P gd (.forLoop x t lo hiE stp (desugar body) p) .run s'
         | (s', .next) => (s', .normal)
         | (s', .out o) => (s', o)) := by
    intro y0 st1 c q hst hlo hhi hstep g1 ⟨X, hX⟩ g3 g4 hrel
    have hry : ERel C.sl C.env { s with st := st1 } { σ with b := y0 } :=
      { base := hrel, handler := hr.handler, hfd := hr.hfd, inH := hr.inH, err := hr.err }
    have := efor_header_unit hC ih hcs hl hw0 hm hnx hmh hjout hlab hfin hst hlo (by show y0.pc < _; omega) hstep g1
      (by show vb + e ≤ y0.vals.length; rw [hX, List.length_append]; have := hi.he; omega) g3 g4 rfl hry hi
    simpa only [desugar] using this
  -- the start value
  have hslots : SlotsBelow σ.b.env.length lo := by rw [hr.base.len]; exact hslo
  have helo := RbThm.JmpLSim.exprTo_correct (pad off (compileExprTo lo t)) lo t off σ.b (codeAt_pad _ _) hpc hslots
  rw [hr.base.env] at helo
  generalize hE : exec (fuel + 1) C.P gd (desugar (.forLoop x t lo hiE stp body p)) .run s = E
  have hE0 := hE
  simp only [desugar, exec, forHeader] at hE
  cases hev : RbModel.Ref.evalTo s.st.env lo t with
  | err c q =>
    simp only [hev] at hE
    rw [← hE]
    obtain ⟨υ, st, hs, hfa⟩ := exprTo_fails (pad off (compileExprTo lo t)) lo t off σ.b (codeAt_pad _ _) hpc hslots
      (by rw [hr.base.env]; exact hev)
    obtain ⟨hst, hylo, hyhi, hstep⟩ := lift_fails' hC.pok hclo (efor_exprTo_noread lo t) st hs σ rfl
    exact hfail υ s.st c q hst hylo (by omega) hstep hfa.regStack hfa.vals hfa.paths hfa.gosubs (hfa.rel hr.base)
  | inexact => simp only [hev] at hE; rw [← hE]; simp only [StmtSpec]
  | ok l =>
    simp only [hev] at helo hE
    obtain ⟨b1, st1⟩ := helo
    have st1' := lift_steps hC.pok hclo (efor_exprTo_noread lo t) st1 σ rfl
    have st2 := RbThm.JmpLSim.store_steps (pad (off + (compileExprTo lo t).length) (storeVar x p)) x p
      (off + (compileExprTo lo t).length) (RbThm.JmpLSim.afterExpr σ.b (off + (compileExprTo lo t).length) l b1)
      (codeAt_pad _ _) rfl
    have st2' := lift_steps hC.pok hcst (by simp [storeVar]) st2
      { σ with b := RbThm.JmpLSim.afterExpr σ.b (off + (compileExprTo lo t).length) l b1 } rfl
    generalize hσb : ({ (RbThm.JmpLSim.afterExpr σ.b (off + (compileExprTo lo t).length) l b1) with pc := off + (compileExprTo lo t).length + 2, env := (RbThm.JmpLSim.afterExpr σ.b (off + (compileExprTo lo t).length) l b1).env.set x (RbThm.JmpLSim.afterExpr σ.b (off + (compileExprTo lo t).length) l b1).regs.a } : Vm) = σb at st2'
    have hltag : l.tag = t := RbThm.C01Sim.SimRead.evalTo_tag C.sl s.st.env hr.base.typed lo t l hwlo hev
    have hrb : Rel C.sl (s.st.set x l) σb := by
      subst hσb
      exact (hr.base.afterExpr _ l b1).store hx hltag rfl rfl rfl rfl rfl
    have b1' : σb.pc = off + (compileExprTo lo t).length + 2 := by subst hσb; rfl
    have b2' : σb.regStack = σ.b.regStack := by subst hσb; rfl
    have b3' : σb.vals = σ.b.vals := by subst hσb; rfl
    have b4' : σb.paths = σ.b.paths := by subst hσb; rfl
    have b5' : σb.gosubs = σ.b.gosubs := by subst hσb; rfl
    have preb : Steps C.prog σ { σ with b := σb } := st1'.trans st2'
    -- the limit
    have hslots2 : SlotsBelow σb.env.length hiE := by rw [hrb.len]; exact hshi
    have hehi := RbThm.JmpLSim.exprTo_correct (pad (off + (compileExprTo lo t).length + 2) (compileExprTo hiE t)) hiE t
      (off + (compileExprTo lo t).length + 2) σb (codeAt_pad _ _) b1' hslots2
    rw [hrb.env] at hehi
    cases hevh : RbModel.Ref.evalTo (s.st.set x l).env hiE t with
    | err c q =>
      simp only [hevh] at hE
      rw [← hE]
      obtain ⟨υ, st, hs, hfa⟩ := exprTo_fails (pad (off + (compileExprTo lo t).length + 2) (compileExprTo hiE t)) hiE t
        (off + (compileExprTo lo t).length + 2) σb (codeAt_pad _ _) b1' hslots2 (by rw [hrb.env]; exact hevh)
      obtain ⟨hst, hylo, hyhi, hstep⟩ := lift_fails' hC.pok hchi (efor_exprTo_noread hiE t) st hs { σ with b := σb } rfl
      obtain ⟨X, hX⟩ := hfa.vals
      exact hfail υ (s.st.set x l) c q (preb.trans hst) (by omega) (by omega) hstep (hfa.regStack.trans b2')
        ⟨X, by rw [hX, b3']⟩ (hfa.paths.trans b4') (hfa.gosubs.trans b5') (hfa.rel hrb)
    | inexact => simp only [hevh] at hE; rw [← hE]; simp only [StmtSpec]
    | ok h =>
      simp only [hevh] at hehi
      obtain ⟨b2, st3⟩ := hehi
      have st3' := lift_steps hC.pok hchi (efor_exprTo_noread hiE t) st3 { σ with b := σb } rfl
      have hhtag : h.tag = t := RbThm.C01Sim.SimRead.evalTo_tag C.sl (s.st.set x l).env hrb.typed hiE t h hwhi hevh
      have hq : Quiet σ { σ with b := RbThm.JmpLSim.afterExpr σb (off + (compileExprTo lo t).length + 2 + (compileExprTo hiE t).length) h b2 } :=
        ⟨b2', b3', b4', b5', rfl⟩
      rw [← hE0]
      refine hk l h _ hev hevh hhtag (preb.trans st3') rfl rfl hq ?_
      exact { base := hrb.same rfl rfl rfl rfl rfl, handler := hr.handler, hfd := hr.hfd, inH := hr.inH, err := hr.err }

/-- **FOR … NEXT** without STEP: header unit (bounds), the rounds (`efor_loop`: body, `PopRegisters`, increment unit). -/
theorem case_forNone (C : Ctx) (hC : C.Ok) (fuel : Nat) (ih : StmtIHle C fuel) (x : Nat) (t : Ty)
    (lo hiE : Ast.Expr) (body : SStmt) (p : Pos)
    (sfx : String) (d e off nx vb gd : Nat) (m : Mode) (σ : EVm) (s : ESt)
    (hc : CodeAt C.prog.code off (compileStmt C.env sfx d e off (.forLoop x t lo hiE none body p)))
    (hl : LabAt C.env d e off (.forLoop x t lo hiE none body p))
    (hw : Wf C.sl C.env.dp C.rl d e (.forLoop x t lo hiE none body p))
    (hm : MarksAt C.prog.marks (marksStmt C.env.dp d e off (.forLoop x t lo hiE none body p)) nx)
    (hnx : off + sizeStmt C.env.dp d e (.forLoop x t lo hiE none body p) ≤ nx)
    (hen : Entry C.env off (.forLoop x t lo hiE none body p) m σ) (hr : ERel C.sl C.env s σ) (hi : Inv C d e vb gd σ) :
    StmtSpec C d e vb (off + sizeStmt C.env.dp d e (.forLoop x t lo hiE none body p)) nx σ
      (exec (fuel + 1) C.P gd (desugar (.forLoop x t lo hiE none body p)) m s) := by
  cases m with
  | seek L =>
    -- a FOR body is not entered from outside: nothing is claimed
    simp only [desugar, exec]
    split <;> trivial
  | run =>
  have hpc : σ.b.pc = off := hen
  have hw0 := hw
  obtain ⟨hx, hslo, hwlo, hshi, hsstep, hwb, hleave, hwhi, _⟩ := hw
  obtain ⟨hmh, hmb, hmp, hmi⟩ := marks_forNone hm
  have hlb := hl.forNone
  have hcs := hc
  simp only [compileStmt, efor_lift_append] at hc
  -- the pieces of the code
  have hA := hc.append_left
  have hclo : CodeAt C.prog.code off (lift (compileExprTo lo t)) := hA.append_left.append_left
  have hcst : CodeAt C.prog.code (off + (compileExprTo lo t).length) (lift (storeVar x p)) :=
    hA.append_left.append_right.efor_at (by simp only [lift_length])
  have hchi : CodeAt C.prog.code (off + (compileExprTo lo t).length + 2) (lift (compileExprTo hiE t)) :=
    hA.append_right.efor_at (by
      simp only [lift_length, List.length_append, storeVar, List.length_cons, List.length_nil]; omega)
  have hB := hc.append_right.efor_at
    (off' := off + (compileExprTo lo t).length + 2 + (compileExprTo hiE t).length) (by
      simp only [lift_length, List.length_append, storeVar, List.length_cons, List.length_nil]; omega)
  have hh6 := hB.append_left.append_left.append_left
  have hhead := hB.append_left.append_left.append_right.efor_at
    (off' := off + (compileExprTo lo t).length + 2 + (compileExprTo hiE t).length + 6) (by
      simp only [lift_length, List.length_cons, List.length_nil] <;> omega)
  have hcb := hB.append_left.append_right.efor_at
    (off' := off + (compileExprTo lo t).length + 2 + (compileExprTo hiE t).length + 6 + 8) (by
      simp only [lift_length, List.length_append, List.length_cons, List.length_nil, len_forHead] <;> omega)
  have hD := hB.append_right.efor_at
    (off' := off + (compileExprTo lo t).length + 2 + (compileExprTo hiE t).length + 6 + 8 + sizeStmt C.env.dp (d + 1) e body)
    (by simp only [lift_length, List.length_append, List.length_cons, List.length_nil, len_forHead, len_stmt]; omega)
  have hct := hD.append_left
  have hlab : C.prog.code[off + (compileExprTo lo t).length + 2 + (compileExprTo hiE t).length + 6 +
      sizeForBody C.env.dp d e body]? = some (.base (.label (labelName "out-of-for" p sfx)), p) := by
    have := hD.append_right.head
    simp only [lift_length, len_forTail] at this
    rw [← this]; congr 1
    simp only [sizeForBody]; omega
  have hjout : C.prog.code[off + (compileExprTo lo t).length + 2 + (compileExprTo hiE t).length + 4]? =
      some (.base (.jump (off + (compileExprTo lo t).length + 2 + (compileExprTo hiE t).length + 6 +
        sizeForBody C.env.dp d e body)), p) := by
    have := hh6.tail.tail.tail.tail.head
    rw [← this]
  have hfin : off + sizeStmt C.env.dp d e (.forLoop x t lo hiE none body p) =
      off + (compileExprTo lo t).length + 2 + (compileExprTo hiE t).length + 6 + sizeForBody C.env.dp d e body + 1 := by
    simp only [sizeStmt, sizeForBody]; omega
  -- a failure in the header, at the state `y0` reached from `σ`
  have hfail : ∀ (y0 : Vm) (st1 : St) (c : Nat) (q : Pos), Steps C.prog σ { σ with b := y0 } → off ≤ y0.pc →
      y0.pc < off + (compileExprTo lo t).length + 2 + (compileExprTo hiE t).length →
      step C.prog { σ with b := y0 } = Vm.raise C.prog { σ with b := y0 } c q →
      y0.regStack = σ.b.regStack → (∃ X, y0.vals = X ++ σ.b.vals) → y0.paths = σ.b.paths → y0.gosubs = σ.b.gosubs →
      Rel C.sl st1 y0 →
      StmtSpec C d e vb (off + sizeStmt C.env.dp d e (.forLoop x t lo hiE none body p)) nx σ
        (match Ref.raise fuel C.P gd c q { s with st := st1 } with
         | (s', .again) => exec fuel C.P gd (.forLoop x t lo hiE none (desugar body) p) .run s'
         | (s', .next) => (s', .normal)
         | (s', .out o) => (s', o)) := by
    intro y0 st1 c q hst hlo hhi hstep g1 ⟨X, hX⟩ g3 g4 hrel
    have hry : ERel C.sl C.env { s with st := st1 } { σ with b := y0 } :=
      { base := hrel, handler := hr.handler, hfd := hr.hfd, inH := hr.inH, err := hr.err }
    have := efor_header_unit hC ih hcs hl hw0 hm hnx hmh hjout hlab hfin hst hlo (by show y0.pc < _; omega) hstep g1
      (by show vb + e ≤ y0.vals.length; rw [hX, List.length_append]; have := hi.he; omega) g3 g4 rfl hry hi
    simpa only [desugar] using this
  -- the start value
  have hslots : SlotsBelow σ.b.env.length lo := by rw [hr.base.len]; exact hslo
  have helo := RbThm.JmpLSim.exprTo_correct (pad off (compileExprTo lo t)) lo t off σ.b (codeAt_pad _ _) hpc hslots
  rw [hr.base.env] at helo
  simp only [desugar, exec, forHeader]
  cases hev : RbModel.Ref.evalTo s.st.env lo t with
  | err c q =>
    simp only [hev]
    obtain ⟨υ, st, hs, hfa⟩ := exprTo_fails (pad off (compileExprTo lo t)) lo t off σ.b (codeAt_pad _ _) hpc hslots
      (by rw [hr.base.env]; exact hev)
    obtain ⟨hst, hylo, hyhi, hstep⟩ := lift_fails' hC.pok hclo (efor_exprTo_noread lo t) st hs σ rfl
    exact hfail υ s.st c q hst hylo (by omega) hstep hfa.regStack hfa.vals hfa.paths hfa.gosubs (hfa.rel hr.base)
  | inexact => simp only [hev, StmtSpec]
  | ok l =>
    simp only [hev] at helo ⊢
    obtain ⟨b1, st1⟩ := helo
    have st1' := lift_steps hC.pok hclo (efor_exprTo_noread lo t) st1 σ rfl
    have st2 := RbThm.JmpLSim.store_steps (pad (off + (compileExprTo lo t).length) (storeVar x p)) x p
      (off + (compileExprTo lo t).length) (RbThm.JmpLSim.afterExpr σ.b (off + (compileExprTo lo t).length) l b1)
      (codeAt_pad _ _) rfl
    have st2' := lift_steps hC.pok hcst (by simp [storeVar]) st2
      { σ with b := RbThm.JmpLSim.afterExpr σ.b (off + (compileExprTo lo t).length) l b1 } rfl
    generalize hσb : ({ (RbThm.JmpLSim.afterExpr σ.b (off + (compileExprTo lo t).length) l b1) with pc := off + (compileExprTo lo t).length + 2, env := (RbThm.JmpLSim.afterExpr σ.b (off + (compileExprTo lo t).length) l b1).env.set x (RbThm.JmpLSim.afterExpr σ.b (off + (compileExprTo lo t).length) l b1).regs.a } : Vm) = σb at st2'
    have hltag : l.tag = t := RbThm.C01Sim.SimRead.evalTo_tag C.sl s.st.env hr.base.typed lo t l hwlo hev
    have hrb : Rel C.sl (s.st.set x l) σb := by
      subst hσb
      exact (hr.base.afterExpr _ l b1).store hx hltag rfl rfl rfl rfl rfl
    have b1' : σb.pc = off + (compileExprTo lo t).length + 2 := by subst hσb; rfl
    have b2' : σb.regStack = σ.b.regStack := by subst hσb; rfl
    have b3' : σb.vals = σ.b.vals := by subst hσb; rfl
    have b4' : σb.paths = σ.b.paths := by subst hσb; rfl
    have b5' : σb.gosubs = σ.b.gosubs := by subst hσb; rfl
    have preb : Steps C.prog σ { σ with b := σb } := st1'.trans st2'
    -- the limit
    have hslots2 : SlotsBelow σb.env.length hiE := by rw [hrb.len]; exact hshi
    have hehi := RbThm.JmpLSim.exprTo_correct (pad (off + (compileExprTo lo t).length + 2) (compileExprTo hiE t)) hiE t
      (off + (compileExprTo lo t).length + 2) σb (codeAt_pad _ _) b1' hslots2
    rw [hrb.env] at hehi
    cases hevh : RbModel.Ref.evalTo (s.st.set x l).env hiE t with
    | err c q =>
      simp only [hevh]
      obtain ⟨υ, st, hs, hfa⟩ := exprTo_fails (pad (off + (compileExprTo lo t).length + 2) (compileExprTo hiE t)) hiE t
        (off + (compileExprTo lo t).length + 2) σb (codeAt_pad _ _) b1' hslots2 (by rw [hrb.env]; exact hevh)
      obtain ⟨hst, hylo, hyhi, hstep⟩ := lift_fails' hC.pok hchi (efor_exprTo_noread hiE t) st hs { σ with b := σb } rfl
      obtain ⟨X, hX⟩ := hfa.vals
      exact hfail υ (s.st.set x l) c q (preb.trans hst) (by omega) (by omega) hstep (hfa.regStack.trans b2')
        ⟨X, by rw [hX, b3']⟩ (hfa.paths.trans b4') (hfa.gosubs.trans b5') (hfa.rel hrb)
    | inexact => simp only [hevh, StmtSpec]
    | ok h =>
      simp only [hevh] at hehi ⊢
      obtain ⟨b2, st3⟩ := hehi
      have st3' := lift_steps hC.pok hchi (efor_exprTo_noread hiE t) st3 { σ with b := σb } rfl
      have hhtag : h.tag = t := RbThm.C01Sim.SimRead.evalTo_tag C.sl (s.st.set x l).env hrb.typed hiE t h hwhi hevh
      -- limit to C, step 1 to D, to the loop head
      have st4 := efor_init_steps (pad (off + (compileExprTo lo t).length + 2 + (compileExprTo hiE t).length)
          [(CInstr.copyAToC, p), (CInstr.loadA (.int 1), p), (CInstr.copyAToD, p),
            (CInstr.jump (off + (compileExprTo lo t).length + 2 + (compileExprTo hiE t).length + 5), p),
            (CInstr.jump (off + (compileExprTo lo t).length + 2 + (compileExprTo hiE t).length + 6 +
              sizeForBody C.env.dp d e body), p),
            (CInstr.label (labelName "for-begin" p sfx), p)]) p
        (off + (compileExprTo lo t).length + 2 + (compileExprTo hiE t).length)
        (off + (compileExprTo lo t).length + 2 + (compileExprTo hiE t).length + 6 + sizeForBody C.env.dp d e body)
        (labelName "for-begin" p sfx)
        (RbThm.JmpLSim.afterExpr σb (off + (compileExprTo lo t).length + 2 + (compileExprTo hiE t).length) h b2)
        (codeAt_pad _ _) rfl
      have st4' := lift_steps hC.pok hh6 (by simp) st4
        { σ with b := RbThm.JmpLSim.afterExpr σb (off + (compileExprTo lo t).length + 2 + (compileExprTo hiE t).length) h b2 } rfl
      generalize hσ5 : ({ σ with b := { (RbThm.JmpLSim.afterExpr σb (off + (compileExprTo lo t).length + 2 + (compileExprTo hiE t).length) h b2) with pc := off + (compileExprTo lo t).length + 2 + (compileExprTo hiE t).length + 6, regs := ⟨.int 1, (RbThm.JmpLSim.afterExpr σb (off + (compileExprTo lo t).length + 2 + (compileExprTo hiE t).length) h b2).regs.b, (RbThm.JmpLSim.afterExpr σb (off + (compileExprTo lo t).length + 2 + (compileExprTo hiE t).length) h b2).regs.a, .int 1⟩ } } : EVm) = σ5 at st4'
      have pre : Steps C.prog σ σ5 := (preb.trans st3').trans st4'
      have hq : Quiet σ σ5 := by
        subst hσ5
        exact ⟨b2', b3', b4', b5', rfl⟩
      have hr5 : ERel C.sl C.env { s with st := s.st.set x l } σ5 := by
        subst hσ5
        exact { base := hrb.same rfl rfl rfl rfl rfl, handler := hr.handler, hfd := hr.hfd, inH := hr.inH, err := hr.err }
      have hloop := (efor_loop C hC fuel ih x t body p sfx true d e vb gd
        (off + (compileExprTo lo t).length + 2 + (compileExprTo hiE t).length + 6)
        (off + (compileExprTo lo t).length + 2 + (compileExprTo hiE t).length + 6 + sizeForBody C.env.dp d e body) nx nx
        h (.int 1) hx hhtag hwb hlb hhead hcb hct hmb hmi (by simp only [sizeStmt, sizeForBody] at hnx; omega) (.inl rfl)
        (fun f s0 s' L hty htest hex => efor_shape_none hC hw0 hl hhtag f s0 s' L hty htest hex)
        fuel fuel (Nat.le_refl _) (Nat.le_refl _) σ5 { s with st := s.st.set x l } (by subst hσ5; rfl) (by subst hσ5; rfl)
        hr5 (hq.inv hi)).1 (by subst hσ5; rfl)
      exact efor_finish hC pre hq hlab hfin _ hloop

theorem CodeAt.lift_left {code : ECode} {off : Nat} {a b : Code} (h : CodeAt code off (lift (a ++ b))) :
    CodeAt code off (lift a) := by
  rw [efor_lift_append] at h; exact h.append_left

theorem CodeAt.lift_right {code : ECode} {off : Nat} {a b : Code} (h : CodeAt code off (lift (a ++ b))) :
    CodeAt code (off + a.length) (lift b) := by
  rw [efor_lift_append] at h
  have := h.append_right
  rwa [lift_length] at this

/-- **FOR … STEP … NEXT**, the step a literal other than zero (`StepLit`): header unit (bounds; the literal cannot fail), the
sign test, then the rounds of the copy of the body for that sign (`efor_loop`); the increment unit of either copy is followed
by the `Jump out-of-for` behind the copy (`marks_forSome`). -/
theorem case_forSome (C : Ctx) (hC : C.Ok) (fuel : Nat) (ih : StmtIHle C fuel) (x : Nat) (t : Ty)
    (lo hiE se : Ast.Expr) (body : SStmt) (p : Pos)
    (sfx : String) (d e off nx vb gd : Nat) (m : Mode) (σ : EVm) (s : ESt)
    (hc : CodeAt C.prog.code off (compileStmt C.env sfx d e off (.forLoop x t lo hiE (some se) body p)))
    (hl : LabAt C.env d e off (.forLoop x t lo hiE (some se) body p))
    (hw : Wf C.sl C.env.dp C.rl d e (.forLoop x t lo hiE (some se) body p))
    (hm : MarksAt C.prog.marks (marksStmt C.env.dp d e off (.forLoop x t lo hiE (some se) body p)) nx)
    (hnx : off + sizeStmt C.env.dp d e (.forLoop x t lo hiE (some se) body p) ≤ nx)
    (hen : Entry C.env off (.forLoop x t lo hiE (some se) body p) m σ) (hr : ERel C.sl C.env s σ) (hi : Inv C d e vb gd σ) :
    StmtSpec C d e vb (off + sizeStmt C.env.dp d e (.forLoop x t lo hiE (some se) body p)) nx σ
      (exec (fuel + 1) C.P gd (desugar (.forLoop x t lo hiE (some se) body p)) m s) := by
  cases m with
  | seek L =>
    -- a FOR body is not entered from outside: nothing is claimed
    simp only [desugar, exec]
    split <;> trivial
  | run =>
  have hpc : σ.b.pc = off := hen
  have hw0 := hw
  obtain ⟨hx, hslo, hwlo, hshi, hsstep, hwb, hleave, hwhi, hlit⟩ := hw
  have hlit' := hlit se rfl
  cases se with
  | var _ _ _ => exact False.elim hlit'
  | un _ _ _ => exact False.elim hlit'
  | bin _ _ _ _ _ => exact False.elim hlit'
  | paren _ _ => exact False.elim hlit'
  | lit v q =>
  have hns : (compileExpr (Ast.Expr.lit v q)).length = 1 := rfl
  obtain ⟨hmh, hmbN, hmpN, hmiN, hmbP, hmpP, hmiP, hmz⟩ := marks_forSome (negOff := off + (compileExprTo lo t).length + 2 + (compileExprTo hiE t).length + 1 + (compileExpr (Ast.Expr.lit v q)).length + 11) (posOff := off + (compileExprTo lo t).length + 2 + (compileExprTo hiE t).length + 1 + (compileExpr (Ast.Expr.lit v q)).length + 11 + sizeForBody C.env.dp d e body + 1 + 4) rfl rfl hm
  obtain ⟨hlneg, hlpos⟩ := hl.forSome
  have hcs := hc
  simp only [compileStmt] at hc
  -- the pieces of the code
  have hA := hc.append_left
  have hclo : CodeAt C.prog.code off (lift (compileExprTo lo t)) := hA.lift_left.lift_left
  have hcst : CodeAt C.prog.code (off + (compileExprTo lo t).length) (lift (storeVar x p)) := hA.lift_left.lift_right
  have hchi : CodeAt C.prog.code (off + (compileExprTo lo t).length + 2) (lift (compileExprTo hiE t)) :=
    hA.lift_right.efor_at (by simp only [lift_length, List.length_append, List.length_cons, List.length_nil, len_forHead, len_forTail, len_stmt, storeVar, sizeForBody, hns] <;> omega)
  have hB := hc.append_right.efor_at (off' := off + (compileExprTo lo t).length + 2 + (compileExprTo hiE t).length) (by simp only [lift_length, List.length_append, List.length_cons, List.length_nil, len_forHead, len_forTail, len_stmt, storeVar, sizeForBody, hns] <;> omega)
  have hX := hB.append_left.append_left.append_left.append_left
  have hbN := hB.append_left.append_left.append_left.append_right.efor_at (off' := off + (compileExprTo lo t).length + 2 + (compileExprTo hiE t).length + 1 + (compileExpr (Ast.Expr.lit v q)).length + 11 + 8) (by simp only [lift_length, List.length_append, List.length_cons, List.length_nil, len_forHead, len_forTail, len_stmt, storeVar, sizeForBody, hns] <;> omega)
  have hY := hB.append_left.append_left.append_right.efor_at (off' := off + (compileExprTo lo t).length + 2 + (compileExprTo hiE t).length + 1 + (compileExpr (Ast.Expr.lit v q)).length + 11 + 8 + sizeStmt C.env.dp (d + 1) e body) (by simp only [lift_length, List.length_append, List.length_cons, List.length_nil, len_forHead, len_forTail, len_stmt, storeVar, sizeForBody, hns] <;> omega)
  have hbP := hB.append_left.append_right.efor_at (off' := off + (compileExprTo lo t).length + 2 + (compileExprTo hiE t).length + 1 + (compileExpr (Ast.Expr.lit v q)).length + 11 + sizeForBody C.env.dp d e body + 1 + 4 + 8) (by simp only [lift_length, List.length_append, List.length_cons, List.length_nil, len_forHead, len_forTail, len_stmt, storeVar, sizeForBody, hns] <;> omega)
  have hZ := hB.append_right.efor_at (off' := off + (compileExprTo lo t).length + 2 + (compileExprTo hiE t).length + 1 + (compileExpr (Ast.Expr.lit v q)).length + 11 + sizeForBody C.env.dp d e body + 1 + 4 + 8 + sizeStmt C.env.dp (d + 1) e body) (by simp only [lift_length, List.length_append, List.length_cons, List.length_nil, len_forHead, len_forTail, len_stmt, storeVar, sizeForBody, hns] <;> omega)
  -- the header behind the bounds: the first eight instructions, the sign test, the loop head of the negative copy
  have hXL : CodeAt C.prog.code (off + (compileExprTo lo t).length + 2 + (compileExprTo hiE t).length) (lift ([(CInstr.pushA, p), (CInstr.loadA v, q), (CInstr.copyAToD, p), (CInstr.popA, p), (CInstr.copyAToC, p),
        (CInstr.jump (off + (compileExprTo lo t).length + 2 + (compileExprTo hiE t).length + 1 + (compileExpr (Ast.Expr.lit v q)).length + 5), p), (CInstr.jump (off + (compileExprTo lo t).length + 2 + (compileExprTo hiE t).length + 1 + (compileExpr (Ast.Expr.lit v q)).length + 11 + sizeForBody C.env.dp d e body + 1 + 4 + sizeForBody C.env.dp d e body + 1 + 2), p), (CInstr.label (labelName "for-begin" p sfx), p)] ++ [(CInstr.loadA (.int 0), p), (CInstr.copyAToB, p), (CInstr.copyDToA, p), (CInstr.bin .less, p),
        (CInstr.jumpIfFalse (off + (compileExprTo lo t).length + 2 + (compileExprTo hiE t).length + 1 + (compileExpr (Ast.Expr.lit v q)).length + 11 + sizeForBody C.env.dp d e body + 1), p)])) := hX.lift_left
  have hI8 := hXL.lift_left
  have hS5 := hXL.lift_right.efor_at (off' := off + (compileExprTo lo t).length + 2 + (compileExprTo hiE t).length + 8) (by simp only [List.length_cons, List.length_nil])
  have hheadN := hX.lift_right.efor_at (off' := off + (compileExprTo lo t).length + 2 + (compileExprTo hiE t).length + 1 + (compileExpr (Ast.Expr.lit v q)).length + 11) (by simp only [lift_length, List.length_append, List.length_cons, List.length_nil, len_forHead, len_forTail, len_stmt, storeVar, sizeForBody, hns] <;> omega)
  -- behind the negative copy: its increment, `Jump out-of-for`, the second test, the loop head of the positive copy
  have hctN := hY.lift_left.lift_left
  have hM5 := hY.lift_left.lift_right.efor_at (off' := off + (compileExprTo lo t).length + 2 + (compileExprTo hiE t).length + 1 + (compileExpr (Ast.Expr.lit v q)).length + 11 + sizeForBody C.env.dp d e body) (by simp only [lift_length, List.length_append, List.length_cons, List.length_nil, len_forHead, len_forTail, len_stmt, storeVar, sizeForBody, hns] <;> omega)
  have hjN : C.prog.code[off + (compileExprTo lo t).length + 2 + (compileExprTo hiE t).length + 1 + (compileExpr (Ast.Expr.lit v q)).length + 11 + sizeForBody C.env.dp d e body]? = some (.base (.jump (off + (compileExprTo lo t).length + 2 + (compileExprTo hiE t).length + 1 + (compileExpr (Ast.Expr.lit v q)).length + 11 + sizeForBody C.env.dp d e body + 1 + 4 + sizeForBody C.env.dp d e body + 1 + 2)), p) := hM5.head
  have hT4 : CodeAt C.prog.code (off + (compileExprTo lo t).length + 2 + (compileExprTo hiE t).length + 1 + (compileExpr (Ast.Expr.lit v q)).length + 11 + sizeForBody C.env.dp d e body + 1) (lift [(CInstr.label (labelName "test-positive-or-zero" p sfx), p), (CInstr.copyDToA, p), (CInstr.bin .greater, p),
        (CInstr.jumpIfFalse (off + (compileExprTo lo t).length + 2 + (compileExprTo hiE t).length + 1 + (compileExpr (Ast.Expr.lit v q)).length + 11 + sizeForBody C.env.dp d e body + 1 + 4 + sizeForBody C.env.dp d e body + 1), p)]) := hM5.tail
  have hheadP := hY.lift_right.efor_at (off' := off + (compileExprTo lo t).length + 2 + (compileExprTo hiE t).length + 1 + (compileExpr (Ast.Expr.lit v q)).length + 11 + sizeForBody C.env.dp d e body + 1 + 4) (by simp only [lift_length, List.length_append, List.length_cons, List.length_nil, len_forHead, len_forTail, len_stmt, storeVar, sizeForBody, hns] <;> omega)
  -- behind the positive copy: its increment, `Jump out-of-for`, the zero-step `Throw`, the `out-of-for` label
  have hctP := hZ.lift_left
  have hZ4 := hZ.lift_right.efor_at (off' := off + (compileExprTo lo t).length + 2 + (compileExprTo hiE t).length + 1 + (compileExpr (Ast.Expr.lit v q)).length + 11 + sizeForBody C.env.dp d e body + 1 + 4 + sizeForBody C.env.dp d e body) (by simp only [lift_length, List.length_append, List.length_cons, List.length_nil, len_forHead, len_forTail, len_stmt, storeVar, sizeForBody, hns] <;> omega)
  have hjP : C.prog.code[off + (compileExprTo lo t).length + 2 + (compileExprTo hiE t).length + 1 + (compileExpr (Ast.Expr.lit v q)).length + 11 + sizeForBody C.env.dp d e body + 1 + 4 + sizeForBody C.env.dp d e body]? = some (.base (.jump (off + (compileExprTo lo t).length + 2 + (compileExprTo hiE t).length + 1 + (compileExpr (Ast.Expr.lit v q)).length + 11 + sizeForBody C.env.dp d e body + 1 + 4 + sizeForBody C.env.dp d e body + 1 + 2)), p) := hZ4.head
  have hlab : C.prog.code[off + (compileExprTo lo t).length + 2 + (compileExprTo hiE t).length + 1 + (compileExpr (Ast.Expr.lit v q)).length + 11 + sizeForBody C.env.dp d e body + 1 + 4 + sizeForBody C.env.dp d e body + 1 + 2]? = some (.base (.label (labelName "out-of-for" p sfx)), p) := by
    have := hZ4.tail.tail.tail.head
    rw [← this]
  have hjout : C.prog.code[off + (compileExprTo lo t).length + 2 + (compileExprTo hiE t).length + 1 + (compileExpr (Ast.Expr.lit v q)).length + 4]? = some (.base (.jump (off + (compileExprTo lo t).length + 2 + (compileExprTo hiE t).length + 1 + (compileExpr (Ast.Expr.lit v q)).length + 11 + sizeForBody C.env.dp d e body + 1 + 4 + sizeForBody C.env.dp d e body + 1 + 2)), p) := by
    have := hI8.tail.tail.tail.tail.tail.tail.head
    rw [← this]; congr 1
  have hfin : off + sizeStmt C.env.dp d e (.forLoop x t lo hiE (some (Ast.Expr.lit v q)) body p) = off + (compileExprTo lo t).length + 2 + (compileExprTo hiE t).length + 1 + (compileExpr (Ast.Expr.lit v q)).length + 11 + sizeForBody C.env.dp d e body + 1 + 4 + sizeForBody C.env.dp d e body + 1 + 2 + 1 := by
    simp only [sizeStmt, sizeForBody, hns]; omega
  have hunN : off + (compileExprTo lo t).length + 2 + (compileExprTo hiE t).length + 1 + (compileExpr (Ast.Expr.lit v q)).length + 11 + 8 + sizeStmt C.env.dp (d + 1) e body + 10 ≤ off + (compileExprTo lo t).length + 2 + (compileExprTo hiE t).length + 1 + (compileExpr (Ast.Expr.lit v q)).length + 11 + sizeForBody C.env.dp d e body := by simp only [sizeForBody]; omega
  have hunP : off + (compileExprTo lo t).length + 2 + (compileExprTo hiE t).length + 1 + (compileExpr (Ast.Expr.lit v q)).length + 11 + sizeForBody C.env.dp d e body + 1 + 4 + 8 + sizeStmt C.env.dp (d + 1) e body + 10 ≤ off + (compileExprTo lo t).length + 2 + (compileExprTo hiE t).length + 1 + (compileExpr (Ast.Expr.lit v q)).length + 11 + sizeForBody C.env.dp d e body + 1 + 4 + sizeForBody C.env.dp d e body := by simp only [sizeForBody]; omega
  refine efor_bounds hC ih hcs hl hw0 hm hnx hclo hcst hchi hmh (by omega) hjout hlab hfin hpc hr hi ?_
  intro l h σc hev hevh hhtag pre3 hpcc hac hqc hrc
  -- limit to C, step to D, over the resume point
  have st4 := efor_step_init (pad (off + (compileExprTo lo t).length + 2 + (compileExprTo hiE t).length) [(CInstr.pushA, p), (CInstr.loadA v, q), (CInstr.copyAToD, p), (CInstr.popA, p), (CInstr.copyAToC, p),
        (CInstr.jump (off + (compileExprTo lo t).length + 2 + (compileExprTo hiE t).length + 1 + (compileExpr (Ast.Expr.lit v q)).length + 5), p), (CInstr.jump (off + (compileExprTo lo t).length + 2 + (compileExprTo hiE t).length + 1 + (compileExpr (Ast.Expr.lit v q)).length + 11 + sizeForBody C.env.dp d e body + 1 + 4 + sizeForBody C.env.dp d e body + 1 + 2), p), (CInstr.label (labelName "for-begin" p sfx), p)]) p q (off + (compileExprTo lo t).length + 2 + (compileExprTo hiE t).length) (off + (compileExprTo lo t).length + 2 + (compileExprTo hiE t).length + 1 + (compileExpr (Ast.Expr.lit v q)).length + 5) (off + (compileExprTo lo t).length + 2 + (compileExprTo hiE t).length + 1 + (compileExpr (Ast.Expr.lit v q)).length + 11 + sizeForBody C.env.dp d e body + 1 + 4 + sizeForBody C.env.dp d e body + 1 + 2) (labelName "for-begin" p sfx) v σc.b
    (codeAt_pad _ _) (by omega) hpcc
  have st4' := lift_steps hC.pok hI8 (by simp) st4 σc rfl
  generalize hσ5 : ({ σc with b := { σc.b with pc := off + (compileExprTo lo t).length + 2 + (compileExprTo hiE t).length + 8, regs := ⟨σc.b.regs.a, σc.b.regs.b, σc.b.regs.a, v⟩ } } : EVm) = σ5 at st4'
  have f1 : σ5.b.pc = off + (compileExprTo lo t).length + 2 + (compileExprTo hiE t).length + 8 := by subst hσ5; rfl
  have f2 : σ5.b.regs.c = h := by subst hσ5; exact hac
  have f3 : σ5.b.regs.d = v := by subst hσ5; rfl
  have hq5 : Quiet σc σ5 := by subst hσ5; exact ⟨rfl, rfl, rfl, rfl, rfl⟩
  have hr5 : ERel C.sl C.env { s with st := s.st.set x l } σ5 := by
    subst hσ5; exact hrc.same (hrc.base.same rfl rfl rfl rfl rfl)
  simp only [desugar, exec, forHeader, hev, hevh, ErrL.Ref.evalE, RbModel.Ref.eval, RbThm.JmpLSim.for_stepSign_eq]
  rcases hlit' with hcm | hcm
  · -- a negative step: the first copy
    simp only [hcm]
    obtain ⟨a, st6⟩ := efor_sign1 (pad (off + (compileExprTo lo t).length + 2 + (compileExprTo hiE t).length + 8) [(CInstr.loadA (.int 0), p), (CInstr.copyAToB, p), (CInstr.copyDToA, p), (CInstr.bin .less, p),
        (CInstr.jumpIfFalse (off + (compileExprTo lo t).length + 2 + (compileExprTo hiE t).length + 1 + (compileExpr (Ast.Expr.lit v q)).length + 11 + sizeForBody C.env.dp d e body + 1), p)]) p (off + (compileExprTo lo t).length + 2 + (compileExprTo hiE t).length + 8) (off + (compileExprTo lo t).length + 2 + (compileExprTo hiE t).length + 1 + (compileExpr (Ast.Expr.lit v q)).length + 11 + sizeForBody C.env.dp d e body + 1) σ5.b (codeAt_pad _ _) f1 .lt (by rw [f3]; exact hcm)
    simp only [if_true] at st6
    have st6' := lift_steps hC.pok hS5 (by simp) st6 σ5 rfl
    generalize hσ6 : ({ σ5 with b := { σ5.b with pc := off + (compileExprTo lo t).length + 2 + (compileExprTo hiE t).length + 8 + 5, regs := ⟨a, .int 0, σ5.b.regs.c, σ5.b.regs.d⟩ } } : EVm) = σ6 at st6'
    have hq6 : Quiet σ5 σ6 := by subst hσ6; exact ⟨rfl, rfl, rfl, rfl, rfl⟩
    have hq : Quiet σ σ6 := (hqc.trans hq5).trans hq6
    have hr6 : ERel C.sl C.env { s with st := s.st.set x l } σ6 := by
      subst hσ6; exact hr5.same (hr5.base.same rfl rfl rfl rfl rfl)
    have hloop := (efor_loop C hC fuel ih x t body p sfx false d e vb gd (off + (compileExprTo lo t).length + 2 + (compileExprTo hiE t).length + 1 + (compileExpr (Ast.Expr.lit v q)).length + 11) (off + (compileExprTo lo t).length + 2 + (compileExprTo hiE t).length + 1 + (compileExpr (Ast.Expr.lit v q)).length + 11 + sizeForBody C.env.dp d e body + 1 + 4 + sizeForBody C.env.dp d e body + 1 + 2) nx (off + (compileExprTo lo t).length + 2 + (compileExprTo hiE t).length + 1 + (compileExpr (Ast.Expr.lit v q)).length + 11 + sizeForBody C.env.dp d e body)
      h v hx hhtag hwb hlneg hheadN hbN hctN hmbN hmiN hunN (.inr ⟨p, hjN⟩)
      (fun f s0 s' L hty htest hex => efor_shape_some hC hw0 hl hhtag q false hcm f s0 s' L hty htest hex)
      fuel fuel (Nat.le_refl _) (Nat.le_refl _) σ6 { s with st := s.st.set x l } (by subst hσ6; exact f2)
      (by subst hσ6; exact f3) hr6 (hq.inv hi)).1 (by subst hσ6; show off + (compileExprTo lo t).length + 2 + (compileExprTo hiE t).length + 8 + 5 = off + (compileExprTo lo t).length + 2 + (compileExprTo hiE t).length + 1 + (compileExpr (Ast.Expr.lit v q)).length + 11; omega)
    exact efor_finish hC ((pre3.trans st4').trans st6') hq hlab hfin _ hloop
  · -- a positive step: the second test, the second copy
    simp only [hcm]
    obtain ⟨a, st6⟩ := efor_sign1 (pad (off + (compileExprTo lo t).length + 2 + (compileExprTo hiE t).length + 8) [(CInstr.loadA (.int 0), p), (CInstr.copyAToB, p), (CInstr.copyDToA, p), (CInstr.bin .less, p),
        (CInstr.jumpIfFalse (off + (compileExprTo lo t).length + 2 + (compileExprTo hiE t).length + 1 + (compileExpr (Ast.Expr.lit v q)).length + 11 + sizeForBody C.env.dp d e body + 1), p)]) p (off + (compileExprTo lo t).length + 2 + (compileExprTo hiE t).length + 8) (off + (compileExprTo lo t).length + 2 + (compileExprTo hiE t).length + 1 + (compileExpr (Ast.Expr.lit v q)).length + 11 + sizeForBody C.env.dp d e body + 1) σ5.b (codeAt_pad _ _) f1 .gt (by rw [f3]; exact hcm)
    simp only [reduceCtorEq, if_false] at st6
    have st6' := lift_steps hC.pok hS5 (by simp) st6 σ5 rfl
    generalize hσ6 : ({ σ5 with b := { σ5.b with pc := off + (compileExprTo lo t).length + 2 + (compileExprTo hiE t).length + 1 + (compileExpr (Ast.Expr.lit v q)).length + 11 + sizeForBody C.env.dp d e body + 1, regs := ⟨a, .int 0, σ5.b.regs.c, σ5.b.regs.d⟩ } } : EVm) = σ6 at st6'
    have g1 : σ6.b.pc = off + (compileExprTo lo t).length + 2 + (compileExprTo hiE t).length + 1 + (compileExpr (Ast.Expr.lit v q)).length + 11 + sizeForBody C.env.dp d e body + 1 := by subst hσ6; rfl
    have g2 : σ6.b.regs.c = h := by subst hσ6; exact f2
    have g3 : σ6.b.regs.d = v := by subst hσ6; exact f3
    have g4 : σ6.b.regs.b = .int 0 := by subst hσ6; rfl
    have hq6 : Quiet σ5 σ6 := by subst hσ6; exact ⟨rfl, rfl, rfl, rfl, rfl⟩
    have hr6 : ERel C.sl C.env { s with st := s.st.set x l } σ6 := by
      subst hσ6; exact hr5.same (hr5.base.same rfl rfl rfl rfl rfl)
    obtain ⟨a', st7⟩ := efor_sign2 (pad (off + (compileExprTo lo t).length + 2 + (compileExprTo hiE t).length + 1 + (compileExpr (Ast.Expr.lit v q)).length + 11 + sizeForBody C.env.dp d e body + 1) [(CInstr.label (labelName "test-positive-or-zero" p sfx), p), (CInstr.copyDToA, p), (CInstr.bin .greater, p),
        (CInstr.jumpIfFalse (off + (compileExprTo lo t).length + 2 + (compileExprTo hiE t).length + 1 + (compileExpr (Ast.Expr.lit v q)).length + 11 + sizeForBody C.env.dp d e body + 1 + 4 + sizeForBody C.env.dp d e body + 1), p)]) p (labelName "test-positive-or-zero" p sfx) (off + (compileExprTo lo t).length + 2 + (compileExprTo hiE t).length + 1 + (compileExpr (Ast.Expr.lit v q)).length + 11 + sizeForBody C.env.dp d e body + 1) (off + (compileExprTo lo t).length + 2 + (compileExprTo hiE t).length + 1 + (compileExpr (Ast.Expr.lit v q)).length + 11 + sizeForBody C.env.dp d e body + 1 + 4 + sizeForBody C.env.dp d e body + 1) σ6.b
      (codeAt_pad _ _) g1 g4 (by rw [g3]; exact hcm)
    have st7' := lift_steps hC.pok hT4 (by simp) st7 σ6 rfl
    generalize hσ7 : ({ σ6 with b := { σ6.b with pc := off + (compileExprTo lo t).length + 2 + (compileExprTo hiE t).length + 1 + (compileExpr (Ast.Expr.lit v q)).length + 11 + sizeForBody C.env.dp d e body + 1 + 4, regs := ⟨a', .int 0, σ6.b.regs.c, σ6.b.regs.d⟩ } } : EVm) = σ7 at st7'
    have hq7 : Quiet σ6 σ7 := by subst hσ7; exact ⟨rfl, rfl, rfl, rfl, rfl⟩
    have hq : Quiet σ σ7 := ((hqc.trans hq5).trans hq6).trans hq7
    have hr7 : ERel C.sl C.env { s with st := s.st.set x l } σ7 := by
      subst hσ7; exact hr6.same (hr6.base.same rfl rfl rfl rfl rfl)
    have hloop := (efor_loop C hC fuel ih x t body p sfx true d e vb gd (off + (compileExprTo lo t).length + 2 + (compileExprTo hiE t).length + 1 + (compileExpr (Ast.Expr.lit v q)).length + 11 + sizeForBody C.env.dp d e body + 1 + 4) (off + (compileExprTo lo t).length + 2 + (compileExprTo hiE t).length + 1 + (compileExpr (Ast.Expr.lit v q)).length + 11 + sizeForBody C.env.dp d e body + 1 + 4 + sizeForBody C.env.dp d e body + 1 + 2) nx (off + (compileExprTo lo t).length + 2 + (compileExprTo hiE t).length + 1 + (compileExpr (Ast.Expr.lit v q)).length + 11 + sizeForBody C.env.dp d e body + 1 + 4 + sizeForBody C.env.dp d e body)
      h v hx hhtag hwb hlpos hheadP hbP hctP hmbP hmiP hunP (.inr ⟨p, hjP⟩)
      (fun f s0 s' L hty htest hex => efor_shape_some hC hw0 hl hhtag q true hcm f s0 s' L hty htest hex)
      fuel fuel (Nat.le_refl _) (Nat.le_refl _) σ7 { s with st := s.st.set x l } (by subst hσ7; exact g2)
      (by subst hσ7; exact g3) hr7 (hq.inv hi)).1 (by subst hσ7; rfl)
    exact efor_finish hC (((pre3.trans st4').trans st6').trans st7') hq hlab hfin _ hloop

/-- **FOR … NEXT**, with and without STEP -/
theorem case_for (C : Ctx) (hC : C.Ok) (fuel : Nat) (ih : StmtIHle C fuel) (x : Nat) (t : Ty)
    (lo hiE : Ast.Expr) (step : Option Ast.Expr) (body : SStmt) (p : Pos)
    (sfx : String) (d e off nx vb gd : Nat) (m : Mode) (σ : EVm) (s : ESt)
    (hc : CodeAt C.prog.code off (compileStmt C.env sfx d e off (.forLoop x t lo hiE step body p)))
    (hl : LabAt C.env d e off (.forLoop x t lo hiE step body p))
    (hw : Wf C.sl C.env.dp C.rl d e (.forLoop x t lo hiE step body p))
    (hm : MarksAt C.prog.marks (marksStmt C.env.dp d e off (.forLoop x t lo hiE step body p)) nx)
    (hnx : off + sizeStmt C.env.dp d e (.forLoop x t lo hiE step body p) ≤ nx)
    (hen : Entry C.env off (.forLoop x t lo hiE step body p) m σ) (hr : ERel C.sl C.env s σ) (hi : Inv C d e vb gd σ) :
    StmtSpec C d e vb (off + sizeStmt C.env.dp d e (.forLoop x t lo hiE step body p)) nx σ
      (exec (fuel + 1) C.P gd (desugar (.forLoop x t lo hiE step body p)) m s) := by
  cases step with
  | none => exact case_forNone C hC fuel ih x t lo hiE body p sfx d e off nx vb gd m σ s hc hl hw hm hnx hen hr hi
  | some se => exact case_forSome C hC fuel ih x t lo hiE se body p sfx d e off nx vb gd m σ s hc hl hw hm hnx hen hr hi


end RbThm.ErrLSim
