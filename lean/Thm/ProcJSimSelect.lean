import Thm.ProcJSimBase
import Thm.ProcJShape
import Thm.ProcJDepths
import Thm.ProcJCatch
/-!
Layer "procedures ∪ jumps", simulation part — the SELECT CASE statement (port of `Thm/JmpLSimSelect.lean` with the expression
steps of `Thm/ProcSimSelect.lean`).

Generated shape: `<selector>; PushAToValueStack; Jump select-begin; Jump select-skip; select-begin:` (a resume point),
then per CASE block `caseN` label, the item tests
(`<item>; CopyAToB; PopValueStackIntoA; PushAToValueStack; <comparison>; JumpIfFalse next` — selector in A, item in B,
the selector stays on the value stack), an optional `case-statementsN` label, the body, `Jump end-select`; then the
optional `case-else` part, the `end-select` label, `PopValueStackIntoA` and the `select-skip` label.

The blocks live at SELECT depth `sd + 1` on the value stack `subj :: vals` (`ActInv.enterSelect`): inside the SELECT everything
is stated with `StmtPost W sc below fd (sd + 1) endOff` (`endOff` = the `end-select` label) relative to a state whose value
stack carries the selector:

* `sel_cases_correct` — `execCases` (run mode: the tests — an item may call functions: the state is threaded —, then the block
  that matches);
* `sel_seek_cases_correct` — `seekCases` (the block that contains the label is entered at the label; no test runs);
* `sel_catch` / `sel_seek_correct` — `selectSeek`: a jump out of a block to a label in a block of the same SELECT arrives at the
  label with the selector still on the value stack (the label is at SELECT depth `≥ sd + 1`: nothing is popped);
* `sel_exit` — leaving the SELECT: a normal end runs `end-select; PopValueStackIntoA; select-skip`; a jump that leaves has
  `sd L ≤ sd` (`Leaves dp.sd` in `Wf`, through `JumpDepths`), so the selector is among the `sd + 1 − sd L` popped values; a
  RETURN is passed on; `exited` is passed on (`ExitedTo.mono`: the selector lies above the activation's mark).

A SELECT entered in seek mode from outside answers `illFormed` / `notHere`: nothing is claimed.
-/
namespace RbThm.ProcJSim
set_option linter.unusedVariables false
set_option linter.unusedSimpArgs false
open RbModel RbModel.ProcJ RbModel.ProcJ.Compile RbModel.ProcJ.Vm
open RbModel.Num hiding Expr
open RbModel.Ast (Pos)
open RbModel.Proc (Var SlotTabs Expr Args PrintItem CaseExpr ProcDecl zeroOf Sigs sigsOf)
open RbModel.Proc.Compile (Layout Layout.addr sizeExpr sizePush refCount sizeExprTo sizeSubCall sizeItems sizeCaseExpr sizeConds
  sizeExit labelName stepSuffix maxPos)
open RbModel.Proc.Vm (Regs Regs.new Frame CtxState getVar setVar curVars modCur curStatic applyArgs readVars binInstr)
open RbModel.ProcJ.Ref (Outcome Mode Act)
open RbThm.ProcJLen
open RbThm.ProcSim (Scope EWf CaseWf CondsWf SelRelOp)

/-! ### moving specifications around -/

/-- a `Jump a` right behind a statement: its normal end continues at `a` -/
theorem StmtPost.sel_then_jump {W : World} {sc : Scope} {below : List CtxState} {fd sd fin a : Nat} {p : Pos} {σ : Vm}
    {r : St × Outcome} (h : StmtPost W sc below fd sd fin σ r) (hj : W.code[fin]? = some (CInstr.jump a, p)) :
    StmtPost W sc below fd sd a σ r := by
  obtain ⟨s', o⟩ := r
  cases o with
  | normal =>
    obtain ⟨τ, st, hp, hrel, hss⟩ := h
    have hj' : W.code[τ.pc]? = some (CInstr.jump a, p) := by rw [hp]; exact hj
    have s1 : Vm.step W.code τ = .next { τ with pc := a } := by simp only [Vm.step, hj']
    exact ⟨{ τ with pc := a }, st.trans (Steps.one s1), rfl, hrel.setPc a,
      hss.trans ⟨rfl, rfl, rfl, rfl, rfl, rfl, rfl, id⟩⟩
  | exited => exact h
  | halted => exact h
  | jump L => exact h
  | ret q => exact h
  | error c q => exact h
  | inexact => trivial
  | outOfFuel => trivial
  | illFormed => trivial
  | notHere => trivial

/-- steps that leave the stacks alone may be put in front of a test -/
theorem sel_condPost_of_steps {W : World} {sc : Scope} {pre below : List CtxState} {yes no : Nat} {σ τ : Vm}
    {r : St × Except Outcome Bool} (st : Steps W.code σ τ) (hs : SameStacks σ τ)
    (h : CondPost W sc pre below yes no τ r) : CondPost W sc pre below yes no σ r := by
  obtain ⟨s', rv⟩ := r
  cases rv with
  | error o => exact ErrPost.of_steps st h
  | ok b =>
    cases b with
    | true =>
      obtain ⟨υ, st2, hp, hrel, hss⟩ := h
      exact ⟨υ, st.trans st2, hp, hrel, hs.trans hss⟩
    | false =>
      obtain ⟨υ, st2, hp, hrel, hss⟩ := h
      exact ⟨υ, st.trans st2, hp, hrel, hs.trans hss⟩

/-! ### one comparison -/

/-- the comparison instructions turn `try_cmp` into −1 / 0 -/
theorem sel_binInstr_rel {op : Op} (h : SelRelOp op) (a b : Val) :
    binInstr op a b = (tryCmp a b).bind fun o => Res.ok (ofBool (relHolds op o)) := by
  rcases h with h | h | h | h | h | h <;> subst h <;> rfl

theorem sel_truthy_ofBool (b : Bool) : _root_.RbModel.Ref.truthy (ofBool b) = some b := by
  cases b <;> rfl

/-- `CopyAToB; PopValueStackIntoA; PushAToValueStack; <comparison>; JumpIfFalse next`: the SELECT subject (top of the
value stack, kept there) is compared with the CASE item's value in A -/
theorem sel_cmp_tail (W : World) (sc : Scope) (below : List CtxState) (s : St) (op : Op) (hop : SelRelOp op) (p : Pos)
    (next q : Nat) (τ : Vm) (subj v : Val) (vs : List Val)
    (hc : CodeAt W.code q [(CInstr.copyAToB, p), (CInstr.popA, p), (CInstr.pushA, p), (CInstr.bin op, p),
      (CInstr.jumpIfFalse next, p)])
    (hpc : τ.pc = q) (ha : τ.regs.a = v) (hv : τ.vals = subj :: vs) (hr : Rel W sc [] below s τ) :
    CondPost W sc [] below (q + 5) next τ (s, ProcJ.Ref.relTest p op subj v) := by
  subst hpc
  have h0 : W.code[τ.pc]? = some (CInstr.copyAToB, p) := hc.head
  have h1 : W.code[τ.pc + 1]? = some (CInstr.popA, p) := hc.tail.head
  have h2 : W.code[τ.pc + 1 + 1]? = some (CInstr.pushA, p) := hc.tail.tail.head
  have h3 : W.code[τ.pc + 1 + 1 + 1]? = some (CInstr.bin op, p) := hc.tail.tail.tail.head
  have h4 : W.code[τ.pc + 1 + 1 + 1 + 1]? = some (CInstr.jumpIfFalse next, p) := hc.tail.tail.tail.tail.head
  let τ1 : Vm := Vm.advance { τ with regs := { τ.regs with b := τ.regs.a } }
  let τ2 : Vm := Vm.advance { Vm.setA τ1 subj with vals := vs }
  let τ3 : Vm := Vm.advance { τ2 with vals := subj :: vs }
  have s1 : Vm.step W.code τ = .next τ1 := by simp only [Vm.step, h0]; rfl
  have s2 : Vm.step W.code τ1 = .next τ2 := by simp only [Vm.step, τ1, Vm.advance, h1, hv]; rfl
  have s3 : Vm.step W.code τ2 = .next τ3 := by simp only [Vm.step, τ2, τ1, Vm.advance, Vm.setA, h2]; rfl
  have s4 : Vm.step W.code τ3 = Vm.resA τ3 p (binInstr op subj v) := by
    simp only [Vm.step, τ3, τ2, τ1, Vm.advance, Vm.setA, h3, ha]
  have st : Steps W.code τ τ3 := Steps.cons s1 (Steps.cons s2 (Steps.one s3))
  rw [sel_binInstr_rel hop] at s4
  simp only [ProcJ.Ref.relTest]
  cases ht : tryCmp subj v with
  | ok o =>
    let τ4 : Vm := Vm.advance (Vm.setA τ3 (ofBool (relHolds op o)))
    have s4' : Vm.step W.code τ3 = .next τ4 := by rw [s4, ht]; rfl
    have hj : W.code[τ4.pc]? = some (CInstr.jumpIfFalse next, p) := h4
    have ht4 : _root_.RbModel.Ref.truthy τ4.regs.a = some (relHolds op o) := sel_truthy_ofBool _
    dsimp only
    cases hb : relHolds op o with
    | true =>
      rw [hb] at ht4
      refine ⟨Vm.advance τ4, st.trans (Steps.cons s4' (Steps.one ?_)), rfl, hr.same rfl rfl rfl rfl rfl rfl,
        ⟨hv.symm, rfl, rfl, rfl, rfl, rfl, rfl, id⟩⟩
      simp only [Vm.step, hj, ht4]
    | false =>
      rw [hb] at ht4
      refine ⟨{ τ4 with pc := next }, st.trans (Steps.cons s4' (Steps.one ?_)), rfl,
        hr.same rfl rfl rfl rfl rfl rfl, ⟨hv.symm, rfl, rfl, rfl, rfl, rfl, rfl, id⟩⟩
      simp only [Vm.step, hj, ht4]
  | err e =>
    dsimp only
    refine ⟨τ3, τ3, st, ?_, hr.out⟩
    rw [s4, ht]; rfl
  | inexact => trivial

/-! ### one item -/

/-- one comparison of the subject with the value of an expression -/
def selItemTest (P : Program) (f : Nat) (p : Pos) (op : Op) (subj : Val) (e : Expr) (s : St) :
    St × Except Outcome Bool :=
  match ProcJ.Ref.eval P f e s with
  | (s1, .error o) => (s1, .error o)
  | (s1, .ok v) => (s1, ProcJ.Ref.relTest p op subj v)

theorem sel_caseMatches_simple (P : Program) (f : Nat) (p : Pos) (subj : Val) (e : Expr) (s : St) :
    ProcJ.Ref.caseMatches P (f + 1) p subj (.simple e) s = selItemTest P f p .equal subj e s := by
  simp only [ProcJ.Ref.caseMatches, selItemTest]
  generalize ProcJ.Ref.eval P f e s = r
  obtain ⟨s1, rv⟩ := r
  cases rv <;> rfl

theorem sel_caseMatches_is (P : Program) (f : Nat) (p : Pos) (subj : Val) (op : Op) (e : Expr) (s : St) :
    ProcJ.Ref.caseMatches P (f + 1) p subj (.is op e) s = selItemTest P f p op subj e s := by
  simp only [ProcJ.Ref.caseMatches, selItemTest]
  generalize ProcJ.Ref.eval P f e s = r
  obtain ⟨s1, rv⟩ := r
  cases rv <;> rfl

theorem sel_caseMatches_range (P : Program) (f : Nat) (p : Pos) (subj : Val) (lo hi : Expr) (s : St) :
    ProcJ.Ref.caseMatches P (f + 1) p subj (.range lo hi) s =
      match selItemTest P f p .greaterOrEqual subj lo s with
      | (s1, .error o) => (s1, .error o)
      | (s1, .ok false) => (s1, .ok false)
      | (s1, .ok true) => selItemTest P f p .lessOrEqual subj hi s1 := by
  simp only [ProcJ.Ref.caseMatches, selItemTest]
  generalize ProcJ.Ref.eval P f lo s = r
  obtain ⟨s1, rv⟩ := r
  cases rv with
  | error o => rfl
  | ok l =>
    dsimp only
    cases ProcJ.Ref.relTest p .greaterOrEqual subj l with
    | error o => rfl
    | ok b => cases b <;> rfl

/-- `<expr>; CopyAToB; PopValueStackIntoA; PushAToValueStack; <comparison>; JumpIfFalse next` -/
theorem sel_item_correct (W : World) (f : Nat) (hE : ExprIH W f) (sc : Scope) (below : List CtxState) (op : Op)
    (hop : SelRelOp op) (p : Pos) (next off : Nat) (s : St) (σ : Vm) (subj : Val) (vs : List Val) (e : Expr)
    (hc : CodeAt W.code off (compileExpr W.lay off e ++ [(CInstr.copyAToB, p), (CInstr.popA, p), (CInstr.pushA, p),
      (CInstr.bin op, p), (CInstr.jumpIfFalse next, p)]))
    (hpc : σ.pc = off) (hv : σ.vals = subj :: vs) (hr : Rel W sc [] below s σ) (hw : EWf W.sg sc.slots e) :
    CondPost W sc [] below (off + sizeExpr e + 5) next σ (selItemTest W.P f p op subj e s) := by
  have he := hE sc e off [] below s σ hc.append_left hpc hr hw
  simp only [selItemTest]
  generalize ProcJ.Ref.eval W.P f e s = r at he ⊢
  obtain ⟨s1, rv⟩ := r
  cases rv with
  | error o => exact he
  | ok v =>
    obtain ⟨τ, st, hp, hav, hrel, hss, _⟩ := he
    have hct : CodeAt W.code (off + sizeExpr e) [(CInstr.copyAToB, p), (CInstr.popA, p), (CInstr.pushA, p),
        (CInstr.bin op, p), (CInstr.jumpIfFalse next, p)] := by
      have := hc.append_right
      rwa [len_expr] at this
    have := sel_cmp_tail W sc below s1 op hop p next (off + sizeExpr e) τ subj v vs hct hp hav
      (by rw [hss.vals]; exact hv) hrel
    exact sel_condPost_of_steps st hss this

/-- one CASE item: `generate_case_expression` -/
theorem sel_caseExpr_correct (W : World) (g : Nat) (ih : IHle W g) (sc : Scope) (below : List CtxState) (p : Pos)
    (next off : Nat) (s : St) (σ : Vm) (subj : Val) (vs : List Val) (c : CaseExpr)
    (hc : CodeAt W.code off (compileCaseExpr W.lay p next off c))
    (hpc : σ.pc = off) (hv : σ.vals = subj :: vs) (hr : Rel W sc [] below s σ) (hw : CaseWf W.sg sc.slots c) :
    CondPost W sc [] below (off + sizeCaseExpr c) next σ (ProcJ.Ref.caseMatches W.P g p subj c s) := by
  cases g with
  | zero => simp only [ProcJ.Ref.caseMatches, CondPost, ErrPost]
  | succ f =>
    have hE : ExprIH W f := (ih f (Nat.le_succ f)).expr
    cases c with
    | simple e =>
      simp only [compileCaseExpr] at hc
      rw [sel_caseMatches_simple]
      exact sel_item_correct W f hE sc below .equal (.inr (.inr (.inl rfl))) p next off s σ subj vs e hc hpc hv hr hw
    | is op e =>
      simp only [compileCaseExpr] at hc
      rw [sel_caseMatches_is]
      exact sel_item_correct W f hE sc below op hw.1 p next off s σ subj vs e hc hpc hv hr hw.2
    | range lo hi =>
      simp only [compileCaseExpr] at hc
      rw [sel_caseMatches_range]
      obtain ⟨hwlo, hwhi⟩ := hw
      have h1 := sel_item_correct W f hE sc below .greaterOrEqual (.inr (.inr (.inr (.inl rfl)))) p next off s σ subj vs lo
        hc.append_left.append_left hpc hv hr hwlo
      generalize selItemTest W.P f p .greaterOrEqual subj lo s = r1 at h1 ⊢
      obtain ⟨s1, rv⟩ := r1
      cases rv with
      | error o => exact h1
      | ok b =>
        cases b with
        | false => exact h1
        | true =>
          obtain ⟨τ, st, hp, hrel, hss⟩ := h1
          have hc2 : CodeAt W.code (off + sizeExpr lo + 5)
              (compileExpr W.lay (off + sizeExpr lo + 5) hi ++ [(CInstr.copyAToB, p), (CInstr.popA, p),
                (CInstr.pushA, p), (CInstr.bin .lessOrEqual, p), (CInstr.jumpIfFalse next, p)]) := by
            have h' : CodeAt W.code off ((compileExpr W.lay off lo ++ [(CInstr.copyAToB, p), (CInstr.popA, p),
                (CInstr.pushA, p), (CInstr.bin .greaterOrEqual, p), (CInstr.jumpIfFalse next, p)]) ++
                (compileExpr W.lay (off + sizeExpr lo + 5) hi ++ [(CInstr.copyAToB, p), (CInstr.popA, p),
                (CInstr.pushA, p), (CInstr.bin .lessOrEqual, p), (CInstr.jumpIfFalse next, p)])) := by
              simpa only [List.append_assoc] using hc
            have := h'.append_right
            simp only [List.length_append, List.length_cons, List.length_nil, len_expr] at this
            exact this.at (by omega)
          have h2 := sel_item_correct W f hE sc below .lessOrEqual (.inr (.inl rfl)) p next _ s1 τ subj vs hi hc2 hp
            (by rw [hss.vals]; exact hv) hrel hwhi
          have := sel_condPost_of_steps st hss h2
          simp only [sizeCaseExpr]
          have e : off + (sizeExpr lo + 5 + sizeExpr hi + 5) = off + sizeExpr lo + 5 + sizeExpr hi + 5 := by omega
          rw [e]
          exact this

/-! ### the item list of a block -/

/-- the item list of one CASE block (`generate_case_expressions`): on a match control arrives at `stmts` (the block's
statements, or the `case-statements` label in front of them), otherwise at `nextCase` -/
theorem sel_conds_correct (W : World) (sc : Scope) (below : List CtxState) (p : Pos) (sfx : String)
    (bi nextCase stmts : Nat) (subj : Val) (vs : List Val) :
    ∀ (conds : List CaseExpr) (g : Nat) (off ei : Nat) (s : St) (σ : Vm), IHle W g → conds ≠ [] →
      CodeAt W.code off (compileConds W.lay p sfx bi nextCase stmts off ei conds) → stmts = off + sizeConds conds →
      σ.pc = off → σ.vals = subj :: vs → Rel W sc [] below s σ → CondsWf W.sg sc.slots conds →
      CondPost W sc [] below stmts nextCase σ (ProcJ.Ref.anyMatches W.P g p subj conds s)
  | [], _, _, _, _, _, _, hne, _, _, _, _, _, _ => absurd rfl hne
  | [c], g, off, ei, s, σ, ih, _, hc, hst, hpc, hv, hr, hw => by
    cases g with
    | zero => simp only [ProcJ.Ref.anyMatches, CondPost, ErrPost]
    | succ f =>
      simp only [compileConds] at hc
      simp only [sizeConds] at hst
      have h := sel_caseExpr_correct W f (ih.mono (Nat.le_succ f)) sc below p nextCase off s σ subj vs c hc hpc hv hr hw.1
      simp only [ProcJ.Ref.anyMatches]
      subst hst
      generalize ProcJ.Ref.caseMatches W.P f p subj c s = r at h ⊢
      obtain ⟨s1, rv⟩ := r
      cases rv with
      | error o => exact h
      | ok b =>
        cases b with
        | true => exact h
        | false =>
          cases f with
          | zero => simp only [ProcJ.Ref.anyMatches, CondPost, ErrPost]
          | succ f' => simp only [ProcJ.Ref.anyMatches]; exact h
  | c :: d :: rest, g, off, ei, s, σ, ih, _, hc, hst, hpc, hv, hr, hw => by
    cases g with
    | zero => simp only [ProcJ.Ref.anyMatches, CondPost, ErrPost]
    | succ f =>
      simp only [compileConds] at hc
      simp only [sizeConds] at hst
      have h := sel_caseExpr_correct W f (ih.mono (Nat.le_succ f)) sc below p (off + sizeCaseExpr c + 1) off s σ subj vs c
        hc.append_left.append_left.append_left hpc hv hr hw.1
      have hjmp : W.code[off + sizeCaseExpr c]? = some (CInstr.jump stmts, p) := by
        have := hc.append_left.append_left.append_right.head
        simp only [len_caseExpr] at this
        exact this
      have hlab : W.code[off + sizeCaseExpr c + 1]? =
          some (CInstr.label (labelName ("case-multi-expr-" ++ toString bi ++ "-" ++ toString (ei + 1)) p sfx), p) := by
        have := hc.append_left.append_right.head
        simp only [List.length_append, List.length_singleton, len_caseExpr] at this
        exact this
      have hrest : CodeAt W.code (off + sizeCaseExpr c + 1 + 1)
          (compileConds W.lay p sfx bi nextCase stmts (off + sizeCaseExpr c + 1 + 1) (ei + 1) (d :: rest)) := by
        have := hc.append_right
        simp only [List.length_append, List.length_singleton, len_caseExpr] at this
        exact this
      simp only [ProcJ.Ref.anyMatches]
      generalize ProcJ.Ref.caseMatches W.P f p subj c s = r at h ⊢
      obtain ⟨s1, rv⟩ := r
      cases rv with
      | error o => exact h
      | ok b =>
        cases b with
        | true =>
          obtain ⟨τ, st, hp, hrel, hss⟩ := h
          have hj' : W.code[τ.pc]? = some (CInstr.jump stmts, p) := by rw [hp]; exact hjmp
          have s1' : Vm.step W.code τ = .next { τ with pc := stmts } := by simp only [Vm.step, hj']
          exact ⟨{ τ with pc := stmts }, st.trans (Steps.one s1'), rfl, hrel.setPc stmts,
            hss.trans ⟨rfl, rfl, rfl, rfl, rfl, rfl, rfl, id⟩⟩
        | false =>
          obtain ⟨τ, st, hp, hrel, hss⟩ := h
          have hl' : W.code[τ.pc]? = some (CInstr.label
              (labelName ("case-multi-expr-" ++ toString bi ++ "-" ++ toString (ei + 1)) p sfx), p) := by
            rw [hp]; exact hlab
          have s1' : Vm.step W.code τ = .next (Vm.advance τ) := by simp only [Vm.step, hl']
          have hss1 : SameStacks σ (Vm.advance τ) := hss.trans ⟨rfl, rfl, rfl, rfl, rfl, rfl, rfl, id⟩
          have hrec := sel_conds_correct W sc below p sfx bi nextCase stmts subj vs (d :: rest) f
            (off + sizeCaseExpr c + 1 + 1) (ei + 1) s1 (Vm.advance τ) (ih.mono (Nat.le_succ f)) (by simp) hrest
            (by omega) (by simp only [Vm.advance, hp]) (by rw [hss1.vals]; exact hv) hrel.advance hw.2
          exact sel_condPost_of_steps (st.trans (Steps.one s1')) hss1 hrec

/-! ### the blocks -/

/-- the address of the statements of a CASE block whose `caseN` label is at `off` -/
@[reducible] def selBodyOff (off : Nat) (conds : List CaseExpr) : Nat :=
  off + 1 + sizeConds conds + (if conds.length > 1 then 1 else 0)

/-- the pieces of the code of one CASE block -/
theorem sel_cases_cons_layout {W : World} {sfx : String} {fd sd : Nat} {p : Pos} {endOff off i : Nat}
    {conds : List CaseExpr} {body : SStmt} {rest : SCases}
    (hc : CodeAt W.code off (compileCases W.lay W.env sfx fd sd p endOff off i (.cons conds body rest))) :
    W.code[off]? = some (CInstr.label (labelName ("case" ++ toString i) p sfx), p) ∧
    CodeAt W.code (off + 1) (compileConds W.lay p sfx i (selBodyOff off conds + sizeStmt W.env.dp fd sd body + 1)
      (off + 1 + sizeConds conds) (off + 1) 0 conds) ∧
    (∀ (sc : Scope) (below : List CtxState) (s' : St) (τ : Vm), τ.pc = off + 1 + sizeConds conds →
      Rel W sc [] below s' τ →
      ∃ τ', Steps W.code τ τ' ∧ τ'.pc = selBodyOff off conds ∧ Rel W sc [] below s' τ' ∧ SameStacks τ τ') ∧
    CodeAt W.code (selBodyOff off conds) (compileStmt W.lay W.env sfx fd sd (selBodyOff off conds) body) ∧
    W.code[selBodyOff off conds + sizeStmt W.env.dp fd sd body]? = some (CInstr.jump endOff, p) ∧
    CodeAt W.code (selBodyOff off conds + sizeStmt W.env.dp fd sd body + 1)
      (compileCases W.lay W.env sfx fd sd p endOff (selBodyOff off conds + sizeStmt W.env.dp fd sd body + 1) (i + 1)
        rest) := by
  simp only [compileCases, decide_eq_true_eq] at hc
  simp only [selBodyOff]
  obtain ⟨m, L, hm, hL, hLlen, hLstep⟩ : ∃ (m : Nat) (L : Code),
      (if conds.length > 1 then 1 else 0) = m ∧
      (if conds.length > 1 then [(CInstr.label (labelName ("case-statements" ++ toString i) p sfx), p)]
        else []) = L ∧
      L.length = m ∧
      (∀ q, CodeAt W.code q L → ∀ (sc : Scope) (below : List CtxState) (s' : St) (τ : Vm), τ.pc = q →
        Rel W sc [] below s' τ →
        ∃ τ', Steps W.code τ τ' ∧ τ'.pc = q + m ∧ Rel W sc [] below s' τ' ∧ SameStacks τ τ') := by
    by_cases hmul : conds.length > 1
    · refine ⟨1, [(CInstr.label (labelName ("case-statements" ++ toString i) p sfx), p)], by simp [hmul],
        by simp [hmul], rfl, ?_⟩
      intro q hq sc below s' τ hτ hrτ
      have h0 : W.code[τ.pc]? = some (CInstr.label (labelName ("case-statements" ++ toString i) p sfx), p) := by
        rw [hτ]; exact hq.head
      exact ⟨Vm.advance τ, Steps.one (by simp only [Vm.step, h0]), by simp only [Vm.advance, hτ], hrτ.advance,
        ⟨rfl, rfl, rfl, rfl, rfl, rfl, rfl, id⟩⟩
    · refine ⟨0, [], by simp [hmul], by simp [hmul], rfl, ?_⟩
      intro q _ sc below s' τ hτ hrτ
      exact ⟨τ, Steps.refl τ, by omega, hrτ, SameStacks.refl τ⟩
  simp only [hm, hL] at hc ⊢
  clear hm hL
  have hlab : W.code[off]? = some (CInstr.label (labelName ("case" ++ toString i) p sfx), p) :=
    hc.append_left.append_left.append_left.append_left.append_left.head
  have hcc : CodeAt W.code (off + 1) (compileConds W.lay p sfx i
      (off + 1 + sizeConds conds + m + sizeStmt W.env.dp fd sd body + 1) (off + 1 + sizeConds conds) (off + 1) 0 conds) := by
    have := hc.append_left.append_left.append_left.append_left.append_right
    simpa only [List.length_singleton] using this
  have hcL : CodeAt W.code (off + 1 + sizeConds conds) L := by
    have := hc.append_left.append_left.append_left.append_right
    simp only [List.length_append, List.length_singleton, len_conds] at this
    exact this.at (by omega)
  have hcb : CodeAt W.code (off + 1 + sizeConds conds + m)
      (compileStmt W.lay W.env sfx fd sd (off + 1 + sizeConds conds + m) body) := by
    have := hc.append_left.append_left.append_right
    simp only [List.length_append, List.length_singleton, len_conds, hLlen] at this
    exact this.at (by omega)
  have hj : W.code[off + 1 + sizeConds conds + m + sizeStmt W.env.dp fd sd body]? = some (CInstr.jump endOff, p) := by
    have := hc.append_left.append_right.head
    simp only [List.length_append, List.length_singleton, len_conds, len_stmt, hLlen] at this
    rw [← this]; congr 1; omega
  have hcr : CodeAt W.code (off + 1 + sizeConds conds + m + sizeStmt W.env.dp fd sd body + 1)
      (compileCases W.lay W.env sfx fd sd p endOff (off + 1 + sizeConds conds + m + sizeStmt W.env.dp fd sd body + 1)
        (i + 1) rest) := by
    have := hc.append_right
    simp only [List.length_append, List.length_singleton, len_conds, len_stmt, hLlen] at this
    exact this.at (by omega)
  exact ⟨hlab, hcc, fun sc below s' τ hτ hrτ => hLstep _ hcL sc below s' τ hτ hrτ, hcb, hj, hcr⟩

/-- run mode, the CASE blocks: running from the label of block `i` does what `execCases` prescribes and, on a normal end,
arrives at `endOff`; `htail` says what happens once all blocks have been tried and control is at `elseOff`.  `sd` is the
depth of the blocks (the SELECT counted); the selector is on top of the value stack. -/
theorem sel_cases_correct (W : World) (B : BodyCtx) (hB : B.Ok W) (fuel : Nat) (ih : IHle W fuel) (below : List CtxState)
    (sfx : String) (p : Pos) (fd sd : Nat) (endOff elseOff : Nat) (subj : Val) (vs : List Val) (tail : Cases)
    (htail : ∀ f, f ≤ fuel → ∀ (s : St) (σ : Vm), σ.pc = elseOff → Rel W B.sc [] below s σ → σ.vals = subj :: vs →
      ActInv B.sc fd sd σ → StmtPost W B.sc below fd sd endOff σ (ProcJ.Ref.execCases W.P f B.act p subj tail s)) :
    ∀ (cs : SCases) (f : Nat), f ≤ fuel → ∀ (off i : Nat) (s : St) (σ : Vm),
      CodeAt W.code off (compileCases W.lay W.env sfx fd sd p endOff off i cs) →
      off + sizeCases W.env.dp fd sd cs = elseOff → LabAtCases W.env fd sd off cs →
      WfCases W.sg B.sc W.env.dp B.body.labels fd sd cs →
      σ.pc = off → Rel W B.sc [] below s σ → σ.vals = subj :: vs → ActInv B.sc fd sd σ →
      StmtPost W B.sc below fd sd endOff σ (ProcJ.Ref.execCases W.P f B.act p subj (desugarCases cs tail) s)
  | .nil, f, hf, off, i, s, σ, hc, hsz, hl, hw, hpc, hr, hv, ha => by
    simp only [desugarCases]
    simp only [sizeCases] at hsz
    exact htail f hf s σ (by omega) hr hv ha
  | .cons conds body rest, f, hf, off, i, s, σ, hc, hsz, hl, hw, hpc, hr, hv, ha => by
    cases f with
    | zero => simp only [desugarCases, ProcJ.Ref.execCases, StmtPost]
    | succ f' =>
      simp only [desugarCases, ProcJ.Ref.execCases]
      obtain ⟨hlab, hcc, hLstep, hcb, hj, hcr⟩ := sel_cases_cons_layout hc
      obtain ⟨hne, hcs, hwb, hwr⟩ := hw
      obtain ⟨hlb, hlr⟩ := hl.cons
      simp only [sizeCases] at hsz
      subst hpc
      have s1 : Vm.step W.code σ = .next (Vm.advance σ) := by simp only [Vm.step, hlab]
      have hss0 : SameStacks σ (Vm.advance σ) := ⟨rfl, rfl, rfl, rfl, rfl, rfl, rfl, id⟩
      have hconds := sel_conds_correct W B.sc below p sfx i (selBodyOff σ.pc conds + sizeStmt W.env.dp fd sd body + 1)
        (σ.pc + 1 + sizeConds conds) subj vs conds f' (σ.pc + 1) 0 s (Vm.advance σ) (ih.mono (by omega)) hne hcc rfl rfl
        hv hr.advance hcs
      generalize ProcJ.Ref.anyMatches W.P f' p subj conds s = r at hconds ⊢
      obtain ⟨s1', rv⟩ := r
      cases rv with
      | error o => exact StmtPost.of_err (ErrPost.of_steps (Steps.one s1) hconds)
      | ok b =>
        cases b with
        | true =>
          obtain ⟨τ, st, hp, hrel, hss⟩ := hconds
          obtain ⟨τ', st2, hp', hrel', hss'⟩ := hLstep B.sc below s1' τ hp hrel
          have hss3 : SameStacks σ τ' := (hss0.trans hss).trans hss'
          have hb := (ih f' (by omega)).stmt B body sfx fd sd _ .run below s1' τ' hB hcb hlb hwb hp' hrel'
            (ha.of_same hss3)
          exact StmtPost.of_steps ((Steps.cons s1 st).trans st2) hss3 (hb.sel_then_jump hj)
        | false =>
          obtain ⟨τ, st, hp, hrel, hss⟩ := hconds
          have hss3 : SameStacks σ τ := hss0.trans hss
          have hrec := sel_cases_correct W B hB fuel ih below sfx p fd sd endOff elseOff subj vs tail htail rest f'
            (by omega) _ (i + 1) s1' τ hcr (by simp only [selBodyOff] at hsz ⊢; omega) hlr hwr hp hrel
            (by rw [hss3.vals]; exact hv) (ha.of_same hss3)
          exact StmtPost.of_steps (Steps.cons s1 st) hss3 hrec

/-- seek mode, the CASE blocks: the VM is at the label `L`, which is inside one of the blocks (or in the CASE ELSE part:
`htail`); no test runs, the block is entered at the label and, on a normal end, control arrives at `endOff` -/
theorem sel_seek_cases_correct (W : World) (B : BodyCtx) (hB : B.Ok W) (fuel : Nat) (ih : IHle W fuel)
    (below : List CtxState) (sfx : String) (p : Pos) (fd sd : Nat) (endOff : Nat) (tail : Cases) (tl : List Nat)
    (htail : ∀ f, f ≤ fuel → ∀ (L : Nat) (σ : Vm) (s : St), L ∈ tl → σ.pc = W.env.addr L → Rel W B.sc [] below s σ →
      ActInv B.sc fd sd σ → StmtPost W B.sc below fd sd endOff σ (ProcJ.Ref.seekCases W.P f B.act tail L s)) :
    ∀ (cs : SCases) (f : Nat), f ≤ fuel → ∀ (off i : Nat) (L : Nat) (σ : Vm) (s : St),
      CodeAt W.code off (compileCases W.lay W.env sfx fd sd p endOff off i cs) →
      LabAtCases W.env fd sd off cs → WfCases W.sg B.sc W.env.dp B.body.labels fd sd cs →
      L ∈ cs.labels ++ tl → σ.pc = W.env.addr L → Rel W B.sc [] below s σ → ActInv B.sc fd sd σ →
      StmtPost W B.sc below fd sd endOff σ (ProcJ.Ref.seekCases W.P f B.act (desugarCases cs tail) L s)
  | .nil, f, hf, off, i, L, σ, s, hc, hl, hw, hL, hpc, hr, ha => by
    simp only [desugarCases]
    simp only [SCases.labels, List.nil_append] at hL
    exact htail f hf L σ s hL hpc hr ha
  | .cons conds body rest, f, hf, off, i, L, σ, s, hc, hl, hw, hL, hpc, hr, ha => by
    cases f with
    | zero => simp only [desugarCases, ProcJ.Ref.seekCases, StmtPost]
    | succ f' =>
      simp only [desugarCases, ProcJ.Ref.seekCases]
      obtain ⟨_, _, _, hcb, hj, hcr⟩ := sel_cases_cons_layout hc
      obtain ⟨hne, hcs, hwb, hwr⟩ := hw
      obtain ⟨hlb, hlr⟩ := hl.cons
      by_cases hLb : (desugar body).hasLabel L = true
      · simp only [hLb, if_true]
        have hb := (ih f' (by omega)).stmt B body sfx fd sd _ (.seek L) below s σ hB hcb hlb hwb
          ⟨(hasLabel_iff hwb L).mp hLb, hpc⟩ hr ha
        exact hb.sel_then_jump hj
      · simp only [hLb]
        have hL' : L ∈ rest.labels ++ tl := by
          simp only [SCases.labels, List.mem_append] at hL ⊢
          rcases hL with (h | h) | h
          · exact absurd ((hasLabel_iff hwb L).mpr h) hLb
          · exact .inl h
          · exact .inr h
        exact sel_seek_cases_correct W B hB fuel ih below sfx p fd sd endOff tail tl htail rest f' (by omega) _ (i + 1)
          L σ s hcr hlr hwr hL' hpc hr ha

/-- **the jump-handling rule of a SELECT**: a jump that came out of a block to a label in a block of the same SELECT has
arrived at the label with the stacks of the entry state (the selector still on the value stack): the blocks are re-entered
in seek mode -/
theorem sel_catch {W : World} {B : BodyCtx} {below : List CtxState} {fd sd endOff : Nat} {cs' : Cases} {labs : List Nat}
    {f : Nat}
    (hlabs : ∀ L, cs'.hasLabel L = true → L ∈ labs)
    (hdepth : ∀ L, L ∈ labs → fd ≤ W.env.dp.fd L ∧ sd ≤ W.env.dp.sd L)
    (hseek : ∀ (L : Nat) (σ : Vm) (s : St), L ∈ labs → σ.pc = W.env.addr L → Rel W B.sc [] below s σ →
      ActInv B.sc fd sd σ → StmtPost W B.sc below fd sd endOff σ (ProcJ.Ref.selectSeek W.P f B.act cs' L s))
    {σ : Vm} (r1 : St × Outcome) (h1 : StmtPost W B.sc below fd sd endOff σ r1) (ha : ActInv B.sc fd sd σ) :
    StmtPost W B.sc below fd sd endOff σ
      (match (generalizing := false) r1 with
       | (s', .jump L) => if cs'.hasLabel L = true then ProcJ.Ref.selectSeek W.P f B.act cs' L s' else (s', .jump L)
       | r => r) := by
  obtain ⟨s1, o1⟩ := r1
  cases o1 with
  | jump L =>
    simp only
    by_cases hL : cs'.hasLabel L = true
    · simp only [hL, if_true]
      obtain ⟨g1, g2⟩ := hdepth L (hlabs L hL)
      obtain ⟨τ, st, hp, hr, e1, e2, e3, e4, e5, e6, e7, e8⟩ := h1
      have hd0 : fd - W.env.dp.fd L = 0 := by omega
      have he0 : sd - W.env.dp.sd L = 0 := by omega
      rw [hd0] at e1; rw [he0] at e2
      have hss : SameStacks σ τ := ⟨by simpa using e2, e3, by simpa using e1, e5, e6, e4, e7, e8⟩
      have := hseek L τ s1 (hlabs L hL) hp hr (ha.of_same hss)
      exact StmtPost.of_steps st hss this
    · simp only [hL]
      exact h1
  | normal => exact h1
  | exited => exact h1
  | halted => exact h1
  | ret q => exact h1
  | error c q => exact h1
  | inexact => trivial
  | outOfFuel => trivial
  | illFormed => trivial
  | notHere => trivial

/-- `selectSeek`: the block that contains the label is entered, jumps between the blocks are followed -/
theorem sel_seek_correct {W : World} {B : BodyCtx} {below : List CtxState} {fuel : Nat} {fd sd endOff : Nat} {cs' : Cases}
    {labs : List Nat}
    (hlabs : ∀ L, cs'.hasLabel L = true → L ∈ labs)
    (hdepth : ∀ L, L ∈ labs → fd ≤ W.env.dp.fd L ∧ sd ≤ W.env.dp.sd L)
    (hseekc : ∀ f, f ≤ fuel → ∀ (L : Nat) (σ : Vm) (s : St), L ∈ labs → σ.pc = W.env.addr L → Rel W B.sc [] below s σ →
      ActInv B.sc fd sd σ → StmtPost W B.sc below fd sd endOff σ (ProcJ.Ref.seekCases W.P f B.act cs' L s)) :
    ∀ f, f ≤ fuel → ∀ (L : Nat) (σ : Vm) (s : St), L ∈ labs → σ.pc = W.env.addr L → Rel W B.sc [] below s σ →
      ActInv B.sc fd sd σ → StmtPost W B.sc below fd sd endOff σ (ProcJ.Ref.selectSeek W.P f B.act cs' L s) := by
  intro f
  induction f with
  | zero =>
    intro _ L σ s _ _ _ _
    simp only [ProcJ.Ref.selectSeek, StmtPost]
  | succ f ihf =>
    intro hf L σ s hL hpc hr ha
    simp only [ProcJ.Ref.selectSeek]
    have h1 := hseekc f (by omega) L σ s hL hpc hr ha
    exact sel_catch hlabs hdepth (ihf (by omega)) _ h1 ha

/-- leaving the SELECT: the result of the blocks (relative to the state `σ4` that carries the selector on the value stack)
as a result of the whole statement (relative to the entry state `σ`) -/
theorem sel_exit {W : World} {sc : Scope} {below : List CtxState} {fd sd fin endOff : Nat} {p : Pos} {n1 n2 : String}
    {σ σ4 : Vm} {subj : Val} (hinv : ActInv sc fd sd σ)
    (pre : Steps W.code σ σ4) (hv : σ4.vals = subj :: σ.vals) (hrs : σ4.regStack = σ.regStack)
    (hpa : σ4.paths = σ.paths) (hgs : σ4.gosubs = σ.gosubs) (hrt : σ4.rets = σ.rets) (hmk : σ4.marks = σ.marks)
    (htr : σ4.trace = σ.trace) (hsk : σ.skipNewline = false → σ4.skipNewline = false)
    (hend : CodeAt W.code endOff [(CInstr.label n1, p), (CInstr.popA, p), (CInstr.label n2, p)])
    (hfin : fin = endOff + 3)
    (r : St × Outcome) (h : StmtPost W sc below fd (sd + 1) endOff σ4 r)
    (hdep : ∀ s' L, r = (s', .jump L) → W.env.dp.sd L ≤ sd) :
    StmtPost W sc below fd sd fin σ r := by
  obtain ⟨s', o⟩ := r
  cases o with
  | normal =>
    obtain ⟨τ, st3, hp3, hrel3, hss3⟩ := h
    have hl0 : W.code[τ.pc]? = some (CInstr.label n1, p) := by rw [hp3]; exact hend.head
    let τ0 : Vm := Vm.advance τ
    have s4 : Vm.step W.code τ = .next τ0 := by simp only [Vm.step, hl0]; rfl
    have hv3 : τ0.vals = subj :: σ.vals := by show τ.vals = _; rw [hss3.vals, hv]
    have hpop' : W.code[τ0.pc]? = some (CInstr.popA, p) := by
      show W.code[τ.pc + 1]? = _; rw [hp3]; exact hend.tail.head
    let τ1 : Vm := Vm.advance { Vm.setA τ0 subj with vals := σ.vals }
    have s5 : Vm.step W.code τ0 = .next τ1 := by simp only [Vm.step, hpop', hv3]; rfl
    have hskip' : W.code[τ1.pc]? = some (CInstr.label n2, p) := by
      show W.code[τ.pc + 1 + 1]? = _; rw [hp3]; exact hend.tail.tail.head
    have s6 : Vm.step W.code τ1 = .next (Vm.advance τ1) := by simp only [Vm.step, hskip']
    refine ⟨Vm.advance τ1, (pre.trans st3).trans (Steps.cons s4 (Steps.cons s5 (Steps.one s6))), ?_, ?_, ?_⟩
    · show τ.pc + 1 + 1 + 1 = fin; rw [hp3, hfin]
    · exact hrel3.same rfl rfl rfl rfl rfl rfl
    · exact ⟨rfl, by show τ.paths = _; rw [hss3.paths, hpa], by show τ.regStack = _; rw [hss3.regStack, hrs],
        by show τ.rets = _; rw [hss3.rets, hrt], by show τ.marks = _; rw [hss3.marks, hmk],
        by show τ.gosubs = _; rw [hss3.gosubs, hgs], by show τ.trace = _; rw [hss3.trace, htr],
        fun hh => hss3.skip (hsk hh)⟩
  | exited =>
    obtain ⟨τ, st, hx, hrel⟩ := h
    refine ⟨τ, pre.trans st, ?_, hrel⟩
    refine hx.mono hrt hmk (fun n hn => by rw [hrs]) (fun n hn => ?_) (fun n hn => by rw [hgs]) hpa htr hsk
    rw [hv]
    cases hip : sc.inProc with
    | false =>
      rw [(hinv.main hip).1] at hn
      simp at hn
      subst hn
      simp [truncTop]
    | true =>
      obtain ⟨a, rets, mk, marks, h1, h2, h3, h4, h5, h6, h7⟩ := hinv.act hip
      simp only [h2, List.head?_cons, Option.map_some, Option.getD_some] at hn
      exact truncTop_cons _ _ _ (by omega)
  | jump L =>
    obtain ⟨τ, st, hp, hrel, h1, h2, h3, h4, h5, h6, h7, h8⟩ := h
    have hsd := hdep s' L rfl
    refine ⟨τ, pre.trans st, hp, hrel, by rw [h1, hrs], ?_, by rw [h3, hpa], by rw [h4, hgs], by rw [h5, hrt],
      by rw [h6, hmk], by rw [h7, htr], fun hh => h8 (hsk hh)⟩
    rw [h2, hv]
    have e1 : sd + 1 - W.env.dp.sd L = (sd - W.env.dp.sd L) + 1 := by omega
    rw [e1, List.drop_succ_cons]
  | ret q =>
    obtain ⟨τ, st, hp, hrel, ⟨X, hX⟩, ⟨Y, hY⟩, h3, h4, h5, h6, h7, h8⟩ := h
    exact ⟨τ, pre.trans st, hp, hrel, ⟨X, by rw [hX, hrs]⟩, ⟨Y, by rw [hY, hv, List.drop_succ_cons]⟩, by rw [h3, hpa],
      by rw [h4, hgs], by rw [h5, hrt], by rw [h6, hmk], by rw [h7, htr], fun hh => h8 (hsk hh)⟩
  | halted => exact HaltsWith.of_steps pre h
  | error c q => exact ErrsWith.of_steps pre h
  | inexact => trivial
  | outOfFuel => trivial
  | illFormed => trivial
  | notHere => trivial

/-- the optional CASE ELSE part, abstractly: its size `k`, what it desugars to (`T`), its code (`E`), and what running it /
entering it at a label does -/
theorem sel_tail (W : World) (B : BodyCtx) (hB : B.Ok W) (fuel : Nat) (ih : IHle W fuel) (below : List CtxState)
    (hasElse : Bool) (els : SStmt) (p : Pos) (sfx : String) (fd sd elseOff : Nat)
    (hwe : Wf W.sg B.sc W.env.dp B.body.labels fd sd els) (hne : hasElse = false → els = .skip)
    (hle : hasElse = true → LabAt W.env fd sd (elseOff + 1) els) :
    ∃ (k : Nat) (T : Cases) (E : Code),
      (if hasElse = true then 1 + sizeStmt W.env.dp fd sd els else 0) = k ∧
      (if hasElse = true then Cases.else_ (desugar els) else Cases.nil) = T ∧
      (if hasElse = true then [(CInstr.label (labelName "case-else" p sfx), p)] ++
        compileStmt W.lay W.env sfx fd sd (elseOff + 1) els else []) = E ∧
      E.length = k ∧ T.labels = els.labels ∧
      (∀ L, L ∈ els.labels → fd ≤ W.env.dp.fd L ∧ sd ≤ W.env.dp.sd L) ∧
      (CodeAt W.code elseOff E → ∀ f, f ≤ fuel → ∀ (pp : Pos) (subj : Val) (τ : Vm) (s : St), τ.pc = elseOff →
        Rel W B.sc [] below s τ → ActInv B.sc fd sd τ →
        StmtPost W B.sc below fd sd (elseOff + k) τ (ProcJ.Ref.execCases W.P f B.act pp subj T s)) ∧
      (CodeAt W.code elseOff E → ∀ f, f ≤ fuel → ∀ (L : Nat) (τ : Vm) (s : St), L ∈ els.labels →
        τ.pc = W.env.addr L → Rel W B.sc [] below s τ → ActInv B.sc fd sd τ →
        StmtPost W B.sc below fd sd (elseOff + k) τ (ProcJ.Ref.seekCases W.P f B.act T L s)) := by
  cases hasElse with
  | false =>
    have hsk := hne rfl
    subst hsk
    refine ⟨0, Cases.nil, [], by simp, by simp, by simp, rfl, rfl, ?_, ?_, ?_⟩
    · intro L hL; simp [SStmt.labels] at hL
    · intro _ f hf pp subj τ s hτ hrτ _
      cases f with
      | zero => simp only [ProcJ.Ref.execCases, StmtPost]
      | succ f' =>
        simp only [ProcJ.Ref.execCases, StmtPost]
        exact ⟨τ, Steps.refl τ, by omega, hrτ, SameStacks.refl τ⟩
    · intro _ f hf L τ s hL
      simp [SStmt.labels] at hL
  | true =>
    have hl := hle rfl
    refine ⟨1 + sizeStmt W.env.dp fd sd els, Cases.else_ (desugar els),
      [(CInstr.label (labelName "case-else" p sfx), p)] ++ compileStmt W.lay W.env sfx fd sd (elseOff + 1) els,
      by simp, by simp, by simp, by simp [len_stmt]; omega, ?_, ?_, ?_, ?_⟩
    · simp only [Cases.labels]; exact labels_desugar W.sg B.sc W.env.dp B.body.labels els fd sd hwe
    · intro L hL; exact hl.depth_ge hL
    · intro hcE f hf pp subj τ s hτ hrτ haτ
      cases f with
      | zero => simp only [ProcJ.Ref.execCases, StmtPost]
      | succ f' =>
        simp only [ProcJ.Ref.execCases]
        have hl0 : W.code[τ.pc]? = some (CInstr.label (labelName "case-else" p sfx), p) := by
          rw [hτ]; exact hcE.append_left.head
        have s1 : Vm.step W.code τ = .next (Vm.advance τ) := by simp only [Vm.step, hl0]
        have hss1 : SameStacks τ (Vm.advance τ) := ⟨rfl, rfl, rfl, rfl, rfl, rfl, rfl, id⟩
        have hcb : CodeAt W.code (elseOff + 1) (compileStmt W.lay W.env sfx fd sd (elseOff + 1) els) := by
          have := hcE.append_right
          simpa only [List.length_singleton] using this
        have hb := (ih f' (by omega)).stmt B els sfx fd sd _ .run below s (Vm.advance τ) hB hcb hl hwe
          (by simp only [Entry, Vm.advance, hτ]) hrτ.advance (haτ.of_same hss1)
        exact StmtPost.of_steps (Steps.one s1) hss1 (hb.addr (by omega))
    · intro hcE f hf L τ s hL hτ hrτ haτ
      cases f with
      | zero => simp only [ProcJ.Ref.seekCases, StmtPost]
      | succ f' =>
        simp only [ProcJ.Ref.seekCases]
        have hcb : CodeAt W.code (elseOff + 1) (compileStmt W.lay W.env sfx fd sd (elseOff + 1) els) := by
          have := hcE.append_right
          simpa only [List.length_singleton] using this
        have hb := (ih f' (by omega)).stmt B els sfx fd sd _ (.seek L) below s τ hB hcb hl hwe ⟨hL, hτ⟩ hrτ haτ
        exact hb.addr (by omega)

/-! ### the statement -/

theorem case_select (W : World) (B : BodyCtx) (hB : B.Ok W) (fuel : Nat) (ih : IHle W fuel) (hjd : JumpDepths W)
    (sel : Expr) (cases : SCases) (hasElse : Bool) (els : SStmt) (p : Pos) (sfx : String) (fd sd off : Nat) (m : Mode)
    (below : List CtxState) (s : St) (σ : Vm)
    (hc : CodeAt W.code off (compileStmt W.lay W.env sfx fd sd off (.select sel cases hasElse els p)))
    (hl : LabAt W.env fd sd off (.select sel cases hasElse els p))
    (hw : Wf W.sg B.sc W.env.dp B.body.labels fd sd (.select sel cases hasElse els p))
    (hen : Entry W.env off (.select sel cases hasElse els p) m σ) (hr : Rel W B.sc [] below s σ)
    (hinv : ActInv B.sc fd sd σ) :
    StmtPost W B.sc below fd sd (off + sizeStmt W.env.dp fd sd (.select sel cases hasElse els p)) σ
      (ProcJ.Ref.exec W.P (fuel + 1) B.act (desugar (.select sel cases hasElse els p)) m s) := by
  cases m with
  | seek L =>
    -- a SELECT is not entered from outside in seek mode
    simp only [desugar, ProcJ.Ref.exec]
    generalize Cases.hasLabel _ L = bb
    cases bb
    · simp only [Bool.false_eq_true, if_false, StmtPost]
    · simp only [if_true, StmtPost]
  | run =>
    have hpc : σ.pc = off := hen
    -- a jump that leaves the SELECT names a label that is not deeper than the SELECT
    have hdepOut : ∀ s' L,
        ProcJ.Ref.exec W.P (fuel + 1) B.act (desugar (.select sel cases hasElse els p)) .run s = (s', .jump L) →
        W.env.dp.sd L ≤ sd := fun s' L h => (hjd B.sc B.body.labels _ fd sd hw (fuel + 1) B.act .run s s' L h).2.2
    simp only [compileStmt] at hc
    obtain ⟨hlc, hle⟩ := hl.select
    obtain ⟨hse, hwc, hwe, hnoelse, _⟩ := hw
    have he := ih.self.expr B.sc sel off [] below s σ hc.append_left.append_left.append_left.append_left.append_left hpc hr
      hse
    simp only [desugar, ProcJ.Ref.exec, sizeStmt] at hdepOut ⊢
    generalize ProcJ.Ref.eval W.P fuel sel s = r0 at he hdepOut ⊢
    obtain ⟨s1, rv⟩ := r0
    cases rv with
    | error o => exact StmtPost.of_err he
    | ok subj =>
      obtain ⟨τ, st, hp, hav, hrel, hss, _⟩ := he
      dsimp only at hdepOut ⊢
      subst hav
      obtain ⟨k, T, E, hk, hT, hE, hElen, hTlab, hdepE, htailRun, htailSeek⟩ :=
        sel_tail W B hB fuel ih below hasElse els p sfx fd (sd + 1)
          (off + sizeExpr sel + 1 + 3 + sizeCases W.env.dp fd (sd + 1) cases) hwe hnoelse hle
      simp only [hk, hT, hE] at hc hdepOut ⊢
      clear hk hT hE
      have hpush : W.code[off + sizeExpr sel]? = some (CInstr.pushA, p) := by
        have := hc.append_left.append_left.append_left.append_left.append_right.head
        rwa [len_expr] at this
      have hjb : W.code[off + sizeExpr sel + 1]? = some (CInstr.jump (off + sizeExpr sel + 1 + 3 - 1), p) := by
        have := hc.append_left.append_left.append_left.append_right.head
        simp only [List.length_append, List.length_singleton, len_expr] at this
        rw [← this]; congr 1
      have hlb : W.code[off + sizeExpr sel + 1 + 3 - 1]? = some (CInstr.label (labelName "select-begin" p sfx), p) := by
        have := hc.append_left.append_left.append_left.append_right.tail.tail.head
        simp only [List.length_append, List.length_singleton, len_expr] at this
        rw [← this]; congr 1
      have hcc : CodeAt W.code (off + sizeExpr sel + 1 + 3)
          (compileCases W.lay W.env sfx fd (sd + 1) p
            (off + sizeExpr sel + 1 + 3 + sizeCases W.env.dp fd (sd + 1) cases + k) (off + sizeExpr sel + 1 + 3) 0 cases) := by
        have := hc.append_left.append_left.append_right
        simp only [List.length_append, List.length_singleton, List.length_cons, List.length_nil, len_expr] at this
        exact this.at (by omega)
      have hcE : CodeAt W.code (off + sizeExpr sel + 1 + 3 + sizeCases W.env.dp fd (sd + 1) cases) E := by
        have := hc.append_left.append_right
        simp only [List.length_append, List.length_singleton, List.length_cons, List.length_nil, len_expr, len_cases]
          at this
        exact this.at (by omega)
      have hend : CodeAt W.code (off + sizeExpr sel + 1 + 3 + sizeCases W.env.dp fd (sd + 1) cases + k)
          [(CInstr.label (labelName "end-select" p sfx), p), (CInstr.popA, p),
            (CInstr.label (labelName "select-skip" p sfx), p)] := by
        have := hc.append_right
        simp only [List.length_append, List.length_singleton, List.length_cons, List.length_nil, len_expr, len_cases,
          hElen] at this
        exact this.at (by omega)
      -- push the subject, jump to the `select-begin` label, step over it
      let σ2 : Vm := Vm.advance { τ with vals := τ.regs.a :: τ.vals }
      let σ3 : Vm := { σ2 with pc := off + sizeExpr sel + 1 + 3 - 1 }
      let σ4 : Vm := Vm.advance σ3
      have s2 : Vm.step W.code τ = .next σ2 := by
        have h : W.code[τ.pc]? = some (CInstr.pushA, p) := by rw [hp]; exact hpush
        simp only [Vm.step, h] <;> rfl
      have s3 : Vm.step W.code σ2 = .next σ3 := by
        have h : W.code[σ2.pc]? = some (CInstr.jump (off + sizeExpr sel + 1 + 3 - 1), p) := by
          have : σ2.pc = off + sizeExpr sel + 1 := by simp only [σ2, Vm.advance, hp]
          rw [this]; exact hjb
        simp only [Vm.step, h] <;> rfl
      have s4 : Vm.step W.code σ3 = .next σ4 := by
        have h : W.code[σ3.pc]? = some (CInstr.label (labelName "select-begin" p sfx), p) := hlb
        simp only [Vm.step, h] <;> rfl
      have hr4 : Rel W B.sc [] below s1 σ4 := hrel.same rfl rfl rfl rfl rfl rfl
      have hv4 : σ4.vals = τ.regs.a :: σ.vals := by
        show τ.regs.a :: τ.vals = τ.regs.a :: σ.vals
        rw [hss.vals]
      have ha4 : ActInv B.sc fd (sd + 1) σ4 :=
        hinv.enterSelect τ.regs.a hv4 hss.regStack hss.paths hss.rets hss.marks hss.gosubs hss.skip
      have pre : Steps W.code σ σ4 := st.trans (Steps.cons s2 (Steps.cons s3 (Steps.one s4)))
      -- the labels of the blocks
      have hlabs : ∀ L, (desugarCases cases T).hasLabel L = true → L ∈ cases.labels ++ els.labels := by
        intro L hL
        simp only [Cases.hasLabel, labels_desugarCases W.sg B.sc W.env.dp B.body.labels cases fd (sd + 1) hwc T, hTlab]
          at hL
        simpa using hL
      have hdepth : ∀ L, L ∈ cases.labels ++ els.labels → fd ≤ W.env.dp.fd L ∧ sd + 1 ≤ W.env.dp.sd L := by
        intro L hL
        rcases List.mem_append.mp hL with h | h
        · exact hlc.depth_ge h
        · exact hdepE L h
      -- the blocks entered at a label
      have hseekc := sel_seek_cases_correct W B hB fuel ih below sfx p fd (sd + 1)
        (off + sizeExpr sel + 1 + 3 + sizeCases W.env.dp fd (sd + 1) cases + k) T els.labels (htailSeek hcE)
      have hseek := sel_seek_correct (cs' := desugarCases cases T) hlabs hdepth
        (fun f hf L υ s' hL hp' hr' ha' => hseekc cases f hf _ 0 L υ s' hcc hlc hwc hL hp' hr' ha')
      -- the blocks from the first test
      have hcases := sel_cases_correct W B hB fuel ih below sfx p fd (sd + 1)
        (off + sizeExpr sel + 1 + 3 + sizeCases W.env.dp fd (sd + 1) cases + k)
        (off + sizeExpr sel + 1 + 3 + sizeCases W.env.dp fd (sd + 1) cases) τ.regs.a σ.vals T
        (fun f hf s' υ hp' hr' hv' ha' => htailRun hcE f hf p τ.regs.a υ s' hp' hr' ha')
        cases fuel (Nat.le_refl _) (off + sizeExpr sel + 1 + 3) 0 s1 σ4 hcc rfl hlc hwc
        (by simp only [σ4, σ3, Vm.advance]; omega) hr4 hv4 ha4
      have hinner := sel_catch hlabs hdepth (hseek fuel (Nat.le_refl _)) _ hcases ha4
      exact sel_exit hinv pre hv4 hss.regStack hss.paths hss.gosubs hss.rets hss.marks hss.trace hss.skip hend
        (by omega) _ hinner hdepOut

end RbThm.ProcJSim
