import Thm.ProcJSimBase
/-!
Layer "procedures ∪ jumps", simulation part — the simple statement cases that define no label (so seek mode cannot enter them:
`Entry.of_nolabels`): skip, comment, assignment, DIM, guarded DIM of a STATIC procedure, END, and a SUB call (from the call
hypothesis `CallIH`).  Ported from `Thm/ProcSimStmt.lean`.
-/
namespace RbThm.ProcJSim
set_option linter.unusedVariables false
set_option linter.unusedSimpArgs false
open RbModel RbModel.ProcJ RbModel.ProcJ.Compile RbModel.ProcJ.Vm
open RbModel.Num hiding Expr
open RbModel.Ast (Pos)
open RbModel.Proc (Var SlotTabs Expr Args PrintItem CaseExpr ProcDecl zeroOf Sigs sigsOf)
open RbModel.Proc.Compile (Layout Layout.addr sizeExpr sizePush refCount sizeExprTo sizeSubCall sizeItems sizeCaseExpr sizeConds
  sizeExit labelName stepSuffix maxPos)
open RbModel.Proc.Vm (Regs Regs.new Frame CtxState getVar setVar curVars modCur curStatic applyArgs readVars binInstr)
open RbModel.ProcJ.Ref (Outcome Mode Act)
open RbThm.ProcJLen
open RbThm.ProcSim (Scope)


theorem case_skip (W : World) (B : BodyCtx) (fuel : Nat) (sfx : String) (fd sd off : Nat) (m : Mode)
    (below : List CtxState) (s : St) (σ : Vm)
    (hen : Entry W.env off .skip m σ) (hr : Rel W B.sc [] below s σ) :
    StmtPost W B.sc below fd sd (off + sizeStmt W.env.dp fd sd .skip) σ
      (ProcJ.Ref.exec W.P (fuel + 1) B.act (desugar .skip) m s) := by
  obtain ⟨rfl, hpc⟩ := hen.of_nolabels rfl
  simp only [desugar, ProcJ.Ref.exec, sizeStmt, StmtPost]
  exact ⟨σ, Steps.refl σ, by rw [hpc]; rfl, hr, SameStacks.refl σ⟩

theorem case_comment (W : World) (B : BodyCtx) (fuel : Nat) (sfx : String) (fd sd off : Nat) (m : Mode)
    (below : List CtxState) (s : St) (σ : Vm)
    (hen : Entry W.env off .comment m σ) (hr : Rel W B.sc [] below s σ) :
    StmtPost W B.sc below fd sd (off + sizeStmt W.env.dp fd sd .comment) σ
      (ProcJ.Ref.exec W.P (fuel + 1) B.act (desugar .comment) m s) := by
  obtain ⟨rfl, hpc⟩ := hen.of_nolabels rfl
  simp only [desugar, ProcJ.Ref.exec, sizeStmt, StmtPost]
  exact ⟨σ, Steps.refl σ, by rw [hpc]; rfl, hr, SameStacks.refl σ⟩

theorem case_assign (W : World) (B : BodyCtx) (fuel : Nat) (ih : IHle W fuel) (x : Var) (t : Ty) (e : Expr) (p : Pos)
    (sfx : String) (fd sd off : Nat) (m : Mode) (below : List CtxState) (s : St) (σ : Vm)
    (hc : CodeAt W.code off (compileStmt W.lay W.env sfx fd sd off (.assign x t e p))) (hen : Entry W.env off (.assign x t e p) m σ)
    (hr : Rel W B.sc [] below s σ) (hw : Wf W.sg B.sc W.env.dp B.body.labels fd sd (.assign x t e p)) (ha : ActInv B.sc fd sd σ) :
    StmtPost W B.sc below fd sd (off + sizeStmt W.env.dp fd sd (.assign x t e p)) σ
      (ProcJ.Ref.exec W.P (fuel + 1) B.act (desugar (.assign x t e p)) m s) := by
  obtain ⟨rfl, hpc⟩ := hen.of_nolabels rfl
  simp only [compileStmt] at hc
  simp only [Wf] at hw
  obtain ⟨hx, hwe⟩ := hw
  have he := exprTo_correct' W fuel ih B.sc e t off [] below s σ hc.append_left hpc hr hwe
  simp only [desugar, ProcJ.Ref.exec, sizeStmt]
  generalize ProcJ.Ref.evalTo W.P fuel e t s = r at he ⊢
  obtain ⟨s1, rv⟩ := r
  cases rv with
  | error o => exact StmtPost.of_err he
  | ok v =>
    obtain ⟨τ, st, hp, hav, hrel, hss, htag⟩ := he
    have hcs : CodeAt W.code τ.pc (storeVar x t p) := by
      have := hc.append_right
      rw [len_exprTo] at this
      rw [hp]; exact this
    have hst := store_steps W.code x t p τ hcs
    have hrel2 := hrel.storeSt hx (by rw [hav]; exact htag)
    rw [hav] at hrel2
    exact ⟨storeSt τ x, st.trans hst, by rw [storeSt_pc, hp]; omega, hrel2, hss.trans (SameStacks.storeSt τ x)⟩

theorem zeroOf_tag (t : Ty) : (zeroOf t).tag = t := by cases t <;> rfl

theorem case_dim (W : World) (B : BodyCtx) (fuel : Nat) (ih : IHle W fuel) (x : Var) (t : Ty) (p : Pos) (sfx : String)
    (fd sd off : Nat) (m : Mode) (below : List CtxState) (s : St) (σ : Vm)
    (hc : CodeAt W.code off (compileStmt W.lay W.env sfx fd sd off (.dim x t p))) (hen : Entry W.env off (.dim x t p) m σ)
    (hr : Rel W B.sc [] below s σ) (hw : Wf W.sg B.sc W.env.dp B.body.labels fd sd (.dim x t p)) (ha : ActInv B.sc fd sd σ) :
    StmtPost W B.sc below fd sd (off + sizeStmt W.env.dp fd sd (.dim x t p)) σ
      (ProcJ.Ref.exec W.P (fuel + 1) B.act (desugar (.dim x t p)) m s) := by
  obtain ⟨rfl, hpc⟩ := hen.of_nolabels rfl
  simp only [compileStmt] at hc
  simp only [Wf] at hw
  subst hpc
  have h0 : W.code[σ.pc]? = some (CInstr.allocate t, p) := hc.head
  let σ1 : Vm := Vm.advance (Vm.setA σ (zeroOf t))
  have s1 : Vm.step W.code σ = .next σ1 := by simp only [Vm.step, h0]; rfl
  have hcs : CodeAt W.code σ1.pc (storeVar x t p) := hc.tail
  have hst := store_steps W.code x t p σ1 hcs
  have hrel1 : Rel W B.sc [] below s σ1 := (hr.setA _).advance
  have hrel2 := hrel1.storeSt hw.1 (zeroOf_tag t)
  simp only [desugar, sizeStmt]
  cases fuel with
  | zero => simp only [ProcJ.Ref.exec, ProcJ.Ref.evalTo, StmtPost]
  | succ n =>
    cases n with
    | zero => simp only [ProcJ.Ref.exec, ProcJ.Ref.evalTo, ProcJ.Ref.eval, StmtPost]
    | succ m =>
      have hev : ProcJ.Ref.evalTo W.P (m + 1 + 1) (Expr.lit (zeroOf t) p) t s = (s, .ok (zeroOf t)) := by
        simp only [ProcJ.Ref.evalTo, ProcJ.Ref.eval, Proc.Expr.ty, zeroOf_tag, storeCast, if_true, ProcJ.Ref.liftV]
      simp only [ProcJ.Ref.exec, hev, StmtPost]
      exact ⟨storeSt σ1 x, Steps.cons s1 hst, rfl, hrel2,
        (show SameStacks σ σ1 from ⟨rfl, rfl, rfl, rfl, rfl, rfl, rfl, id⟩).trans (SameStacks.storeSt σ1 x)⟩

/-- `IsVariableDefined x`: A receives the BASIC truth value of "slot `x` of the current block is created" -/
theorem isDefined_step (code : Code) (σ : Vm) (p : Pos) (x : Nat) (fr : Frame)
    (h0 : code[σ.pc]? = some (CInstr.isDefined x, p)) (hcf : σ.curFrame = some fr) :
    Vm.step code σ = .next (Vm.advance (Vm.setA σ (if (fr[x]?.join).isSome then Val.int (-1) else Val.int 0))) := by
  simp only [Vm.step, h0, hcf]
  cases h : fr[x]? with
  | none => rfl
  | some o => cases o <;> rfl

/-- DIM inside a STATIC procedure: the variable is created (with zero of its type) unless it already exists; the
reference state does not change either way -/
theorem case_sdim (W : World) (B : BodyCtx) (fuel : Nat) (x : Nat) (t : Ty) (p : Pos) (sfx : String)
    (fd sd off : Nat) (m : Mode) (below : List CtxState) (s : St) (σ : Vm)
    (hc : CodeAt W.code off (compileStmt W.lay W.env sfx fd sd off (.sdim x t p))) (hen : Entry W.env off (.sdim x t p) m σ)
    (hr : Rel W B.sc [] below s σ) (hw : Wf W.sg B.sc W.env.dp B.body.labels fd sd (.sdim x t p)) (ha : ActInv B.sc fd sd σ) :
    StmtPost W B.sc below fd sd (off + sizeStmt W.env.dp fd sd (.sdim x t p)) σ
      (ProcJ.Ref.exec W.P (fuel + 1) B.act (desugar (.sdim x t p)) m s) := by
  obtain ⟨rfl, hpc⟩ := hen.of_nolabels rfl
  simp only [compileStmt] at hc
  simp only [Wf] at hw
  subst hpc
  have hxl := hw.1
  have hx' : B.sc.slots.get? ⟨false, x⟩ = some t := by simpa [SlotTabs.get?] using hxl
  obtain ⟨fr, hcf, hfr⟩ := hr.curVars
  have h0 : W.code[σ.pc]? = some (CInstr.isDefined x, p) := hc.head
  have h1 : W.code[σ.pc + 1]? = some (CInstr.jumpIfFalse (σ.pc + 3), p) := hc.tail.head
  have h2 : W.code[σ.pc + 1 + 1]? = some (CInstr.jump (σ.pc + 7), p) := hc.tail.tail.head
  have h3 : W.code[σ.pc + 1 + 1 + 1]? = some (CInstr.label (labelName "begin-dim" p sfx), p) := hc.tail.tail.tail.head
  have h4 : W.code[σ.pc + 1 + 1 + 1 + 1]? = some (CInstr.allocate t, p) := hc.tail.tail.tail.tail.head
  have hc5 : CodeAt W.code (σ.pc + 1 + 1 + 1 + 1 + 1) (storeVar ⟨false, x⟩ t p) :=
    CodeAt.append_left (b := [(CInstr.label (labelName "end-dim" p sfx), p)]) hc.tail.tail.tail.tail.tail
  have h7 : W.code[σ.pc + 1 + 1 + 1 + 1 + 1 + 1 + 1]? = some (CInstr.label (labelName "end-dim" p sfx), p) :=
    hc.tail.tail.tail.tail.tail.tail.tail.head
  have hs0 := isDefined_step W.code σ p x fr h0 hcf
  simp only [desugar, ProcJ.Ref.exec, sizeStmt, StmtPost]
  cases hj : fr[x]?.join with
  | some w =>
    simp only [hj, Option.isSome, if_true] at hs0
    let σ1 : Vm := Vm.advance (Vm.setA σ (.int (-1)))
    let σ2 : Vm := Vm.advance σ1
    let σ3 : Vm := { σ2 with pc := σ.pc + 7 }
    let σ4 : Vm := Vm.advance σ3
    have s1 : Vm.step W.code σ = .next σ1 := hs0
    have s2 : Vm.step W.code σ1 = .next σ2 := by
      have h1' : W.code[σ1.pc]? = some (CInstr.jumpIfFalse (σ.pc + 3), p) := h1
      have ht : RbModel.Ref.truthy σ1.regs.a = some true := rfl
      simp only [Vm.step, h1', ht] <;> rfl
    have s3 : Vm.step W.code σ2 = .next σ3 := by
      have h2' : W.code[σ2.pc]? = some (CInstr.jump (σ.pc + 7), p) := h2
      simp only [Vm.step, h2'] <;> rfl
    have s4 : Vm.step W.code σ3 = .next σ4 := by
      have h7' : W.code[σ3.pc]? = some (CInstr.label (labelName "end-dim" p sfx), p) := h7
      simp only [Vm.step, h7'] <;> rfl
    exact ⟨σ4, Steps.cons s1 (Steps.cons s2 (Steps.cons s3 (Steps.one s4))), rfl,
      hr.same rfl rfl rfl rfl rfl rfl, ⟨rfl, rfl, rfl, rfl, rfl, rfl, rfl, id⟩⟩
  | none =>
    simp only [hj, Option.isSome, Bool.false_eq_true, if_false] at hs0
    let σ1 : Vm := Vm.advance (Vm.setA σ (.int 0))
    let σ2 : Vm := { σ1 with pc := σ.pc + 3 }
    let σ3 : Vm := Vm.advance σ2
    let σ4 : Vm := Vm.advance (Vm.setA σ3 (zeroOf t))
    let σ5 : Vm := storeSt σ4 ⟨false, x⟩
    let σ6 : Vm := Vm.advance σ5
    have s1 : Vm.step W.code σ = .next σ1 := hs0
    have s2 : Vm.step W.code σ1 = .next σ2 := by
      have h1' : W.code[σ1.pc]? = some (CInstr.jumpIfFalse (σ.pc + 3), p) := h1
      have ht : RbModel.Ref.truthy σ1.regs.a = some false := rfl
      simp only [Vm.step, h1', ht] <;> rfl
    have s3 : Vm.step W.code σ2 = .next σ3 := by
      have h3' : W.code[σ2.pc]? = some (CInstr.label (labelName "begin-dim" p sfx), p) := h3
      simp only [Vm.step, h3'] <;> rfl
    have s4 : Vm.step W.code σ3 = .next σ4 := by
      have h4' : W.code[σ3.pc]? = some (CInstr.allocate t, p) := h4
      simp only [Vm.step, h4'] <;> rfl
    have s5 : Steps W.code σ4 σ5 := store_steps W.code ⟨false, x⟩ t p σ4 hc5
    have s6 : Vm.step W.code σ5 = .next σ6 := by
      have h7' : W.code[σ5.pc]? = some (CInstr.label (labelName "end-dim" p sfx), p) := h7
      simp only [Vm.step, h7'] <;> rfl
    have hrel4 : Rel W B.sc [] below s σ4 := hr.same rfl rfl rfl rfl rfl rfl
    have hrel5 : Rel W B.sc [] below (s.set ⟨false, x⟩ (zeroOf t)) σ5 := hrel4.storeSt hx' (zeroOf_tag t)
    have hget : s.get ⟨false, x⟩ t = zeroOf t := by
      have h := hfr.get x t hxl
      rw [RbThm.ProcSim.getVar_eq_join, hj] at h
      show s.locals.getD x (zeroOf t) = zeroOf t
      rw [← h]; rfl
    have hset : s.set ⟨false, x⟩ (zeroOf t) = s := by
      have := set_get_self hr hx'
      rwa [hget] at this
    rw [hset] at hrel5
    exact ⟨σ6, Steps.cons s1 (Steps.cons s2 (Steps.cons s3 (Steps.cons s4 (s5.trans (Steps.one s6))))), rfl,
      hrel5.advance,
      (show SameStacks σ σ4 from ⟨rfl, rfl, rfl, rfl, rfl, rfl, rfl, id⟩).trans
        ((SameStacks.storeSt σ4 ⟨false, x⟩).trans ⟨rfl, rfl, rfl, rfl, rfl, rfl, rfl, id⟩)⟩

theorem case_end (W : World) (B : BodyCtx) (fuel : Nat) (p : Pos)
    (sfx : String) (fd sd off : Nat) (m : Mode) (below : List CtxState) (s : St) (σ : Vm)
    (hc : CodeAt W.code off (compileStmt W.lay W.env sfx fd sd off (.end_ p))) (hen : Entry W.env off (.end_ p) m σ)
    (hr : Rel W B.sc [] below s σ) :
    StmtPost W B.sc below fd sd (off + sizeStmt W.env.dp fd sd (.end_ p)) σ
      (ProcJ.Ref.exec W.P (fuel + 1) B.act (desugar (.end_ p)) m s) := by
  obtain ⟨rfl, hpc⟩ := hen.of_nolabels rfl
  simp only [compileStmt] at hc
  subst hpc
  have h0 : W.code[σ.pc]? = some (CInstr.halt, p) := hc.head
  simp only [desugar, ProcJ.Ref.exec, StmtPost]
  exact ⟨σ, σ, Steps.refl σ, by simp only [Vm.step, h0], hr.out⟩

theorem case_callSub (W : World) (B : BodyCtx) (fuel : Nat) (ih : IHle W fuel) (f : Nat) (args : Args) (p : Pos)
    (sfx : String) (fd sd off : Nat) (m : Mode) (below : List CtxState) (s : St) (σ : Vm)
    (hc : CodeAt W.code off (compileStmt W.lay W.env sfx fd sd off (.callSub f args p))) (hen : Entry W.env off (.callSub f args p) m σ)
    (hr : Rel W B.sc [] below s σ) (hw : Wf W.sg B.sc W.env.dp B.body.labels fd sd (.callSub f args p)) (ha : ActInv B.sc fd sd σ) :
    StmtPost W B.sc below fd sd (off + sizeStmt W.env.dp fd sd (.callSub f args p)) σ
      (ProcJ.Ref.exec W.P (fuel + 1) B.act (desugar (.callSub f args p)) m s) := by
  obtain ⟨rfl, hpc⟩ := hen.of_nolabels rfl
  simp only [compileStmt] at hc
  simp only [Wf] at hw
  rw [callCode_sub] at hc
  have h := ih.self.call B.sc f args p none off [] below s σ hc hpc hr hw.1 hw.2
  simp only [desugar, ProcJ.Ref.exec, sizeStmt, sizeCall_sub]
  generalize ProcJ.Ref.call W.P fuel f args s = r at h ⊢
  obtain ⟨s1, rv⟩ := r
  cases rv with
  | error o => exact StmtPost.of_err h
  | ok v =>
    obtain ⟨τ, st, hp, hrel, hss, _⟩ := h
    exact ⟨τ, st, hp, hrel, hss⟩

end RbThm.ProcJSim
