import RbModel.ErrL.Vm
import RbModel.ErrL.Ref
import Thm.ErrLLen
import Thm.ErrLDispatch
import Thm.JmpLSimBase
/-!
Error layer (property C05), simulation part, infrastructure: the code the generator model `ErrL.Compile.compileStmt` emits,
run on the VM model `ErrL.Vm.step` with the statement-address table `ErrL.Compile.marks`, computes what the reference
semantics `ErrL.Ref.exec` prescribes.

* **Bridge to the jump layer** (`lift_steps`, `lift_fails`): every instruction of the jump layer is executed by
  `JmpL.Vm.step`; a run of `JmpL.Vm` on a code fragment *placed alone* (`pad`) is a run of the error layer's VM on the lifted
  fragment, and a failing instruction of the fragment is an error *dispatch* (`raise`) at an address inside the fragment.  All
  expression-level lemmas of `Thm/JmpLSimBase.lean` (`compileExpr_correct`, `exprTo_correct`, `cond_correct`, `store_steps`,
  `items_correct`, …) are reused through it.
* `ERel`: the state relation (the jump layer's `Rel` + handler register ↔ handler mode, `last_error_address` ↔ `inH`,
  `last_error_code` ↔ `err` while a handler runs).
* `Wf`: the static premise as a `Prop` (the jump layer's + the new statements; three clauses are *forced by the proof*: see
  `Wf`).
* `StmtSpec`: the jump layer's relative specification + the exits of this layer (`resumed`), the *alternative normal exit*
  at the entry that follows the statement (`nx`: where RESUME NEXT lands after the statement's last unit), and a value stack
  that is only known to be *high enough* outside handlers (operands and selectors abandoned by handled errors stay on it).
* `RaiseSpec` / `raise_correct`: **the raise clause** — what the VM does when a resume unit fails, against `Ref.raise`.
-/
namespace RbThm.ErrLSim
set_option linter.unusedVariables false
set_option linter.unusedSimpArgs false
open RbModel RbModel.Num RbModel.ErrL RbModel.ErrL.Compile RbModel.ErrL.Vm
open RbModel.JmpL.Compile (CInstr Code labelName compileExpr compileExprTo storeVar loadVar compileItems compileConds
  sizeCaseExpr sizeItems sizeConds Dp lookupNat lookupDepth stepSuffix maxPos)
open RbModel.JmpL.Vm (Vm truncTop Regs)
open RbModel.Ast (Pos PrintItem CaseExpr)
open RbModel.Ref (St)
open RbModel.ErrL.Ref
open RbThm.ErrLLen
open RbThm.C01Sim (Typed SlotsBelow ExprWt NumericAt NumericCond ItemsSlots CaseSlots CondsSlots)

/-! ### code placement and execution on the error layer's VM -/

/-- the fragment `frag` sits in `code` at address `off` -/
def CodeAt (code : ECode) (off : Nat) (frag : ECode) : Prop :=
  ∀ i, i < frag.length → code[off + i]? = frag[i]?

theorem CodeAt.append_left {code : ECode} {off : Nat} {a b : ECode} (h : CodeAt code off (a ++ b)) :
    CodeAt code off a := by
  intro i hi
  have := h i (by simp; omega)
  rw [this, List.getElem?_append_left hi]

theorem CodeAt.append_right {code : ECode} {off : Nat} {a b : ECode} (h : CodeAt code off (a ++ b)) :
    CodeAt code (off + a.length) b := by
  intro i hi
  have := h (a.length + i) (by simp; omega)
  rw [Nat.add_assoc, this, List.getElem?_append_right (by omega)]
  congr 1; omega

theorem CodeAt.head {code : ECode} {off : Nat} {x : EInstr × Pos} {rest : ECode}
    (h : CodeAt code off (x :: rest)) : code[off]? = some x := by
  have := h 0 (by simp)
  simpa using this

theorem CodeAt.tail {code : ECode} {off : Nat} {x : EInstr × Pos} {rest : ECode}
    (h : CodeAt code off (x :: rest)) : CodeAt code (off + 1) rest := by
  have := CodeAt.append_right (a := [x]) (b := rest) (by simpa using h)
  simpa using this

/-- an instruction of a lifted fragment -/
theorem CodeAt.lift_get {code : ECode} {off : Nat} {frag : Code} (h : CodeAt code off (lift frag)) {i : Nat} {ip : CInstr × Pos}
    (hi : frag[i]? = some ip) : code[off + i]? = some (.base ip.1, ip.2) := by
  have hlt : i < frag.length := by
    rcases Nat.lt_or_ge i frag.length with h' | h'
    · exact h'
    · rw [List.getElem?_eq_none h'] at hi; cases hi
  rw [h i (by simpa using hlt)]
  simp [lift, hi]

/-- zero or more successful steps -/
inductive Steps (P : Prog) : EVm → EVm → Prop
  | refl (σ : EVm) : Steps P σ σ
  | cons {σ τ υ : EVm} : step P σ = .next τ → Steps P τ υ → Steps P σ υ

theorem Steps.trans {P : Prog} {a b c : EVm} (h₁ : Steps P a b) (h₂ : Steps P b c) : Steps P a c := by
  induction h₁ with
  | refl => exact h₂
  | cons hs _ ih => exact Steps.cons hs (ih h₂)

theorem Steps.one {P : Prog} {σ τ : EVm} (h : step P σ = .next τ) : Steps P σ τ := Steps.cons h (Steps.refl τ)

/-! ### the bridge to the jump layer's VM -/

/-- a code fragment placed alone at `off`: every other address holds `Halt` (in front) or nothing (behind), so a run of
`JmpL.Vm` that keeps going stays inside the fragment -/
def pad (off : Nat) (frag : Code) : Code := List.replicate off (CInstr.halt, (⟨0, 0⟩ : Pos)) ++ frag

theorem codeAt_pad (off : Nat) (frag : Code) : RbThm.JmpLSim.CodeAt (pad off frag) off frag := by
  intro i hi
  simp only [pad]
  rw [List.getElem?_append_right (by simp)]
  simp

theorem pad_get {off : Nat} {frag : Code} {pc : Nat} {ip : CInstr × Pos} (h : (pad off frag)[pc]? = some ip)
    (hne : ip.1 ≠ .halt) : off ≤ pc ∧ frag[pc - off]? = some ip := by
  simp only [pad] at h
  rcases Nat.lt_or_ge pc off with hlt | hge
  · rw [List.getElem?_append_left (by simpa using hlt)] at h
    simp only [List.getElem?_replicate, hlt, if_true, Option.some.injEq] at h
    subst h; exact absurd rfl hne
  · rw [List.getElem?_append_right (by simpa using hge)] at h
    simp only [List.length_replicate] at h
    exact ⟨hge, h⟩

/-- `JmpL.Vm.step` looks at the instruction under the program counter only -/
theorem step_congr {c1 c2 : Code} {σ : Vm} (h : c1[σ.pc]? = c2[σ.pc]?) : JmpL.Vm.step c1 σ = JmpL.Vm.step c2 σ := by
  simp only [JmpL.Vm.step, h]

theorem step_halt {code : Code} {σ : Vm} {p : Pos} (h : code[σ.pc]? = some (.halt, p)) :
    JmpL.Vm.step code σ = .halt σ := by
  simp only [JmpL.Vm.step, h]

/-- the VM's view of the jump layer's instructions (`Prog.base`) is the code with the new instructions masked -/
def ProgOk (P : Prog) : Prop := P.base = baseOf P.code

theorem base_get {P : Prog} (hP : ProgOk P) {pc : Nat} {i : CInstr} {p : Pos} (h : P.code[pc]? = some (.base i, p)) :
    P.base[pc]? = some (i, p) := by
  rw [hP]; simp [baseOf, h]

/-- one instruction of the jump layer other than `BuiltInRead`: the error layer's VM runs the jump layer's step on the
base state and dispatches its error -/
theorem step_base {P : Prog} (hP : ProgOk P) {x : EVm} {i : CInstr} {p : Pos} (h : P.code[x.b.pc]? = some (.base i, p))
    (hnr : i ≠ .builtInRead) :
    step P x = match JmpL.Vm.step P.base x.b with
      | .next b' => .next { x with b := b' }
      | .halt b' => .halt { x with b := b' }
      | .error c q b' => raise P { x with b := b' } c q
      | .stuck => .stuck := by
  simp only [step, h]
  cases i <;> first | rfl | exact absurd rfl hnr

/-- a failing instruction of the jump layer leaves the state as it is -/
theorem step_error_same {code : Code} {σ υ : Vm} {c : Nat} {p : Pos} (h : JmpL.Vm.step code σ = .error c p υ) : υ = σ := by
  unfold JmpL.Vm.step at h
  repeat' split at h
  all_goals first
    | (simp only [JmpL.Vm.resA] at h; split at h <;> simp_all)
    | simp_all

/-- **bridge, successful steps**: a run of the jump layer's VM on the fragment placed alone is a run of the error layer's VM
on the lifted fragment; the handler register and the error registers are untouched -/
theorem lift_steps {P : Prog} (hP : ProgOk P) {off : Nat} {frag : Code} (hc : CodeAt P.code off (lift frag))
    (hnr : ∀ ip ∈ frag, ip.1 ≠ .builtInRead) {σ τ : Vm} (h : RbThm.JmpLSim.Steps (pad off frag) σ τ) :
    ∀ x : EVm, x.b = σ → Steps P x { x with b := τ } := by
  induction h with
  | refl σ => intro x hx; subst hx; exact Steps.refl _
  | @cons σ τ υ hs _ ih =>
    intro x hx
    subst hx
    cases hg : (pad off frag)[x.b.pc]? with
    | none => simp [JmpL.Vm.step, hg] at hs
    | some ip =>
      have hne : ip.1 ≠ .halt := by
        intro hh
        obtain ⟨i, p⟩ := ip
        simp only at hh; subst hh
        rw [step_halt hg] at hs; cases hs
      obtain ⟨hge, hf⟩ := pad_get hg hne
      have hcode : P.code[x.b.pc]? = some (.base ip.1, ip.2) := by
        have := hc.lift_get hf
        rwa [Nat.add_sub_cancel' hge] at this
      have hmem : ip ∈ frag := List.mem_of_getElem? hf
      have hb : JmpL.Vm.step P.base x.b = .next τ := by
        rw [← hs]; apply step_congr; rw [base_get hP hcode, hg]
      have : step P x = .next { x with b := τ } := by rw [step_base hP hcode (hnr ip hmem), hb]
      exact Steps.cons this (ih { x with b := τ } rfl)

/-- the run reaches a state `y` in which the instruction at an address in `[lo, hi)` fails with `(c, p)`: the VM dispatches
the error (`raise`) from the state `y'` (which is `y`, except that a failing `READ` has consumed its DATA item) -/
def Fails (P : Prog) (x : EVm) (lo hi : Nat) (c : Nat) (p : Pos) (y' : EVm) : Prop :=
  ∃ y, Steps P x y ∧ lo ≤ y.b.pc ∧ y.b.pc < hi ∧ step P y = raise P y' c p ∧ y'.b.pc = y.b.pc

theorem Fails.of_steps {P : Prog} {x z y' : EVm} {lo hi c : Nat} {p : Pos} (h₁ : Steps P x z) (h₂ : Fails P z lo hi c p y') :
    Fails P x lo hi c p y' := by
  obtain ⟨y, st, h⟩ := h₂
  exact ⟨y, h₁.trans st, h⟩

theorem Fails.widen {P : Prog} {x y' : EVm} {lo hi lo' hi' c : Nat} {p : Pos} (h : Fails P x lo hi c p y') (h1 : lo' ≤ lo)
    (h2 : hi ≤ hi') : Fails P x lo' hi' c p y' := by
  obtain ⟨y, st, a, b, r⟩ := h
  exact ⟨y, st, by omega, by omega, r⟩

/-- **bridge, failing instruction**: an error of the jump layer's VM on the fragment placed alone is an error dispatch of the
error layer's VM at an address inside the fragment, from a state that differs from the start state in the base part only and
has the variables and the output the jump layer's lemma names -/
theorem lift_fails {P : Prog} (hP : ProgOk P) {off : Nat} {frag : Code} (hc : CodeAt P.code off (lift frag))
    (hnr : ∀ ip ∈ frag, ip.1 ≠ .builtInRead) {σ : Vm} {c : Nat} {p : Pos} {env : List Val} {out : Print.WritePrinter}
    (h : RbThm.JmpLSim.ErrsWith (pad off frag) σ c p env out) (x : EVm) (hx : x.b = σ) :
    ∃ υ : Vm, Fails P x off (off + frag.length) c p { x with b := υ } ∧ υ.env = env ∧ υ.out = out ∧
      RbThm.JmpLSim.Steps (pad off frag) σ υ := by
  obtain ⟨τ, υ, st, hs, he, ho⟩ := h
  have hυ : υ = τ := step_error_same hs
  subst hυ
  cases hg : (pad off frag)[υ.pc]? with
  | none => simp [JmpL.Vm.step, hg] at hs
  | some ip =>
    have hne : ip.1 ≠ .halt := by
      intro hh
      obtain ⟨i, q⟩ := ip
      simp only at hh; subst hh
      rw [step_halt hg] at hs; cases hs
    obtain ⟨hge, hf⟩ := pad_get hg hne
    have hlt : υ.pc - off < frag.length := by
      rcases Nat.lt_or_ge (υ.pc - off) frag.length with h' | h'
      · exact h'
      · rw [List.getElem?_eq_none h'] at hf; cases hf
    have hcode : P.code[υ.pc]? = some (.base ip.1, ip.2) := by
      have := hc.lift_get hf
      rwa [Nat.add_sub_cancel' hge] at this
    have hmem : ip ∈ frag := List.mem_of_getElem? hf
    have hb : JmpL.Vm.step P.base υ = .error c p υ := by
      rw [← hs]; apply step_congr; rw [base_get hP hcode, hg]
    have hstep : step P { x with b := υ } = raise P { x with b := υ } c p := by
      rw [step_base hP hcode (hnr ip hmem), hb]
    exact ⟨υ, ⟨{ x with b := υ }, lift_steps hP hc hnr st x hx, hge, by show υ.pc < off + frag.length; omega, hstep, rfl⟩,
      he, ho, st⟩


/-! ### the state relation -/

/-- the base VM state represents the state of the reference semantics; every variable holds a value of its declared type.
The jump layer's `Rel` without `skipNewline = false`: a PRINT abandoned by a handled error leaves the flag set (it is only
read by `PrintEnd`, always after `PrintSetPrinter` has reset it). -/
structure Rel (sl : List Ty) (s : St) (σ : Vm) : Prop where
  env : σ.env = s.env
  typed : Typed sl s.env
  out : σ.out = s.out
  /-- the DATA items collected so far and the READ cursor -/
  data : σ.data = s.data
  dataIdx : σ.dataIdx = s.dataIdx
  /-- nothing is waiting in the by-reference return queue between statements -/
  queue : σ.queue = []

theorem Rel.ofJmp {sl : List Ty} {s : St} {σ : Vm} (h : RbThm.JmpLSim.Rel sl s σ) : Rel sl s σ :=
  ⟨h.env, h.typed, h.out, h.data, h.dataIdx, h.queue⟩

/-- what the jump layer's lemmas want: the same relation on a state whose PRINT flag is reset -/
theorem Rel.toJmp {sl : List Ty} {s : St} {σ : Vm} (h : Rel sl s σ) (hk : σ.skipNewline = false) :
    RbThm.JmpLSim.Rel sl s σ := ⟨h.env, h.typed, h.out, hk, h.data, h.dataIdx, h.queue⟩

/-- only the program counter, the registers, the stacks, the argument list and the PRINT flag differ -/
theorem Rel.same {sl : List Ty} {s : St} {σ τ : Vm} (h : Rel sl s σ) (he : τ.env = σ.env) (ho : τ.out = σ.out)
    (hd : τ.data = σ.data) (hi : τ.dataIdx = σ.dataIdx) (hq : τ.queue = σ.queue) : Rel sl s τ :=
  ⟨by rw [he, h.env], h.typed, by rw [ho, h.out], by rw [hd, h.data], by rw [hi, h.dataIdx], by rw [hq, h.queue]⟩

theorem Rel.afterExpr {sl : List Ty} {s : St} {σ : Vm} (h : Rel sl s σ) (pc : Nat) (v b : Val) :
    Rel sl s (RbThm.JmpLSim.afterExpr σ pc v b) := h.same rfl rfl rfl rfl rfl

theorem Rel.advance {sl : List Ty} {s : St} {σ : Vm} (h : Rel sl s σ) : Rel sl s (JmpL.Vm.advance σ) :=
  h.same rfl rfl rfl rfl rfl

theorem Rel.setPc {sl : List Ty} {s : St} {σ : Vm} (h : Rel sl s σ) (a : Nat) : Rel sl s { σ with pc := a } :=
  h.same rfl rfl rfl rfl rfl

/-- storing a value of the slot's type into a variable -/
theorem Rel.store {sl : List Ty} {s : St} {σ τ : Vm} (h : Rel sl s σ) {x : Nat} {t : Ty} {v : Val}
    (hx : sl[x]? = some t) (hv : v.tag = t) (he : τ.env = σ.env.set x v) (ho : τ.out = σ.out)
    (hd : τ.data = σ.data) (hi : τ.dataIdx = σ.dataIdx) (hq : τ.queue = σ.queue) :
    Rel sl (s.set x v) τ :=
  ⟨by rw [he, h.env]; rfl, RbThm.C01Sim.SimRead.typed_set h.typed hx hv, by rw [ho, h.out]; rfl,
    by rw [hd, h.data]; rfl, by rw [hi, h.dataIdx]; rfl, by rw [hq, h.queue]⟩

theorem Rel.len {sl : List Ty} {s : St} {σ : Vm} (h : Rel sl s σ) : σ.env.length = sl.length := by
  rw [h.env]; exact h.typed.len

/-- the handler register that represents a handler mode -/
def hOf (env : LEnv) : HMode → Ctl.Handler
  | .none => .none
  | .goto L => .address (env.addr L)
  | .resumeNext => .next

/-- the part of the state relation that does not depend on whether a handler is running: variables, output, DATA cursor
(the jump layer's `Rel` on the base state) and the handler register -/
structure ERelH (sl : List Ty) (env : LEnv) (s : ESt) (x : EVm) : Prop where
  base : Rel sl s.st x.b
  handler : x.handler = hOf env s.mode
  /-- the handler label is a label at depth 0 / 0 (what `ON ERROR GOTO`'s premise says) -/
  hfd : ∀ L, s.mode = .goto L → env.dp.fd L = 0 ∧ env.dp.sd L = 0

/-- **the state relation**: `ERelH`, and a handler is running (`inH`) exactly when `last_error_address` is set, and then
`last_error_code` is the code being handled (`err`: what ERR reads) -/
structure ERel (sl : List Ty) (env : LEnv) (s : ESt) (x : EVm) : Prop extends ERelH sl env s x where
  inH : s.inH = x.errAddr.isSome
  err : s.inH = true → x.errCode = s.err

/-- only the base state changed, and in it nothing the jump layer's relation looks at -/
theorem ERel.same {sl : List Ty} {env : LEnv} {s : ESt} {x : EVm} {b : Vm} (h : ERel sl env s x)
    (hb : Rel sl s.st b) : ERel sl env s { x with b := b } :=
  { base := hb, handler := h.handler, hfd := h.hfd, inH := h.inH, err := h.err }

/-! ### well-formedness (the Prop mirrored by `ErrL.wfB` and `wfXB` of `Thm/ErrLWf.lean`) -/

/-- a GOTO that leaves a construct (its label is not among `inner`) names a label that is not deeper than the construct -/
def Leaves (depthOf : Nat → Nat) (depth : Nat) (inner gotos : List Nat) : Prop :=
  ∀ L ∈ gotos, L ∈ inner ∨ depthOf L ≤ depth

/-- cannot fail: a literal or a variable -/
def Atomic : Ast.Expr → Prop
  | .lit _ _ => True
  | .var _ _ _ => True
  | .paren e _ => Atomic e
  | _ => False

/-- no operand is pending on the value stack when the expression fails: the right operand of every operator is atomic -/
def NoPending : Ast.Expr → Prop
  | .lit _ _ => True
  | .var _ _ _ => True
  | .paren e _ => NoPending e
  | .un _ e _ => NoPending e
  | .bin _ l r _ _ => NoPending l ∧ Atomic r

def CaseNoPending : CaseExpr → Prop
  | .simple e => NoPending e
  | .is _ e => NoPending e
  | .range lo hi => NoPending lo ∧ NoPending hi

/-- the STEP of a FOR is a numeric literal other than zero -/
def StepLit : Ast.Expr → Prop
  | .lit v _ => tryCmp v (.int 0) = .ok .lt ∨ tryCmp v (.int 0) = .ok .gt
  | _ => False

mutual
/-- well-formed statements at FOR depth `d` and SELECT depth `e`; `rl`: the program contains a `RESUME label`.  The jump
layer's `Wf` (C01's `Wf` + the jump discipline) and, for the error layer: handler labels and RESUME labels at depth 0 / 0
(`ErrL.wfB`), and **clauses forced by the simulation proof** (each excludes programs on which the real interpreter
deviates from the specification `ErrL.Ref`; reproducing programs in `work/ERRL_CASES.md`):

* **(P2)** the items of a CASE have no operand pending when they fail (`CaseNoPending`): the dispatch does not cut the value
  stack, so `RESUME` would test the items again against the abandoned operand instead of the selector (open finding C05-h);
* **(P4)** the upper bound of a FOR is well typed (`ExprWt`, as `ErrL.wfB` demands of the lower bound): otherwise the limit may
  be a string and the loop test raises `TypeMismatch`, which the VM *dispatches* while `ErrL.Ref.forIter` ends the program;
* **(P5)** the STEP of a FOR is a numeric literal other than zero (`StepLit`): the sign test and the zero-step `Throw` lie in
  the unit of the `Jump out-of-for` behind the positive copy, so `RESUME` after a zero step (or after a step that is not a
  number) continues behind NEXT, where `ErrL.Ref` runs the header again (recorded finding C05-g).

(P1: RESUME / RESUME NEXT at depth 0 / 0 and P3: GOSUBs at depth 0 / 0 in a program with a RESUME label, of revision 2, are
gone with the repairs dee4bd6 / df9ea58 / 26672d3 of the code under test.) -/
def Wf (sl : List Ty) (dp : Dp) (rl : Bool) : Nat → Nat → SStmt → Prop
  | _, _, .skip => True
  | _, _, .comment => True
  | d, e, .seq a b => Wf sl dp rl d e a ∧ Wf sl dp rl d e b
  | _, _, .dim x t _ => sl[x]? = some t
  | _, _, .assign x t ex _ => sl[x]? = some t ∧ SlotsBelow sl.length ex ∧ ExprWt sl ex
  | _, _, .print items _ => ItemsSlots sl.length items
  | d, e, .ifBlock c thn elifs hasElse els _ =>
    SlotsBelow sl.length c ∧ NumericCond sl c ∧ Wf sl dp rl d e thn ∧ WfElifs sl dp rl d e elifs ∧ Wf sl dp rl d e els ∧
      (hasElse = false → els = .skip)
  | d, e, .while c body _ => SlotsBelow sl.length c ∧ NumericCond sl c ∧ Wf sl dp rl d e body
  | d, e, .doLoop c _ _ body _ => SlotsBelow sl.length c ∧ NumericCond sl c ∧ Wf sl dp rl d e body
  | _, _, .end_ _ => True
  | _, _, .data _ _ => False
  | _, _, .read vars _ => ∀ v ∈ vars, sl[v.1]? = some v.2.1
  | d, e, .select sel cases hasElse els _ =>
    SlotsBelow sl.length sel ∧ WfCases sl dp rl d (e + 1) cases ∧ Wf sl dp rl d (e + 1) els ∧
      (hasElse = false → els = .skip) ∧ Leaves dp.sd e (cases.labels ++ els.labels) (cases.gotos ++ els.gotos)
  | d, e, .forLoop x t lo hi step body _ =>
    sl[x]? = some t ∧ SlotsBelow sl.length lo ∧ ExprWt sl lo ∧ SlotsBelow sl.length hi ∧
      (∀ se, step = some se → SlotsBelow sl.length se ∧ body.labels = []) ∧ Wf sl dp rl (d + 1) e body ∧
      Leaves dp.fd d body.labels body.gotos ∧ ExprWt sl hi ∧ (∀ se, step = some se → StepLit se)
  | _, _, .label _ _ _ => True
  | d, e, .goto L _ => dp.fd L ≤ d ∧ dp.sd L ≤ e
  | _, _, .gosub L _ => dp.fd L = 0 ∧ dp.sd L = 0
  | _, _, .ret _ => True
  | _, _, .onErrorGoto L _ => dp.fd L = 0 ∧ dp.sd L = 0
  | _, _, .onErrorResumeNext _ => True
  | _, _, .onErrorGoto0 _ => True
  | _, _, .resume _ => True
  | _, _, .resumeNext _ => True
  | _, _, .resumeLabel L _ => dp.fd L = 0 ∧ dp.sd L = 0 ∧ rl = true
def WfElifs (sl : List Ty) (dp : Dp) (rl : Bool) : Nat → Nat → ElseIfs → Prop
  | _, _, .nil => True
  | d, e, .cons c body rest =>
    SlotsBelow sl.length c ∧ NumericCond sl c ∧ Wf sl dp rl d e body ∧ WfElifs sl dp rl d e rest
def WfCases (sl : List Ty) (dp : Dp) (rl : Bool) : Nat → Nat → SCases → Prop
  | _, _, .nil => True
  | d, e, .cons conds body rest =>
    conds ≠ [] ∧ CondsSlots sl.length conds ∧ (∀ c ∈ conds, CaseNoPending c) ∧ Wf sl dp rl d e body ∧
      WfCases sl dp rl d e rest
end

mutual
/-- (needs `Wf` only for "a missing ELSE part is empty") -/
theorem labels_desugar (sl : List Ty) (dp : Dp) (rl : Bool) : ∀ (s : SStmt) (d e : Nat), Wf sl dp rl d e s →
    (desugar s).labels = s.labels
  | .skip, _, _, _ => rfl
  | .seq a b, d, e, h => by
    simp only [desugar, Stmt.labels, SStmt.labels, labels_desugar sl dp rl a d e h.1, labels_desugar sl dp rl b d e h.2]
  | .comment, _, _, _ => rfl
  | .dim _ _ _, _, _, _ => rfl
  | .assign _ _ _ _, _, _, _ => rfl
  | .print _ _, _, _, _ => rfl
  | .data _ _, _, _, _ => rfl
  | .read vars p, _, _, _ => rfl
  | .ifBlock c thn elifs hasElse els p, d, e, h => by
    obtain ⟨_, _, h1, h2, h3, _⟩ := h
    simp only [desugar, Stmt.labels, SStmt.labels, labels_desugar sl dp rl thn d e h1,
      labels_desugarElifs sl dp rl elifs d e h2, labels_desugar sl dp rl els d e h3]
  | .select sel cases hasElse els p, d, e, h => by
    obtain ⟨_, h1, h2, h3, _⟩ := h
    simp only [desugar, Stmt.labels, SStmt.labels, labels_desugarCases sl dp rl cases d (e + 1) h1]
    cases hasElse with
    | false => rw [h3 rfl]; simp [Cases.labels, SStmt.labels]
    | true => simp [Cases.labels, labels_desugar sl dp rl els d (e + 1) h2]
  | .forLoop _ _ _ _ _ body _, d, e, h => by
    simp only [desugar, Stmt.labels, SStmt.labels, labels_desugar sl dp rl body (d + 1) e h.2.2.2.2.2.1]
  | .while _ body _, d, e, h => by
    simp only [desugar, Stmt.labels, SStmt.labels, labels_desugar sl dp rl body d e h.2.2]
  | .doLoop _ _ _ body _, d, e, h => by
    simp only [desugar, Stmt.labels, SStmt.labels, labels_desugar sl dp rl body d e h.2.2]
  | .end_ _, _, _, _ => rfl
  | .label _ _ _, _, _, _ => rfl
  | .goto _ _, _, _, _ => rfl
  | .gosub _ _, _, _, _ => rfl
  | .ret _, _, _, _ => rfl
  | .onErrorGoto _ _, _, _, _ => rfl
  | .onErrorResumeNext _, _, _, _ => rfl
  | .onErrorGoto0 _, _, _, _ => rfl
  | .resume _, _, _, _ => rfl
  | .resumeNext _, _, _, _ => rfl
  | .resumeLabel _ _, _, _, _ => rfl
theorem labels_desugarElifs (sl : List Ty) (dp : Dp) (rl : Bool) : ∀ (el : ElseIfs) (d e : Nat), WfElifs sl dp rl d e el →
    ∀ (els : Stmt) (p : Pos), (desugarElifs el els p).labels = el.labels ++ els.labels
  | .nil, _, _, _, _, _ => by simp [desugarElifs, ElseIfs.labels]
  | .cons c body rest, d, e, h, els, p => by
    obtain ⟨_, _, h1, h2⟩ := h
    simp only [desugarElifs, Stmt.labels, ElseIfs.labels, labels_desugar sl dp rl body d e h1,
      labels_desugarElifs sl dp rl rest d e h2, List.append_assoc]
theorem labels_desugarCases (sl : List Ty) (dp : Dp) (rl : Bool) : ∀ (cs : SCases) (d e : Nat), WfCases sl dp rl d e cs →
    ∀ (tail : Cases), (desugarCases cs tail).labels = cs.labels ++ tail.labels
  | .nil, _, _, _, _ => by simp [desugarCases, SCases.labels]
  | .cons conds body rest, d, e, h, tail => by
    obtain ⟨_, _, _, h1, h2⟩ := h
    simp only [desugarCases, Cases.labels, SCases.labels, labels_desugar sl dp rl body d e h1,
      labels_desugarCases sl dp rl rest d e h2, List.append_assoc]
end

theorem hasLabel_desugar {sl : List Ty} {dp : Dp} {rl : Bool} {s : SStmt} {d e : Nat} (h : Wf sl dp rl d e s) (L : Nat) :
    (desugar s).hasLabel L = s.labels.contains L := by
  simp only [Stmt.hasLabel, labels_desugar sl dp rl s d e h]

/-- `L ∈ stmt.labels` as the reference semantics asks it -/
theorem hasLabel_iff {sl : List Ty} {dp : Dp} {rl : Bool} {s : SStmt} {d e : Nat} (h : Wf sl dp rl d e s) (L : Nat) :
    (desugar s).hasLabel L = true ↔ L ∈ s.labels := by
  rw [hasLabel_desugar h]; simp

theorem hasLabel_false_iff {sl : List Ty} {dp : Dp} {rl : Bool} {s : SStmt} {d e : Nat} (h : Wf sl dp rl d e s) (L : Nat) :
    (desugar s).hasLabel L = false ↔ L ∉ s.labels := by
  rw [hasLabel_desugar h]; simp

mutual
/-- the entries of a well-formed statement are strictly ascending (`ErrLLen.marks_asc` needs every CASE to have an item) -/
theorem casesNE_of_wf (sl : List Ty) (dp : Dp) (rl : Bool) : ∀ (s : SStmt) (d e : Nat), Wf sl dp rl d e s → CasesNE s
  | .seq a b, d, e, h => ⟨casesNE_of_wf sl dp rl a d e h.1, casesNE_of_wf sl dp rl b d e h.2⟩
  | .ifBlock c thn elifs hasElse els p, d, e, h =>
    ⟨casesNE_of_wf sl dp rl thn d e h.2.2.1, casesNE_elifs_of_wf sl dp rl elifs d e h.2.2.2.1,
      casesNE_of_wf sl dp rl els d e h.2.2.2.2.1⟩
  | .select sel cases hasElse els p, d, e, h =>
    ⟨casesNE_cases_of_wf sl dp rl cases d (e + 1) h.2.1, casesNE_of_wf sl dp rl els d (e + 1) h.2.2.1⟩
  | .forLoop _ _ _ _ _ body _, d, e, h => casesNE_of_wf sl dp rl body (d + 1) e h.2.2.2.2.2.1
  | .while _ body _, d, e, h => casesNE_of_wf sl dp rl body d e h.2.2
  | .doLoop _ _ _ body _, d, e, h => casesNE_of_wf sl dp rl body d e h.2.2
  | .skip, _, _, _ => trivial
  | .comment, _, _, _ => trivial
  | .dim .., _, _, _ => trivial
  | .assign .., _, _, _ => trivial
  | .print .., _, _, _ => trivial
  | .data .., _, _, _ => trivial
  | .read .., _, _, _ => trivial
  | .end_ .., _, _, _ => trivial
  | .label .., _, _, _ => trivial
  | .goto .., _, _, _ => trivial
  | .gosub .., _, _, _ => trivial
  | .ret .., _, _, _ => trivial
  | .onErrorGoto .., _, _, _ => trivial
  | .onErrorResumeNext .., _, _, _ => trivial
  | .onErrorGoto0 .., _, _, _ => trivial
  | .resume .., _, _, _ => trivial
  | .resumeNext .., _, _, _ => trivial
  | .resumeLabel .., _, _, _ => trivial
theorem casesNE_elifs_of_wf (sl : List Ty) (dp : Dp) (rl : Bool) : ∀ (el : ElseIfs) (d e : Nat), WfElifs sl dp rl d e el →
    CasesNEElifs el
  | .nil, _, _, _ => trivial
  | .cons c body rest, d, e, h => ⟨casesNE_of_wf sl dp rl body d e h.2.2.1, casesNE_elifs_of_wf sl dp rl rest d e h.2.2.2⟩
theorem casesNE_cases_of_wf (sl : List Ty) (dp : Dp) (rl : Bool) : ∀ (cs : SCases) (d e : Nat), WfCases sl dp rl d e cs →
    CasesNECases cs
  | .nil, _, _, _ => trivial
  | .cons conds body rest, d, e, h =>
    ⟨h.1, casesNE_of_wf sl dp rl body d e h.2.2.2.1, casesNE_cases_of_wf sl dp rl rest d e h.2.2.2.2⟩
end

/-! ### the labels of a statement placed in the code -/

/-- the generator's label environment is right about the labels inside the statement `s` placed at `off` at depths `d` /
`e`: their resolved addresses are those of the layout, their recorded depths are the real ones -/
def LabAt (env : LEnv) (d e off : Nat) (s : SStmt) : Prop :=
  (∀ L a, (L, a) ∈ addrTable env.dp d e off s → env.addr L = a) ∧
  (∀ L d' e', (L, d', e') ∈ depthTable d e s → env.dp.fd L = d' ∧ env.dp.sd L = e')

def LabAtElifs (env : LEnv) (d e off : Nat) (el : ElseIfs) : Prop :=
  (∀ L a, (L, a) ∈ addrElifs env.dp d e off el → env.addr L = a) ∧
  (∀ L d' e', (L, d', e') ∈ depthElifs d e el → env.dp.fd L = d' ∧ env.dp.sd L = e')

def LabAtCases (env : LEnv) (d e off : Nat) (cs : SCases) : Prop :=
  (∀ L a, (L, a) ∈ addrCases env.dp d e off cs → env.addr L = a) ∧
  (∀ L d' e', (L, d', e') ∈ depthCases d e cs → env.dp.fd L = d' ∧ env.dp.sd L = e')

theorem LabAt.seq {env : LEnv} {d e off : Nat} {a b : SStmt} (h : LabAt env d e off (.seq a b)) :
    LabAt env d e off a ∧ LabAt env d e (off + sizeStmt env.dp d e a) b := by
  obtain ⟨h1, h2⟩ := h
  simp only [addrTable, depthTable, List.mem_append] at h1 h2
  exact ⟨⟨fun L a hm => h1 L a (.inl hm), fun L d' e' hm => h2 L d' e' (.inl hm)⟩,
    ⟨fun L a hm => h1 L a (.inr hm), fun L d' e' hm => h2 L d' e' (.inr hm)⟩⟩

theorem LabAt.ifBlock {env : LEnv} {d e off : Nat} {c : Ast.Expr} {thn : SStmt} {elifs : ElseIfs} {hasElse : Bool}
    {els : SStmt} {p : Pos} (h : LabAt env d e off (.ifBlock c thn elifs hasElse els p)) :
    LabAt env d e (off + (compileExpr c).length + 1) thn ∧
    LabAtElifs env d e (off + (compileExpr c).length + 1 + sizeStmt env.dp d e thn + 1) elifs ∧
    (hasElse = true → LabAt env d e (off + (compileExpr c).length + 1 + sizeStmt env.dp d e thn + 1 +
      sizeElifs env.dp d e elifs + 1) els) := by
  obtain ⟨h1, h2⟩ := h
  simp only [addrTable, depthTable, List.mem_append] at h1 h2
  refine ⟨⟨fun L a hm => h1 L a (.inl (.inl hm)), fun L d' e' hm => h2 L d' e' (.inl (.inl hm))⟩,
    ⟨fun L a hm => h1 L a (.inl (.inr hm)), fun L d' e' hm => h2 L d' e' (.inl (.inr hm))⟩, ?_⟩
  intro he
  subst he
  exact ⟨fun L a hm => h1 L a (.inr (by simpa using hm)), fun L d' e' hm => h2 L d' e' (.inr hm)⟩

theorem LabAt.select {env : LEnv} {d e off : Nat} {sel : Ast.Expr} {cases : SCases} {hasElse : Bool}
    {els : SStmt} {p : Pos} (h : LabAt env d e off (.select sel cases hasElse els p)) :
    LabAtCases env d (e + 1) (off + (compileExpr sel).length + 1 + 3) cases ∧
    (hasElse = true → LabAt env d (e + 1) (off + (compileExpr sel).length + 1 + 3 +
      sizeCases env.dp d (e + 1) cases + 1) els) := by
  obtain ⟨h1, h2⟩ := h
  simp only [addrTable, depthTable, List.mem_append] at h1 h2
  refine ⟨⟨fun L a hm => h1 L a (.inl hm), fun L d' e' hm => h2 L d' e' (.inl hm)⟩, ?_⟩
  intro he
  subst he
  exact ⟨fun L a hm => h1 L a (.inr (by simpa using hm)), fun L d' e' hm => h2 L d' e' (.inr hm)⟩

theorem LabAt.forNone {env : LEnv} {d e off : Nat} {x : Nat} {t : Ty} {lo hi : Ast.Expr} {body : SStmt} {p : Pos}
    (h : LabAt env d e off (.forLoop x t lo hi none body p)) :
    LabAt env (d + 1) e (off + (compileExprTo lo t).length + 2 + (compileExprTo hi t).length + 6 + 8) body := by
  obtain ⟨h1, h2⟩ := h
  simp only [addrTable, depthTable] at h1 h2
  exact ⟨h1, h2⟩

theorem LabAt.forSome {env : LEnv} {d e off : Nat} {x : Nat} {t : Ty} {lo hi se : Ast.Expr} {body : SStmt} {p : Pos}
    (h : LabAt env d e off (.forLoop x t lo hi (some se) body p)) :
    LabAt env (d + 1) e (off + (compileExprTo lo t).length + 2 + (compileExprTo hi t).length + 1 +
      (compileExpr se).length + 11 + 8) body ∧
    LabAt env (d + 1) e (off + (compileExprTo lo t).length + 2 + (compileExprTo hi t).length + 1 +
      (compileExpr se).length + 11 + sizeForBody env.dp d e body + 1 + 4 + 8) body := by
  obtain ⟨h1, h2⟩ := h
  simp only [addrTable, depthTable, List.mem_append] at h1 h2
  exact ⟨⟨fun L a hm => h1 L a (.inr hm), h2⟩, ⟨fun L a hm => h1 L a (.inl hm), h2⟩⟩

theorem LabAt.while {env : LEnv} {d e off : Nat} {c : Ast.Expr} {body : SStmt} {p : Pos}
    (h : LabAt env d e off (.while c body p)) : LabAt env d e (off + 1 + (compileExpr c).length + 1) body := by
  obtain ⟨h1, h2⟩ := h
  simp only [addrTable, depthTable] at h1 h2
  exact ⟨h1, h2⟩

theorem LabAt.doTop {env : LEnv} {d e off : Nat} {c : Ast.Expr} {u : Bool} {body : SStmt} {p : Pos}
    (h : LabAt env d e off (.doLoop c true u body p)) :
    LabAt env d e (off + 1 + (compileExpr c).length + (if u then 3 else 1)) body := by
  obtain ⟨h1, h2⟩ := h
  simp only [addrTable, depthTable, if_true] at h1 h2
  exact ⟨h1, h2⟩

theorem LabAt.doBottom {env : LEnv} {d e off : Nat} {c : Ast.Expr} {u : Bool} {body : SStmt} {p : Pos}
    (h : LabAt env d e off (.doLoop c false u body p)) : LabAt env d e (off + 1) body := by
  obtain ⟨h1, h2⟩ := h
  simp only [addrTable, depthTable, Bool.false_eq_true, if_false] at h1 h2
  exact ⟨h1, h2⟩

theorem LabAtElifs.cons {env : LEnv} {d e off : Nat} {c : Ast.Expr} {body : SStmt} {rest : ElseIfs}
    (h : LabAtElifs env d e off (.cons c body rest)) :
    LabAt env d e (off + 1 + (compileExpr c).length + 1) body ∧
    LabAtElifs env d e (off + 1 + (compileExpr c).length + 1 + sizeStmt env.dp d e body + 1) rest := by
  obtain ⟨h1, h2⟩ := h
  simp only [addrElifs, depthElifs, List.mem_append] at h1 h2
  exact ⟨⟨fun L a hm => h1 L a (.inl hm), fun L d' e' hm => h2 L d' e' (.inl hm)⟩,
    ⟨fun L a hm => h1 L a (.inr hm), fun L d' e' hm => h2 L d' e' (.inr hm)⟩⟩

theorem LabAtCases.cons {env : LEnv} {d e off : Nat} {conds : List CaseExpr} {body : SStmt} {rest : SCases}
    (h : LabAtCases env d e off (.cons conds body rest)) :
    LabAt env d e (off + 1 + sizeConds conds + (if conds.length > 1 then 1 else 0)) body ∧
    LabAtCases env d e (off + 1 + sizeConds conds + (if conds.length > 1 then 1 else 0) +
      sizeStmt env.dp d e body + 1) rest := by
  obtain ⟨h1, h2⟩ := h
  simp only [addrCases, depthCases, List.mem_append] at h1 h2
  exact ⟨⟨fun L a hm => h1 L a (.inl hm), fun L d' e' hm => h2 L d' e' (.inl hm)⟩,
    ⟨fun L a hm => h1 L a (.inr hm), fun L d' e' hm => h2 L d' e' (.inr hm)⟩⟩

/-- a label statement: its resolved address is the address of its `Label` instruction, its depths are the current ones -/
theorem LabAt.label {env : LEnv} {d e off : Nat} {L : Nat} {name : String} {p : Pos}
    (h : LabAt env d e off (.label L name p)) : env.addr L = off ∧ env.dp.fd L = d ∧ env.dp.sd L = e := by
  obtain ⟨h1, h2⟩ := h
  exact ⟨h1 L off (by simp [addrTable]), h2 L d e (by simp [depthTable])⟩

/-- a label inside a statement is at least as deep as the statement -/
theorem LabAt.depth_ge {env : LEnv} {d e off : Nat} {s : SStmt} (h : LabAt env d e off s) {L : Nat} (hL : L ∈ s.labels) :
    d ≤ env.dp.fd L ∧ e ≤ env.dp.sd L := by
  obtain ⟨d', e', hm, h1, h2⟩ := depth_of_label s d e L hL
  obtain ⟨e1, e2⟩ := h.2 L d' e' hm
  omega

theorem LabAtElifs.depth_ge {env : LEnv} {d e off : Nat} {el : ElseIfs} (h : LabAtElifs env d e off el) {L : Nat}
    (hL : L ∈ el.labels) : d ≤ env.dp.fd L ∧ e ≤ env.dp.sd L := by
  obtain ⟨d', e', hm, h1, h2⟩ := depth_of_label_elifs el d e L hL
  obtain ⟨e1, e2⟩ := h.2 L d' e' hm
  omega

theorem LabAtCases.depth_ge {env : LEnv} {d e off : Nat} {cs : SCases} (h : LabAtCases env d e off cs) {L : Nat}
    (hL : L ∈ cs.labels) : d ≤ env.dp.fd L ∧ e ≤ env.dp.sd L := by
  obtain ⟨d', e', hm, h1, h2⟩ := depth_of_label_cases cs d e L hL
  obtain ⟨e1, e2⟩ := h.2 L d' e' hm
  omega


/-! ### the program context and the statement specification -/

/-- what is fixed throughout the statement theorem: what the VM is given (code, statement addresses, label depths), the
generator's label environment, the variable slots, whether the program contains a `RESUME label`, and the whole program body
`B` with its placement `base` (what a GOSUB and a handler enter) -/
structure Ctx where
  prog : Prog
  env : LEnv
  sl : List Ty
  rl : Bool
  B : SStmt
  base : Nat

/-- the program the reference semantics runs (and a GOSUB / a handler re-enters) -/
def Ctx.P (C : Ctx) : Stmt := desugar C.B

/-- **[Ref-only fact, proved in `Thm/ErrLShape.lean`]** the label of a jump that leaves a well-formed statement whose labels
have their recorded depths (the depth half of `LabAt`) is not inside it and not deeper than it (a `GOTO` by its premise; a
`RESUME label` names a label at depth 0 / 0 — the failed SELECT selector and the failed FOR header pass the jump on
uncaught, so the depths are what excludes a label inside them) -/
def JumpShape (C : Ctx) : Prop :=
  ∀ (stmt : SStmt) (d e fuel gd : Nat) (m : Mode) (s s' : ESt) (L : Nat), Wf C.sl C.env.dp C.rl d e stmt →
    (∀ L d' e', (L, d', e') ∈ depthTable d e stmt → C.env.dp.fd L = d' ∧ C.env.dp.sd L = e') →
    exec fuel C.P gd (desugar stmt) m s = (s', .jump L) →
    L ∉ stmt.labels ∧ C.env.dp.fd L ≤ d ∧ C.env.dp.sd L ≤ e

/-- `JumpShape` at a statement placed in the code -/
theorem Ctx.Ok.jump_depths {C : Ctx} (hs : JumpShape C) {stmt : SStmt} {d e off fuel gd : Nat} {m : Mode} {s s' : ESt}
    {L : Nat} (hw : Wf C.sl C.env.dp C.rl d e stmt) (hl : LabAt C.env d e off stmt)
    (h : exec fuel C.P gd (desugar stmt) m s = (s', .jump L)) :
    L ∉ stmt.labels ∧ C.env.dp.fd L ≤ d ∧ C.env.dp.sd L ≤ e := hs stmt d e fuel gd m s s' L hw hl.2 h

/-- the context is consistent -/
structure Ctx.Ok (C : Ctx) : Prop where
  pok : ProgOk C.prog
  hcode : CodeAt C.prog.code C.base (compileStmt C.env "" 0 0 C.base C.B)
  hhalt : ∃ p, C.prog.code[C.base + sizeStmt C.env.dp 0 0 C.B]? = some (.base .halt, p)
  wf : Wf C.sl C.env.dp C.rl 0 0 C.B
  lab : LabAt C.env 0 0 C.base C.B
  gosubOk : ∀ L, C.env.dp.fd L = 0 → L ∈ C.B.labels
  /-- the statement-address table is strictly ascending … -/
  sorted : C.prog.marks.Pairwise (· < ·)
  /-- … and contains the body's entries, followed by the final `Halt` -/
  hmarks : MarksAt C.prog.marks (marksStmt C.env.dp 0 0 C.base C.B) (C.base + sizeStmt C.env.dp 0 0 C.B)
  /-- the label-depth table knows every label of the body -/
  depthsOk : ∀ L ∈ C.B.labels, lookupLabelDepth (C.env.addr L) C.prog.depths = some (C.env.dp.fd L, C.env.dp.sd L)
  shape : JumpShape C

/-- how a statement is entered: from its first instruction, or — in seek mode — at the `Label` instruction of a label
defined inside it -/
def Entry (env : LEnv) (off : Nat) (stmt : SStmt) : Mode → EVm → Prop
  | .run, σ => σ.b.pc = off
  | .seek L, σ => L ∈ stmt.labels ∧ σ.b.pc = env.addr L

/-- the register-stack height recorded at the innermost pending GOSUB (`1` when none is pending): what `ResumeLabel` counts
the label's FOR depth from -/
def rhTop : List (Nat × Nat × Nat) → Nat
  | [] => 1
  | (_, rh, _) :: _ => rh

/-- the value-stack height recorded at the innermost pending GOSUB (`0` when none is pending) -/
def vhTop : List (Nat × Nat × Nat) → Nat
  | [] => 0
  | (_, _, vh) :: _ => vh

/-- what the stack cut of `ResumeLabel` needs to know about the state in which a unit fails: the cut is *relative* to the
heights recorded at the innermost pending GOSUB (26672d3: `register_stack.truncate(registers + for depth)`,
`value_stack.truncate(values + select depth)`), so outside a handler the register stack is exactly `d` frames higher than
that GOSUB found it, and the callers' part of the value stack lies below the recorded height.  (`case_gosub` establishes it
for the routine, FOR / SELECT keep it one level deeper.) -/
def CutInv (C : Ctx) (d vb : Nat) (x : EVm) : Prop :=
  C.rl = true → x.errAddr = none → vb ≤ vhTop x.b.gosubs ∧ rhTop x.b.gosubs + d = x.b.regStack.length + 1

/-- `CutInv` looks at the register stack's height, the GOSUB stack and `last_error_address` only -/
theorem CutInv.congr {C : Ctx} {d vb : Nat} {σ τ : EVm} (h : CutInv C d vb σ) (e1 : τ.b.regStack = σ.b.regStack)
    (e4 : τ.b.gosubs = σ.b.gosubs) (e5 : τ.errAddr = σ.errAddr) : CutInv C d vb τ :=
  fun hrl hn => by rw [e1, e4]; exact h hrl (by rw [← e5]; exact hn)

/-- one FOR deeper, on top of the frame `PushRegisters` saved -/
theorem CutInv.push {C : Ctx} {d vb : Nat} {σ τ : EVm} (h : CutInv C d vb σ) {f : Regs}
    (e1 : τ.b.regStack = f :: σ.b.regStack) (e4 : τ.b.gosubs = σ.b.gosubs) (e5 : τ.errAddr = σ.errAddr) :
    CutInv C (d + 1) vb τ :=
  fun hrl hn => by
    obtain ⟨a, b⟩ := h hrl (by rw [← e5]; exact hn)
    rw [e1, e4]; exact ⟨a, by simp only [List.length_cons]; omega⟩

/-- what a statement at FOR depth `d` / SELECT depth `e` may assume about the stacks of its entry state; `vb`: the number
of value-stack entries that belong to the callers (the GOSUBs in progress); `gd`: the number of GOSUBs in progress -/
structure Inv (C : Ctx) (d e vb gd : Nat) (x : EVm) : Prop where
  hd : d ≤ x.b.regStack.length
  he : vb + e ≤ x.b.vals.length
  gs : x.b.gosubs.length = gd
  cut : CutInv C d vb x

/-- the value stack at an exit where `e'` selectors are live and the jump layer's specification says `drop k`: *exactly*
that while a handler is running (nothing is dispatched, nothing is abandoned), and otherwise only high enough — operands and
selectors abandoned by handled errors stay on it, and `ResumeLabel` cuts it -/
def ValsOk (vb e' k : Nat) (σ τ : EVm) : Prop :=
  vb + e' ≤ τ.b.vals.length ∧ (σ.errAddr ≠ none → τ.b.vals = σ.b.vals.drop k)

/-- what `HKeep` compares: `last_error_address` and — while a handler is running — the heights recorded at its dispatch
(`last_error_marks`: what `Resume` / `ResumeNext` cut the stacks back to) -/
def hkey (x : EVm) : Option Nat × (Nat × Nat) := (x.errAddr, if x.errAddr.isSome then x.errMarks else (0, 0))

/-- `last_error_address` at an exit `normal` / `jump` / `ret` / `resumed` is what it was: a handler that was running is still
running — with the heights recorded at its dispatch —, and a handler that ran in between has resumed.  (An equation between
keys: `rfl` for a step that leaves the error registers alone, `.trans` to compose.) -/
def HKeep (σ τ : EVm) : Prop := hkey τ = hkey σ

theorem HKeep.addr {σ τ : EVm} (h : HKeep σ τ) : τ.errAddr = σ.errAddr := congrArg Prod.fst h

theorem HKeep.marks {σ τ : EVm} (h : HKeep σ τ) (hne : σ.errAddr ≠ none) : τ.errMarks = σ.errMarks := by
  have h1 := h.addr
  have h2 : (hkey τ).2 = (hkey σ).2 := congrArg Prod.snd h
  simp only [hkey, h1] at h2
  cases hs : σ.errAddr with
  | none => exact absurd hs hne
  | some a => simpa [hs] using h2

theorem HKeep.of_eq {σ τ : EVm} (h1 : τ.errAddr = σ.errAddr) (h2 : τ.errMarks = σ.errMarks) : HKeep σ τ := by
  simp only [HKeep, hkey, h1, h2]

/-- outside a handler the recorded heights do not matter -/
theorem HKeep.of_none {σ τ : EVm} (h1 : σ.errAddr = none) (h2 : τ.errAddr = none) : HKeep σ τ := by
  simp only [HKeep, hkey, h1, h2]; rfl

def resInstr (env : LEnv) : Resumed → EInstr
  | .again => .resume
  | .next => .resumeNext
  | .label L => .resumeLabel (env.addr L)

/-- what the code of a statement does, given what the reference semantics says the statement does.  The statement sits at
FOR depth `d` and SELECT depth `e`, ends at address `fin` and is followed in the statement-address table by the entry `nx`;
everything is *relative* to the stacks of the entry state `σ` (`vb`: see `Inv`):

* `normal`: the run reaches `fin` — or `nx`, when RESUME NEXT / ON ERROR RESUME NEXT skipped the statement's last unit
  (only outside a handler: `σ.errAddr = none`) — with the register, var-path and GOSUB stacks as they were and the value stack `ValsOk`;
* `jump L`, `ret p`: as in the jump layer (value stack: `ValsOk`);
* `resumed k`: the run reaches the `Resume` / `ResumeNext` / `ResumeLabel` instruction — not executed: where it goes is the
  business of the unit that failed (`raise_correct`) — inside a handler, with `last_error_address` and the recorded heights
  untouched (`HKeep`); `ret`-style in the stacks: whatever frames `X` of the handler's own FOR loops and values `Y` of its
  SELECT blocks lie on top, the entry state's stacks below the statement's depths are underneath (the instruction cuts them
  back);
* `halted` / `error`: the run ends that way with the same output; the other outcomes claim nothing. -/
def StmtSpec (C : Ctx) (d e vb fin nx : Nat) (σ : EVm) : ESt × Outcome → Prop
  | (s', .normal) => ∃ τ, Steps C.prog σ τ ∧ (τ.b.pc = fin ∨ (τ.b.pc = nx ∧ σ.errAddr = none)) ∧ ERel C.sl C.env s' τ ∧
      τ.b.regStack = σ.b.regStack ∧ ValsOk vb e 0 σ τ ∧ τ.b.paths = σ.b.paths ∧ τ.b.gosubs = σ.b.gosubs ∧ HKeep σ τ
  | (s', .halted) => ∃ τ υ, Steps C.prog σ τ ∧ step C.prog τ = .halt υ ∧ Rel C.sl s'.st υ.b
  | (s', .jump L) => ∃ τ, Steps C.prog σ τ ∧ τ.b.pc = C.env.addr L ∧ ERel C.sl C.env s' τ ∧
      τ.b.regStack = σ.b.regStack.drop (d - C.env.dp.fd L) ∧
      ValsOk vb (C.env.dp.sd L) (e - C.env.dp.sd L) σ τ ∧ τ.b.paths = σ.b.paths ∧ τ.b.gosubs = σ.b.gosubs ∧ HKeep σ τ
  | (s', .ret p) => ∃ τ, Steps C.prog σ τ ∧ C.prog.code[τ.b.pc]? = some (.base .ret, p) ∧ ERel C.sl C.env s' τ ∧
      (∃ X, τ.b.regStack = X ++ σ.b.regStack.drop d) ∧ vb ≤ τ.b.vals.length ∧
      (σ.errAddr ≠ none → ∃ Y, τ.b.vals = Y ++ σ.b.vals.drop e) ∧
      τ.b.paths = σ.b.paths ∧ τ.b.gosubs = σ.b.gosubs ∧ HKeep σ τ
  | (s', .resumed k) => ∃ τ p, Steps C.prog σ τ ∧ C.prog.code[τ.b.pc]? = some (resInstr C.env k, p) ∧
      ERelH C.sl C.env s' τ ∧ s'.inH = false ∧ s'.err = none ∧ σ.errAddr ≠ none ∧ HKeep σ τ ∧
      τ.b.paths = σ.b.paths ∧ τ.b.gosubs = σ.b.gosubs ∧
      (∃ X, τ.b.regStack = X ++ σ.b.regStack.drop d) ∧ (∃ Y, τ.b.vals = Y ++ σ.b.vals.drop e) ∧
      (∀ L, k = .label L → C.rl = true ∧ L ∈ C.B.labels ∧ C.env.dp.fd L = 0 ∧ C.env.dp.sd L = 0)
  | (s', .error c p) => ∃ τ υ, Steps C.prog σ τ ∧ step C.prog τ = .error c p υ ∧ υ.b.out = s'.st.out
  | (_, .inexact) => True
  | (_, .outOfFuel) => True
  | (_, .illFormed) => True
  | (_, .unspec) => True
  | (_, .notHere) => True

/-- the induction hypothesis of the statement theorem at a given amount of fuel: for every statement placed anywhere in the
code, at any depths, entered in either way, on top of any stacks that are high enough -/
def StmtIH (C : Ctx) (fuel : Nat) : Prop :=
  ∀ (stmt : SStmt) (sfx : String) (d e off nx vb gd : Nat) (m : Mode) (σ : EVm) (s : ESt),
    CodeAt C.prog.code off (compileStmt C.env sfx d e off stmt) → LabAt C.env d e off stmt →
    Wf C.sl C.env.dp C.rl d e stmt → MarksAt C.prog.marks (marksStmt C.env.dp d e off stmt) nx →
    off + sizeStmt C.env.dp d e stmt ≤ nx → Entry C.env off stmt m σ → ERel C.sl C.env s σ → Inv C d e vb gd σ →
    StmtSpec C d e vb (off + sizeStmt C.env.dp d e stmt) nx σ (exec fuel C.P gd (desugar stmt) m s)

/-- the induction hypothesis at every smaller or equal amount of fuel -/
def StmtIHle (C : Ctx) (fuel : Nat) : Prop := ∀ f, f ≤ fuel → StmtIH C f

theorem StmtIHle.self {C : Ctx} {fuel : Nat} (h : StmtIHle C fuel) : StmtIH C fuel := h fuel (Nat.le_refl _)

theorem StmtIHle.mono {C : Ctx} {fuel f : Nat} (h : StmtIHle C fuel) (hf : f ≤ fuel) : StmtIHle C f :=
  fun g hg => h g (Nat.le_trans hg hf)

theorem stmtIH_zero (C : Ctx) : StmtIH C 0 := by
  intro stmt sfx d e off nx vb gd m σ s _ _ _ _ _ _ _ _
  simp only [exec, StmtSpec]

/-- a statement that defines no label is entered from its first instruction -/
theorem Entry.of_nolabels {env : LEnv} {off : Nat} {stmt : SStmt} {m : Mode} {σ : EVm} (h : Entry env off stmt m σ)
    (hl : stmt.labels = []) : m = .run ∧ σ.b.pc = off := by
  cases m with
  | run => exact ⟨rfl, h⟩
  | seek L => obtain ⟨h1, _⟩ := h; rw [hl] at h1; exact absurd h1 (by simp)

/-- the steps of a prefix that leaves the four stacks and the error registers alone -/
structure Quiet (σ τ : EVm) : Prop where
  regStack : τ.b.regStack = σ.b.regStack
  vals : τ.b.vals = σ.b.vals
  paths : τ.b.paths = σ.b.paths
  gosubs : τ.b.gosubs = σ.b.gosubs
  errAddr : HKeep σ τ

theorem Quiet.refl (σ : EVm) : Quiet σ σ := ⟨rfl, rfl, rfl, rfl, rfl⟩

theorem Quiet.trans {a b c : EVm} (h₁ : Quiet a b) (h₂ : Quiet b c) : Quiet a c :=
  ⟨h₂.regStack.trans h₁.regStack, h₂.vals.trans h₁.vals, h₂.paths.trans h₁.paths, h₂.gosubs.trans h₁.gosubs,
    h₂.errAddr.trans h₁.errAddr⟩

theorem Quiet.inv {C : Ctx} {d e vb gd : Nat} {σ τ : EVm} (h : Quiet σ τ) (hi : Inv C d e vb gd σ) : Inv C d e vb gd τ :=
  ⟨by rw [h.regStack]; exact hi.hd, by rw [h.vals]; exact hi.he, by rw [h.gosubs]; exact hi.gs,
    hi.cut.congr h.regStack h.gosubs h.errAddr.addr⟩

/-- the invariant at a state with the same register, value and GOSUB stacks and the same `last_error_address` -/
theorem Inv.congr {C : Ctx} {d e vb gd : Nat} {σ τ : EVm} (hi : Inv C d e vb gd σ) (e1 : τ.b.regStack = σ.b.regStack)
    (e2 : vb + e ≤ τ.b.vals.length) (e4 : τ.b.gosubs = σ.b.gosubs) (e5 : τ.errAddr = σ.errAddr) : Inv C d e vb gd τ :=
  ⟨by rw [e1]; exact hi.hd, e2, by rw [e4]; exact hi.gs, hi.cut.congr e1 e4 e5⟩

/-- the same specification reached after a prefix of quiet steps -/
theorem StmtSpec.of_steps {C : Ctx} {d e vb fin nx : Nat} {σ τ : EVm} {r : ESt × Outcome} (h₁ : Steps C.prog σ τ)
    (hq : Quiet σ τ) (h₂ : StmtSpec C d e vb fin nx τ r) : StmtSpec C d e vb fin nx σ r := by
  obtain ⟨s', o⟩ := r
  obtain ⟨e1, e2, e3, e4, e5⟩ := hq
  cases o with
  | normal =>
    obtain ⟨υ, st, hp, hr, a1, ⟨a2, a2'⟩, a3, a4, a5⟩ := h₂
    exact ⟨υ, h₁.trans st, hp.imp id (fun h => ⟨h.1, by rw [← e5.addr]; exact h.2⟩), hr, by rw [a1, e1],
      ⟨a2, fun hh => by rw [a2' (by rw [e5.addr]; exact hh), e2]⟩, by rw [a3, e3], by rw [a4, e4], a5.trans e5⟩
  | halted =>
    obtain ⟨υ, ω, st, hh, hr⟩ := h₂
    exact ⟨υ, ω, h₁.trans st, hh, hr⟩
  | jump L =>
    obtain ⟨υ, st, hp, hr, a1, ⟨a2, a2'⟩, a3, a4, a5⟩ := h₂
    exact ⟨υ, h₁.trans st, hp, hr, by rw [a1, e1], ⟨a2, fun hh => by rw [a2' (by rw [e5.addr]; exact hh), e2]⟩, by rw [a3, e3],
      by rw [a4, e4], a5.trans e5⟩
  | ret p =>
    obtain ⟨υ, st, hp, hr, a1, a2, a2', a3, a4, a5⟩ := h₂
    exact ⟨υ, h₁.trans st, hp, hr, by rw [← e1]; exact a1, a2, fun hh => by rw [← e2]; exact a2' (by rw [e5.addr]; exact hh),
      by rw [a3, e3], by rw [a4, e4], a5.trans e5⟩
  | resumed k =>
    obtain ⟨υ, p, st, hp, hr, b1, b2, b3, b4, b5, b6, bX, bY, b7⟩ := h₂
    exact ⟨υ, p, h₁.trans st, hp, hr, b1, b2, by rw [← e5.addr]; exact b3, b4.trans e5, by rw [b5, e3], by rw [b6, e4],
      by rw [← e1]; exact bX, by rw [← e2]; exact bY, b7⟩
  | error c p =>
    obtain ⟨υ, ω, st, hh, ho⟩ := h₂
    exact ⟨υ, ω, h₁.trans st, hh, ho⟩
  | inexact => trivial
  | outOfFuel => trivial
  | illFormed => trivial
  | unspec => trivial
  | notHere => trivial

/-- the same specification with the end address written differently -/
theorem StmtSpec.addr {C : Ctx} {d e vb fin fin' nx : Nat} {σ : EVm} {r : ESt × Outcome} (he : fin = fin')
    (h : StmtSpec C d e vb fin nx σ r) : StmtSpec C d e vb fin' nx σ r := he ▸ h

/-- an outcome that ends the program or is outside the claim is passed on by every construct, whatever the depths and the
addresses -/
theorem StmtSpec.pass {C : Ctx} {d e vb fin nx d' e' vb' fin' nx' : Nat} {σ : EVm} {s' : ESt} {o : Outcome}
    (ho : ∀ L, o ≠ .jump L) (hn : o ≠ .normal) (hr : ∀ p, o ≠ .ret p) (hk : ∀ k, o ≠ .resumed k)
    (h : StmtSpec C d e vb fin nx σ (s', o)) : StmtSpec C d' e' vb' fin' nx' σ (s', o) := by
  cases o with
  | normal => exact absurd rfl hn
  | jump L => exact absurd rfl (ho L)
  | ret p => exact absurd rfl (hr p)
  | resumed k => exact absurd rfl (hk k)
  | halted => exact h
  | error c p => exact h
  | inexact => trivial
  | outOfFuel => trivial
  | illFormed => trivial
  | unspec => trivial
  | notHere => trivial

/-- a `resumed` answer is passed on by a construct that keeps the depths (IF, WHILE, DO, a sequence) -/
theorem StmtSpec.pass_resumed {C : Ctx} {d e vb fin nx vb' fin' nx' : Nat} {σ : EVm} {s' : ESt} {k : Resumed}
    (h : StmtSpec C d e vb fin nx σ (s', .resumed k)) : StmtSpec C d e vb' fin' nx' σ (s', .resumed k) := h

/-- a jump that leaves a sub-statement at the same depths towards a label *inside* the enclosing statement arrives at the
label with the stacks the enclosing statement may assume: it can be re-entered in seek mode -/
theorem jump_caught {C : Ctx} {d e vb gd fin nx : Nat} {σ : EVm} {s' : ESt} {L : Nat} (hi : Inv C d e vb gd σ)
    (h : StmtSpec C d e vb fin nx σ (s', .jump L)) (h1 : C.env.dp.fd L ≤ d) (h2 : d ≤ C.env.dp.fd L)
    (h3 : C.env.dp.sd L ≤ e) (h4 : e ≤ C.env.dp.sd L) :
    ∃ τ, Steps C.prog σ τ ∧ τ.b.pc = C.env.addr L ∧ ERel C.sl C.env s' τ ∧ Inv C d e vb gd τ ∧
      τ.b.regStack = σ.b.regStack ∧ ValsOk vb e 0 σ τ ∧ τ.b.paths = σ.b.paths ∧ τ.b.gosubs = σ.b.gosubs ∧ HKeep σ τ := by
  obtain ⟨τ, st, hp, hr, e1, e2, e3, e4, e5⟩ := h
  have hd : d - C.env.dp.fd L = 0 := by omega
  have he : e - C.env.dp.sd L = 0 := by omega
  have hse : C.env.dp.sd L = e := by omega
  rw [hd] at e1; rw [he, hse] at e2
  simp only [List.drop_zero] at e1
  exact ⟨τ, st, hp, hr, hi.congr e1 e2.1 e4 e5.addr, e1, e2, e3, e4, e5⟩

/-- a statement's result relative to a state reached from `σ` by a run that kept the register, var-path and GOSUB stacks and
left the value stack `ValsOk` is a result relative to `σ` (what composing two statements needs) -/
theorem StmtSpec.after {C : Ctx} {d e vb fin nx : Nat} {σ τ : EVm} {r : ESt × Outcome} (h₁ : Steps C.prog σ τ)
    (e1 : τ.b.regStack = σ.b.regStack) (e2 : ValsOk vb e 0 σ τ) (e3 : τ.b.paths = σ.b.paths)
    (e4 : τ.b.gosubs = σ.b.gosubs) (e5 : HKeep σ τ)
    (h₂ : StmtSpec C d e vb fin nx τ r) : StmtSpec C d e vb fin nx σ r := by
  obtain ⟨s', o⟩ := r
  have hne : σ.errAddr ≠ none → τ.errAddr ≠ none := fun hh => by rw [e5.addr]; exact hh
  have hv : σ.errAddr ≠ none → τ.b.vals = σ.b.vals := fun hh => by simpa using e2.2 hh
  cases o with
  | normal =>
    obtain ⟨υ, st, hp, hr, a1, ⟨a2, a2'⟩, a3, a4, a5⟩ := h₂
    exact ⟨υ, h₁.trans st, hp.imp id (fun h => ⟨h.1, by rw [← e5.addr]; exact h.2⟩), hr, by rw [a1, e1],
      ⟨a2, fun hh => by rw [a2' (hne hh), hv hh]⟩, by rw [a3, e3], by rw [a4, e4], a5.trans e5⟩
  | halted =>
    obtain ⟨υ, ω, st, hh, hr⟩ := h₂
    exact ⟨υ, ω, h₁.trans st, hh, hr⟩
  | jump L =>
    obtain ⟨υ, st, hp, hr, a1, ⟨a2, a2'⟩, a3, a4, a5⟩ := h₂
    exact ⟨υ, h₁.trans st, hp, hr, by rw [a1, e1], ⟨a2, fun hh => by rw [a2' (hne hh), hv hh]⟩, by rw [a3, e3],
      by rw [a4, e4], a5.trans e5⟩
  | ret p =>
    obtain ⟨υ, st, hp, hr, a1, a2, a2', a3, a4, a5⟩ := h₂
    exact ⟨υ, h₁.trans st, hp, hr, by rw [← e1]; exact a1, a2, fun hh => by rw [← hv hh]; exact a2' (hne hh),
      by rw [a3, e3], by rw [a4, e4], a5.trans e5⟩
  | resumed k =>
    obtain ⟨υ, p, st, hp, hr, b1, b2, b3, b4, b5, b6, bX, bY, b7⟩ := h₂
    have hσne : σ.errAddr ≠ none := by rw [← e5.addr]; exact b3
    exact ⟨υ, p, h₁.trans st, hp, hr, b1, b2, hσne, b4.trans e5, by rw [b5, e3], by rw [b6, e4],
      by rw [← e1]; exact bX, by rw [← hv hσne]; exact bY, b7⟩
  | error c p =>
    obtain ⟨υ, ω, st, hh, ho⟩ := h₂
    exact ⟨υ, ω, h₁.trans st, hh, ho⟩
  | inexact => trivial
  | outOfFuel => trivial
  | illFormed => trivial
  | unspec => trivial
  | notHere => trivial

/-- a `resumed` answer that comes out of a FOR body / a SELECT block (one level deeper, on top of one more frame / selector)
is passed on by the FOR / SELECT, like `ret` -/
theorem StmtSpec.resumed_out {C : Ctx} {d e d' e' vb vb' fin nx fin' nx' : Nat} {σ σ' : EVm} {s' : ESt} {k : Resumed}
    (h : StmtSpec C d' e' vb' fin' nx' σ' (s', .resumed k)) (hst : Steps C.prog σ σ')
    (e1 : σ'.b.regStack.drop d' = σ.b.regStack.drop d) (e2 : σ'.b.vals.drop e' = σ.b.vals.drop e)
    (e3 : σ'.b.paths = σ.b.paths) (e4 : σ'.b.gosubs = σ.b.gosubs) (e5 : HKeep σ σ') :
    StmtSpec C d e vb fin nx σ (s', .resumed k) := by
  obtain ⟨υ, p, st, hp, hr, b1, b2, b3, b4, b5, b6, bX, bY, b7⟩ := h
  exact ⟨υ, p, hst.trans st, hp, hr, b1, b2, by rw [← e5.addr]; exact b3, b4.trans e5, by rw [b5, e3], by rw [b6, e4],
    by rw [← e1]; exact bX, by rw [← e2]; exact bY, b7⟩

/-- **the jump-handling rule, VM side**: a jump that came out of a part of `stmt` (specification relative to `σ` at the depths
of `stmt`) to a label *inside* `stmt` is a re-entry of `stmt` in seek mode, one unit of fuel down -/
theorem restart_seek {C : Ctx} {fuel : Nat} (ih : StmtIH C fuel) {stmt : SStmt} {sfx : String} {d e off nx vb gd : Nat}
    {σ : EVm} (hc : CodeAt C.prog.code off (compileStmt C.env sfx d e off stmt)) (hl : LabAt C.env d e off stmt)
    (hw : Wf C.sl C.env.dp C.rl d e stmt) (hm : MarksAt C.prog.marks (marksStmt C.env.dp d e off stmt) nx)
    (hnx : off + sizeStmt C.env.dp d e stmt ≤ nx) (hi : Inv C d e vb gd σ)
    {fin nx' : Nat} {s' : ESt} {L : Nat} (h : StmtSpec C d e vb fin nx' σ (s', .jump L))
    (hdep : C.env.dp.fd L ≤ d ∧ C.env.dp.sd L ≤ e) (hL : L ∈ stmt.labels) :
    StmtSpec C d e vb (off + sizeStmt C.env.dp d e stmt) nx σ (exec fuel C.P gd (desugar stmt) (.seek L) s') := by
  obtain ⟨g1, g2⟩ := hl.depth_ge hL
  obtain ⟨τ, st, hp, hr, hi', a1, a2, a3, a4, a5⟩ := jump_caught hi h hdep.1 g1 hdep.2 g2
  have := ih stmt sfx d e off nx vb gd (.seek L) τ s' hc hl hw hm hnx ⟨hL, hp⟩ hr hi'
  exact StmtSpec.after st a1 a2 a3 a4 a5 this


/-! ### the error dispatch of the VM (`interpret`, the `Err` arm): `Thm/ErrLDispatch.lean` -/

export RbThm.ErrLDispatch (dispatchTo skipTo raise_address raise_next raise_none dispatch_unit leaveHandler_restores
  truncTop_suffix)

/-- `Resume` / `ResumeNext` at `τ` with the target `t` the finder answered: the state the run continues in, given the frame `r`,
the register stack `R` and the value stack `V` recorded under whatever the handler left on top -/
def resumeTo (τ : EVm) (t : Nat) (r : Regs) (R : List Regs) (V : List Val) : EVm :=
  { τ with errAddr := none, errCode := none, ctx := τ.ctx - 1, b := { τ.b with pc := t, regs := r, regStack := R, vals := V } }

theorem resume_step {P : Prog} {τ : EVm} {q : Pos} (hc : P.code[τ.b.pc]? = some (.resume, q)) {a t : Nat}
    (he : τ.errAddr = some a) (hf : findCurrent P.marks a = some t) {r : Regs} {R X : List Regs} {V Y : List Val}
    (hm : τ.errMarks = (1 + R.length, V.length)) (hrs : τ.b.regs :: τ.b.regStack = X ++ r :: R) (hv : τ.b.vals = Y ++ V) :
    step P τ = .next (resumeTo τ t r R V) := by
  simp only [step, hc, he, hf]
  exact leaveHandler_restores { τ with errAddr := none, errCode := none, ctx := τ.ctx - 1, b := { τ.b with pc := t } } r R X V Y
    hm hrs hv

theorem resumeNext_step {P : Prog} {τ : EVm} {q : Pos} (hc : P.code[τ.b.pc]? = some (.resumeNext, q)) {a t : Nat}
    (he : τ.errAddr = some a) (hf : findNext P.marks a = some t) {r : Regs} {R X : List Regs} {V Y : List Val}
    (hm : τ.errMarks = (1 + R.length, V.length)) (hrs : τ.b.regs :: τ.b.regStack = X ++ r :: R) (hv : τ.b.vals = Y ++ V) :
    step P τ = .next (resumeTo τ t r R V) := by
  simp only [step, hc, he, hf]
  exact leaveHandler_restores { τ with errAddr := none, errCode := none, ctx := τ.ctx - 1, b := { τ.b with pc := t } } r R X V Y
    hm hrs hv

/-- `ResumeLabel a` at `τ`: the state the run continues in, given the cut register stack `r :: rs` -/
def resumeLabelTo (τ : EVm) (a sd : Nat) (r : Regs) (rs : List Regs) : EVm :=
  { τ with errAddr := none, errCode := none, ctx := 0,
           b := { τ.b with pc := a, regs := r, regStack := rs, vals := truncTop (vhTop τ.b.gosubs + sd) τ.b.vals } }

theorem resumeLabel_step {P : Prog} {τ : EVm} {a : Nat} {q : Pos} (hc : P.code[τ.b.pc]? = some (.resumeLabel a, q)) {ea : Nat}
    (he : τ.errAddr = some ea) {fd sd : Nat} (hd : lookupLabelDepth a P.depths = some (fd, sd)) {r : Regs} {rs : List Regs}
    (ht : truncTop (rhTop τ.b.gosubs + fd) (τ.b.regs :: τ.b.regStack) = r :: rs) :
    step P τ = .next (resumeLabelTo τ a sd r rs) := by
  simp only [step, hc, he, hd]
  cases hg : τ.b.gosubs with
  | nil =>
    rw [hg] at ht
    simp only [rhTop] at ht
    simp only [ht, resumeLabelTo, hg, vhTop]
  | cons g gs =>
    obtain ⟨ga, rh, vh⟩ := g
    rw [hg] at ht
    simp only [rhTop] at ht
    simp only [ht, resumeLabelTo, hg, vhTop]

/-- cutting a register stack `A ++ B` with `A` non-empty to the height of `B` plus one keeps `B` under one frame -/
theorem truncTop_keep {α : Type} (A B : List α) (hA : A ≠ []) : ∃ r, truncTop (B.length + 1) (A ++ B) = r :: B := by
  have h1 : (A ++ B).length - (B.length + 1) = A.length - 1 := by
    have : 0 < A.length := List.length_pos_iff.mpr hA
    simp only [List.length_append]; omega
  have h2 : (A.drop (A.length - 1)).length = 1 := by
    have : 0 < A.length := List.length_pos_iff.mpr hA
    simp only [List.length_drop]; omega
  match hl : A.drop (A.length - 1), h2 with
  | [r], _ =>
    refine ⟨r, ?_⟩
    simp only [truncTop, h1]
    rw [List.drop_append_of_le_length (by omega), hl]; rfl

theorem truncTop_length {α : Type} (n : Nat) (l : List α) : (truncTop n l).length = min n l.length := by
  simp only [truncTop, List.length_drop]; omega

/-! ### the raise clause -/

/-- where RESUME / RESUME NEXT / ON ERROR RESUME NEXT leave the VM, relative to the state `y` in which the unit failed: the
register frame and every stack are as the failing instruction left them (operands the unit had pushed are still there), no
handler is running -/
structure Resumes (y τ : EVm) : Prop where
  regStack : τ.b.regStack = y.b.regStack
  vals : τ.b.vals = y.b.vals
  paths : τ.b.paths = y.b.paths
  gosubs : τ.b.gosubs = y.b.gosubs
  errAddr : τ.errAddr = none
  /-- a unit only ever resumes outside a handler -/
  notH : y.errAddr = none
  /-- the registers of the interrupted frame (the limit and the step of a FOR whose increment failed) -/
  regs : τ.b.regs = y.b.regs

/-- what the VM does after a resume unit `[ustart, unext)` (`unext`: the entry that follows the unit in the
statement-address table) at depths `d` / `e` failed — `x`: the state whose step failed, `y`: the state the error was
dispatched from — given what `ErrL.Ref.raise` answers:

* `again`: the run reaches `ustart` (`find_current` of the error address);
* `next`: the run reaches `unext` (`find_next` of the error address);
* `out o`: as `StmtSpec` says for `o` (`error`: no handler — the run ends with the error; `halted`: the handler ran into the
  end of the program; `jump L'`: the handler ended with `RESUME L'` — the run is at the label with the stacks cut) -/
def RaiseSpec (C : Ctx) (d e vb ustart unext : Nat) (x y : EVm) : ESt × Disp → Prop
  | (s', .again) => ∃ τ, Steps C.prog x τ ∧ τ.b.pc = ustart ∧ ERel C.sl C.env s' τ ∧ Resumes y τ
  | (s', .next) => ∃ τ, Steps C.prog x τ ∧ τ.b.pc = unext ∧ ERel C.sl C.env s' τ ∧ Resumes y τ
  | (s', .out o) => o ≠ .normal ∧ (∀ p, o ≠ .ret p) ∧ (∀ k, o ≠ .resumed k) ∧ o ≠ .notHere ∧
      (∀ L, o = .jump L → y.errAddr = none) ∧ ∀ fin nx, StmtSpec C d e vb fin nx x (s', o)

/-- **the raise clause**: a resume unit fails (the step of `x` is the dispatch of the error `(c, p)` from the state `y` at an
address inside the unit) and `ErrL.Ref.raise` says how the program goes on — the VM goes on like that.  The handler is the
whole program entered at the handler's label, one unit of fuel down (`ih`), in a register frame of its own; `Resume` /
`ResumeNext` cut the stacks back to the heights the dispatch recorded, `ResumeLabel` to the heights recorded at the innermost
pending GOSUB plus the label's depths (`CutInv`). -/
theorem raise_correct {C : Ctx} (hC : C.Ok) {fuel : Nat} (ih : StmtIH C fuel) {d e vb gd ustart unext : Nat} {x y : EVm}
    {s : ESt} {c : Nat} {p : Pos} (hu : MarksAt C.prog.marks [ustart] unext) (hlo : ustart ≤ y.b.pc) (hhi : y.b.pc < unext)
    (hstep : step C.prog x = Vm.raise C.prog y c p) (hxy : Quiet x y) (hr : ERel C.sl C.env s y) (hi : Inv C d e vb gd y) :
    RaiseSpec C d e vb ustart unext x y (Ref.raise (fuel + 1) C.P gd c p s) := by
  obtain ⟨hcur, hnext⟩ := unit_find hC.sorted hu hlo hhi
  have hh := hr.handler
  have hinH := hr.inH
  simp only [Ref.raise]
  split
  · rename_i hm
    simp only [hm, hOf] at hh
    refine ⟨by simp, by simp, by simp, by simp, by simp, fun fin nx => ?_⟩
    exact ⟨x, { y with errCode := some c }, Steps.refl x, by rw [hstep, raise_none hh], hr.base.out⟩
  · rename_i hm
    simp only [hm, hOf] at hh
    cases hin : s.inH with
    | true => simp only [if_true]; exact ⟨by simp, by simp, by simp, by simp, by simp, fun _ _ => trivial⟩
    | false =>
      simp only [Bool.false_eq_true, if_false]
      have hea : y.errAddr = none := by
        rw [hin] at hinH; cases h : y.errAddr with
        | none => rfl
        | some a => rw [h] at hinH; cases hinH
      have s1 : step C.prog x = .next (skipTo y c unext) := by rw [hstep, raise_next hh hnext]
      refine ⟨_, Steps.one s1, rfl, ?_, ⟨rfl, rfl, rfl, rfl, hea, hea, rfl⟩⟩
      exact { base := hr.base.setPc unext, handler := by rw [hm]; exact hh, hfd := hr.hfd,
              inH := by rw [hin]; show false = y.errAddr.isSome; rw [hea]; rfl,
              err := fun h => by rw [hin] at h; cases h }
  · rename_i L hm
    simp only [hm, hOf] at hh
    cases hin : s.inH with
    | true => simp only [if_true]; exact ⟨by simp, by simp, by simp, by simp, by simp, fun _ _ => trivial⟩
    | false =>
      simp only [Bool.false_eq_true, if_false]
      have hea : y.errAddr = none := by
        rw [hin] at hinH; cases h : y.errAddr with
        | none => rfl
        | some a => rw [h] at hinH; cases hinH
      obtain ⟨hfd, hsd⟩ := hr.hfd L hm
      have hL : L ∈ C.B.labels := hC.gosubOk L hfd
      -- the dispatch: the interrupted frame is saved under a fresh one, the heights are recorded
      have s1 : step C.prog x = .next (dispatchTo y c (C.env.addr L)) := by rw [hstep, raise_address hh]
      generalize hh0 : dispatchTo y c (C.env.addr L) = h0 at s1
      have hrh : ERel C.sl C.env { s with inH := true, err := some c } h0 := by
        subst hh0
        exact { base := hr.base.same rfl rfl rfl rfl rfl, handler := by show y.handler = hOf C.env s.mode; rw [hm]; exact hh,
                hfd := hr.hfd, inH := rfl, err := fun _ => rfl }
      have hih : Inv C 0 0 0 gd h0 := by
        subst hh0
        exact ⟨Nat.zero_le _, Nat.zero_le _, hi.gs, fun _ hn => by simp [dispatchTo] at hn⟩
      have hpc0 : h0.b.pc = C.env.addr L := by subst hh0; rfl
      have he0 : h0.errAddr = some y.b.pc := by subst hh0; rfl
      have hm0 : h0.errMarks = (1 + y.b.regStack.length, y.b.vals.length) := by subst hh0; rfl
      have hq0 : h0.b.regStack = y.b.regs :: y.b.regStack ∧ h0.b.vals = y.b.vals ∧ h0.b.paths = y.b.paths ∧
          h0.b.gosubs = y.b.gosubs := by subst hh0; exact ⟨rfl, rfl, rfl, rfl⟩
      have hspec := ih C.B "" 0 0 C.base (C.base + sizeStmt C.env.dp 0 0 C.B) 0 gd (.seek L) h0
        { s with inH := true, err := some c } hC.hcode hC.lab hC.wf
        hC.hmarks (Nat.le_refl _) ⟨hL, hpc0⟩ hrh hih
      have hP : desugar C.B = C.P := rfl
      rw [hP] at hspec
      generalize hrun : exec fuel C.P gd C.P (.seek L) { s with inH := true, err := some c } = r at hspec ⊢
      obtain ⟨s', o⟩ := r
      obtain ⟨q1, q2, q3, q4⟩ := hq0
      cases o with
      | normal =>
        (try simp only [dispOfHandler])
        refine ⟨by simp, by simp, by simp, by simp, by simp, fun fin nx => ?_⟩
        obtain ⟨τ, st, hp, hrτ, _⟩ := hspec
        obtain ⟨q, hq⟩ := hC.hhalt
        have hpc : τ.b.pc = C.base + sizeStmt C.env.dp 0 0 C.B := by
          rcases hp with h | h
          · exact h
          · exact h.1
        have hcode : C.prog.code[τ.b.pc]? = some (.base .halt, q) := by rw [hpc]; exact hq
        have s2 : step C.prog τ = .halt τ := by
          rw [step_base hC.pok hcode (by simp), step_halt (base_get hC.pok hcode)]
        exact ⟨τ, τ, Steps.cons s1 st, s2, hrτ.base⟩
      | halted =>
        (try simp only [dispOfHandler])
        refine ⟨by simp, by simp, by simp, by simp, by simp, fun fin nx => ?_⟩
        obtain ⟨τ, υ, st, hh', hrυ⟩ := hspec
        exact ⟨τ, υ, Steps.cons s1 st, hh', hrυ⟩
      | jump L' => (try simp only [dispOfHandler]); exact ⟨by simp, by simp, by simp, by simp, by simp, fun _ _ => trivial⟩
      | ret q => (try simp only [dispOfHandler]); exact ⟨by simp, by simp, by simp, by simp, by simp, fun _ _ => trivial⟩
      | notHere => (try simp only [dispOfHandler]); exact ⟨by simp, by simp, by simp, by simp, by simp, fun _ _ => trivial⟩
      | inexact => (try simp only [dispOfHandler]); exact ⟨by simp, by simp, by simp, by simp, by simp, fun _ _ => trivial⟩
      | outOfFuel => (try simp only [dispOfHandler]); exact ⟨by simp, by simp, by simp, by simp, by simp, fun _ _ => trivial⟩
      | illFormed => (try simp only [dispOfHandler]); exact ⟨by simp, by simp, by simp, by simp, by simp, fun _ _ => trivial⟩
      | unspec => (try simp only [dispOfHandler]); exact ⟨by simp, by simp, by simp, by simp, by simp, fun _ _ => trivial⟩
      | error c' p' =>
        (try simp only [dispOfHandler])
        refine ⟨by simp, by simp, by simp, by simp, by simp, fun fin nx => ?_⟩
        obtain ⟨τ, υ, st, hh', ho⟩ := hspec
        exact ⟨τ, υ, Steps.cons s1 st, hh', ho⟩
      | resumed k =>
        obtain ⟨τ, q, st, hcode, hrτ, b1, b2, b3, b4, b5, b6, ⟨X, bX⟩, ⟨Y, bY⟩, b7⟩ := hspec
        have hτe : τ.errAddr = some y.b.pc := by rw [b4.addr, he0]
        have hτm : τ.errMarks = (1 + y.b.regStack.length, y.b.vals.length) := by rw [b4.marks b3, hm0]
        -- the handler's own frames `τ.regs :: X` lie on the interrupted frame, its values `Y` on the interrupted stack
        have hrs : τ.b.regs :: τ.b.regStack = (τ.b.regs :: X) ++ y.b.regs :: y.b.regStack := by
          rw [bX, q1]; rfl
        have hvs : τ.b.vals = Y ++ y.b.vals := by rw [bY, q2]; rfl
        cases k with
        | again =>
          (try simp only [dispOfHandler])
          have s2 : step C.prog τ = .next (resumeTo τ ustart y.b.regs y.b.regStack y.b.vals) := by
            simp only [resInstr] at hcode
            exact resume_step hcode hτe hcur hτm hrs hvs
          refine ⟨_, (Steps.cons s1 st).trans (Steps.one s2), rfl, ?_, ⟨rfl, rfl, b5.trans q3, b6.trans q4, rfl, hea, rfl⟩⟩
          exact { base := hrτ.base.same rfl rfl rfl rfl rfl, handler := hrτ.handler, hfd := hrτ.hfd, inH := by rw [b1]; rfl,
                  err := fun h => by rw [b1] at h; cases h }
        | next =>
          (try simp only [dispOfHandler])
          have s2 : step C.prog τ = .next (resumeTo τ unext y.b.regs y.b.regStack y.b.vals) := by
            simp only [resInstr] at hcode
            exact resumeNext_step hcode hτe hnext hτm hrs hvs
          refine ⟨_, (Steps.cons s1 st).trans (Steps.one s2), rfl, ?_, ⟨rfl, rfl, b5.trans q3, b6.trans q4, rfl, hea, rfl⟩⟩
          exact { base := hrτ.base.same rfl rfl rfl rfl rfl, handler := hrτ.handler, hfd := hrτ.hfd, inH := by rw [b1]; rfl,
                  err := fun h => by rw [b1] at h; cases h }
        | label L' =>
          (try simp only [dispOfHandler])
          refine ⟨by simp, by simp, by simp, by simp, fun _ _ => hea, fun fin nx => ?_⟩
          obtain ⟨hrl, hL', hfd', hsd'⟩ := b7 L' rfl
          obtain ⟨hvb, hlen⟩ := hi.cut hrl hea
          have hdep := hC.depthsOk L' hL'
          rw [hfd', hsd'] at hdep
          have hgs : τ.b.gosubs = y.b.gosubs := b6.trans q4
          -- the cut: `rh` frames stay, i.e. one frame on top of the `|regStack| - d` frames below the statement's FOR loops
          have hsplit : τ.b.regs :: τ.b.regStack =
              ((τ.b.regs :: X) ++ y.b.regs :: y.b.regStack.take d) ++ y.b.regStack.drop d := by
            rw [hrs]; simp only [List.append_assoc, List.cons_append, List.take_append_drop]
          have hrh : rhTop τ.b.gosubs + 0 = (y.b.regStack.drop d).length + 1 := by
            rw [hgs, List.length_drop]; have := hi.hd; omega
          obtain ⟨r, hr1⟩ := truncTop_keep ((τ.b.regs :: X) ++ y.b.regs :: y.b.regStack.take d) (y.b.regStack.drop d) (by simp)
          rw [← hsplit, ← hrh] at hr1
          have s2 : step C.prog τ = .next (resumeLabelTo τ (C.env.addr L') 0 r (y.b.regStack.drop d)) := by
            simp only [resInstr] at hcode
            exact resumeLabel_step hcode hτe hdep hr1
          refine ⟨_, (Steps.cons s1 st).trans (Steps.one s2), rfl, ?_, ?_, ?_, ?_, ?_, ?_⟩
          · exact { base := hrτ.base.same rfl rfl rfl rfl rfl, handler := hrτ.handler, hfd := hrτ.hfd,
                    inH := by rw [b1]; rfl, err := fun h => by rw [b1] at h; cases h }
          · show y.b.regStack.drop d = x.b.regStack.drop (d - C.env.dp.fd L')
            rw [hfd', ← hxy.regStack, Nat.sub_zero]
          · refine ⟨?_, fun hne => ?_⟩
            · show vb + C.env.dp.sd L' ≤ (truncTop (vhTop τ.b.gosubs + 0) τ.b.vals).length
              rw [hsd', truncTop_length, hgs, hvs, List.length_append]
              have := hi.he
              omega
            · rw [← hxy.errAddr.addr] at hne; exact absurd hea hne
          · show τ.b.paths = x.b.paths
            rw [b5, q3, hxy.paths]
          · show τ.b.gosubs = x.b.gosubs
            rw [b6, q4, hxy.gosubs]
          · exact HKeep.of_none (by rw [← hxy.errAddr.addr, hea]) rfl


/-- **a statement that is one resume unit** (assignment, PRINT, READ, RETURN without GOSUB, RESUME without error, …): its code
failed at `x` (dispatch from `y`, whose register, var-path and GOSUB stacks are those of the entry state `σ`); the statement
goes on as `ErrL.Ref` says: RESUME runs it again, RESUME NEXT continues at the entry that follows it -/
theorem simple_unit {C : Ctx} (hC : C.Ok) {fuel : Nat} (ih : StmtIHle C fuel) {stmt : SStmt} {sfx : String}
    {d e off nx vb gd : Nat} {σ x y : EVm} {s1 : ESt} {c : Nat} {p : Pos}
    (hc : CodeAt C.prog.code off (compileStmt C.env sfx d e off stmt)) (hl : LabAt C.env d e off stmt)
    (hw : Wf C.sl C.env.dp C.rl d e stmt) (hm : MarksAt C.prog.marks (marksStmt C.env.dp d e off stmt) nx)
    (hms : marksStmt C.env.dp d e off stmt = [off]) (hnx : off + sizeStmt C.env.dp d e stmt ≤ nx)
    (hst : Steps C.prog σ x) (hlo : off ≤ y.b.pc) (hhi : y.b.pc < off + sizeStmt C.env.dp d e stmt)
    (hstep : step C.prog x = Vm.raise C.prog y c p) (hxy : Quiet x y)
    (h1 : y.b.regStack = σ.b.regStack) (h2 : vb + e ≤ y.b.vals.length) (h3 : y.b.paths = σ.b.paths)
    (h4 : y.b.gosubs = σ.b.gosubs) (h5 : y.errAddr = σ.errAddr)
    (hr : ERel C.sl C.env s1 y) (hi : Inv C d e vb gd σ) :
    StmtSpec C d e vb (off + sizeStmt C.env.dp d e stmt) nx σ
      (match Ref.raise fuel C.P gd c p s1 with
       | (s', .again) => exec fuel C.P gd (desugar stmt) .run s'
       | (s', .next) => (s', .normal)
       | (s', .out o) => (s', o)) := by
  cases fuel with
  | zero => simp only [Ref.raise, StmtSpec]
  | succ f =>
    have hiy : Inv C d e vb gd y := hi.congr h1 h2 h4 h5
    have hu : MarksAt C.prog.marks [off] nx := by rw [hms] at hm; exact hm
    have hrs := raise_correct hC (ih f (Nat.le_succ f)) hu hlo (by omega) hstep hxy hr hiy
    generalize hres : Ref.raise (f + 1) C.P gd c p s1 = r at hrs ⊢
    obtain ⟨s', dsp⟩ := r
    cases dsp with
    | again =>
      obtain ⟨τ, st, hp, hrτ, q⟩ := hrs
      have hσe : σ.errAddr = none := by rw [← h5]; exact q.notH
      have hiτ : Inv C d e vb gd τ :=
        hi.congr (by rw [q.regStack, h1]) (by rw [q.vals]; exact h2) (by rw [q.gosubs, h4]) (by rw [q.errAddr, hσe])
      have := ih.self stmt sfx d e off nx vb gd .run τ s' hc hl hw hm hnx hp hrτ hiτ
      exact StmtSpec.after (hst.trans st) (by rw [q.regStack, h1]) ⟨by rw [q.vals]; exact h2, fun hne => absurd hσe hne⟩
        (by rw [q.paths, h3]) (by rw [q.gosubs, h4]) (HKeep.of_none hσe q.errAddr) this
    | next =>
      obtain ⟨τ, st, hp, hrτ, q⟩ := hrs
      have hσe : σ.errAddr = none := by rw [← h5]; exact q.notH
      exact ⟨τ, hst.trans st, .inr ⟨hp, hσe⟩, hrτ, by rw [q.regStack, h1], ⟨by rw [q.vals]; exact h2, fun hne => absurd hσe hne⟩,
        by rw [q.paths, h3], by rw [q.gosubs, h4], HKeep.of_none hσe q.errAddr⟩
    | out o =>
      obtain ⟨n1, n2, n3, n4, n5, hsp⟩ := hrs
      have := hsp (off + sizeStmt C.env.dp d e stmt) nx
      -- the specification relative to `x` is one relative to `σ`: only `error` / `halted` / `jump` can occur
      cases o with
      | normal => exact absurd rfl n1
      | ret q => exact absurd rfl (n2 q)
      | resumed k => exact absurd rfl (n3 k)
      | notHere => exact absurd rfl n4
      | halted => obtain ⟨τ, υ, st, a, b⟩ := this; exact ⟨τ, υ, hst.trans st, a, b⟩
      | error c' p' => obtain ⟨τ, υ, st, a, b⟩ := this; exact ⟨τ, υ, hst.trans st, a, b⟩
      | jump L =>
        obtain ⟨τ, st, hp, hrτ, a1, ⟨a2, a2'⟩, a3, a4, a5⟩ := this
        have hσe : σ.errAddr = none := h5.symm.trans (n5 L rfl)
        refine ⟨τ, hst.trans st, hp, hrτ, by rw [a1, ← hxy.regStack, h1], ⟨a2, fun hne => absurd hσe hne⟩,
          by rw [a3, ← hxy.paths, h3], by rw [a4, ← hxy.gosubs, h4],
          HKeep.of_none hσe (by rw [a5.addr, ← hxy.errAddr.addr]; exact n5 L rfl)⟩
      | inexact => trivial
      | outOfFuel => trivial
      | illFormed => trivial
      | unspec => trivial

end RbThm.ErrLSim
