import RbModel.Ty
import Thm.C12
/-!
# C12: one local edit of an accepted program is rejected with the matching error at the edited statement
(the statement-level fault kinds: missing label, duplicate definition, NEXT for the wrong counter)

`Thm/C12.lean` proves `single_edit_rejected` for the expression-level families (string operand at any
position, node-level faults found by the walkers).  This file proves it for the three statement-level
families of the property (and the verdict of the whole checker for faults inside a statement), over the whole model checker `RbModel.Ty.lint` (the function the driver request
`ty.lint` runs), for an edit at ANY statement position of ANY unit of an accepted program, and with the exact
verdict (error variant and row of the edited statement):

* `missing_label_rejected`: a `GOTO l` inserted anywhere, `l` not a label of that unit → `LabelNotDefined`
  at the row of the inserted line (`c12.rs` family `missing-label`: `GOTO NOLABEL` at every statement position);
* `duplicate_definition_rejected`: a `DIM a(..)` with well-typed numeric bounds inserted anywhere after a `DIM`
  of the same array in the same unit → `DuplicateDefinition` at the row of the inserted line (`c12.rs` family
  `duplicate-definition`: a second `DIM` of the program's array at every later statement position);
  `duplicate_definition_verdict`: with any bounds the verdict is the converter's verdict on the bounds, if any,
  else `DuplicateDefinition` (`DIM A(5) : DIM A("x")` is a TypeMismatch in the real converter, which converts
  the dimensions before it looks the name up; family `duplicate-definition(string bound)`);
* `wrong_next_rejected`: the `NEXT` of any `FOR` changed to name another variable → `NextWithoutFor` at the
  row of the `NEXT` (`c12.rs` family `next-for-the-wrong-counter`: every FOR);
* `duplicate_label_rejected` (a relative of the second): a label inserted anywhere after a label of the same
  name (in an earlier unit or earlier in the same unit) → `DuplicateLabel` at the row of the inserted line.

A program is `us1 ++ ⟨pre ++ post⟩ :: us2`: the edited unit between arbitrary units, the edit between arbitrary
lines.  Rows are data carried by the lines; the theorems hold for every choice of rows, in particular for the
rows of the program text after the insertion (the harness renumbers the following lines).

The proofs need the order of the passes: the inserted `GOTO` is invisible to the converter and to the first
seven post-conversion passes (so they still find nothing) and is the only line the label pass objects to; the
second `DIM` is found by the converter, which runs first, and every unit and line before it was accepted; a
fault found by a later pass in an edited line needs the earlier passes to be silent on that line; the
wrong `NEXT` is invisible to the converter (`convLine` does not look at it) and `ForNextCounterMatch` is the
first pass after it.
-/
namespace RbThm.C12Edit
open RbModel.Num RbModel.Ty

section Edit
variable {κ : Type} [DecidableEq κ]

/-! ## `orElse`, `firstV` -/

theorem orElse_none_right (a : Verdict) : orElse a none = a := by cases a <;> rfl

theorem orElse_eq_none {a b : Verdict} : orElse a b = none ↔ a = none ∧ b = none := by
  cases a <;> simp [orElse]

theorem orElse_assoc (a b c : Verdict) : orElse (orElse a b) c = orElse a (orElse b c) := by cases a <;> rfl

theorem firstV_append {α : Type} (f : α → Verdict) (l1 l2 : List α) :
    firstV f (l1 ++ l2) = orElse (firstV f l1) (firstV f l2) := by
  induction l1 with
  | nil => rfl
  | cons a as ih => simp only [List.cons_append, firstV, ih, orElse_assoc]

/-- A pass that works unit by unit, on a program with one distinguished unit. -/
theorem firstV_units {α : Type} (F : α → Verdict) (us1 us2 : List α) (u : α) :
    firstV F (us1 ++ u :: us2) = orElse (firstV F us1) (orElse (F u) (firstV F us2)) := by
  rw [firstV_append]; rfl

theorem firstV_units_congr {α : Type} (F : α → Verdict) (us1 us2 : List α) {u u' : α} (h : F u' = F u) :
    firstV F (us1 ++ u' :: us2) = firstV F (us1 ++ u :: us2) := by
  rw [firstV_units, firstV_units, h]

omit [DecidableEq κ] in
/-- A line the line check `f` has nothing to say about may be inserted anywhere. -/
theorem pass_insert_neutral (f : Line κ → Verdict) (us1 us2 : List (Part κ)) (pre post : List (Line κ))
    {x : Line κ} (hx : f x = none) :
    pass f (us1 ++ ⟨pre ++ x :: post⟩ :: us2) = pass f (us1 ++ ⟨pre ++ post⟩ :: us2) := by
  unfold pass
  apply firstV_units_congr
  simp only [firstV_append, firstV, hx, orElse]

omit [DecidableEq κ] in
/-- A line may be replaced by one the line check `f` judges alike. -/
theorem pass_replace (f : Line κ → Verdict) (us1 us2 : List (Part κ)) (pre post : List (Line κ))
    {x x' : Line κ} (hx : f x' = f x) :
    pass f (us1 ++ ⟨pre ++ x' :: post⟩ :: us2) = pass f (us1 ++ ⟨pre ++ x :: post⟩ :: us2) := by
  unfold pass
  apply firstV_units_congr
  simp only [firstV_append, firstV, hx]

omit [DecidableEq κ] in
/-- The first line a pass objects to, when everything before it passes. -/
theorem pass_first_fault (f : Line κ → Verdict) (us1 us2 : List (Part κ)) (pre post : List (Line κ))
    {x : Line κ} {e : LintErr × Nat} (h1 : pass f us1 = none) (hpre : firstV f pre = none) (hx : f x = some e) :
    pass f (us1 ++ ⟨pre ++ x :: post⟩ :: us2) = some e := by
  unfold pass at *
  rw [firstV_units, h1]
  simp only [firstV_append, firstV, hpre, hx, orElse]

/-! ## The two passes with a state: the converter's duplicate-`DIM` test and the label collector -/

theorem convUnit_congr_mid (Γ : Env κ) {l1 l2 : List (Line κ)}
    (h : ∀ s, convUnit Γ s l1 = convUnit Γ s l2) : ∀ (pre : List (Line κ)) (seen : List κ),
    convUnit Γ seen (pre ++ l1) = convUnit Γ seen (pre ++ l2)
  | [], seen => h seen
  | x :: pre, seen => by
    have ih := convUnit_congr_mid Γ h pre
    cases x <;> simp only [List.cons_append, convUnit, ih]

theorem dupLabels_congr_mid {l1 l2 : List (Line κ)}
    (h : ∀ s, dupLabels s l1 = dupLabels s l2) : ∀ (pre : List (Line κ)) (seen : List κ),
    dupLabels seen (pre ++ l1) = dupLabels seen (pre ++ l2)
  | [], seen => h seen
  | x :: pre, seen => by
    have ih := dupLabels_congr_mid h pre
    cases x <;> simp only [List.cons_append, dupLabels, ih]

theorem dupLabelsU_congr {u u' : Part κ} (us2 : List (Part κ))
    (h : ∀ s, dupLabels s u'.lines = dupLabels s u.lines) : ∀ (us1 : List (Part κ)) (seen : List κ),
    dupLabelsU seen (us1 ++ u' :: us2) = dupLabelsU seen (us1 ++ u :: us2)
  | [], seen => by simp only [List.nil_append, dupLabelsU, h]
  | w :: us1, seen => by
    simp only [List.cons_append, dupLabelsU]
    cases dupLabels seen w.lines with
    | mk v s =>
      cases v with
      | some e => rfl
      | none => exact dupLabelsU_congr us2 h us1 s

/-! ## What acceptance says, pass by pass -/

/-- The nine parts of `lint` (`apply_linters` after the converter), each silent. -/
structure Accepts (Γ : Env κ) (us : List (Part κ)) : Prop where
  conv : firstV (fun u => convUnit Γ [] u.lines) us = none
  forNext : pass (forNextLine Γ) us = none
  builtIns : pass (walkLine (biCheck Γ)) us = none
  fns : pass (walkLine (fnCheck Γ)) us = none
  subs : pass (subLine Γ) us = none
  selects : pass (selectLine Γ) us = none
  conds : pass (condLine Γ) us = none
  dupLabels : dupLabelsU [] us = none
  jumps : firstV (fun u => firstV (jumpLine (labelsOf u.lines)) u.lines) us = none

theorem lint_none_iff (Γ : Env κ) (us : List (Part κ)) : lint Γ us = none ↔ Accepts Γ us := by
  unfold lint
  simp only [orElse_eq_none]
  constructor
  · rintro ⟨h1, h2, h3, h4, h5, h6, h7, h8, h9⟩; exact ⟨h1, h2, h3, h4, h5, h6, h7, h8, h9⟩
  · rintro ⟨h1, h2, h3, h4, h5, h6, h7, h8, h9⟩; exact ⟨h1, h2, h3, h4, h5, h6, h7, h8, h9⟩

/-! ## Missing label -/

omit [DecidableEq κ] in
theorem labelsOf_append (l1 l2 : List (Line κ)) : labelsOf (l1 ++ l2) = labelsOf l1 ++ labelsOf l2 := by
  induction l1 with
  | nil => rfl
  | cons x xs ih => cases x <;> simp only [List.cons_append, labelsOf, ih]

omit [DecidableEq κ] in
theorem labelsOf_insert_jump (pre post : List (Line κ)) (row : Nat) (l : κ) :
    labelsOf (pre ++ .jump row l :: post) = labelsOf (pre ++ post) := by
  simp only [labelsOf_append, labelsOf]

/-- **single_edit_rejected (missing label).** A `GOTO` / `GOSUB` to a name that is not a label of the unit,
inserted at any statement position of any unit of an accepted program, makes the checker reject the program
with `LabelNotDefined` at the row of the inserted statement. -/
theorem missing_label_rejected (Γ : Env κ) (us1 us2 : List (Part κ)) (pre post : List (Line κ))
    (row : Nat) (l : κ)
    (hacc : lint Γ (us1 ++ ⟨pre ++ post⟩ :: us2) = none)
    (hl : l ∉ labelsOf (pre ++ post)) :
    lint Γ (us1 ++ ⟨pre ++ .jump row l :: post⟩ :: us2) = some (.labelNotDefined, row) := by
  have A := (lint_none_iff Γ _).mp hacc
  have c1 : firstV (fun u => convUnit Γ [] u.lines) (us1 ++ ⟨pre ++ .jump row l :: post⟩ :: us2) = none := by
    rw [← A.conv]
    apply firstV_units_congr
    exact convUnit_congr_mid Γ (fun s => by simp only [convUnit, convLine, orElse]) pre []
  have c2 := (pass_insert_neutral (forNextLine Γ) us1 us2 pre post (x := .jump row l) rfl).trans A.forNext
  have c3 := (pass_insert_neutral (walkLine (biCheck Γ)) us1 us2 pre post (x := .jump row l) rfl).trans A.builtIns
  have c4 := (pass_insert_neutral (walkLine (fnCheck Γ)) us1 us2 pre post (x := .jump row l) rfl).trans A.fns
  have c5 := (pass_insert_neutral (subLine Γ) us1 us2 pre post (x := .jump row l) rfl).trans A.subs
  have c6 := (pass_insert_neutral (selectLine Γ) us1 us2 pre post (x := .jump row l) rfl).trans A.selects
  have c7 := (pass_insert_neutral (condLine Γ) us1 us2 pre post (x := .jump row l) rfl).trans A.conds
  have c8 : dupLabelsU [] (us1 ++ ⟨pre ++ .jump row l :: post⟩ :: us2) = none := by
    rw [← A.dupLabels]
    apply dupLabelsU_congr
    intro s
    exact dupLabels_congr_mid (fun s => by simp only [dupLabels]) pre s
  have j := A.jumps
  rw [firstV_units, orElse_eq_none, orElse_eq_none] at j
  obtain ⟨j1, j2, _⟩ := j
  simp only [firstV_append, orElse_eq_none] at j2
  have hc : (labelsOf (pre ++ post)).contains l = false := by
    simpa using hl
  unfold lint
  rw [c1, c2, c3, c4, c5, c6, c7, c8, firstV_units, j1]
  simp only [labelsOf_insert_jump, firstV_append, firstV, j2.1, jumpLine, hc, orElse]
  rfl

/-! ## Duplicate definition -/

theorem convUnit_none_cons {Γ : Env κ} {seen : List κ} {x : Line κ} {rest : List (Line κ)}
    (h : convUnit Γ seen (x :: rest) = none) :
    convLine Γ x = none ∧
    ((∃ r a b, x = .dim r a b ∧ seen.contains a = false ∧ convUnit Γ (a :: seen) rest = none) ∨
     ((∀ r a b, x ≠ .dim r a b) ∧ convUnit Γ seen rest = none)) := by
  cases x with
  | dim r a b =>
    simp only [convUnit, orElse_eq_none] at h
    obtain ⟨h1, h2⟩ := h
    split at h2
    · cases h2
    · next hc => exact ⟨h1, Or.inl ⟨r, a, b, rfl, by simpa using hc, h2⟩⟩
  | _ =>
    simp only [convUnit, orElse_eq_none] at h
    exact ⟨h.1, Or.inr ⟨(by intro r a b hh; cases hh), h.2⟩⟩

/-- The converter reaches a second `DIM` of a name that is in `seen`, or was `DIM`med earlier in the unit:
its bounds are converted first, then the name is found defined. -/
theorem convUnit_second_dim (Γ : Env κ) (post : List (Line κ)) (row : Nat) (a : κ) (bounds : Exprs κ) :
    ∀ (pre : List (Line κ)) (seen : List κ),
      (a ∈ seen ∨ ∃ r b, Line.dim r a b ∈ pre) → convUnit Γ seen (pre ++ post) = none →
      convUnit Γ seen (pre ++ .dim row a bounds :: post)
        = orElse (convLine Γ (.dim row a bounds)) (some (.duplicateDefinition, row))
  | [], seen, hmem, _ => by
    have ha : a ∈ seen := by
      rcases hmem with h | ⟨r, b, h⟩
      · exact h
      · cases h
    have : seen.contains a = true := by simpa using ha
    simp only [List.nil_append, convUnit, this, if_true]
  | x :: pre, seen, hmem, hacc => by
    obtain ⟨hx, hrest⟩ := convUnit_none_cons hacc
    rcases hrest with ⟨r', a', b', rfl, hc, hrest⟩ | ⟨hnd, hrest⟩
    · have hmem' : a ∈ a' :: seen ∨ ∃ r b, Line.dim r a b ∈ pre := by
        rcases hmem with h | ⟨r, b, h⟩
        · exact Or.inl (List.mem_cons_of_mem _ h)
        · rcases List.mem_cons.mp h with h | h
          · injection h with _ h2 _
            exact Or.inl (h2 ▸ List.mem_cons_self)
          · exact Or.inr ⟨r, b, h⟩
      have ih := convUnit_second_dim Γ post row a bounds pre (a' :: seen) hmem' hrest
      simp only [List.cons_append, convUnit, hc, hx, ih, orElse]
      rfl
    · have hmem' : a ∈ seen ∨ ∃ r b, Line.dim r a b ∈ pre := by
        rcases hmem with h | ⟨r, b, h⟩
        · exact Or.inl h
        · rcases List.mem_cons.mp h with h | h
          · exact absurd h.symm (hnd r a b)
          · exact Or.inr ⟨r, b, h⟩
      have ih := convUnit_second_dim Γ post row a bounds pre seen hmem' hrest
      cases x <;> first
        | exact absurd rfl (hnd _ _ _)
        | (simp only [List.cons_append, convUnit, hx, ih, orElse])

/-- The verdict on a second `DIM` of an array, inserted at any statement position after the first one (same
unit) of an accepted program: the converter's verdict on its bounds if it has one (`DIM A("x")`: TypeMismatch —
`array_to_dim_type` converts the dimensions before it looks at the name), else `DuplicateDefinition`; in both
cases at the row of the inserted statement. -/
theorem duplicate_definition_verdict (Γ : Env κ) (us1 us2 : List (Part κ)) (pre post : List (Line κ))
    (row : Nat) (a : κ) (bounds : Exprs κ)
    (hacc : lint Γ (us1 ++ ⟨pre ++ post⟩ :: us2) = none)
    (hdef : ∃ r b, Line.dim r a b ∈ pre) :
    lint Γ (us1 ++ ⟨pre ++ .dim row a bounds :: post⟩ :: us2)
      = orElse (convLine Γ (.dim row a bounds)) (some (.duplicateDefinition, row)) := by
  have A := (lint_none_iff Γ _).mp hacc
  have c := A.conv
  rw [firstV_units, orElse_eq_none, orElse_eq_none] at c
  obtain ⟨c1, c2, _⟩ := c
  have h := convUnit_second_dim Γ post row a bounds pre [] (Or.inr hdef) c2
  unfold lint
  rw [firstV_units, c1]
  simp only [h]
  cases convLine Γ (.dim row a bounds) <;> rfl

/-- **single_edit_rejected (duplicate definition).** A second `DIM` of an array with well-typed numeric bounds,
inserted at any statement position after the first one (same unit) of an accepted program, makes the checker
reject the program with `DuplicateDefinition` at the row of the inserted statement. -/
theorem duplicate_definition_rejected (Γ : Env κ) (us1 us2 : List (Part κ)) (pre post : List (Line κ))
    (row : Nat) (a : κ) (bounds : Exprs κ)
    (hacc : lint Γ (us1 ++ ⟨pre ++ post⟩ :: us2) = none)
    (hdef : ∃ r b, Line.dim r a b ∈ pre)
    (hb : convLine Γ (.dim row a bounds) = none) :
    lint Γ (us1 ++ ⟨pre ++ .dim row a bounds :: post⟩ :: us2) = some (.duplicateDefinition, row) := by
  rw [duplicate_definition_verdict Γ us1 us2 pre post row a bounds hacc hdef, hb]; rfl

/-- Whatever the bounds are, the program is rejected at the row of the inserted `DIM`, with one of the two
errors. -/
theorem duplicate_definition_rejected_row (Γ : Env κ) (us1 us2 : List (Part κ)) (pre post : List (Line κ))
    (row : Nat) (a : κ) (bounds : Exprs κ)
    (hacc : lint Γ (us1 ++ ⟨pre ++ post⟩ :: us2) = none)
    (hdef : ∃ r b, Line.dim r a b ∈ pre) :
    lint Γ (us1 ++ ⟨pre ++ .dim row a bounds :: post⟩ :: us2) = some (.duplicateDefinition, row) ∨
    lint Γ (us1 ++ ⟨pre ++ .dim row a bounds :: post⟩ :: us2) = some (.typeMismatch, row) := by
  rw [duplicate_definition_verdict Γ us1 us2 pre post row a bounds hacc hdef]
  simp only [convLine]
  cases typesOf Γ bounds with
  | none => right; rfl
  | some ts =>
    simp only
    cases ts.all (fun t => t != .str) with
    | true => left; rfl
    | false => right; rfl

/-! ## NEXT for the wrong counter -/

/-- **single_edit_rejected (NEXT for the wrong counter).** In an accepted program, change the `NEXT` of any
`FOR` (in any unit, at any statement position, with or without a counter after `NEXT`) to name a variable
other than the counter: the checker rejects the program with `NextWithoutFor` at the row of that `NEXT`. -/
theorem wrong_next_rejected (Γ : Env κ) (us1 us2 : List (Part κ)) (pre post : List (Line κ))
    (row : Nat) (v : κ) (bounds : Exprs κ) (nextRow : Nat) (next : Option κ) (n : κ)
    (hacc : lint Γ (us1 ++ ⟨pre ++ .forHead row v bounds nextRow next :: post⟩ :: us2) = none)
    (hn : n ≠ v) :
    lint Γ (us1 ++ ⟨pre ++ .forHead row v bounds nextRow (some n) :: post⟩ :: us2)
      = some (.nextWithoutFor, nextRow) := by
  have A := (lint_none_iff Γ _).mp hacc
  have c1 : firstV (fun u => convUnit Γ [] u.lines)
      (us1 ++ ⟨pre ++ .forHead row v bounds nextRow (some n) :: post⟩ :: us2) = none := by
    rw [← A.conv]
    apply firstV_units_congr
    exact convUnit_congr_mid Γ (fun s => by simp only [convUnit, convLine]) pre []
  have f := A.forNext
  unfold pass at f
  rw [firstV_units, orElse_eq_none, orElse_eq_none] at f
  obtain ⟨f1, f2, _⟩ := f
  simp only [firstV_append, firstV, orElse_eq_none] at f2
  obtain ⟨f2, f3, _⟩ := f2
  have hv : Γ.ty v ≠ .str := by
    intro hv; simp [forNextLine, hv] at f3
  have hx : forNextLine Γ (.forHead row v bounds nextRow (some n)) = some (.nextWithoutFor, nextRow) := by
    simp only [forNextLine, hv, hn, if_false]
  have c2 := pass_first_fault (forNextLine Γ) us1 us2 pre post f1 f2 hx
  unfold lint
  rw [c1, c2]
  rfl

/-! ## Duplicate label -/

theorem dupLabels_seen_mono : ∀ (ls : List (Line κ)) (seen : List κ) (k : κ), k ∈ seen → k ∈ (dupLabels seen ls).2
  | [], _, _, h => h
  | x :: ls, seen, k, h => by
    cases x with
    | label r l =>
      simp only [dupLabels]
      split
      · exact h
      · exact dupLabels_seen_mono ls (l :: seen) k (List.mem_cons_of_mem _ h)
    | _ => simp only [dupLabels]; exact dupLabels_seen_mono ls seen k h

/-- The collector reaches a second label of a name that is in `seen`, or labels an earlier line of the unit. -/
theorem dupLabels_second_label (post : List (Line κ)) (row : Nat) (l : κ) :
    ∀ (pre : List (Line κ)) (seen : List κ),
      (l ∈ seen ∨ l ∈ labelsOf pre) → (dupLabels seen (pre ++ post)).1 = none →
      (dupLabels seen (pre ++ .label row l :: post)).1 = some (.duplicateLabel, row)
  | [], seen, hmem, _ => by
    have hl : l ∈ seen := by
      rcases hmem with h | h
      · exact h
      · cases h
    have : seen.contains l = true := by simpa using hl
    simp only [List.nil_append, dupLabels, this, if_true]
  | x :: pre, seen, hmem, hacc => by
    cases x with
    | label r l' =>
      simp only [List.cons_append, dupLabels] at hacc ⊢
      split at hacc
      · cases hacc
      · next hc =>
        simp only [hc]
        apply dupLabels_second_label post row l pre (l' :: seen) _ hacc
        rcases hmem with h | h
        · exact Or.inl (List.mem_cons_of_mem _ h)
        · simp only [labelsOf, List.mem_cons] at h
          rcases h with h | h
          · exact Or.inl (h ▸ List.mem_cons_self)
          · exact Or.inr h
    | _ =>
      simp only [List.cons_append, dupLabels] at hacc ⊢
      apply dupLabels_second_label post row l pre seen _ hacc
      simpa only [labelsOf] using hmem

theorem dupLabelsU_second_label (us2 : List (Part κ)) (pre post : List (Line κ)) (row : Nat) (l : κ) :
    ∀ (us1 : List (Part κ)) (seen : List κ),
      (l ∈ seen ∨ (∃ u ∈ us1, l ∈ labelsOf u.lines) ∨ l ∈ labelsOf pre) →
      dupLabelsU seen (us1 ++ ⟨pre ++ post⟩ :: us2) = none →
      dupLabelsU seen (us1 ++ ⟨pre ++ .label row l :: post⟩ :: us2) = some (.duplicateLabel, row)
  | [], seen, hmem, hacc => by
    have hmem' : l ∈ seen ∨ l ∈ labelsOf pre := by
      rcases hmem with h | ⟨u, hu, _⟩ | h
      · exact Or.inl h
      · cases hu
      · exact Or.inr h
    simp only [List.nil_append, dupLabelsU] at hacc ⊢
    have h1 : (dupLabels seen (pre ++ post)).1 = none := by
      cases hd : dupLabels seen (pre ++ post) with
      | mk v s =>
        rw [hd] at hacc
        cases v with
        | none => rfl
        | some e => cases hacc
    have h2 := dupLabels_second_label post row l pre seen hmem' h1
    cases hd : dupLabels seen (pre ++ .label row l :: post) with
    | mk v s =>
      rw [hd] at h2
      simp only at h2
      subst h2
      rfl
  | w :: us1, seen, hmem, hacc => by
    simp only [List.cons_append, dupLabelsU] at hacc ⊢
    cases hd : dupLabels seen w.lines with
    | mk v s =>
      rw [hd] at hacc
      cases v with
      | some e => cases hacc
      | none =>
        simp only at hacc ⊢
        apply dupLabelsU_second_label us2 pre post row l us1 s _ hacc
        have hs : ∀ k, k ∈ seen → k ∈ s := by
          intro k hk
          have := dupLabels_seen_mono w.lines seen k hk
          rw [hd] at this; exact this
        rcases hmem with h | ⟨u, hu, hlu⟩ | h
        · exact Or.inl (hs l h)
        · rcases List.mem_cons.mp hu with rfl | hu
          · left
            have := labelsOf_subset_seen u.lines seen l hlu (by rw [hd])
            rw [hd] at this; exact this
          · exact Or.inr (Or.inl ⟨u, hu, hlu⟩)
        · exact Or.inr (Or.inr h)
where
  /-- after a silent run of the collector every label of the unit has been seen -/
  labelsOf_subset_seen : ∀ (ls : List (Line κ)) (seen : List κ) (k : κ), k ∈ labelsOf ls →
      (dupLabels seen ls).1 = none → k ∈ (dupLabels seen ls).2
    | [], _, _, h, _ => by cases h
    | x :: ls, seen, k, h, hn => by
      cases x with
      | label r l' =>
        simp only [dupLabels] at hn ⊢
        split at hn
        · cases hn
        · next hc =>
          simp only [hc]
          simp only [labelsOf, List.mem_cons] at h
          rcases h with h | h
          · subst h
            exact dupLabels_seen_mono ls (k :: seen) k List.mem_cons_self
          · exact labelsOf_subset_seen ls (l' :: seen) k h hn
      | _ =>
        simp only [dupLabels] at hn ⊢
        exact labelsOf_subset_seen ls seen k (by simpa only [labelsOf] using h) hn

/-- **single_edit_rejected (duplicate label).** A label inserted at any statement position of an accepted
program, after a label of the same name (in an earlier unit, or earlier in the same unit: labels are unique
across units), is rejected with `DuplicateLabel` at the row of the inserted line. -/
theorem duplicate_label_rejected (Γ : Env κ) (us1 us2 : List (Part κ)) (pre post : List (Line κ))
    (row : Nat) (l : κ)
    (hacc : lint Γ (us1 ++ ⟨pre ++ post⟩ :: us2) = none)
    (hdef : (∃ u ∈ us1, l ∈ labelsOf u.lines) ∨ l ∈ labelsOf pre) :
    lint Γ (us1 ++ ⟨pre ++ .label row l :: post⟩ :: us2) = some (.duplicateLabel, row) := by
  have A := (lint_none_iff Γ _).mp hacc
  have c1 : firstV (fun u => convUnit Γ [] u.lines) (us1 ++ ⟨pre ++ .label row l :: post⟩ :: us2) = none := by
    rw [← A.conv]
    apply firstV_units_congr
    exact convUnit_congr_mid Γ (fun s => by simp only [convUnit, convLine, orElse]) pre []
  have c2 := (pass_insert_neutral (forNextLine Γ) us1 us2 pre post (x := .label row l) rfl).trans A.forNext
  have c3 := (pass_insert_neutral (walkLine (biCheck Γ)) us1 us2 pre post (x := .label row l) rfl).trans A.builtIns
  have c4 := (pass_insert_neutral (walkLine (fnCheck Γ)) us1 us2 pre post (x := .label row l) rfl).trans A.fns
  have c5 := (pass_insert_neutral (subLine Γ) us1 us2 pre post (x := .label row l) rfl).trans A.subs
  have c6 := (pass_insert_neutral (selectLine Γ) us1 us2 pre post (x := .label row l) rfl).trans A.selects
  have c7 := (pass_insert_neutral (condLine Γ) us1 us2 pre post (x := .label row l) rfl).trans A.conds
  have c8 := dupLabelsU_second_label us2 pre post row l us1 [] (Or.inr hdef) A.dupLabels
  unfold lint
  rw [c1, c2, c3, c4, c5, c6, c7, c8]
  rfl

/-! ## Faults inside a statement: the first pass that objects to the edited line gives the verdict

The expression-level theorems of `Thm/C12.lean` (`type_error_propagates`, `single_edit_rejected`,
`walker_finds_fault`) say that a line check objects to the edited line.  The theorems below turn that into
the verdict of the whole `lint`: replace a line `x` of an accepted program by a line `x'`; if the line checks of
the earlier passes are silent on `x'` and the check of pass `k` answers `some e`, then `lint` answers `some e`
(`e` carries the row of `x'`). For the passes after the converter neither line may be a `DIM` (a `DIM` changes
what the converter has seen). -/

def NotDim (x : Line κ) : Prop := ∀ r a b, x ≠ .dim r a b

theorem convUnit_cons_notDim (Γ : Env κ) {x : Line κ} (hx : NotDim x) (s : List κ) (rest : List (Line κ)) :
    convUnit Γ s (x :: rest) = orElse (convLine Γ x) (convUnit Γ s rest) := by
  cases x <;> first | exact absurd rfl (hx _ _ _) | simp only [convUnit]

theorem convUnit_cons_fault (Γ : Env κ) {x : Line κ} {e : LintErr × Nat} (he : convLine Γ x = some e)
    (s : List κ) (rest : List (Line κ)) : convUnit Γ s (x :: rest) = some e := by
  cases x <;> simp only [convUnit, he, orElse]

/-- The converter stops at the first line it objects to, when it accepted everything before. -/
theorem convUnit_fault (Γ : Env κ) {x' : Line κ} {e : LintErr × Nat}
    (he : convLine Γ x' = some e) (post : List (Line κ)) : ∀ (pre : List (Line κ)) (seen : List κ),
      (∃ rest, convUnit Γ seen (pre ++ rest) = none) → convUnit Γ seen (pre ++ x' :: post) = some e
  | [], seen, _ => by
    rw [List.nil_append, convUnit_cons_fault Γ he]
  | y :: pre, seen, ⟨rest, h⟩ => by
    obtain ⟨hy, hrest⟩ := convUnit_none_cons (rest := pre ++ rest) h
    rcases hrest with ⟨r', a', b', rfl, hc, hrest⟩ | ⟨hnd, hrest⟩
    · have ih := convUnit_fault Γ he post pre (a' :: seen) ⟨rest, hrest⟩
      simp only [List.cons_append, convUnit, hc, hy, ih, orElse]
      rfl
    · have ih := convUnit_fault Γ he post pre seen ⟨rest, hrest⟩
      rw [List.cons_append, convUnit_cons_notDim Γ hnd, hy, ih]; rfl

/-- **A fault the converter finds in the edited line** (a type error at any position of any of its expressions:
`type_error_propagates` / `single_edit_rejected` of `Thm/C12.lean`; a non-castable assignment; a string FOR
bound, a string bound of a `DIM` …): the verdict of `lint` is the converter's verdict on that line. Old and new line
may be any lines. -/
theorem converter_fault_rejected (Γ : Env κ) (us1 us2 : List (Part κ)) (pre post : List (Line κ))
    (x x' : Line κ) (e : LintErr × Nat)
    (hacc : lint Γ (us1 ++ ⟨pre ++ x :: post⟩ :: us2) = none)
    (he : convLine Γ x' = some e) :
    lint Γ (us1 ++ ⟨pre ++ x' :: post⟩ :: us2) = some e := by
  have A := (lint_none_iff Γ _).mp hacc
  have c := A.conv
  rw [firstV_units, orElse_eq_none, orElse_eq_none] at c
  obtain ⟨c1, c2, _⟩ := c
  have h := convUnit_fault Γ he post pre [] ⟨x :: post, c2⟩
  unfold lint
  rw [firstV_units, c1]
  simp only [h, orElse]

theorem conv_replace (Γ : Env κ) (us1 us2 : List (Part κ)) (pre post : List (Line κ)) {x x' : Line κ}
    (hx : NotDim x) (hx' : NotDim x') (h : convLine Γ x' = convLine Γ x) :
    firstV (fun u => convUnit Γ [] u.lines) (us1 ++ ⟨pre ++ x' :: post⟩ :: us2)
      = firstV (fun u => convUnit Γ [] u.lines) (us1 ++ ⟨pre ++ x :: post⟩ :: us2) := by
  apply firstV_units_congr
  exact convUnit_congr_mid Γ (fun s => by rw [convUnit_cons_notDim Γ hx, convUnit_cons_notDim Γ hx', h]) pre []

/-- What acceptance says about the distinguished line. -/
theorem accepted_line {Γ : Env κ} {us1 us2 : List (Part κ)} {pre post : List (Line κ)} {x : Line κ}
    (hacc : lint Γ (us1 ++ ⟨pre ++ x :: post⟩ :: us2) = none) :
    convLine Γ x = none ∧ forNextLine Γ x = none ∧ walkLine (biCheck Γ) x = none ∧
      walkLine (fnCheck Γ) x = none ∧ subLine Γ x = none := by
  have A := (lint_none_iff Γ _).mp hacc
  have line : ∀ f : Line κ → Verdict, pass f (us1 ++ ⟨pre ++ x :: post⟩ :: us2) = none → f x = none := by
    intro f h
    unfold pass at h
    rw [firstV_units, orElse_eq_none, orElse_eq_none] at h
    have h2 := h.2.1
    simp only [firstV_append, firstV, orElse_eq_none] at h2
    exact h2.2.1
  refine ⟨?_, line _ A.forNext, line _ A.builtIns, line _ A.fns, line _ A.subs⟩
  have c := A.conv
  rw [firstV_units, orElse_eq_none, orElse_eq_none] at c
  have c2 : convUnit Γ [] (pre ++ x :: post) = none := c.2.1
  by_cases hconv : convLine Γ x = none
  · exact hconv
  · cases hcx : convLine Γ x with
    | none => rfl
    | some e =>
      have := convUnit_fault Γ hcx post pre [] ⟨x :: post, c2⟩
      rw [c2] at this; cases this

omit [DecidableEq κ] in
/-- The prefix of a silent pass is silent. -/
theorem accepted_prefix {f : Line κ → Verdict} {us1 us2 : List (Part κ)} {pre post : List (Line κ)} {x : Line κ}
    (h : pass f (us1 ++ ⟨pre ++ x :: post⟩ :: us2) = none) : pass f us1 = none ∧ firstV f pre = none := by
  unfold pass at *
  rw [firstV_units, orElse_eq_none, orElse_eq_none] at h
  have h2 := h.2.1
  simp only [firstV_append, orElse_eq_none] at h2
  exact ⟨h.1, h2.1⟩

/-- **A fault the built-in walker finds in the edited line** (wrong argument count / type of a built-in
function, `VariableRequired`, at any position: `walker_finds_fault`). -/
theorem builtin_fault_rejected (Γ : Env κ) (us1 us2 : List (Part κ)) (pre post : List (Line κ))
    (x x' : Line κ) (e : LintErr × Nat)
    (hacc : lint Γ (us1 ++ ⟨pre ++ x :: post⟩ :: us2) = none) (hx : NotDim x) (hx' : NotDim x')
    (h1 : convLine Γ x' = none) (h2 : forNextLine Γ x' = none) (he : walkLine (biCheck Γ) x' = some e) :
    lint Γ (us1 ++ ⟨pre ++ x' :: post⟩ :: us2) = some e := by
  have A := (lint_none_iff Γ _).mp hacc
  obtain ⟨a1, a2, _, _, _⟩ := accepted_line hacc
  have c1 := (conv_replace Γ us1 us2 pre post hx hx' (h1.trans a1.symm)).trans A.conv
  have c2 := (pass_replace (forNextLine Γ) us1 us2 pre post (h2.trans a2.symm)).trans A.forNext
  obtain ⟨p1, p2⟩ := accepted_prefix A.builtIns
  have c3 := pass_first_fault (walkLine (biCheck Γ)) us1 us2 pre post p1 p2 he
  unfold lint
  rw [c1, c2, c3]; rfl

/-- **A fault the user-function walker finds in the edited line** (wrong argument count, wrong by-reference
type, non-castable by-value argument of a user defined function; string argument of an undefined one). -/
theorem function_fault_rejected (Γ : Env κ) (us1 us2 : List (Part κ)) (pre post : List (Line κ))
    (x x' : Line κ) (e : LintErr × Nat)
    (hacc : lint Γ (us1 ++ ⟨pre ++ x :: post⟩ :: us2) = none) (hx : NotDim x) (hx' : NotDim x')
    (h1 : convLine Γ x' = none) (h2 : forNextLine Γ x' = none) (h3 : walkLine (biCheck Γ) x' = none)
    (he : walkLine (fnCheck Γ) x' = some e) :
    lint Γ (us1 ++ ⟨pre ++ x' :: post⟩ :: us2) = some e := by
  have A := (lint_none_iff Γ _).mp hacc
  obtain ⟨a1, a2, a3, _, _⟩ := accepted_line hacc
  have c1 := (conv_replace Γ us1 us2 pre post hx hx' (h1.trans a1.symm)).trans A.conv
  have c2 := (pass_replace (forNextLine Γ) us1 us2 pre post (h2.trans a2.symm)).trans A.forNext
  have c3 := (pass_replace (walkLine (biCheck Γ)) us1 us2 pre post (h3.trans a3.symm)).trans A.builtIns
  obtain ⟨p1, p2⟩ := accepted_prefix A.fns
  have c4 := pass_first_fault (walkLine (fnCheck Γ)) us1 us2 pre post p1 p2 he
  unfold lint
  rw [c1, c2, c3, c4]; rfl

/-- **A fault of a SUB call** (undefined SUB, wrong argument count, wrong by-reference type). -/
theorem sub_fault_rejected (Γ : Env κ) (us1 us2 : List (Part κ)) (pre post : List (Line κ))
    (x x' : Line κ) (e : LintErr × Nat)
    (hacc : lint Γ (us1 ++ ⟨pre ++ x :: post⟩ :: us2) = none) (hx : NotDim x) (hx' : NotDim x')
    (h1 : convLine Γ x' = none) (h2 : forNextLine Γ x' = none) (h3 : walkLine (biCheck Γ) x' = none)
    (h4 : walkLine (fnCheck Γ) x' = none) (he : subLine Γ x' = some e) :
    lint Γ (us1 ++ ⟨pre ++ x' :: post⟩ :: us2) = some e := by
  have A := (lint_none_iff Γ _).mp hacc
  obtain ⟨a1, a2, a3, a4, _⟩ := accepted_line hacc
  have c1 := (conv_replace Γ us1 us2 pre post hx hx' (h1.trans a1.symm)).trans A.conv
  have c2 := (pass_replace (forNextLine Γ) us1 us2 pre post (h2.trans a2.symm)).trans A.forNext
  have c3 := (pass_replace (walkLine (biCheck Γ)) us1 us2 pre post (h3.trans a3.symm)).trans A.builtIns
  have c4 := (pass_replace (walkLine (fnCheck Γ)) us1 us2 pre post (h4.trans a4.symm)).trans A.fns
  obtain ⟨p1, p2⟩ := accepted_prefix A.subs
  have c5 := pass_first_fault (subLine Γ) us1 us2 pre post p1 p2 he
  unfold lint
  rw [c1, c2, c3, c4, c5]; rfl

/-- **single_edit_rejected (string operand for arithmetic), verdict of the whole checker.** Replace any
statement of an accepted program by a `PRINT` one of whose items has, at ANY position, a sub-expression the
converter rejects (`RbThm.C12.single_edit_rejected`: a string operand of `- * / MOD AND OR`, mixed operands of
`+` or a comparison, a string operand of a unary operator): `lint` answers TypeMismatch at the row of that
`PRINT`. -/
theorem print_type_error_rejected (Γ : Env κ) (us1 us2 : List (Part κ)) (pre post : List (Line κ))
    (x : Line κ) (row : Nat) (items : Exprs κ) (i : Nat) (p : List Nat) (s : Expr κ)
    (hacc : lint Γ (us1 ++ ⟨pre ++ x :: post⟩ :: us2) = none)
    (hs : subAtL items i p = some s) (hbad : typeOf Γ s = none) :
    lint Γ (us1 ++ ⟨pre ++ .print row items :: post⟩ :: us2) = some (.typeMismatch, row) :=
  converter_fault_rejected Γ us1 us2 pre post x (.print row items) _ hacc
    (RbThm.C12.print_line_rejected Γ row items i p s hs hbad)

end Edit

/-! ## Non-vacuity: the four theorems on a three-unit program, and what the side conditions exclude -/

section Examples

/-- `A` (key 0) is the array, everything is INTEGER -/
def Γ1 : Env Nat := ⟨fun _ => .int, [0], [], [(8, [.int])]⟩

/-- unit before the edited one: `M:` (label 7) -/
def before1 : List (Part Nat) := [⟨[.label 1 7, .print 2 (.cons (.var 4) .nil)]⟩]
/-- `DIM A(5)` / `L:` (label 2) -/
def pre1 : List (Line Nat) := [.dim 3 0 (.cons (.lit (.int 5)) .nil), .label 4 2]
/-- `FOR I = 1 TO A(2)` … `NEXT I` / `P I` / `GOTO L` -/
def for1 : Line Nat :=
  .forHead 5 4 (.cons (.lit (.int 1)) (.cons (.call 0 (.cons (.lit (.int 2)) .nil)) .nil)) 6 (some 4)
def post1 : List (Line Nat) := [for1, .callSub 7 8 (.cons (.var 4) .nil), .jump 8 2]
def after1 : List (Part Nat) := [⟨[.assign 9 (.var 5) (.lit (.int 1))]⟩]

theorem accepted1 : lint Γ1 (before1 ++ ⟨pre1 ++ post1⟩ :: after1) = none := by decide +kernel

/-- `GOTO M` between `L:` and `FOR`: `M` is a label of another unit, not of this one. -/
example : 7 ∉ labelsOf (pre1 ++ post1) ∧
    lint Γ1 (before1 ++ ⟨pre1 ++ .jump 40 7 :: post1⟩ :: after1) = some (.labelNotDefined, 40) :=
  ⟨by decide +kernel, missing_label_rejected Γ1 before1 after1 pre1 post1 40 7 accepted1 (by decide +kernel)⟩

example : lint Γ1 (before1 ++ ⟨pre1 ++ .jump 40 7 :: post1⟩ :: after1) = some (.labelNotDefined, 40) := by
  decide +kernel

/-- a second `DIM A(7)` after `L:`: DuplicateDefinition -/
example :
    lint Γ1 (before1 ++ ⟨pre1 ++ .dim 40 0 (.cons (.lit (.int 7)) .nil) :: post1⟩ :: after1)
      = some (.duplicateDefinition, 40) :=
  duplicate_definition_rejected Γ1 before1 after1 pre1 post1 40 0 _ accepted1
    ⟨3, .cons (.lit (.int 5)) .nil, List.mem_cons_self⟩ (by decide +kernel)

/-- a second `DIM A("x")`: the TypeMismatch of its bound, as in the real converter (the dimensions are
converted before the name is looked up) -/
example :
    lint Γ1 (before1 ++ ⟨pre1 ++ .dim 40 0 (.cons (.lit (.str ['x'])) .nil) :: post1⟩ :: after1)
      = some (.typeMismatch, 40) := by
  rw [duplicate_definition_verdict Γ1 before1 after1 pre1 post1 40 0 _ accepted1
    ⟨3, .cons (.lit (.int 5)) .nil, List.mem_cons_self⟩]
  decide +kernel

/-- The side condition `hdef` (the first `DIM` comes before the inserted one) is needed for the ROW: a `DIM A(5)`
inserted before the program's own `DIM` is the first definition, and the program's `DIM` (row 3) is rejected. -/
example : lint Γ1 (before1 ++ ⟨.dim 40 0 (.cons (.lit (.int 5)) .nil) :: (pre1 ++ post1)⟩ :: after1)
    = some (.duplicateDefinition, 3) := by decide +kernel

/-- `NEXT J` (key 5) for `FOR I`: NextWithoutFor at the row of the NEXT (6) -/
example :
    lint Γ1 (before1 ++ ⟨pre1 ++
      .forHead 5 4 (.cons (.lit (.int 1)) (.cons (.call 0 (.cons (.lit (.int 2)) .nil)) .nil)) 6 (some 5)
        :: post1.tail⟩ :: after1) = some (.nextWithoutFor, 6) :=
  wrong_next_rejected Γ1 before1 after1 pre1 post1.tail 5 4 _ 6 (some 4) 5 accepted1 (by decide)

/-- a second `M:` in the second unit (the first one is in the first unit), and a second `L:` -/
example :
    lint Γ1 (before1 ++ ⟨pre1 ++ .label 40 7 :: post1⟩ :: after1) = some (.duplicateLabel, 40) ∧
    lint Γ1 (before1 ++ ⟨pre1 ++ .label 40 2 :: post1⟩ :: after1) = some (.duplicateLabel, 40) :=
  ⟨duplicate_label_rejected Γ1 before1 after1 pre1 post1 40 7 accepted1 (Or.inl ⟨_, List.mem_cons_self, by decide +kernel⟩),
   duplicate_label_rejected Γ1 before1 after1 pre1 post1 40 2 accepted1 (Or.inr (by decide +kernel))⟩

/-- the same accepted program, seen with the SUB call `P I` as the distinguished line -/
theorem accepted1' :
    lint Γ1 (before1 ++ ⟨(pre1 ++ [for1]) ++ .callSub 7 8 (.cons (.var 4) .nil) :: [.jump 8 2]⟩ :: after1)
      = none := by decide +kernel

/-- `P I` replaced by `PRINT (1 - "a") + 2` : TypeMismatch at row 7 (the fault sits at path [0, 0] of item 0) -/
example :
    lint Γ1 (before1 ++ ⟨(pre1 ++ [for1]) ++
      .print 7 (.cons (.bin .plus (.paren (.bin .minus (.lit (.int 1)) (.lit (.str ['a'])))) (.lit (.int 2))) .nil)
        :: [.jump 8 2]⟩ :: after1) = some (.typeMismatch, 7) :=
  print_type_error_rejected Γ1 before1 after1 _ _ _ 7 _ 0 [0, 0] _ accepted1' rfl (by decide +kernel)

/-- `P I` replaced by `PRINT (UCASE$(1))`: ArgumentTypeMismatch from the built-in walker -/
example :
    lint Γ1 (before1 ++ ⟨(pre1 ++ [for1]) ++
      .print 7 (.cons (.paren (.bi .ucase (.cons (.lit (.int 1)) .nil))) .nil) :: [.jump 8 2]⟩ :: after1)
      = some (.argType, 7) :=
  builtin_fault_rejected Γ1 before1 after1 _ _ _ _ _ accepted1' (by intro r a b h; cases h)
    (by intro r a b h; cases h) (by decide +kernel) (by decide +kernel) (by decide +kernel)

/-- `P I` replaced by `PRINT G("a")` with `G` undefined: ArgumentTypeMismatch from the function walker -/
example :
    lint Γ1 (before1 ++ ⟨(pre1 ++ [for1]) ++
      .print 7 (.cons (.call 9 (.cons (.lit (.str ['a'])) .nil)) .nil) :: [.jump 8 2]⟩ :: after1)
      = some (.argType, 7) :=
  function_fault_rejected Γ1 before1 after1 _ _ _ _ _ accepted1' (by intro r a b h; cases h)
    (by intro r a b h; cases h) (by decide +kernel) (by decide +kernel) (by decide +kernel) (by decide +kernel)

/-- `P I` replaced by `P I, I`: ArgumentCountMismatch -/
example :
    lint Γ1 (before1 ++ ⟨(pre1 ++ [for1]) ++
      .callSub 7 8 (.cons (.var 4) (.cons (.var 4) .nil)) :: [.jump 8 2]⟩ :: after1)
      = some (.argCount, 7) :=
  sub_fault_rejected Γ1 before1 after1 _ _ _ _ _ accepted1' (by intro r a b h; cases h)
    (by intro r a b h; cases h) (by decide +kernel) (by decide +kernel) (by decide +kernel) (by decide +kernel)
    (by decide +kernel)

end Examples

end RbThm.C12Edit
