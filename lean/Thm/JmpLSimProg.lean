import Thm.JmpLSimBase
/-!
Jump layer, simulation part, whole programs: the statement theorem (`StmtIH`) lifted to `JmpL.Compile.compile` /
`JmpL.Ref.run`.

`compile` emits the top-level DATA statements first (`move_data_statements_first`), then the other top-level statements, then
`Halt`; the label environment (`envOf`) is computed on that reordered body.  The reference semantics runs the body as written
(DATA = `skip`) and a GOSUB re-enters *that* body.  The two are connected without any reasoning about the reference semantics:
the body with its top-level DATA statements replaced by comments (`strip`) desugars to the same program and has — statement
by statement, address by address — the code of the reordered body behind the DATA prefix.  So the context of the statement
theorem is `B := strip body` placed at `base := size of the DATA prefix`.
-/
namespace RbThm.JmpLSim
set_option linter.unusedVariables false
set_option linter.unusedSimpArgs false
open RbModel RbModel.Num RbModel.JmpL RbModel.JmpL.Compile RbModel.JmpL.Vm
open RbModel.Ast (Pos PrintItem CaseExpr)
open RbModel.Ref (St ERes eval evalTo codeOf codeOutOfData codeZeroStep zeroOf truthy printValue endsInSeparator StepSign
  binStep lift)
open RbModel.JmpL.Ref
open RbThm.JmpLLen
open RbThm.C01Sim (Typed SlotsBelow ExprWt NumericAt NumericCond ItemsSlots CaseSlots CondsSlots)

/-- a program body: DATA statements may occur only at top level (where the generator hoists them from); everything else is
well formed at depth 0 / 0 -/
def WfTop (sl : List Ty) (dp : Dp) : SStmt → Prop
  | .seq a b => WfTop sl dp a ∧ WfTop sl dp b
  | .data _ _ => True
  | st => Wf sl dp 0 0 st

/-- the depths the generator records for the labels of a program (`collect_label_depths` does not care about the order of
the top-level statements) -/
def dpOf (prog : SProgram) : Dp := Dp.ofTable (depthTable 0 0 prog.body)

/-- the premise of the program theorem (decided by `JmpL.progWfB`) -/
def ProgWf (prog : SProgram) : Prop :=
  WfTop prog.slots (dpOf prog) prog.body ∧ prog.body.labels.Nodup

/-- the top-level DATA statements, in program order -/
def datas (body : SStmt) : List SStmt := (topLevel body).filter isData

/-- the other top-level statements, in program order -/
def others (body : SStmt) : List SStmt := (topLevel body).filter (fun s => !isData s)

/-- the body with its top-level DATA statements replaced by comments -/
def strip : SStmt → SStmt
  | .seq a b => .seq (strip a) (strip b)
  | .data _ _ => .comment
  | st => st

theorem compile_eq (prog : SProgram) :
    compile prog = compileStmt (envOf (reorder prog.body)) "" 0 0 0 (seqOf (datas prog.body ++ others prog.body)) ++
      [(.halt, maxPos)] := rfl

/-! ### induction over the top-level structure -/

theorem top_induction {P : SStmt → Prop} (hseq : ∀ a b, P a → P b → P (.seq a b))
    (hatom : ∀ st, (∀ a b, st ≠ .seq a b) → P st) : ∀ st, P st
  | .seq a b => hseq a b (top_induction hseq hatom a) (top_induction hseq hatom b)
  | .skip => hatom _ (by intro a b h; cases h)
  | .comment => hatom _ (by intro a b h; cases h)
  | .dim _ _ _ => hatom _ (by intro a b h; cases h)
  | .assign _ _ _ _ => hatom _ (by intro a b h; cases h)
  | .print _ _ => hatom _ (by intro a b h; cases h)
  | .data _ _ => hatom _ (by intro a b h; cases h)
  | .read _ _ => hatom _ (by intro a b h; cases h)
  | .ifBlock _ _ _ _ _ _ => hatom _ (by intro a b h; cases h)
  | .select _ _ _ _ _ => hatom _ (by intro a b h; cases h)
  | .forLoop _ _ _ _ _ _ _ => hatom _ (by intro a b h; cases h)
  | .while _ _ _ => hatom _ (by intro a b h; cases h)
  | .doLoop _ _ _ _ _ => hatom _ (by intro a b h; cases h)
  | .end_ _ => hatom _ (by intro a b h; cases h)
  | .label _ _ _ => hatom _ (by intro a b h; cases h)
  | .goto _ _ => hatom _ (by intro a b h; cases h)
  | .gosub _ _ => hatom _ (by intro a b h; cases h)
  | .ret _ => hatom _ (by intro a b h; cases h)

theorem others_seq (a b : SStmt) : others (.seq a b) = others a ++ others b := by
  simp only [others, topLevel, List.filter_append]

theorem datas_seq (a b : SStmt) : datas (.seq a b) = datas a ++ datas b := by
  simp only [datas, topLevel, List.filter_append]

/-- an atom of the top-level structure that is neither `skip` nor DATA is its own list of "other" statements -/
theorem atom_cases (st : SStmt) (hns : ∀ a b, st ≠ .seq a b) :
    (st = .skip ∧ others st = [] ∧ datas st = []) ∨ ((∃ items p, st = .data items p) ∧ others st = [] ∧ datas st = [st]) ∨
      (others st = [st] ∧ datas st = [] ∧ strip st = st ∧ isData st = false) := by
  cases st with
  | seq a b => exact absurd rfl (hns a b)
  | skip => left; simp [others, datas, topLevel]
  | data items p => right; left; exact ⟨⟨items, p, rfl⟩, by simp [others, datas, topLevel, isData]⟩
  | _ => right; right; simp [others, datas, topLevel, isData, strip]

/-! ### `seqOf` of an append: code, sizes, tables -/

theorem size_seqOf_append (dp : Dp) (l1 l2 : List SStmt) :
    sizeStmt dp 0 0 (seqOf (l1 ++ l2)) = sizeStmt dp 0 0 (seqOf l1) + sizeStmt dp 0 0 (seqOf l2) := by
  induction l1 with
  | nil => simp [seqOf, sizeStmt]
  | cons a rest ih => simp only [List.cons_append, seqOf, sizeStmt, ih]; omega

theorem code_seqOf_append (env : LEnv) (sfx : String) : ∀ (l1 l2 : List SStmt) (off : Nat),
    compileStmt env sfx 0 0 off (seqOf (l1 ++ l2)) =
      compileStmt env sfx 0 0 off (seqOf l1) ++ compileStmt env sfx 0 0 (off + sizeStmt env.dp 0 0 (seqOf l1)) (seqOf l2) := by
  intro l1
  induction l1 with
  | nil => intro l2 off; simp [seqOf, compileStmt, sizeStmt]
  | cons a rest ih =>
    intro l2 off
    simp only [List.cons_append, seqOf, compileStmt, sizeStmt, ih, List.append_assoc, Nat.add_assoc]

theorem addr_seqOf_append (dp : Dp) : ∀ (l1 l2 : List SStmt) (off : Nat),
    addrTable dp 0 0 off (seqOf (l1 ++ l2)) =
      addrTable dp 0 0 off (seqOf l1) ++ addrTable dp 0 0 (off + sizeStmt dp 0 0 (seqOf l1)) (seqOf l2) := by
  intro l1
  induction l1 with
  | nil => intro l2 off; simp [seqOf, addrTable, sizeStmt]
  | cons a rest ih =>
    intro l2 off
    simp only [List.cons_append, seqOf, addrTable, sizeStmt, ih, List.append_assoc, Nat.add_assoc]

theorem depth_seqOf_append : ∀ (l1 l2 : List SStmt),
    depthTable 0 0 (seqOf (l1 ++ l2)) = depthTable 0 0 (seqOf l1) ++ depthTable 0 0 (seqOf l2) := by
  intro l1
  induction l1 with
  | nil => intro l2; simp [seqOf, depthTable]
  | cons a rest ih => intro l2; simp only [List.cons_append, seqOf, depthTable, ih, List.append_assoc]

theorem datas_isData (body : SStmt) : ∀ x ∈ datas body, isData x = true := by
  intro x hx
  simp only [datas, List.mem_filter] at hx
  exact hx.2

theorem addr_datas (dp : Dp) : ∀ (l : List SStmt), (∀ x ∈ l, isData x = true) → ∀ off, addrTable dp 0 0 off (seqOf l) = [] := by
  intro l
  induction l with
  | nil => intro _ off; simp [seqOf, addrTable]
  | cons a rest ih =>
    intro h off
    have ha := h a (by simp)
    cases a <;> simp [isData] at ha
    simp only [seqOf, addrTable, List.nil_append]
    exact ih (fun x hx => h x (by simp [hx])) _

theorem depth_datas : ∀ (l : List SStmt), (∀ x ∈ l, isData x = true) → depthTable 0 0 (seqOf l) = [] := by
  intro l
  induction l with
  | nil => intro _; simp [seqOf, depthTable]
  | cons a rest ih =>
    intro h
    have ha := h a (by simp)
    cases a <;> simp [isData] at ha
    simp only [seqOf, depthTable, List.nil_append]
    exact ih (fun x hx => h x (by simp [hx]))

/-! ### `strip body` against `seqOf (others body)` -/

theorem size_strip (dp : Dp) : ∀ b : SStmt, sizeStmt dp 0 0 (strip b) = sizeStmt dp 0 0 (seqOf (others b)) := by
  refine top_induction ?_ ?_
  · intro a b iha ihb
    rw [others_seq, size_seqOf_append, ← iha, ← ihb]
    simp only [strip, sizeStmt]
  · intro st hns
    rcases atom_cases st hns with ⟨rfl, ho, _⟩ | ⟨⟨items, p, rfl⟩, ho, _⟩ | ⟨ho, _, hs, _⟩
    · rw [ho]; simp [strip, seqOf, sizeStmt]
    · rw [ho]; simp [strip, seqOf, sizeStmt]
    · rw [ho, hs]; simp [seqOf, sizeStmt]

theorem code_strip (env : LEnv) (sfx : String) : ∀ (b : SStmt) (off : Nat),
    compileStmt env sfx 0 0 off (strip b) = compileStmt env sfx 0 0 off (seqOf (others b)) := by
  refine top_induction ?_ ?_
  · intro a b iha ihb off
    rw [others_seq, code_seqOf_append, ← iha, ← ihb, ← size_strip]
    simp only [strip, compileStmt]
  · intro st hns off
    rcases atom_cases st hns with ⟨rfl, ho, _⟩ | ⟨⟨items, p, rfl⟩, ho, _⟩ | ⟨ho, _, hs, _⟩
    · rw [ho]; simp [strip, seqOf, compileStmt]
    · rw [ho]; simp [strip, seqOf, compileStmt]
    · rw [ho, hs]; simp [seqOf, compileStmt]

theorem addr_strip (dp : Dp) : ∀ (b : SStmt) (off : Nat),
    addrTable dp 0 0 off (strip b) = addrTable dp 0 0 off (seqOf (others b)) := by
  refine top_induction ?_ ?_
  · intro a b iha ihb off
    rw [others_seq, addr_seqOf_append, ← iha, ← ihb, ← size_strip]
    simp only [strip, addrTable]
  · intro st hns off
    rcases atom_cases st hns with ⟨rfl, ho, _⟩ | ⟨⟨items, p, rfl⟩, ho, _⟩ | ⟨ho, _, hs, _⟩
    · rw [ho]; simp [strip, seqOf, addrTable]
    · rw [ho]; simp [strip, seqOf, addrTable]
    · rw [ho, hs]; simp [seqOf, addrTable]

theorem depth_strip : ∀ (b : SStmt), depthTable 0 0 (strip b) = depthTable 0 0 b := by
  refine top_induction ?_ ?_
  · intro a b iha ihb
    simp only [strip, depthTable, iha, ihb]
  · intro st hns
    rcases atom_cases st hns with ⟨rfl, _, _⟩ | ⟨⟨items, p, rfl⟩, _, _⟩ | ⟨_, _, hs, _⟩
    · rfl
    · rfl
    · rw [hs]

theorem depth_others : ∀ (b : SStmt), depthTable 0 0 (seqOf (others b)) = depthTable 0 0 b := by
  refine top_induction ?_ ?_
  · intro a b iha ihb
    rw [others_seq, depth_seqOf_append, iha, ihb]
    simp only [depthTable]
  · intro st hns
    rcases atom_cases st hns with ⟨rfl, ho, _⟩ | ⟨⟨items, p, rfl⟩, ho, _⟩ | ⟨ho, _, _, _⟩
    · rw [ho]; rfl
    · rw [ho]; rfl
    · rw [ho]; simp [seqOf, depthTable]

theorem labels_strip : ∀ (b : SStmt), (strip b).labels = b.labels := by
  refine top_induction ?_ ?_
  · intro a b iha ihb
    simp only [strip, SStmt.labels, iha, ihb]
  · intro st hns
    rcases atom_cases st hns with ⟨rfl, _, _⟩ | ⟨⟨items, p, rfl⟩, _, _⟩ | ⟨_, _, hs, _⟩
    · rfl
    · rfl
    · rw [hs]

theorem desugar_strip : ∀ (b : SStmt), desugar (strip b) = desugar b := by
  refine top_induction ?_ ?_
  · intro a b iha ihb
    simp only [strip, desugar, iha, ihb]
  · intro st hns
    rcases atom_cases st hns with ⟨rfl, _, _⟩ | ⟨⟨items, p, rfl⟩, _, _⟩ | ⟨_, _, hs, _⟩
    · rfl
    · rfl
    · rw [hs]

theorem wf_strip (sl : List Ty) (dp : Dp) : ∀ (b : SStmt), WfTop sl dp b → Wf sl dp 0 0 (strip b) := by
  refine top_induction ?_ ?_
  · intro a b iha ihb hw
    simp only [WfTop] at hw
    simp only [strip, Wf]
    exact ⟨iha hw.1, ihb hw.2⟩
  · intro st hns hw
    cases st with
    | seq a b => exact absurd rfl (hns a b)
    | data items p => simp only [strip, Wf]
    | _ => simpa only [WfTop, strip] using hw

/-- the depth table of the reordered body is that of the body -/
theorem depth_reorder (body : SStmt) : depthTable 0 0 (reorder body) = depthTable 0 0 body := by
  show depthTable 0 0 (seqOf (datas body ++ others body)) = _
  rw [depth_seqOf_append, depth_datas _ (datas_isData body), depth_others]
  rfl

/-! ### the label tables under `Wf`: the keys are the labels -/

mutual
theorem addr_keys (sl : List Ty) (dp : Dp) : ∀ (s : SStmt) (d e off : Nat), Wf sl dp d e s →
    (addrTable dp d e off s).map Prod.fst = s.labels
  | .seq a b, d, e, off, h => by
    simp only [addrTable, SStmt.labels, List.map_append, addr_keys sl dp a d e _ h.1, addr_keys sl dp b d e _ h.2]
  | .ifBlock c thn elifs hasElse els p, d, e, off, h => by
    obtain ⟨_, _, h1, h2, h3, h4⟩ := h
    simp only [addrTable, SStmt.labels, List.map_append, addr_keys sl dp thn d e _ h1, addr_keys_elifs sl dp elifs d e _ h2]
    cases hasElse with
    | false => rw [h4 rfl]; simp [SStmt.labels]
    | true => simp [addr_keys sl dp els d e _ h3]
  | .select sel cases hasElse els p, d, e, off, h => by
    obtain ⟨_, h1, h2, h3, _⟩ := h
    simp only [addrTable, SStmt.labels, List.map_append, addr_keys_cases sl dp cases d (e + 1) _ h1]
    cases hasElse with
    | false => rw [h3 rfl]; simp [SStmt.labels]
    | true => simp [addr_keys sl dp els d (e + 1) _ h2]
  | .forLoop x t lo hi step body p, d, e, off, h => by
    obtain ⟨_, _, _, _, h5, h6, _⟩ := h
    cases step with
    | none => simp only [addrTable, SStmt.labels]; exact addr_keys sl dp body (d + 1) e _ h6
    | some se =>
      have hb := (h5 se rfl).2
      simp only [addrTable, SStmt.labels, List.map_append, addr_keys sl dp body (d + 1) e _ h6, hb, List.append_nil]
  | .while c body p, d, e, off, h => by simp only [addrTable, SStmt.labels]; exact addr_keys sl dp body d e _ h.2.2
  | .doLoop c top u body p, d, e, off, h => by
    simp only [addrTable, SStmt.labels]
    split <;> exact addr_keys sl dp body d e _ h.2.2
  | .label L name p, _, _, _, _ => by simp [addrTable, SStmt.labels]
  | .skip, _, _, _, _ => by simp [addrTable, SStmt.labels]
  | .comment, _, _, _, _ => by simp [addrTable, SStmt.labels]
  | .dim _ _ _, _, _, _, _ => by simp [addrTable, SStmt.labels]
  | .assign _ _ _ _, _, _, _, _ => by simp [addrTable, SStmt.labels]
  | .print _ _, _, _, _, _ => by simp [addrTable, SStmt.labels]
  | .data _ _, _, _, _, _ => by simp [addrTable, SStmt.labels]
  | .read _ _, _, _, _, _ => by simp [addrTable, SStmt.labels]
  | .end_ _, _, _, _, _ => by simp [addrTable, SStmt.labels]
  | .goto _ _, _, _, _, _ => by simp [addrTable, SStmt.labels]
  | .gosub _ _, _, _, _, _ => by simp [addrTable, SStmt.labels]
  | .ret _, _, _, _, _ => by simp [addrTable, SStmt.labels]
theorem addr_keys_elifs (sl : List Ty) (dp : Dp) : ∀ (el : ElseIfs) (d e off : Nat), WfElifs sl dp d e el →
    (addrElifs dp d e off el).map Prod.fst = el.labels
  | .nil, _, _, _, _ => by simp [addrElifs, ElseIfs.labels]
  | .cons c body rest, d, e, off, h => by
    obtain ⟨_, _, h1, h2⟩ := h
    simp only [addrElifs, ElseIfs.labels, List.map_append, addr_keys sl dp body d e _ h1,
      addr_keys_elifs sl dp rest d e _ h2]
theorem addr_keys_cases (sl : List Ty) (dp : Dp) : ∀ (cs : SCases) (d e off : Nat), WfCases sl dp d e cs →
    (addrCases dp d e off cs).map Prod.fst = cs.labels
  | .nil, _, _, _, _ => by simp [addrCases, SCases.labels]
  | .cons conds body rest, d, e, off, h => by
    obtain ⟨_, _, h1, h2⟩ := h
    simp only [addrCases, SCases.labels, List.map_append, addr_keys sl dp body d e _ h1,
      addr_keys_cases sl dp rest d e _ h2]
end

mutual
theorem depth_keys : ∀ (s : SStmt) (d e : Nat), (depthTable d e s).map Prod.fst = s.labels
  | .seq a b, d, e => by simp only [depthTable, SStmt.labels, List.map_append, depth_keys a, depth_keys b]
  | .ifBlock c thn elifs hasElse els p, d, e => by
    simp only [depthTable, SStmt.labels, List.map_append, depth_keys thn, depth_keys_elifs elifs, depth_keys els,
      List.append_assoc]
  | .select sel cases hasElse els p, d, e => by
    simp only [depthTable, SStmt.labels, List.map_append, depth_keys_cases cases, depth_keys els]
  | .forLoop x t lo hi step body p, d, e => by simp only [depthTable, SStmt.labels, depth_keys body]
  | .while c body p, d, e => by simp only [depthTable, SStmt.labels, depth_keys body]
  | .doLoop c top u body p, d, e => by simp only [depthTable, SStmt.labels, depth_keys body]
  | .label L name p, _, _ => by simp [depthTable, SStmt.labels]
  | .skip, _, _ => by simp [depthTable, SStmt.labels]
  | .comment, _, _ => by simp [depthTable, SStmt.labels]
  | .dim _ _ _, _, _ => by simp [depthTable, SStmt.labels]
  | .assign _ _ _ _, _, _ => by simp [depthTable, SStmt.labels]
  | .print _ _, _, _ => by simp [depthTable, SStmt.labels]
  | .data _ _, _, _ => by simp [depthTable, SStmt.labels]
  | .read _ _, _, _ => by simp [depthTable, SStmt.labels]
  | .end_ _, _, _ => by simp [depthTable, SStmt.labels]
  | .goto _ _, _, _ => by simp [depthTable, SStmt.labels]
  | .gosub _ _, _, _ => by simp [depthTable, SStmt.labels]
  | .ret _, _, _ => by simp [depthTable, SStmt.labels]
theorem depth_keys_elifs : ∀ (el : ElseIfs) (d e : Nat), (depthElifs d e el).map Prod.fst = el.labels
  | .nil, _, _ => by simp [depthElifs, ElseIfs.labels]
  | .cons c body rest, d, e => by
    simp only [depthElifs, ElseIfs.labels, List.map_append, depth_keys body, depth_keys_elifs rest]
theorem depth_keys_cases : ∀ (cs : SCases) (d e : Nat), (depthCases d e cs).map Prod.fst = cs.labels
  | .nil, _, _ => by simp [depthCases, SCases.labels]
  | .cons conds body rest, d, e => by
    simp only [depthCases, SCases.labels, List.map_append, depth_keys body, depth_keys_cases rest]
end

/-- in an association list without repeated keys every entry is the one a lookup finds -/
theorem lookupNat_of_mem : ∀ (tbl : List (Nat × Nat)), (tbl.map Prod.fst).Nodup → ∀ L a, (L, a) ∈ tbl →
    lookupNat L tbl = some a := by
  intro tbl
  induction tbl with
  | nil => intro _ L a h; simp at h
  | cons x rest ih =>
    intro hn L a hm
    obtain ⟨k, v⟩ := x
    simp only [List.map_cons, List.nodup_cons] at hn
    simp only [lookupNat]
    simp only [List.mem_cons, Prod.mk.injEq] at hm
    rcases hm with ⟨rfl, rfl⟩ | hm
    · simp
    · have : k ≠ L := by
        intro hk; subst hk
        exact hn.1 (List.mem_map.mpr ⟨(k, a), hm, rfl⟩)
      simp only [this, if_false]
      exact ih hn.2 L a hm

theorem lookupDepth_of_mem : ∀ (tbl : List (Nat × Nat × Nat)), (tbl.map Prod.fst).Nodup → ∀ L v, (L, v) ∈ tbl →
    lookupDepth L tbl = some v := by
  intro tbl
  induction tbl with
  | nil => intro _ L a h; simp at h
  | cons x rest ih =>
    intro hn L a hm
    obtain ⟨k, v⟩ := x
    simp only [List.map_cons, List.nodup_cons] at hn
    simp only [lookupDepth]
    simp only [List.mem_cons, Prod.mk.injEq] at hm
    rcases hm with ⟨rfl, rfl⟩ | hm
    · simp
    · have : k ≠ L := by
        intro hk; subst hk
        exact hn.1 (List.mem_map.mpr ⟨(k, a), hm, rfl⟩)
      simp only [this, if_false]
      exact ih hn.2 L a hm

theorem lookupDepth_some_mem : ∀ (tbl : List (Nat × Nat × Nat)) (L : Nat) (v : Nat × Nat), lookupDepth L tbl = some v →
    L ∈ tbl.map Prod.fst := by
  intro tbl
  induction tbl with
  | nil => intro L v h; simp [lookupDepth] at h
  | cons x rest ih =>
    intro L v h
    obtain ⟨k, w⟩ := x
    simp only [lookupDepth] at h
    by_cases hk : k = L
    · simp [hk]
    · simp only [hk, if_false] at h
      simp only [List.map_cons, List.mem_cons]
      exact .inr (ih L v h)

/-! ### the DATA phase -/

/-- what the code of a DATA statement leaves alone -/
structure Keeps (σ τ : Vm) : Prop where
  env : τ.env = σ.env
  out : τ.out = σ.out
  skip : τ.skipNewline = σ.skipNewline
  dataIdx : τ.dataIdx = σ.dataIdx
  queue : τ.queue = σ.queue
  regStack : τ.regStack = σ.regStack
  vals : τ.vals = σ.vals
  gosubs : τ.gosubs = σ.gosubs

theorem Keeps.refl (σ : Vm) : Keeps σ σ := ⟨rfl, rfl, rfl, rfl, rfl, rfl, rfl, rfl⟩

theorem Keeps.trans {a b c : Vm} (h₁ : Keeps a b) (h₂ : Keeps b c) : Keeps a c :=
  ⟨h₂.env.trans h₁.env, h₂.out.trans h₁.out, h₂.skip.trans h₁.skip, h₂.dataIdx.trans h₁.dataIdx,
    h₂.queue.trans h₁.queue, h₂.regStack.trans h₁.regStack, h₂.vals.trans h₁.vals, h₂.gosubs.trans h₁.gosubs⟩

/-- `(LoadIntoA v; PushUnnamedByVal)*`: the items of a DATA statement are appended to the argument list -/
theorem data_items (code : Code) (f : Val × Pos → Code)
    (hf : ∀ it, f it = [(CInstr.loadA it.1, it.2), (CInstr.pushByVal, it.2)]) :
    ∀ (items : List (Val × Pos)) (off : Nat) (σ : Vm),
      CodeAt code off (items.flatMap f) → σ.pc = off →
      ∃ τ, Steps code σ τ ∧ τ.pc = off + 2 * items.length ∧
        τ.args = σ.args ++ items.map (fun it => (it.1, none)) ∧ τ.data = σ.data ∧ Keeps σ τ := by
  intro items
  induction items with
  | nil =>
    intro off σ _ hpc
    exact ⟨σ, Steps.refl σ, by simp [hpc], by simp, rfl, Keeps.refl σ⟩
  | cons it rest ih =>
    intro off σ hc hpc
    rw [List.flatMap_cons, hf it] at hc
    subst hpc
    have h0 : code[σ.pc]? = some (CInstr.loadA it.1, it.2) := hc.append_left.head
    have h1 : code[σ.pc + 1]? = some (CInstr.pushByVal, it.2) := hc.append_left.tail.head
    let σ1 : Vm := advance (setA σ it.1)
    let σ2 : Vm := advance { σ1 with args := σ1.args ++ [(σ1.regs.a, none)] }
    have s1 : Vm.step code σ = .next σ1 := by simp only [Vm.step, h0]; rfl
    have s2 : Vm.step code σ1 = .next σ2 := by simp only [Vm.step, σ1, advance, setA, h1]; rfl
    have hcr : CodeAt code (σ.pc + 2) (rest.flatMap f) := by
      have := hc.append_right
      simpa using this
    obtain ⟨τ, st, hp, ha, hd, hk⟩ := ih (σ.pc + 2) σ2 hcr rfl
    refine ⟨τ, Steps.cons s1 (Steps.cons s2 st), ?_, ?_, ?_, ?_⟩
    · rw [hp]; simp only [List.length_cons]; omega
    · rw [ha]; simp [σ2, σ1, advance, setA]
    · exact hd
    · exact Keeps.trans (b := σ2) ⟨rfl, rfl, rfl, rfl, rfl, rfl, rfl, rfl⟩ hk

/-- one DATA statement appends its items to the data segment -/
theorem data_stmt (code : Code) (env : LEnv) (items : List (Val × Pos)) (p : Pos) (sfx : String) (off : Nat) (σ : Vm)
    (hc : CodeAt code off (compileStmt env sfx 0 0 off (.data items p))) (hpc : σ.pc = off) :
    ∃ τ, Steps code σ τ ∧ τ.pc = off + sizeStmt env.dp 0 0 (.data items p) ∧ τ.data = σ.data ++ items.map (·.1) ∧
      Keeps σ τ := by
  simp only [compileStmt] at hc
  subst hpc
  have h0 : code[σ.pc]? = some (CInstr.beginArgs, p) := hc.append_left.append_left.head
  let σ1 : Vm := advance { σ with args := [] }
  have s1 : Vm.step code σ = .next σ1 := by simp only [Vm.step, h0]; rfl
  have hci := hc.append_left.append_right
  simp only [List.length_singleton] at hci
  obtain ⟨τ1, st1, hp1, ha1, hd1, hk1⟩ := data_items code _ (fun it => rfl) items (σ.pc + 1) σ1 hci rfl
  have hct := hc.append_right
  have hl := flatMap_const_len (fun x : Val × Pos => [(CInstr.loadA x.fst, x.snd), (CInstr.pushByVal, x.snd)]) 2
    (fun _ => rfl) items
  simp only [List.length_append, List.length_singleton, hl] at hct
  have e : σ.pc + (1 + 2 * items.length) = τ1.pc := by rw [hp1]; omega
  rw [e] at hct
  have h2 : code[τ1.pc]? = some (CInstr.pushStack, p) := hct.head
  have h3 : code[τ1.pc + 1]? = some (CInstr.builtInData, p) := hct.tail.head
  have h4 : code[τ1.pc + 1 + 1]? = some (CInstr.popStack, p) := hct.tail.tail.head
  let τ2 : Vm := advance { τ1 with callPos := p }
  let τ3 : Vm := advance { τ2 with data := τ2.data ++ τ2.args.map (·.1) }
  let τ4 : Vm := advance { τ3 with args := [] }
  have s2 : Vm.step code τ1 = .next τ2 := by simp only [Vm.step, h2]; rfl
  have s3 : Vm.step code τ2 = .next τ3 := by simp only [Vm.step, τ2, advance, h3]; rfl
  have s4 : Vm.step code τ3 = .next τ4 := by simp only [Vm.step, τ3, τ2, advance, h4]; rfl
  refine ⟨τ4, (Steps.cons s1 st1).trans (Steps.cons s2 (Steps.cons s3 (Steps.one s4))), ?_, ?_, ?_⟩
  · simp only [τ4, τ3, τ2, advance, hp1, sizeStmt]; omega
  · simp only [τ4, τ3, τ2, advance, hd1, ha1, σ1]
    simp [List.map_map, Function.comp_def]
  · exact Keeps.trans (b := σ1) ⟨rfl, rfl, rfl, rfl, rfl, rfl, rfl, rfl⟩
      (Keeps.trans (b := τ1) hk1 ⟨rfl, rfl, rfl, rfl, rfl, rfl, rfl, rfl⟩)

/-- the hoisted DATA statements, run in order, build the data segment -/
theorem data_list (code : Code) (env : LEnv) (sfx : String) : ∀ (l : List SStmt), (∀ x ∈ l, isData x = true) →
    ∀ (off : Nat) (σ : Vm), CodeAt code off (compileStmt env sfx 0 0 off (seqOf l)) → σ.pc = off →
      ∃ τ, Steps code σ τ ∧ τ.pc = off + sizeStmt env.dp 0 0 (seqOf l) ∧ τ.data = σ.data ++ l.flatMap dataOf ∧
        Keeps σ τ := by
  intro l
  induction l with
  | nil =>
    intro _ off σ _ hpc
    exact ⟨σ, Steps.refl σ, by simp [seqOf, sizeStmt, hpc], by simp, Keeps.refl σ⟩
  | cons a rest ih =>
    intro hall off σ hc hpc
    have hd : isData a = true := hall a (by simp)
    cases a with
    | data items p =>
      have hc : CodeAt code off (compileStmt env sfx 0 0 off (.data items p) ++
          compileStmt env sfx 0 0 (off + sizeStmt env.dp 0 0 (.data items p)) (seqOf rest)) := by
        simpa only [seqOf, compileStmt] using hc
      obtain ⟨τ1, st1, hp1, hd1, hk1⟩ := data_stmt code env items p sfx off σ hc.append_left hpc
      have hcr := hc.append_right
      rw [len_stmt] at hcr
      obtain ⟨τ2, st2, hp2, hd2, hk2⟩ := ih (fun x hx => hall x (by simp [hx])) _ τ1 hcr hp1
      refine ⟨τ2, st1.trans st2, ?_, ?_, Keeps.trans hk1 hk2⟩
      · rw [hp2]; simp only [seqOf, sizeStmt]; omega
      · rw [hd2, hd1]; simp [List.flatMap_cons, dataOf]
    | _ => simp [isData] at hd

theorem dataOf_eq : ∀ body : SStmt, dataOf body = (datas body).flatMap dataOf := by
  refine top_induction ?_ ?_
  · intro a b iha ihb
    simp only [datas] at iha ihb ⊢
    simp only [dataOf, topLevel, List.filter_append, List.flatMap_append, ← iha, ← ihb]
  · intro st hns
    cases st with
    | seq a b => exact absurd rfl (hns a b)
    | data items p => simp [datas, dataOf, topLevel, isData, List.filter]
    | _ => simp [datas, dataOf, topLevel, isData]

theorem typed_init (sl : List Ty) : Typed sl (sl.map Ref.zeroOf) := by
  refine ⟨by simp, ?_⟩
  intro x t hx
  refine ⟨Ref.zeroOf t, by simp [List.getElem?_map, hx], by cases t <;> rfl⟩

/-! ### the context of a program -/

/-- the context of the statement theorem for a program -/
def progCtx (prog : SProgram) : Ctx :=
  { code := compile prog, env := envOf (reorder prog.body), sl := prog.slots, B := strip prog.body,
    base := sizeStmt (envOf (reorder prog.body)).dp 0 0 (seqOf (datas prog.body)) }

theorem progCtx_P (prog : SProgram) : (progCtx prog).P = desugar prog.body := desugar_strip prog.body

theorem envOf_dp (prog : SProgram) : (envOf (reorder prog.body)).dp = dpOf prog := by
  show Dp.ofTable (depthTable 0 0 (reorder prog.body)) = Dp.ofTable (depthTable 0 0 prog.body)
  rw [depth_reorder]

theorem progCtx_ok (prog : SProgram) (hw : ProgWf prog) : (progCtx prog).Ok := by
  obtain ⟨hwt, hnd⟩ := hw
  have hdp := envOf_dp prog
  have hwf : Wf prog.slots (envOf (reorder prog.body)).dp 0 0 (strip prog.body) := by
    rw [hdp]; exact wf_strip _ _ _ hwt
  have hall : CodeAt (compile prog) 0
      (compileStmt (envOf (reorder prog.body)) "" 0 0 0 (seqOf (datas prog.body ++ others prog.body)) ++
        [(.halt, maxPos)]) := by
    intro i _; rw [Nat.zero_add]; rfl
  have hbody := hall.append_left
  rw [code_seqOf_append] at hbody
  have hco := hbody.append_right
  rw [len_stmt, Nat.zero_add, ← code_strip] at hco
  have hhalt := hall.append_right.head
  rw [len_stmt, size_seqOf_append, Nat.zero_add, ← size_strip] at hhalt
  -- the tables
  have htbl : addrTable (envOf (reorder prog.body)).dp 0 0 0 (reorder prog.body) =
      addrTable (envOf (reorder prog.body)).dp 0 0 (progCtx prog).base (strip prog.body) := by
    show addrTable _ 0 0 0 (seqOf (datas prog.body ++ others prog.body)) = _
    rw [addr_seqOf_append, addr_datas _ _ (datas_isData prog.body), List.nil_append, Nat.zero_add, ← addr_strip]
    rfl
  have hkeys : ((addrTable (envOf (reorder prog.body)).dp 0 0 (progCtx prog).base (strip prog.body)).map Prod.fst).Nodup := by
    rw [addr_keys _ _ _ _ _ _ hwf, labels_strip]; exact hnd
  have hdkeys : ((depthTable 0 0 prog.body).map Prod.fst).Nodup := by rw [depth_keys]; exact hnd
  refine ⟨hco, ⟨maxPos, hhalt⟩, hwf, ⟨?_, ?_⟩, ?_⟩
  · intro L a hm
    show (lookupNat L (addrTable (envOf (reorder prog.body)).dp 0 0 0 (reorder prog.body))).getD 0 = a
    rw [htbl, lookupNat_of_mem _ hkeys L a hm]; rfl
  · intro L d' e' hm
    have hm' : (L, d', e') ∈ depthTable 0 0 prog.body := by
      have : (L, d', e') ∈ depthTable 0 0 (strip prog.body) := hm
      rwa [depth_strip] at this
    have hl := lookupDepth_of_mem _ hdkeys L (d', e') hm'
    show (envOf (reorder prog.body)).dp.fd L = d' ∧ (envOf (reorder prog.body)).dp.sd L = e'
    rw [hdp]
    simp only [dpOf, Dp.ofTable, hl]
    trivial
  · intro L h0
    show L ∈ (strip prog.body).labels
    rw [labels_strip, ← depth_keys prog.body 0 0]
    have h0' : (dpOf prog).fd L = 0 := by rw [← hdp]; exact h0
    simp only [dpOf, Dp.ofTable] at h0'
    cases hl : lookupDepth L (depthTable 0 0 prog.body) with
    | none => rw [hl] at h0'; simp at h0'
    | some v => exact lookupDepth_some_mem _ L v hl

/-- the start state of the reference semantics -/
def startSt (prog : SProgram) : St :=
  { env := prog.slots.map Ref.zeroOf, out := Print.WritePrinter.new, data := dataOf prog.body, dataIdx := 0 }

theorem run_eq (prog : SProgram) (fuel : Nat) :
    JmpL.Ref.run fuel prog.toAst =
      (match exec fuel (desugar prog.body) (desugar prog.body) .run (startSt prog) with
       | (s, .ret p) => (s, .error JmpL.Ref.codeReturnWithoutGoSub p)
       | (s, .jump _) => (s, .illFormed)
       | (s, .notHere) => (s, .illFormed)
       | r => r) := rfl

/-- the DATA phase: from the initial VM state the run reaches the first instruction of the program body in a state related
to the reference start state, with empty stacks -/
theorem data_phase (prog : SProgram) :
    ∃ σ1, Steps (compile prog) (Vm.init prog.slots) σ1 ∧ σ1.pc = (progCtx prog).base ∧
      Rel prog.slots (startSt prog) σ1 ∧ σ1.gosubs = [] := by
  have hall : CodeAt (compile prog) 0
      (compileStmt (envOf (reorder prog.body)) "" 0 0 0 (seqOf (datas prog.body ++ others prog.body)) ++
        [(.halt, maxPos)]) := by
    intro i _; rw [Nat.zero_add]; rfl
  have hbody := hall.append_left
  rw [code_seqOf_append] at hbody
  have hcd := hbody.append_left
  obtain ⟨σ1, st1, hp1, hd1, hk1⟩ :=
    data_list (compile prog) (envOf (reorder prog.body)) "" (datas prog.body) (datas_isData prog.body) 0
      (Vm.init prog.slots) hcd rfl
  rw [Nat.zero_add] at hp1
  refine ⟨σ1, st1, hp1, ?_, by rw [hk1.gosubs]; rfl⟩
  refine ⟨by rw [hk1.env]; rfl, typed_init prog.slots, by rw [hk1.out]; rfl, by rw [hk1.skip]; rfl, ?_,
    by rw [hk1.dataIdx]; rfl, by rw [hk1.queue]; rfl⟩
  rw [hd1, ← dataOf_eq]; simp [Vm.init, startSt]

/-- what the program theorem says about a run of the compiled code from the initial VM state, given the answer of the
reference semantics -/
def ProgSpec (prog : SProgram) : St × Outcome → Prop
  | (s', .normal) => ∃ τ υ, Steps (compile prog) (Vm.init prog.slots) τ ∧
      Vm.step (compile prog) τ = .halt υ ∧ υ.env = s'.env ∧ υ.out = s'.out
  | (s', .halted) => ∃ τ υ, Steps (compile prog) (Vm.init prog.slots) τ ∧
      Vm.step (compile prog) τ = .halt υ ∧ υ.env = s'.env ∧ υ.out = s'.out
  | (s', .error c p) => ∃ τ υ, Steps (compile prog) (Vm.init prog.slots) τ ∧
      Vm.step (compile prog) τ = .error c p υ ∧ υ.out = s'.out
  | (_, _) => True

/-- the program theorem, given the statement theorem for the program's context -/
theorem compile_correct_of (prog : SProgram) (fuel : Nat) (hw : ProgWf prog)
    (hstmt : ∀ C : Ctx, C.Ok → ∀ fuel, StmtIH C fuel) : ProgSpec prog (JmpL.Ref.run fuel prog.toAst) := by
  have hC := progCtx_ok prog hw
  obtain ⟨σ1, st1, hp1, hrel1, hg1⟩ := data_phase prog
  have hs := hstmt (progCtx prog) hC fuel (strip prog.body) "" 0 0 (progCtx prog).base .run σ1 (startSt prog)
    hC.hcode hC.lab hC.wf hp1 hrel1 (Nat.zero_le _) (Nat.zero_le _)
  rw [progCtx_P, desugar_strip] at hs
  rw [run_eq]
  obtain ⟨q, hq⟩ := hC.hhalt
  generalize exec fuel (desugar prog.body) (desugar prog.body) .run (startSt prog) = r at hs ⊢
  obtain ⟨s', o⟩ := r
  cases o with
  | normal =>
    obtain ⟨τ, st, hp, hrel, _⟩ := hs
    refine ⟨τ, τ, st1.trans st, ?_, hrel.env, hrel.out⟩
    have hq' : (compile prog)[τ.pc]? = some (CInstr.halt, q) := by rw [hp]; exact hq
    simp only [Vm.step, hq']
  | halted =>
    obtain ⟨τ, υ, st, hh, hrel⟩ := hs
    exact ⟨τ, υ, st1.trans st, hh, hrel.env, hrel.out⟩
  | error c p =>
    obtain ⟨env, τ, υ, st, he, _, hout⟩ := hs
    exact ⟨τ, υ, st1.trans st, he, hout⟩
  | ret p =>
    -- a RETURN with no GOSUB pending: error 3 at the RETURN
    obtain ⟨τ, st, hret, hrel, _, _, _, hgs⟩ := hs
    have hret' : (compile prog)[τ.pc]? = some (CInstr.ret, p) := hret
    have hg : τ.gosubs = [] := by rw [hgs]; exact hg1
    refine ⟨τ, τ, st1.trans st, ?_, hrel.out⟩
    simp only [Vm.step, hret', hg]
    rfl
  | jump L => trivial
  | notHere => trivial
  | inexact => trivial
  | outOfFuel => trivial
  | illFormed => trivial

/-- `Steps` is what `Vm.run` does -/
theorem run_of_steps (code : Code) {σ τ υ : Vm} (h : Steps code σ τ) (hh : Vm.step code τ = .halt υ) :
    ∃ n, ∀ m, n ≤ m → Vm.run code m σ = .halted υ := by
  induction h with
  | refl σ =>
    refine ⟨1, fun m hm => ?_⟩
    obtain ⟨k, rfl⟩ : ∃ k, m = k + 1 := ⟨m - 1, by omega⟩
    simp [Vm.run, hh]
  | cons hs _ ih =>
    obtain ⟨n, hn⟩ := ih hh
    refine ⟨n + 1, fun m hm => ?_⟩
    obtain ⟨k, rfl⟩ : ∃ k, m = k + 1 := ⟨m - 1, by omega⟩
    simp [Vm.run, hs, hn k (by omega)]

theorem run_of_steps_error (code : Code) {σ τ υ : Vm} {c : Nat} {p : Pos} (h : Steps code σ τ)
    (hh : Vm.step code τ = .error c p υ) :
    ∃ n, ∀ m, n ≤ m → Vm.run code m σ = .error c p υ := by
  induction h with
  | refl σ =>
    refine ⟨1, fun m hm => ?_⟩
    obtain ⟨k, rfl⟩ : ∃ k, m = k + 1 := ⟨m - 1, by omega⟩
    simp [Vm.run, hh]
  | cons hs _ ih =>
    obtain ⟨n, hn⟩ := ih hh
    refine ⟨n + 1, fun m hm => ?_⟩
    obtain ⟨k, rfl⟩ : ∃ k, m = k + 1 := ⟨m - 1, by omega⟩
    simp [Vm.run, hs, hn k (by omega)]

/-- the same for the bounded interpreter `Vm.run` the correspondence check executes against the real VM -/
def RunSpec (prog : SProgram) : St × Outcome → Prop
  | (s', .normal) => ∃ n υ, (∀ m, n ≤ m → Vm.run (compile prog) m (Vm.init prog.slots) = .halted υ) ∧
      υ.env = s'.env ∧ υ.out = s'.out
  | (s', .halted) => ∃ n υ, (∀ m, n ≤ m → Vm.run (compile prog) m (Vm.init prog.slots) = .halted υ) ∧
      υ.env = s'.env ∧ υ.out = s'.out
  | (s', .error c p) => ∃ n υ, (∀ m, n ≤ m → Vm.run (compile prog) m (Vm.init prog.slots) = .error c p υ) ∧
      υ.out = s'.out
  | (_, _) => True

theorem runSpec_of_progSpec (prog : SProgram) (r : St × Outcome) (h : ProgSpec prog r) : RunSpec prog r := by
  obtain ⟨s', o⟩ := r
  cases o with
  | normal =>
    obtain ⟨τ, υ, st, hh, he, ho⟩ := h
    obtain ⟨n, hn⟩ := run_of_steps _ st hh
    exact ⟨n, υ, hn, he, ho⟩
  | halted =>
    obtain ⟨τ, υ, st, hh, he, ho⟩ := h
    obtain ⟨n, hn⟩ := run_of_steps _ st hh
    exact ⟨n, υ, hn, he, ho⟩
  | error c p =>
    obtain ⟨τ, υ, st, hh, ho⟩ := h
    obtain ⟨n, hn⟩ := run_of_steps_error _ st hh
    exact ⟨n, υ, hn, ho⟩
  | _ => trivial

end RbThm.JmpLSim
