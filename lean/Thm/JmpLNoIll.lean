import Thm.JmpLNoIllRef
import Thm.JmpLSim
import Thm.C15JmpL
import Thm.JmpLEnclose
/-!
Jump layer (property C05): **under the premise `ProgWf` the reference run never answers `illFormed`** — so the simulation
theorem `JmpLSim.compile_correct`, whose specification `ProgSpec` claims nothing for that answer, has no silent case left
except the fuel and float exactness.

* `disc_desugar`: a statement that is `Wf` at depths `d` / `e` and whose labels are recorded at the depths of their label
  statements (`DepIn … (depthTable d e s)`, the second half of `LabAt`) desugars to a statement that keeps the jump discipline
  `Disc` of `Thm/JmpLNoIllRef.lean` at `d` / `e`.
* `run_never_illFormed` (and `…_checked` for the boolean premise `progWfB` the driver evaluates): `JmpL.Ref.run fuel
  prog.toAst` never answers `illFormed`, for every fuel.  No premise beyond `ProgWf` was needed.
* `run_outcome`: the run of a program in the premise answers `normal`, END, a BASIC error with its position, `inexact` or
  `outOfFuel`, nothing else (`ret`, `jump`, `notHere` cannot leave `run`).
* `compile_correct_total`, `run_correct_total`: for every fuel at which the reference run is neither `outOfFuel` nor `inexact`
  the VM model on the generated code halts with the reference's variables and output, or stops with exactly the reference's
  error at the reference's position with the reference's output.
-/
namespace RbThm.JmpLNoIll
set_option linter.unusedVariables false
set_option linter.unusedSimpArgs false
set_option linter.unusedSectionVars false
open RbModel RbModel.Num RbModel.JmpL RbModel.JmpL.Compile RbModel.JmpL.Vm
open RbModel.Ast (Pos PrintItem CaseExpr)
open RbModel.Ref (St)
open RbModel.JmpL.Ref
open RbThm.JmpLShape (gotosS gotosC)
open RbThm.JmpLRef
open RbThm.JmpLSim

/-! ### from the premise on the faithful syntax to the discipline on the lean syntax -/

/-- the recorded depths of the labels listed in a depth table are those of the table -/
def DepIn (dp : Dp) (tbl : List (Nat × Nat × Nat)) : Prop := ∀ L d' e', (L, d', e') ∈ tbl → dp.fd L = d' ∧ dp.sd L = e'

theorem DepIn.left {dp : Dp} {a b : List (Nat × Nat × Nat)} (h : DepIn dp (a ++ b)) : DepIn dp a :=
  fun L d' e' hm => h L d' e' (List.mem_append_left _ hm)

theorem DepIn.right {dp : Dp} {a b : List (Nat × Nat × Nat)} (h : DepIn dp (a ++ b)) : DepIn dp b :=
  fun L d' e' hm => h L d' e' (List.mem_append_right _ hm)

theorem disc_readSeq (fd sd : Nat → Nat) (P : Stmt) (d e : Nat) (p : Pos) :
    ∀ vars : List (Nat × Ty × Pos), Disc fd sd P d e (readSeq p vars)
  | [] => by simp only [readSeq, Disc]
  | (x, t, q) :: rest => by
    simp only [readSeq, Disc, true_and]
    exact disc_readSeq fd sd P d e p rest

section
variable (sl : List Ty) (dp : Dp) (P : Stmt) (hgs : ∀ L, dp.fd L = 0 → P.hasLabel L = true)
include hgs

mutual
theorem disc_desugar : ∀ (s : SStmt) (d e : Nat), Wf sl dp d e s → DepIn dp (depthTable d e s) →
    Disc dp.fd dp.sd P d e (desugar s)
  | .skip, _, _, _, _ => by simp only [desugar, Disc]
  | .comment, _, _, _, _ => by simp only [desugar, Disc]
  | .seq a b, d, e, hw, hd => by
    simp only [depthTable] at hd
    simp only [desugar, Disc]
    exact ⟨disc_desugar a d e hw.1 hd.left, disc_desugar b d e hw.2 hd.right⟩
  | .dim _ _ _, _, _, _, _ => by simp only [desugar, Disc]
  | .assign _ _ _ _, _, _, _, _ => by simp only [desugar, Disc]
  | .print _ _, _, _, _, _ => by simp only [desugar, Disc]
  | .data _ _, _, _, hw, _ => by simp only [desugar, Disc]
  | .read vars p, d, e, _, _ => by simp only [desugar]; exact disc_readSeq _ _ _ d e p vars
  | .ifBlock c thn elifs hasElse els p, d, e, hw, hd => by
    obtain ⟨_, _, h1, h2, h3, _⟩ := hw
    simp only [depthTable] at hd
    simp only [desugar, Disc]
    exact ⟨disc_desugar thn d e h1 hd.left.left,
      disc_desugarElifs elifs d e h2 hd.left.right (desugar els) p (disc_desugar els d e h3 hd.right)⟩
  | .select sel cases hasElse els p, d, e, hw, hd => by
    have hw0 := hw
    obtain ⟨_, h1, h2, h3, h4⟩ := hw
    simp only [depthTable] at hd
    have hl := hasLabel_desugar hw0
    simp only [desugar, hasLabel_select] at hl
    simp only [desugar, Disc]
    refine ⟨disc_desugarCases cases d (e + 1) h1 hd.left _ ?_, ?_⟩
    · cases hasElse with
      | false => simp only [Bool.false_eq_true, if_false, DiscC]
      | true => simp only [if_true, DiscC]; exact disc_desugar els d (e + 1) h2 hd.right
    · intro L hg
      have hg' : L ∈ cases.gotos ++ els.gotos := by
        rcases gotos_desugarCases cases _ L hg with hg | hg
        · exact List.mem_append_left _ hg
        · cases hasElse with
          | false => simp [gotosC] at hg
          | true => simp only [if_true, gotosC] at hg; exact List.mem_append_right _ (gotos_desugar els L hg)
      rcases h4 L hg' with h | h
      · left; rw [hl]; simpa [SStmt.labels] using h
      · exact .inr h
  | .forLoop x t lo hi step body p, d, e, hw, hd => by
    obtain ⟨_, _, _, _, _, h1, h2⟩ := hw
    simp only [depthTable] at hd
    simp only [desugar, Disc]
    refine ⟨disc_desugar body (d + 1) e h1 hd, ?_⟩
    intro L hg
    rcases h2 L (gotos_desugar body L hg) with h | h
    · left; rw [hasLabel_desugar h1]; simpa using h
    · exact .inr h
  | .while c body p, d, e, hw, hd => by
    simp only [depthTable] at hd
    simp only [desugar, Disc]
    exact disc_desugar body d e hw.2.2 hd
  | .doLoop c top u body p, d, e, hw, hd => by
    simp only [depthTable] at hd
    simp only [desugar, Disc]
    exact disc_desugar body d e hw.2.2 hd
  | .end_ _, _, _, _, _ => by simp only [desugar, Disc]
  | .label L _ _, d, e, _, hd => by
    simp only [desugar, Disc]
    exact hd L d e (by simp [depthTable])
  | .goto L _, d, e, hw, _ => by
    simp only [desugar, Disc]
    exact hw
  | .gosub L _, d, e, hw, _ => by
    simp only [desugar, Disc]
    have hw' : dp.fd L = 0 ∧ dp.sd L = 0 := hw
    exact ⟨hw'.1, hw'.2, hgs L hw'.1⟩
  | .ret _, _, _, _, _ => by simp only [desugar, Disc]
theorem disc_desugarElifs : ∀ (el : ElseIfs) (d e : Nat), WfElifs sl dp d e el → DepIn dp (depthElifs d e el) →
    ∀ (els : Stmt) (p : Pos), Disc dp.fd dp.sd P d e els → Disc dp.fd dp.sd P d e (desugarElifs el els p)
  | .nil, _, _, _, _, _, _, h => by simp only [desugarElifs]; exact h
  | .cons c body rest, d, e, hw, hd, els, p, h => by
    obtain ⟨_, _, h1, h2⟩ := hw
    simp only [depthElifs] at hd
    simp only [desugarElifs, Disc]
    exact ⟨disc_desugar body d e h1 hd.left, disc_desugarElifs rest d e h2 hd.right els p h⟩
theorem disc_desugarCases : ∀ (cs : SCases) (d e : Nat), WfCases sl dp d e cs → DepIn dp (depthCases d e cs) →
    ∀ (tail : Cases), DiscC dp.fd dp.sd P d e tail → DiscC dp.fd dp.sd P d e (desugarCases cs tail)
  | .nil, _, _, _, _, _, h => by simp only [desugarCases]; exact h
  | .cons conds body rest, d, e, hw, hd, tail, h => by
    obtain ⟨_, _, h1, h2⟩ := hw
    simp only [depthCases] at hd
    simp only [desugarCases, DiscC]
    exact ⟨disc_desugar body d e h1 hd.left, disc_desugarCases rest d e h2 hd.right tail h⟩
end

end

/-! ### whole programs -/

/-- the desugared body of a program in the premise keeps the jump discipline at depth 0 / 0, relative to the depths the
generator records (`dpOf`) -/
theorem prog_disc (prog : SProgram) (hw : ProgWf prog) :
    Disc (dpOf prog).fd (dpOf prog).sd (desugar prog.body) 0 0 (desugar prog.body) := by
  have hC := progCtx_ok prog hw
  have hdp := envOf_dp prog
  have hwf : Wf prog.slots (envOf (reorder prog.body)).dp 0 0 (strip prog.body) := hC.wf
  have hlab : LabAt (envOf (reorder prog.body)) 0 0 (progCtx prog).base (strip prog.body) := hC.lab
  have hgs : ∀ L, (envOf (reorder prog.body)).dp.fd L = 0 → L ∈ (strip prog.body).labels := hC.gosubOk
  rw [hdp] at hwf hgs
  have hdep : DepIn (dpOf prog) (depthTable 0 0 (strip prog.body)) := by
    intro L d' e' hm
    have := hlab.2 L d' e' hm
    rwa [hdp] at this
  have hgs' : ∀ L, (dpOf prog).fd L = 0 → (desugar prog.body).hasLabel L = true := by
    intro L h0
    rw [← desugar_strip, hasLabel_desugar hwf]
    simpa using hgs L h0
  have := disc_desugar prog.slots (dpOf prog) (desugar prog.body) hgs' (strip prog.body) 0 0 hwf hdep
  rwa [desugar_strip] at this

/-- every GOTO of the desugared body names a label of the desugared body -/
theorem prog_gotos (prog : SProgram) (hw : ProgWf prog) :
    ∀ L ∈ gotosS (desugar prog.body), (desugar prog.body).hasLabel L = true := by
  have hC := progCtx_ok prog hw
  have hwf : Wf prog.slots (envOf (reorder prog.body)).dp 0 0 (strip prog.body) := hC.wf
  intro L hL
  have h1 : L ∈ prog.body.gotos := gotos_desugar prog.body L hL
  have h2 : L ∈ prog.body.labels := RbThm.C15JmpL.gotosDefined prog hw L h1
  rw [← desugar_strip, hasLabel_desugar hwf, labels_strip]
  simpa using h2

/-- the body of a program in the premise, run from its first statement in any state: never `illFormed`, never a `jump` that
leaves the program, never `notHere` -/
theorem body_never (prog : SProgram) (hw : ProgWf prog) (fuel : Nat) (st : St) :
    (exec fuel (desugar prog.body) (desugar prog.body) .run st).2 ≠ .illFormed ∧
    (∀ L, (exec fuel (desugar prog.body) (desugar prog.body) .run st).2 ≠ .jump L) ∧
    (exec fuel (desugar prog.body) (desugar prog.body) .run st).2 ≠ .notHere :=
  top_never (prog_disc prog hw) (prog_gotos prog hw) fuel st

/-- **`run_never_illFormed`** — for every program of the jump layer that satisfies the premise `ProgWf` of the simulation
theorem and every amount of fuel, the reference semantics does not answer `illFormed`: no jump to a label that does not exist,
no jump into a FOR body or a SELECT block, no GOSUB whose routine is left by a jump out of the program.  No further premise. -/
theorem run_never_illFormed (prog : SProgram) (fuel : Nat) (hw : ProgWf prog) :
    (JmpL.Ref.run fuel prog.toAst).2 ≠ .illFormed := by
  obtain ⟨h1, h2, h3⟩ := body_never prog hw fuel (startSt prog)
  rw [run_eq]
  generalize exec fuel (desugar prog.body) (desugar prog.body) .run (startSt prog) = r at h1 h2 h3
  obtain ⟨s', o⟩ := r
  cases o with
  | illFormed => exact absurd rfl h1
  | jump L => exact absurd rfl (h2 L)
  | notHere => exact absurd rfl h3
  | _ => simp

/-- the same with the premise replaced by the boolean check the driver evaluates on every explored program (`jmpl.wf`) -/
theorem run_never_illFormed_checked (prog : SProgram) (fuel : Nat) (hw : progWfB prog = true) :
    (JmpL.Ref.run fuel prog.toAst).2 ≠ .illFormed :=
  run_never_illFormed prog fuel (progWfB_sound prog hw)

/-- **what a run can answer**: `normal`, END, a BASIC error with its position, `inexact` (a float operation outside the
exactly modelled range) or `outOfFuel` — under the premise nothing else -/
theorem run_outcome (prog : SProgram) (fuel : Nat) (hw : ProgWf prog) :
    (JmpL.Ref.run fuel prog.toAst).2 = .normal ∨ (JmpL.Ref.run fuel prog.toAst).2 = .halted ∨
    (∃ c p, (JmpL.Ref.run fuel prog.toAst).2 = .error c p) ∨
    (JmpL.Ref.run fuel prog.toAst).2 = .inexact ∨ (JmpL.Ref.run fuel prog.toAst).2 = .outOfFuel := by
  have hill := run_never_illFormed prog fuel hw
  have hnh := run_ne_notHere fuel prog.toAst
  rw [run_eq] at hill hnh ⊢
  generalize exec fuel (desugar prog.body) (desugar prog.body) .run (startSt prog) = r at hill hnh ⊢
  obtain ⟨s', o⟩ := r
  cases o <;> simp_all

/-- **`compile_correct_total`** — the simulation theorem without its silent case: for every program in the premise and every
fuel at which the reference run is neither out of fuel nor inexact, EITHER the reference ended normally or with END and the VM
model on the generated code reaches a `Halt` with the reference's variables and output, OR the reference stopped with BASIC
error `c` at position `p` and the VM stops with exactly that error at that position with the reference's output. -/
theorem compile_correct_total (prog : SProgram) (fuel : Nat) (hw : ProgWf prog)
    (hf : (JmpL.Ref.run fuel prog.toAst).2 ≠ .outOfFuel) (hi : (JmpL.Ref.run fuel prog.toAst).2 ≠ .inexact) :
    (((JmpL.Ref.run fuel prog.toAst).2 = .normal ∨ (JmpL.Ref.run fuel prog.toAst).2 = .halted) ∧
      ∃ τ υ, Steps (compile prog) (Vm.init prog.slots) τ ∧ Vm.step (compile prog) τ = .halt υ ∧
        υ.env = (JmpL.Ref.run fuel prog.toAst).1.env ∧ υ.out = (JmpL.Ref.run fuel prog.toAst).1.out) ∨
    (∃ c p, (JmpL.Ref.run fuel prog.toAst).2 = .error c p ∧
      ∃ τ υ, Steps (compile prog) (Vm.init prog.slots) τ ∧ Vm.step (compile prog) τ = .error c p υ ∧
        υ.out = (JmpL.Ref.run fuel prog.toAst).1.out) := by
  have hs := compile_correct prog fuel hw
  have ho := run_outcome prog fuel hw
  generalize JmpL.Ref.run fuel prog.toAst = r at hs ho hf hi ⊢
  obtain ⟨s', o⟩ := r
  rcases ho with ho | ho | ⟨c, p, ho⟩ | ho | ho
  · simp only at ho; subst ho; exact .inl ⟨.inl rfl, hs⟩
  · simp only at ho; subst ho; exact .inl ⟨.inr rfl, hs⟩
  · simp only at ho; subst ho; exact .inr ⟨c, p, rfl, hs⟩
  · exact absurd ho hi
  · exact absurd ho hf

/-- the same for the bounded interpreter `Vm.run` that the correspondence check executes against the real VM: every sufficient
step budget gives the reference's answer -/
theorem run_correct_total (prog : SProgram) (fuel : Nat) (hw : ProgWf prog)
    (hf : (JmpL.Ref.run fuel prog.toAst).2 ≠ .outOfFuel) (hi : (JmpL.Ref.run fuel prog.toAst).2 ≠ .inexact) :
    (((JmpL.Ref.run fuel prog.toAst).2 = .normal ∨ (JmpL.Ref.run fuel prog.toAst).2 = .halted) ∧
      ∃ n υ, (∀ m, n ≤ m → Vm.run (compile prog) m (Vm.init prog.slots) = .halted υ) ∧
        υ.env = (JmpL.Ref.run fuel prog.toAst).1.env ∧ υ.out = (JmpL.Ref.run fuel prog.toAst).1.out) ∨
    (∃ c p, (JmpL.Ref.run fuel prog.toAst).2 = .error c p ∧
      ∃ n υ, (∀ m, n ≤ m → Vm.run (compile prog) m (Vm.init prog.slots) = .error c p υ) ∧
        υ.out = (JmpL.Ref.run fuel prog.toAst).1.out) := by
  rcases compile_correct_total prog fuel hw hf hi with ⟨ho, τ, υ, st, hh, he, hout⟩ | ⟨c, p, ho, τ, υ, st, hh, hout⟩
  · obtain ⟨n, hn⟩ := run_of_steps _ st hh
    exact .inl ⟨ho, n, υ, hn, he, hout⟩
  · obtain ⟨n, hn⟩ := run_of_steps_error _ st hh
    exact .inr ⟨c, p, ho, n, υ, hn, hout⟩

theorem compile_correct_total_checked (prog : SProgram) (fuel : Nat) (hw : progWfB prog = true)
    (hf : (JmpL.Ref.run fuel prog.toAst).2 ≠ .outOfFuel) (hi : (JmpL.Ref.run fuel prog.toAst).2 ≠ .inexact) :
    (((JmpL.Ref.run fuel prog.toAst).2 = .normal ∨ (JmpL.Ref.run fuel prog.toAst).2 = .halted) ∧
      ∃ τ υ, Steps (compile prog) (Vm.init prog.slots) τ ∧ Vm.step (compile prog) τ = .halt υ ∧
        υ.env = (JmpL.Ref.run fuel prog.toAst).1.env ∧ υ.out = (JmpL.Ref.run fuel prog.toAst).1.out) ∨
    (∃ c p, (JmpL.Ref.run fuel prog.toAst).2 = .error c p ∧
      ∃ τ υ, Steps (compile prog) (Vm.init prog.slots) τ ∧ Vm.step (compile prog) τ = .error c p υ ∧
        υ.out = (JmpL.Ref.run fuel prog.toAst).1.out) :=
  compile_correct_total prog fuel (progWfB_sound prog hw) hf hi

/-! ### non-vacuity -/

/-- a program that uses every kind of jump the seek mode has to serve (slot 0 = X%, slot 1 = I%; labels 0 = Again, 1 = Out,
2 = InW, 3 = Sub1):
```
X% = 0
FOR I% = 1 TO 3
  Again:
  X% = X% + 1
  IF X% < 2 THEN GOTO Again          ' a jump inside the body of the current round
  SELECT CASE I%
    CASE 2
      GOSUB Sub1                      ' a routine called from inside FOR + SELECT
      GOTO Out                        ' leaves the SELECT and the FOR
  END SELECT
NEXT
Out:
GOTO InW                              ' into a WHILE body from outside
WHILE X% < 10
  InW:
  X% = X% + 5
WEND
PRINT X%
END
Sub1:
X% = X% + 1
RETURN
``` -/
def demo : SProgram :=
  ⟨[.int, .int],
   .seq (.assign 0 .int (.lit (.int 0) ⟨1, 6⟩) ⟨1, 1⟩)
   (.seq (.forLoop 1 .int (.lit (.int 1) ⟨2, 10⟩) (.lit (.int 3) ⟨2, 15⟩) none
      (.seq (.label 0 "Again" ⟨3, 3⟩)
      (.seq (.assign 0 .int (.bin .plus (.var 0 .int ⟨4, 8⟩) (.lit (.int 1) ⟨4, 13⟩) .int ⟨4, 11⟩) ⟨4, 3⟩)
      (.seq (.ifBlock (.bin .less (.var 0 .int ⟨5, 6⟩) (.lit (.int 2) ⟨5, 11⟩) .int ⟨5, 9⟩)
          (.seq (.goto 0 ⟨5, 18⟩) .skip) .nil false .skip ⟨5, 3⟩)
      (.seq (.select (.var 1 .int ⟨6, 15⟩)
          (.cons [.simple (.lit (.int 2) ⟨7, 10⟩)]
            (.seq (.gosub 3 ⟨8, 7⟩) (.seq (.goto 1 ⟨9, 7⟩) .skip)) .nil) false .skip ⟨6, 3⟩)
       .skip)))) ⟨2, 1⟩)
   (.seq (.label 1 "Out" ⟨12, 1⟩)
   (.seq (.goto 2 ⟨13, 1⟩)
   (.seq (.while (.bin .less (.var 0 .int ⟨14, 7⟩) (.lit (.int 10) ⟨14, 12⟩) .int ⟨14, 10⟩)
      (.seq (.label 2 "InW" ⟨15, 3⟩)
      (.seq (.assign 0 .int (.bin .plus (.var 0 .int ⟨16, 8⟩) (.lit (.int 5) ⟨16, 13⟩) .int ⟨16, 11⟩) ⟨16, 3⟩) .skip))
      ⟨14, 1⟩)
   (.seq (.print [.expr (.var 0 .int ⟨18, 7⟩)] ⟨18, 1⟩)
   (.seq (.end_ ⟨19, 1⟩)
   (.seq (.label 3 "Sub1" ⟨20, 1⟩)
   (.seq (.assign 0 .int (.bin .plus (.var 0 .int ⟨21, 6⟩) (.lit (.int 1) ⟨21, 11⟩) .int ⟨21, 9⟩) ⟨21, 1⟩)
   (.seq (.ret ⟨22, 1⟩) .skip)))))))))⟩

/-- a RETURN with no GOSUB pending: `FOR I% = 1 TO 3 : RETURN : NEXT` -/
def demoRet : SProgram :=
  ⟨[.int],
   .seq (.forLoop 0 .int (.lit (.int 1) ⟨1, 10⟩) (.lit (.int 3) ⟨1, 15⟩) none (.seq (.ret ⟨2, 3⟩) .skip) ⟨1, 1⟩) .skip⟩

/-- the premise holds for them, the reference run ends with END / with error 3 at the RETURN (so the hypotheses of
`compile_correct_total` are satisfiable, and both disjuncts of its conclusion occur) -/
example : progWfB demo = true ∧ (JmpL.Ref.run 80 demo.toAst).2 = .halted := by decide +kernel
example : progWfB demoRet = true ∧ (JmpL.Ref.run 30 demoRet.toAst).2 = .error 3 ⟨2, 3⟩ := by decide +kernel

example (fuel : Nat) : (JmpL.Ref.run fuel demo.toAst).2 ≠ .illFormed :=
  run_never_illFormed_checked demo fuel (by decide +kernel)

example : ∃ τ υ, Steps (compile demo) (Vm.init demo.slots) τ ∧ Vm.step (compile demo) τ = .halt υ ∧
    υ.env = (JmpL.Ref.run 80 demo.toAst).1.env ∧ υ.out = (JmpL.Ref.run 80 demo.toAst).1.out := by
  have h : (JmpL.Ref.run 80 demo.toAst).2 = .halted := by decide +kernel
  rcases compile_correct_total_checked demo 80 (by decide +kernel) (by rw [h]; simp) (by rw [h]; simp) with h1 | ⟨c, p, h1, _⟩
  · exact h1.2
  · rw [h] at h1; cases h1

/-- **the premise is what excludes `illFormed`**: the reference semantics does answer it outside the premise — a GOTO into a
FOR body from outside (`RbThm.JmpLEnclose.intoFor`), a GOTO from a FOR body into the body of the next FOR, a GOSUB to a label
in its own FOR body (the nested run would have to enter the FOR from the top of the program), a GOTO to a label that is not
defined -/
example : progWfB RbThm.JmpLEnclose.intoFor = false ∧
    (JmpL.Ref.run 20 RbThm.JmpLEnclose.intoFor.toAst).2 = .illFormed := by decide +kernel
example : progWfB RbThm.JmpLEnclose.siblingFor = false ∧
    (JmpL.Ref.run 20 RbThm.JmpLEnclose.siblingFor.toAst).2 = .illFormed := by decide +kernel
example : progWfB RbThm.JmpLEnclose.gosubInside = false ∧
    (JmpL.Ref.run 20 RbThm.JmpLEnclose.gosubInside.toAst).2 = .illFormed := by decide +kernel
example : progWfB ⟨[], .seq (.goto 0 ⟨1, 1⟩) .skip⟩ = false ∧
    (JmpL.Ref.run 20 (SProgram.toAst ⟨[], .seq (.goto 0 ⟨1, 1⟩) .skip⟩)).2 = .illFormed := by decide +kernel

end RbThm.JmpLNoIll
