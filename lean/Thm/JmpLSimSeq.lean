import Thm.JmpLSimBase
/-!
Jump layer, simulation part: sequences (and the two empty statements).

`seq a b` is the construct that shows the whole jump discipline: it is entered from its first instruction or at a label
inside `a` or inside `b`; a jump out of `a` or `b` to a label inside the sequence re-enters the sequence in seek mode (the
VM is already at the label, with the stacks of the entry state: `restart_seek`); any other jump, a RETURN, END and errors are
passed on.
-/
namespace RbThm.JmpLSim
set_option linter.unusedVariables false
set_option linter.unusedSimpArgs false
open RbModel RbModel.Num RbModel.JmpL RbModel.JmpL.Compile RbModel.JmpL.Vm
open RbModel.Ast (Pos PrintItem CaseExpr)
open RbModel.Ref (St ERes eval evalTo codeOf codeOutOfData codeZeroStep zeroOf truthy printValue endsInSeparator StepSign
  binStep lift)
open RbModel.JmpL.Ref
open RbThm.JmpLLen
open RbThm.C01Sim (Typed SlotsBelow ExprWt NumericAt NumericCond ItemsSlots CaseSlots CondsSlots)

theorem case_skip (C : Ctx) (fuel : Nat) (sfx : String) (d e off : Nat) (m : Mode) (σ : Vm) (s : St)
    (hen : Entry C.env off .skip m σ) (hr : Rel C.sl s σ) :
    StmtSpec C d e (off + sizeStmt C.env.dp d e .skip) σ (exec (fuel + 1) C.P (desugar .skip) m s) := by
  obtain ⟨rfl, hpc⟩ := hen.of_nolabels rfl
  simp only [desugar, exec, StmtSpec, sizeStmt]
  exact ⟨σ, Steps.refl σ, by omega, hr, SameStacks.refl σ⟩

theorem case_comment (C : Ctx) (fuel : Nat) (sfx : String) (d e off : Nat) (m : Mode) (σ : Vm) (s : St)
    (hen : Entry C.env off .comment m σ) (hr : Rel C.sl s σ) :
    StmtSpec C d e (off + sizeStmt C.env.dp d e .comment) σ (exec (fuel + 1) C.P (desugar .comment) m s) := by
  obtain ⟨rfl, hpc⟩ := hen.of_nolabels rfl
  simp only [desugar, exec, StmtSpec, sizeStmt]
  exact ⟨σ, Steps.refl σ, by omega, hr, SameStacks.refl σ⟩

/-- the jump-handling rule of a construct, as the reference semantics writes it (`match r with | (s', .jump L) => if … then
restart else pass | r => r`), given the specification of the part's result relative to the construct's entry state -/
theorem catch_spec {C : Ctx} {fuel : Nat} (ih : StmtIH C fuel) {stmt : SStmt} {sfx : String} {d e off : Nat} {σ : Vm}
    (hc : CodeAt C.code off (compileStmt C.env sfx d e off stmt)) (hl : LabAt C.env d e off stmt)
    (hw : Wf C.sl C.env.dp d e stmt) (hd : d ≤ σ.regStack.length) (he : e ≤ σ.vals.length)
    (r1 : St × Outcome) (h1 : StmtSpec C d e (off + sizeStmt C.env.dp d e stmt) σ r1)
    (hdep : ∀ s' L, r1 = (s', .jump L) → C.env.dp.fd L ≤ d ∧ C.env.dp.sd L ≤ e) :
    StmtSpec C d e (off + sizeStmt C.env.dp d e stmt) σ
      (match (generalizing := false) r1 with
       | (s', .jump L) => if (desugar stmt).hasLabel L = true then exec fuel C.P (desugar stmt) (.seek L) s' else (s', .jump L)
       | r => r) := by
  obtain ⟨s1, o1⟩ := r1
  cases o1 with
  | jump L =>
    simp only
    by_cases hL : (desugar stmt).hasLabel L = true
    · simp only [hL, if_true]
      exact restart_seek ih hc hl hw hd he h1 (hdep _ _ rfl) ((hasLabel_iff hw L).mp hL)
    · simp only [hL]
      exact h1
  | normal => exact h1
  | halted => exact h1
  | ret p => exact h1
  | error c p => exact h1
  | inexact => trivial
  | outOfFuel => trivial
  | illFormed => trivial
  | notHere => trivial

theorem case_seq (C : Ctx) (fuel : Nat) (ih : StmtIH C fuel) (a b : SStmt) (sfx : String) (d e off : Nat) (m : Mode)
    (σ : Vm) (s : St)
    (hc : CodeAt C.code off (compileStmt C.env sfx d e off (.seq a b)))
    (hl : LabAt C.env d e off (.seq a b)) (hw : Wf C.sl C.env.dp d e (.seq a b))
    (hen : Entry C.env off (.seq a b) m σ) (hr : Rel C.sl s σ)
    (hd : d ≤ σ.regStack.length) (he : e ≤ σ.vals.length) :
    StmtSpec C d e (off + sizeStmt C.env.dp d e (.seq a b)) σ (exec (fuel + 1) C.P (desugar (.seq a b)) m s) := by
  have hcs := hc
  simp only [compileStmt] at hc
  have hw0 := hw
  obtain ⟨hwa, hwb⟩ := hw
  obtain ⟨hla, hlb⟩ := hl.seq
  have hcb : CodeAt C.code (off + sizeStmt C.env.dp d e a)
      (compileStmt C.env sfx d e (off + sizeStmt C.env.dp d e a) b) := by
    have := hc.append_right
    rwa [len_stmt] at this
  have hfin : off + sizeStmt C.env.dp d e a + sizeStmt C.env.dp d e b = off + sizeStmt C.env.dp d e (.seq a b) := by
    simp only [sizeStmt]; omega
  -- the sequence is entered
  have hent : m.enters (desugar (.seq a b)) = true := by
    cases m with
    | run => rfl
    | seek L => exact (hasLabel_iff hw0 L).mpr hen.1
  -- `b`, entered either way, relative to a state with the stacks of `σ`
  have hbspec : ∀ (mb : Mode) (τ : Vm) (sb : St), Entry C.env (off + sizeStmt C.env.dp d e a) b mb τ → Rel C.sl sb τ →
      SameStacks σ τ → StmtSpec C d e (off + sizeStmt C.env.dp d e (.seq a b)) τ (exec fuel C.P (desugar b) mb sb) := by
    intro mb τ sb hen' hr' hss
    have := ih b sfx d e _ mb τ sb hcb hlb hwb hen' hr' (by rw [hss.1]; exact hd) (by rw [hss.2.1]; exact he)
    exact this.addr hfin
  -- what the two parts do, before the jump-handling rule
  have hinner : StmtSpec C d e (off + sizeStmt C.env.dp d e (.seq a b)) σ
      (if m.enters (desugar a) = true then
        match exec fuel C.P (desugar a) m s with
        | (s', .normal) => exec fuel C.P (desugar b) .run s'
        | r => r
      else exec fuel C.P (desugar b) m s) ∧
      ∀ s' L, (if m.enters (desugar a) = true then
        match exec fuel C.P (desugar a) m s with
        | (s', .normal) => exec fuel C.P (desugar b) .run s'
        | r => r
      else exec fuel C.P (desugar b) m s) = (s', .jump L) → C.env.dp.fd L ≤ d ∧ C.env.dp.sd L ≤ e := by
    by_cases hea : m.enters (desugar a) = true
    · simp only [hea, if_true]
      have hena : Entry C.env off a m σ := by
        cases m with
        | run => exact hen
        | seek L => exact ⟨(hasLabel_iff hwa L).mp hea, hen.2⟩
      have ha := ih a sfx d e off m σ s hc.append_left hla hwa hena hr hd he
      generalize hra : exec fuel C.P (desugar a) m s = ra at ha ⊢
      obtain ⟨s1, o1⟩ := ra
      cases o1 with
      | normal =>
        obtain ⟨τ, st, hp, hrel, hss⟩ := ha
        simp only
        exact ⟨StmtSpec.of_steps st hss (hbspec .run τ s1 hp hrel hss), fun s' L h => (jump_depths hwb h).2⟩
      | jump L => exact ⟨ha, fun s' L' h => by cases h; exact (jump_depths hwa hra).2⟩
      | halted => exact ⟨ha, fun s' L' h => by cases h⟩
      | ret p => exact ⟨ha, fun s' L' h => by cases h⟩
      | error c p => exact ⟨ha, fun s' L' h => by cases h⟩
      | inexact => exact ⟨trivial, fun s' L' h => by cases h⟩
      | outOfFuel => exact ⟨trivial, fun s' L' h => by cases h⟩
      | illFormed => exact ⟨trivial, fun s' L' h => by cases h⟩
      | notHere => exact ⟨trivial, fun s' L' h => by cases h⟩
    · simp only [hea]
      -- seek mode, and the label is in `b`
      cases m with
      | run => exact absurd rfl hea
      | seek L =>
        have hLa : L ∉ a.labels := fun h => hea ((hasLabel_iff hwa L).mpr h)
        have hLb : L ∈ b.labels := by
          have := hen.1
          simp only [SStmt.labels, List.mem_append] at this
          exact this.resolve_left hLa
        exact ⟨hbspec (.seek L) σ s ⟨hLb, hen.2⟩ hr (SameStacks.refl σ), fun s' L' h => (jump_depths hwb h).2⟩
  have := catch_spec ih hcs hl hw0 hd he _ hinner.1 hinner.2
  simp only [desugar] at hent this ⊢
  simp only [exec, hent, if_true]
  exact this

end RbThm.JmpLSim
