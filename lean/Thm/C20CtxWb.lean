import Thm.C20Trace
import Thm.C20Ctx
/-!
C20, fourth part — the backtracking contract THROUGH the context combinators (`RbModel.PcCtx`).

* `runC_mono`, `runC_wb`, `runTop_mono`, `runTop_wb`: every expression of the context model, under every environment
  and every top context, never moves the input backwards or past its end, and (over well-behaved lifted parsers:
  `cLeavesWB`, the `leavesWB` of every context-free sub-expression) a soft failure leaves the input where it started.
  A panic (reading an unset context, propagating a context into a `seqN`) is neither a result nor a position: the
  contract constrains the three `Result` outcomes.
* the loop of `many_ctx` (`manyCtxLoop`): its fuel `2 * len + 5` is exact.  The body reads its context through the
  test `== Sym(0)` only (`iif`), every value the combinators build is not `Sym(0)`, and the selectors hand a context
  on unchanged: so the *shape* of a round — outcome kind, codes, positions, and whether the value is `Sym(0)` —
  depends on the held context only through that one bit (`runC_param`).  A run of the loop therefore visits states
  `(position, bit)`; positions never decrease (`runC_mono`), so a state met twice is met for ever
  (`manyCtxLoop_stuck`) and a terminating run has at most `2 * (len + 1)` rounds: `manyCtxLoop_succ_stable`,
  `manyCtxLoop_fuel_exact`.
* the trace semantics of `C20Trace` extended to the context model — `Node` (a context expression under the context
  it is given, or a context-free parser below `lift` / `iif_ctx`), `CCalls`, `CConsults` — and
  **`fatal_never_downgraded_ctx`**: a fatal error of any consulted sub-parser is the result of the whole expression,
  in any round of a `many_ctx` (this is where the exact fuel is needed), whatever context was set at the top
  (`fatal_never_downgraded_top`).
-/
namespace RbThm.C20
open RbModel.Pc RbModel.PcCtx

/-! ## 1. The contract for parsers that may panic -/

/-- well-behaved (soft failure = no movement), for a parser of the context model -/
structure CWB (len : Nat) (p : Nat → CRes) : Prop where
  ok : ∀ pos v q, pos ≤ len → p pos = .res (.ok v q) → pos ≤ q ∧ q ≤ len
  soft : ∀ pos e q, pos ≤ len → p pos = .res (.soft e q) → q = pos
  fatal : ∀ pos e q, pos ≤ len → p pos = .res (.fatal e q) → pos ≤ q ∧ q ≤ len

/-- no outcome moves the position backwards or past the end -/
structure CMono (len : Nat) (p : Nat → CRes) : Prop where
  ok : ∀ pos v q, pos ≤ len → p pos = .res (.ok v q) → pos ≤ q ∧ q ≤ len
  soft : ∀ pos e q, pos ≤ len → p pos = .res (.soft e q) → pos ≤ q ∧ q ≤ len
  fatal : ∀ pos e q, pos ≤ len → p pos = .res (.fatal e q) → pos ≤ q ∧ q ≤ len

theorem CWB.mono {len p} (h : CWB len p) : CMono len p := by
  obtain ⟨o, s, f⟩ := h
  exact ⟨o, fun pos e q hpos hq => by have := s pos e q hpos hq; omega, f⟩

theorem CWB.of_wb {len : Nat} {p : P} (h : WB len p) : CWB len (fun pos => .res (p pos)) := by
  obtain ⟨o, s, f⟩ := h
  constructor <;> intro pos x q hpos hq <;> simp only [CRes.res.injEq] at hq
  · exact o _ _ _ hpos hq
  · exact s _ _ _ hpos hq
  · exact f _ _ _ hpos hq

theorem CMono.of_mono {len : Nat} {p : P} (h : Mono len p) : CMono len (fun pos => .res (p pos)) := by
  obtain ⟨o, s, f⟩ := h
  constructor <;> intro pos x q hpos hq <;> simp only [CRes.res.injEq] at hq
  · exact o _ _ _ hpos hq
  · exact s _ _ _ hpos hq
  · exact f _ _ _ hpos hq

/-- the loop of `many_ctx` over a body that never moves backwards, whatever context it holds -/
theorem manyCtxLoop_mono {len : Nat} {body : Option Val → Nat → CRes} (hb : ∀ env, CMono len (body env))
    (fuel pos : Nat) (acc : List Val) (ctxv : Val) (hpos : pos ≤ len) :
    (∀ v q, manyCtxLoop body fuel pos acc ctxv = .res (.ok v q) → pos ≤ q ∧ q ≤ len) ∧
    (∀ e q, manyCtxLoop body fuel pos acc ctxv ≠ .res (.soft e q)) ∧
    (∀ e q, manyCtxLoop body fuel pos acc ctxv = .res (.fatal e q) → pos ≤ q ∧ q ≤ len) := by
  induction fuel generalizing pos acc ctxv with
  | zero => simp [manyCtxLoop]
  | succ n ih =>
    obtain ⟨bo, bs, bf⟩ := hb (some ctxv)
    simp only [manyCtxLoop]
    split
    · simp
    · next v q hq =>
      have := bo _ _ _ hpos hq
      have := ih q (acc ++ [v]) v (by omega)
      grind
    · next e q hq => have := bs _ _ _ hpos hq; grind
    · next e q hq => have := bf _ _ _ hpos hq; grind
    · simp

/-- the syntactic side condition of `runC_wb`: every context-free parser inside satisfies `leavesWB` -/
def cLeavesWB : CExpr → Bool
  | .lift e => leavesWB e
  | .ctx => true
  | .iif l r => leavesWB l && leavesWB r
  | .mapCtx _ c | .noCtx c | .manyCtx _ c | .map _ c => cLeavesWB c
  | .thenWith _ l r | .and _ l r | .or2 l r | .seq2 l r => cLeavesWB l && cLeavesWB r

/-! ## 2. Every context expression honours the contract -/

/-- **`runC_mono`.** Every expression of the context model, whatever context its readers hold: no outcome moves the
position backwards or past the end of the input.  No side condition. -/
theorem runC_mono (inp : List Nat) : ∀ (c : CExpr) (env : Option Val), CMono inp.length (runC c env inp) := by
  intro c
  induction c with
  | lift e => intro env; exact CMono.of_mono (run_mono inp e)
  | ctx =>
    intro env
    constructor <;> intro pos x q hpos h <;> simp only [runC] at h <;> split at h <;> simp at h <;> omega
  | iif l r =>
    intro env
    have hl := run_mono inp l
    have hr := run_mono inp r
    constructor <;> intro pos x q hpos h <;> simp only [runC] at h <;> split at h <;>
      simp only [CRes.res.injEq, reduceCtorEq] at h <;> split at h
    · exact hl.ok _ _ _ hpos h
    · exact hr.ok _ _ _ hpos h
    · exact hl.soft _ _ _ hpos h
    · exact hr.soft _ _ _ hpos h
    · exact hl.fatal _ _ _ hpos h
    · exact hr.fatal _ _ _ hpos h
  | mapCtx f c ih => intro env; exact ih (env.map f.app)
  | noCtx c ih => intro env; exact ih none
  | thenWith cmb l r ihl ihr =>
    intro env
    obtain ⟨lo, ls, lf⟩ := ihl env
    constructor <;> intro pos x q hpos h <;> simp only [runC] at h <;> split at h
    all_goals first
      | (next a p1 hl1 =>
          have h1 := lo _ _ _ hpos hl1
          obtain ⟨ro, rs, rf⟩ := ihr (some a)
          split at h
          · simp at h
          · split at h <;> simp at h <;> grind)
      | grind
  | manyCtx an c ih =>
    intro env
    have hl := manyCtxLoop_mono (body := fun en p => runC c en inp p) (fun en => ih en)
    obtain ⟨bo, bs, bf⟩ := ih (some .nil)
    constructor <;> intro pos x q hpos h <;> simp only [runC] at h <;> split at h
    all_goals first
      | (simp at h; done)
      | (split at h
         all_goals first
           | (next v q1 hq1 =>
               have h1 := bo _ _ _ hpos hq1
               have := hl (2 * inp.length + 5) q1 [v] v (by omega)
               grind)
           | grind)
  | and cmb l r ihl ihr =>
    intro env
    obtain ⟨lo, ls, lf⟩ := ihl env; obtain ⟨ro, rs, rf⟩ := ihr env
    constructor <;> intro pos x q hpos h <;> simp only [runC] at h <;> split at h
    all_goals first
      | (next a p1 hl1 => have h1 := lo _ _ _ hpos hl1; split at h <;> simp at h <;> grind)
      | grind
  | or2 a b iha ihb =>
    intro env
    obtain ⟨ao, as, af⟩ := iha env; obtain ⟨bo, bs, bf⟩ := ihb env
    constructor <;> intro pos x q hpos h <;> simp only [runC] at h <;> split at h <;> grind
  | seq2 a b iha ihb =>
    intro env
    obtain ⟨ao, as, af⟩ := iha env; obtain ⟨bo, bs, bf⟩ := ihb env
    constructor <;> intro pos x q hpos h <;> simp only [runC] at h <;> split at h
    all_goals first
      | (next v p1 hl1 => have h1 := ao _ _ _ hpos hl1; split at h <;> simp at h <;> grind)
      | grind
  | map f c ih =>
    intro env
    obtain ⟨co, cs, cf⟩ := ih env
    constructor <;> intro pos x q hpos h <;> simp only [runC] at h <;> split at h <;> grind

/-- **`runC_wb`.** Every expression of the context model whose context-free parts are built from well-behaved leaves
(`cLeavesWB`), whatever context its readers hold: a soft failure leaves the input exactly where it started (and no
outcome moves it backwards or past the end) — through `then_with_in_context`, `many_ctx`, `map_ctx`, `no_context`, the
context reader, `iif_ctx` and the ordinary combinators between them. -/
theorem runC_wb (inp : List Nat) : ∀ (c : CExpr), cLeavesWB c = true → ∀ env : Option Val, CWB inp.length (runC c env inp) := by
  intro c
  induction c with
  | lift e => intro h env; exact CWB.of_wb (run_wb inp e h)
  | ctx =>
    intro _ env
    constructor <;> intro pos x q hpos h <;> simp only [runC] at h <;> split at h <;> simp at h <;> omega
  | iif l r =>
    intro hw env
    simp only [cLeavesWB, Bool.and_eq_true] at hw
    have hl := run_wb inp l hw.1
    have hr := run_wb inp r hw.2
    constructor <;> intro pos x q hpos h <;> simp only [runC] at h <;> split at h <;>
      simp only [CRes.res.injEq, reduceCtorEq] at h <;> split at h
    · exact hl.ok _ _ _ hpos h
    · exact hr.ok _ _ _ hpos h
    · exact hl.soft _ _ _ hpos h
    · exact hr.soft _ _ _ hpos h
    · exact hl.fatal _ _ _ hpos h
    · exact hr.fatal _ _ _ hpos h
  | mapCtx f c ih => intro hw env; exact ih hw (env.map f.app)
  | noCtx c ih => intro hw env; exact ih hw none
  | thenWith cmb l r ihl ihr =>
    intro hw env
    simp only [cLeavesWB, Bool.and_eq_true] at hw
    have hm := runC_mono inp (.thenWith cmb l r) env
    refine ⟨hm.ok, ?_, hm.fatal⟩
    obtain ⟨lo, ls, lf⟩ := ihl hw.1 env
    intro pos x q hpos h
    simp only [runC] at h
    split at h
    · simp at h
    · split at h
      · simp at h
      · split at h <;> simp at h
    · grind
  | manyCtx an c ih =>
    intro hw env
    simp only [cLeavesWB] at hw
    have hm := runC_mono inp (.manyCtx an c) env
    refine ⟨hm.ok, ?_, hm.fatal⟩
    have hl := manyCtxLoop_mono (body := fun en p => runC c en inp p) (fun en => (ih hw en).mono)
    obtain ⟨bo, bs, bf⟩ := ih hw (some .nil)
    intro pos x q hpos h
    simp only [runC] at h
    split at h
    · simp at h
    · split at h
      · simp at h
      · next v q1 hq1 =>
        have h1 := bo _ _ _ hpos hq1
        exact absurd h ((hl (2 * inp.length + 5) q1 [v] v (by omega)).2.1 x q)
      · next e q1 hq1 =>
        have h1 := bs _ _ _ hpos hq1
        split at h <;> simp at h
        omega
      · grind
  | and cmb l r ihl ihr =>
    intro hw env
    simp only [cLeavesWB, Bool.and_eq_true] at hw
    have hm := runC_mono inp (.and cmb l r) env
    refine ⟨hm.ok, ?_, hm.fatal⟩
    obtain ⟨lo, ls, lf⟩ := ihl hw.1 env
    intro pos x q hpos h
    simp only [runC] at h
    split at h
    · simp at h
    · split at h <;> simp at h <;> grind
    · grind
  | or2 a b iha ihb =>
    intro hw env
    simp only [cLeavesWB, Bool.and_eq_true] at hw
    have hm := runC_mono inp (.or2 a b) env
    refine ⟨hm.ok, ?_, hm.fatal⟩
    obtain ⟨ao, as, af⟩ := iha hw.1 env; obtain ⟨bo, bs, bf⟩ := ihb hw.2 env
    intro pos x q hpos h
    simp only [runC] at h
    split at h <;> grind
  | seq2 a b iha ihb =>
    intro hw env
    simp only [cLeavesWB, Bool.and_eq_true] at hw
    have hm := runC_mono inp (.seq2 a b) env
    refine ⟨hm.ok, ?_, hm.fatal⟩
    obtain ⟨ao, as, af⟩ := iha hw.1 env
    intro pos x q hpos h
    simp only [runC] at h
    split at h
    · simp at h
    · split at h <;> simp at h <;> grind
    · grind
  | map f c ih =>
    intro hw env
    simp only [cLeavesWB] at hw
    obtain ⟨co, cs, cf⟩ := ih hw env
    constructor <;> intro pos x q hpos h <;> simp only [runC] at h <;> split at h <;> grind

/-- what a caller observes (`runTop`: optionally `set_context`, then `parse`), every top context -/
theorem runTop_mono (inp : List Nat) (c : CExpr) (top : Option Val) : CMono inp.length (runTop c top inp) := by
  have h := runC_mono inp c top
  constructor <;> intro pos x q hpos hq <;> simp only [runTop] at hq <;> split at hq
  all_goals first | (simp at hq; done) | skip
  · exact h.ok _ _ _ hpos hq
  · exact h.soft _ _ _ hpos hq
  · exact h.fatal _ _ _ hpos hq

/-- **`runTop_wb`** (the property's clause "a soft failure … leaves the input where it started" for the context
combinators, as the caller observes it) -/
theorem runTop_wb (inp : List Nat) (c : CExpr) (hw : cLeavesWB c = true) (top : Option Val) :
    CWB inp.length (runTop c top inp) := by
  have h := runC_wb inp c hw top
  constructor <;> intro pos x q hpos hq <;> simp only [runTop] at hq <;> split at hq
  all_goals first | (simp at hq; done) | skip
  · exact h.ok _ _ _ hpos hq
  · exact h.soft _ _ _ hpos hq
  · exact h.fatal _ _ _ hpos hq

/-- the aliases under which the two statements are listed -/
theorem runCtx_mono (inp : List Nat) (c : CExpr) (top : Option Val) : CMono inp.length (runTop c top inp) :=
  runTop_mono inp c top

theorem runCtx_wb (inp : List Nat) (c : CExpr) (hw : cLeavesWB c = true) (top : Option Val) :
    CWB inp.length (runTop c top inp) :=
  runTop_wb inp c hw top

/-- `any >>= (iif a b)*`: a three-level context expression satisfying the side condition, with a soft failure
(empty input) that stays at 0 and a success that moves forward -/
example : cLeavesWB (.thenWith .tuple (.lift .any) (.manyCtx true (.iif (.one 0) (.one 1)))) = true ∧
    runTop (.thenWith .tuple (.lift .any) (.manyCtx true (.iif (.one 0) (.one 1)))) none [] 0 = .res (.soft 0 0) ∧
    runTop (.thenWith .tuple (.lift .any) (.manyCtx true (.iif (.one 0) (.one 1)))) none [2, 1, 1, 0] 0 =
      .res (.ok (.pair (.sym 2) (Val.ofList [.sym 1, .sym 1])) 3) := by
  decide

/-- the side condition is needed: with the ill-behaved leaf below `many_ctx` the soft failure has moved -/
example : runTop (.manyCtx false (.lift .eatSoft)) none [0] 0 = .res (.soft 7 1) := by decide

/-! ## 3. A round of `many_ctx` depends on the held context through one bit -/

/-- the only question the parsers of the model ask about a context: `== Sym(0)` (`iif`'s projection) -/
def bit (v : Val) : Bool := v == .sym 0

/-- two outcomes of the same shape: same kind, codes and positions; values agreeing on the bit -/
inductive SimR : CRes → CRes → Prop where
  | panic : SimR .panic .panic
  | ok {v w : Val} (q : Nat) : bit v = bit w → SimR (.res (.ok v q)) (.res (.ok w q))
  | soft (e q : Nat) : SimR (.res (.soft e q)) (.res (.soft e q))
  | fatal (e q : Nat) : SimR (.res (.fatal e q)) (.res (.fatal e q))
  | hang : SimR (.res .hang) (.res .hang)

theorem SimR.refl : ∀ r : CRes, SimR r r
  | .panic => .panic
  | .res (.ok v q) => .ok q rfl
  | .res (.soft e q) => .soft e q
  | .res (.fatal e q) => .fatal e q
  | .res .hang => .hang

/-- environments agreeing on the bit (both unset, or both set) -/
def SimEnv : Option Val → Option Val → Prop
  | none, none => True
  | some v, some w => bit v = bit w
  | _, _ => False

theorem bit_cmb (cmb : Cmb) {a a' b b' : Val} (ha : bit a = bit a') (hb : bit b = bit b') :
    bit (cmb.app a b) = bit (cmb.app a' b') := by
  have hl : ∀ l : List Val, bit (Val.ofList l) = false := fun l => by cases l <;> rfl
  cases cmb
  case tuple => rfl
  case left => exact ha
  case right => exact hb
  case vecCat => simp only [Cmb.app, hl]
  case optStrCat => simp only [Cmb.app]; split <;> split <;> rfl
  case charOpt => simp only [Cmb.app]; split <;> split <;> rfl
  all_goals rfl

theorem bit_mapFn (f : MapFn) (v w : Val) : bit (f.app v) = bit (f.app w) := by
  cases f
  case tokChar => simp only [MapFn.app]; split <;> split <;> rfl
  all_goals rfl

theorem bit_ctxFn (f : CtxFn) {v w : Val} (h : bit v = bit w) : bit (f.app v) = bit (f.app w) := by
  cases f
  · exact h
  · rfl
  · rfl

/-- **`runC_param`.** Under two environments that agree on the bit `== Sym(0)`, an expression of the context model
gives outcomes of the same shape from every position: the held context influences the control flow through that bit
only, and the value through selectors only. -/
theorem runC_param (inp : List Nat) : ∀ (c : CExpr) (env env' : Option Val), SimEnv env env' → ∀ pos : Nat,
    SimR (runC c env inp pos) (runC c env' inp pos) := by
  intro c
  induction c with
  | lift e => intro env env' _ pos; exact SimR.refl _
  | ctx =>
    intro env env' he pos
    cases env <;> cases env' <;> simp only [SimEnv] at he
    · exact .panic
    · exact .ok pos he
  | iif l r =>
    intro env env' he pos
    cases env <;> cases env' <;> simp only [SimEnv] at he
    · exact .panic
    · next v w =>
      have : (v == Val.sym 0) = (w == Val.sym 0) := he
      simp only [runC, this]; exact SimR.refl _
  | mapCtx f c ih =>
    intro env env' he pos
    simp only [runC]
    apply ih
    cases env <;> cases env' <;> simp only [SimEnv, Option.map] at he ⊢
    exact bit_ctxFn f he
  | noCtx c ih => intro env env' _ pos; simp only [runC]; exact SimR.refl _
  | manyCtx an c ih => intro env env' _ pos; simp only [runC]; exact SimR.refl _
  | thenWith cmb l r ihl ihr =>
    intro env env' he pos
    simp only [runC]
    have h1 := ihl env env' he pos
    generalize runC l env inp pos = r1 at h1 ⊢
    generalize runC l env' inp pos = r2 at h1 ⊢
    cases h1 with
    | panic => exact .panic
    | @ok a a' p1 hb =>
      simp only
      split
      · exact .panic
      · have h2 := ihr (some a) (some a') hb p1
        generalize runC r (some a) inp p1 = s1 at h2 ⊢
        generalize runC r (some a') inp p1 = s2 at h2 ⊢
        cases h2 with
        | panic => exact .panic
        | ok q hb2 => exact .ok q (bit_cmb cmb hb hb2)
        | soft e q => exact .fatal e q
        | fatal e q => exact .fatal e q
        | hang => exact .hang
    | soft e q => exact .soft e q
    | fatal e q => exact .fatal e q
    | hang => exact .hang
  | and cmb l r ihl ihr =>
    intro env env' he pos
    simp only [runC]
    have h1 := ihl env env' he pos
    generalize runC l env inp pos = r1 at h1 ⊢
    generalize runC l env' inp pos = r2 at h1 ⊢
    cases h1 with
    | panic => exact .panic
    | @ok a a' p1 hb =>
      simp only
      have h2 := ihr env env' he p1
      generalize runC r env inp p1 = s1 at h2 ⊢
      generalize runC r env' inp p1 = s2 at h2 ⊢
      cases h2 with
      | panic => exact .panic
      | ok q hb2 => exact .ok q (bit_cmb cmb hb hb2)
      | soft e q => exact .soft e pos
      | fatal e q => exact .fatal e q
      | hang => exact .hang
    | soft e q => exact .soft e q
    | fatal e q => exact .fatal e q
    | hang => exact .hang
  | or2 a b iha ihb =>
    intro env env' he pos
    simp only [runC]
    have h1 := iha env env' he pos
    generalize runC a env inp pos = r1 at h1 ⊢
    generalize runC a env' inp pos = r2 at h1 ⊢
    cases h1 with
    | panic => exact .panic
    | ok q hb => exact .ok q hb
    | soft e q => exact ihb env env' he pos
    | fatal e q => exact .fatal e q
    | hang => exact .hang
  | seq2 a b iha ihb =>
    intro env env' he pos
    simp only [runC]
    have h1 := iha env env' he pos
    generalize runC a env inp pos = r1 at h1 ⊢
    generalize runC a env' inp pos = r2 at h1 ⊢
    cases h1 with
    | panic => exact .panic
    | @ok v v' p1 hb =>
      simp only
      have h2 := ihb env env' he p1
      generalize runC b env inp p1 = s1 at h2 ⊢
      generalize runC b env' inp p1 = s2 at h2 ⊢
      cases h2 with
      | panic => exact .panic
      | ok q hb2 => exact .ok q rfl
      | soft e q => exact .fatal e q
      | fatal e q => exact .fatal e q
      | hang => exact .hang
    | soft e q => exact .soft e q
    | fatal e q => exact .fatal e q
    | hang => exact .hang
  | map f c ih =>
    intro env env' he pos
    simp only [runC]
    have h1 := ih env env' he pos
    generalize runC c env inp pos = r1 at h1 ⊢
    generalize runC c env' inp pos = r2 at h1 ⊢
    cases h1 with
    | panic => exact .panic
    | ok q hb => exact .ok q (bit_mapFn f _ _)
    | soft e q => exact .soft e q
    | fatal e q => exact .fatal e q
    | hang => exact .hang

/-! ## 4. The fuel of the `many_ctx` loop is exact -/

/-- what the loop needs of its body: never backwards, and the held context matters through the bit only -/
structure BodyOK (len : Nat) (body : Option Val → Nat → CRes) : Prop where
  mono : ∀ env, CMono len (body env)
  param : ∀ (v w : Val) (pos : Nat), bit v = bit w → SimR (body (some v) pos) (body (some w) pos)

theorem bodyOK_runC (inp : List Nat) (c : CExpr) : BodyOK inp.length (fun en p => runC c en inp p) :=
  ⟨fun en => runC_mono inp c en, fun v w pos h => runC_param inp c (some v) (some w) h pos⟩

/-- two rounds at `pos` that do not consume and come back to the bit they started with: the loop state
`(pos, bit)` repeats -/
def Stuck2 (body : Option Val → Nat → CRes) (pos : Nat) (v : Val) : Prop :=
  ∃ v' v'', body (some v) pos = .res (.ok v' pos) ∧ body (some v') pos = .res (.ok v'' pos) ∧ bit v'' = bit v

theorem ok_of_sim {body : Option Val → Nat → CRes} {x y v : Val} {pos q : Nat}
    (h : SimR (body (some x) pos) (body (some y) pos)) (hy : body (some y) pos = .res (.ok v q)) :
    ∃ w, body (some x) pos = .res (.ok w q) ∧ bit w = bit v := by
  rw [hy] at h
  generalize body (some x) pos = r at h
  cases h with
  | ok q hb => exact ⟨_, rfl, hb⟩

theorem Stuck2.step {len : Nat} {body : Option Val → Nat → CRes} (hb : BodyOK len body) {pos : Nat} {v : Val}
    (h : Stuck2 body pos v) : ∃ v', body (some v) pos = .res (.ok v' pos) ∧ Stuck2 body pos v' := by
  obtain ⟨v', v'', h1, h2, h3⟩ := h
  obtain ⟨w, hw, hbw⟩ := ok_of_sim (hb.param v'' v pos h3) h1
  exact ⟨v', h1, v'', w, h2, hw, hbw⟩

/-- a repeating state is met for ever: the loop answers `hang` with every fuel -/
theorem manyCtxLoop_stuck {len : Nat} {body : Option Val → Nat → CRes} (hb : BodyOK len body) {pos : Nat} :
    ∀ (F : Nat) (v : Val) (acc : List Val), Stuck2 body pos v → manyCtxLoop body F pos acc v = .res .hang := by
  intro F
  induction F with
  | zero => intros; rfl
  | succ n ih =>
    intro v acc h
    obtain ⟨v', h1, h2⟩ := h.step hb
    simp only [manyCtxLoop, h1]
    exact ih v' _ h2

/-- one non-consuming round that keeps the bit is already a repeating state -/
theorem Stuck2.of_same_bit {len : Nat} {body : Option Val → Nat → CRes} (hb : BodyOK len body) {pos : Nat} {v v' : Val}
    (h1 : body (some v) pos = .res (.ok v' pos)) (hbit : bit v' = bit v) : Stuck2 body pos v := by
  obtain ⟨w, hw, hbw⟩ := ok_of_sim (hb.param v' v pos hbit) h1
  exact ⟨v', w, h1, hw, by rw [hbw, hbit]⟩

/-- **More fuel never changes the answer of the `many_ctx` loop** once the fuel exceeds twice the remaining input
plus two: positions never decrease, at one position the loop can make at most two non-consuming rounds (the two bits)
before a state repeats, and a repeated state repeats for ever. -/
theorem manyCtxLoop_succ_stable {len : Nat} {body : Option Val → Nat → CRes} (hb : BodyOK len body) :
    ∀ (F pos : Nat) (acc : List Val) (ctx : Val), pos ≤ len → 2 * (len - pos) + 2 < F →
      manyCtxLoop body (F + 1) pos acc ctx = manyCtxLoop body F pos acc ctx := by
  intro F
  induction F using Nat.strongRecOn with
  | _ F ih =>
    intro pos acc ctx hpos hF
    obtain ⟨n, rfl⟩ : ∃ n, F = n + 1 := ⟨F - 1, by omega⟩
    cases h0 : body (some ctx) pos with
    | panic => simp only [manyCtxLoop, h0]
    | res r0 =>
      cases r0 with
      | soft e q => simp only [manyCtxLoop, h0]
      | fatal e q => simp only [manyCtxLoop, h0]
      | hang => simp only [manyCtxLoop, h0]
      | ok v q =>
        have hq := (hb.mono (some ctx)).ok _ _ _ hpos h0
        have e0 : ∀ G acc, manyCtxLoop body (G + 1) pos acc ctx = manyCtxLoop body G q (acc ++ [v]) v := by
          intro G acc; rw [manyCtxLoop]; simp only [h0]
        by_cases hqp : q = pos
        · subst hqp
          obtain ⟨m, rfl⟩ : ∃ m, n = m + 1 := ⟨n - 1, by omega⟩
          cases h1 : body (some v) q with
          | panic => simp only [manyCtxLoop, h0, h1]
          | res r1 =>
            cases r1 with
            | soft e q1 => simp only [manyCtxLoop, h0, h1]
            | fatal e q1 => simp only [manyCtxLoop, h0, h1]
            | hang => simp only [manyCtxLoop, h0, h1]
            | ok v2 q2 =>
              have hq2 := (hb.mono (some v)).ok _ _ _ hpos h1
              have e1 : ∀ G acc, manyCtxLoop body (G + 1) q acc v = manyCtxLoop body G q2 (acc ++ [v2]) v2 := by
                intro G acc; rw [manyCtxLoop]; simp only [h1]
              by_cases hq2p : q2 = q
              · subst hq2p
                -- three values, two bits: a state repeats
                by_cases h10 : bit v = bit ctx
                · have hs : Stuck2 body q2 ctx := Stuck2.of_same_bit hb h0 h10
                  rw [manyCtxLoop_stuck hb _ _ _ hs, manyCtxLoop_stuck hb _ _ _ hs]
                · by_cases h20 : bit v2 = bit ctx
                  · have hs : Stuck2 body q2 ctx := ⟨v, v2, h0, h1, h20⟩
                    rw [manyCtxLoop_stuck hb _ _ _ hs, manyCtxLoop_stuck hb _ _ _ hs]
                  · have h21 : bit v2 = bit v := by
                      cases hv2 : bit v2 <;> cases hv : bit v <;> cases hc : bit ctx <;> simp_all
                    have hs : Stuck2 body q2 v := Stuck2.of_same_bit hb h1 h21
                    rw [e0, e0, manyCtxLoop_stuck hb _ _ _ hs, manyCtxLoop_stuck hb _ _ _ hs]
              · rw [e0, e0, e1, e1]
                exact ih m (by omega) q2 _ v2 hq2.2 (by omega)
        · rw [e0, e0]
          exact ih n (by omega) q _ v hq.2 (by omega)

/-- **`manyCtxLoop_fuel_exact`.** The fuel bound of the model suffices: every fuel `F ≥ 2 * len + 5` gives the answer of
fuel `2 * len + 5` (the bound `RbModel.PcCtx.runC` uses; so far argued and tested, now proved). -/
theorem manyCtxLoop_fuel_exact {len : Nat} {body : Option Val → Nat → CRes} (hb : BodyOK len body) (pos : Nat)
    (hpos : pos ≤ len) (acc : List Val) (ctx : Val) (F : Nat) (hF : 2 * len + 5 ≤ F) :
    manyCtxLoop body F pos acc ctx = manyCtxLoop body (2 * len + 5) pos acc ctx := by
  induction F with
  | zero => omega
  | succ n ih =>
    by_cases h : 2 * len + 5 ≤ n
    · rw [manyCtxLoop_succ_stable hb n pos acc ctx hpos (by omega)]; exact ih h
    · have : n + 1 = 2 * len + 5 := by omega
      rw [this]

/-- two rounds at position 0 that alternate between the two bits: `peek any` under context `Sym 0`, … the loop hangs -/
example : Stuck2 (fun en p => runC (.iif (.map .wrap .peekAny) .peekAny) en [0] p) 0 (.sym 0) :=
  ⟨.some (.sym 0), .sym 0, by decide, by decide, rfl⟩

example : runTop (.thenWith .right (.lift .peekAny) (.manyCtx false (.iif (.map .wrap .peekAny) .peekAny))) none [0] 0 =
    .res .hang := by decide

/-! ## 5. Which sub-parser is consulted where, in the context model: the trace semantics of `C20Trace` extended -/

/-- what can be consulted: a context expression together with the context its readers hold, or a context-free
expression (below `lift` / `iif`) -/
inductive Node where
  | ce (c : CExpr) (env : Option Val)
  | pe (e : PExpr)

def Node.run (inp : List Nat) : Node → Nat → CRes
  | .ce c env, pos => runC c env inp pos
  | .pe e, pos => .res (RbModel.Pc.run e inp pos)

/-- `CCalls inp c env pos m q`: evaluating the context expression `c`, its readers holding `env`, from `pos` invokes its
direct sub-parser `m` (with the context it is given) at `q` — one constructor per combinator and sub-parser, with
exactly the conditions under which `parse` reaches that call. -/
inductive CCalls (inp : List Nat) : CExpr → Option Val → Nat → Node → Nat → Prop where
  | lift {e env pos} : CCalls inp (.lift e) env pos (.pe e) pos
  | iif_l {l r v pos} : (v == Val.sym 0) = true → CCalls inp (.iif l r) (some v) pos (.pe l) pos
  | iif_r {l r v pos} : (v == Val.sym 0) = false → CCalls inp (.iif l r) (some v) pos (.pe r) pos
  | mapCtx {f c env pos} : CCalls inp (.mapCtx f c) env pos (.ce c (env.map f.app)) pos
  | noCtx {c env pos} : CCalls inp (.noCtx c) env pos (.ce c none) pos
  | thenWith_l {cmb l r env pos} : CCalls inp (.thenWith cmb l r) env pos (.ce l env) pos
  | thenWith_r {cmb l r env pos a p1} : runC l env inp pos = .res (.ok a p1) → setPanics r = false →
      CCalls inp (.thenWith cmb l r) env pos (.ce r (some a)) p1
  | manyCtx {an c env pos vs q last} : setPanics c = false →
      CChain (fun en p => runC c en inp p) .nil pos vs q last → CCalls inp (.manyCtx an c) env pos (.ce c (some last)) q
  | and_l {cmb l r env pos} : CCalls inp (.and cmb l r) env pos (.ce l env) pos
  | and_r {cmb l r env pos a p1} : runC l env inp pos = .res (.ok a p1) → CCalls inp (.and cmb l r) env pos (.ce r env) p1
  | or2_a {a b env pos} : CCalls inp (.or2 a b) env pos (.ce a env) pos
  | or2_b {a b env pos e q} : runC a env inp pos = .res (.soft e q) → CCalls inp (.or2 a b) env pos (.ce b env) pos
  | seq2_a {a b env pos} : CCalls inp (.seq2 a b) env pos (.ce a env) pos
  | seq2_b {a b env pos v q} : runC a env inp pos = .res (.ok v q) → CCalls inp (.seq2 a b) env pos (.ce b env) q
  | map {f c env pos} : CCalls inp (.map f c) env pos (.ce c env) pos

/-- the reflexive-transitive closure, continued below `lift` / `iif` by the `Consults` of the context-free model -/
inductive CConsults (inp : List Nat) : Node → Nat → Node → Nat → Prop where
  | refl (n : Node) (pos : Nat) : CConsults inp n pos n pos
  | cstep {c env pos m p1 s q} : CCalls inp c env pos m p1 → CConsults inp m p1 s q → CConsults inp (.ce c env) pos s q
  | pstep {e pos s q} : Consults inp e pos s q → CConsults inp (.pe e) pos (.pe s) q

theorem CChain.le_len {len : Nat} {body : Option Val → Nat → CRes} (hb : ∀ env, CMono len (body env))
    {ctx : Val} {pos : Nat} {vs : List Val} {q : Nat} {last : Val} (h : CChain body ctx pos vs q last) (hpos : pos ≤ len) :
    q ≤ len := by
  induction h with
  | nil => exact hpos
  | cons h1 _ ih => exact ih ((hb _).ok _ _ _ hpos h1).2

theorem CCalls.pos_le {inp : List Nat} {c : CExpr} {env : Option Val} {pos : Nat} {m : Node} {q : Nat}
    (h : CCalls inp c env pos m q) (hpos : pos ≤ inp.length) : q ≤ inp.length := by
  cases h with
  | thenWith_r h1 _ => exact ((runC_mono inp _ _).ok _ _ _ hpos h1).2
  | manyCtx _ hc => exact hc.le_len (fun en => runC_mono inp _ en) hpos
  | and_r h1 => exact ((runC_mono inp _ _).ok _ _ _ hpos h1).2
  | seq2_b h1 => exact ((runC_mono inp _ _).ok _ _ _ hpos h1).2
  | _ => exact hpos

/-- after a chain of successful rounds the loop is where the chain ends: if from there it answers `res` with every fuel
≥ 1, it answers `res` from the start with every large enough fuel -/
theorem CChain.eventually {body : Option Val → Nat → CRes} {ctx : Val} {pos : Nat} {vs : List Val} {q : Nat} {last : Val}
    (h : CChain body ctx pos vs q last) (res : CRes)
    (hres : ∀ F acc, 1 ≤ F → manyCtxLoop body F q acc last = res) :
    ∃ F0, ∀ F, F0 ≤ F → ∀ acc, manyCtxLoop body F pos acc ctx = res := by
  induction h with
  | nil => exact ⟨1, fun F hF acc => hres F acc hF⟩
  | cons h1 _ ih =>
    obtain ⟨F0, hF0⟩ := ih hres
    refine ⟨F0 + 1, fun F hF acc => ?_⟩
    cases F with
    | zero => omega
    | succ n => simp only [manyCtxLoop, h1]; exact hF0 n (by omega) _

/-- the same through the first round of `ManyCtxParser::parse` and the model's fuel -/
theorem manyCtx_of_chain {inp : List Nat} {an : Bool} {c : CExpr} {env : Option Val} {pos : Nat} {vs : List Val} {q : Nat}
    {last : Val} (hsp : setPanics c = false) (hpos : pos ≤ inp.length)
    (h : CChain (fun en p => runC c en inp p) .nil pos vs q last) (x : Res)
    (hx : runC c (some last) inp q = .res x) (hnok : ∀ v q', x ≠ .ok v q') (hns : ∀ e q', x ≠ .soft e q') :
    runC (.manyCtx an c) env inp pos = .res x := by
  have hres : ∀ F acc, 1 ≤ F → manyCtxLoop (fun en p => runC c en inp p) F q acc last = .res x := by
    intro F acc hF
    obtain ⟨n, rfl⟩ : ∃ n, F = n + 1 := ⟨F - 1, by omega⟩
    simp only [manyCtxLoop, hx]
    cases x with
    | ok v q' => exact absurd rfl (hnok v q')
    | soft e q' => exact absurd rfl (hns e q')
    | fatal e q' => rfl
    | hang => rfl
  simp only [runC, hsp, Bool.false_eq_true, if_false]
  cases h with
  | nil =>
    rw [hx]
    cases x with
    | ok v q' => exact absurd rfl (hnok v q')
    | soft e q' => exact absurd rfl (hns e q')
    | fatal e q' => rfl
    | hang => rfl
  | cons h1 hc =>
    rename_i v1 q1 vs'
    simp only [h1]
    obtain ⟨F0, hF0⟩ := hc.eventually (.res x) hres
    have hq1 := ((runC_mono inp c (some .nil)).ok _ _ _ hpos h1).2
    rw [← manyCtxLoop_fuel_exact (bodyOK_runC inp c) q1 hq1 [v1] v1 (max F0 (2 * inp.length + 5)) (by omega)]
    exact hF0 _ (by omega) _

/-- **One call.** If evaluating `c` calls a sub-parser and that call returns a fatal error, `c` returns that very
error, with the input where the sub-parser left it (no combinator of the context model changes an error code). -/
theorem CCalls.fatal {inp : List Nat} {c : CExpr} {env : Option Val} {pos : Nat} {m : Node} {q code q' : Nat}
    (h : CCalls inp c env pos m q) (hpos : pos ≤ inp.length) (hf : m.run inp q = .res (.fatal code q')) :
    runC c env inp pos = .res (.fatal code q') := by
  cases h with
  | lift => simpa [Node.run, runC] using hf
  | iif_l hv => simp only [Node.run, CRes.res.injEq] at hf; simp [runC, hv, hf]
  | iif_r hv => simp only [Node.run, CRes.res.injEq] at hf; simp [runC, hv, hf]
  | mapCtx => simpa [Node.run, runC] using hf
  | noCtx => simpa [Node.run, runC] using hf
  | thenWith_l => simp only [Node.run] at hf; simp [runC, hf]
  | thenWith_r h1 hsp => simp only [Node.run] at hf; simp [runC, h1, hsp, hf]
  | manyCtx hsp hc =>
    simp only [Node.run] at hf
    exact manyCtx_of_chain hsp hpos hc _ hf (by simp) (by simp)
  | and_l => simp only [Node.run] at hf; simp [runC, hf]
  | and_r h1 => simp only [Node.run] at hf; simp [runC, h1, hf]
  | or2_a => simp only [Node.run] at hf; simp [runC, hf]
  | or2_b h1 => simp only [Node.run] at hf; simp [runC, h1, hf]
  | seq2_a => simp only [Node.run] at hf; simp [runC, hf]
  | seq2_b h1 => simp only [Node.run] at hf; simp [runC, h1, hf]
  | map => simp only [Node.run] at hf; simp [runC, hf]

/-- does a context-free part contain a `map_fatal_err` node? -/
def cHasMFE : CExpr → Bool
  | .lift e => hasMFE e
  | .ctx => false
  | .iif l r => hasMFE l || hasMFE r
  | .mapCtx _ c | .noCtx c | .manyCtx _ c | .map _ c => cHasMFE c
  | .thenWith _ l r | .and _ l r | .or2 l r | .seq2 l r => cHasMFE l || cHasMFE r

def Node.hasMFE : Node → Bool
  | .ce c _ => cHasMFE c
  | .pe e => RbThm.C20.hasMFE e

theorem CCalls.hasMFE_of_callee {inp : List Nat} {c : CExpr} {env : Option Val} {pos : Nat} {m : Node} {q : Nat}
    (h : CCalls inp c env pos m q) (hm : m.hasMFE = true) : cHasMFE c = true := by
  cases h <;> simp_all [Node.hasMFE, cHasMFE]

/-- **`fatal_never_downgraded_ctx`** — the trace-level statement of `fatal_never_downgraded_expr` for the context model.
For every expression of the context model, every context held by its readers, every input and start position inside
it: if the evaluation consults a sub-parser — a context sub-expression under the context it is given there, at any
nesting depth, in any round of a `many_ctx`, or a context-free parser below `lift` / `iif_ctx` at any depth of the
context-free trace — and that sub-parser returns a fatal error, then the whole expression returns a fatal error with
the input where the sub-parser left it; it is the same error unless a context-free part contains a `map_fatal_err`. -/
theorem fatal_never_downgraded_ctx {inp : List Nat} {n s : Node} {pos q code q' : Nat}
    (hc : CConsults inp n pos s q) (hpos : pos ≤ inp.length) (hf : s.run inp q = .res (.fatal code q')) :
    ∃ code', n.run inp pos = .res (.fatal code' q') ∧ (n.hasMFE = false → code' = code) := by
  induction hc with
  | refl n pos => exact ⟨code, hf, fun _ => rfl⟩
  | @cstep c env pos1 m p1 s1 q1 hcall _ ih =>
    obtain ⟨c1, h1, hc1⟩ := ih (hcall.pos_le hpos) hf
    refine ⟨c1, hcall.fatal hpos h1, fun hno => hc1 ?_⟩
    cases hh : m.hasMFE with
    | false => rfl
    | true =>
      have := hcall.hasMFE_of_callee hh
      simp only [Node.hasMFE] at hno
      rw [this] at hno; exact absurd hno (by simp)
  | @pstep e pos1 s1 q1 hcons =>
    simp only [Node.run, CRes.res.injEq] at hf
    obtain ⟨c', h1, h2⟩ := fatal_never_downgraded_expr hcons hpos hf
    exact ⟨c', by simp only [Node.run, h1], fun hno => h2 hno⟩

/-- the statement for the expression the caller holds, whatever top context was set -/
theorem fatal_never_downgraded_top {inp : List Nat} {c : CExpr} {top : Option Val} {s : Node} {pos q code q' : Nat}
    (hsp : (top.isSome && setPanics c) = false)
    (hc : CConsults inp (.ce c top) pos s q) (hpos : pos ≤ inp.length) (hf : s.run inp q = .res (.fatal code q')) :
    ∃ code', runTop c top inp pos = .res (.fatal code' q') ∧ (cHasMFE c = false → code' = code) := by
  obtain ⟨c', h1, h2⟩ := fatal_never_downgraded_ctx hc hpos hf
  exact ⟨c', by simpa [runTop, hsp, Node.run] using h1, h2⟩

/-- `any >>= (iif (a !4) (a|b))*` on `c b a a`: the third round of the `many_ctx` — the first under the default
context, the second under `b`, the third under `a` = `Sym 0` — takes the left branch of `iif_ctx` and consults
`failFatal 4` below its `and`; the whole parser returns that error, at 4 -/
example : CConsults [2, 1, 0, 0]
    (.ce (.thenWith .tuple (.lift .any)
      (.manyCtx true (.iif (.and .tuple (.one 0) (.failFatal 4)) (.oneOf [0, 1])))) none) 0
    (.pe (.failFatal 4)) 4 :=
  .cstep (.thenWith_r (a := .sym 2) (p1 := 1) (by decide) (by decide))
    (.cstep (.manyCtx (vs := [.sym 1, .sym 0]) (q := 3) (last := .sym 0) (by decide)
        (.cons (v := .sym 1) (q := 2) (by decide) (.cons (v := .sym 0) (q := 3) (by decide) (.nil _ _))))
      (.cstep (.iif_l (by decide)) (.pstep (.step (.and_r (a := .sym 0) (p1 := 4) (by decide)) (.refl _ _)))))

example : runTop (.thenWith .tuple (.lift .any)
    (.manyCtx true (.iif (.and .tuple (.one 0) (.failFatal 4)) (.oneOf [0, 1])))) none [2, 1, 0, 0] 0 =
    .res (.fatal 4 4) := by decide

end RbThm.C20
