import Thm.JmpLEncloseSibling
/-!
Jump layer, the checker's rule about jumps into FOR bodies and SELECT CASE blocks (`JmpL.encB` / `JmpL.jumpsEnclosedB`):
**the rule rejects exactly the jumps into a block from a neighbouring part** — the converse of `JmpLEncloseSibling` and the
resulting characterisation.

`JmpLEncloseSibling` proves sufficiency: an outside jump to a label inside a block of `s` (`outer_jump_into_block_rejected`)
and a cross jump somewhere in `s` (`crossAt_rejected`, `CrossAt L s`) make `encB outer s` false.  Here is necessity, with the
relation `CrossAt` of that file unchanged (its constructor rules are exactly the neighbouring-parts checks of `encB`: the two
sides of a sequence; THEN part / ELSEIF bodies / ELSE part of an IF block, and the ELSEIF bodies among themselves; the CASE
blocks / the CASE ELSE of a SELECT, and the CASE blocks among themselves):

* `noneIntoB_false_elim`: a failing `noneIntoB outer inner` has a witness `L ∈ outer`, `L ∈ inner`.
* `encB_false_cases` (+ `encElifsB_false_cases`, `encCasesB_false_cases`): `encB outer s = false` gives an outside jump to a
  label inside a block of `s`, or a cross jump somewhere in `s`.
* `encB_iff` (+ ElseIfs / SCases companions), `encB_true_iff`.
* `jumpsEnclosedB_iff`, `jumpsEnclosedB_true_iff`: the checker's rule accepts exactly the programs without a jump from one
  part of a statement into a block of a neighbouring part.
* non-vacuity: `siblingFor`, `forIntoSelect`, `nestedCross` through the iff (rejected → a cross jump exists), `insideAndOut`
  through the positive form (accepted → no cross jump, for any label).
-/
namespace RbThm.JmpLEnclose
set_option linter.unusedVariables false
set_option linter.unusedSimpArgs false
open RbModel RbModel.Num RbModel.JmpL RbModel.JmpL.Compile
open RbModel.Ast (Pos)

/-! ### 1. witnesses of a failing check -/

/-- a failing `noneIntoB` has a witness -/
theorem noneIntoB_false_elim {outer inner : List Nat} (h : noneIntoB outer inner = false) :
    ∃ L, L ∈ outer ∧ L ∈ inner := by
  refine Classical.byContradiction fun hn => ?_
  have : noneIntoB outer inner = true := noneIntoB_of fun L ho hi => hn ⟨L, ho, hi⟩
  rw [this] at h
  exact absurd h (by decide)

/-- a witness among `outer ++ extra` is among `outer` or among `extra` -/
theorem split_outer {outer extra inner : List Nat} (h : ∃ L, L ∈ outer ++ extra ∧ L ∈ inner) :
    (∃ L, L ∈ outer ∧ L ∈ inner) ∨ (∃ L, L ∈ extra ∧ L ∈ inner) := by
  obtain ⟨L, hL, hi⟩ := h
  rcases List.mem_append.mp hL with ho | he
  · exact .inl ⟨L, ho, hi⟩
  · exact .inr ⟨L, he, hi⟩

/-! ### 2. necessity -/

mutual
/-- **necessity**: the rule fails on `s` only through an outside jump to a label inside a block of `s`, or through a jump
from one part of a statement of `s` into a block of a neighbouring part -/
theorem encB_false_cases : ∀ (s : SStmt) (outer : List Nat), encB outer s = false →
    (∃ L, L ∈ outer ∧ L ∈ insideBlock s) ∨ (∃ L, CrossAt L s)
  | .seq a b, outer, h => by
    simp only [encB, Bool.and_eq_false_iff] at h
    simp only [insideBlock, CrossAt, List.mem_append]
    rcases h with h | h
    · rcases encB_false_cases a _ h with hw | ⟨L, hc⟩
      · rcases split_outer hw with ⟨L, ho, hi⟩ | ⟨L, hj, hi⟩
        · exact .inl ⟨L, ho, .inl hi⟩
        · exact .inr ⟨L, .inr (.inl ⟨hj, hi⟩)⟩
      · exact .inr ⟨L, .inr (.inr (.inl hc))⟩
    · rcases encB_false_cases b _ h with hw | ⟨L, hc⟩
      · rcases split_outer hw with ⟨L, ho, hi⟩ | ⟨L, hj, hi⟩
        · exact .inl ⟨L, ho, .inr hi⟩
        · exact .inr ⟨L, .inl ⟨hj, hi⟩⟩
      · exact .inr ⟨L, .inr (.inr (.inr hc))⟩
  | .ifBlock c thn elifs hasElse els p, outer, h => by
    simp only [encB, Bool.and_eq_false_iff] at h
    simp only [insideBlock, CrossAt]
    rcases h with (h | h) | h
    · rcases encB_false_cases thn _ h with hw | ⟨L, hc⟩
      · rcases split_outer hw with ⟨L, ho, hi⟩ | ⟨L, hj, hi⟩
        · exact .inl ⟨L, ho, List.mem_append.mpr (.inl hi)⟩
        · exact .inr ⟨L, .inl ⟨hj, hi⟩⟩
      · exact .inr ⟨L, .inr (.inr (.inr (.inl hc)))⟩
    · rcases encElifsB_false_cases elifs _ h with hw | ⟨L, hc⟩
      · rcases split_outer hw with ⟨L, ho, hi⟩ | ⟨L, hj, hi⟩
        · exact .inl ⟨L, ho, List.mem_append.mpr (.inr (List.mem_append.mpr (.inl hi)))⟩
        · exact .inr ⟨L, .inr (.inl ⟨hj, hi⟩)⟩
      · exact .inr ⟨L, .inr (.inr (.inr (.inr (.inl hc))))⟩
    · rcases encB_false_cases els _ h with hw | ⟨L, hc⟩
      · rcases split_outer hw with ⟨L, ho, hi⟩ | ⟨L, hj, hi⟩
        · exact .inl ⟨L, ho, List.mem_append.mpr (.inr (List.mem_append.mpr (.inr hi)))⟩
        · exact .inr ⟨L, .inr (.inr (.inl ⟨hj, hi⟩))⟩
      · exact .inr ⟨L, .inr (.inr (.inr (.inr (.inr hc))))⟩
  | .select sel cases hasElse els p, outer, h => by
    simp only [encB, Bool.and_eq_false_iff] at h
    simp only [insideBlock, CrossAt]
    rcases h with (h | h) | h
    · exact .inl (noneIntoB_false_elim h)
    · rcases encCasesB_false_cases cases _ h with hw | ⟨L, hc⟩
      · rcases split_outer hw with ⟨L, ho, hi⟩ | ⟨L, hj, hi⟩
        · exact .inl ⟨L, ho, List.mem_append.mpr (.inl (insideBlockCases_sub_labels cases L hi))⟩
        · exact .inr ⟨L, .inl ⟨hj, hi⟩⟩
      · exact .inr ⟨L, .inr (.inr (.inl hc))⟩
    · rcases encB_false_cases els _ h with hw | ⟨L, hc⟩
      · rcases split_outer hw with ⟨L, ho, hi⟩ | ⟨L, hj, hi⟩
        · exact .inl ⟨L, ho, List.mem_append.mpr (.inr (insideBlock_sub_labels els L hi))⟩
        · exact .inr ⟨L, .inr (.inl ⟨hj, hi⟩)⟩
      · exact .inr ⟨L, .inr (.inr (.inr hc))⟩
  | .forLoop x t lo hi step body p, outer, h => by
    simp only [encB, Bool.and_eq_false_iff] at h
    simp only [insideBlock, CrossAt]
    rcases h with h | h
    · exact .inl (noneIntoB_false_elim h)
    · rcases encB_false_cases body _ h with ⟨L, ho, hi⟩ | hc
      · exact .inl ⟨L, ho, insideBlock_sub_labels body L hi⟩
      · exact .inr hc
  | .while c body p, outer, h => by
    simp only [encB] at h
    simp only [insideBlock, CrossAt]
    exact encB_false_cases body _ h
  | .doLoop c top u body p, outer, h => by
    simp only [encB] at h
    simp only [insideBlock, CrossAt]
    exact encB_false_cases body _ h
  | .skip, _, h => by simp [encB] at h
  | .comment, _, h => by simp [encB] at h
  | .dim _ _ _, _, h => by simp [encB] at h
  | .assign _ _ _ _, _, h => by simp [encB] at h
  | .print _ _, _, h => by simp [encB] at h
  | .data _ _, _, h => by simp [encB] at h
  | .read _ _, _, h => by simp [encB] at h
  | .end_ _, _, h => by simp [encB] at h
  | .label _ _ _, _, h => by simp [encB] at h
  | .goto _ _, _, h => by simp [encB] at h
  | .gosub _ _, _, h => by simp [encB] at h
  | .ret _, _, h => by simp [encB] at h
theorem encElifsB_false_cases : ∀ (el : ElseIfs) (outer : List Nat), encElifsB outer el = false →
    (∃ L, L ∈ outer ∧ L ∈ insideBlockElifs el) ∨ (∃ L, CrossAtElifs L el)
  | .nil, _, h => by simp [encElifsB] at h
  | .cons c body rest, outer, h => by
    simp only [encElifsB, Bool.and_eq_false_iff] at h
    simp only [insideBlockElifs, CrossAtElifs, List.mem_append]
    rcases h with h | h
    · rcases encB_false_cases body _ h with hw | ⟨L, hc⟩
      · rcases split_outer hw with ⟨L, ho, hi⟩ | ⟨L, hj, hi⟩
        · exact .inl ⟨L, ho, .inl hi⟩
        · exact .inr ⟨L, .inl ⟨hj, hi⟩⟩
      · exact .inr ⟨L, .inr (.inr (.inl hc))⟩
    · rcases encElifsB_false_cases rest _ h with hw | ⟨L, hc⟩
      · rcases split_outer hw with ⟨L, ho, hi⟩ | ⟨L, hj, hi⟩
        · exact .inl ⟨L, ho, .inr hi⟩
        · exact .inr ⟨L, .inr (.inl ⟨hj, hi⟩)⟩
      · exact .inr ⟨L, .inr (.inr (.inr hc))⟩
theorem encCasesB_false_cases : ∀ (cs : SCases) (outer : List Nat), encCasesB outer cs = false →
    (∃ L, L ∈ outer ∧ L ∈ insideBlockCases cs) ∨ (∃ L, CrossAtCases L cs)
  | .nil, _, h => by simp [encCasesB] at h
  | .cons conds body rest, outer, h => by
    simp only [encCasesB, Bool.and_eq_false_iff] at h
    simp only [insideBlockCases, CrossAtCases, List.mem_append]
    rcases h with h | h
    · rcases encB_false_cases body _ h with hw | ⟨L, hc⟩
      · rcases split_outer hw with ⟨L, ho, hi⟩ | ⟨L, hj, hi⟩
        · exact .inl ⟨L, ho, .inl hi⟩
        · exact .inr ⟨L, .inl ⟨hj, hi⟩⟩
      · exact .inr ⟨L, .inr (.inr (.inl hc))⟩
    · rcases encCasesB_false_cases rest _ h with hw | ⟨L, hc⟩
      · rcases split_outer hw with ⟨L, ho, hi⟩ | ⟨L, hj, hi⟩
        · exact .inl ⟨L, ho, .inr hi⟩
        · exact .inr ⟨L, .inr (.inl ⟨hj, hi⟩)⟩
      · exact .inr ⟨L, .inr (.inr (.inr hc))⟩
end

/-! ### 3. the characterisation -/

/-- **the rule fails on `s` exactly when** a jump outside `s` names a label inside a FOR body / a block of a SELECT CASE of
`s`, or somewhere in `s` a jump goes from one part of a statement into a block of a neighbouring part -/
theorem encB_iff (outer : List Nat) (s : SStmt) :
    encB outer s = false ↔ (∃ L, L ∈ outer ∧ L ∈ insideBlock s) ∨ (∃ L, CrossAt L s) := by
  constructor
  · exact encB_false_cases s outer
  · rintro (⟨L, ho, hi⟩ | ⟨L, hc⟩)
    · exact outer_jump_into_block_rejected ho hi
    · exact crossAt_rejected s outer L hc

theorem encElifsB_iff (outer : List Nat) (el : ElseIfs) :
    encElifsB outer el = false ↔ (∃ L, L ∈ outer ∧ L ∈ insideBlockElifs el) ∨ (∃ L, CrossAtElifs L el) := by
  constructor
  · exact encElifsB_false_cases el outer
  · rintro (⟨L, ho, hi⟩ | ⟨L, hc⟩)
    · exact outer_jump_into_block_rejected_elifs ho hi
    · exact crossAt_rejected_elifs el outer L hc

theorem encCasesB_iff (outer : List Nat) (cs : SCases) :
    encCasesB outer cs = false ↔ (∃ L, L ∈ outer ∧ L ∈ insideBlockCases cs) ∨ (∃ L, CrossAtCases L cs) := by
  constructor
  · exact encCasesB_false_cases cs outer
  · rintro (⟨L, ho, hi⟩ | ⟨L, hc⟩)
    · exact outer_jump_into_block_rejected_cases ho hi
    · exact crossAt_rejected_cases cs outer L hc

/-- the accepting form -/
theorem encB_true_iff (outer : List Nat) (s : SStmt) :
    encB outer s = true ↔ (∀ L, L ∈ outer → L ∉ insideBlock s) ∧ (∀ L, ¬ CrossAt L s) := by
  constructor
  · intro h
    refine ⟨fun L ho hi => ?_, fun L hc => ?_⟩
    · rw [outer_jump_into_block_rejected ho hi] at h; exact absurd h (by decide)
    · rw [crossAt_rejected s outer L hc] at h; exact absurd h (by decide)
  · rintro ⟨h1, h2⟩
    cases h : encB outer s with
    | true => rfl
    | false =>
      rcases encB_false_cases s outer h with ⟨L, ho, hi⟩ | ⟨L, hc⟩
      · exact absurd hi (h1 L ho)
      · exact absurd hc (h2 L)

/-- **the checker's rule rejects a program exactly when** somewhere in it a jump goes from one part of a statement into a
FOR body / a block of a SELECT CASE of a neighbouring part -/
theorem jumpsEnclosedB_iff (prog : SProgram) : jumpsEnclosedB prog = false ↔ ∃ L, CrossAt L prog.body := by
  simp only [jumpsEnclosedB, encB_iff]
  constructor
  · rintro (⟨L, ho, _⟩ | h)
    · exact absurd ho (List.not_mem_nil)
    · exact h
  · exact .inr

/-- **the checker's rule accepts exactly the programs without a jump from one part of a statement into a block of a
neighbouring part** -/
theorem jumpsEnclosedB_true_iff (prog : SProgram) : jumpsEnclosedB prog = true ↔ ∀ L, ¬ CrossAt L prog.body := by
  simp only [jumpsEnclosedB, encB_true_iff]
  constructor
  · exact fun h => h.2
  · exact fun h => ⟨fun L ho => absurd ho (List.not_mem_nil), h⟩

/-! ### 4. non-vacuity -/

/-- `siblingFor` is rejected (by evaluation), so the iff yields a cross jump in it -/
example : ∃ L, CrossAt L siblingFor.body := (jumpsEnclosedB_iff siblingFor).mp (by decide)

/-- the same through `encB_iff`, with an empty `outer` the first alternative is impossible -/
example : (∃ L, L ∈ ([] : List Nat) ∧ L ∈ insideBlock siblingFor.body) ∨ (∃ L, CrossAt L siblingFor.body) :=
  (encB_iff [] siblingFor.body).mp (by decide)

example : ∃ L, CrossAt L forIntoSelect.body := (jumpsEnclosedB_iff forIntoSelect).mp (by decide +kernel)

example : ∃ L, CrossAt L nestedCross.body := (jumpsEnclosedB_iff nestedCross).mp (by decide +kernel)

/-- the first alternative of `encB_iff` on a non-empty `outer`: a FOR statement with a label in its body and a jump to it
outside; the statement has no cross jump, so the outside jump is the reason -/
example : ∃ L, L ∈ [0] ∧ L ∈ insideBlock (.forLoop 0 .int (.lit (.int 1) ⟨1, 1⟩) (.lit (.int 1) ⟨1, 1⟩) none
    (.label 0 "L" ⟨1, 1⟩) ⟨1, 1⟩) := by
  rcases (encB_iff [0] (.forLoop 0 .int (.lit (.int 1) ⟨1, 1⟩) (.lit (.int 1) ⟨1, 1⟩) none
    (.label 0 "L" ⟨1, 1⟩) ⟨1, 1⟩)).mp (by decide) with h | ⟨L, hc⟩
  · exact h
  · simp [CrossAt] at hc

/-- `insideAndOut` is accepted (by evaluation), so no label has a cross jump in it: neither the jump to the label in the same
FOR body nor the jump that leaves the body counts -/
example : ∀ L, ¬ CrossAt L insideAndOut.body := (jumpsEnclosedB_true_iff insideAndOut).mp (by decide +kernel)

/-- and conversely from the absence of cross jumps to acceptance, on a program whose `CrossAt` is decided by hand: a single
label has no parts -/
example : jumpsEnclosedB ⟨[], .label 0 "L" ⟨1, 1⟩⟩ = true :=
  (jumpsEnclosedB_true_iff _).mpr (fun L h => by simp [CrossAt] at h)

end RbThm.JmpLEnclose
