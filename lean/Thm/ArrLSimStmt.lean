import Thm.ArrLSimExpr
/-!
Arrays layer, simulation part — the simple statement cases: sequencing, assignment, DIM of a scalar, END (ports of
`Thm/ProcSimStmt.lean`), element assignment `a(i…) = e` (right-hand side first, then the path, then the store) and
`DIM` / `REDIM` of an array (the bounds as arguments of `AllocateArrayIntoA`).
-/
namespace RbThm.ArrLSim
set_option linter.unusedVariables false
set_option linter.unusedSimpArgs false
open RbModel RbModel.Num RbModel.ArrL RbModel.ArrL.Compile RbModel.ArrL.Vm
open RbModel.Ast (Pos)
open RbThm.ArrLLen RbThm.ArrLNum

theorem case_seq (code : Code) (fuel : Nat) (ih : IHle code fuel) (a b : SStmt) (sc : Scope) (sfx : String)
    (off : Nat) (s : St) (σ : Vm)
    (hc : CodeAt code off (compileStmt sfx off (.seq a b))) (hpc : σ.pc = off)
    (hr : Rel sc s σ) (hw : Wf sc (.seq a b)) (ha : ActInv σ) :
    StmtPost code sc (sizeStmt (.seq a b)) off σ (ArrL.Ref.exec (fuel + 1) (desugar (.seq a b)) s) := by
  simp only [compileStmt] at hc
  simp only [Wf] at hw
  obtain ⟨hwa, hwb⟩ := hw
  have h1 := ih.self.stmt sc a sfx off s σ hc.append_left hpc hr hwa ha
  simp only [desugar, ArrL.Ref.exec, sizeStmt]
  generalize ArrL.Ref.exec fuel (desugar a) s = ra at h1 ⊢
  obtain ⟨s1, o1⟩ := ra
  cases o1 with
  | normal =>
    obtain ⟨τ, st, hp, hrel, hss⟩ := h1
    have hcb : CodeAt code (off + sizeStmt a) (compileStmt sfx (off + sizeStmt a) b) := by
      have := hc.append_right
      rwa [len_stmt] at this
    have h2 := ih.self.stmt sc b sfx _ s1 τ hcb hp hrel hwb (ha.of_same hss)
    simp only
    exact StmtPost.of_steps st hss (h2.addr (by omega))
  | halted => exact h1
  | error c p => exact h1
  | inexact => trivial
  | outOfFuel => trivial
  | illFormed => trivial
  | tooBig => trivial

theorem case_assign (code : Code) (fuel : Nat) (ih : IHle code fuel) (x : Nat) (t : Ty) (e : ArrL.Expr) (p : Pos)
    (sc : Scope) (sfx : String) (off : Nat) (s : St) (σ : Vm)
    (hc : CodeAt code off (compileStmt sfx off (.assign x t e p))) (hpc : σ.pc = off)
    (hr : Rel sc s σ) (hw : Wf sc (.assign x t e p)) (ha : ActInv σ) :
    StmtPost code sc (sizeStmt (.assign x t e p)) off σ (ArrL.Ref.exec (fuel + 1) (desugar (.assign x t e p)) s) := by
  simp only [compileStmt] at hc
  simp only [Wf] at hw
  obtain ⟨hx, hwe⟩ := hw
  have he := exprTo_correct' code sc e t off s σ hc.append_left hpc hr hwe
  simp only [desugar, ArrL.Ref.exec, sizeStmt]
  generalize ArrL.Ref.evalTo s.env s.arrs e t = r at he ⊢
  cases r with
  | err c q => exact he
  | inexact => trivial
  | illFormed => trivial
  | ok v =>
    obtain ⟨τ, st, hp, hav, hrel, hss, htag⟩ := he
    have hcs : CodeAt code τ.pc (storeVar x p) := by
      have := hc.append_right
      rw [hp]; exact this
    have hst := store_steps code x p τ v hcs hav (hrel.lt hx)
    have hrel2 := hrel.storeSt (w := v) hx htag
    exact ⟨storeSt τ x v, st.trans hst, by simp only [storeSt, hp]; omega, hrel2, hss.trans (SameStacks.storeSt τ x v)⟩

theorem zeroOf_tag (t : Ty) : (zeroOf t).tag = t := by cases t <;> rfl

theorem case_dim (code : Code) (fuel : Nat) (ih : IHle code fuel) (x : Nat) (t : Ty) (p : Pos) (sc : Scope)
    (sfx : String) (off : Nat) (s : St) (σ : Vm)
    (hc : CodeAt code off (compileStmt sfx off (.dim x t p))) (hpc : σ.pc = off)
    (hr : Rel sc s σ) (hw : Wf sc (.dim x t p)) (ha : ActInv σ) :
    StmtPost code sc (sizeStmt (.dim x t p)) off σ (ArrL.Ref.exec (fuel + 1) (desugar (.dim x t p)) s) := by
  simp only [compileStmt] at hc
  simp only [Wf] at hw
  subst hpc
  have h0 : code[σ.pc]? = some (CInstr.allocate t, p) := hc.head
  let σ1 : Vm := Vm.advance (Vm.setA σ (zeroOf t))
  have s1 : Vm.step code σ = .next σ1 := by simp only [Vm.step, h0]; rfl
  have hcs : CodeAt code σ1.pc (storeVar x p) := hc.tail
  have hrel1 : Rel sc s σ1 := (hr.setA _).advance
  have hst := store_steps code x p σ1 (zeroOf t) hcs rfl (hrel1.lt hw)
  have hrel2 := hrel1.storeSt (w := zeroOf t) hw (zeroOf_tag t)
  simp only [desugar, sizeStmt]
  have hev : ArrL.Ref.evalTo s.env s.arrs (ArrL.Expr.lit (zeroOf t) p) t = .ok (zeroOf t) := by
    simp only [ArrL.Ref.evalTo, ArrL.Ref.eval, ArrL.Expr.ty, zeroOf_tag, storeCast, if_true, ArrL.Ref.lift,
      ArrL.Ref.ERes.bind]
  simp only [ArrL.Ref.exec, hev, StmtPost]
  exact ⟨storeSt σ1 x (zeroOf t), Steps.cons s1 hst, rfl, hrel2, ⟨rfl, rfl, rfl, rfl, rfl, id⟩⟩

theorem case_end (code : Code) (fuel : Nat) (p : Pos)
    (sc : Scope) (sfx : String) (off : Nat) (s : St) (σ : Vm)
    (hc : CodeAt code off (compileStmt sfx off (.end_ p))) (hpc : σ.pc = off)
    (hr : Rel sc s σ) :
    StmtPost code sc (sizeStmt (.end_ p)) off σ (ArrL.Ref.exec (fuel + 1) (desugar (.end_ p)) s) := by
  simp only [compileStmt] at hc
  subst hpc
  have h0 : code[σ.pc]? = some (CInstr.halt, p) := hc.head
  simp only [desugar, ArrL.Ref.exec, StmtPost]
  exact ⟨σ, σ, Steps.refl σ, by simp only [Vm.step, h0], hr.out⟩

/-- element assignment `a(i…) = e`: the converted right-hand side stays in A while the path is resolved -/
theorem case_assignElem (code : Code) (fuel : Nat) (ih : IHle code fuel) (a : Nat) (t : Ty) (idx : Exprs)
    (e : ArrL.Expr) (p : Pos) (sc : Scope) (sfx : String) (off : Nat) (s : St) (σ : Vm)
    (hc : CodeAt code off (compileStmt sfx off (.assignElem a t idx e p))) (hpc : σ.pc = off)
    (hr : Rel sc s σ) (hw : Wf sc (.assignElem a t idx e p)) (ha : ActInv σ) :
    StmtPost code sc (sizeStmt (.assignElem a t idx e p)) off σ
      (ArrL.Ref.exec (fuel + 1) (desugar (.assignElem a t idx e p)) s) := by
  simp only [compileStmt] at hc
  simp only [Wf] at hw
  obtain ⟨hwa, hne, hwi, hwe⟩ := hw
  have he := exprTo_correct' code sc e t off s σ hc.append_left.append_left.append_left hpc hr hwe
  simp only [desugar, ArrL.Ref.exec, sizeStmt]
  generalize ArrL.Ref.evalTo s.env s.arrs e t = r at he ⊢
  cases r with
  | err c q => exact he
  | inexact => trivial
  | illFormed => trivial
  | ok v =>
    obtain ⟨τ, st, hp, hav, hrel, hss, htag⟩ := he
    have hcp : CodeAt code τ.pc ([(CInstr.arrPath a, p)] ++ compileIdx idx) := by
      have h1 := hc.append_left
      rw [List.append_assoc] at h1
      have := h1.append_right
      rw [hp]; exact this
    have hpath := path_correct code sc a idx p (idx_correct code sc idx) τ.pc s τ hcp rfl hrel hwi
    simp only
    cases hev : ArrL.Ref.evalIdx s.env s.arrs idx with
    | err c q => rw [hev] at hpath; exact ErrsWith.of_steps st hpath
    | inexact => trivial
    | illFormed => trivial
    | ok is =>
      rw [hev] at hpath
      obtain ⟨υ, st2, hp2, ha2, hrel2, hpaths, hvals, hregs, hctx, htr, hsk⟩ := hpath
      simp only [ArrL.Ref.ERes.bind, ArrL.Ref.getArr]
      cases hA : s.arrs[a]? with
      | none => trivial
      | some oA =>
        cases oA with
        | none => trivial
        | some A =>
          simp only
          have hcw : code[υ.pc]? = some (CInstr.copyAToVarPath, p) := by
            have := hc.append_right.head
            simp only [List.length_append, List.length_singleton] at this
            rw [hp2, hp, ← this]; congr 1; omega
          have hpaths' : υ.paths = ⟨.arr a, is⟩ :: τ.paths := by simpa using hpaths
          have hstep := elem_write_step code sc s υ a t is A v τ.paths p hrel2 hwa hA (evalIdx_ne_nil hev hne)
            hpaths' (by rw [ha2, hav]) htag hcw
          by_cases hb : A.inBounds is = true
          · simp only [hb, if_true] at hstep ⊢
            obtain ⟨V', s1, hAV'⟩ := hstep
            refine ⟨_, st.trans (st2.trans (Steps.one s1)), ?_, ?_, ?_⟩
            · simp only [Vm.advance, hp2, hp]; omega
            · exact hrel2.storeArr hwa hAV' rfl rfl rfl rfl rfl rfl rfl
            · exact hss.trans ⟨hvals, rfl, hregs, hctx, htr, hsk⟩
          · simp only [hb, Bool.false_eq_true, if_false] at hstep ⊢
            simp only [StmtPost]
            rw [← hrel2.out]
            exact ⟨υ, υ, st.trans st2, hstep, rfl⟩

/-! ### DIM / REDIM of an array -/

/-- what a piece of argument-collecting code leaves alone -/
structure ArgStacks (σ τ : Vm) : Prop where
  vals : τ.vals = σ.vals
  paths : τ.paths = σ.paths
  regStack : τ.regStack = σ.regStack
  trace : τ.trace = σ.trace
  skip : σ.skipNewline = false → τ.skipNewline = false

theorem ArgStacks.refl (σ : Vm) : ArgStacks σ σ := ⟨rfl, rfl, rfl, rfl, id⟩

theorem ArgStacks.trans {a b c : Vm} (h₁ : ArgStacks a b) (h₂ : ArgStacks b c) : ArgStacks a c :=
  ⟨h₂.vals.trans h₁.vals, h₂.paths.trans h₁.paths, h₂.regStack.trans h₁.regStack, h₂.trace.trans h₁.trace,
    fun h => h₂.skip (h₁.skip h)⟩

/-- `⟦e⟧ · PushUnnamedByVal`: the value joins the argument list being collected -/
theorem pushVal_correct (code : Code) (sc : Scope) (e : ArrL.Expr) (q : Pos) (off : Nat) (s : St) (σ : Vm) (c : Call)
    (ctx0 : List Call) (hc : CodeAt code off (compileExpr e ++ [(CInstr.pushByVal, q)])) (hpc : σ.pc = off)
    (hr : Rel sc s σ) (hw : EWf sc e) (hctx : σ.ctx = c :: ctx0) :
    match ArrL.Ref.eval s.env s.arrs e with
    | .ok v => ∃ τ, Steps code σ τ ∧ τ.pc = off + (compileExpr e).length + 1 ∧ Rel sc s τ ∧
        τ.ctx = { c with args := c.args ++ [(.sc v, none)] } :: ctx0 ∧ ArgStacks σ τ
    | .err c' q' => ErrsWith code σ c' q' s.out
    | .inexact => True
    | .illFormed => True := by
  have he := expr_correct code sc e off s σ hc.append_left hpc hr hw
  generalize ArrL.Ref.eval s.env s.arrs e = r at he ⊢
  cases r with
  | err c' q' => exact he
  | inexact => trivial
  | illFormed => trivial
  | ok v =>
    obtain ⟨τ, st, hp, ha, hrel, hss, htag⟩ := he
    have hpv : code[τ.pc]? = some (CInstr.pushByVal, q) := by rw [hp]; exact hc.append_right.head
    have hctxτ : τ.ctx = c :: ctx0 := by rw [hss.ctx, hctx]
    refine ⟨Vm.advance { τ with ctx := { c with args := c.args ++ [(.sc v, none)] } :: ctx0 },
      st.trans (Steps.one ?_), by simp only [Vm.advance, hp], hrel.same rfl rfl rfl rfl rfl rfl rfl, rfl,
      ⟨hss.vals, hss.paths, hss.regStack, hss.trace, hss.skip⟩⟩
    simp only [Vm.step, hpv, hctxτ, ha]

/-- the evaluated bounds as the argument list of `AllocateArrayIntoA` -/
def flatArgs : List (Val × Val) → List (RV × Option Path)
  | [] => []
  | (l, h) :: rest => (.sc l, none) :: (.sc h, none) :: flatArgs rest

/-- the bound expressions of a DIM, left to right, collected as arguments -/
theorem dims_correct (code : Code) (sc : Scope) (p : Pos) : ∀ (dims : Dims) (off : Nat) (s : St) (σ : Vm) (c : Call)
    (ctx0 : List Call), CodeAt code off (compileDims p dims) → σ.pc = off → Rel sc s σ → DimsWf sc dims →
    σ.ctx = c :: ctx0 →
    match ArrL.Ref.evalDims s.env s.arrs dims with
    | .ok ds => ∃ τ, Steps code σ τ ∧ τ.pc = off + (compileDims p dims).length ∧ Rel sc s τ ∧
        τ.ctx = { c with args := c.args ++ flatArgs ds } :: ctx0 ∧ ArgStacks σ τ
    | .err c' q' => ErrsWith code σ c' q' s.out
    | .inexact => True
    | .illFormed => True
  | .nil, off, s, σ, c, ctx0, hc, hpc, hr, hw, hctx => by
    simp only [ArrL.Ref.evalDims, compileDims, List.length_nil, Nat.add_zero, flatArgs, List.append_nil]
    exact ⟨σ, Steps.refl σ, hpc, hr, hctx, ArgStacks.refl σ⟩
  | .cons none hi rest, off, s, σ, c, ctx0, hc, hpc, hr, hw, hctx => by
    simp only [DimsWf] at hw
    obtain ⟨hwh, hwr⟩ := hw
    simp only [compileDims] at hc
    subst hpc
    have h0 : code[σ.pc]? = some (CInstr.loadA (.int 0), p) := hc.append_left.append_left.append_left.head
    have h1 : code[σ.pc + 1]? = some (CInstr.pushByVal, p) := hc.append_left.append_left.append_left.tail.head
    let σ1 : Vm := Vm.advance (Vm.setA σ (.int 0))
    let σ2 : Vm := Vm.advance { σ1 with ctx := { c with args := c.args ++ [(.sc (.int 0), none)] } :: ctx0 }
    have s1 : Vm.step code σ = .next σ1 := by simp only [Vm.step, h0]; rfl
    have s2 : Vm.step code σ1 = .next σ2 := by simp only [Vm.step, σ1, Vm.advance, Vm.setA, h1, hctx]; rfl
    have hr2 : Rel sc s σ2 := hr.same rfl rfl rfl rfl rfl rfl rfl
    have hch : CodeAt code (σ.pc + 2) (compileExpr hi ++ [(CInstr.pushByVal, hi.pos)]) := by
      have h := hc.append_left
      rw [List.append_assoc] at h
      exact h.append_right
    have hh := pushVal_correct code sc hi hi.pos (σ.pc + 2) s σ2 _ ctx0 hch rfl hr2 hwh rfl
    simp only [ArrL.Ref.evalDims, ArrL.Ref.ERes.bind]
    have pre : Steps code σ σ2 := Steps.cons s1 (Steps.one s2)
    generalize ArrL.Ref.eval s.env s.arrs hi = rh at hh ⊢
    cases rh with
    | err c' q' => exact ErrsWith.of_steps pre hh
    | inexact => trivial
    | illFormed => trivial
    | ok h =>
      obtain ⟨τ, st, hp, hrel, hctxτ, hst⟩ := hh
      have hcr : CodeAt code τ.pc (compileDims p rest) := by
        have := hc.append_right
        simp only [List.length_append, List.length_cons, List.length_nil] at this
        refine this.at ?_
        rw [hp]; omega
      have hrr := dims_correct code sc p rest τ.pc s τ _ ctx0 hcr rfl hrel hwr hctxτ
      simp only
      generalize ArrL.Ref.evalDims s.env s.arrs rest = rr at hrr ⊢
      cases rr with
      | err c' q' => exact ErrsWith.of_steps (pre.trans st) hrr
      | inexact => trivial
      | illFormed => trivial
      | ok ds =>
        obtain ⟨υ, st2, hp2, hrel2, hctx2, hst2⟩ := hrr
        refine ⟨υ, pre.trans (st.trans st2), ?_, hrel2, ?_, ?_⟩
        · rw [hp2, hp]
          simp only [compileDims, List.length_append, List.length_cons, List.length_nil]; omega
        · rw [hctx2]; simp only [flatArgs, List.append_assoc, List.cons_append, List.nil_append]
        · exact (ArgStacks.trans (a := σ) (b := σ2) ⟨rfl, rfl, rfl, rfl, id⟩ hst).trans hst2
  | .cons (some lo) hi rest, off, s, σ, c, ctx0, hc, hpc, hr, hw, hctx => by
    simp only [DimsWf] at hw
    obtain ⟨hwl, hwh, hwr⟩ := hw
    simp only [compileDims] at hc
    have hcl : CodeAt code off (compileExpr lo ++ [(CInstr.pushByVal, lo.pos)]) :=
      hc.append_left.append_left.append_left
    have hl := pushVal_correct code sc lo lo.pos off s σ c ctx0 hcl hpc hr hwl hctx
    simp only [ArrL.Ref.evalDims, ArrL.Ref.ERes.bind]
    generalize ArrL.Ref.eval s.env s.arrs lo = rl at hl ⊢
    cases rl with
    | err c' q' => exact hl
    | inexact => trivial
    | illFormed => trivial
    | ok l =>
      obtain ⟨σ2, pre, hp0, hr2, hctx2, hst0⟩ := hl
      have hch : CodeAt code σ2.pc (compileExpr hi ++ [(CInstr.pushByVal, hi.pos)]) := by
        have h := hc.append_left
        rw [List.append_assoc] at h
        refine h.append_right.at ?_
        rw [hp0]; simp only [List.length_append, List.length_cons, List.length_nil]; omega
      have hh := pushVal_correct code sc hi hi.pos σ2.pc s σ2 _ ctx0 hch rfl hr2 hwh hctx2
      simp only
      generalize ArrL.Ref.eval s.env s.arrs hi = rh at hh ⊢
      cases rh with
      | err c' q' => exact ErrsWith.of_steps pre hh
      | inexact => trivial
      | illFormed => trivial
      | ok h =>
        obtain ⟨τ, st, hp, hrel, hctxτ, hst⟩ := hh
        have hcr : CodeAt code τ.pc (compileDims p rest) := by
          have := hc.append_right
          simp only [List.length_append, List.length_cons, List.length_nil] at this
          refine this.at ?_
          rw [hp, hp0]; omega
        have hrr := dims_correct code sc p rest τ.pc s τ _ ctx0 hcr rfl hrel hwr hctxτ
        simp only
        generalize ArrL.Ref.evalDims s.env s.arrs rest = rr at hrr ⊢
        cases rr with
        | err c' q' => exact ErrsWith.of_steps (pre.trans st) hrr
        | inexact => trivial
        | illFormed => trivial
        | ok ds =>
          obtain ⟨υ, st2, hp2, hrel2, hctx2', hst2⟩ := hrr
          refine ⟨υ, pre.trans (st.trans st2), ?_, hrel2, ?_, ?_⟩
          · rw [hp2, hp, hp0]
            simp only [compileDims, List.length_append, List.length_cons, List.length_nil]; omega
          · rw [hctx2']; simp only [flatArgs, List.append_assoc, List.cons_append, List.nil_append]
          · exact (hst0.trans hst).trans hst2

def flatInts : List (Int × Int) → List Int
  | [] => []
  | (lo, hi) :: rest => lo :: hi :: flatInts rest

/-- conversion of the collected bounds to INTEGER: `argInts` on the argument list is `convDims` on the value pairs -/
theorem argInts_flat (p : Pos) : ∀ (ds : List (Val × Val)),
    match ArrL.Ref.convDims p ds with
    | .ok bs => argInts (flatArgs ds) = .inl (.ok (flatInts bs))
    | .err c q => q = p ∧ ∃ e, argInts (flatArgs ds) = .inl (.error e) ∧ ArrL.Ref.codeOf e = c
    | .inexact => True
    | .illFormed => True
  | [] => by simp only [ArrL.Ref.convDims, flatArgs, argInts, flatInts]
  | (l, h) :: rest => by
    have ih := argInts_flat p rest
    simp only [ArrL.Ref.convDims, flatArgs, argInts]
    cases hl : cast l .int with
    | err e => simp only [ArrL.Ref.toIndex, ArrL.Ref.ERes.bind]; exact ⟨trivial, e, rfl, rfl⟩
    | inexact => simp only [ArrL.Ref.toIndex, ArrL.Ref.ERes.bind]
    | ok lv =>
      cases lv with
      | long _ => simp only [ArrL.Ref.toIndex, ArrL.Ref.ERes.bind]
      | sgl _ => simp only [ArrL.Ref.toIndex, ArrL.Ref.ERes.bind]
      | dbl _ => simp only [ArrL.Ref.toIndex, ArrL.Ref.ERes.bind]
      | str _ => simp only [ArrL.Ref.toIndex, ArrL.Ref.ERes.bind]
      | int lo =>
        simp only [ArrL.Ref.toIndex, ArrL.Ref.ERes.bind]
        cases hh : cast h .int with
        | err e => simp only [ArrL.Ref.toIndex, ArrL.Ref.ERes.bind]; exact ⟨trivial, e, rfl, rfl⟩
        | inexact => simp only [ArrL.Ref.toIndex, ArrL.Ref.ERes.bind]
        | ok hv =>
          cases hv with
          | long _ => simp only [ArrL.Ref.toIndex, ArrL.Ref.ERes.bind]
          | sgl _ => simp only [ArrL.Ref.toIndex, ArrL.Ref.ERes.bind]
          | dbl _ => simp only [ArrL.Ref.toIndex, ArrL.Ref.ERes.bind]
          | str _ => simp only [ArrL.Ref.toIndex, ArrL.Ref.ERes.bind]
          | int hi =>
            simp only [ArrL.Ref.toIndex, ArrL.Ref.ERes.bind]
            generalize ArrL.Ref.convDims p rest = r at ih ⊢
            cases r with
            | ok bs => simp only [ih, flatInts]
            | err c q =>
              obtain ⟨hq, e, he, hc⟩ := ih
              exact ⟨hq, e, by simp only [he], hc⟩
            | inexact => trivial
            | illFormed => trivial

theorem toDimensions_flat : ∀ (bs : List (Int × Int)),
    toDimensions (flatInts bs) = if bs.any (fun b => decide (b.2 < b.1)) then none else some bs
  | [] => by simp [flatInts, toDimensions]
  | (lo, hi) :: rest => by
    simp only [flatInts, toDimensions, toDimensions_flat rest, List.any_cons]
    by_cases h : hi < lo
    · simp [h]
    · simp only [h, if_false, decide_false, Bool.false_or]
      split <;> simp

/-- the checked element count answers when every extent is positive and the product is small -/
theorem dimsLenChecked_ok : ∀ (bs : List (Int × Int)) (acc : Nat),
    bs.any (fun b => decide (b.2 < b.1)) = false → acc * ArrL.Ref.boxSize bs < 18446744073709551616 →
    Arr.dimsLenChecked bs acc = some (acc * ArrL.Ref.boxSize bs)
  | [], acc, _, _ => by simp [Arr.dimsLenChecked, ArrL.Ref.boxSize]
  | (lo, hi) :: rest, acc, hany, hlt => by
    simp only [List.any_cons, Bool.or_eq_false_iff, decide_eq_false_iff_not] at hany
    obtain ⟨hle, hrest⟩ := hany
    have hext : 1 ≤ (hi - lo + 1).toNat := by omega
    have hpos : ∀ (l : List (Int × Int)), l.any (fun b => decide (b.2 < b.1)) = false → 1 ≤ ArrL.Ref.boxSize l := by
      intro l
      induction l with
      | nil => intro _; simp [ArrL.Ref.boxSize]
      | cons b l ih =>
        obtain ⟨x, y⟩ := b
        intro h
        simp only [List.any_cons, Bool.or_eq_false_iff, decide_eq_false_iff_not] at h
        have h1 : 1 ≤ (y - x + 1).toNat := by omega
        have h2 := ih h.2
        simp only [ArrL.Ref.boxSize]
        exact Nat.mul_le_mul h1 h2
    have hb := hpos rest hrest
    simp only [ArrL.Ref.boxSize] at hlt ⊢
    have h1 : ¬ (hi - lo + 1 < 0) := by omega
    have hmul : acc * (hi - lo + 1).toNat ≤ acc * ((hi - lo + 1).toNat * ArrL.Ref.boxSize rest) := by
      apply Nat.mul_le_mul_left
      exact Nat.le_mul_of_pos_right _ hb
    have h2 : ¬ (acc * (hi - lo + 1).toNat ≥ 18446744073709551616) := by omega
    simp only [Arr.dimsLenChecked, h1, h2, if_false]
    rw [dimsLenChecked_ok rest _ hrest (by rw [Nat.mul_assoc]; exact hlt), Nat.mul_assoc]

theorem rget_empty (t : Ty) (bounds : List (Int × Int)) (idx : List Int) :
    (ArrL.Ref.RArr.mk t bounds []).get idx = zeroOf t := by
  simp [ArrL.Ref.RArr.get, ArrL.Ref.lookupCell]

/-- a fresh VM array represents the fresh reference array -/
theorem arrRel_new (t : Ty) (bounds : List (Int × Int)) :
    ArrRel t ⟨t, bounds, []⟩ (Arr.VArray.new bounds (zeroOf t)) := by
  refine ⟨rfl, rfl, RbThm.C04.new_wf _ _, ?_, ?_⟩
  · intro idx hb
    rw [rget_empty]
    exact RbThm.C04.getElem_new _ hb
  · intro v hv
    simp only [Arr.VArray.new] at hv
    rw [List.eq_of_mem_replicate hv]; exact zeroOf_tag t

/-- what `AllocateArrayIntoA` does with the collected bounds is what `Ref.dimArray` prescribes -/
theorem allocArray_spec (t : Ty) (p : Pos) (ds : List (Val × Val)) :
    match ArrL.Ref.convDims p ds with
    | .ok bs =>
      if bs.any (fun b => decide (b.2 < b.1)) then allocArray t (flatArgs ds) = .err ArrL.Ref.codeSubscript
      else if ArrL.Ref.boxSize bs > ArrL.Ref.sizeLimit then True
      else allocArray t (flatArgs ds) = .ok (Arr.VArray.new bs (zeroOf t))
    | .err c q => q = p ∧ allocArray t (flatArgs ds) = .err c
    | .inexact => True
    | .illFormed => True := by
  have h := argInts_flat p ds
  generalize ArrL.Ref.convDims p ds = r at h ⊢
  cases r with
  | inexact => trivial
  | illFormed => trivial
  | err c q =>
    obtain ⟨hq, e, he, hc⟩ := h
    exact ⟨hq, by simp only [allocArray, he, hc]⟩
  | ok bs =>
    simp only at h ⊢
    by_cases hany : bs.any (fun b => decide (b.2 < b.1)) = true
    · simp only [hany, if_true, allocArray, h, toDimensions_flat]
    · have hany' : bs.any (fun b => decide (b.2 < b.1)) = false := by simpa using hany
      simp only [hany', Bool.false_eq_true, if_false]
      by_cases hbig : ArrL.Ref.boxSize bs > ArrL.Ref.sizeLimit
      · simp only [hbig, if_true]
      · simp only [hbig, if_false]
        have hsm : ArrL.Ref.boxSize bs ≤ 1000000 := by simp only [ArrL.Ref.sizeLimit] at hbig; omega
        have hlen := dimsLenChecked_ok bs 1 hany' (by omega)
        rw [Nat.one_mul] at hlen
        simp only [allocArray, h, toDimensions_flat, hany', Bool.false_eq_true, if_false, hlen, hbig]

/-- `DIM a(l TO u, …)` / `REDIM`: the bounds as arguments, `AllocateArrayIntoA`, the store into the variable -/
theorem case_dimArr (code : Code) (fuel : Nat) (ih : IHle code fuel) (a : Nat) (t : Ty) (dims : Dims) (p : Pos)
    (sc : Scope) (sfx : String) (off : Nat) (s : St) (σ : Vm)
    (hc : CodeAt code off (compileStmt sfx off (.dimArr a t dims p))) (hpc : σ.pc = off)
    (hr : Rel sc s σ) (hw : Wf sc (.dimArr a t dims p)) (ha : ActInv σ) :
    StmtPost code sc (sizeStmt (.dimArr a t dims p)) off σ
      (ArrL.Ref.exec (fuel + 1) (desugar (.dimArr a t dims p)) s) := by
  simp only [compileStmt] at hc
  simp only [Wf] at hw
  obtain ⟨hwa, hwd⟩ := hw
  subst hpc
  have h0 : code[σ.pc]? = some (CInstr.beginArgs, p) := hc.append_left.append_left.head
  let σ1 : Vm := Vm.advance { σ with ctx := ⟨[], none⟩ :: σ.ctx }
  have s1 : Vm.step code σ = .next σ1 := by simp only [Vm.step, h0]; rfl
  have hr1 : Rel sc s σ1 := hr.same rfl rfl rfl rfl rfl rfl rfl
  have hcd : CodeAt code (σ.pc + 1) (compileDims p dims) := by
    simpa using hc.append_left.append_right
  have hd := dims_correct code sc p dims (σ.pc + 1) s σ1 ⟨[], none⟩ σ.ctx hcd rfl hr1 hwd rfl
  simp only [desugar, ArrL.Ref.exec, ArrL.Ref.dimArray, sizeStmt]
  generalize ArrL.Ref.evalDims s.env s.arrs dims = rd at hd ⊢
  cases rd with
  | err c q => exact ErrsWith.of_steps (Steps.one s1) hd
  | inexact => trivial
  | illFormed => trivial
  | ok ds =>
    obtain ⟨τ, st, hp, hrel, hctx, hst⟩ := hd
    have hctx' : τ.ctx = ⟨flatArgs ds, none⟩ :: σ.ctx := by simpa using hctx
    have pre : Steps code σ τ := (Steps.one s1).trans st
    have hal : code[τ.pc]? = some (CInstr.allocArr t, p) := by
      have := hc.append_right.head
      simp only [List.length_append, List.length_singleton] at this
      rw [hp, ← this]; congr 1; omega
    have hap : code[τ.pc + 1]? = some (CInstr.arrPath a, p) := by
      have := hc.append_right.tail.head
      simp only [List.length_append, List.length_singleton] at this
      rw [hp, ← this]; congr 1; omega
    have hcw : code[τ.pc + 1 + 1]? = some (CInstr.copyAToVarPath, p) := by
      have := hc.append_right.tail.tail.head
      simp only [List.length_append, List.length_singleton] at this
      rw [hp, ← this]; congr 1; omega
    have hspec := allocArray_spec t p ds
    simp only [ArrL.Ref.ERes.bind]
    generalize ArrL.Ref.convDims p ds = rc at hspec ⊢
    cases rc with
    | inexact => trivial
    | illFormed => trivial
    | err c q =>
      obtain ⟨hq, hall⟩ := hspec
      subst hq
      simp only [ArrL.Ref.outcomeOf, StmtPost]
      refine ⟨τ, { τ with ctx := σ.ctx }, pre, ?_, hrel.out⟩
      simp only [Vm.step, hal, hctx', hall]
    | ok bs =>
      simp only at hspec ⊢
      by_cases hany : bs.any (fun b => decide (b.2 < b.1)) = true
      · simp only [hany, if_true] at hspec ⊢
        simp only [StmtPost]
        refine ⟨τ, { τ with ctx := σ.ctx }, pre, ?_, hrel.out⟩
        simp only [Vm.step, hal, hctx', hspec]
      · have hany' : bs.any (fun b => decide (b.2 < b.1)) = false := by simpa using hany
        simp only [hany', Bool.false_eq_true, if_false] at hspec ⊢
        by_cases hbig : ArrL.Ref.boxSize bs > ArrL.Ref.sizeLimit
        · simp only [hbig, if_true, StmtPost]
        · simp only [hbig, if_false] at hspec ⊢
          let V : VArr := Arr.VArray.new bs (zeroOf t)
          let τ1 : Vm := Vm.advance { Vm.setRA τ (.arr V) with ctx := σ.ctx }
          let τ2 : Vm := Vm.advance { τ1 with paths := ⟨.arr a, []⟩ :: τ.paths }
          let τ3 : Vm := Vm.advance { τ2 with arrs := τ.arrs.set a (some V), paths := τ.paths }
          have t1 : Vm.step code τ = .next τ1 := by
            simp only [Vm.step, hal, hctx', hspec]; rfl
          have t2 : Vm.step code τ1 = .next τ2 := by
            simp only [Vm.step, τ1, Vm.advance, Vm.setRA, hap]; rfl
          have halt : a < τ.arrs.length := hrel.arrLt hwa
          have t3 : Vm.step code τ2 = .next τ3 := by
            simp only [Vm.step, τ2, τ1, Vm.advance, Vm.setRA, hcw, writePath, halt, if_true]; rfl
          refine ⟨τ3, pre.trans (Steps.cons t1 (Steps.cons t2 (Steps.one t3))), ?_, ?_, ?_⟩
          · simp only [τ3, τ2, τ1, Vm.advance, Vm.setRA, hp, ← len_dims p dims]; omega
          · exact hrel.storeArr hwa (arrRel_new t bs) rfl rfl rfl rfl rfl rfl rfl
          · exact ⟨hst.vals, hst.paths, hst.regStack, rfl, hst.trace, hst.skip⟩

end RbThm.ArrLSim
